/-
Model of the format objects in `fpy2/number/context/*.py` (C16): encodings, ordinals,
normalisation, representability, min/max value queries.  Function by function as the code is
written today (after the repairs F2, F15, F16, F23).  Core Lean only.

Conventions (same as `Ctx.lean`): Python `a << k` on non-negative ints is `a * 2^k` (or `2^k * a`),
`a >> k` is `a / 2^k`, `a & bitmask(k)` is `a % 2^k`.  Python `|` is kept as `|||` (bitwise OR is
*not* addition when fields overlap, and the code does OR overlapping fields in one place).
`Float(...)` objects are `FV`; a NaN keeps the sign bit the object stores.
Format objects exist only for parameters their constructors accept (`valid` predicates below);
the functions are total but are meant (and proved about) on valid parameters only.
`RuntimeError` arms (unreachable: `representable_in` refuses first) are mapped to `Err.assertion`.
-/
import Fpy.Model.Num.Ctx
namespace Fpy.Enc
open Fpy

/-- the code's idiom `c << off if off > 0 else c >> -off if off < 0 else c` -/
def shiftBy (c : Nat) (off : Int) : Nat :=
  if off > 0 then c * 2 ^ off.toNat else if off < 0 then c / 2 ^ (-off).toNat else c

/-- the reversed idiom `c >> off if off > 0 else c << -off if off < 0 else c` -/
def shiftDown (c : Nat) (off : Int) : Nat :=
  if off > 0 then c / 2 ^ off.toNat else if off < 0 then c * 2 ^ (-off).toNat else c

def finite? : FV → Option RF | .fin x => some x | _ => none

/-! ## MPSFloatFormat (`mps_float.py`) -/

structure MPSFmt where
  p : Nat
  emin : Int
  enableNan : Bool := true
  enableInf : Bool := true
deriving Repr, Inhabited, DecidableEq

namespace MPSFmt
def expmin (f : MPSFmt) : Int := f.emin - f.p + 1
def nmin (f : MPSFmt) : Int := f.expmin - 1

/-- `representable_in` on the finite part -/
def reprRF (f : MPSFmt) (x : RF) : Bool :=
  if x.c = 0 then true
  else if x.p > f.p && x.c % 2 ^ (x.p - f.p) != 0 then false
  else x.isMoreSignificant f.nmin

/-- `MPSFloatFormat.representable_in` -/
def repr (f : MPSFmt) : FV → Bool
  | .nan _ => f.enableNan
  | .inf _ => f.enableInf
  | .fin x => f.reprRF x

/-- `MPSFloatFormat.normalize` -/
def normalize (f : MPSFmt) (v : FV) : Except Err FV :=
  if !f.repr v then .error .typeError else
  match v with
  | .nan s => .ok (.nan s)
  | .inf s => .ok (.inf s)
  | .fin x =>
    if x.c = 0 then .ok (.fin ⟨x.s, f.expmin, 0⟩)
    else match x.normalize (some f.p) (some f.nmin) with
      | none => .error .valueError
      | some xr => .ok (.fin ⟨x.s, xr.exp, xr.c⟩)

/-- `MPSFloatFormat._to_ordinal` -/
def ordRF (f : MPSFmt) (x : RF) : Int :=
  if x.c = 0 then 0
  else
    let em : Int × Nat :=
      if x.e ≤ f.emin then (0, shiftBy x.c (x.exp - f.expmin))
      else (x.e - f.emin + 1, shiftDown x.c ((x.p : Int) - f.p) % 2 ^ (f.p - 1))
    let uord : Int := em.1 * 2 ^ (f.p - 1) + em.2
    if x.s then -uord else uord

/-- `MPSFloatFormat.to_ordinal` -/
def toOrdinal (f : MPSFmt) (v : FV) (infval : Bool) : Except Err Int :=
  if !f.repr v then .error .valueError
  else if infval then .error .valueError
  else match v with
    | .fin x => .ok (f.ordRF x)
    | _ => .error .valueError

/-- the finite part of `MPSFloatFormat.from_ordinal` -/
def unordRF (f : MPSFmt) (k : Int) : RF :=
  if k = 0 then ⟨false, 0, 0⟩
  else
    let u := k.natAbs
    let eord := u / 2 ^ (f.p - 1)
    let mord := u % 2 ^ (f.p - 1)
    if eord = 0 then ⟨k < 0, f.expmin, mord⟩
    else ⟨k < 0, f.expmin + ((eord : Int) - 1), 2 ^ (f.p - 1) ||| mord⟩

/-- `MPSFloatFormat.from_ordinal` -/
def fromOrdinal (f : MPSFmt) (k : Int) (infval : Bool) : Except Err FV :=
  if infval then .error .valueError else .ok (.fin (f.unordRF k))

def minval (f : MPSFmt) (s : Bool) : FV := .fin ⟨s, f.expmin, 1⟩
def zero (f : MPSFmt) (s : Bool) : FV := .fin ⟨s, f.expmin, 0⟩
end MPSFmt

/-! ## MPBFloatFormat (`mpb_float.py`) -/

structure MPBFmt where
  p : Nat
  emin : Int
  posMax : RF
  negMax : RF
  enableNan : Bool := true
  enableInf : Bool := true
deriving Repr, Inhabited, DecidableEq

namespace MPBFmt
def mps (f : MPBFmt) : MPSFmt := { p := f.p, emin := f.emin, enableNan := f.enableNan, enableInf := f.enableInf }
def posOrd (f : MPBFmt) : Int := f.mps.ordRF f.posMax
def negOrd (f : MPBFmt) : Int := f.mps.ordRF f.negMax

/-- `MPBFloatFormat.representable_in` -/
def repr (f : MPBFmt) : FV → Bool
  | .nan _ => f.enableNan
  | .inf _ => f.enableInf
  | .fin x =>
    if !f.mps.reprRF x then false
    else if x.c = 0 then true
    else if x.s then f.negMax.le x else x.le f.posMax

def normalize (f : MPBFmt) (v : FV) : Except Err FV :=
  if !f.repr v then .error .typeError else f.mps.normalize v

def toOrdinal (f : MPBFmt) (v : FV) (infval : Bool) : Except Err Int :=
  if !f.repr v then .error .valueError
  else match v with
    | .nan _ => .error .typeError
    | .inf s => if !infval then .error .typeError else if s then .ok (f.negOrd - 1) else .ok (f.posOrd + 1)
    | .fin _ => f.mps.toOrdinal v false

def fromOrdinal (f : MPBFmt) (k : Int) (infval : Bool) : Except Err FV :=
  let allowInf := infval && f.enableInf
  if k > f.posOrd then
    if !allowInf || k > f.posOrd + 1 then .error .valueError else .ok (.inf false)
  else if k < f.negOrd then
    if !allowInf || k < f.negOrd - 1 then .error .valueError else .ok (.inf true)
  else f.mps.fromOrdinal k false

def maxval (f : MPBFmt) (s : Bool) : FV := .fin (if s then f.negMax else f.posMax)
end MPBFmt

/-! ## EFloatFormat / IEEEFormat (`efloat.py`, `ieee754.py`) -/

structure EF where
  es : Nat
  nbits : Nat
  inf : Bool
  kind : NanKind
  eoff : Int
deriving Repr, Inhabited, DecidableEq

namespace EF
/-- the constructor accepts exactly these -/
def valid (f : EF) : Bool := efloatValid f.es f.nbits f.inf f.kind
def pmax (f : EF) : Nat := (efloatMpb f.es f.nbits f.inf f.kind f.eoff).1
def emin (f : EF) : Int := (efloatMpb f.es f.nbits f.inf f.kind f.eoff).2.1
def maxv (f : EF) : RF := (efloatMpb f.es f.nbits f.inf f.kind f.eoff).2.2
/-- `_mpb_fmt` (built with the default `enable_nan = enable_inf = True`) -/
def mpb (f : EF) : MPBFmt :=
  { p := f.pmax, emin := f.emin, posMax := f.maxv, negMax := { f.maxv with s := true } }
def m (f : EF) : Nat := f.pmax - 1
def expmin (f : EF) : Int := f.emin - f.pmax + 1
def hasNonzero (f : EF) : Bool := efloatHasNonzero f.nbits f.inf f.kind

/-- `EFloatFormat.representable_in` -/
def repr (f : EF) (v : FV) : Bool :=
  if v.isInf && !f.inf then false
  else if v.isNan && f.kind == .none then false
  else if !f.mpb.repr v then false
  else if v.isNar then true
  else if v.isZero then !(v.sign && f.kind == .negZero)
  else f.hasNonzero

/-- the `(ebits, mbits)` computed by `EFloatFormat.encode` -/
def encodeFields (f : EF) (v : FV) : Except Err (Nat × Nat) :=
  let emask := bitmask f.es
  match v with
  | .nan _ =>
    match f.kind with
    | .ieee =>
      if f.inf then (if f.m = 0 then .error .valueError /- `1 << -1` -/ else .ok (emask, 2 ^ (f.m - 1)))
      else .ok (emask, 0)
    | .maxVal => .ok (emask, bitmask f.m)
    | .negZero => .ok (0, 0)
    | .none => .error .assertion
  | .inf _ =>
    match f.kind with
    | .ieee => .ok (emask, 0)
    | .maxVal => if f.pmax = 1 then .ok (emask - 1, 0) else .ok (emask, bitmask f.m - 1)
    | .negZero | .none => .ok (emask, bitmask f.m)
  | .fin x =>
    if x.c = 0 then .ok (0, 0)
    else if x.e ≤ f.emin then .ok (0, shiftBy x.c (x.exp - f.expmin))
    else .ok ((x.e - f.emin + 1).toNat, shiftDown x.c ((x.p : Int) - f.pmax) % 2 ^ (f.pmax - 1))

/-- the sign bit `encode` writes: `x.s`, except that the NaN of a NEG_ZERO format always sets it -/
def encodeSign (f : EF) (v : FV) : Nat :=
  match v with
  | .nan s => if f.kind == .negZero then 1 else (if s then 1 else 0)
  | _ => if v.sign then 1 else 0

/-- `EFloatFormat.encode` -/
def encode (f : EF) (v : FV) : Except Err Nat :=
  if !f.repr v then .error .valueError else
  let sbit : Nat := f.encodeSign v
  match f.encodeFields v with
  | .error e => .error e
  | .ok (ebits, mbits) => .ok ((2 ^ (f.nbits - 1) * sbit ||| 2 ^ f.m * ebits) ||| mbits)

/-- `EFloatFormat.decode` -/
def decode (f : EF) (b : Nat) : Except Err FV :=
  if b ≥ 2 ^ f.nbits then .error .typeError else
  let emask := bitmask f.es
  let sbit := b / 2 ^ (f.nbits - 1)
  let ebits := b / 2 ^ f.m % 2 ^ f.es
  let mbits := b % 2 ^ f.m
  let s := sbit != 0
  let normal : FV := .fin ⟨s, f.expmin + ((ebits : Int) - 1), 2 ^ f.m ||| mbits⟩
  let ordBits := 2 ^ f.m * ebits ||| mbits
  match f.kind with
  | .ieee =>
    if ebits = 0 then .ok (.fin ⟨s, f.expmin, mbits⟩)
    else if ebits = emask then (if f.inf && mbits == 0 then .ok (.inf s) else .ok (.nan s))
    else .ok normal
  | .maxVal =>
    let nanBits := bitmask (f.nbits - 1)
    if ordBits = nanBits then .ok (.nan s)
    else if f.inf && ordBits == nanBits - 1 then .ok (.inf s)
    else if ebits = 0 then .ok (.fin ⟨s, f.expmin, mbits⟩)
    else .ok normal
  | .negZero | .none =>
    if f.inf && ordBits == bitmask (f.nbits - 1) then .ok (.inf s)
    else if ebits = 0 then
      if mbits = 0 then
        (if s && f.kind == .negZero then .ok (.nan s) else .ok (.fin ⟨s, f.expmin, 0⟩))
      else .ok (.fin ⟨s, f.expmin, mbits⟩)
    else .ok normal

def normalize (f : EF) (v : FV) : Except Err FV :=
  if !f.repr v then .error .typeError else f.mpb.normalize v

def toOrdinal (f : EF) (v : FV) (infval : Bool) : Except Err Int :=
  if !f.repr v then .error .typeError else f.mpb.toOrdinal v infval

def fromOrdinal (f : EF) (k : Int) (infval : Bool) : Except Err FV := f.mpb.fromOrdinal k infval

/-- the `x = …; if not representable_in(x): raise ValueError; return x` wrapper -/
def checked (f : EF) (v : FV) : Except Err FV := if f.repr v then .ok v else .error .valueError

def zero (f : EF) (s : Bool) : Except Err FV := f.checked (f.mpb.mps.zero s)
def minval (f : EF) (s : Bool) : Except Err FV := f.checked (f.mpb.mps.minval s)
def maxval (f : EF) (s : Bool) : Except Err FV := f.checked (f.mpb.maxval s)
def largest (f : EF) : Except Err FV := f.maxval false
def smallest (f : EF) : Except Err FV :=
  let x := f.mpb.maxval true
  if x.isZero then f.zero false else .ok x
end EF

/-! ## MPFixedFormat (`mp_fixed.py`) -/

structure MPFixFmt where
  nmin : Int
  enableNan : Bool := false
  enableInf : Bool := false
  negZero : Bool := true
deriving Repr, Inhabited, DecidableEq

namespace MPFixFmt
def expmin (f : MPFixFmt) : Int := f.nmin + 1

def repr (f : MPFixFmt) (v : FV) : Bool :=
  if v.isZero && v.sign && !f.negZero then false
  else match v with
    | .nan _ => f.enableNan
    | .inf _ => f.enableInf
    | .fin x => x.isMoreSignificant f.nmin

/-- `MPFixedFormat.normalize`: the significand moved to `expmin` -/
def normalize (f : MPFixFmt) (v : FV) : Except Err FV :=
  if !f.repr v then .error .typeError else
  match v with
  | .nan s => .ok (.nan s)
  | .inf s => .ok (.inf s)
  | .fin x =>
    let off := x.exp - f.expmin
    if off > 0 then .ok (.fin ⟨x.s, x.exp - off, x.c * 2 ^ off.toNat⟩)
    else if off < 0 then .ok (.fin ⟨x.s, x.exp - off, x.c / 2 ^ (-off).toNat⟩)
    else .ok (.fin x)

/-- `_to_ordinal` is `fixOrdinal` of `Ctx.lean` -/
def ordRF (f : MPFixFmt) (x : RF) : Int := fixOrdinal f.nmin x

def toOrdinal (f : MPFixFmt) (v : FV) (infval : Bool) : Except Err Int :=
  if !f.repr v then .error .valueError
  else if infval then .error .valueError
  else match v with
    | .fin x => .ok (f.ordRF x)
    | _ => .error .valueError

def unordRF (f : MPFixFmt) (k : Int) : RF :=
  if k = 0 then ⟨false, 0, 0⟩ else ⟨k < 0, f.expmin, k.natAbs⟩

def fromOrdinal (f : MPFixFmt) (k : Int) (infval : Bool) : Except Err FV :=
  if infval then .error .valueError else .ok (.fin (f.unordRF k))

def minval (f : MPFixFmt) (s : Bool) : FV := .fin ⟨s, f.expmin, 1⟩
end MPFixFmt

/-! ## MPBFixedFormat (`mpb_fixed.py`) -/

structure MPBFixFmt where
  nmin : Int
  posMax : RF
  negMax : RF
  enableNan : Bool := false
  enableInf : Bool := false
  negZero : Bool := true
deriving Repr, Inhabited, DecidableEq

namespace MPBFixFmt
def mp (f : MPBFixFmt) : MPFixFmt := { nmin := f.nmin, enableNan := f.enableNan, enableInf := f.enableInf, negZero := f.negZero }
def posOrd (f : MPBFixFmt) : Int := fixOrdinal f.nmin f.posMax
def negOrd (f : MPBFixFmt) : Int := fixOrdinal f.nmin f.negMax
def negIsNegative (f : MPBFixFmt) : Bool := f.negMax.c != 0 && f.negMax.s

def repr (f : MPBFixFmt) (v : FV) : Bool :=
  if !f.mp.repr v then false
  else match v with
    | .fin x => if x.c = 0 then true else if x.s then f.negMax.le x else x.le f.posMax
    | _ => true

def normalize (f : MPBFixFmt) (v : FV) : Except Err FV :=
  if !f.repr v then .error .typeError else f.mp.normalize v

def toOrdinal (f : MPBFixFmt) (v : FV) (infval : Bool) : Except Err Int :=
  if !f.repr v then .error .typeError
  else match v with
    | .nan _ => .error .valueError
    | .inf s => if !infval then .error .valueError else if s then .ok (f.negOrd - 1) else .ok (f.posOrd + 1)
    | .fin _ => f.mp.toOrdinal v false

def fromOrdinal (f : MPBFixFmt) (k : Int) (infval : Bool) : Except Err FV :=
  let posMaxOrd := if infval then f.posOrd + 1 else f.posOrd
  let negMaxOrd := if infval then f.negOrd - 1 else f.negOrd
  if k > posMaxOrd || k < negMaxOrd then .error .valueError
  else if k > f.posOrd then .ok (.inf false)
  else if k < f.negOrd then .ok (.inf true)
  else f.mp.fromOrdinal k false

def minval (f : MPBFixFmt) (s : Bool) : Except Err FV :=
  if s && !f.negIsNegative then .error .valueError else .ok (f.mp.minval s)

def maxval (f : MPBFixFmt) (s : Bool) : Except Err FV :=
  if s then (if !f.negIsNegative then .error .valueError else .ok (.fin f.negMax))
  else .ok (.fin f.posMax)

def largest (f : MPBFixFmt) : Except Err FV := f.maxval false
def smallest (f : MPBFixFmt) : Except Err FV :=
  if f.negIsNegative then f.maxval true else .ok (.fin ⟨false, 0, 0⟩)
end MPBFixFmt

/-! ## FixedFormat: two's complement (`fixed.py`) -/

structure FX where
  signed : Bool
  scale : Int
  nbits : Nat
deriving Repr, Inhabited, DecidableEq

namespace FX
def valid (f : FX) : Bool := if f.signed then f.nbits ≥ 2 else f.nbits ≥ 1
def mpb (f : FX) : MPBFixFmt :=
  { nmin := f.scale - 1, posMax := (fixedBounds f.signed f.scale f.nbits).1,
    negMax := (fixedBounds f.signed f.scale f.nbits).2, negZero := false }

/-- `FixedFormat.encode` -/
def encode (f : FX) (v : FV) : Except Err Nat :=
  if !f.mpb.repr v then .error .valueError else
  match v with
  | .fin x =>
    let c : Nat :=
      if x.c = 0 then 0
      else
        let off := x.exp - f.scale
        let c := if off ≥ 0 then x.c * 2 ^ off.toNat else x.c / 2 ^ (-off).toNat
        if f.signed && x.s then 2 ^ f.nbits - c else c
    if c > bitmask f.nbits then .error .overflowError else .ok c
  | _ => .error .assertion   -- unreachable: NaN/Inf are never representable here

/-- `FixedFormat.decode` -/
def decode (f : FX) (b : Nat) : Except Err FV :=
  if b ≥ 2 ^ f.nbits then .error .valueError else
  if f.signed then
    if !b.testBit (f.nbits - 1) then .ok (.fin ⟨false, f.scale, b⟩)
    else .ok (.fin ⟨true, f.scale, 2 ^ f.nbits - b⟩)
  else .ok (.fin ⟨false, f.scale, b⟩)
end FX

/-! ## SMFixedFormat: sign-magnitude (`sm_fixed.py`) -/

structure SM where
  scale : Int
  nbits : Nat
deriving Repr, Inhabited, DecidableEq

namespace SM
def valid (f : SM) : Bool := f.nbits ≥ 2
def mpb (f : SM) : MPBFixFmt :=
  { nmin := f.scale - 1, posMax := ⟨false, f.scale, bitmask (f.nbits - 1)⟩,
    negMax := ⟨true, f.scale, bitmask (f.nbits - 1)⟩ }

/-- `SMFixedFormat.encode` -/
def encode (f : SM) (v : FV) : Except Err Nat :=
  if !f.mpb.repr v then .error .valueError else
  match v with
  | .fin x =>
    let sbit : Nat := if x.s then 1 else 0
    let c : Nat :=
      if x.c = 0 then 0
      else
        let off := x.exp - f.scale
        if off ≥ 0 then x.c * 2 ^ off.toNat else x.c / 2 ^ (-off).toNat
    .ok (2 ^ (f.nbits - 1) * sbit ||| c)
  | _ => .error .assertion   -- unreachable

/-- `SMFixedFormat.decode` -/
def decode (f : SM) (b : Nat) : Except Err FV :=
  if b ≥ 2 ^ f.nbits then .error .valueError else
  .ok (.fin ⟨b / 2 ^ (f.nbits - 1) % 2 != 0, f.scale, b % 2 ^ (f.nbits - 1)⟩)
end SM

/-! ## ExpFormat: powers of two (`exponential.py`) -/

structure ExpFmt where
  nbits : Nat
  eoff : Int
deriving Repr, Inhabited, DecidableEq

namespace ExpFmt
def valid (f : ExpFmt) : Bool := f.nbits ≥ 1
def emax (f : ExpFmt) : Int := (bitmask (f.nbits - 1) : Int) + f.eoff
def emin (f : ExpFmt) : Int := 1 - (bitmask (f.nbits - 1) : Int) + f.eoff - 1
def ebias (f : ExpFmt) : Int := (bitmask (f.nbits - 1) : Int) - f.eoff

/-- `MPFloatFormat(1).representable_in` on a finite value -/
def mp1Repr (x : RF) : Bool :=
  if x.c = 0 then true else if x.p ≤ 1 then true else x.c % 2 ^ (x.p - 1) == 0

def repr (f : ExpFmt) : FV → Bool
  | .nan _ => true
  | .inf _ => false
  | .fin x =>
    if !mp1Repr x then false
    else if !(x.c != 0 && !x.s) then false
    else !(x.e < f.emin || x.e > f.emax)

def encode (f : ExpFmt) (v : FV) : Except Err Nat :=
  if !f.repr v then .error .valueError else
  match v with
  | .nan _ => .ok (bitmask f.nbits)
  | .fin x => .ok (x.e + f.ebias).toNat
  | .inf _ => .error .valueError   -- unreachable (`x.e` raises)

def decode (f : ExpFmt) (b : Nat) : Except Err FV :=
  if b ≥ 2 ^ f.nbits then .error .valueError
  else if b = bitmask f.nbits then .ok (.nan false)
  else .ok (.fin ⟨false, (b : Int) - f.ebias, 1⟩)

/-- `MPFloatFormat(1).normalize` behind `ExpFormat.normalize` -/
def normalize (f : ExpFmt) (v : FV) : Except Err FV :=
  if !f.repr v then .error .valueError else
  match v with
  | .nan s => .ok (.nan s)
  | .inf s => .ok (.inf s)
  | .fin x =>
    if x.c = 0 then .ok (.fin ⟨x.s, 0, 0⟩)
    else match x.normalize (some 1) none with
      | none => .error .valueError
      | some xr => .ok (.fin ⟨x.s, xr.exp, xr.c⟩)

def toOrdinal (f : ExpFmt) (v : FV) (infval : Bool) : Except Err Int :=
  if !f.repr v then .error .valueError
  else if infval then .error .valueError
  else match v with
    | .fin x => .ok (x.e + f.ebias)
    | _ => .error .valueError

def fromOrdinal (f : ExpFmt) (k : Int) (infval : Bool) : Except Err FV :=
  if infval then .error .valueError
  else if k < 0 || k ≥ (bitmask f.nbits : Int) then .error .valueError
  else f.decode k.toNat

def minval (f : ExpFmt) (s : Bool) : Except Err FV :=
  if s then .error .valueError else .ok (.fin ⟨false, f.emin, 1⟩)
def maxval (f : ExpFmt) (s : Bool) : Except Err FV :=
  if s then .error .valueError else .ok (.fin ⟨false, f.emax, 1⟩)
end ExpFmt

/-! ## dispatch over the format classes, and `OrdinalFormat.next_up/next_down` (`format.py`) -/

inductive Fmt
  | ef (f : EF)
  | fixed (f : FX)
  | smfixed (f : SM)
  | exp (f : ExpFmt)
  | mps (f : MPSFmt)
  | mpb (f : MPBFmt)
  | mpfix (f : MPFixFmt)
  | mpbfix (f : MPBFixFmt)
deriving Repr, Inhabited

namespace Fmt
def repr : Fmt → FV → Bool
  | .ef f => f.repr | .fixed f => f.mpb.repr | .smfixed f => f.mpb.repr | .exp f => f.repr
  | .mps f => f.repr | .mpb f => f.repr | .mpfix f => f.repr | .mpbfix f => f.repr

def normalize : Fmt → FV → Except Err FV
  | .ef f => f.normalize | .fixed f => f.mpb.normalize | .smfixed f => f.mpb.normalize | .exp f => f.normalize
  | .mps f => f.normalize | .mpb f => f.normalize | .mpfix f => f.normalize | .mpbfix f => f.normalize

def toOrdinal : Fmt → FV → Bool → Except Err Int
  | .ef f => f.toOrdinal | .fixed f => f.mpb.toOrdinal | .smfixed f => f.mpb.toOrdinal | .exp f => f.toOrdinal
  | .mps f => f.toOrdinal | .mpb f => f.toOrdinal | .mpfix f => f.toOrdinal | .mpbfix f => f.toOrdinal

def fromOrdinal : Fmt → Int → Bool → Except Err FV
  | .ef f => f.fromOrdinal | .fixed f => f.mpb.fromOrdinal | .smfixed f => f.mpb.fromOrdinal | .exp f => f.fromOrdinal
  | .mps f => f.fromOrdinal | .mpb f => f.fromOrdinal | .mpfix f => f.fromOrdinal | .mpbfix f => f.fromOrdinal

def encode : Fmt → FV → Except Err Nat
  | .ef f => f.encode | .fixed f => f.encode | .smfixed f => f.encode | .exp f => f.encode
  | _ => fun _ => .error .notImplemented

def decode : Fmt → Nat → Except Err FV
  | .ef f => f.decode | .fixed f => f.decode | .smfixed f => f.decode | .exp f => f.decode
  | _ => fun _ => .error .notImplemented

def minval : Fmt → Bool → Except Err FV
  | .ef f => f.minval | .fixed f => f.mpb.minval | .smfixed f => f.mpb.minval | .exp f => f.minval
  | .mps f => fun s => .ok (f.minval s) | .mpb f => fun s => .ok (f.mps.minval s)
  | .mpfix f => fun s => .ok (f.minval s) | .mpbfix f => f.minval

def maxval : Fmt → Bool → Except Err FV
  | .ef f => f.maxval | .fixed f => f.mpb.maxval | .smfixed f => f.mpb.maxval | .exp f => f.maxval
  | .mpb f => fun s => .ok (f.maxval s) | .mpbfix f => f.maxval
  | _ => fun _ => .error .notImplemented

def largest : Fmt → Except Err FV
  | .ef f => f.largest | .fixed f => f.mpb.largest | .smfixed f => f.mpb.largest | .exp f => f.maxval false
  | .mpb f => .ok (f.maxval false) | .mpbfix f => f.largest
  | _ => .error .notImplemented

def smallest : Fmt → Except Err FV
  | .ef f => f.smallest | .fixed f => f.mpb.smallest | .smfixed f => f.mpb.smallest | .exp f => f.minval false
  | .mpb f => .ok (f.maxval true) | .mpbfix f => f.smallest
  | _ => .error .notImplemented

/-- `OrdinalFormat._next_towards(x, ±inf, allow_inf)` -/
def stepTowardsInf (F : Fmt) (x : FV) (ys : Bool) (allowInf : Bool) : Except Err FV :=
  match F.toOrdinal x false with
  | .error e => .error e
  | .ok o => F.fromOrdinal (o + (if ys then -1 else 1)) allowInf

/-- `OrdinalFormat.next_up` -/
def nextUp (F : Fmt) (x : FV) (allowInf : Bool) : Except Err FV :=
  if !F.repr x then .error .valueError
  else if x.isNan then .error .valueError
  else if !allowInf && x.isInf then .error .valueError
  else if x.isInf && !x.sign then .error .valueError
  else F.stepTowardsInf x false allowInf

/-- `OrdinalFormat.next_down` -/
def nextDown (F : Fmt) (x : FV) (allowInf : Bool) : Except Err FV :=
  if !F.repr x then .error .valueError
  else if x.isNan then .error .valueError
  else if !allowInf && x.isInf then .error .valueError
  else if x.isInf && x.sign then .error .valueError
  else F.stepTowardsInf x true allowInf
end Fmt

end Fpy.Enc
