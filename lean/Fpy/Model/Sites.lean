/-
Model of the `where` vocabulary shared by every aimable rewrite:
`transform/utils.py` `check_where`, `_target_of`, `SiteRewriter._selects_at`, `check_site`,
`list_sites`, `list_refusals`, and the candidate loop every site rewriter runs
(`BlockRewriter._visit_block`, `_ForUnroll._visit_for`, `_SplitLoop`, `_WhileUnroll._visit_while`):

    reason = refuses(candidate)
    if reason: refused.append(..);  if target is not None and selects(.., -1): declined.append(..)
    else: idx = site_idx; site_idx += 1; if selects(.., idx): matched += 1; rewrite / found.append

The candidates are given in visit order (`path.walk_stmts`, modelled by `Cursor.walkStmts`),
each with its path and whether the rewrite refuses it.  Core Lean only.
-/
import Fpy.Model.Cursor
namespace Fpy.Sites
open Fpy.Cursor

/-- what a caller may pass as `where` -/
inductive Where where
  | none
  | index (j : Int)
  | target (pid : Nat) (bp : BlockPath) (lo hi : Nat)   -- StmtCursor (hi = lo+1) or BlockCursor
  | exprCursor (pid : Nat)
  | bool          -- `True` / `False`: an `int` in Python, rejected by name
  | other         -- anything else
  deriving Repr, DecidableEq

inductive SErr where
  | typeError        -- check_where
  | reference        -- check_site: TransformReferenceError ("does not correspond to" / "does not name")
  | otherProgram     -- _target_of: TransformReferenceError ("of another program")
  | notAStatement    -- _target_of: TransformReferenceError (expression cursor, statement sites)
  | declined         -- check_site: TransformDeclined
  deriving Repr, DecidableEq

structure Cand where
  path : StmtPath
  refused : Bool
  deriving Repr, DecidableEq

/-- `check_where` -/
def checkWhere : Where → Except SErr Unit
  | .bool => .error .typeError
  | .other => .error .typeError
  | _ => .ok ()

/-- `_target_of(where, func)` -/
def targetOf (funcPid : Nat) : Where → Except SErr (Option (BlockPath × Nat × Nat))
  | .target pid bp lo hi => if pid != funcPid then .error .otherProgram else .ok (some (bp, lo, hi))
  | .exprCursor pid => if pid != funcPid then .error .otherProgram else .error .notAStatement
  | _ => .ok Option.none

/-- `SiteRewriter._selects_at(here, pos, idx)` with `count = 1` -/
def selects (w : Where) (tgt : Option (BlockPath × Nat × Nat)) (p : StmtPath) (idx : Int) : Bool :=
  match tgt with
  | Option.none =>
    match w with
    | .none => true
    | .index j => idx == j
    | _ => false
  | some (bp, lo, hi) => beneathStmt bp lo hi p

structure State where
  siteIdx : Nat := 0
  matched : Nat := 0
  rewritten : List StmtPath := []    -- `edits` when applying, `found` when listing
  refused : List StmtPath := []
  declined : Nat := 0
  deriving Repr

def step (w : Where) (tgt : Option (BlockPath × Nat × Nat)) (st : State) (c : Cand) : State :=
  if c.refused then
    { st with refused := st.refused ++ [c.path],
              declined := if tgt.isSome && selects w tgt c.path (-1) then st.declined + 1 else st.declined }
  else if selects w tgt c.path st.siteIdx then
    { st with siteIdx := st.siteIdx + 1, matched := st.matched + 1, rewritten := st.rewritten ++ [c.path] }
  else
    { st with siteIdx := st.siteIdx + 1 }

def walk (w : Where) (tgt : Option (BlockPath × Nat × Nat)) : List Cand → State → State
  | [], st => st
  | c :: r, st => walk w tgt r (step w tgt st c)

/-- `SiteRewriter.check_site` -/
def checkSite (w : Where) (st : State) : Except SErr Unit :=
  match w with
  | .none => .ok ()
  | .index j => if 0 ≤ j ∧ j < (st.siteIdx : Int) then .ok () else .error .reference
  | _ =>
    if st.declined != 0 && st.rewritten.isEmpty then .error .declined
    else if st.matched == 0 then .error .reference
    else .ok ()

/-- `X.apply_with_edits(func, where)`: the statements rewritten, in visit order -/
def apply (funcPid : Nat) (cands : List Cand) (w : Where) : Except SErr (List StmtPath) :=
  match checkWhere w with
  | .error e => .error e
  | .ok () =>
    match targetOf funcPid w with
    | .error e => .error e
    | .ok tgt =>
      let st := walk w tgt cands {}
      match checkSite w st with
      | .error e => .error e
      | .ok () => .ok st.rewritten

/-- `SiteRewriter.list_sites()` (no `within`): the walk with `where = None`, listing -/
def listSites (cands : List Cand) : List StmtPath := (walk .none Option.none cands {}).rewritten

/-- `SiteRewriter.list_refusals()` (no `within`) -/
def listRefusals (cands : List Cand) : List StmtPath := (walk .none Option.none cands {}).refused

end Fpy.Sites
