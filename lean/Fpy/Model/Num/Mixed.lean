/-
Model of the mixed-type surface of `fpy2/number/number/reals.py` (`RealFloat`) and
`floats.py` (`Float`): what happens when an operand is a `Float`, a `RealFloat`, a
Python `int`, a Python `float` or a `Fraction` (property C05).  Extends
`RealFloat.lean` / `Float.lean` (which model the same-type arms) with

* the operand conversions `from_int`, `from_float`, `from_rational` (non-dyadic ↦ `ValueError`),
* `RealFloat.__add__/__mul__` with the Python `float` specials (nan/inf absorb),
* `Float.__add__/__mul__/__pow__` (NaR arms of `__pow__`), `__sub__/__rsub__`,
* `RealFloat.compare` / `Float.compare` against each of the five types and the rich
  comparison operators as Python dispatches them (reflected operators, `rcomparable`,
  `Fraction`'s own comparison with a `numbers.Rational`),
* `__int__`, `__float__` (`native.default_float_convert`: binary64 round + inexact ⇒ `ValueError`),
  `as_rational`, the class key `__hash__` hashes through, `is_identical_to`,
* the `Float` wrappers of `split`, `normalize`, `is_more_significant`.

Core Lean only.  The model follows the current code of /repo (after the `fix:` commits
4835537, 3d475f5, 9c623e4).
-/
import Fpy.Model.Num.Ctx
namespace Fpy

/-- A Python operand of one of the five numeric types. -/
inductive Num
  | F (v : FV)                   -- fpy2 `Float`
  | R (x : RF)                   -- fpy2 `RealFloat`
  | I (i : Int)                  -- Python `int`
  | D (v : FV)                   -- Python `float`, decoded bitwise (finite / inf / nan)
  | Q (num : Int) (den : Nat)    -- `Fraction` in lowest terms, `den > 0`
deriving Repr, Inhabited

/-- exact three-way comparison of rationals (what `f < other` / `f > other` on `Fraction`s compute) -/
def cmpRat (a b : Rat) : Ordering := if a < b then .lt else if b < a then .gt else .eq

namespace RF

/-- `RealFloat.from_float` on a decoded Python float: infinity / NaN ↦ `ValueError`. -/
def ofFloat? : FV → Except Err RF
  | .fin x => .ok x
  | _ => .error .valueError

/-- `RealFloat.from_rational`: `ValueError` unless the denominator is a power of two. -/
def ofRational? (num : Int) (den : Nat) : Except Err RF :=
  if !(isPow2 den) then .error .valueError
  else if num = 0 then .ok (zero false)
  else if den = 1 then .ok (ofInt num)
  else .ok (rfOfDyadic num den)

/-- `RealFloat.as_rational` (a `Fraction` is a normalised rational, as `Rat` is). -/
def asRational (x : RF) : Rat := x.val

/-- `RealFloat.is_identical_to` -/
def isIdenticalTo (x y : RF) : Bool := x.s == y.s && x.exp == y.exp && x.c == y.c

/-- `RealFloat.__add__(self, other)` for `other` of any of the five types.
`error notImplemented` stands for `return NotImplemented` (a `Float` operand): the caller
(`Num.binop`) then tries the reflected method of the other operand. -/
def addNum (x : RF) : Num → Except Err Num
  | .R y => .ok (.R (x.add y))
  | .I i => .ok (.R (x.add (ofInt i)))
  | .D v =>
    match v with
    | .fin y => .ok (.R (x.add y))
    | v => .ok (.D v)                       -- nan / ±inf absorb: `return other`
  | .Q n d =>
    match ofRational? n d with
    | .ok y => .ok (.R (x.add y))
    | .error e => .error e
  | .F _ => .error .notImplemented

/-- `RealFloat.__mul__(self, other)`.  The `float` special arm as in the code:
`0 * inf = nan`; else `s = self.s != (other < 0); return abs(other) * (-1.0 if s else 1.0)`. -/
def mulNum (x : RF) : Num → Except Err Num
  | .R y => .ok (.R (x.mul y))
  | .I i => .ok (.R (x.mul (ofInt i)))
  | .D v =>
    match v with
    | .fin y => .ok (.R (x.mul y))
    | .nan t => .ok (.D (.nan (x.s != t)))
    | .inf t => if x.c = 0 then .ok (.D (.nan false)) else .ok (.D (.inf (x.s != t)))
  | .Q n d =>
    match ofRational? n d with
    | .ok y => .ok (.R (x.mul y))
    | .error e => .error e
  | .F _ => .error .notImplemented

/-- `RealFloat.compare(self, other)`; `ok none` = unordered (`None`), `TypeError` on a `Float`. -/
def compareNum (x : RF) : Num → Except Err (Option Ordering)
  | .R y => .ok (some (x.compare y))
  | .I i => .ok (some (x.compare (ofInt i)))
  | .D v =>
    match v with
    | .nan _ => .ok none
    | .inf t => .ok (some (if t then .gt else .lt))
    | .fin y => .ok (some (x.compare y))
  | .Q n d => .ok (some (cmpRat x.asRational (mkRat n d)))
  | .F _ => .error .typeError

/-- the class key `RealFloat.__hash__` hashes through: `hash(int(self))`, else `hash(as_rational())` -/
inductive HashKey
  | nan
  | inf (s : Bool)
  | int (i : Int)
  | frac (q : Rat)
deriving DecidableEq, Repr, Inhabited

def hashKey (x : RF) : HashKey :=
  match x.toInt? with
  | some i => .int i
  | none => .frac x.asRational

/-- `RealFloat.normalize(p, n)` with `p` a Python int (`p < 0` ↦ `ValueError`). -/
def normalizeI (x : RF) (p : Option Int) (n : Option Int) : Except Err RF :=
  match p with
  | some p =>
    if p < 0 then .error .valueError
    else match x.normalize (some p.toNat) n with | some y => .ok y | none => .error .valueError
  | none => match x.normalize none n with | some y => .ok y | none => .error .valueError

end RF

namespace FV

/-- operand conversion at the head of `Float.__add__` / `__mul__`:
`from_real`, `from_int`, `from_float`, `from_rational`. -/
def ofNum : Num → Except Err FV
  | .F v => .ok v
  | .R x => .ok (.fin x)
  | .I i => .ok (.fin (RF.ofInt i))
  | .D v => .ok v
  | .Q n d => match RF.ofRational? n d with | .ok x => .ok (.fin x) | .error e => .error e

/-- `Float.__add__(self, other)` -/
def addNum (a : FV) (b : Num) : Except Err FV :=
  match ofNum b with | .ok b' => .ok (a.add b') | .error e => .error e

/-- `Float.__mul__(self, other)` -/
def mulNum (a : FV) (b : Num) : Except Err FV :=
  match ofNum b with | .ok b' => .ok (a.mul b') | .error e => .error e

/-- `Float.__pow__(self, exponent)` for an `int` exponent. -/
def powInt (a : FV) (k : Int) : Except Err FV :=
  if k < 0 then .error .valueError
  else if k = 0 then .ok (.fin ⟨false, 0, 1⟩)
  else match a with
    | .fin x => .ok (.fin (x.pow k.toNat))
    | a => .ok (a.withSign (a.sign && k % 2 != 0))

/-- `Float.compare(self, other)` for `other` of any of the five types; `none` = unordered. -/
def compareNum (a : FV) (b : Num) : Option Ordering :=
  match a with
  | .nan _ => none
  | a =>
    match b with
    | .F w => a.compare w
    | .D w => a.compare w                       -- `self.compare(Float.from_float(other))`
    | .R y => a.compare (.fin y)
    | .I i => a.compare (.fin (RF.ofInt i))     -- `self.compare(RealFloat.from_int(other))`
    | .Q n d =>
      match a with
      | .inf s => some (if s then .lt else .gt)
      | .fin x => some (cmpRat x.asRational (mkRat n d))
      | .nan _ => none

/-- `Float.__hash__` class key -/
def hashKey : FV → RF.HashKey
  | .nan _ => .nan
  | .inf s => .inf s
  | .fin x => x.hashKey

/-- `Float.__int__` -/
def toInt? : FV → Except Err Int
  | .fin x => match x.toInt? with | some i => .ok i | none => .error .valueError
  | _ => .error .valueError

/-- `Float.as_rational` -/
def asRational : FV → Except Err Rat
  | .fin x => .ok x.asRational
  | _ => .error .valueError

/-- `Float.split(n)` -/
def split (a : FV) (n : Int) : FV × FV :=
  match a with
  | .fin x => let (h, l) := x.split n; (.fin h, .fin l)
  | .inf s => (.inf s, .inf s)
  | .nan s => (.nan s, .nan s)

/-- `Float.normalize(p, n)` on a value without a context. -/
def normalizeI (a : FV) (p : Option Int) (n : Option Int) : Except Err FV :=
  match p with
  | some p' => if p' < 0 then .error .valueError else go
  | none => if n.isNone then .error .valueError else go
where go : Except Err FV :=
  match a with
  | .nan s => .ok (.nan s)
  | .inf s => .ok (.inf s)
  | .fin x => match x.normalizeI p n with | .ok y => .ok (.fin y) | .error e => .error e

/-- `Float.is_more_significant(n)` -/
def isMoreSignificant? (a : FV) (n : Int) : Except Err Bool :=
  match a with
  | .fin x => .ok (x.isMoreSignificant n)
  | _ => .error .valueError

end FV

/-- `native._FP64 = IEEEContext(11, 64, RNE)` -/
def fp64 : Ctx :=
  .efloat { es := 11, nbits := 64, inf := true, kind := .ieee, eoff := 0, rm := .rne, ov := .overflow,
            k := some 0, nanValue := none, infValue := none }

/-- `native.default_float_convert` (values here never carry the `_FP64` context):
round to binary64, `ValueError` when inexact, else the rounded value (which `encode`/`bits_to_float`
turn into the Python float denoting it). -/
def toFloatCore (op : Operand) : Except Err FV :=
  match fp64.round op with
  | .error e => .error e
  | .ok r => if r.fl.inexact then .error .valueError else .ok r.v

namespace Num

/-- Python unary minus on each type -/
def neg : Num → Num
  | .F v => .F v.neg
  | .R x => .R x.neg
  | .I i => .I (-i)
  | .D v => .D v.neg
  | .Q n d => .Q (-n) d

/-- unary `-x`, `+x`, `abs(x)` for the two fpy types (native types are out of scope: `TypeError` tag) -/
def unop (which : String) : Num → Except Err Num
  | .F v => match which with
    | "neg" => .ok (.F v.neg) | "pos" => .ok (.F v.pos) | "abs" => .ok (.F v.abs) | _ => .error .typeError
  | .R x => match which with
    | "neg" => .ok (.R x.neg) | "pos" => .ok (.R x.pos) | "abs" => .ok (.R x.abs) | _ => .error .typeError
  | _ => .error .typeError

inductive BinOp | add | sub | mul
deriving DecidableEq, Repr

def liftF (r : Except Err FV) : Except Err Num :=
  match r with | .ok v => .ok (.F v) | .error e => .error e

/-- `a <op> b` as Python evaluates it: the left operand's method first, the reflected method of the
right operand when the left one is a native type (`int`/`float`/`Fraction` return `NotImplemented`).
`__sub__` is `self + (-other)`, `__rsub__` is `(-self) + other`, `__radd__`/`__rmul__` commute. -/
def binop (op : BinOp) (a b : Num) : Except Err Num :=
  match a with
  | .F v =>
    match op with
    | .add => liftF (v.addNum b)
    | .sub => liftF (v.addNum b.neg)
    | .mul => liftF (v.mulNum b)
  | .R x =>
    match b with
    | .F w =>       -- `RealFloat.__add__/__mul__` return `NotImplemented`; `Float.__radd__/__rmul__` run
      match op with
      | .add => liftF (w.addNum (.R x))
      | .sub => liftF (w.neg.addNum (.R x))      -- `self + (-other)` ↦ `(-other).__radd__(self)`
      | .mul => liftF (w.mulNum (.R x))
    | b =>
      match op with
      | .add => x.addNum b
      | .sub => x.addNum b.neg
      | .mul => x.mulNum b
  | a =>
    match b with
    | .F w =>
      match op with
      | .add => liftF (w.addNum a)
      | .sub => liftF (w.neg.addNum a)
      | .mul => liftF (w.mulNum a)
    | .R y =>
      match op with
      | .add => y.addNum a
      | .sub => y.neg.addNum a
      | .mul => y.mulNum a
    | _ => .error .typeError      -- two native operands: not this library

/-- `a ** k` -/
def pow (a : Num) (k : Int) : Except Err Num :=
  match a with
  | .F v => liftF (v.powInt k)
  | .R x => if k < 0 then .error .valueError else .ok (.R (x.pow k.toNat))
  | _ => .error .typeError

inductive CmpOp | eq | lt | le | gt | ge
deriving DecidableEq, Repr

/-- the operator Python tries on the right operand when the left one declines -/
def CmpOp.swap : CmpOp → CmpOp
  | .eq => .eq | .lt => .gt | .le => .ge | .gt => .lt | .ge => .le

/-- `ord == Ordering.LESS` etc.; `None` compares unequal to every `Ordering` -/
def CmpOp.test (op : CmpOp) : Option Ordering → Bool
  | none => false
  | some o =>
    match op with
    | .eq => o == .eq | .lt => o == .lt | .le => o != .gt | .gt => o == .gt | .ge => o != .lt

/-- `a.compare(b)` called directly (left operand a `Float` or `RealFloat`). -/
def compare (a b : Num) : Except Err (Option Ordering) :=
  match a with
  | .F v => .ok (v.compareNum b)
  | .R x => x.compareNum b
  | _ => .error .typeError

/-- the rich comparison `a <op> b` with the left operand one of the fpy types -/
def cmpLeft (op : CmpOp) (a b : Num) : Except Err Bool :=
  match a with
  | .F v => .ok (op.test (v.compareNum b))
  | .R x =>
    match b with
    | .F w => .ok (op.swap.test (w.compareNum (.R x)))      -- `rcomparable`: `other <swap> self`
    | b => match x.compareNum b with | .ok o => .ok (op.test o) | .error e => .error e
  | _ => .error .typeError

/-- `a <op> b` as Python evaluates it on any mix of the five types (at least one fpy type). -/
def cmpOp (op : CmpOp) (a b : Num) : Except Err Bool :=
  match a with
  | .F _ | .R _ => cmpLeft op a b
  | .Q n d =>
    match b with
    | .R y => .ok (op.test (some (cmpRat (mkRat n d) y.asRational)))  -- `Fraction` handles a `numbers.Rational`
    | .F _ => cmpLeft op.swap b a
    | _ => .error .typeError
  | a =>
    match b with
    | .F _ | .R _ => cmpLeft op.swap b a
    | _ => .error .typeError

/-- `hash` class key -/
def hashKey : Num → Except Err RF.HashKey
  | .F v => .ok v.hashKey
  | .R x => .ok x.hashKey
  | _ => .error .typeError

/-- `int(a)` -/
def toInt (a : Num) : Except Err Int :=
  match a with
  | .F v => v.toInt?
  | .R x => match x.toInt? with | some i => .ok i | none => .error .valueError
  | _ => .error .typeError

/-- `float(a)` -/
def toFloat (a : Num) : Except Err FV :=
  match a with
  | .F v => toFloatCore (.flt v)
  | .R x => toFloatCore (.real x)
  | _ => .error .typeError

/-- `a.as_rational()` -/
def asRational (a : Num) : Except Err Rat :=
  match a with
  | .F v => v.asRational
  | .R x => .ok x.asRational
  | _ => .error .typeError

end Num
end Fpy
