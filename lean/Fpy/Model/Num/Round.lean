/-
Model of the rounding core of `RealFloat` (`_round_params`, `_round_increment`,
`_tiny_post`, `_round_at`, `_round_at_stochastic`, `round`, `round_at`)
and of `fpy2/number/round.py`.
-/
import Fpy.Model.Num.RealFloat
namespace Fpy

inductive RM | rne | rna | rtp | rtn | rtz | raz | rto | rte
deriving DecidableEq, Repr, Inhabited

inductive Dir | rtz | raz | rte | rto
deriving DecidableEq, Repr, Inhabited

inductive OV | overflow | saturate | wrap | assert
deriving DecidableEq, Repr, Inhabited

/-- `RoundingMode.to_direction(s)` → (nearest, direction). -/
def RM.toDirection (rm : RM) (s : Bool) : Bool × Dir :=
  match rm, s with
  | .rne, _ => (true, .rte)
  | .rna, _ => (true, .raz)
  | .rtp, true => (false, .rtz)
  | .rtp, false => (false, .raz)
  | .rtn, true => (false, .raz)
  | .rtn, false => (false, .rtz)
  | .rtz, _ => (false, .rtz)
  | .raz, _ => (false, .raz)
  | .rto, _ => (false, .rto)
  | .rte, _ => (false, .rte)

structure Flags where
  invalid : Bool := false
  divzero : Bool := false
  overflow : Bool := false
  tinyPre : Bool := false
  tinyPost : Bool := false
  inexact : Bool := false
  carry : Bool := false
deriving DecidableEq, Repr, Inhabited

inductive Err | valueError | typeError | overflowError | notImplemented | zeroDivision | indexError | assertion | unbound | outOfFuel
deriving DecidableEq, Repr, Inhabited

namespace RF

/-- `_round_params(max_p, min_n)`; both `none` is a `ValueError`. -/
def roundParams (x : RF) (maxP : Option Nat) (minN : Option Int) : Except Err (Option Nat × Int) :=
  match maxP, minN with
  | none, none => .error .valueError
  | none, some n => .ok (none, n)
  | some p, none => .ok (some p, x.e - p)
  | some p, some n => .ok (some p, max n (x.e - p))

/-- `_round_increment_direction` (on the kept part). -/
def incrDir (kept : RF) : Dir → Bool
  | .rtz => false
  | .raz => true
  | .rte => kept.c % 2 != 0
  | .rto => kept.c % 2 == 0

/-- `_round_increment(lost, n, rm)`; `lost` is non-zero. -/
def roundIncrement (kept lost : RF) (n : Int) (rm : RM) : Bool :=
  let (nearest, dir) := rm.toDirection kept.s
  if nearest then
    let (halfBit, lowerBits) :=
      if lost.e = n then
        (lost.c / 2 ^ (lost.p - 1) != 0, lost.c % 2 ^ (lost.p - 1) != 0)
      else (false, true)
    if halfBit then (if lowerBits then true else kept.incrDir dir) else false
  else kept.incrDir dir

/-- `_tiny_post(kept, emin, n, rm)`. -/
def tinyPostCheck (x kept : RF) (emin n : Int) (rm : RM) : Bool :=
  if kept.e < emin - 1 then true
  else
    let p := (emin - n).toNat
    let cutoff : RF := ⟨x.s, n, bitmask p⟩
    if (if x.s then x.ge cutoff else x.le cutoff) then true
    else
      let (k, l) := x.split (n - 1)
      !(k.roundIncrement l (n - 1) rm)

/-- `_round_at(p, n, emin, rm, exact)`. `error valueError` iff `exact` and digits are lost. -/
def roundAtCore (x : RF) (p : Option Nat) (n : Int) (emin : Option Int) (rm : RM) (exact : Bool) :
    Except Err (RF × Flags) :=
  let tinyPre := match emin with | some em => x.c == 0 || x.e < em | none => false
  let fits := match p with | none => true | some p => x.p ≤ p
  if x.exp > n && fits then
    .ok (⟨x.s, x.exp, x.c⟩, { tinyPre := tinyPre, tinyPost := tinyPre })
  else
    let (kept, lost) := x.split n
    if lost.c = 0 then
      .ok (kept, { tinyPre := tinyPre, tinyPost := tinyPre })
    else if exact then .error .valueError
    else
      let incr := kept.roundIncrement lost n rm
      let (kept', carry) :=
        if incr then
          let c := kept.c + 1
          match p with
          | some p => if bitLength c > p then (({ kept with c := c / 2, exp := kept.exp + 1 } : RF), true)
                      else ({ kept with c := c }, false)
          | none => ({ kept with c := c }, false)
        else (kept, false)
      let tinyPost := match emin with
        | some em => if tinyPre then x.tinyPostCheck kept' em n rm else tinyPre
        | none => tinyPre
      .ok (kept', { tinyPre := tinyPre, tinyPost := tinyPost, inexact := true, carry := carry })

/-- `_round_at_stochastic` with the draw `r` explicit. Returns also the number of
random bits requested from the generator (the real code always draws once). -/
def roundAtStochastic (x : RF) (p : Option Nat) (n : Int) (emin : Option Int) (rm : RM)
    (k? : Option Nat) (r : Nat) (exact : Bool) : Except Err (RF × Flags) :=
  let k : Nat := match k? with | some k => k | none => (max 0 ((n + 1) - x.exp)).toNat
  let nRand := n - k
  match x.roundAtCore none nRand none rm exact with
  | .error e => .error e
  | .ok (xr, _) =>
    let (_, lost) := xr.split n
    let randRm : RM :=
      if lost.c = 0 then (if xr.abs.gt x.abs then .raz else .rtz)
      else
        let off := lost.exp - (nRand + 1)
        let lostC : Nat := if off > 0 then lost.c * 2 ^ off.toNat
                           else if off < 0 then lost.c / 2 ^ (-off).toNat else lost.c
        if r + lostC ≥ 2 ^ k then .raz else .rtz
    x.roundAtCore p n emin randRm exact

/-- number of bits the real code asks the generator for -/
def stochasticBits (x : RF) (n : Int) (k? : Option Nat) : Nat :=
  match k? with | some k => k | none => (max 0 ((n + 1) - x.exp)).toNat

/-- `RealFloat.round(max_p, min_n, rm, num_randbits, rng=…, exact)`.
`k? = some 0` is deterministic rounding. -/
def round (x : RF) (maxP : Option Nat) (minN : Option Int) (rm : RM)
    (k? : Option Nat := some 0) (r : Nat := 0) (exact : Bool := false) : Except Err (RF × Flags) :=
  match x.roundParams maxP minN with
  | .error e => .error e
  | .ok (p, n) =>
    let emin : Option Int := match maxP, minN with | some p, some n => some ((p : Int) + n) | _, _ => none
    if k? = some 0 then x.roundAtCore p n emin rm exact
    else x.roundAtStochastic p n emin rm k? r exact

/-- `RealFloat.round_at(n, p, rm, num_randbits, …)` -/
def roundAt (x : RF) (n : Int) (p : Option Nat) (rm : RM)
    (k? : Option Nat := some 0) (r : Nat := 0) (exact : Bool := false) : Except Err (RF × Flags) :=
  let emin : Option Int := match p with | some p => some ((p : Int) + n) | none => none
  if k? = some 0 then x.roundAtCore p n emin rm exact
  else x.roundAtStochastic p n emin rm k? r exact

end RF
end Fpy
