/-
Model of the rounding contexts in `fpy2/number/context/*.py`:
`_round_at` of every family, written arm by arm as in the code.
-/
import Fpy.Model.Num.Float
namespace Fpy

/-- special-value options shared by the MP* families -/
structure Opts where
  enableNan : Bool := true
  enableInf : Bool := true
  nanValue : Option FV := none
  infValue : Option FV := none
deriving DecidableEq, Repr, Inhabited

inductive NanKind | ieee | maxVal | negZero | none
deriving DecidableEq, Repr, Inhabited

/-- Operand kinds accepted by `Context.round` after `_round_prepare`. -/
inductive Operand
  | flt (v : FV)              -- `Float`
  | real (x : RF)             -- `RealFloat`
  | int (i : Int)             -- Python `int`
  | frac (num : Int) (den : Nat)   -- `Fraction` in lowest terms, den > 0
deriving Repr, Inhabited

def isPow2 (n : Nat) : Bool := n != 0 && 2 ^ n.log2 == n

/-- Truncate `num/den` (positive) to `prec` significant bits: returns `(c, exp, inexact)` with
`c` having exactly `prec` bits, `c * 2^exp ≤ num/den < (c+1) * 2^exp`.
This is what MPFR's `mpfr(Fraction)` does under RTZ with precision `prec`. -/
def truncRat (num den : Nat) (prec : Nat) : Nat × Int × Bool :=
  -- e0 ≤ floor(log2 (num/den)) ≤ e0 + 1 where e0 = bl(num) - bl(den) - 1 ... search exactly
  let e0 : Int := (bitLength num : Int) - (bitLength den : Int)
  -- value ≥ 2^e0 ?  num ≥ den * 2^e0
  let ge (e : Int) : Bool :=
    if e ≥ 0 then num ≥ den * 2 ^ e.toNat else num * 2 ^ (-e).toNat ≥ den
  let e : Int := if ge e0 then e0 else e0 - 1
  let exp : Int := e - prec + 1
  -- c = floor(num / (den * 2^exp))
  let (n', d') : Nat × Nat :=
    if exp ≥ 0 then (num, den * 2 ^ exp.toNat) else (num * 2 ^ (-exp).toNat, den)
  (n' / d', exp, n' % d' != 0)

/-- `_round_odd` applied to the truncation. -/
def rtoRat (neg : Bool) (num den : Nat) (prec : Nat) : RF :=
  let (c, exp, inex) := truncRat num den prec
  ⟨neg, exp, if c % 2 == 0 && inex then c + 1 else c⟩

/-- `gmputils.mpfr_value(x, prec=p, n=n)` for a non-dyadic rational.
`none` ↦ the real code raises `ValueError` (neither given). -/
def mpfrValue (neg : Bool) (num den : Nat) (prec : Option Nat) (n : Option Int) : Except Err RF :=
  match prec with
  | some p => .ok (rtoRat neg num den (p + 2))
  | none =>
    match n with
    | none => .error .valueError
    | some n =>
      let (c2, exp2, _) := truncRat num den 2
      let e : Int := exp2 + (bitLength c2 : Int) - 1
      if e ≤ n then .ok (rtoRat neg num den 2)
      else .ok (rtoRat neg num den ((e - n).toNat + 2))

/-- `RealFloat.from_rational` for a dyadic, non-integer fraction. -/
def rfOfDyadic (num : Int) (den : Nat) : RF :=
  ⟨num < 0, -((bitLength den : Int) - 1), num.natAbs⟩

/-- `Context._round_prepare` (given the context's `round_params()`). -/
def prepare (params : Option Nat × Option Int) : Operand → Except Err FV
  | .flt v => .ok v
  | .real x => .ok (.fin x)
  | .int i => .ok (.fin (RF.ofInt i))
  | .frac num den =>
    if den = 1 then .ok (.fin (RF.ofInt num))
    else if isPow2 den then .ok (.fin (rfOfDyadic num den))
    else match mpfrValue (num < 0) num.natAbs den params.1 params.2 with
      | .ok x => .ok (.fin x)
      | .error e => .error e

/-- widened precision for the MPFR intermediate when stochastic -/
def widenP (p : Nat) (k : Option Nat) : Option Nat := match k with | some k => some (p + k) | none => none
def widenN (n : Int) (k : Option Nat) : Option Int := match k with | some k => some (n - k) | none => none

/-- `_overflow_to_infinity` of `MPBFloatContext`/`MPBFixedContext`. -/
def overflowToInfinity (rm : RM) (s : Bool) : Bool :=
  match (rm.toDirection s).2 with
  | .rtz => false | .raz => true | .rte => true | .rto => true

def setOvf (r : Res) : Res := { r with fl := { r.fl with overflow := true, inexact := true } }

/-- special-value arm of the float families (`MPFloat`, `MPSFloat`, `MPBFloat`). -/
def floatSpecial (o : Opts) : FV → Option (Except Err Res)
  | .nan _ =>
    some (if o.enableNan then .ok ⟨.nan false, {}⟩
          else match o.nanValue with
            | none => .error .valueError
            | some v => .ok ⟨v, {}⟩)
  | .inf s =>
    some (if o.enableInf then .ok ⟨.inf s, {}⟩
          else match o.infValue with
            | none => .error .valueError
            | some v => .ok ⟨v.withSign s, {}⟩)
  | .fin _ => none

/-- special-value arm of the fixed families (`MPFixed`, `MPBFixed`). -/
def fixedSpecial (o : Opts) : FV → Option (Except Err Res)
  | .nan s =>
    some (if o.enableNan then .ok ⟨.nan s, {}⟩
          else match o.nanValue with
            | none => .error .valueError
            | some v => .ok ⟨v, {}⟩)
  | .inf s =>
    some (if o.enableInf then .ok ⟨.inf s, {}⟩
          else match o.infValue with
            | none => .error .valueError
            | some v => .ok ⟨v, {}⟩)
  | .fin _ => none

structure MPBParams where
  p : Nat
  emin : Int
  posMax : RF
  negMax : RF
  rm : RM
  ov : OV
  k : Option Nat
  o : Opts
deriving Repr, Inhabited

def MPBParams.nmin (c : MPBParams) : Int := c.emin - c.p

/-- `MPBFloatContext._round_at` -/
def mpbRoundAt (c : MPBParams) (v : FV) (n : Option Int) (exact : Bool) (r : Nat) : Except Err Res :=
  match floatSpecial c.o v with
  | some res => res
  | none =>
    match v with
    | .fin x =>
      if x.c = 0 then .ok ⟨.fin ⟨x.s, 0, 0⟩, {}⟩
      else
        let n' : Int := match n with | none => c.nmin | some n => if n < c.nmin then c.nmin else n
        match x.round (some c.p) (some n') c.rm c.k r exact with
        | .error e => .error e
        | .ok (rounded, fl) =>
          let overflowing := if rounded.s then rounded.lt c.negMax else rounded.gt c.posMax
          if overflowing then
            if exact then .error .valueError
            else
              let maxval (s : Bool) : Res := ⟨.fin (if s then c.negMax else c.posMax), {}⟩
              match c.ov with
              | .overflow =>
                if overflowToInfinity c.rm rounded.s then
                  if c.o.enableInf then .ok (setOvf ⟨.inf x.s, {}⟩)
                  else match c.o.infValue with
                    | none => .error .valueError
                    | some iv => .ok (setOvf ⟨iv.withSign rounded.s, {}⟩)
                else .ok (setOvf (maxval rounded.s))
              | .saturate => .ok (setOvf (maxval rounded.s))
              | .assert => .error .overflowError
              | .wrap => .error .assertion  -- unreachable: constructor rejects WRAP
          else .ok ⟨.fin rounded, fl⟩
    | _ => .error .assertion

/-- `MPFixedFormat._to_ordinal` -/
def fixOrdinal (nmin : Int) (x : RF) : Int :=
  if x.c = 0 then 0
  else
    let off := x.exp - (nmin + 1)
    let c : Nat := if off > 0 then x.c * 2 ^ off.toNat else if off < 0 then x.c / 2 ^ (-off).toNat else x.c
    if x.s then -(c : Int) else c

structure MPBFixParams where
  nmin : Int
  posMax : RF
  negMax : RF
  rm : RM
  ov : OV
  k : Option Nat
  negZero : Bool
  o : Opts
deriving Repr, Inhabited

/-- `self.smallest() if s else self.largest()`: the end of the range on the side of sign `s`
(`MPBFixedFormat.smallest` is `Float.from_int(0)` when negatives are not representable). -/
def MPBFixParams.rangeEnd (c : MPBFixParams) (s : Bool) : Res :=
  if s then
    if !(c.negMax.c != 0 && c.negMax.s) then ⟨.fin ⟨false, 0, 0⟩, {}⟩ else ⟨.fin c.negMax, {}⟩
  else ⟨.fin c.posMax, {}⟩

/-- `MPBFixedContext._round_at` -/
def mpbfixRoundAt (c : MPBFixParams) (v : FV) (n : Option Int) (exact : Bool) (r : Nat) : Except Err Res :=
  let n' : Int := match n with | none => c.nmin | some n => max n c.nmin
  match fixedSpecial c.o v with
  | some res => res
  | none =>
    match v with
    | .fin x =>
      if x.c = 0 then .ok ⟨.fin ⟨x.s && c.negZero, 0, 0⟩, {}⟩
      else
        match x.round none (some n') c.rm c.k r exact with
        | .error e => .error e
        | .ok (xr, fl) =>
          let overflowing := if xr.s then xr.lt c.negMax else xr.gt c.posMax
          if overflowing then
            if exact then .error .valueError
            else
              match c.ov with
              | .overflow =>
                if overflowToInfinity c.rm xr.s then
                  if c.o.enableInf then .ok (setOvf ⟨.inf x.s, {}⟩)
                  else match c.o.infValue with
                    | none => .error .valueError
                    | some iv => .ok (setOvf ⟨iv, {}⟩)
                else .ok (setOvf (c.rangeEnd xr.s))
              | .saturate => .ok (setOvf (c.rangeEnd xr.s))
              | .wrap =>
                let negOrd := fixOrdinal c.nmin c.negMax
                let posOrd := fixOrdinal c.nmin c.posMax
                let ordAbs := fixOrdinal c.nmin xr - negOrd
                let total := posOrd - negOrd + 1
                let ordMod := (ordAbs % total) + negOrd
                -- from_ordinal (infval := false); ordMod is always in range
                let res : FV := if ordMod = 0 then .fin ⟨false, 0, 0⟩
                                else .fin ⟨ordMod < 0, c.nmin + 1, ordMod.natAbs⟩
                .ok (setOvf ⟨res, {}⟩)
              | .assert => .error .overflowError
          else
            if xr.c = 0 && xr.s && !c.negZero then .ok ⟨.fin { xr with s := false }, fl⟩
            else .ok ⟨.fin xr, fl⟩
    | _ => .error .assertion

/-- `efloat._binade_max` -/
def binadeMax (p : Nat) (emin e : Int) : RF :=
  if e ≥ emin then ⟨false, e - p + 1, bitmask p⟩
  else ⟨false, emin - p + 1, bitmask p / 2 ^ (emin - e).toNat⟩

/-- `RealFloat._next_towards(n, p)` specialised to the use in `_ext_to_mpb_fmt`
(`next_towards_zero(p=p, n=nmin)` on a non-zero value). `none` = the real code raises. -/
def RF.nextTowardsZero (x : RF) (p : Nat) (n : Int) : Option RF :=
  if x.c = 0 then none
  else
    let norm : Option RF := if x.exp != n + 1 || x.p > p then x.normalize (some p) (some n) else some x
    match norm with
    | none => none
    | some y =>
      let c := y.c - 1
      if y.exp > n + 1 && bitLength c < p then some ⟨x.s, y.exp - 1, c * 2 + 1⟩
      else some ⟨x.s, y.exp, c⟩

/-- `efloat._format_is_valid` -/
def efloatValid (es nbits : Nat) (inf : Bool) (kind : NanKind) : Bool :=
  if nbits < 1 then false
  else if es ≥ nbits then false
  else
    let p := nbits - es
    match kind with
    | .ieee => !(es == 0) && !(inf && p == 1)
    | .maxVal =>
      if es == 0 then !(p == 1 || (inf && p == 2))
      else !(es == 1 && inf && p == 1)
    | .negZero | .none => !(es == 0 && p == 1 && inf)

/-- `efloat._has_nonzero` -/
def efloatHasNonzero (nbits : Nat) (inf : Bool) (kind : NanKind) : Bool :=
  if nbits > 2 then true
  else if nbits == 1 then false
  else !inf && (kind == .negZero || kind == .none)

/-- `efloat._ext_to_mpb_fmt`: `(p, emin, maxval)`. -/
def efloatMpb (es nbits : Nat) (inf : Bool) (kind : NanKind) (eoff : Int) : Nat × Int × RF :=
  let p := nbits - es
  let ebias : Int := if es == 0 then 0 else (bitmask (es - 1) : Int)
  let emax0 : Int := if es == 0 then -1 else ebias
  let emin0 : Int := 1 - ebias
  let emax := emax0 + eoff
  let emin := emin0 + eoff
  let nmin := emin - p
  let ntz (x : RF) : RF := (x.nextTowardsZero p nmin).getD x
  let maxval : RF :=
    match kind with
    | .ieee => binadeMax p emin emax
    | .maxVal =>
      if p == 1 then (if inf then binadeMax p emin (emax - 1) else binadeMax p emin emax)
      else if p == 2 && inf then binadeMax p emin emax
      else if inf then ntz (ntz (binadeMax p emin (emax + 1)))
      else ntz (binadeMax p emin (emax + 1))
    | .negZero | .none =>
      if p == 1 then (if inf then binadeMax p emin emax else binadeMax p emin (emax + 1))
      else if inf then ntz (binadeMax p emin (emax + 1))
      else binadeMax p emin (emax + 1)
  let maxval := if maxval.c = 0 then ⟨false, emin, 0⟩ else maxval
  (p, emin, maxval)

structure EFloatParams where
  es : Nat
  nbits : Nat
  inf : Bool
  kind : NanKind
  eoff : Int
  rm : RM
  ov : OV
  k : Option Nat
  nanValue : Option FV
  infValue : Option FV
deriving Repr, Inhabited

def EFloatParams.mpb (c : EFloatParams) : MPBParams :=
  let (p, emin, mx) := efloatMpb c.es c.nbits c.inf c.kind c.eoff
  { p := p, emin := emin, posMax := mx, negMax := { mx with s := true }, rm := c.rm, ov := c.ov, k := c.k, o := {} }

/-- `EFloatFormat.representable_in` restricted to what `maxval(s)` needs:
the value `±maxval` must be representable else `maxval` raises. -/
def EFloatParams.maxvalOk (c : EFloatParams) (s : Bool) : Bool :=
  let m := c.mpb
  if m.posMax.c = 0 then !(s && c.kind == .negZero)
  else efloatHasNonzero c.nbits c.inf c.kind

/-- `EFloatContext._fixup` -/
def efloatFixup (c : EFloatParams) (r : Res) : Except Err Res :=
  let m := c.mpb
  let maxval (s : Bool) : Except Err Res :=
    if c.maxvalOk s then .ok ⟨.fin (if s then m.negMax else m.posMax), r.fl⟩ else .error .valueError
  match r.v with
  | .nan s =>
    if c.kind == .none then
      match c.nanValue with
      | none => if c.inf then .ok ⟨.inf s, r.fl⟩ else maxval s
      | some nv => .ok ⟨nv.withSign s, r.fl⟩
    else .ok r
  | .inf s =>
    if !c.inf then
      match c.infValue with
      | none => if c.kind != .none then .ok ⟨.nan s, r.fl⟩ else maxval s
      | some iv => .ok ⟨iv.withSign s, r.fl⟩
    else .ok r
  | .fin x =>
    if x.c = 0 && x.s && c.kind == .negZero then .ok ⟨.fin { x with s := false }, r.fl⟩
    else .ok r

/-- `fixed._fixed_to_mpb_fixed` -/
def fixedBounds (signed : Bool) (scale : Int) (nbits : Nat) : RF × RF :=
  if signed then (⟨false, scale, bitmask (nbits - 1)⟩, ⟨true, scale, 2 ^ (nbits - 1)⟩)
  else (⟨false, scale, bitmask nbits⟩, ⟨false, 0, 0⟩)

structure ExpParams where
  nbits : Nat
  eoff : Int
  rm : RM
  ov : OV
  infValue : Option FV
deriving Repr, Inhabited

/-- `exponential._exponent_bounds` -/
def ExpParams.emax (c : ExpParams) : Int := (bitmask (c.nbits - 1) : Int) + c.eoff
def ExpParams.emin (c : ExpParams) : Int := 1 - (bitmask (c.nbits - 1) : Int) + c.eoff - 1

/-- `ExpContext._overflow_to_infinity` (differs from the float families: round-to-odd stays finite) -/
def expOverflowToInfinity (rm : RM) (s : Bool) : Bool :=
  match (rm.toDirection s).2 with
  | .rtz => false | .raz => true | .rte => true | .rto => false

/-- `ExpContext._underflow_to_zero` -/
def expUnderflowToZero (rm : RM) (s : Bool) : Bool :=
  match (rm.toDirection s).2 with
  | .rtz => true | .raz => false | .rte => true | .rto => false

/-- `ExpContext._round_at`: round with one digit through `MPFloatContext(1, rm)`, then map what is not a
power of two in range (zero, negatives, infinities, out-of-range) as the code does. -/
def expRoundAt (c : ExpParams) (v : FV) (n : Option Int) (exact : Bool) : Except Err Res :=
  let mpRes : Except Err Res :=
    match floatSpecial {} v with
    | some res => res
    | none => match v with
      | .fin x =>
        if x.c = 0 then .ok ⟨.fin ⟨x.s, 0, 0⟩, {}⟩
        else match x.round (some 1) n c.rm (some 0) 0 exact with
          | .error e => .error e
          | .ok (xr, fl) => .ok ⟨.fin xr, fl⟩
      | _ => .error .assertion
  match mpRes with
  | .error e => .error e
  | .ok r =>
    match r.v with
    | .nan _ => .ok ⟨.nan false, {}⟩
    | .inf _ => (match c.infValue with | none => .ok ⟨.nan false, {}⟩ | some iv => .ok ⟨iv, {}⟩)
    | .fin y =>
      if y.c = 0 || y.s then .ok ⟨.nan false, {}⟩
      else
        let minval : Res := ⟨.fin ⟨false, c.emin, 1⟩, {}⟩
        let maxval : Res := ⟨.fin ⟨false, c.emax, 1⟩, {}⟩
        if y.e < c.emin then
          if exact then .error .valueError
          else match c.ov with
            | .overflow => if expUnderflowToZero c.rm y.s then .ok (setOvf ⟨.nan false, {}⟩) else .ok (setOvf minval)
            | .saturate => .ok (setOvf minval)
            | .assert => .error .valueError
            | .wrap => .error .assertion
        else if y.e > c.emax then
          if exact then .error .valueError
          else match c.ov with
            | .overflow => if expOverflowToInfinity c.rm y.s then .ok (setOvf ⟨.nan false, {}⟩) else .ok (setOvf maxval)
            | .saturate => .ok (setOvf maxval)
            | .assert => .error .valueError
            | .wrap => .error .assertion
        else .ok ⟨.fin y, r.fl⟩

inductive Ctx
  | real
  | mp (p : Nat) (rm : RM) (k : Option Nat) (o : Opts)
  | mps (p : Nat) (emin : Int) (rm : RM) (k : Option Nat) (o : Opts)
  | mpb (c : MPBParams)
  | efloat (c : EFloatParams)
  | mpfix (nmin : Int) (rm : RM) (k : Option Nat) (negZero : Bool) (o : Opts)
  | mpbfix (c : MPBFixParams)
  | exp (c : ExpParams)
deriving Repr, Inhabited

/-- `FixedContext(signed, scale, nbits, rm, ov, k, nan_value, inf_value)` as its `MPBFixedContext` base. -/
def Ctx.fixed (signed : Bool) (scale : Int) (nbits : Nat) (rm : RM) (ov : OV) (k : Option Nat)
    (nanV infV : Option FV) : Ctx :=
  let (pm, nm) := fixedBounds signed scale nbits
  .mpbfix { nmin := scale - 1, posMax := pm, negMax := nm, rm := rm, ov := ov, k := k, negZero := false,
            o := { enableNan := false, enableInf := false, nanValue := nanV, infValue := infV } }

/-- `SMFixedContext` as its `MPBFixedContext` base (enable_neg_zero defaults to True). -/
def Ctx.smfixed (scale : Int) (nbits : Nat) (rm : RM) (ov : OV) (k : Option Nat)
    (nanV infV : Option FV) : Ctx :=
  .mpbfix { nmin := scale - 1, posMax := ⟨false, scale, bitmask (nbits - 1)⟩,
            negMax := ⟨true, scale, bitmask (nbits - 1)⟩, rm := rm, ov := ov, k := k, negZero := true,
            o := { enableNan := false, enableInf := false, nanValue := nanV, infValue := infV } }

/-- `Context.round_params()` -/
def Ctx.roundParams : Ctx → Option Nat × Option Int
  | .real => (none, none)
  | .mp p _ k _ => (widenP p k, none)
  | .mps p emin _ k _ => match k with | none => (none, none) | some k => (some (p + k), some (emin - p - k))
  | .mpb c => match c.k with | none => (none, none) | some k => (some (c.p + k), some (c.nmin - k))
  | .efloat c => let m := c.mpb; match m.k with | none => (none, none) | some k => (some (m.p + k), some (m.nmin - k))
  | .mpfix nmin _ k _ _ => (none, widenN nmin k)
  | .mpbfix c => (none, widenN c.nmin c.k)
  | .exp _ => (some 1, none)

/-- `_round_at` on a prepared operand. -/
def Ctx.roundAtCore (C : Ctx) (v : FV) (n : Option Int) (exact : Bool) (r : Nat) : Except Err Res :=
  match C with
  | .real => match n with | none => .ok ⟨v, {}⟩ | some _ => .error .assertion
  | .mp p rm k o =>
    match floatSpecial o v with
    | some res => res
    | none => match v with
      | .fin x =>
        if x.c = 0 then .ok ⟨.fin ⟨x.s, 0, 0⟩, {}⟩
        else match x.round (some p) n rm k r exact with
          | .error e => .error e
          | .ok (xr, fl) => .ok ⟨.fin xr, fl⟩
      | _ => .error .assertion
  | .mps p emin rm k o =>
    match floatSpecial o v with
    | some res => res
    | none => match v with
      | .fin x =>
        if x.c = 0 then .ok ⟨.fin ⟨x.s, 0, 0⟩, {}⟩
        else
          let nmin := emin - p
          let n' : Int := match n with | none => nmin | some n => if n < nmin then nmin else n
          match x.round (some p) (some n') rm k r exact with
          | .error e => .error e
          | .ok (xr, fl) => .ok ⟨.fin xr, fl⟩
      | _ => .error .assertion
  | .mpb c => mpbRoundAt c v n exact r
  | .efloat c =>
    match mpbRoundAt c.mpb v n exact r with
    | .error e => .error e
    | .ok res => efloatFixup c res
  | .mpfix nmin rm k negZero o =>
    let n' : Int := match n with | none => nmin | some n => max n nmin
    match fixedSpecial o v with
    | some res => res
    | none => match v with
      | .fin x =>
        if x.c = 0 then .ok ⟨.fin ⟨x.s && negZero, 0, 0⟩, {}⟩
        else match x.round none (some n') rm k r exact with
          | .error e => .error e
          | .ok (xr, fl) =>
            if xr.c = 0 && xr.s && !negZero then .ok ⟨.fin { xr with s := false }, fl⟩
            else .ok ⟨.fin xr, fl⟩
      | _ => .error .assertion
  | .mpbfix c => mpbfixRoundAt c v n exact r
  | .exp c => expRoundAt c v n exact

/-- `Context.round(x, exact=…)` with the stochastic draw `r` explicit. -/
def Ctx.round (C : Ctx) (x : Operand) (exact : Bool := false) (r : Nat := 0) : Except Err Res :=
  match prepare C.roundParams x with
  | .error e => .error e
  | .ok v => C.roundAtCore v none exact r

/-- `Context.round_at(x, n, exact=…)` -/
def Ctx.roundAt (C : Ctx) (x : Operand) (n : Int) (exact : Bool := false) (r : Nat := 0) : Except Err Res :=
  match prepare C.roundParams x with
  | .error e => .error e
  | .ok v => C.roundAtCore v (some n) exact r

end Fpy
