/-
Model of `fpy2/number/number/floats.py` (`Float`): a `RealFloat` extended with
infinities and NaN.  Only what the properties observe is kept (no `ctx` field,
no interval fields).
-/
import Fpy.Model.Num.Round
namespace Fpy

/-- A `Float` value.  NaN carries the sign bit the real object stores. -/
inductive FV
  | fin (x : RF)
  | inf (s : Bool)
  | nan (s : Bool)
deriving DecidableEq, Repr, Inhabited

namespace FV

def sign : FV → Bool
  | fin x => x.s | inf s => s | nan s => s

def isNan : FV → Bool | nan _ => true | _ => false
def isInf : FV → Bool | inf _ => true | _ => false
def isNar : FV → Bool | fin _ => false | _ => true
def isZero : FV → Bool | fin x => x.c == 0 | _ => false

/-- `Float(s=s, x=v)`: same class as `v` with the sign replaced. -/
def withSign (v : FV) (s : Bool) : FV :=
  match v with
  | fin x => fin { x with s := s }
  | inf _ => inf s
  | nan _ => nan s

/-- `Float.__neg__` -/
def neg : FV → FV
  | fin x => fin x.neg | inf s => inf (!s) | nan s => nan (!s)

/-- `Float.__abs__` -/
def abs (v : FV) : FV := v.withSign false

/-- `Float.__pos__`: `Float(x=self, ctx=None)`. -/
def pos (v : FV) : FV := v

/-- `Float.__add__` (both operands already `Float`). -/
def add (a b : FV) : FV :=
  match a, b with
  | nan _, _ => nan false
  | _, nan _ => nan false
  | inf s, inf t => if s == t then inf s else nan false
  | inf s, fin _ => inf s
  | fin _, inf t => inf t
  | fin x, fin y => fin (x.add y)

def sub (a b : FV) : FV := add a b.neg

/-- `Float.__mul__` -/
def mul (a b : FV) : FV :=
  match a, b with
  | nan _, _ => nan false
  | _, nan _ => nan false
  | inf s, b => if b.isZero then nan false else inf (s != b.sign)
  | fin x, inf t => if x.c == 0 then nan false else inf (x.s != t)
  | fin x, fin y => fin (x.mul y)

/-- `Float.compare`: `none` when unordered. -/
def compare (a b : FV) : Option Ordering :=
  match a, b with
  | nan _, _ => none
  | _, nan _ => none
  | inf s, inf t => some (if s == t then .eq else if s then .lt else .gt)
  | inf s, fin _ => some (if s then .lt else .gt)
  | fin _, inf t => some (if t then .gt else .lt)
  | fin x, fin y => some (x.compare y)

end FV

/-- Result of a rounding: value plus status flags. -/
structure Res where
  v : FV
  fl : Flags := {}
deriving DecidableEq, Repr, Inhabited

end Fpy
