/-
Model of `fpy2/number/number/reals.py` (class `RealFloat`), exact part.
Core Lean only (no Mathlib) so the driver links natively.
A `RealFloat` is `(-1)^s * c * 2^exp` with unbounded `c : Nat`, `exp : Int`.
-/
namespace Fpy

/-- Python `int.bit_length()` for non-negative ints. -/
def bitLength (n : Nat) : Nat := if n = 0 then 0 else n.log2 + 1

/-- `fpy2.utils.bitmask(k)` = `(1 << k) - 1`. -/
def bitmask (k : Nat) : Nat := 2 ^ k - 1

structure RF where
  s : Bool
  exp : Int
  c : Nat
deriving DecidableEq, Repr, Inhabited

namespace RF

/-- `RealFloat.p` -/
def p (x : RF) : Nat := bitLength x.c
/-- `RealFloat.e` (normalized exponent; `exp - 1` for zero) -/
def e (x : RF) : Int := x.exp + (x.p : Int) - 1
/-- `RealFloat.n` -/
def n (x : RF) : Int := x.exp - 1
def isZero (x : RF) : Bool := x.c == 0

/-- Denotation as a rational (`RealFloat.as_rational`). -/
def val (x : RF) : Rat :=
  let m : Int := if x.s then -(x.c : Int) else (x.c : Int)
  if x.exp ≥ 0 then ((m * (2 : Int) ^ x.exp.toNat : Int) : Rat)
  else (m : Rat) / (((2 : Nat) ^ (-x.exp).toNat : Nat) : Rat)

def zero (s : Bool := false) : RF := ⟨s, 0, 0⟩
def ofInt (i : Int) : RF := ⟨i < 0, 0, i.natAbs⟩

def neg (x : RF) : RF := { x with s := !x.s }
def abs (x : RF) : RF := { x with s := false }
def pos (x : RF) : RF := x

/-- shift a Nat left by a (non-negative) Int amount -/
def shl (c : Nat) (k : Int) : Nat := c * 2 ^ k.toNat

/-- `RealFloat.__add__` on two `RealFloat`s. -/
def add (x y : RF) : RF :=
  if x.c = 0 then
    if y.c = 0 then ⟨x.s && y.s, min x.exp y.exp, 0⟩ else y
  else if y.c = 0 then x
  else
    let exp := min x.exp y.exp
    let c1 : Int := shl x.c (x.exp - exp)
    let c2 : Int := shl y.c (y.exp - exp)
    let m1 := if x.s then -c1 else c1
    let m2 := if y.s then -c2 else c2
    let m := m1 + m2
    ⟨m < 0, exp, m.natAbs⟩

def sub (x y : RF) : RF := add x (neg y)

/-- `RealFloat.__mul__` -/
def mul (x y : RF) : RF :=
  let s := x.s != y.s
  if x.c = 0 || y.c = 0 then ⟨s, 0, 0⟩ else ⟨s, x.exp + y.exp, x.c * y.c⟩

/-- `RealFloat.__pow__` for a non-negative exponent. -/
def pow (x : RF) (k : Nat) : RF :=
  if k = 0 then ⟨false, 0, 1⟩
  else ⟨x.s && (k % 2 == 1), x.exp * k, x.c ^ k⟩

/-- `RealFloat.compare` on two RealFloats -/
def compare (x y : RF) : Ordering :=
  if x.c = 0 then
    if y.c = 0 then .eq else if y.s then .gt else .lt
  else if y.c = 0 then
    if x.s then .lt else .gt
  else if x.s != y.s then
    if x.s then .lt else .gt
  else
    let cmp : Ordering :=
      if x.e > y.e then .gt
      else if x.e < y.e then .lt
      else
        let exp := min x.exp y.exp
        let c1 := shl x.c (x.exp - exp)
        let c2 := shl y.c (y.exp - exp)
        Ord.compare c1 c2
    if x.s then cmp.swap else cmp

def lt (x y : RF) : Bool := compare x y == .lt
def le (x y : RF) : Bool := compare x y != .gt
def gt (x y : RF) : Bool := compare x y == .gt
def ge (x y : RF) : Bool := compare x y != .lt
def beqVal (x y : RF) : Bool := compare x y == .eq

/-- `RealFloat.is_more_significant(n)` -/
def isMoreSignificant (x : RF) (n : Int) : Bool :=
  if x.c = 0 then true
  else if x.exp > n then true
  else if x.e ≤ n then false
  else x.c % 2 ^ ((n - x.exp).toNat + 1) == 0

def isInteger (x : RF) : Bool := x.isMoreSignificant (-1)

/-- `RealFloat.bit(n)` -/
def bit (x : RF) (n : Int) : Bool :=
  let off := n - x.exp
  if off < 0 || off ≥ x.p then false else x.c.testBit off.toNat

/-- `RealFloat.split(n)`: digits above `n`, digits at or below `n`. -/
def split (x : RF) (n : Int) : RF × RF :=
  if x.c = 0 then (⟨x.s, n + 1, 0⟩, ⟨x.s, n, 0⟩)
  else if n ≥ x.e then (⟨x.s, n + 1, 0⟩, ⟨x.s, x.exp, x.c⟩)
  else if n < x.exp then (⟨x.s, x.exp, x.c⟩, ⟨x.s, n, 0⟩)
  else
    let plo := (n + 1 - x.exp).toNat
    (⟨x.s, x.exp + plo, x.c / 2 ^ plo⟩, ⟨x.s, x.exp, x.c % 2 ^ plo⟩)

/-- `RealFloat.normalize(p, n)`; `none` = the real code raises `ValueError`. -/
def normalize (x : RF) (p : Option Nat) (n : Option Int) : Option RF :=
  let go (shift : Int) (exp : Int) : Option RF :=
    if shift = 0 then some ⟨x.s, exp, x.c⟩
    else if shift > 0 then some ⟨x.s, exp, x.c * 2 ^ shift.toNat⟩
    else
      let k := (-shift).toNat
      if x.c % 2 ^ k != 0 then none else some ⟨x.s, exp, x.c / 2 ^ k⟩
  match p, n with
  | none, none => some ⟨x.s, x.exp, x.c⟩
  | some p, none =>
    let shift : Int := (p : Int) - x.p
    go shift (x.exp - shift)
  | none, some n =>
    let exp := n + 1
    go (x.exp - exp) exp
  | some p, some n =>
    let shift : Int := (p : Int) - x.p
    let exp := x.exp - shift
    if exp ≤ n then
      let adjust := (n + 1) - exp
      go (shift - adjust) (exp + adjust)
    else go shift exp

/-- `RealFloat.__int__`: `none` when not an integer (`ValueError`). -/
def toInt? (x : RF) : Option Int :=
  if !x.isInteger then none
  else if x.c = 0 then some 0
  else
    let c : Nat := if x.exp ≥ 0 then x.c * 2 ^ x.exp.toNat else x.c / 2 ^ (-x.exp).toNat
    some (if x.s then -(c : Int) else c)

end RF
end Fpy
