/-
Model of `fpy2/ops.py` + the two engines (`number/engine/gmp.py`, `real.py`):
an operation is evaluated by the MPFR engine (round-to-odd intermediate with the
context's `round_params()` digits, computed toward zero with a sticky bit) when all
operands are `Float` and the context is not exact, else by the exact `RealEngine`;
`ops._normalize` then rounds once under the context.

MPFR itself is external: for +, −, ×, fma, ÷, √ its toward-zero result and inexact
ternary are *computed* here in integers (truncation + "was anything lost"), which is the
contract `gmputils._round_odd` relies on.
-/
import Fpy.Model.Num.Ctx
namespace Fpy

/-- a numeric value of the interpreter: a `Float`, or (only under exact computation)
a non-dyadic `Fraction` in lowest terms -/
inductive NV
  | fv (v : FV)
  | q (num : Int) (den : Nat)
deriving DecidableEq, Repr, Inhabited

/-- lowest-terms rational → `NV` as `ops._cvt_to_real` does (dyadic ⇒ Float) -/
def NV.ofRat (num : Int) (den : Nat) : NV :=
  let g := Nat.gcd num.natAbs den
  let num' := num / (g : Int)
  let den' := den / g
  if den' = 1 then .fv (.fin (RF.ofInt num'))
  else if isPow2 den' then .fv (.fin (rfOfDyadic num' den'))
  else .q num' den'

/-- a Python `Fraction` result (kept as a Fraction even when its value is dyadic) -/
def NV.frac (num : Int) (den : Nat) : NV :=
  let g := Nat.gcd num.natAbs den
  .q (num / (g : Int)) (den / g)

/-- exact value of a finite RF as (numerator, denominator) -/
def RF.toRat (x : RF) : Int × Nat :=
  let m : Int := if x.s then -(x.c : Int) else x.c
  if x.exp ≥ 0 then (m * 2 ^ x.exp.toNat, 1) else (m, 2 ^ (-x.exp).toNat)

/-- round-to-odd of an exact dyadic value to `prec` significant digits
(MPFR toward-zero at `prec` digits, then `_round_odd`) -/
def rtoRF (x : RF) (prec : Nat) : RF :=
  if x.p ≤ prec then x
  else
    let k := x.p - prec
    let c := x.c / 2 ^ k
    let inex := x.c % 2 ^ k != 0
    ⟨x.s, x.exp + k, if c % 2 == 0 && inex then c + 1 else c⟩

/-- `mpfr_call` precision selection on an exact dyadic value (`prec` given, or the two-pass
`n`-based branch) -/
def mpfrRtoRF (x : RF) (prec : Option Nat) (n : Option Int) : Except Err RF :=
  if x.c = 0 then .ok x else
  match prec with
  | some p => .ok (rtoRF x (p + 2))
  | none =>
    match n with
    | none => .error .valueError
    | some n =>
      let e := x.e
      if e ≤ n then .ok (rtoRF x 2) else .ok (rtoRF x ((e - n).toNat + 2))

/-- integer square root (floor) by Newton iteration with fuel -/
def isqrtAux (n : Nat) : Nat → Nat → Nat
  | 0, x => x
  | fuel + 1, x =>
    let y := (x + n / x) / 2
    if y < x then isqrtAux n fuel y else x

def isqrt (n : Nat) : Nat :=
  if n = 0 then 0 else isqrtAux n (n.log2 + 2) (2 ^ (n.log2 / 2 + 1))

/-- square root of a positive RF truncated to `prec` digits with the sticky bit folded into the
last digit (round to odd): scale to an even exponent with at least `2*prec` digits, take the
integer square root, truncate. -/
def rtoSqrt (x : RF) (prec : Nat) : RF :=
  let par : Nat := if x.exp % 2 == 0 then 0 else 1
  let need : Nat := 2 * prec + 2
  let j : Nat := if x.p + par ≥ need then 0 else (need - (x.p + par) + 1) / 2
  let c' := x.c * 2 ^ (2 * j + par)
  let e' : Int := x.exp - ((2 * j + par : Nat) : Int)
  let r := isqrt c'
  let k := bitLength r - prec            -- digits to drop (r has at least `prec` digits)
  let t := r / 2 ^ k
  let inex := r % 2 ^ k != 0 || r * r != c'
  ⟨false, e' / 2 + k, if t % 2 == 0 && inex then t + 1 else t⟩

inductive Op
  | add | sub | mul | div | fma | neg | fabs | sqrt | copysign | fdim | fmin | fmax
  | ceil | floor | trunc | roundint | nearbyint | round | roundExact
deriving DecidableEq, Repr, Inhabited

/-- result of the engine step: an exact or round-to-odd `Float`, or an exact `Fraction` -/
abbrev EngRes := NV

def nvIsNan : NV → Bool | .fv v => v.isNan | _ => false
def nvIsInf : NV → Bool | .fv v => v.isInf | _ => false
def nvIsZero : NV → Bool | .fv v => v.isZero | .q n _ => n == 0
def nvSign : NV → Bool | .fv v => v.sign | .q n _ => n < 0
def nvRat : NV → Int × Nat
  | .fv (.fin x) => x.toRat
  | .fv _ => (0, 1)
  | .q n d => (n, d)

def ratAdd (a b : Int × Nat) : Int × Nat := (a.1 * b.2 + b.1 * a.2, a.2 * b.2)
def ratMul (a b : Int × Nat) : Int × Nat := (a.1 * b.1, a.2 * b.2)

/-- `RealEngine.add` -/
def realAdd (x y : NV) : NV :=
  if nvIsNan x || nvIsNan y then .fv (.nan false)
  else if nvIsInf x then
    (if nvIsInf y then (if nvSign x == nvSign y then .fv (.inf (nvSign x)) else .fv (.nan false))
     else .fv (.inf (nvSign x)))
  else if nvIsInf y then .fv (.inf (nvSign y))
  else match x, y with
    | .fv (.fin a), .fv (.fin b) => .fv (.fin (a.add b))
    | _, _ => let r := ratAdd (nvRat x) (nvRat y); .frac r.1 r.2

def realNeg : NV → NV
  | .fv v => .fv v.neg
  | .q n d => .q (-n) d

/-- `RealEngine.mul` -/
def realMul (x y : NV) : NV :=
  if nvIsNan x || nvIsNan y then .fv (.nan false)
  else if nvIsInf x then (if nvIsZero y then .fv (.nan false) else .fv (.inf (nvSign x != nvSign y)))
  else if nvIsInf y then (if nvIsZero x then .fv (.nan false) else .fv (.inf (nvSign x != nvSign y)))
  else match x, y with
    | .fv (.fin a), .fv (.fin b) => .fv (.fin (a.mul b))
    | _, _ => let r := ratMul (nvRat x) (nvRat y); .frac r.1 r.2

/-- `RealEngine.div` -/
def realDiv (x y : NV) : NV :=
  if nvIsNan x || nvIsNan y then .fv (.nan false)
  else
    let s := nvSign x != nvSign y
    if nvIsInf x then (if nvIsInf y then .fv (.nan false) else .fv (.inf s))
    else if nvIsInf y then .fv (.fin ⟨s, 0, 0⟩)
    else if nvIsZero y then (if nvIsZero x then .fv (.nan false) else .fv (.inf s))
    else if nvIsZero x then .fv (.fin ⟨s, 0, 0⟩)
    else
      let a := nvRat x; let b := nvRat y
      -- a / b = a.1 * b.2 / (a.2 * b.1)
      let num : Int := a.1 * b.2 * (if b.1 < 0 then -1 else 1)
      let den : Nat := a.2 * b.1.natAbs
      match x, y with
      | .fv _, .fv _ => .ofRat num den       -- both Float: a dyadic quotient becomes a Float
      | _, _ => .frac num den

/-- MPFR engine on `Float` operands: IEEE special-value arms as MPFR (toward zero) gives them,
finite arms exact-then-round-to-odd. `none` ⇒ this engine declines (RealEngine is next). -/
def mpfrOp (op : Op) (args : List FV) (prec : Option Nat) (n : Option Int) : Option (Except Err FV) :=
  let rto (x : RF) : Except Err FV := (mpfrRtoRF x prec n).map FV.fin
  match op, args with
  | .add, [a, b] =>
    some (match a, b with
      | .fin x, .fin y =>
        -- MPFR under RTZ: an exact zero sum of opposite signs is +0
        if x.c = 0 && y.c = 0 then .ok (.fin ⟨x.s && y.s, 0, 0⟩)
        else let z := x.add y; if z.c = 0 then .ok (.fin ⟨false, 0, 0⟩) else rto z
      | _, _ => .ok (FV.add a b))
  | .sub, [a, b] =>
    some (match a, b with
      | .fin x, .fin y =>
        let y' := y.neg
        if x.c = 0 && y'.c = 0 then .ok (.fin ⟨x.s && y'.s, 0, 0⟩)
        else let z := x.add y'; if z.c = 0 then .ok (.fin ⟨false, 0, 0⟩) else rto z
      | _, _ => .ok (FV.add a b.neg))
  | .mul, [a, b] =>
    some (match a, b with
      | .fin x, .fin y => let z := x.mul y; if z.c = 0 then .ok (.fin ⟨z.s, 0, 0⟩) else rto z
      | _, _ => .ok (FV.mul a b))
  | .neg, [a] => some (match a with | .fin x => (if x.c = 0 then .ok (.fin ⟨!x.s, 0, 0⟩) else rto x.neg) | v => .ok (match v with | .nan _ => .nan false | w => w.neg))
  | .fabs, [a] => some (match a with | .fin x => (if x.c = 0 then .ok (.fin ⟨false, 0, 0⟩) else rto x.abs) | v => .ok (match v with | .nan _ => .nan false | w => w.abs))
  | .div, [a, b] =>
    some (match realDiv (.fv a) (.fv b) with
      | .fv (.fin z) => if z.c = 0 then .ok (.fin ⟨z.s, 0, 0⟩) else rto z
      | .fv v => .ok v
      | .q num den =>
        match mpfrValue (num < 0) num.natAbs den prec n with
        | .ok z => .ok (.fin z)
        | .error e => .error e)
  | .sqrt, [a] =>
    some (match a with
      | .nan _ => .ok (.nan false)
      | .inf s => .ok (if s then .nan false else .inf false)
      | .fin x =>
        if x.c = 0 then .ok (.fin ⟨x.s, 0, 0⟩)
        else if x.s then .ok (.nan false)
        else
          match prec with
          | some p => .ok (.fin (rtoSqrt x (p + 2)))
          | none =>
            match n with
            | none => .error .valueError
            | some n =>
              let y2 := rtoSqrt x 2
              let e := y2.e
              if e ≤ n then .ok (.fin y2) else .ok (.fin (rtoSqrt x ((e - n).toNat + 2))))
  | .fma, [a, b, c] =>
    some (match a, b, c with
      | .fin x, .fin y, .fin z =>
        let m := x.mul y
        if m.c = 0 && z.c = 0 then .ok (.fin ⟨m.s && z.s, 0, 0⟩)
        else let w := m.add z; if w.c = 0 then .ok (.fin ⟨false, 0, 0⟩) else rto w
      | _, _, _ => .ok (FV.add (FV.mul a b) c))
  | _, _ => none

/-- engine dispatch + `_normalize`: the value `fpy2.ops.<op>(args, ctx=C)` returns -/
def opEval (C : Ctx) (op : Op) (args : List NV) : Except Err NV :=
  let params := C.roundParams
  let allFloat := args.all (fun a => match a with | .fv _ => true | _ => false)
  let fvs := args.filterMap (fun a => match a with | .fv v => some v | _ => none)
  let normalize (r : NV) : Except Err NV :=
    match C, r with
    | .real, .q n d => .ok (.q n d)
    | _, .fv v => (C.roundAtCore v none false 0).map (fun res => NV.fv res.v)
    | _, .q num den => (C.round (.frac num den)).map (fun res => NV.fv res.v)
  let exactEngine : Option NV :=
    match op, args with
    | .add, [a, b] => some (realAdd a b)
    | .sub, [a, b] => some (realAdd a (realNeg b))
    | .mul, [a, b] => some (realMul a b)
    | .div, [a, b] => some (realDiv a b)
    | .neg, [a] => some (realNeg a)
    | .fabs, [a] => some (match a with | .fv v => .fv v.abs | .q n d => .q (Int.natAbs n) d)
    | .fma, [a, b, c] => some (realAdd (realMul a b) c)
    | _, _ => none
  match op with
  | .round => match args with
    | [.fv v] => (C.roundAtCore v none false 0).map (fun res => NV.fv res.v)
    | [.q num den] => (match C with | .real => .ok (.q num den) | _ => (C.round (.frac num den)).map (fun res => NV.fv res.v))
    | _ => .error .typeError
  | _ =>
    let useMpfr := allFloat && !(params.1.isNone && params.2.isNone)
    match (if useMpfr then mpfrOp op fvs params.1 params.2 else none) with
    | some (.ok v) => normalize (.fv v)
    | some (.error e) => .error e
    | none =>
      match exactEngine with
      | some r => normalize r
      | none => .error .notImplemented

end Fpy
