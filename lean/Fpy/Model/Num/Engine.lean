/-
Model of `fpy2/ops.py` + the two engines (`number/engine/gmp.py`, `real.py`):
an operation is evaluated by the MPFR engine (round-to-odd intermediate with the
context's `round_params()` digits, computed toward zero with a sticky bit) when all
operands are `Float` and the context is not exact, else by the exact `RealEngine`;
`ops._normalize` then rounds once under the context and sets `invalid` / `divzero`.

MPFR itself is external: for +, −, ×, fma, ÷, √, ∛, hypot, fmod, remainder, integer powers,
copysign, min/max its toward-zero result and inexact ternary are *computed* here in integers
(truncation + "was anything lost"), which is the contract `gmputils._round_odd` relies on.
MPFR's own exponent range (|e| < 2^62) is not modelled.
-/
import Fpy.Model.Num.Ctx
namespace Fpy

/-- a numeric value of the interpreter: a `Float`, or (only under exact computation)
a non-dyadic `Fraction` in lowest terms -/
inductive NV
  | fv (v : FV)
  | q (num : Int) (den : Nat)
deriving DecidableEq, Repr, Inhabited

/-- lowest-terms rational → `NV` as `ops._cvt_to_real` does (dyadic ⇒ Float) -/
def NV.ofRat (num : Int) (den : Nat) : NV :=
  let g := Nat.gcd num.natAbs den
  let num' := num / (g : Int)
  let den' := den / g
  if den' = 1 then .fv (.fin (RF.ofInt num'))
  else if isPow2 den' then .fv (.fin (rfOfDyadic num' den'))
  else .q num' den'

/-- a Python `Fraction` result (kept as a Fraction even when its value is dyadic) -/
def NV.frac (num : Int) (den : Nat) : NV :=
  let g := Nat.gcd num.natAbs den
  .q (num / (g : Int)) (den / g)

/-- exact value of a finite RF as (numerator, denominator) -/
def RF.toRat (x : RF) : Int × Nat :=
  let m : Int := if x.s then -(x.c : Int) else x.c
  if x.exp ≥ 0 then (m * 2 ^ x.exp.toNat, 1) else (m, 2 ^ (-x.exp).toNat)

/-- `_round_odd` on a truncated significand: the sticky bit is OR-ed into the last digit -/
def rtoBit (c : Nat) (inex : Bool) : Nat := if c % 2 == 0 && inex then c + 1 else c

/-- round-to-odd of an exact dyadic value to `prec` significant digits
(MPFR toward-zero at `prec` digits, then `_round_odd`) -/
def rtoRF (x : RF) (prec : Nat) : RF :=
  if x.p ≤ prec then x
  else
    let k := x.p - prec
    let c := x.c / 2 ^ k
    let inex := x.c % 2 ^ k != 0
    ⟨x.s, x.exp + k, if c % 2 == 0 && inex then c + 1 else c⟩

/-- `mpfr_call` precision selection on an exact dyadic value (`prec` given, or the two-pass
`n`-based branch) -/
def mpfrRtoRF (x : RF) (prec : Option Nat) (n : Option Int) : Except Err RF :=
  if x.c = 0 then .ok x else
  match prec with
  | some p => .ok (rtoRF x (p + 2))
  | none =>
    match n with
    | none => .error .valueError
    | some n =>
      let e := x.e
      if e ≤ n then .ok (rtoRF x 2) else .ok (rtoRF x ((e - n).toNat + 2))

/-- `mpfr_call` precision selection for a result given as "its round-to-odd value at any number
of digits" (`f prec`): two digits first, then `e - n + 2` digits if anything lies above `n`. -/
def mpfrTwoPass (f : Nat → RF) (prec : Option Nat) (n : Option Int) : Except Err RF :=
  match prec with
  | some p => .ok (f (p + 2))
  | none =>
    match n with
    | none => .error .valueError
    | some n =>
      let y2 := f 2
      let e := y2.e
      if e ≤ n then .ok y2 else .ok (f ((e - n).toNat + 2))

/-- integer `k`-th root (floor), digit by digit from the top -/
def irootGo (k n : Nat) : Nat → Nat → Nat
  | 0, r => r
  | i + 1, r => if (r + 2 ^ i) ^ k ≤ n then irootGo k n i (r + 2 ^ i) else irootGo k n i r

def iroot (k n : Nat) : Nat := irootGo k n (bitLength n / k + 1) 0

/-- integer square root (floor) -/
def isqrt (n : Nat) : Nat := iroot 2 n
/-- integer cube root (floor) -/
def icbrt (n : Nat) : Nat := iroot 3 n

/-- `k`-th root (`k = 2, 3`) of the magnitude of a non-zero RF truncated to `prec` digits with the
sticky bit folded into the last digit (round to odd): scale to an exponent divisible by `k` with
at least `k*prec + k` digits, take the integer root, truncate.  The sign is kept. -/
def rtoRoot (k : Nat) (x : RF) (prec : Nat) : RF :=
  let need : Nat := k * prec + k
  let r0 : Nat := (x.exp % (k : Int)).toNat
  let j : Nat := if x.p + r0 ≥ need then 0 else (need - (x.p + r0) + (k - 1)) / k
  let sh : Nat := k * j + r0
  let c' := x.c * 2 ^ sh
  let e' : Int := x.exp - (sh : Int)
  let r := iroot k c'
  let d := bitLength r - prec            -- digits to drop (`r` has more than `prec` digits)
  let t := r / 2 ^ d
  let inex := r % 2 ^ d != 0 || r ^ k != c'
  ⟨x.s, e' / (k : Int) + d, rtoBit t inex⟩

/-- square root of a positive RF, round to odd at `prec` digits -/
def rtoSqrt (x : RF) (prec : Nat) : RF := rtoRoot 2 { x with s := false } prec

inductive Op
  | add | sub | mul | div | fma | neg | fabs | sqrt | copysign | fdim | fmin | fmax
  | ceil | floor | trunc | roundint | nearbyint | round | roundExact
  | cbrt | hypot | mod | fmod | remainder | pow | roundAt | cast
deriving DecidableEq, Repr, Inhabited

/-- result of the engine step: an exact or round-to-odd `Float`, or an exact `Fraction` -/
abbrev EngRes := NV

def nvIsFloat : NV → Bool | .fv _ => true | _ => false
def nvFloat? : NV → Option FV | .fv v => some v | _ => none
def nvIsNan : NV → Bool | .fv v => v.isNan | _ => false
def nvIsInf : NV → Bool | .fv v => v.isInf | _ => false
def nvIsNar : NV → Bool | .fv v => v.isNar | _ => false
def nvIsZero : NV → Bool | .fv v => v.isZero | .q n _ => n == 0
def nvSign : NV → Bool | .fv v => v.sign | .q n _ => n < 0
def nvRat : NV → Int × Nat
  | .fv (.fin x) => x.toRat
  | .fv _ => (0, 1)
  | .q n d => (n, d)

def ratAdd (a b : Int × Nat) : Int × Nat := (a.1 * b.2 + b.1 * a.2, a.2 * b.2)
def ratMul (a b : Int × Nat) : Int × Nat := (a.1 * b.1, a.2 * b.2)
/-- `a < b` on (numerator, positive denominator) pairs -/
def ratLt (a b : Int × Nat) : Bool := a.1 * b.2 < b.1 * a.2

/-- `RealEngine.add` -/
def realAdd (x y : NV) : NV :=
  if nvIsNan x || nvIsNan y then .fv (.nan false)
  else if nvIsInf x then
    (if nvIsInf y then (if nvSign x == nvSign y then .fv (.inf (nvSign x)) else .fv (.nan false))
     else .fv (.inf (nvSign x)))
  else if nvIsInf y then .fv (.inf (nvSign y))
  else match x, y with
    | .fv (.fin a), .fv (.fin b) => .fv (.fin (a.add b))
    | _, _ => let r := ratAdd (nvRat x) (nvRat y); .frac r.1 r.2

def realNeg : NV → NV
  | .fv v => .fv v.neg
  | .q n d => .q (-n) d

/-- `RealEngine.mul` -/
def realMul (x y : NV) : NV :=
  if nvIsNan x || nvIsNan y then .fv (.nan false)
  else if nvIsInf x then (if nvIsZero y then .fv (.nan false) else .fv (.inf (nvSign x != nvSign y)))
  else if nvIsInf y then (if nvIsZero x then .fv (.nan false) else .fv (.inf (nvSign x != nvSign y)))
  else if nvIsZero x || nvIsZero y then .fv (.fin ⟨nvSign x != nvSign y, 0, 0⟩)   -- keeps the sign of a zero factor
  else match x, y with
    | .fv (.fin a), .fv (.fin b) => .fv (.fin (a.mul b))
    | _, _ => let r := ratMul (nvRat x) (nvRat y); .frac r.1 r.2

/-- `RealEngine.div` -/
def realDiv (x y : NV) : NV :=
  if nvIsNan x || nvIsNan y then .fv (.nan false)
  else
    let s := nvSign x != nvSign y
    if nvIsInf x then (if nvIsInf y then .fv (.nan false) else .fv (.inf s))
    else if nvIsInf y then .fv (.fin ⟨s, 0, 0⟩)
    else if nvIsZero y then (if nvIsZero x then .fv (.nan false) else .fv (.inf s))
    else if nvIsZero x then .fv (.fin ⟨s, 0, 0⟩)
    else
      let a := nvRat x; let b := nvRat y
      -- a / b = a.1 * b.2 / (a.2 * b.1)
      let num : Int := a.1 * b.2 * (if b.1 < 0 then -1 else 1)
      let den : Nat := a.2 * b.1.natAbs
      match x, y with
      | .fv _, .fv _ => .ofRat num den       -- both Float: a dyadic quotient becomes a Float
      | _, _ => .frac num den

/-- `RealEngine.copysign` -/
def realCopysign (x y : NV) : NV :=
  let s := nvSign y
  match x with
  | .fv v => .fv (v.withSign s)
  | .q n d => if n = 0 then .fv (.fin ⟨s, 0, 0⟩) else .q (if s then -(n.natAbs : Int) else n.natAbs) d

/-- Python `y > x` / `y < x` between `Float` and `Fraction` values (`Float.compare`,
`RealFloat.compare` with a `Fraction`); unordered (NaN) ⇒ `false` -/
def nvCompare (a b : NV) : Option Ordering :=
  match a, b with
  | .fv u, .fv v => u.compare v
  | _, _ =>
    if nvIsNan a || nvIsNan b then none
    else if nvIsInf a then some (if nvSign a then .lt else .gt)
    else if nvIsInf b then some (if nvSign b then .gt else .lt)
    else
      let p := nvRat a; let q := nvRat b
      some (if ratLt p q then .lt else if ratLt q p then .gt else .eq)

/-- `RealEngine.fmax = max(x, y)` (Python `max`: `y` only when `y > x`) -/
def realFmax (x y : NV) : NV := if nvCompare y x == some .gt then y else x
/-- `RealEngine.fmin = min(x, y)` -/
def realFmin (x y : NV) : NV := if nvCompare y x == some .lt then y else x

/-- `real._int_value` -/
def nvIntValue : NV → Option Int
  | .fv (.fin r) => r.toInt?
  | .fv _ => none
  | .q n d => if d = 1 then some n else none

/-- `real._log2_exact` -/
def nvLog2Exact : NV → Option Int
  | .fv (.fin r) => if r.c != 0 && isPow2 r.c then some r.e else none
  | _ => none

def maxPowExponent : Nat := 65536

/-- `q ** n` for a non-zero rational `q = num/den` and any integer `n`, as (numerator, denominator) -/
def ratPow (num : Int) (den : Nat) (n : Int) : Int × Nat :=
  let k := n.natAbs
  if n ≥ 0 then (num ^ k, den ^ k)
  else
    -- (num/den)^(-k) = den^k / num^k with the sign moved to the numerator
    let sg : Int := if num < 0 && k % 2 == 1 then -1 else 1
    (sg * ((den ^ k : Nat) : Int), num.natAbs ^ k)

/-- `RealEngine.pow`; `none` ⇒ the engine declines (non-integer exponent or exponent too large) -/
def realPow (x y : NV) : Option NV :=
  match nvIntValue y with
  | none => none
  | some n =>
    let k := nvLog2Exact x
    if k.isNone && n.natAbs > maxPowExponent then none
    else
      let odd : Bool := n % 2 == 1
      if nvIsNan x || nvIsInf x then
        if n == 0 then some (.fv (.fin ⟨false, 0, 1⟩))
        else if nvIsNan x then some (.fv (.nan false))
        else if n > 0 then some (.fv (.inf (nvSign x && odd)))
        else some (.fv (.fin ⟨nvSign x && odd, 0, 0⟩))
      else if n < 0 && nvIsZero x then some (.fv (.inf (nvSign x && odd)))
      else match k with
        | some k => some (.fv (.fin ⟨nvSign x && odd, k * n, 1⟩))
        | none =>
          match x with
          | .fv (.fin r) =>
            if n ≥ 0 then some (.fv (.fin (r.pow n.toNat)))
            else
              let a := r.toRat
              let p := ratPow a.1 a.2 n
              some (.ofRat p.1 p.2)
          | .fv _ => none      -- unreachable
          | .q num den => let p := ratPow num den n; some (.frac p.1 p.2)

/-- `RealEngine._real_rint` -/
def realRint (x : NV) (rm : RM) : Except Err NV :=
  match x with
  | .fv (.fin r) =>
    match r.round none (some (-1)) rm with
    | .ok (y, _) => .ok (.fv (.fin y))
    | .error e => .error e
  | .fv v => .ok (.fv v)
  | .q num den =>
    match mpfrValue (num < 0) num.natAbs den none (some (-1)) with
    | .error e => .error e
    | .ok y =>
      match y.round none (some (-1)) rm with
      | .ok (z, _) => .ok (.fv (.fin z))
      | .error e => .error e

/-- MPFR result `Float` of a value that is already exact: zero keeps its sign, a non-zero finite
value is rounded to odd at the working precision, NaN loses its sign -/
def mpfrExactFV (v : FV) (prec : Option Nat) (n : Option Int) : Except Err FV :=
  match v with
  | .fin x => if x.c = 0 then .ok (.fin ⟨x.s, 0, 0⟩) else (mpfrRtoRF x prec n).map FV.fin
  | .inf s => .ok (.inf s)
  | .nan _ => .ok (.nan false)

/-- `mpfr_div` on two finite non-zero values: exact rational quotient, round to odd -/
def mpfrDivFin (x y : RF) (prec : Option Nat) (n : Option Int) : Except Err FV :=
  match realDiv (.fv (.fin x)) (.fv (.fin y)) with
  | .fv (.fin z) => if z.c = 0 then .ok (.fin ⟨z.s, 0, 0⟩) else (mpfrRtoRF z prec n).map FV.fin
  | .fv v => .ok v
  | .q num den =>
    match mpfrValue (num < 0) num.natAbs den prec n with
    | .ok z => .ok (.fin z)
    | .error e => .error e

/-- sign bit MPFR sees for an operand (`float_to_mpfr` drops the sign of NaN) -/
def mpfrSign : FV → Bool
  | .nan _ => false
  | v => v.sign

/-- aligned significands of two finite values: `(e, cx, cy)` with `x = ±cx·2^e`, `y = ±cy·2^e` -/
def alignRF (x y : RF) : Int × Nat × Nat :=
  let e := min x.exp y.exp
  (e, RF.shl x.c (x.exp - e), RF.shl y.c (y.exp - e))

/-- exact `fmod` of finite `x` by finite non-zero `y`: `x − trunc(x/y)·y`, sign of `x` -/
def fmodRF (x y : RF) : RF :=
  let (e, cx, cy) := alignRF x y
  ⟨x.s, e, cx % cy⟩

/-- exact IEEE `remainder` of finite `x` by finite non-zero `y`: `x − n·y`, `n` the integer nearest
to `x/y`, ties to even; a zero result has the sign of `x` -/
def remainderRF (x y : RF) : RF :=
  let (e, cx, cy) := alignRF x y
  let q := cx / cy
  let r := cx % cy
  if 2 * r < cy || (2 * r == cy && q % 2 == 0) then ⟨x.s, e, r⟩
  else ⟨!x.s, e, cy - r⟩

/-- `MPFREngine._mod` on two finite non-zero values: floor of the round-to-odd quotient at
`n = −1`, then the exact `x − q·y` with `Float` arithmetic; a zero remainder takes the sign of `y` -/
def modFin (x y : RF) : Except Err FV :=
  match mpfrDivFin x y none (some (-1)) with
  | .error e => .error e
  | .ok (.fin qf) =>
    match qf.round none (some (-1)) .rtn with
    | .error e => .error e
    | .ok (qr, _) =>
      match qr.toInt? with
      | none => .error .valueError
      | some q =>
        let r := FV.add (.fin x) (FV.neg (FV.mul (.fin y) (.fin (RF.ofInt q))))
        -- an exact multiple: the zero remainder takes the sign of `y` (Python's `%`)
        .ok (if r.isZero then r.withSign y.s else r)
  | .ok _ => .error .valueError     -- `math.floor` of a non-finite Float (unreachable)

/-- MPFR engine on `Float` operands: IEEE special-value arms as MPFR (toward zero) gives them,
finite arms exact-then-round-to-odd. `none` ⇒ this engine declines (RealEngine is next). -/
def mpfrOp (op : Op) (args : List FV) (prec : Option Nat) (n : Option Int) : Option (Except Err FV) :=
  let rto (x : RF) : Except Err FV := (mpfrRtoRF x prec n).map FV.fin
  let exact (v : FV) : Except Err FV := mpfrExactFV v prec n
  let subFin (x y : RF) : Except Err FV :=
    let y' := y.neg
    if x.c = 0 && y'.c = 0 then .ok (.fin ⟨x.s && y'.s, 0, 0⟩)
    else let z := x.add y'; if z.c = 0 then .ok (.fin ⟨false, 0, 0⟩) else rto z
  match op, args with
  | .add, [a, b] =>
    some (match a, b with
      | .fin x, .fin y =>
        -- MPFR under RTZ: an exact zero sum of opposite signs is +0
        if x.c = 0 && y.c = 0 then .ok (.fin ⟨x.s && y.s, 0, 0⟩)
        else let z := x.add y; if z.c = 0 then .ok (.fin ⟨false, 0, 0⟩) else rto z
      | _, _ => .ok (FV.add a b))
  | .sub, [a, b] =>
    some (match a, b with
      | .fin x, .fin y => subFin x y
      | _, _ => .ok (FV.add a b.neg))
  | .mul, [a, b] =>
    some (match a, b with
      | .fin x, .fin y => let z := x.mul y; if z.c = 0 then .ok (.fin ⟨z.s, 0, 0⟩) else rto z
      | _, _ => .ok (FV.mul a b))
  | .neg, [a] => some (match a with | .fin x => (if x.c = 0 then .ok (.fin ⟨!x.s, 0, 0⟩) else rto x.neg) | v => .ok (match v with | .nan _ => .nan false | w => w.neg))
  | .fabs, [a] => some (match a with | .fin x => (if x.c = 0 then .ok (.fin ⟨false, 0, 0⟩) else rto x.abs) | v => .ok (match v with | .nan _ => .nan false | w => w.abs))
  | .div, [a, b] =>
    some (match a, b with
      | .fin x, .fin y =>
        if x.c = 0 || y.c = 0 then
          (match realDiv (.fv a) (.fv b) with | .fv v => .ok v | .q _ _ => .error .assertion)
        else mpfrDivFin x y prec n
      | _, _ => match realDiv (.fv a) (.fv b) with | .fv v => .ok v | .q _ _ => .error .assertion)
  | .sqrt, [a] =>
    some (match a with
      | .nan _ => .ok (.nan false)
      | .inf s => .ok (if s then .nan false else .inf false)
      | .fin x =>
        if x.c = 0 then .ok (.fin ⟨x.s, 0, 0⟩)
        else if x.s then .ok (.nan false)
        else (mpfrTwoPass (rtoSqrt x) prec n).map FV.fin)
  | .cbrt, [a] =>
    some (match a with
      | .nan _ => .ok (.nan false)
      | .inf s => .ok (.inf s)
      | .fin x =>
        if x.c = 0 then .ok (.fin ⟨x.s, 0, 0⟩)
        else (mpfrTwoPass (rtoRoot 3 x) prec n).map FV.fin)
  | .hypot, [a, b] =>
    some (
      if a.isInf || b.isInf then .ok (.inf false)
      else match a, b with
        | .fin x, .fin y =>
          if x.c = 0 && y.c = 0 then .ok (.fin ⟨false, 0, 0⟩)
          else
            let z := (x.mul x).add (y.mul y)       -- exact sum of squares
            (mpfrTwoPass (rtoSqrt z) prec n).map FV.fin
        | _, _ => .ok (.nan false))
  | .fma, [a, b, c] =>
    some (match a, b, c with
      | .fin x, .fin y, .fin z =>
        let m := x.mul y
        if m.c = 0 && z.c = 0 then .ok (.fin ⟨m.s && z.s, 0, 0⟩)
        else let w := m.add z; if w.c = 0 then .ok (.fin ⟨false, 0, 0⟩) else rto w
      | _, _, _ => .ok (FV.add (FV.mul a b) c))
  | .copysign, [a, b] => some (exact (a.withSign (mpfrSign b)))
  | .fmax, [a, b] =>
    some (match a, b with
      | .nan _, _ => exact b
      | _, .nan _ => exact a
      | _, _ =>
        match a.compare b with
        | some .lt => exact b
        | some .gt => exact a
        | _ => if a.isZero && b.isZero then .ok (.fin ⟨a.sign && b.sign, 0, 0⟩) else exact a)
  | .fmin, [a, b] =>
    some (match a, b with
      | .nan _, _ => exact b
      | _, .nan _ => exact a
      | _, _ =>
        match a.compare b with
        | some .lt => exact a
        | some .gt => exact b
        | _ => if a.isZero && b.isZero then .ok (.fin ⟨a.sign || b.sign, 0, 0⟩) else exact a)
  | .fdim, [a, b] =>
    -- `MPFREngine._fdim`
    some (
      if a.isNan || b.isNan then .ok (.nan false)
      else if a.compare b == some .gt then
        (match a, b with
         | .fin x, .fin y => subFin x y
         | _, _ => .ok (FV.add a b.neg))
      else .ok (.fin ⟨false, 0, 0⟩))
  | .fmod, [a, b] =>
    some (match a, b with
      | .nan _, _ => .ok (.nan false)
      | _, .nan _ => .ok (.nan false)
      | .inf _, _ => .ok (.nan false)
      | .fin x, .inf _ => exact (.fin x)
      | .fin x, .fin y =>
        if y.c = 0 then .ok (.nan false)
        else if x.c = 0 then .ok (.fin ⟨x.s, 0, 0⟩)
        else exact (.fin (fmodRF x y)))
  | .remainder, [a, b] =>
    some (match a, b with
      | .nan _, _ => .ok (.nan false)
      | _, .nan _ => .ok (.nan false)
      | .inf _, _ => .ok (.nan false)
      | .fin x, .inf _ => exact (.fin x)
      | .fin x, .fin y =>
        if y.c = 0 then .ok (.nan false)
        else if x.c = 0 then .ok (.fin ⟨x.s, 0, 0⟩)
        else
          let r := remainderRF x y
          -- a zero remainder has the sign of `x`
          if r.c = 0 then .ok (.fin ⟨x.s, 0, 0⟩) else exact (.fin r))
  | .mod, [a, b] =>
    -- `MPFREngine._mod`, arm by arm
    some (
      if a.isNan || b.isNan then .ok (.nan false)
      else if a.isInf then .ok (.nan false)
      else if b.isInf then
        (if a.isZero then .ok (a.withSign b.sign)
         else if a.sign == b.sign then .ok a
         else .ok b)
      else if b.isZero then .ok (.nan false)
      else if a.isZero then .ok (a.withSign b.sign)
      else match a, b with
        | .fin x, .fin y => modFin x y
        | _, _ => .error .assertion)
  | .pow, [a, b] =>
    -- `mpfr_pow`, special cases in the order of the MPFR manual
    some (
      if b.isZero then .ok (.fin ⟨false, 0, 1⟩)
      else match a, b with
        | .nan _, _ => .ok (.nan false)
        | .fin x, .nan _ => if x.compare ⟨false, 0, 1⟩ == .eq then .ok (.fin ⟨false, 0, 1⟩) else .ok (.nan false)
        | .inf _, .nan _ => .ok (.nan false)
        | .inf _, .inf t => .ok (if t then .fin ⟨false, 0, 0⟩ else .inf false)
        | .fin x, .inf t =>
          if x.c = 0 then .ok (if t then .inf false else .fin ⟨false, 0, 0⟩)
          else match x.abs.compare ⟨false, 0, 1⟩ with
            | .gt => .ok (if t then .fin ⟨false, 0, 0⟩ else .inf false)
            | .lt => .ok (if t then .inf false else .fin ⟨false, 0, 0⟩)
            | .eq => .ok (.fin ⟨false, 0, 1⟩)
        | _, .fin y =>
          let yi := y.toInt?
          let oddInt : Bool := match yi with | some i => i % 2 == 1 | none => false
          match a with
          | .inf s => .ok (if y.s then .fin ⟨s && oddInt, 0, 0⟩ else .inf (s && oddInt))
          | .nan _ => .ok (.nan false)
          | .fin x =>
            if x.c = 0 then .ok (if y.s then .inf (x.s && oddInt) else .fin ⟨x.s && oddInt, 0, 0⟩)
            else match yi with
              | none => if x.s then .ok (.nan false) else .error .notImplemented   -- transcendental: not modelled
              | some i =>
                if i ≥ 0 then rto (x.pow i.toNat)
                else mpfrDivFin ⟨false, 0, 1⟩ (x.pow i.natAbs) prec n)
  | _, _ => none

/-- an interpreter value as the operand `Context.round` receives -/
def NV.toOperand : NV → Operand
  | .fv v => .flt v
  | .q n d => .frac n d

/-- exact value comparison `y != x` of a finite `Float` result with the original operand
(`ops.ceil/floor/trunc/roundint`) -/
def nvNeFin (y : RF) (x : NV) : Bool := nvCompare (.fv (.fin y)) x != some .eq

def Ctx.isReal : Ctx → Bool | .real => true | _ => false

def resToNV (r : Except Err Res) : Except Err (NV × Flags) := r.map (fun res => (NV.fv res.v, res.fl))

/-- `ctx.round(x, exact=…)` on an engine result (`Float` or `Fraction`) -/
def roundNV (C : Ctx) (r : NV) (exact : Bool) : Except Err (NV × Flags) :=
  match r with
  | .fv v => resToNV (C.roundAtCore v none exact 0)
  | .q num den => resToNV (C.round (.frac num den) exact)

/-- the `invalid` / `divzero` logic of `ops._normalize` on a rounded result -/
def normFlags (args : List NV) (res : NV) (fl : Flags) : Flags :=
  if nvIsNan res then (if args.any nvIsNan then fl else { fl with invalid := true })
  else if nvIsInf res && !fl.inexact then
    (if args.all (fun a => !nvIsNar a) then { fl with divzero := true } else fl)
  else fl

/-- `ops._normalize(x, ctx, args)`; `flagArgs = false` is the call without `args` -/
def opNormalize (C : Ctx) (args : List NV) (r : NV) (flagArgs : Bool) : Except Err (NV × Flags) :=
  match C.isReal, r with
  | true, .q num den => .ok (.q num den, {})
  | _, _ =>
    match roundNV C r false with
    | .error e => .error e
    | .ok (res, fl) => if flagArgs then .ok (res, normFlags args res fl) else .ok (res, fl)

/-- what `RealEngine` answers (`none` ⇒ it declines too: `NotImplementedError`) -/
def exactEngine (op : Op) (args : List NV) : Option (Except Err NV) :=
  match op, args with
  | .add, [a, b] => some (.ok (realAdd a b))
  | .sub, [a, b] => some (.ok (realAdd a (realNeg b)))
  | .mul, [a, b] => some (.ok (realMul a b))
  | .div, [a, b] => some (.ok (realDiv a b))
  | .neg, [a] => some (.ok (realNeg a))
  | .fabs, [a] => some (.ok (match a with | .fv v => .fv v.abs | .q n d => .q (Int.natAbs n) d))
  | .fma, [a, b, c] => some (.ok (realAdd (realMul a b) c))
  | .copysign, [a, b] => some (.ok (realCopysign a b))
  | .fmax, [a, b] => some (.ok (realFmax a b))
  | .fmin, [a, b] => some (.ok (realFmin a b))
  | .pow, [a, b] => (realPow a b).map .ok
  | _, _ => none

/-- `ops.ceil/floor/trunc/roundint`: exact integer by `_real_rint`, one rounding, `inexact` if the
(finite) result differs from the operand -/
def opRint (C : Ctx) (args : List NV) (rm : RM) : Except Err (NV × Flags) :=
  match args with
  | [a] =>
    match realRint a rm with
    | .error e => .error e
    | .ok r =>
      match opNormalize C args r false with
      | .error e => .error e
      | .ok (.fv (.fin y), fl) => .ok (.fv (.fin y), if nvNeFin y a then { fl with inexact := true } else fl)
      | .ok res => .ok res
  | _ => .error .typeError

/-- engine dispatch: MPFR engine when every operand is a `Float` and the context is not exact, else the
exact engine; then `_normalize` -/
def opEngines (C : Ctx) (op : Op) (args : List NV) : Except Err (NV × Flags) :=
  let params := C.roundParams
  let allFloat := args.all nvIsFloat
  let fvs := args.filterMap nvFloat?
  let useMpfr := allFloat && !(params.1.isNone && params.2.isNone)
  match (if useMpfr then mpfrOp op fvs params.1 params.2 else none) with
  | some (.ok v) => opNormalize C args (.fv v) true
  | some (.error e) => .error e
  | none =>
    match exactEngine op args with
    | some (.ok r) => opNormalize C args r true
    | some (.error e) => .error e
    | none => .error .notImplemented

/-- the value and flags `fpy2.ops.<op>(args, ctx=C)` returns.
A `Fraction` result (exact context) carries no flags. -/
def opEvalFl (C : Ctx) (op : Op) (args : List NV) : Except Err (NV × Flags) :=
  match op with
  | .round =>
    match args with
    | [a] => (match C.isReal, a with | true, .q num den => .ok (.q num den, {}) | _, _ => roundNV C a false)
    | _ => .error .typeError
  | .roundExact =>
    match args with
    | [a] => (match C.isReal, a with | true, .q num den => .ok (.q num den, {}) | _, _ => roundNV C a true)
    | _ => .error .typeError
  | .cast =>
    match args with
    | [a] => if C.isReal then .ok (a, {}) else roundNV C a true
    | _ => .error .typeError
  | .roundAt =>
    match args with
    | [a, nn] =>
      (match nn with
       | .q _ _ => .error .valueError                -- `_cvt_to_float` refuses a non-dyadic rational
       | .fv (.fin r) =>
         (match r.toInt? with
          | none => .error .valueError
          | some i => if C.isReal then .error .valueError else resToNV (C.roundAt a.toOperand i))
       | .fv _ => .error .valueError)
    | _ => .error .typeError
  | .nearbyint =>
    match args with
    | [a] => if C.isReal then .error .assertion else resToNV (C.roundAt a.toOperand (-1))
    | _ => .error .typeError
  | .ceil => opRint C args .rtp
  | .floor => opRint C args .rtn
  | .trunc => opRint C args .rtz
  | .roundint => opRint C args .rna
  | _ => opEngines C op args

/-- the value `fpy2.ops.<op>(args, ctx=C)` returns -/
def opEval (C : Ctx) (op : Op) (args : List NV) : Except Err NV :=
  (opEvalFl C op args).map (·.1)

end Fpy
