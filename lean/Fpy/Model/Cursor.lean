/-
Model of `fpy2/transform/path.py`, `fpy2/transform/cursor.py` (paths, cursors, `Edit`,
`EditLog`, forwarding) and of `Function.forward` (`fpy2/function.py`).  Core Lean only.

Vocabulary.  A program is a block (a list of statements); a statement holds zero, one
(`body`: `If1Stmt`/`WhileStmt`/`ForStmt`/`ContextStmt`) or two (`ift`,`iff`: `IfStmt`) child blocks
(`path.sub_blocks`).  Expressions are not modelled, statements carry a tag instead.

Paths are parent-linked in the code (`SubBlock(parent, field)`, `StmtPath(parent, index)`) and
every function on them recurses towards `FuncBody()`.  Here a `BlockPath` is the list of
`(index, field)` steps INNERMOST FIRST (`[]` = `FuncBody()`, `⟨i,f⟩ :: bp` =
`SubBlock(StmtPath(bp, i), f)`), so structural recursion on the list is the recursion of the code.
-/
namespace Fpy.Cursor

/-- `BlockField` of path.py -/
inductive Field where
  | body | ift | iff
  deriving DecidableEq, Repr, Inhabited

inductive Stmt where
  | leaf (tag : Nat)
  | one (tag : Nat) (body : List Stmt)
  | two (tag : Nat) (ift iff : List Stmt)
  deriving Repr, Inhabited

abbrev Block := List Stmt

def Stmt.tag : Stmt → Nat
  | .leaf t => t
  | .one t _ => t
  | .two t _ _ => t

/-- `path.sub_blocks` looked up by field, as `resolve_block` does -/
def Stmt.child : Stmt → Field → Option Block
  | .one _ b, .body => some b
  | .two _ a _, .ift => some a
  | .two _ _ b, .iff => some b
  | _, _ => none

structure Step where
  idx : Nat
  field : Field
  deriving DecidableEq, Repr, Inhabited

abbrev BlockPath := List Step

structure StmtPath where
  parent : BlockPath
  index : Nat
  deriving DecidableEq, Repr, Inhabited

/-- error kinds.  The first group are `TransformReferenceError`s (told apart by their message),
the second group `ValueError`s of `Edit.__post_init__` / `EditLog.__post_init__`. -/
inductive Err where
  | badPath            -- path.bad_path: a path / region that names nothing
  | deleted            -- "was deleted"
  | insideRewritten    -- "is inside ..., which was rewritten"
  | otherProgram       -- "names a statement of another program"
  | emptyRegion        -- "holds no statements"
  | splitRegion        -- "no longer lies in one run"
  | unrelated          -- Function.forward: "names a statement of an unrelated program"
  | opaque             -- Function.forward: "a pass in between does not report what it rewrote"
  | exprNotPreserved   -- _forward_expr: "the pass does not say what it did to expressions ..."
  | exprRewritten      -- _forward_expr: "... whose expressions the pass rewrote"
  | illFormedEdit      -- Edit.__post_init__  (ValueError)
  | editRange          -- EditLog.__post_init__: edit consumes statements past the block (ValueError)
  | editOverlap        -- EditLog.__post_init__: edits are not disjoint (ValueError)
  deriving DecidableEq, Repr, Inhabited

/-- `path.resolve_block` -/
def resolveBlock (t : Block) : BlockPath → Except Err Block
  | [] => .ok t
  | s :: pp =>
    match resolveBlock t pp with
    | .error e => .error e
    | .ok b =>
      match b[s.idx]? with
      | none => .error .badPath
      | some st =>
        match st.child s.field with
        | none => .error .badPath
        | some c => .ok c

/-- `path.resolve_stmt` -/
def resolveStmt (t : Block) (p : StmtPath) : Except Err Stmt :=
  match resolveBlock t p.parent with
  | .error e => .error e
  | .ok b =>
    match b[p.index]? with
    | none => .error .badPath
    | some st => .ok st

/-! ### paths as Python builds them: any `int` is accepted as an index -/

structure RawPath where
  steps : List (Int × Field)     -- innermost first
  index : Int

def validateSteps : List (Int × Field) → Option BlockPath
  | [] => some []
  | (i, f) :: r =>
    if i < 0 then none else
    match validateSteps r with
    | none => none
    | some bp => some (⟨i.toNat, f⟩ :: bp)

/-- `resolve_stmt` rejects an index that is not `0 <= index < len` at every level, so a path
with a negative index anywhere names nothing. -/
def RawPath.validate (p : RawPath) : Option StmtPath :=
  if p.index < 0 then none else
  match validateSteps p.steps with
  | none => none
  | some bp => some ⟨bp, p.index.toNat⟩

/-! ### beneath / edits -/

/-- `path.beneath(path, block, span)` for a block path: does it pass through one of
`block`'s statements `lo ≤ i < hi`? -/
def beneathBlock (block : BlockPath) (lo hi : Nat) : BlockPath → Bool
  | [] => false
  | s :: pp => (pp == block && lo ≤ s.idx && s.idx < hi) || beneathBlock block lo hi pp

/-- `path.beneath` for a statement path -/
def beneathStmt (block : BlockPath) (lo hi : Nat) (p : StmtPath) : Bool :=
  (p.parent == block && lo ≤ p.index && p.index < hi) || beneathBlock block lo hi p.parent

/-- `cursor.Edit` -/
structure Edit where
  blockPath : BlockPath
  index : Nat
  removed : Nat
  inserted : Nat
  deriving DecidableEq, Repr, Inhabited

def Edit.stop (e : Edit) : Nat := e.index + e.removed

structure RawEdit where
  steps : List (Int × Field)
  index : Int
  removed : Int
  inserted : Int

/-- `Edit.__post_init__` (negative counts) followed by the `resolve_block` of
`EditLog.__post_init__` as far as negative indices go; the latter happens later, so the two
failures are kept apart: `.error illFormedEdit` now, `.ok none` = "block path names nothing". -/
def RawEdit.build (e : RawEdit) : Except Err (Option Edit) :=
  if e.index < 0 ∨ e.removed < 0 ∨ e.inserted < 0 then .error .illFormedEdit else
  match validateSteps e.steps with
  | none => .ok none
  | some bp => .ok (some ⟨bp, e.index.toNat, e.removed.toNat, e.inserted.toNat⟩)

/-- `cursor._overlaps(a, b)` -/
def overlaps (a b : Edit) : Bool :=
  if a.blockPath == b.blockPath then
    (a.index ≤ b.index && b.index < a.index + a.removed) ||
    (b.index ≤ a.index && a.index < b.index + b.removed)
  else beneathBlock a.blockPath a.index (a.index + a.removed) b.blockPath

/-- the first loop of `EditLog.__post_init__` -/
def checkRanges (src : Block) : List Edit → Except Err Unit
  | [] => .ok ()
  | e :: r =>
    match resolveBlock src e.blockPath with
    | .error err => .error err
    | .ok b => if e.index + e.removed > b.length then .error .editRange else checkRanges src r

/-- the second loop of `EditLog.__post_init__`: every ordered pair of distinct positions
(`a is not b`); here each unordered pair is examined once in both directions, which visits the
same pairs in another order — every failure is the same `ValueError`. -/
def checkDisjoint : List Edit → Bool
  | [] => true
  | a :: r => r.all (fun b => !overlaps a b && !overlaps b a) && checkDisjoint r

structure Prog where
  pid : Nat            -- object identity of the `FuncDef` (`is` comparisons)
  body : Block
  deriving Repr, Inhabited

/-- `cursor.EditLog` -/
structure EditLog where
  source : Prog
  result : Prog
  edits : List Edit
  exprsRewritten : List StmtPath := []
  exprsPreserved : Bool := false
  deriving Repr, Inhabited

/-- `EditLog.__post_init__` -/
def EditLog.check (L : EditLog) : Except Err Unit :=
  match checkRanges L.source.body L.edits with
  | .error e => .error e
  | .ok () => if checkDisjoint L.edits then .ok () else .error .editOverlap

/-! ### forwarding -/

/-- the loop of `_forward_stmt`: accumulated shift and the (last) edit containing `index` -/
def scan (edits : List Edit) (parent : BlockPath) (index : Nat) : Int × Option Edit :=
  edits.foldl (fun (acc : Int × Option Edit) e =>
    if e.blockPath != parent then acc
    else if index ≥ e.index + e.removed then (acc.1 + ((e.inserted : Int) - (e.removed : Int)), acc.2)
    else if index ≥ e.index then (acc.1, some e)
    else acc) (0, none)

/-- `_forward_block`, with the `_forward_stmt` of the enclosing statement unfolded into it
(the two are mutually recursive in the code; `_forward_block(SubBlock(parent, field))` is
`_forward_stmt(parent)` = `_forward_block(parent.parent)` then the loop over the edits). -/
def forwardBlock (edits : List Edit) : BlockPath → Except Err BlockPath
  | [] => .ok []
  | s :: pp =>
    match forwardBlock edits pp with
    | .error e => .error e
    | .ok nb =>
      match scan edits pp s.idx with
      | (_, some _) => .error .insideRewritten
      | (shift, none) => .ok (⟨((s.idx : Int) + shift).toNat, s.field⟩ :: nb)

/-- `_forward_stmt`: new block, new index, containing edit -/
def forwardStmt (edits : List Edit) (p : StmtPath) : Except Err (BlockPath × Nat × Option Edit) :=
  match forwardBlock edits p.parent with
  | .error e => .error e
  | .ok nb =>
    match scan edits p.parent p.index with
    | (shift, some c) => .ok (nb, ((c.index : Int) + shift).toNat, some c)
    | (shift, none) => .ok (nb, ((p.index : Int) + shift).toNat, none)

/-- `cursor.Cursor`.  Expressions are not modelled: an `ExprCursor` is kept as the statement it
belongs to (`ExprPath.stmt()`); the expression part of its path is carried over unchanged by
`rebase_expr`, and resolving it is resolving the statement. -/
inductive Cursor where
  | stmt (pid : Nat) (p : StmtPath)
  | region (pid : Nat) (bp : BlockPath) (start stop : Nat)
  | expr (pid : Nat) (stmt : StmtPath)
  deriving DecidableEq, Repr, Inhabited

def Cursor.pid : Cursor → Nat
  | .stmt pid _ => pid
  | .region pid _ _ _ => pid
  | .expr pid _ => pid

/-- `StmtCursor(func, path)`: validated on construction -/
def mkStmtCursor (P : Prog) (p : StmtPath) : Except Err Cursor :=
  match resolveStmt P.body p with
  | .error e => .error e
  | .ok _ => .ok (.stmt P.pid p)

/-- `BlockCursor(func, block_path, range(start, stop))`: validated on construction
(`0 <= start` holds for a `Nat`) -/
def mkRegion (P : Prog) (bp : BlockPath) (start stop : Nat) : Except Err Cursor :=
  match resolveBlock P.body bp with
  | .error e => .error e
  | .ok b => if stop ≤ b.length then .ok (.region P.pid bp start stop) else .error .badPath

/-- `StmtCursor.resolve` / `BlockCursor.resolve` (`block.stmts[start:stop]`), as a list -/
def resolveCursor (t : Block) : Cursor → Except Err (List Stmt)
  | .stmt _ p =>
    match resolveStmt t p with
    | .error e => .error e
    | .ok s => .ok [s]
  | .region _ bp a b =>
    match resolveBlock t bp with
    | .error e => .error e
    | .ok blk => .ok ((blk.drop a).take (b - a))
  | .expr _ p =>
    match resolveStmt t p with
    | .error e => .error e
    | .ok s => .ok [s]

/-- `ExprCursor(func, path)`: validated on construction (as far as its statement goes) -/
def mkExprCursor (P : Prog) (p : StmtPath) : Except Err Cursor :=
  match resolveStmt P.body p with
  | .error e => .error e
  | .ok _ => .ok (.expr P.pid p)

/-- `EditLog.forward` for a `StmtCursor` -/
def EditLog.forwardStmtCursor (L : EditLog) (pid : Nat) (p : StmtPath) : Except Err Cursor :=
  if pid != L.source.pid then .error .otherProgram else
  match forwardStmt L.edits p with
  | .error e => .error e
  | .ok (nb, ni, none) => mkStmtCursor L.result ⟨nb, ni⟩
  | .ok (nb, ni, some c) =>
    if c.inserted == 1 then mkStmtCursor L.result ⟨nb, ni⟩
    else if c.inserted == 0 then .error .deleted
    else mkRegion L.result nb ni (ni + c.inserted)

/-- block path and span of an image (`img.block_path`, `img.span` / `range(index, index+1)`) -/
def Cursor.blockSpan : Cursor → BlockPath × Nat × Nat
  | .stmt _ p => (p.parent, p.index, p.index + 1)
  | .region _ bp a b => (bp, a, b)
  | .expr _ p => (p.parent, p.index, p.index + 1)   -- never an image of a statement (`assert`)

def imagesOf (L : EditLog) (pid : Nat) (bp : BlockPath) : List Nat → Except Err (List Cursor)
  | [] => .ok []
  | i :: r =>
    match L.forwardStmtCursor pid ⟨bp, i⟩ with
    | .error e => .error e
    | .ok c =>
      match imagesOf L pid bp r with
      | .error e => .error e
      | .ok cs => .ok (c :: cs)

/-- `all(b.start in (a.stop, a.start) for a, b in pairwise(spans))` -/
def adjacent : List (BlockPath × Nat × Nat) → Bool
  | a :: b :: r => (b.2.1 == a.2.2 || b.2.1 == a.2.1) && adjacent (b :: r)
  | _ => true

/-- `EditLog._forward_region` -/
def EditLog.forwardRegion (L : EditLog) (pid : Nat) (bp : BlockPath) (start stop : Nat) : Except Err Cursor :=
  if stop - start == 0 then .error .emptyRegion else
  match imagesOf L pid bp (List.range' start (stop - start)) with
  | .error e => .error e
  | .ok imgs =>
    let spans := imgs.map Cursor.blockSpan
    match spans with
    | [] => .error .emptyRegion    -- unreachable: the region is not empty
    | s0 :: _ =>
      let samePath := spans.all (fun s => s.1 == s0.1)
      if !samePath || !adjacent spans then .error .splitRegion else
      let hi := spans.foldl (fun m s => max m s.2.2) 0
      if hi - s0.2.1 == 1 then mkStmtCursor L.result ⟨s0.1, s0.2.1⟩
      else mkRegion L.result s0.1 s0.2.1 hi

/-- `EditLog._forward_expr`: the cursor under its statement's image -/
def EditLog.forwardExpr (L : EditLog) (pid : Nat) (stmt : StmtPath) : Except Err Cursor :=
  if pid != L.source.pid then .error .otherProgram else
  if !L.exprsPreserved then .error .exprNotPreserved else
  if L.exprsRewritten.contains stmt then .error .exprRewritten else
  match forwardStmt L.edits stmt with
  | .error e => .error e
  | .ok (_, _, some _) => .error .insideRewritten
  | .ok (nb, ni, none) => mkExprCursor L.result ⟨nb, ni⟩

/-- `EditLog.forward` -/
def EditLog.forward (L : EditLog) : Cursor → Except Err Cursor
  | .stmt pid p => L.forwardStmtCursor pid p
  | .region pid bp a b => L.forwardRegion pid bp a b
  | .expr pid p => L.forwardExpr pid p

/-- `Function.forward`: the chain is the list of program versions from `self` back to the root,
each with the log of the pass that produced it (`none`: a pass that reports nothing). -/
def chainForward : List (Prog × Option EditLog) → Cursor → Except Err Cursor
  | [], _ => .error .unrelated
  | (ast, log) :: rest, c =>
    if ast.pid == c.pid then .ok c else
    match chainForward rest c with
    | .error e => .error e
    | .ok out =>
      match log with
      | none => .error .opaque
      | some L => L.forward out

/-! ### building the objects the way a caller does (any Python `int` accepted, then validated) -/

def buildEdits : List RawEdit → Except Err (List (Option Edit))
  | [] => .ok []
  | r :: rest =>
    match r.build with
    | .error e => .error e
    | .ok oe =>
      match buildEdits rest with
      | .error e => .error e
      | .ok l => .ok (oe :: l)

/-- the first loop of `EditLog.__post_init__` where a block path with a negative index
(`none`) names nothing -/
def checkRangesOpt (src : Block) : List (Option Edit) → Except Err Unit
  | [] => .ok ()
  | none :: _ => .error .badPath
  | some e :: r =>
    match resolveBlock src e.blockPath with
    | .error err => .error err
    | .ok b => if e.index + e.removed > b.length then .error .editRange else checkRangesOpt src r

/-- `Edit(...)` for every edit in order, then `EditLog(source, result, edits)` -/
def buildLog (source result : Prog) (raws : List RawEdit)
    (rewritten : List StmtPath := []) (preserved : Bool := false) : Except Err EditLog :=
  match buildEdits raws with
  | .error e => .error e
  | .ok oes =>
    match checkRangesOpt source.body oes with
    | .error e => .error e
    | .ok () =>
      let es := oes.filterMap id
      if checkDisjoint es then .ok ⟨source, result, es, rewritten, preserved⟩ else .error .editOverlap

/-- `StmtCursor(func, path)` for a path built from arbitrary ints -/
def mkStmtCursorRaw (P : Prog) (p : RawPath) : Except Err Cursor :=
  match p.validate with
  | none => .error .badPath
  | some q => mkStmtCursor P q

def mkExprCursorRaw (P : Prog) (p : RawPath) : Except Err Cursor :=
  match p.validate with
  | none => .error .badPath
  | some q => mkExprCursor P q

/-- `BlockCursor(func, block_path, range(start, stop))` for arbitrary ints (`0 <= start` is checked) -/
def mkRegionRaw (P : Prog) (steps : List (Int × Field)) (start stop : Int) : Except Err Cursor :=
  match validateSteps steps with
  | none => .error .badPath
  | some bp =>
    match resolveBlock P.body bp with
    | .error e => .error e
    | .ok b =>
      if 0 ≤ start ∧ stop ≤ (b.length : Int) then .ok (.region P.pid bp start.toNat stop.toNat)
      else .error .badPath

/-- `path.walk_stmts`: every statement path in visit order (a statement before its blocks) -/
def subFields : Stmt → List (Field × Block)
  | .leaf _ => []
  | .one _ b => [(.body, b)]
  | .two _ a b => [(.ift, a), (.iff, b)]

mutual
def walkStmt (here : BlockPath) (i : Nat) : Stmt → List StmtPath
  | .leaf _ => [⟨here, i⟩]
  | .one _ b => ⟨here, i⟩ :: walkBlock (⟨i, .body⟩ :: here) b 0
  | .two _ a b => ⟨here, i⟩ :: (walkBlock (⟨i, .ift⟩ :: here) a 0 ++ walkBlock (⟨i, .iff⟩ :: here) b 0)
def walkBlock (here : BlockPath) : Block → Nat → List StmtPath
  | [], _ => []
  | s :: r, i => walkStmt here i s ++ walkBlock here r (i + 1)
end

def walkStmts (t : Block) : List StmtPath := walkBlock [] t 0

end Fpy.Cursor
