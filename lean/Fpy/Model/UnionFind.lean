/-
  C13 — executable model of the Python class `Unionfind`
  (`/repo/fpy2/utils/unionfind.py`).

  Elements are `Nat` (the Python class is generic over hashables).  The two
  dictionaries of the object are modelled by

  * `dom`    : the keys of `_parent`, in insertion order,
  * `parent` : the mapping `_parent` (the identity outside `dom`),
  * `sets`   : `_sets` as an association list root ↦ members, in dictionary
               insertion order (an entry is deleted by `del self._sets[root_y]`).

  `_find` is modelled as written (path halving).  Its `while` loop is a
  structurally recursive function over a fuel argument; the fuel is computed
  from the state (`UF.fuel` = number of non-root elements of `dom`, plus one) —
  there is no ghost field.  `Fpy.Proof.UnionFind` proves that this fuel always
  suffices on well-formed states.

  Core Lean only, no imports.
-/

namespace Fpy.C13

/-- The state of a `Unionfind` object. -/
structure UF where
  /-- keys of `_parent`, in insertion order -/
  dom : List Nat
  /-- `_parent` (identity outside `dom`) -/
  parent : Nat → Nat
  /-- `_sets`: root ↦ members, in insertion order -/
  sets : List (Nat × List Nat)

/-- Dictionary lookup in `_sets` (`none` = `KeyError`). -/
def lookup (k : Nat) : List (Nat × List Nat) → Option (List Nat)
  | [] => none
  | e :: rest => if e.1 = k then some e.2 else lookup k rest

/-- Python `set.update`: add the elements of `b` that are not yet in `a`. -/
def setUnion (a b : List Nat) : List Nat :=
  a ++ b.filter (fun y => !a.contains y)

/-- Order-preserving duplicate removal (first occurrence wins), the key order of
    the dict comprehension `{x: … for x in xs}`. -/
def dedup : List Nat → List Nat
  | [] => []
  | x :: xs => x :: (dedup xs).filter (fun y => y != x)

/-- `Unionfind()` -/
def UF.empty : UF :=
  { dom := [], parent := fun z => z, sets := [] }

/-- `Unionfind(xs)`: `_parent = {x: x for x in xs}`, `_sets = {x: {x} for x in xs}`. -/
def UF.ofList (xs : List Nat) : UF :=
  { dom := dedup xs, parent := fun z => z, sets := (dedup xs).map (fun x => (x, [x])) }

/-- `__contains__` -/
def UF.contains (u : UF) (x : Nat) : Bool :=
  decide (x ∈ u.dom)

/-- `__len__` -/
def UF.len (u : UF) : Nat := u.dom.length

/-- Number of non-root elements (computed from the state). -/
def UF.nonroots (u : UF) : Nat :=
  (u.dom.filter (fun x => u.parent x != x)).length

/-- Fuel handed to the `_find` loop: one more than the number of non-roots. -/
def UF.fuel (u : UF) : Nat := u.nonroots + 1

/-- The loop of `_find`, as written:
    ```
    parent = P[x]
    while x != parent:
        gparent = P[parent]; P[x] = gparent; x = gparent; parent = P[x]
    return x
    ```
    Returns the updated `_parent` and the final `x`.  (With fuel `0` the loop is
    cut and the current `x` is returned; this never happens on well-formed
    states, see `findLoop_spec`.) -/
def findLoop : Nat → (Nat → Nat) → Nat → (Nat → Nat) × Nat
  | 0, P, x => (P, x)
  | fuel + 1, P, x =>
    if x = P x then (P, x)
    else
      let g := P (P x)
      findLoop fuel (fun z => if z = x then g else P z) g

/-- `_find(x)`: state after path halving, and the root found. -/
def UF.findCore (u : UF) (x : Nat) : UF × Nat :=
  let r := findLoop u.fuel u.parent x
  ({ u with parent := r.1 }, r.2)

/-- `add(x)` -/
def UF.add (u : UF) (x : Nat) : UF × Nat :=
  if x ∈ u.dom then u.findCore x
  else
    ({ dom := u.dom ++ [x],
       parent := fun z => if z = x then x else u.parent z,
       sets := u.sets ++ [(x, [x])] }, x)

/-- `find(x)`; `none` = `KeyError`. -/
def UF.find (u : UF) (x : Nat) : Option (UF × Nat) :=
  if x ∈ u.dom then some (u.findCore x) else none

/-- `get(x)` with the default `None`. -/
def UF.get (u : UF) (x : Nat) : UF × Option Nat :=
  if x ∈ u.dom then ((u.findCore x).1, some (u.findCore x).2) else (u, none)

/-- The `_sets` update of `_union`:
    `sets[rx].update(sets[ry]); del sets[ry]`. -/
def mergeSets (sets : List (Nat × List Nat)) (rx ry : Nat) : List (Nat × List Nat) :=
  let my := (lookup ry sets).getD []
  (sets.map (fun e => if e.1 = rx then (e.1, setUnion e.2 my) else e)).filter
    (fun e => e.1 != ry)

/-- `_union(x, y)` as written. -/
def UF.unionCore (u : UF) (x y : Nat) : UF × Nat :=
  let a := u.findCore x
  let b := a.1.findCore y
  let rx := a.2
  let ry := b.2
  if rx = ry then (b.1, rx)
  else
    ({ dom := b.1.dom,
       parent := fun z => if z = ry then rx else b.1.parent z,
       sets := mergeSets b.1.sets rx ry }, rx)

/-- `union(x, y)`; `none` = `KeyError` (x or y absent). -/
def UF.union (u : UF) (x y : Nat) : Option (UF × Nat) :=
  if x ∈ u.dom then
    if y ∈ u.dom then some (u.unionCore x y) else none
  else none

/-- `component(x)`: `_sets[find(x)]`; `none` = `KeyError`. -/
def UF.component (u : UF) (x : Nat) : Option (UF × List Nat) :=
  match u.find x with
  | none => none
  | some (u', r) =>
    match lookup r u'.sets with
    | none => none
    | some ms => some (u', ms)

/-- `items()`: `(element, _parent[element])` in insertion order.  NOTE: the
    Python docstring claims "(element, representative)" but the code returns the
    direct parent (see `items_counterexample`). -/
def UF.items (u : UF) : List (Nat × Nat) :=
  u.dom.map (fun x => (x, u.parent x))

/-- `representatives()`: the keys of `_sets`. -/
def UF.representatives (u : UF) : List Nat :=
  u.sets.map Prod.fst

/-- The operation language of the object (mutating methods). -/
inductive Op where
  | add (x : Nat)
  | find (x : Nat)
  | get (x : Nat)
  | union (x y : Nat)
  | component (x : Nat)
  deriving Repr, DecidableEq

/-- One method call; a raising call leaves the object unchanged, as in Python
    (all `KeyError`s of the class are raised before any mutation on well-formed
    states). -/
def UF.step (u : UF) : Op → UF
  | .add x => (u.add x).1
  | .find x => match u.find x with
    | some r => r.1
    | none => u
  | .get x => (u.get x).1
  | .union x y => match u.union x y with
    | some r => r.1
    | none => u
  | .component x => match u.find x with   -- `component` mutates exactly like `find`
    | some r => r.1
    | none => u

/-- A sequence of method calls. -/
def UF.run (u : UF) (ops : List Op) : UF :=
  ops.foldl UF.step u

end Fpy.C13
