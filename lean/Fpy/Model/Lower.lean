/-
Model of what the rounding-lowering rewrites of `fpy2/transform/` emit, as functions of the source
context and the operand (C10):
  `unfold_overflow.py`  — round under the unbounded counterpart, compare with the bounds, write the
                          overflow value the source context was *probed* for;
  `float_to_fixed.py`   — `n = clamp(logb(x) − P + 1, EXP, EMAX − P + 1) − 1`, a subnormal branch at a
                          constant position, and the `MPBFixedContext` built per overflow policy;
  `rescale_fixed.py`    — scale in by `2^−scale`, round at digit position zero, scale out;
  `unfold_neg_zero.py`  — round without the signed zero, `copysign` a zero result from the operand;
  `unfold_special.py`   — the context with its NaN / infinity rule shed.
Core Lean only.
-/
import Fpy.Model.Num.Ctx
namespace Fpy.C10
open Fpy

/-- `transform.utils.shift`: `x · 2^k`, exactly -/
def shiftRF (x : RF) (k : Int) : RF := { x with exp := x.exp + k }

def shiftFV : FV → Int → FV
  | .fin x, k => .fin (shiftRF x k)
  | v, _ => v

def shiftRes (r : Except Err Res) (k : Int) : Except Err Res :=
  match r with
  | .ok r => .ok { r with v := shiftFV r.v k }
  | .error e => .error e

/-! ### `unfold_overflow` -/

/-- `_unbounded` of a bounded float: `MPSFloatContext(pmax, emin, rm)`, NaN and infinities enabled -/
def unboundedFloat (c : MPBParams) : Ctx := .mps c.p c.emin c.rm c.k {}

/-- `_unbounded` of a bounded fixed-point format: `MPFixedContext(nmin, rm, …)` with the source's own options -/
def unboundedFixed (c : MPBFixParams) : Ctx := .mpfix c.nmin c.rm c.k c.negZero c.o

/-- the overflow arm of `MPBFloatContext._round_at`: what the context makes of an operand of sign `sx`
whose unbounded rounding (sign `sy`) is past the bound -/
def mpbOverflow (c : MPBParams) (sx sy : Bool) : Except Err Res :=
  let maxval (s : Bool) : Res := ⟨.fin (if s then c.negMax else c.posMax), {}⟩
  match c.ov with
  | .overflow =>
    if overflowToInfinity c.rm sy then
      if c.o.enableInf then .ok (setOvf ⟨.inf sx, {}⟩)
      else match c.o.infValue with
        | none => .error .valueError
        | some iv => .ok (setOvf ⟨iv.withSign sy, {}⟩)
    else .ok (setOvf (maxval sy))
  | .saturate => .ok (setOvf (maxval sy))
  | .assert => .error .overflowError
  | .wrap => .error .assertion

/-- the overflow arm of `MPBFixedContext._round_at` for a non-wrapping format -/
def mpbfixOverflow (c : MPBFixParams) (sx sy : Bool) : Except Err Res :=
  match c.ov with
  | .overflow =>
    if overflowToInfinity c.rm sy then
      if c.o.enableInf then .ok (setOvf ⟨.inf sx, {}⟩)
      else match c.o.infValue with
        | none => .error .valueError
        | some iv => .ok (setOvf ⟨iv, {}⟩)
    else .ok (setOvf (c.rangeEnd sy))
  | .saturate => .ok (setOvf (c.rangeEnd sy))
  | .assert => .error .overflowError
  | .wrap => .error .assertion   -- not used: a wrapping format is refused

/-- `_Prober._overflow`: the source context is asked what it makes of a value `2^k` times its bound -/
def probeFloat (c : MPBParams) (s : Bool) (k : Nat) : Except Err Res :=
  mpbRoundAt c (.fin (shiftRF (if s then c.negMax else c.posMax) k)) none false 0

def probeFixed (c : MPBFixParams) (s : Bool) (k : Nat) : Except Err Res :=
  mpbfixRoundAt c (.fin (shiftRF (if s then c.negMax else c.posMax) k)) none false 0

/-- the value of a result, without its flags (an emitted constant carries none) -/
def valOf (r : Except Err Res) : Except Err FV :=
  match r with | .ok r => .ok r.v | .error e => .error e

/-- the block `unfold_overflow` emits for a finite operand: round under the unbounded counterpart `U`, then
`if t > maxval: over_pos  elif t < neg_maxval: over_neg  else: t`, the two constants being the probes -/
def unfoldOverflowProg (U : Ctx) (posMax negMax : RF) (overPos overNeg : Except Err Res) (x : RF) : Except Err FV :=
  match U.roundAtCore (.fin x) none false 0 with
  | .error e => .error e
  | .ok r =>
    match r.v with
    | .fin t =>
      if t.gt posMax then valOf overPos
      else if t.lt negMax then valOf overNeg
      else .ok r.v
    | v => .ok v

def unfoldOverflowFloat (c : MPBParams) (x : RF) : Except Err FV :=
  unfoldOverflowProg (unboundedFloat c) c.posMax c.negMax (probeFloat c false 1) (probeFloat c true 1) x

def unfoldOverflowFixed (c : MPBFixParams) (x : RF) : Except Err FV :=
  unfoldOverflowProg (unboundedFixed c) c.posMax c.negMax (probeFixed c false 1) (probeFixed c true 1) x

/-! ### `float_to_fixed` -/

/-- the position the emitted program computes from `e = logb(x)`:
`if e < emin: EXP − 1  else: min(max(e − (P − 1), EXP), EXPMAX) − 1`
(`sub = some (emin, EXP)` for a format with subnormals, `expmax = some (EMAX − P + 1)` for a bounded one) -/
def f2fPos (p : Nat) (sub : Option (Int × Int)) (expmax : Option Int) (e : Int) : Int :=
  let s0 : Int := e - ((p : Int) - 1)
  let s1 : Int := match sub with | some (_, xm) => max s0 xm | none => s0
  let s2 : Int := match expmax with | some M => min s1 M | none => s1
  match sub with
  | some (em, xm) => if e < em then xm - 1 else s2 - 1
  | none => s2 - 1

inductive Policy | infinite | saturating | nanOnOverflow
deriving DecidableEq, Repr, Inhabited

/-- `_ctx_call`: the `MPBFixedContext(nmin, B, rm, overflow=…, …)` emitted at position `n` for a bounded source -/
def f2fTarget (c : MPBParams) (pol : Policy) (negZero : Bool) (n : Int) : MPBFixParams :=
  { nmin := n, posMax := c.posMax, negMax := c.posMax.neg, rm := c.rm, k := some 0, negZero := negZero,
    ov := (match pol with | .saturating => .saturate | _ => .overflow),
    o := (match pol with
          | .infinite => { enableNan := false, enableInf := true }
          | .saturating => { enableNan := false, enableInf := false }
          | .nanOnOverflow => { enableNan := true, enableInf := false, infValue := some (.nan false) }) }

/-- `_overflow_policy` on the two probe results: `+inf`/`-inf` ⇒ INFINITE, two NaNs ⇒ NAN_ON_OVERFLOW, the two
bounds themselves ⇒ SATURATING, anything else (a raised error included) ⇒ refused -/
def policyFrom (c : MPBParams) (pos neg : Except Err Res) : Option Policy :=
  match pos, neg with
  | .ok ⟨.inf false, _⟩, .ok ⟨.inf true, _⟩ => some .infinite
  | .ok ⟨.nan _, _⟩, .ok ⟨.nan _, _⟩ => some .nanOnOverflow
  | .ok ⟨.fin a, _⟩, .ok ⟨.fin b, _⟩ => if a = c.posMax ∧ b = c.negMax then some .saturating else none
  | _, _ => none

/-- `_overflow_policy`: probe the source at twice its bounds -/
def policyOf (c : MPBParams) : Option Policy := policyFrom c (probeFloat c false 1) (probeFloat c true 1)

/-- the rounding the emitted program performs on a finite non-zero operand of a bounded float source -/
def f2fBounded (c : MPBParams) (pol : Policy) (negZero : Bool) (emax : Int) (x : RF) : Except Err Res :=
  let n := f2fPos c.p (some (c.emin, c.emin - c.p + 1)) (some (emax - c.p + 1)) x.e
  mpbfixRoundAt (f2fTarget c pol negZero n) (.fin x) none false 0

/-- the `MPBFixedContext(n, 2^reachExp, rm, overflow=ASSERT)` emitted for an unbounded source (`_Policy.UNBOUNDED`):
the bound is the *reach* of the operand in that branch, a claim that overflow cannot happen -/
def f2fTargetUnb (rm : RM) (n reachExp : Int) : MPBFixParams :=
  { nmin := n, posMax := ⟨false, reachExp, 1⟩, negMax := ⟨true, reachExp, 1⟩, rm := rm, ov := .assert, k := some 0,
    negZero := true, o := { enableNan := false, enableInf := false } }

/-- the rounding the emitted program performs on a finite non-zero operand of `MPSFloatContext(p, emin, rm)`:
reach `2^emin` in the subnormal branch, `2^(exp + P)` in the normal one -/
def f2fUnbounded (p : Nat) (emin : Int) (rm : RM) (x : RF) : Except Err Res :=
  let n := f2fPos p (some (emin, emin - p + 1)) none x.e
  let reachExp : Int := if x.e < emin then emin else n + 1 + p
  mpbfixRoundAt (f2fTargetUnb rm n reachExp) (.fin x) none false 0

/-! ### `rescale_fixed` -/

/-- `_rescale`: the fixed-point format moved by `2^k` (position and bounds) -/
def rescaleFix (c : MPBFixParams) (k : Int) : MPBFixParams :=
  { c with nmin := c.nmin + k, posMax := shiftRF c.posMax k, negMax := shiftRF c.negMax k }

/-- the emitted block: scale in, round under the moved format, scale out (`k = −scale`, so the moved format
sits at digit position zero) -/
def rescaleProg (c : MPBFixParams) (k : Int) (v : FV) : Except Err Res :=
  shiftRes (mpbfixRoundAt (rescaleFix c k) (shiftFV v k) none false 0) (-k)

/-- the documented recipe `unfold_overflow → float_to_fixed → rescale_fixed` on a bounded float, for a finite
operand: the unbounded rounding is done as a rescaled fixed-point rounding at the computed position, then compared
with the bounds (`k` is the shift `rescale_fixed` applies, `−(n + 1)` on the real code) -/
def chainFloat (c : MPBParams) (k : Int) (x : RF) : Except Err FV :=
  let n := f2fPos c.p (some (c.emin, c.emin - c.p + 1)) none x.e
  let reachExp : Int := if x.e < c.emin then c.emin else n + 1 + c.p
  match rescaleProg (f2fTargetUnb c.rm n reachExp) k (.fin x) with
  | .error e => .error e
  | .ok r =>
    match r.v with
    | .fin t =>
      if t.gt c.posMax then valOf (probeFloat c false 1)
      else if t.lt c.negMax then valOf (probeFloat c true 1)
      else .ok r.v
    | v => .ok v

/-! ### `unfold_neg_zero` -/

/-- `fp.copysign(t, x)` on `Float`s -/
def copysignFV (t x : FV) : FV := t.withSign x.sign

/-- the emitted block: round under the format without its signed zero, give a zero result the operand's sign -/
def negZeroProg (c : MPBFixParams) (v : FV) : Except Err Res :=
  match mpbfixRoundAt { c with negZero := false } v none false 0 with
  | .error e => .error e
  | .ok r => .ok (if r.v.isZero then { r with v := copysignFV r.v v } else r)

/-- `_sign_survives`: no substitute that is consulted is a zero -/
def subsNotZero (o : Opts) : Bool :=
  (o.enableNan || match o.nanValue with | some v => !v.isZero | none => true) &&
  (o.enableInf || match o.infValue with | some v => !v.isZero | none => true)

/-! ### `unfold_special` -/

/-- the special-value rules shed from the options of a context -/
def shedOpts (o : Opts) (nan inf : Bool) : Opts :=
  { enableNan := if nan then false else o.enableNan, nanValue := if nan then none else o.nanValue,
    enableInf := if inf then false else o.enableInf, infValue := if inf then none else o.infValue }

/-- the context `unfold_special` leaves behind: the NaN and / or infinity rule shed from a format that states
it as a parameter (`_Shedable`); an encoded float (`EFloatContext` / `IEEEContext`) and `REAL` are left alone -/
def shedCtx (C : Ctx) (nan inf : Bool) : Ctx :=
  match C with
  | .mp p rm k o => .mp p rm k (shedOpts o nan inf)
  | .mps p emin rm k o => .mps p emin rm k (shedOpts o nan inf)
  | .mpb c => .mpb { c with o := shedOpts c.o nan inf }
  | .mpfix nmin rm k nz o => .mpfix nmin rm k nz (shedOpts o nan inf)
  | .mpbfix c => .mpbfix { c with o := shedOpts c.o nan inf }
  | C => C

/-- `_shedable`: a finite operand can reach the infinity rule only through an overflow that rounds away -/
def reachesInf (C : Ctx) : Bool :=
  match C with
  | .mpb c => c.ov == .overflow && (overflowToInfinity c.rm false || overflowToInfinity c.rm true) &&
      (c.o.enableInf || c.o.infValue.isSome)
  | .mpbfix c => c.ov == .overflow && (overflowToInfinity c.rm false || overflowToInfinity c.rm true) &&
      (c.o.enableInf || c.o.infValue.isSome)
  | _ => false

end Fpy.C10
