/-
An executable SIMULATION CHECKER for the core language: `simB R p' p` accepts when the blocks `p'`
and `p` are the same program up to the variable correspondence `R` (pairs `(name in p', name in
p)`): every variable READ `x'` in `p'` stands where a read `x` stands in `p` with `(x', x) ∈ R`,
and every BINDER pair `(w', w)` (assignment / loop / comprehension / `with … as` target) is
compatible with `R` (`R.bindOK`: each pair of `R` mentions `w'` iff it mentions `w`).

It is the common core of several validators: `R` = identity gives "same program"; `R` = identity
plus `(y, x)` validates copy propagation of `x = y` (also a partial one, and one that leaves
`x[i] = e` targets alone, as `fpy2/transform/copy_propagate.py` does); `R` = a bijection between
fresh names and a callee's names validates the renaming step of inlining and α-equivalence of
generated temporaries.  Soundness (`Fpy.Xform.sim_sound`, Proof/LangSim.lean): related programs
started in `R`-related environments have the same outcome.
-/
import Fpy.Model.Lang.Core
namespace Fpy.Xform
open Fpy Fpy.Lang

deriving instance DecidableEq for MPBParams, EFloatParams, MPBFixParams, ExpParams, Ctx

/-- a variable correspondence: pairs (name in the transformed program, name in the original) -/
abbrev VRel := List (String × String)

def VRel.has (R : VRel) (a b : String) : Bool := R.any fun p => p.1 == a && p.2 == b

/-- binding `a` on the left and `b` on the right keeps `R`-related environments related -/
def VRel.bindOK (R : VRel) (a b : String) : Bool := R.all fun p => (p.1 == a) == (p.2 == b)

mutual
def simP (R : VRel) : Pat → Pat → Bool
  | .var a, q => match q with | .var b => R.bindOK a b | _ => false
  | .wild, q => match q with | .wild => true | _ => false
  | .tup ps, q => match q with | .tup qs => simPs R ps qs | _ => false
def simPs (R : VRel) : List Pat → List Pat → Bool
  | [], qs => match qs with | [] => true | _ => false
  | p :: ps, qs => match qs with | q :: qs => simP R p q && simPs R ps qs | [] => false
end

mutual
def simE (R : VRel) : Expr → Expr → Bool
  | .var a, e => match e with | .var b => R.has a b | _ => false
  | .bool a, e => match e with | .bool b => a == b | _ => false
  | .num a, e => match e with | .num b => decide (a = b) | _ => false
  | .ctxLit a, e => match e with | .ctxLit b => decide (a = b) | _ => false
  | .op o as, e => match e with | .op o' bs => decide (o = o') && simEs R as bs | _ => false
  | .pred p a, e => match e with | .pred p' b => decide (p = p') && simE R a b | _ => false
  | .cmp ops as, e => match e with | .cmp ops' bs => decide (ops = ops') && simEs R as bs | _ => false
  | .not a, e => match e with | .not b => simE R a b | _ => false
  | .and as, e => match e with | .and bs => simEs R as bs | _ => false
  | .or as, e => match e with | .or bs => simEs R as bs | _ => false
  | .ite c t f, e => match e with | .ite c' t' f' => simE R c c' && simE R t t' && simE R f f' | _ => false
  | .tuple as, e => match e with | .tuple bs => simEs R as bs | _ => false
  | .list as, e => match e with | .list bs => simEs R as bs | _ => false
  | .index a i, e => match e with | .index b j => simE R a b && simE R i j | _ => false
  | .slice a s t, e => match e with | .slice b s' t' => simE R a b && simO R s s' && simO R t t' | _ => false
  | .comp ps its elt, e => match e with
    | .comp qs its' elt' => simPs R ps qs && simEs R its its' && simE R elt elt' | _ => false
  | .len a, e => match e with | .len b => simE R a b | _ => false
  | .range as, e => match e with | .range bs => simEs R as bs | _ => false
  | .zip as, e => match e with | .zip bs => simEs R as bs | _ => false
  | .enumerate a, e => match e with | .enumerate b => simE R a b | _ => false
  | .sum a, e => match e with | .sum b => simE R a b | _ => false
  | .min as, e => match e with | .min bs => simEs R as bs | _ => false
  | .max as, e => match e with | .max bs => simEs R as bs | _ => false
  | .any a, e => match e with | .any b => simE R a b | _ => false
  | .all a, e => match e with | .all b => simE R a b | _ => false
  | .roundAt a n, e => match e with | .roundAt b m => simE R a b && simE R n m | _ => false
  | .call f as, e => match e with | .call g bs => decide (f = g) && simEs R as bs | _ => false
def simEs (R : VRel) : List Expr → List Expr → Bool
  | [], es => match es with | [] => true | _ => false
  | a :: as, es => match es with | b :: bs => simE R a b && simEs R as bs | [] => false
def simO (R : VRel) : Option Expr → Option Expr → Bool
  | none, o => match o with | none => true | _ => false
  | some a, o => match o with | some b => simE R a b | none => false
end

def simName (R : VRel) : Option String → Option String → Bool
  | none, none => true
  | some a, some b => R.bindOK a b
  | _, _ => false

mutual
def simS (R : VRel) : Stmt → Stmt → Bool
  | .assign p e, s => match s with | .assign q e' => simP R p q && simE R e e' | _ => false
  | .iassign x is e, s => match s with
    | .iassign y js e' => R.has x y && simEs R is js && simE R e e' | _ => false
  | .ifte c t f, s => match s with | .ifte c' t' f' => simE R c c' && simB R t t' && simB R f f' | _ => false
  | .if1 c t, s => match s with | .if1 c' t' => simE R c c' && simB R t t' | _ => false
  | .while c b, s => match s with | .while c' b' => simE R c c' && simB R b b' | _ => false
  | .for p it b, s => match s with | .for q it' b' => simP R p q && simE R it it' && simB R b b' | _ => false
  | .with ce nm b, s => match s with
    | .with ce' nm' b' => simE R ce ce' && simName R nm nm' && simB R b b' | _ => false
  | .assert e, s => match s with | .assert e' => simE R e e' | _ => false
  | .effect e, s => match s with | .effect e' => simE R e e' | _ => false
  | .ret e, s => match s with | .ret e' => simE R e e' | _ => false
  | .pass, s => match s with | .pass => true | _ => false
def simB (R : VRel) : List Stmt → List Stmt → Bool
  | [], ss => match ss with | [] => true | _ => false
  | s :: ss, ts => match ts with | t :: ts => simS R s t && simB R ss ts | [] => false
end

end Fpy.Xform
