/-
Syntactic classes of expressions used by the constant-folding and purity statements:
`scalarE` — built from literals and variables by the scalar operators only (no list, tuple,
comprehension, call); `closedE` — `scalarE` without variables.
-/
import Fpy.Model.Lang.Vars
namespace Fpy.Xform
open Fpy Fpy.Lang

mutual
/-- literals and variables combined by rounded operators, predicates, comparisons, Boolean
connectives, conditional expressions and `round_at` -/
def scalarE : Expr → Bool
  | .var _ => true
  | .bool _ => true
  | .num _ => true
  | .ctxLit _ => true
  | .op _ as => scalarEs as
  | .pred _ a => scalarE a
  | .cmp _ as => scalarEs as
  | .not a => scalarE a
  | .and as => scalarEs as
  | .or as => scalarEs as
  | .ite c t f => scalarE c && scalarE t && scalarE f
  | .tuple _ => false
  | .list _ => false
  | .index _ _ => false
  | .slice _ _ _ => false
  | .comp _ _ _ => false
  | .len _ => false
  | .range _ => false
  | .zip _ => false
  | .enumerate _ => false
  | .sum _ => false
  | .min _ => false
  | .max _ => false
  | .any _ => false
  | .all _ => false
  | .roundAt a n => scalarE a && scalarE n
  | .call _ _ => false
def scalarEs : List Expr → Bool
  | [] => true
  | a :: as => scalarE a && scalarEs as
end

/-- a scalar expression without variables: its value can only depend on the active context -/
def closedE (e : Expr) : Bool := scalarE e && (readsE e).isEmpty

/-- Booleans, numbers and contexts: the values without heap references -/
def flatV : Val → Bool
  | .bool _ => true
  | .num _ => true
  | .ctx _ => true
  | _ => false

/-- the literal expression of a flat value -/
def litOf : Val → Option Expr
  | .bool b => some (.bool b)
  | .num v => some (.num v)
  | .ctx c => some (.ctxLit c)
  | _ => none

end Fpy.Xform
