/-
FPy core language: syntax, values and a fuel-indexed big-step evaluator written
rule by rule from `docs/source/dev/semantics.rst`, `derived-semantics.rst` and
`fpy2/interpret/byte.py` (the helpers `_eval_*`, `_cvt_index`, `_visit_context`, `_call_fpy`).

* numbers are `NV` (a `Float` value or an exact non-dyadic `Fraction`), literals are exact and NOT
  rounded (E-Val); every rounded operator goes through `opEval` with the ACTIVE context;
* lists are references into a heap (shared on assignment and on FPy→FPy calls, slices/
  comprehensions/range/zip/enumerate allocate); tuples are immutable values;
* `with e as x: body` evaluates `e` under the real context, runs `body` under the new context
  and the previous context is back in force afterwards — the context is an argument of the
  evaluator, not mutable state, so it is restored on every outcome (normal, return, error);
* a callee runs under its declared context if it has one, else under the caller's active one.
-/
import Fpy.Model.Num.Engine
namespace Fpy.Lang
open Fpy

inductive CmpOp | lt | le | gt | ge | eq | ne
deriving DecidableEq, Repr, Inhabited

inductive Pred | isnan | isinf | isfinite | signbit | isnormal
deriving DecidableEq, Repr, Inhabited

inductive Pat
  | var (x : String)
  | wild
  | tup (ps : List Pat)
deriving Repr, Inhabited

inductive Expr
  | var (x : String)
  | bool (b : Bool)
  | num (v : NV)
  | ctxLit (c : Ctx)
  | op (o : Op) (args : List Expr)
  | pred (p : Pred) (arg : Expr)
  | cmp (ops : List CmpOp) (args : List Expr)
  | not (e : Expr)
  | and (es : List Expr)
  | or (es : List Expr)
  | ite (c t f : Expr)
  | tuple (es : List Expr)
  | list (es : List Expr)
  | index (e i : Expr)
  | slice (e : Expr) (start stop : Option Expr)
  | comp (targets : List Pat) (iters : List Expr) (elt : Expr)
  | len (e : Expr)
  | range (args : List Expr)          -- 1, 2 or 3 arguments
  | zip (es : List Expr)
  | enumerate (e : Expr)
  | sum (e : Expr)
  | min (es : List Expr)
  | max (es : List Expr)
  | any (e : Expr)
  | all (e : Expr)
  | roundAt (e n : Expr)
  | call (f : String) (args : List Expr)
deriving Repr, Inhabited

inductive Stmt
  | assign (p : Pat) (e : Expr)
  | iassign (x : String) (idxs : List Expr) (e : Expr)
  | ifte (c : Expr) (t f : List Stmt)
  | if1 (c : Expr) (t : List Stmt)
  | while (c : Expr) (body : List Stmt)
  | for (p : Pat) (iter : Expr) (body : List Stmt)
  | with (ctx : Expr) (name : Option String) (body : List Stmt)
  | assert (e : Expr)
  | effect (e : Expr)
  | ret (e : Expr)
  | pass
deriving Repr, Inhabited

structure FuncDef where
  name : String
  params : List String
  ctx : Option Ctx          -- declared context, if any
  body : List Stmt
deriving Repr, Inhabited

inductive Val
  | bool (b : Bool)
  | num (v : NV)
  | ctx (c : Ctx)
  | tuple (vs : List Val)
  | list (ref : Nat)
deriving Repr, Inhabited

abbrev Heap := List (List Val)
abbrev Env := List (String × Val)

def Env.get? (σ : Env) (x : String) : Option Val := (σ.find? (·.1 == x)).map (·.2)
def Env.set (σ : Env) (x : String) (v : Val) : Env := (x, v) :: σ.filter (·.1 != x)

inductive Outcome
  | normal (σ : Env)
  | ret (v : Val)
deriving Repr, Inhabited

/-- the Python-level default context of a call with no `ctx=` : IEEE binary64, RNE -/
def fp64 : Ctx := .efloat { es := 11, nbits := 64, inf := true, kind := .ieee, eoff := 0, rm := .rne, ov := .overflow, k := some 0, nanValue := none, infValue := none }

abbrev M := Except Err

def heapGet (μ : Heap) (r : Nat) : M (List Val) :=
  match μ[r]? with | some l => .ok l | none => .error .assertion

def heapSet (μ : Heap) (r : Nat) (l : List Val) : Heap := μ.set r l

def alloc (μ : Heap) (l : List Val) : Heap × Val := (μ ++ [l], .list μ.length)

/-- exact integer value of a number, if it is one (`_is_integer` + `int(·)`) -/
def nvInt? : NV → Option Int
  | .fv (.fin x) => x.toInt?
  | .fv _ => none
  | .q n d => if d = 1 then some n else none

def intVal (i : Int) : Val := .num (.fv (.fin (RF.ofInt i)))

/-- exact comparison of two numbers (`Float`/`Fraction` rich comparison); `none` if unordered -/
def nvCompare (a b : NV) : Option Ordering :=
  match a, b with
  | .fv x, .fv y => FV.compare x y
  | _, _ =>
    if nvIsNan a || nvIsNan b then none
    else if nvIsInf a then some (if nvSign a then .lt else .gt)
    else if nvIsInf b then some (if nvSign b then .gt else .lt)
    else
      let p := nvRat a; let q := nvRat b
      some (Ord.compare (p.1 * q.2) (q.1 * p.2))

def cmpHolds (op : CmpOp) (o : Option Ordering) : Bool :=
  match op, o with
  | .lt, some .lt => true
  | .le, some .lt => true | .le, some .eq => true
  | .gt, some .gt => true
  | .ge, some .gt => true | .ge, some .eq => true
  | _, _ => false

/-- `ops._cvt_to_real`: a dyadic `Fraction` operand becomes a `Float` on entry to every operation -/
def cvtReal : NV → NV
  | .q n d => NV.ofRat n d
  | v => v

def asNum : Val → M NV | .num v => .ok v | _ => .error .typeError
def asBool : Val → M Bool | .bool b => .ok b | _ => .error .typeError
def asList (μ : Heap) : Val → M (List Val) | .list r => heapGet μ r | _ => .error .typeError

/-- what a subscript `v[i]` reads from: the interpreter emits a plain Python subscript, so a tuple is indexed like a
list (the bundling passes of the FPCore back end rely on it: `while t[1] < 3:`) -/
def asSeq (μ : Heap) : Val → M (List Val) | .list r => heapGet μ r | .tuple vs => .ok vs | _ => .error .typeError

/-- `_cvt_index` -/
def asIndex (v : Val) : M Nat := do
  let n ← asNum v
  match nvInt? n with
  | none => .error .typeError
  | some i => if i < 0 then .error .indexError else .ok i.toNat

/-- structural equality `_eval_eq` (lists compared by contents) -/
def valEq (μ : Heap) : Nat → Val → Val → M Bool
  | 0, _, _ => .error .outOfFuel
  | fuel + 1, a, b =>
    let rec go (fuel : Nat) : List Val → List Val → M Bool
      | [], [] => .ok true
      | x :: xs, y :: ys => do
        if ← valEq μ fuel x y then go fuel xs ys else .ok false
      | _, _ => .ok false
    match a, b with
    | .bool x, .bool y => .ok (x == y)
    | .num x, .num y => .ok (nvCompare x y == some .eq)
    | .tuple xs, .tuple ys => if xs.length != ys.length then .ok false else go fuel xs ys
    | .list r, .list s => do
      let xs ← heapGet μ r; let ys ← heapGet μ s
      if xs.length != ys.length then .ok false else go fuel xs ys
    | .ctx _, .ctx _ => .error .notImplemented
    | _, _ => .error .typeError

/-- pattern matching (M-Var, M-Tuple) -/
def bindPat : Nat → Pat → Val → Env → M Env
  | 0, _, _, _ => .error .outOfFuel
  | fuel + 1, p, v, σ =>
    match p, v with
    | .var x, v => .ok (σ.set x v)
    | .wild, _ => .ok σ
    | .tup ps, .tuple vs =>
      if ps.length != vs.length then .error .valueError
      else
        let rec go : List Pat → List Val → Env → M Env
          | p :: ps, v :: vs, σ => do let σ' ← bindPat fuel p v σ; go ps vs σ'
          | _, _, σ => .ok σ
        go ps vs σ
    | .tup _, _ => .error .typeError

/-- `_unchecked_min` / `_unchecked_max` -/
def minMax (isMin : Bool) (vals : List NV) : M NV :=
  match vals.find? nvIsNan with
  | some n => .ok n
  | none =>
    match vals with
    | [] => .error .valueError
    | v :: rest =>
      .ok (rest.foldl (fun res x =>
        let c := nvCompare x res
        if (if isMin then c == some .lt else c == some .gt) then x
        else if c == some .eq then
          -- `_is_neg_zero`: a `Float` zero with the sign set; a `Fraction` zero (a literal) is `+0`
          let negZero : NV → Bool := fun | .fv w => nvSign (.fv w) && nvIsZero (.fv w) | .q _ _ => false
          if (if isMin then negZero x && !negZero res else negZero res && !negZero x) then x else res
        else res) v)

def predEval (p : Pred) (C : Ctx) (v : NV) : M Bool :=
  match p, v with
  | .isnan, v => .ok (nvIsNan v)
  | .isinf, v => .ok (nvIsInf v)
  | .isfinite, v => .ok (!(nvIsNan v || nvIsInf v))
  | .signbit, v => .ok (nvSign v)
  | .isnormal, _ => let _ := C; .error .notImplemented

/-- `_cvt_context_arg` for an `int`-annotated constructor parameter: a dyadic number that is an integer -/
def ctxIntArg (v : Val) : M Int :=
  match v with
  | .num (.fv (.fin x)) => (match x.toInt? with | some i => .ok i | none => .error .valueError)
  | .num (.fv _) => .error .valueError
  | .num (.q n d) => if d = 1 then .ok n else if isPow2 d then .error .valueError else .error .typeError
  | _ => .error .typeError

def rmOfName : String → Option RM
  | "rne" => some .rne | "rna" => some .rna | "rtp" => some .rtp | "rtn" => some .rtn
  | "rtz" => some .rtz | "raz" => some .raz | "rto" => some .rto | "rte" => some .rte | _ => none

def ovOfName : String → Option OV
  | "overflow" => some .overflow | "saturate" => some .saturate | "wrap" => some .wrap | "assert" => some .assert | _ => none

/-- Rounding-context constructors called with COMPUTED numeric arguments inside a program
(`with fp.MPFloatContext(p + 1, fp.RM.RNE):`). The callee name encodes the class and the static
(non-numeric) options: `@mp/<rm>`, `@mps/<rm>`, `@ieee/<rm>/<ov>`, `@mpfix/<rm>`, `@fixed/<rm>/<ov>/<0|1 signed>`;
the values are the numeric arguments in the constructor's positional order. Any other unknown name is unbound. -/
def ctxCtor (f : String) (vs : List Val) : M Ctx :=
  match f.splitOn "/", vs with
  | ["@mp", rm], [p] => do
    let some rm := rmOfName rm | .error .typeError
    let p ← ctxIntArg p
    if p < 1 then .error .typeError else .ok (.mp p.toNat rm (some 0) {})
  | ["@mps", rm], [p, emin] => do
    let some rm := rmOfName rm | .error .typeError
    let p ← ctxIntArg p; let emin ← ctxIntArg emin
    if p < 1 then .error .typeError else .ok (.mps p.toNat emin rm (some 0) {})
  | ["@ieee", rm, ov], [es, nbits] => do
    let some rm := rmOfName rm | .error .typeError
    let some ov := ovOfName ov | .error .typeError
    let es ← ctxIntArg es; let nbits ← ctxIntArg nbits
    if ov == .wrap then .error .valueError
    else if es < 0 || nbits < 0 || !efloatValid es.toNat nbits.toNat true .ieee then .error .valueError
    else .ok (.efloat { es := es.toNat, nbits := nbits.toNat, inf := true, kind := .ieee, eoff := 0, rm := rm, ov := ov,
                        k := some 0, nanValue := none, infValue := none })
  | ["@mpfix", rm], [nmin] => do
    let some rm := rmOfName rm | .error .typeError
    let nmin ← ctxIntArg nmin
    .ok (.mpfix nmin rm (some 0) true { enableNan := false, enableInf := false })
  | ["@fixed", rm, ov, sg], [scale, nbits] => do
    let some rm := rmOfName rm | .error .typeError
    let some ov := ovOfName ov | .error .typeError
    let scale ← ctxIntArg scale; let nbits ← ctxIntArg nbits
    let signed := sg == "1"
    if (signed && nbits < 2) || (!signed && nbits < 1) then .error .valueError
    else .ok (Ctx.fixed signed scale nbits.toNat rm ov (some 0) none none)
  | _, _ => .error .unbound

structure Funs where
  defs : List FuncDef

def Funs.find? (Φ : Funs) (f : String) : Option FuncDef := Φ.defs.find? (·.name == f)

mutual
/-- expression evaluation ⟨σ, μ, C, e⟩ ⇓ v (the heap may grow: list constructors allocate) -/
def evalE (Φ : Funs) : Nat → Env → Heap → Ctx → Expr → M (Val × Heap)
  | 0, _, _, _, _ => .error .outOfFuel
  | fuel + 1, σ, μ, C, e =>
    match e with
    | .var x => match σ.get? x with | some v => .ok (v, μ) | none => .error .unbound
    | .bool b => .ok (.bool b, μ)
    | .num v => .ok (.num v, μ)
    | .ctxLit c => .ok (.ctx c, μ)
    | .op o args => do
      let (vs, μ') ← evalEs Φ fuel σ μ C args
      let ns ← vs.mapM asNum
      let r ← opEval C o (ns.map cvtReal)
      .ok (.num r, μ')
    | .pred p a => do
      let (v, μ') ← evalE Φ fuel σ μ C a
      let b ← predEval p C (← asNum v)
      .ok (.bool b, μ')
    | .cmp ops args =>
      -- a chain `a < b <= c` is a conjunction evaluated left to right: each operand is evaluated
      -- once, and an operand is not evaluated at all once an earlier test has failed
      match args with
      | [] => .ok (.bool true, μ)
      | a :: rest => do
        let (av, μ1) ← evalE Φ fuel σ μ C a
        evalChain Φ fuel σ μ1 C av ops rest
    | .not a => do
      let (v, μ') ← evalE Φ fuel σ μ C a
      .ok (.bool (!(← asBool v)), μ')
    | .and es => evalAnd Φ fuel σ μ C es
    | .or es => evalOr Φ fuel σ μ C es
    | .ite c t f => do
      let (v, μ') ← evalE Φ fuel σ μ C c
      if ← asBool v then evalE Φ fuel σ μ' C t else evalE Φ fuel σ μ' C f
    | .tuple es => do
      let (vs, μ') ← evalEs Φ fuel σ μ C es
      .ok (.tuple vs, μ')
    | .list es => do
      let (vs, μ') ← evalEs Φ fuel σ μ C es
      let (μ'', r) := alloc μ' vs
      .ok (r, μ'')
    | .index a i => do
      let (av, μ1) ← evalE Φ fuel σ μ C a
      let (iv, μ2) ← evalE Φ fuel σ μ1 C i
      let l ← asSeq μ2 av
      let k ← asIndex iv
      match l[k]? with | some v => .ok (v, μ2) | none => .error .indexError
    | .slice a s t => do
      let (av, μ1) ← evalE Φ fuel σ μ C a
      let (sv, μ2) ← (match s with | none => .ok (none, μ1) | some s => do let (v, m) ← evalE Φ fuel σ μ1 C s; .ok (some v, m))
      let (tv, μ3) ← (match t with | none => .ok (none, μ2) | some t => do let (v, m) ← evalE Φ fuel σ μ2 C t; .ok (some v, m))
      let l ← asList μ3 av
      let toInt (v : Val) : M Int := do
        match nvInt? (← asNum v) with | some i => .ok i | none => .error .typeError
      let si ← (match sv with | none => .ok (0 : Int) | some v => toInt v)
      let ti ← (match tv with | none => .ok (l.length : Int) | some v => toInt v)
      if si < 0 then .error .indexError
      else if ti > l.length then .error .indexError
      else if si > ti then .error .indexError
      else
        let (μ4, r) := alloc μ3 ((l.drop si.toNat).take (ti - si).toNat)
        .ok (r, μ4)
    | .comp targets iters elt => do
      let (vs, μ') ← evalComp Φ fuel σ μ C targets iters elt
      let (μ'', r) := alloc μ' vs
      .ok (r, μ'')
    | .len a => do
      let (v, μ') ← evalE Φ fuel σ μ C a
      let l ← asList μ' v
      .ok (.num (.q (l.length : Int) 1), μ')
    | .range args => do
      let (vs, μ') ← evalEs Φ fuel σ μ C args
      let ints ← vs.mapM (fun v => do
        match nvInt? (← asNum v) with | some i => .ok i | none => .error .valueError)
      let (a, b, st) ← (match ints with
        | [b] => .ok ((0 : Int), b, (1 : Int))
        | [a, b] => .ok (a, b, (1 : Int))
        | [a, b, c] => .ok (a, b, c)
        | _ => .error .typeError)
      if st = 0 then .error .valueError
      else
        let n : Nat := if st > 0 then ((b - a + st - 1) / st).toNat else ((a - b + (-st) - 1) / (-st)).toNat
        let l := (List.range n).map (fun (i : Nat) => intVal (a + st * (i : Int)))
        let (μ'', r) := alloc μ' l
        .ok (r, μ'')
    | .zip es => do
      let (vs, μ') ← evalEs Φ fuel σ μ C es
      let ls ← vs.mapM (asList μ')
      match ls with
      | [] => let (μ'', r) := alloc μ' []; .ok (r, μ'')
      | l0 :: rest =>
        if rest.any (fun l => l.length != l0.length) then .error .valueError
        else
          let rows := (List.range l0.length).map (fun i => Val.tuple (ls.filterMap (fun l => l[i]?)))
          let (μ'', r) := alloc μ' rows
          .ok (r, μ'')
    | .enumerate a => do
      let (v, μ') ← evalE Φ fuel σ μ C a
      let l ← asList μ' v
      let rows := (List.range l.length).filterMap (fun (i : Nat) => (l[i]?).map (fun x => Val.tuple [intVal (i : Int), x]))
      let (μ'', r) := alloc μ' rows
      .ok (r, μ'')
    | .sum a => do
      let (v, μ') ← evalE Φ fuel σ μ C a
      let l ← asList μ' v
      match l with
      | [] => .ok (intVal 0, μ')
      | x :: xs => do
        let x0 ← asNum x
        let acc ← xs.foldlM (fun acc y => do opEval C .add [cvtReal acc, cvtReal (← asNum y)]) x0
        .ok (.num acc, μ')
    | .min es => do
      let (vs, μ') ← evalEs Φ fuel σ μ C es
      let vals ← (match vs with
        | [single] => (match single with
            | .list _ => do let l ← asList μ' single; if l.isEmpty then .error .valueError else l.mapM asNum
            | _ => .error .typeError)
        | _ => vs.mapM asNum)
      .ok (.num (← minMax true vals), μ')
    | .max es => do
      let (vs, μ') ← evalEs Φ fuel σ μ C es
      let vals ← (match vs with
        | [single] => (match single with
            | .list _ => do let l ← asList μ' single; if l.isEmpty then .error .valueError else l.mapM asNum
            | _ => .error .typeError)
        | _ => vs.mapM asNum)
      .ok (.num (← minMax false vals), μ')
    | .any a => do
      let (v, μ') ← evalE Φ fuel σ μ C a
      let bs ← (← asList μ' v).mapM asBool
      .ok (.bool (bs.any id), μ')
    | .all a => do
      let (v, μ') ← evalE Φ fuel σ μ C a
      let bs ← (← asList μ' v).mapM asBool
      .ok (.bool (bs.all id), μ')
    | .roundAt a n => do
      let (av, μ1) ← evalE Φ fuel σ μ C a
      let (nv, μ2) ← evalE Φ fuel σ μ1 C n
      let x ← asNum av
      let nn ← asNum nv
      match nn with
      | .q _ _ => .error .valueError
      | .fv _ =>
        match nvInt? nn with
        | none => .error .valueError
        | some k =>
          match C with
          | .real => .error .valueError
          | _ =>
            let r ← (match x with
              | .fv v => C.roundAtCore v (some k) false 0
              | .q num den => C.roundAt (.frac num den) k)
            .ok (.num (.fv r.v), μ2)
    | .call f args => do
      let (vs, μ') ← evalEs Φ fuel σ μ C args
      match Φ.find? f with
      | none => (ctxCtor f vs).map (fun c => (Val.ctx c, μ'))     -- a rounding-context constructor, or unbound
      | some fd =>
        if fd.params.length != vs.length then .error .typeError
        else
          let σ0 : Env := (fd.params.zip vs).foldl (fun s (x, v) => s.set x v) []
          let C' := match fd.ctx with | some c => c | none => C
          let (o, μ'') ← evalB Φ fuel σ0 μ' C' fd.body
          match o with
          | .ret v => .ok (v, μ'')
          | .normal _ => .error .assertion     -- fell off the end

def evalChain (Φ : Funs) : Nat → Env → Heap → Ctx → Val → List CmpOp → List Expr → M (Val × Heap)
  | 0, _, _, _, _, _, _ => .error .outOfFuel
  | fuel + 1, σ, μ, C, a, op :: ops, b :: rest => do
    let (bv, μ1) ← evalE Φ fuel σ μ C b
    let ok ← (match op with
      | .eq => valEq μ1 fuel a bv
      | .ne => (valEq μ1 fuel a bv).map (!·)
      | _ => do let x ← asNum a; let y ← asNum bv; .ok (cmpHolds op (nvCompare x y)))
    if ok then evalChain Φ fuel σ μ1 C bv ops rest else .ok (.bool false, μ1)
  | _ + 1, _, μ, _, _, _, _ => .ok (.bool true, μ)

def evalEs (Φ : Funs) : Nat → Env → Heap → Ctx → List Expr → M (List Val × Heap)
  | 0, _, _, _, _ => .error .outOfFuel
  | _ + 1, _, μ, _, [] => .ok ([], μ)
  | fuel + 1, σ, μ, C, e :: es => do
    let (v, μ1) ← evalE Φ fuel σ μ C e
    let (vs, μ2) ← evalEs Φ fuel σ μ1 C es
    .ok (v :: vs, μ2)

def evalAnd (Φ : Funs) : Nat → Env → Heap → Ctx → List Expr → M (Val × Heap)
  | 0, _, _, _, _ => .error .outOfFuel
  | _ + 1, _, μ, _, [] => .ok (.bool true, μ)
  | fuel + 1, σ, μ, C, [e] => evalE Φ fuel σ μ C e
  | fuel + 1, σ, μ, C, e :: es => do
    let (v, μ1) ← evalE Φ fuel σ μ C e
    if ← asBool v then evalAnd Φ fuel σ μ1 C es else .ok (.bool false, μ1)

def evalOr (Φ : Funs) : Nat → Env → Heap → Ctx → List Expr → M (Val × Heap)
  | 0, _, _, _, _ => .error .outOfFuel
  | _ + 1, _, μ, _, [] => .ok (.bool false, μ)
  | fuel + 1, σ, μ, C, [e] => evalE Φ fuel σ μ C e
  | fuel + 1, σ, μ, C, e :: es => do
    let (v, μ1) ← evalE Φ fuel σ μ C e
    if ← asBool v then .ok (.bool true, μ1) else evalOr Φ fuel σ μ1 C es

/-- comprehension `[elt for t1 in it1 for t2 in it2 …]`: nested generators, targets local -/
def evalComp (Φ : Funs) : Nat → Env → Heap → Ctx → List Pat → List Expr → Expr → M (List Val × Heap)
  | 0, _, _, _, _, _, _ => .error .outOfFuel
  | fuel + 1, σ, μ, C, [], _, elt => do
    let (v, μ') ← evalE Φ fuel σ μ C elt
    .ok ([v], μ')
  | fuel + 1, σ, μ, C, p :: ps, it :: its, elt => do
    let (iv, μ1) ← evalE Φ fuel σ μ C it
    let _ ← asList μ1 iv
    match iv with
    | .list r => compLoop Φ fuel σ μ1 C r 0 p ps its elt
    | _ => .error .typeError
  | _ + 1, _, _, _, _ :: _, [], _ => .error .assertion

def compLoop (Φ : Funs) : Nat → Env → Heap → Ctx → Nat → Nat → Pat → List Pat → List Expr → Expr → M (List Val × Heap)
  | 0, _, _, _, _, _, _, _, _, _ => .error .outOfFuel
  | fuel + 1, σ, μ, C, r, i, p, ps, its, elt => do
    let l ← heapGet μ r
    match l[i]? with
    | none => .ok ([], μ)
    | some x => do
      let σ' ← bindPat fuel p x σ
      let (vs, μ1) ← evalComp Φ fuel σ' μ C ps its elt
      let (ws, μ2) ← compLoop Φ fuel σ μ1 C r (i + 1) p ps its elt
      .ok (vs ++ ws, μ2)

/-- statement evaluation ⟨σ, μ, C, s⟩ ⇓ o ; μ' -/
def evalS (Φ : Funs) : Nat → Env → Heap → Ctx → Stmt → M (Outcome × Heap)
  | 0, _, _, _, _ => .error .outOfFuel
  | fuel + 1, σ, μ, C, s =>
    match s with
    | .assign p e => do
      let (v, μ') ← evalE Φ fuel σ μ C e
      let σ' ← bindPat fuel p v σ
      .ok (.normal σ', μ')
    | .iassign x idxs e => do
      -- Python evaluates the right-hand side first, then the target subscripts
      let (v, μ0) ← evalE Φ fuel σ μ C e
      let (ivs, μ1) ← evalEs Φ fuel σ μ0 C idxs
      let ks ← ivs.mapM asIndex
      match σ.get? x with
      | none => .error .unbound
      | some base =>
        let rec walk : Val → List Nat → M (Nat × Nat)
          | .list r, [k] => .ok (r, k)
          | .list r, k :: ks => do
            let l ← heapGet μ1 r
            match l[k]? with | some sub => walk sub ks | none => .error .indexError
          | _, _ => .error .typeError
        let (r, k) ← walk base ks
        let l ← heapGet μ1 r
        if k < l.length then .ok (.normal σ, heapSet μ1 r (l.set k v)) else .error .indexError
    | .ifte c t f => do
      let (v, μ') ← evalE Φ fuel σ μ C c
      if ← asBool v then evalB Φ fuel σ μ' C t else evalB Φ fuel σ μ' C f
    | .if1 c t => do
      let (v, μ') ← evalE Φ fuel σ μ C c
      if ← asBool v then evalB Φ fuel σ μ' C t else .ok (.normal σ, μ')
    | .while c body => do
      let (v, μ') ← evalE Φ fuel σ μ C c
      if ← asBool v then do
        let (o, μ'') ← evalB Φ fuel σ μ' C body
        match o with
        | .ret r => .ok (.ret r, μ'')
        | .normal σ' => evalS Φ fuel σ' μ'' C (.while c body)
      else .ok (.normal σ, μ')
    | .for p it body => do
      let (iv, μ') ← evalE Φ fuel σ μ C it
      match iv with
      | .list r => forLoop Φ fuel σ μ' C r 0 p body
      | _ => .error .typeError
    | .with ce name body => do
      -- E-Context: the constructor expression is evaluated under the real context
      let (cv, μ') ← evalE Φ fuel σ μ .real ce
      match cv with
      | .ctx C' =>
        let σ' := match name with | some x => σ.set x (.ctx C') | none => σ
        evalB Φ fuel σ' μ' C' body      -- the caller continues under `C`: it was never changed
      | _ => .error .typeError
    | .assert e => do
      let (v, μ') ← evalE Φ fuel σ μ C e
      if ← asBool v then .ok (.normal σ, μ') else .error .assertion
    | .effect e => do
      let (_, μ') ← evalE Φ fuel σ μ C e
      .ok (.normal σ, μ')
    | .ret e => do
      let (v, μ') ← evalE Φ fuel σ μ C e
      .ok (.ret v, μ')
    | .pass => .ok (.normal σ, μ)

/-- `for p in <list r>`: Python's list iterator — index based on the live list -/
def forLoop (Φ : Funs) : Nat → Env → Heap → Ctx → Nat → Nat → Pat → List Stmt → M (Outcome × Heap)
  | 0, _, _, _, _, _, _, _ => .error .outOfFuel
  | fuel + 1, σ, μ, C, r, i, p, body => do
    let l ← heapGet μ r
    match l[i]? with
    | none => .ok (.normal σ, μ)
    | some x => do
      let σ' ← bindPat fuel p x σ
      let (o, μ') ← evalB Φ fuel σ' μ C body
      match o with
      | .ret v => .ok (.ret v, μ')
      | .normal σ'' => forLoop Φ fuel σ'' μ' C r (i + 1) p body

/-- sequencing (E-Seq-Normal / E-Seq-Return) -/
def evalB (Φ : Funs) : Nat → Env → Heap → Ctx → List Stmt → M (Outcome × Heap)
  | 0, _, _, _, _ => .error .outOfFuel
  | _ + 1, σ, μ, _, [] => .ok (.normal σ, μ)
  | fuel + 1, σ, μ, C, s :: ss => do
    let (o, μ') ← evalS Φ fuel σ μ C s
    match o with
    | .ret v => .ok (.ret v, μ')
    | .normal σ' => evalB Φ fuel σ' μ' C ss
end

/-- a call from Python: `f(*args, ctx=…)`; no context ⇒ IEEE double -/
def callEntry (Φ : Funs) (fuel : Nat) (f : String) (args : List Val) (μ : Heap) (ctx : Option Ctx) : M (Val × Heap) :=
  match Φ.find? f with
  | none => .error .unbound
  | some fd =>
    if fd.params.length != args.length then .error .typeError
    else
      let σ0 : Env := (fd.params.zip args).foldl (fun s (x, v) => s.set x v) []
      let C := match fd.ctx with | some c => c | none => (match ctx with | some c => c | none => fp64)
      match evalB Φ fuel σ0 μ C fd.body with
      | .error e => .error e
      | .ok (.ret v, μ') => .ok (v, μ')
      | .ok (.normal _, _) => .error .assertion

end Fpy.Lang
