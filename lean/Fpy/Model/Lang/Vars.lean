/-
Syntactic functions on the core language used to state the rewrite schemas:
variables read, variables bound (assigned), substitution of a variable for a variable at reads.
-/
import Fpy.Model.Lang.Sim
namespace Fpy.Xform
open Fpy Fpy.Lang

mutual
/-- names a pattern binds -/
def bvP : Pat → List String
  | .var x => [x]
  | .wild => []
  | .tup ps => bvPs ps
def bvPs : List Pat → List String
  | [] => []
  | p :: ps => bvP p ++ bvPs ps
end

mutual
/-- every variable occurrence in an expression (comprehension targets are binders, not reads, but a
read of a comprehension-bound name counts: this is an over-approximation of the free variables) -/
def readsE : Expr → List String
  | .var x => [x]
  | .bool _ => []
  | .num _ => []
  | .ctxLit _ => []
  | .op _ as => readsEs as
  | .pred _ a => readsE a
  | .cmp _ as => readsEs as
  | .not a => readsE a
  | .and as => readsEs as
  | .or as => readsEs as
  | .ite c t f => readsE c ++ readsE t ++ readsE f
  | .tuple as => readsEs as
  | .list as => readsEs as
  | .index a i => readsE a ++ readsE i
  | .slice a s t => readsE a ++ readsO s ++ readsO t
  | .comp _ its elt => readsEs its ++ readsE elt
  | .len a => readsE a
  | .range as => readsEs as
  | .zip as => readsEs as
  | .enumerate a => readsE a
  | .sum a => readsE a
  | .min as => readsEs as
  | .max as => readsEs as
  | .any a => readsE a
  | .all a => readsE a
  | .roundAt a n => readsE a ++ readsE n
  | .call _ as => readsEs as
def readsEs : List Expr → List String
  | [] => []
  | a :: as => readsE a ++ readsEs as
def readsO : Option Expr → List String
  | none => []
  | some a => readsE a
end

mutual
/-- names bound inside an expression (comprehension targets) -/
def bvE : Expr → List String
  | .var _ => []
  | .bool _ => []
  | .num _ => []
  | .ctxLit _ => []
  | .op _ as => bvEs as
  | .pred _ a => bvE a
  | .cmp _ as => bvEs as
  | .not a => bvE a
  | .and as => bvEs as
  | .or as => bvEs as
  | .ite c t f => bvE c ++ bvE t ++ bvE f
  | .tuple as => bvEs as
  | .list as => bvEs as
  | .index a i => bvE a ++ bvE i
  | .slice a s t => bvE a ++ bvO s ++ bvO t
  | .comp ps its elt => bvPs ps ++ bvEs its ++ bvE elt
  | .len a => bvE a
  | .range as => bvEs as
  | .zip as => bvEs as
  | .enumerate a => bvE a
  | .sum a => bvE a
  | .min as => bvEs as
  | .max as => bvEs as
  | .any a => bvE a
  | .all a => bvE a
  | .roundAt a n => bvE a ++ bvE n
  | .call _ as => bvEs as
def bvEs : List Expr → List String
  | [] => []
  | a :: as => bvE a ++ bvEs as
def bvO : Option Expr → List String
  | none => []
  | some a => bvE a
end

mutual
/-- every variable a statement reads (the target of `x[i] = e` is read) -/
def readsS : Stmt → List String
  | .assign _ e => readsE e
  | .iassign x is e => x :: readsEs is ++ readsE e
  | .ifte c t f => readsE c ++ readsB t ++ readsB f
  | .if1 c t => readsE c ++ readsB t
  | .while c b => readsE c ++ readsB b
  | .for _ it b => readsE it ++ readsB b
  | .with ce _ b => readsE ce ++ readsB b
  | .assert e => readsE e
  | .effect e => readsE e
  | .ret e => readsE e
  | .pass => []
def readsB : List Stmt → List String
  | [] => []
  | s :: ss => readsS s ++ readsB ss
end

mutual
/-- every name a statement may bind: assignment / loop / `with … as` / comprehension targets -/
def bvS : Stmt → List String
  | .assign p e => bvP p ++ bvE e
  | .iassign _ is e => bvEs is ++ bvE e
  | .ifte c t f => bvE c ++ bvB t ++ bvB f
  | .if1 c t => bvE c ++ bvB t
  | .while c b => bvE c ++ bvB b
  | .for p it b => bvP p ++ bvE it ++ bvB b
  | .with ce nm b => (match nm with | some x => [x] | none => []) ++ bvE ce ++ bvB b
  | .assert e => bvE e
  | .effect e => bvE e
  | .ret e => bvE e
  | .pass => []
def bvB : List Stmt → List String
  | [] => []
  | s :: ss => bvS s ++ bvB ss
end

mutual
/-- rename every variable READ by `ρ` (binders are left alone) -/
def renE (ρ : String → String) : Expr → Expr
  | .var z => .var (ρ z)
  | .bool b => .bool b
  | .num v => .num v
  | .ctxLit c => .ctxLit c
  | .op o as => .op o (renEs ρ as)
  | .pred p a => .pred p (renE ρ a)
  | .cmp ops as => .cmp ops (renEs ρ as)
  | .not a => .not (renE ρ a)
  | .and as => .and (renEs ρ as)
  | .or as => .or (renEs ρ as)
  | .ite c t f => .ite (renE ρ c) (renE ρ t) (renE ρ f)
  | .tuple as => .tuple (renEs ρ as)
  | .list as => .list (renEs ρ as)
  | .index a i => .index (renE ρ a) (renE ρ i)
  | .slice a s t => .slice (renE ρ a) (renO ρ s) (renO ρ t)
  | .comp ps its elt => .comp ps (renEs ρ its) (renE ρ elt)
  | .len a => .len (renE ρ a)
  | .range as => .range (renEs ρ as)
  | .zip as => .zip (renEs ρ as)
  | .enumerate a => .enumerate (renE ρ a)
  | .sum a => .sum (renE ρ a)
  | .min as => .min (renEs ρ as)
  | .max as => .max (renEs ρ as)
  | .any a => .any (renE ρ a)
  | .all a => .all (renE ρ a)
  | .roundAt a n => .roundAt (renE ρ a) (renE ρ n)
  | .call f as => .call f (renEs ρ as)
def renEs (ρ : String → String) : List Expr → List Expr
  | [] => []
  | a :: as => renE ρ a :: renEs ρ as
def renO (ρ : String → String) : Option Expr → Option Expr
  | none => none
  | some a => some (renE ρ a)
end

mutual
/-- rename the reads in the expressions of a statement; like `SubstVar` of
`fpy2/transform/subst_var.py` (which only overrides `_visit_var`) the target of `x[i] = e` is
NOT rewritten, nor is any binder -/
def renS (ρ : String → String) : Stmt → Stmt
  | .assign p e => .assign p (renE ρ e)
  | .iassign z is e => .iassign z (renEs ρ is) (renE ρ e)
  | .ifte c t f => .ifte (renE ρ c) (renB ρ t) (renB ρ f)
  | .if1 c t => .if1 (renE ρ c) (renB ρ t)
  | .while c b => .while (renE ρ c) (renB ρ b)
  | .for p it b => .for p (renE ρ it) (renB ρ b)
  | .with ce nm b => .with (renE ρ ce) nm (renB ρ b)
  | .assert e => .assert (renE ρ e)
  | .effect e => .effect (renE ρ e)
  | .ret e => .ret (renE ρ e)
  | .pass => .pass
def renB (ρ : String → String) : List Stmt → List Stmt
  | [] => []
  | s :: ss => renS ρ s :: renB ρ ss
end

/-- `[y/x]` on names -/
def sub1 (x y : String) : String → String := fun z => if z = x then y else z

/-- `ss[y/x]`: replace every read of `x` by a read of `y` -/
def substB (x y : String) (ss : List Stmt) : List Stmt := renB (sub1 x y) ss

mutual
/-- no `return` anywhere in the statement -/
def noRetS : Stmt → Bool
  | .assign _ _ => true
  | .iassign _ _ _ => true
  | .ifte _ t f => noRetB t && noRetB f
  | .if1 _ t => noRetB t
  | .while _ b => noRetB b
  | .for _ _ b => noRetB b
  | .with _ _ b => noRetB b
  | .assert _ => true
  | .effect _ => true
  | .ret _ => false
  | .pass => true
def noRetB : List Stmt → Bool
  | [] => true
  | s :: ss => noRetS s && noRetB ss
end

/-- `p₁ = a₁; …; pₙ = aₙ` -/
def bindArgs : List String → List Expr → List Stmt
  | p :: ps, a :: as => .assign (.var p) a :: bindArgs ps as
  | _, _ => []

/-- the identity correspondence on the names `xs` -/
def idRel (xs : List String) : VRel := xs.map fun x => (x, x)

end Fpy.Xform
