/-
C03 — model of the WRAPPER that `fpy2` puts around MPFR for elementary / special functions and constants
(`number/gmputils.py`: `mpfr_call`, `_mpfr_call_with_prec`, `_round_odd`; `number/engine/gmp.py`: `_mpfr_eval`,
`_mpfr_constant`, `_constant_exprs`; `ops.py`: `_normalize`).

MPFR itself is external and transcendental values are not computable: it enters as a PARAMETER, an `Oracle`
that answers, for a precision `q`, what one MPFR call under round-toward-zero hands back to `mpfr_call`: the
result (sign, exponent, significand) and whether the ternary value `rc` is non-zero.  What is modelled — and
proved about in `Props/C03.lean` — is everything fpy does with those answers:

  * which precisions are asked for (`prec + 2`; or the two-pass choice `2`, then `e − n + 2`, when only the
    position `n` of the first unrepresentable digit is known: fixed-point contexts),
  * `_round_odd`: the sticky bit `rc ≠ 0` is OR-ed into the last digit,
  * the context's own rounding of that intermediate (`Ctx.roundAtCore`, the C01 model),
  * the SHAPE of the constant table: which entries are a single MPFR primitive (the oracle contract applies
    to them) and which are compositions (the inner result is already rounded when the outer operation sees it).

Not modelled: NaN / ±∞ results, MPFR's exponent range (an inexact zero only arises from MPFR underflow).
-/
import Fpy.Model.Num.Engine
namespace Fpy.C03
open Fpy

/-- one MPFR call at precision `q`, rounding toward zero: (result, `rc ≠ 0`) -/
abbrev Oracle := Nat → RF × Bool

/-- `gmputils._round_odd` on a finite result: sign and exponent kept, sticky bit OR-ed into the last digit.
(An exact zero stays a zero of the same sign — its exponent field is immaterial, every context normalises
it; an INEXACT zero only arises from MPFR underflow, beyond the exponent range modelled here.) -/
def roundOdd (y : RF) (inex : Bool) : RF := ⟨y.s, y.exp, rtoBit y.c inex⟩

/-- `gmputils.mpfr_call(fn, args, prec, n)` with `fn(*args)` at precision `q` given by `t q`.
`_mpfr_eval` / `_mpfr_constant` pass `round_params()`; when both are set `prec` takes precedence. -/
def mpfrCallModel (t : Oracle) (prec : Option Nat) (n : Option Int) : Except Err RF :=
  match prec with
  | some p => .ok (roundOdd (t (p + 2)).1 (t (p + 2)).2)
  | none =>
    match n with
    | none => .error .valueError
    | some n =>
      -- first pass: two digits, to learn the exponent
      let r2 := t 2
      if r2.1.c = 0 then .ok (roundOdd r2.1 r2.2)
      else if r2.1.e ≤ n then .ok (roundOdd r2.1 r2.2)
      else
        -- `e − n` digits above the `n`-th digit, plus two rounding digits
        let q := (r2.1.e - n).toNat + 2
        .ok (roundOdd (t q).1 (t q).2)

/-- the precisions `mpfrCallModel` asks the oracle for, given the normalized exponent `e` of the value:
the largest one -/
def workPrec (prec : Option Nat) (n : Option Int) (e : Int) : Nat :=
  match prec with
  | some p => p + 2
  | none => match n with
    | none => 2
    | some n => if e ≤ n then 2 else (e - n).toNat + 2

/-- `ops.<fn>(x, ctx=C)` / `ops.const_*(ctx=C)`: engine result, then `_normalize` = `ctx.round(result)` -/
def elemEval (C : Ctx) (t : Oracle) : Except Err Res :=
  match mpfrCallModel t C.roundParams.1 C.roundParams.2 with
  | .error e => .error e
  | .ok y => C.roundAtCore (.fin y) none false 0

/-! ### Oracles that satisfy the MPFR contract for a known value -/

/-- toward-zero truncation of an exact dyadic value to `q` significant digits, with "anything lost" -/
def truncRF (x : RF) (q : Nat) : RF × Bool :=
  if x.p ≤ q then (x, false)
  else (⟨x.s, x.exp + ((x.p - q : Nat) : Int), x.c / 2 ^ (x.p - q)⟩, x.c % 2 ^ (x.p - q) != 0)

/-- the contract oracle of a non-dyadic rational `±num/den` (MPFR's conversion of a `Fraction`) -/
def ratOracle (neg : Bool) (num den : Nat) : Oracle := fun q =>
  (⟨neg, (truncRat num den q).2.1, (truncRat num den q).1⟩, (truncRat num den q).2.2)

/-- further truncation of an already truncated answer: the digits dropped now OR the old flag -/
def truncStep (r : RF × Bool) (q : Nat) : RF × Bool := ((truncRF r.1 q).1, (truncRF r.1 q).2 || r.2)

/-- **The MPFR contract, without real numbers.**  A family of answers is the family of toward-zero truncations
of ONE non-zero real value `v` (with the flags `v ≠ truncation`) iff the answers are non-zero, have at most `q`
digits — exactly `q` when flagged inexact — and each coarser answer is the truncation of each finer one.
(⇒: truncating `v` to `W` digits and then to `q ≤ W` digits is truncating it to `q` digits.  ⇐: a coherent
family is a nested sequence of dyadic intervals `[t_q, t_q + ulp_q)`, i.e. the binary expansion of a real.) -/
structure Coherent (t : Oracle) : Prop where
  nz : ∀ q, 1 ≤ q → (t q).1.c ≠ 0
  short : ∀ q, 1 ≤ q → (t q).1.p ≤ q
  full : ∀ q, 1 ≤ q → (t q).2 = true → (t q).1.p = q
  step : ∀ q W, 1 ≤ q → q ≤ W → t q = truncStep (t W) q

/-- the dyadic stand-in of the value at level `W`: its `W`-digit truncation, plus half a unit of the last
place when something follows.  It lies strictly between the same two consecutive `W`-digit numbers as the
value itself (or IS the value when the truncation is exact), so it compares with every `W`-digit number — in
particular with every grid point and midpoint of a rounding to `W − 2` or fewer digits — exactly as the value
does. -/
def refDyadic (t : Oracle) (W : Nat) : RF :=
  if (t W).2 then ⟨(t W).1.s, (t W).1.exp - 1, 2 * (t W).1.c + 1⟩ else (t W).1

/-! ### Composed constants (candidate defect F9) -/

/-- `lambda: gmp.const_pi() / 2 ** k` evaluated at precision `q`: the inner primitive is truncated at `q`
digits, the division by a power of two is exact, so THE OUTER TERNARY IS ZERO — the inner one is lost. -/
def composedScale (t : Oracle) (k : Nat) : Oracle := fun q =>
  (⟨(t q).1.s, (t q).1.exp - (k : Int), (t q).1.c⟩, false)

/-- the same with the inner ternary value kept (what a repaired table entry does: scale the exponent of the
single primitive's answer) -/
def scaleOracle (t : Oracle) (k : Nat) : Oracle := fun q =>
  (⟨(t q).1.s, (t q).1.exp - (k : Int), (t q).1.c⟩, (t q).2)

/-- π to nine digits, `201/64 = 11.001001₂`, as a rational stand-in value (its first four digits, `11.00₂`, are
π's): used by the counterexample `composed_constant_unsound` -/
def piLike : Oracle := ratOracle false 201 64

/-- expressions of `gmp._constant_exprs`, as far as their shape goes -/
inductive CExpr
  | lit (n : Nat)
  | call0 (f : String)
  | call1 (f : String) (a : CExpr)
  | call2 (f : String) (a b : CExpr)
deriving Repr, DecidableEq, Inhabited

def CExpr.render : CExpr → String
  | .lit n => toString n
  | .call0 f => f ++ "()"
  | .call1 f a => f ++ "(" ++ a.render ++ ")"
  | .call2 f a b => f ++ "(" ++ a.render ++ "," ++ b.render ++ ")"

def CExpr.isLit : CExpr → Bool
  | .lit _ => true
  | _ => false

/-- an exact operand: a literal, or `gmp.mpfr(literal)` -/
def CExpr.isExactLeaf : CExpr → Bool
  | .lit _ => true
  | .call1 "mpfr" (.lit _) => true
  | _ => false

inductive CKind
  /-- ONE MPFR primitive applied to literals: its ternary value describes the constant itself -/
  | single
  /-- a primitive applied to `1/2` computed first: the inner division is exact at every precision ≥ 1 -/
  | composedExactInner
  /-- a composition whose inner result is inexact: the outer ternary value says nothing about it -/
  | composed
deriving Repr, DecidableEq, Inhabited

def CExpr.kind : CExpr → CKind
  | .call0 _ => .single
  | .call1 _ (.lit _) => .single
  | .call2 _ (.lit _) (.lit _) => .single
  | .call1 _ (.call2 "div" a b) =>
      if a.isExactLeaf && b.isExactLeaf && a.render == "mpfr(1)" && b.render == "mpfr(2)" then .composedExactInner
      else .composed
  | _ => .composed

/-- `gmp._constant_exprs` (keys are the names of `_Constant`).  The harness parses THIS definition out of the
source text of this file, derives the same shapes from the source text of `fpy2/number/engine/gmp.py` on every run
(Python `ast`) and compares the two; keep one entry per line. -/
def constTable : List (String × CExpr) := [
  ("E", .call1 "exp" (.lit 1)),
  ("LOG2E", .call1 "log2" (.call1 "exp" (.lit 1))),
  ("LOG10E", .call1 "log10" (.call1 "exp" (.lit 1))),
  ("LN2", .call0 "const_log2"),
  ("LN10", .call1 "log" (.lit 10)),
  ("PI", .call0 "const_pi"),
  ("PI_2", .call2 "div" (.call0 "const_pi") (.lit 2)),
  ("PI_4", .call2 "div" (.call0 "const_pi") (.lit 4)),
  ("M_1_PI", .call2 "div" (.lit 1) (.call0 "const_pi")),
  ("M_2_PI", .call2 "div" (.lit 2) (.call0 "const_pi")),
  ("M_2_SQRTPI", .call2 "div" (.lit 2) (.call1 "sqrt" (.call0 "const_pi"))),
  ("SQRT2", .call1 "sqrt" (.lit 2)),
  ("SQRT1_2", .call1 "sqrt" (.call2 "div" (.call1 "mpfr" (.lit 1)) (.call1 "mpfr" (.lit 2))))]

end Fpy.C03
