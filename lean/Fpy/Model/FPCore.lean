/-
C12 — FPCore: a core subset of the language (FPBench FPCore 2.0), its big-step evaluator, the
property table `FPCoreContext.from_context / to_context` (fpy2/fpc_context.py) and a model of the
FPy → FPCore compiler (fpy2/backend/fpc.py) for the loop-free statement subset.

* values are the core-language values (`Fpy.Lang.Val`): numbers, booleans and tensors (`.tuple`);
  FPCore has no heap, so `.list` never occurs;
* the rounding context of an operation is determined by the property set in force: the properties
  of the enclosing `FPCore` form updated by every enclosing `!` annotation, innermost last; an
  annotation is in force for EXACTLY its sub-expression (`eval … (P.update p) e`);
* number literals and every arithmetic operation are rounded under the context the property set
  resolves to (`Props.toCtx`, the model of `FPCoreContext.to_context`); variables are not re-rounded;
* `let`/`while`/`for` bind simultaneously, the starred forms sequentially (titanfp `interpreter.py`,
  FPCore 2.0 standard §semantics).
-/
import Fpy.Model.Lang.Core
namespace Fpy.C12
open Fpy Fpy.Lang

/-! ## property table -/

/-- the six rounding modes FPCore can name (`_round_mode` in fpc_context.py) -/
inductive RName | nearestEven | nearestAway | toPositive | toNegative | toZero | awayZero
deriving DecidableEq, Repr, Inhabited

def RName.toRM : RName → RM
  | .nearestEven => .rne | .nearestAway => .rna | .toPositive => .rtp
  | .toNegative => .rtn | .toZero => .rtz | .awayZero => .raz

/-- `_round_mode_from_fpc`: `none` is the `ValueError('Unknown rounding mode')` -/
def RName.ofRM : RM → Option RName
  | .rne => some .nearestEven | .rna => some .nearestAway | .rtp => some .toPositive
  | .rtn => some .toNegative | .rtz => some .toZero | .raz => some .awayZero
  | _ => none

/-- overflow names (`_overflow_mode`) -/
inductive OName | infinity | clamp | wrap
deriving DecidableEq, Repr, Inhabited

def OName.toOV : OName → OV
  | .infinity => .overflow | .clamp => .saturate | .wrap => .wrap

def OName.ofOV : OV → Option OName
  | .overflow => some .infinity | .saturate => some .clamp | .wrap => some .wrap | _ => none

/-- values of the `:precision` property the table knows -/
inductive Prec
  | binary16 | binary32 | binary64 | binary80 | binary128
  | float (es nbits : Nat)
  | fixed (scale : Int) (nbits : Nat)      -- FPCore: `(fixed <scale> <nbits>)`
  | integer
  | real
deriving DecidableEq, Repr, Inhabited

/-- an FPCore property dictionary restricted to the three keys the table reads;
a property the table does not read (e.g. `:n`) is not represented -/
structure Props where
  prec : Option Prec := none
  round : Option RName := none
  ov : Option OName := none
deriving DecidableEq, Repr, Inhabited

/-- dictionary update: the keys of `q` override those of `p` -/
def Props.update (p q : Props) : Props :=
  { prec := q.prec.or p.prec, round := q.round.or p.round, ov := q.ov.or p.ov }

/-- the FPy contexts the table is about (every other family: `other`) -/
inductive CDesc
  | ieee (es nbits : Nat) (rm : RM) (ov : OV) (randbits : Nat)
  | mpfixed (nmin : Int) (rm : RM) (negZero : Bool)
  | fixed (signed : Bool) (scale : Int) (nbits : Nat) (rm : RM) (ov : OV)
  | real
  | other
deriving DecidableEq, Repr, Inhabited

/-- the engine context of a description -/
def CDesc.toCtx : CDesc → Option Ctx
  | .ieee es nbits rm ov k =>
    some (.efloat { es := es, nbits := nbits, inf := true, kind := .ieee, eoff := 0, rm := rm, ov := ov,
                    k := some k, nanValue := none, infValue := none })
  | .mpfixed nmin rm nz => some (.mpfix nmin rm (some 0) nz { enableNan := false, enableInf := false })
  | .fixed sg sc nb rm ov => some (Ctx.fixed sg sc nb rm ov (some 0) none none)
  | .real => some .real
  | .other => none

/-- `FPCoreContext.to_context` (defaults: binary64, nearestEven, infinity); `none` = `NoSuchContextError` -/
def Props.toDesc (p : Props) : Option CDesc :=
  let rm := (p.round.getD .nearestEven).toRM
  let ov := (p.ov.getD .infinity).toOV
  match p.prec.getD .binary64 with
  | .float es nbits => some (.ieee es nbits rm .overflow 0)
  | .binary128 => some (.ieee 15 128 rm .overflow 0)
  | .binary80 => some (.ieee 15 79 rm .overflow 0)
  | .binary64 => some (.ieee 11 64 rm .overflow 0)
  | .binary32 => some (.ieee 8 32 rm .overflow 0)
  | .binary16 => some (.ieee 5 16 rm .overflow 0)
  | .fixed scale nbits => some (.fixed true scale nbits rm ov)
  | .integer => some (.mpfixed (-1) rm false)
  | .real => some .real

/-- the table of `FPCoreContext.from_context` before the round-trip guard -/
def tableOf : CDesc → Option Props
  | .ieee es nbits rm _ _ =>
    (RName.ofRM rm).map fun r =>
      let prec : Prec :=
        if es = 15 ∧ nbits = 128 then .binary128 else if es = 15 ∧ nbits = 79 then .binary80
        else if es = 11 ∧ nbits = 64 then .binary64 else if es = 8 ∧ nbits = 32 then .binary32
        else if es = 5 ∧ nbits = 16 then .binary16 else .float es nbits
      { prec := some prec, round := some r }
  | .mpfixed nmin rm _ =>
    (RName.ofRM rm).map fun r =>
      if nmin = -1 then { prec := some .integer, round := some r }
      else { round := some r }          -- `FPCoreContext(n=nmin, round=rm)`: `:n` is not a key `to_context` reads
  | .fixed signed scale nbits rm ov =>
    if !signed then none
    else match RName.ofRM rm, OName.ofOV ov with
      | some r, some o => some { prec := some (.fixed scale nbits), round := some r, ov := some o }
      | _, _ => none
  | .real => some { prec := some .real }
  | .other => none

/-- `FPCoreContext.from_context`: the table entry, provided it denotes the SAME context
(a context with a parameter the table cannot express is refused, not silently changed) -/
def fromDesc (d : CDesc) : Option Props :=
  match tableOf d with
  | none => none
  | some p => if p.toDesc = some d then some p else none

/-- the table as it was before the repair (`precision=['fixed', nbits, scale]`, no guard):
kept for the counterexample theorems -/
def tableLegacy : CDesc → Option Props
  | .fixed signed scale nbits rm ov =>
    if !signed then none
    else match RName.ofRM rm, OName.ofOV ov with
      | some r, some o => some { prec := some (.fixed (nbits : Int) scale.toNat), round := some r, ov := some o }
      | _, _ => none
  | d => tableOf d

/-- the rounding context a property set denotes -/
def Props.toCtx (p : Props) : M Ctx :=
  match p.toDesc.bind CDesc.toCtx with
  | some c => .ok c
  | none => .error .notImplemented

/-! ## syntax -/

inductive Const | true_ | false_ | nan | infinity
deriving DecidableEq, Repr, Inhabited

inductive FExpr
  | var (x : String)
  | num (v : NV)                                   -- decimal / rational / integer literal
  | const (c : Const)
  | op (o : Op) (args : List FExpr)                -- rounded operators; `cast` is `Op.round`
  | pred (p : Pred) (a : FExpr)
  | cmp (o : CmpOp) (args : List FExpr)            -- n-ary comparison
  | and (es : List FExpr)
  | or (es : List FExpr)
  | not (e : FExpr)
  | ite (c t f : FExpr)
  | let_ (star : Bool) (binds : List (String × FExpr)) (body : FExpr)
  | while_ (star : Bool) (c : FExpr) (binds : List (String × FExpr × FExpr)) (body : FExpr)
  | for_ (star : Bool) (dims : List (String × FExpr)) (binds : List (String × FExpr × FExpr)) (body : FExpr)
  | tensor (dims : List (String × FExpr)) (body : FExpr)
  | array (es : List FExpr)
  | ref (a : FExpr) (idx : List FExpr)
  | size (a k : FExpr)
  | dim (a : FExpr)
  | ann (p : Props) (e : FExpr)                    -- `(! :precision … :round … e)`
deriving Inhabited

structure FCore where
  params : List String
  props : Props
  body : FExpr
deriving Inhabited

/-! ## evaluation -/

def constVal : Const → Val
  | .true_ => .bool true
  | .false_ => .bool false
  | .nan => .num (.fv (.nan false))
  | .infinity => .num (.fv (.inf false))

def asTensor : Val → M (List Val)
  | .tuple vs => .ok vs
  | _ => .error .typeError

/-- nested indexing `(ref t i j …)` -/
def refIdx : Val → List Nat → M Val
  | v, [] => .ok v
  | .tuple vs, k :: ks => match vs[k]? with | some x => refIdx x ks | none => .error .indexError
  | _, _ :: _ => .error .typeError

/-- the row-major positions of a tensor shape -/
def positions : List Nat → List (List Nat)
  | [] => [[]]
  | n :: ns => (List.range n).flatMap fun i => (positions ns).map fun p => i :: p

/-- reshape a flat list of element values into nested tensors -/
def reshape : List Nat → List Val → Val
  | [], vs => vs.headD (.tuple [])
  | [_], vs => .tuple vs
  | n :: ns, vs =>
    let sz := ns.foldl (· * ·) 1
    .tuple ((List.range n).map fun i => reshape ns ((vs.drop (i * sz)).take sz))

def bindAll (ρ : Env) : List (String × Val) → Env
  | [] => ρ
  | (x, v) :: rest => bindAll (ρ.set x v) rest

def cmpNums (o : CmpOp) (x y : NV) : Bool :=
  match o with
  | .eq => Lang.nvCompare x y == some .eq
  | .ne => !(Lang.nvCompare x y == some .eq)
  | _ => cmpHolds o (Lang.nvCompare x y)

mutual
/-- ⟨ρ, P, e⟩ ⇓ v : environment, property set in force, expression -/
def eval : Nat → Env → Props → FExpr → M Val
  | 0, _, _, _ => .error .outOfFuel
  | fuel + 1, ρ, P, e =>
    match e with
    | .var x => match ρ.get? x with | some v => .ok v | none => .error .unbound
    | .num v => do
      let C ← P.toCtx
      let r ← opEval C .round [cvtReal v]
      .ok (.num r)
    | .const c => .ok (constVal c)
    | .op o args => do
      let vs ← evalList fuel ρ P args
      let ns ← vs.mapM asNum
      let C ← P.toCtx
      let r ← opEval C o (ns.map cvtReal)
      .ok (.num r)
    | .pred p a => do
      let v ← eval fuel ρ P a
      let C ← P.toCtx
      let b ← predEval p C (← asNum v)
      .ok (.bool b)
    | .cmp o args =>
      match args with
      | [] => .ok (.bool true)
      | a :: rest => do
        let av ← eval fuel ρ P a
        evalCmp fuel ρ P o (← asNum av) rest
    | .and es => evalAll fuel ρ P es
    | .or es => evalAny fuel ρ P es
    | .not a => do
      let v ← eval fuel ρ P a
      .ok (.bool (!(← asBool v)))
    | .ite c t f => do
      let v ← eval fuel ρ P c
      if ← asBool v then eval fuel ρ P t else eval fuel ρ P f
    | .let_ star binds body => do
      let ρ' ← evalBinds fuel star ρ ρ P binds
      eval fuel ρ' P body
    | .while_ star c binds body => do
      let ρ' ← evalBinds fuel star ρ ρ P (binds.map fun b => (b.1, b.2.1))
      whileLoop fuel star ρ' P c binds body
    | .for_ star dims binds body => do
      let ns ← evalDims fuel ρ P dims
      let ρ' ← evalBinds fuel star ρ ρ P (binds.map fun b => (b.1, b.2.1))
      forLoop fuel star ρ' P (dims.map (·.1)) (positions ns) binds body
    | .tensor dims body => do
      let ns ← evalDims fuel ρ P dims
      let vs ← tensorLoop fuel ρ P (dims.map (·.1)) (positions ns) body
      .ok (reshape ns vs)
    | .array es => do
      let vs ← evalList fuel ρ P es
      .ok (.tuple vs)
    | .ref a idx => do
      let av ← eval fuel ρ P a
      let ivs ← evalList fuel ρ P idx
      let ks ← ivs.mapM asIndex
      refIdx av ks
    | .size a k => do
      let av ← eval fuel ρ P a
      let kv ← eval fuel ρ P k
      let i ← asIndex kv
      let rec shapeAt : Val → Nat → M Nat
        | .tuple vs, 0 => .ok vs.length
        | .tuple (v :: _), j + 1 => shapeAt v j
        | _, _ => .error .indexError
      let n ← shapeAt av i
      .ok (.num (.q (n : Int) 1))
    | .dim a => do
      let av ← eval fuel ρ P a
      let rec rank : Nat → Val → Nat
        | 0, _ => 0
        | f + 1, .tuple (v :: _) => rank f v + 1
        | _ + 1, .tuple [] => 1
        | _ + 1, _ => 0
      .ok (.num (.q (rank fuel av : Int) 1))
    | .ann p body => eval fuel ρ (P.update p) body

def evalList : Nat → Env → Props → List FExpr → M (List Val)
  | 0, _, _, _ => .error .outOfFuel
  | _ + 1, _, _, [] => .ok []
  | fuel + 1, ρ, P, e :: es => do
    let v ← eval fuel ρ P e
    let vs ← evalList fuel ρ P es
    .ok (v :: vs)

/-- binding values: `let` evaluates every value in the OUTER environment `ρ₀`, `let*` in the
environment extended so far (`acc`); the result is `acc` extended with all bindings -/
def evalBinds : Nat → Bool → Env → Env → Props → List (String × FExpr) → M Env
  | 0, _, _, _, _, _ => .error .outOfFuel
  | _ + 1, _, _, acc, _, [] => .ok acc
  | fuel + 1, star, ρ₀, acc, P, (x, e) :: rest => do
    let v ← eval fuel (if star then acc else ρ₀) P e
    evalBinds fuel star ρ₀ (acc.set x v) P rest

def evalDims : Nat → Env → Props → List (String × FExpr) → M (List Nat)
  | 0, _, _, _ => .error .outOfFuel
  | _ + 1, _, _, [] => .ok []
  | fuel + 1, ρ, P, (_, e) :: rest => do
    let v ← eval fuel ρ P e
    let n ← asIndex v
    let ns ← evalDims fuel ρ P rest
    .ok (n :: ns)

def evalCmp : Nat → Env → Props → CmpOp → NV → List FExpr → M Val
  | 0, _, _, _, _, _ => .error .outOfFuel
  | _ + 1, _, _, _, _, [] => .ok (.bool true)
  | fuel + 1, ρ, P, o, a, b :: rest => do
    let bv ← eval fuel ρ P b
    let y ← asNum bv
    if cmpNums o a y then evalCmp fuel ρ P o y rest else .ok (.bool false)

def evalAll : Nat → Env → Props → List FExpr → M Val
  | 0, _, _, _ => .error .outOfFuel
  | _ + 1, _, _, [] => .ok (.bool true)
  | fuel + 1, ρ, P, e :: es => do
    let v ← eval fuel ρ P e
    if ← asBool v then evalAll fuel ρ P es else .ok (.bool false)

def evalAny : Nat → Env → Props → List FExpr → M Val
  | 0, _, _, _ => .error .outOfFuel
  | _ + 1, _, _, [] => .ok (.bool false)
  | fuel + 1, ρ, P, e :: es => do
    let v ← eval fuel ρ P e
    if ← asBool v then .ok (.bool true) else evalAny fuel ρ P es

def whileLoop : Nat → Bool → Env → Props → FExpr → List (String × FExpr × FExpr) → FExpr → M Val
  | 0, _, _, _, _, _, _ => .error .outOfFuel
  | fuel + 1, star, ρ, P, c, binds, body => do
    let cv ← eval fuel ρ P c
    if ← asBool cv then do
      let ρ' ← evalBinds fuel star ρ ρ P (binds.map fun b => (b.1, b.2.2))
      whileLoop fuel star ρ' P c binds body
    else eval fuel ρ P body

def forLoop : Nat → Bool → Env → Props → List String → List (List Nat) → List (String × FExpr × FExpr) → FExpr → M Val
  | 0, _, _, _, _, _, _, _ => .error .outOfFuel
  | fuel + 1, _, ρ, P, _, [], _, body => eval fuel ρ P body
  | fuel + 1, star, ρ, P, names, pos :: more, binds, body => do
    let ρi := bindAll ρ (names.zip (pos.map fun (i : Nat) => intVal (Int.ofNat i)))
    let ρ' ← evalBinds fuel star ρi ρi P (binds.map fun b => (b.1, b.2.2))
    forLoop fuel star ρ' P names more binds body

def tensorLoop : Nat → Env → Props → List String → List (List Nat) → FExpr → M (List Val)
  | 0, _, _, _, _, _ => .error .outOfFuel
  | _ + 1, _, _, _, [], _ => .ok []
  | fuel + 1, ρ, P, names, pos :: more, body => do
    let ρi := bindAll ρ (names.zip (pos.map fun (i : Nat) => intVal (Int.ofNat i)))
    let v ← eval fuel ρi P body
    let vs ← tensorLoop fuel ρ P names more body
    .ok (v :: vs)
end

/-- evaluate a core on argument values (arguments are bound as given — the reference
interpreter rounds them to the core's own properties first; the harness passes representable values) -/
def evalCore (fuel : Nat) (core : FCore) (args : List Val) : M Val :=
  if core.params.length != args.length then .error .typeError
  else eval fuel (bindAll [] (core.params.zip args)) core.props core.body

end Fpy.C12
