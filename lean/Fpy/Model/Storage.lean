/-
C11 — the decision logic of the C++ backend, as the code is written today.

* `fpy2/backend/cpp/storage.py`: the storage ladder `_LADDER`, `choose_storage_scalar`,
  `scalar_fits_in`, `scalar_sup`;
* `fpy2/backend/cpp/target.py` (`make_op_table`) + `ops.CppOp.matches` + phases (1) and (2) of
  `CppEmitter._dispatch`: which machine operation a primitive node is lowered to, given the
  storages of its operands and the active rounding context.

Machine types are given as value sets `values T : FV → Prop`, written from the C++ / IEEE-754
definitions (an `intN_t` holds the integers of its range and has no negative zero; a `float` is
`±m·2^e` with `m < 2^24`, `-149 ≤ e ≤ 104`, or an infinity or a NaN).

Core Lean only.  (`Fpy.Spec.AbsFmt` is core Lean as well; it is imported for `RF.sc`.)
-/
import Fpy.Spec.AbsFmt
import Fpy.Model.Num.Engine
namespace Fpy.C11
open Fpy

/-- `CppScalar` -/
inductive MachTy
  | bool | u8 | s8 | u16 | s16 | u32 | s32 | f32 | u64 | s64 | f64
deriving DecidableEq, Repr, Inhabited

namespace MachTy

def name : MachTy → String
  | bool => "BOOL" | u8 => "U8" | s8 => "S8" | u16 => "U16" | s16 => "S16" | u32 => "U32" | s32 => "S32"
  | f32 => "F32" | u64 => "U64" | s64 => "S64" | f64 => "F64"

/-- `CppScalar.format()` -/
def cpp : MachTy → String
  | bool => "bool" | u8 => "uint8_t" | s8 => "int8_t" | u16 => "uint16_t" | s16 => "int16_t" | u32 => "uint32_t"
  | s32 => "int32_t" | f32 => "float" | u64 => "uint64_t" | s64 => "int64_t" | f64 => "double"

def isUnsigned : MachTy → Bool | u8 | u16 | u32 | u64 => true | _ => false

def isFloat : MachTy → Bool | f32 | f64 => true | _ => false
def isInteger : MachTy → Bool | bool | f32 | f64 => false | _ => true

end MachTy

/-! ### the ladder -/

/-- `AbstractFormat.from_format(UINTn.format())` = `A(inf, 0, 2^n - 1, 0)`, no special values -/
def uintFmt (n : Nat) : AbsFmt :=
  { prec := none, exp := some 0, pos := .fin ⟨false, 0, 2 ^ n - 1⟩, neg := .fin ⟨false, 0, 0⟩ }

/-- `AbstractFormat.from_format(SINTn.format())` = `A(inf, 0, 2^(n-1) - 1, -2^(n-1))` -/
def sintFmt (n : Nat) : AbsFmt :=
  { prec := none, exp := some 0, pos := .fin ⟨false, 0, 2 ^ (n - 1) - 1⟩, neg := .fin ⟨true, 0, 2 ^ (n - 1)⟩ }

/-- `AbstractFormat.from_format(IEEE(es, nbits).format())` with `p` digits, least exponent `emin - p + 1 = expmin`
and largest quantum exponent `emaxq`: `A(p, expmin, ±(2^p - 1)·2^emaxq)` with both infinities, NaN and `-0` -/
def ieeeFmt (p : Nat) (expmin emaxq : Int) : AbsFmt :=
  { prec := some p, exp := some expmin, pos := .fin ⟨false, emaxq, 2 ^ p - 1⟩, neg := .fin ⟨true, emaxq, 2 ^ p - 1⟩,
    posInf := true, negInf := true, nan := true, negZero := true }

/-- the abstract format paired with a ladder rung (`_LADDER_LOOKUP`); `BOOL` is not on the ladder -/
def ladderFmt : MachTy → Option AbsFmt
  | .bool => none
  | .u8 => some (uintFmt 8) | .s8 => some (sintFmt 8)
  | .u16 => some (uintFmt 16) | .s16 => some (sintFmt 16)
  | .u32 => some (uintFmt 32) | .s32 => some (sintFmt 32)
  | .f32 => some (ieeeFmt 24 (-149) 104)
  | .u64 => some (uintFmt 64) | .s64 => some (sintFmt 64)
  | .f64 => some (ieeeFmt 53 (-1074) 971)

/-- `_LADDER`, smallest first -/
def ladder : List MachTy := [.u8, .s8, .u16, .s16, .u32, .s32, .f32, .u64, .s64, .f64]

/-- `af <= ladder_af` for the rung `T` -/
def fitsRung (a : AbsFmt) (T : MachTy) : Bool :=
  match ladderFmt T with
  | some l => a.le l
  | none => false

/-- the linear search of `choose_storage_scalar`: the first rung whose format contains `af` -/
def chooseLadder (a : AbsFmt) : Option MachTy := ladder.find? (fitsRung a)

/-- what `choose_storage_scalar` is handed, after the `isinstance` tests and `_to_abstract` -/
inductive Bound
  | none                                   -- `None`: a non-numeric bound (a comparison)
  | real                                   -- `REAL_FORMAT`
  | other                                  -- not an `AbstractableFormat | SetFormat`, or `_to_abstract` gave `None`
  | bottom                                 -- `is_bottom(bound)`: the empty `SetFormat`
  | fmt (a : AbsFmt) (mpFixed : Option Int) -- `_to_abstract(bound)`; `some expmin` when `bound` is an `MPFixedFormat`
deriving Repr, Inhabited

/-- the fallback of `choose_storage_scalar` for an unbounded integer format: `int64_t`, ignoring
the magnitude -/
def fallbackS64 (a : AbsFmt) (mpFixed : Option Int) : Bool :=
  match mpFixed with
  | some expmin => decide (0 ≤ expmin) && a.specialsContainedIn (sintFmt 64)
  | none => false

/-- `choose_storage_scalar`; `none` = `StorageSelectionError` -/
def chooseStorageScalar : Bound → Option MachTy
  | .none => some .bool
  | .real => Option.none
  | .other => Option.none
  | .bottom => some .u8
  | .fmt a mp =>
    match chooseLadder a with
    | some T => some T
    | Option.none => if fallbackS64 a mp then some .s64 else Option.none

/-- `scalar_fits_in(a, b)` -/
def scalarFitsIn (a b : MachTy) : Bool :=
  match ladderFmt a, ladderFmt b with
  | some fa, some fb => fa.le fb
  | _, _ => a == b

/-- `scalar_sup(scalars)` for a non-empty list without `BOOL`: the first rung, from the largest
index among the inputs upward, that contains every input; `none` = `StorageSelectionError` -/
def scalarSup (ts : List MachTy) : Option MachTy :=
  if ts.any (· == .bool) then (if ts.all (· == .bool) then some .bool else none)
  else
    let idx (t : MachTy) : Nat := (ladder.findIdx? (· == t)).getD 0
    let mx := ts.foldl (fun m t => max m (idx t)) 0
    (ladder.drop mx).find? (fun T => ts.all (fun t => scalarFitsIn t T))

/-! ### machine types as value sets -/

/-- the finite value `x` is `±m·2^e` (magnitudes compared at the common scale `min x.exp e`) -/
def denotes (x : RF) (m : Nat) (e : Int) : Prop :=
  x.c * 2 ^ (x.exp - min x.exp e).toNat = m * 2 ^ (e - min x.exp e).toNat

/-- an integer type with range `[lo, hi]`: the integers of the range; zero is `+0` only -/
def intValues (lo hi : Int) : FV → Prop
  | .fin x => (x.c = 0 → x.s = false) ∧
      ∃ m : Nat, denotes x m 0 ∧ lo ≤ (if x.s then -(m : Int) else m) ∧ (if x.s then -(m : Int) else m) ≤ hi
  | _ => False

/-- a binary IEEE-754 type with `p` digits and quantum exponents `expmin … emaxq`:
zeros of both signs, `±m·2^e` with `m < 2^p`, infinities, NaN -/
def floatValues (p : Nat) (expmin emaxq : Int) : FV → Prop
  | .fin x => x.c = 0 ∨ ∃ (m : Nat) (e : Int), m < 2 ^ p ∧ expmin ≤ e ∧ e ≤ emaxq ∧ denotes x m e
  | _ => True

/-- the values a machine type holds -/
def values : MachTy → FV → Prop
  | .bool => fun _ => False
  | .u8 => intValues 0 (2 ^ 8 - 1) | .s8 => intValues (-(2 ^ 7)) (2 ^ 7 - 1)
  | .u16 => intValues 0 (2 ^ 16 - 1) | .s16 => intValues (-(2 ^ 15)) (2 ^ 15 - 1)
  | .u32 => intValues 0 (2 ^ 32 - 1) | .s32 => intValues (-(2 ^ 31)) (2 ^ 31 - 1)
  | .u64 => intValues 0 (2 ^ 64 - 1) | .s64 => intValues (-(2 ^ 63)) (2 ^ 63 - 1)
  | .f32 => floatValues 24 (-149) 104
  | .f64 => floatValues 53 (-1074) 971

/-- two `Float`s are the same machine value: same class, same sign, same number
(a NaN is a NaN: payload and sign are not part of the contract) -/
def sameValue : FV → FV → Prop
  | .fin x, .fin y => x.s = y.s ∧ x.eqV y
  | .inf s, .inf t => s = t
  | .nan _, .nan _ => True
  | _, _ => False

/-! ### the op table (`target.make_op_table`) and `CppEmitter._dispatch` -/

/-- the four `fesetround` modes (`_FP_RMS`) -/
inductive HwRM | rne | rtz | rtp | rtn
deriving DecidableEq, Repr, Inhabited

def HwRM.toRM : HwRM → RM | .rne => .rne | .rtz => .rtz | .rtp => .rtp | .rtn => .rtn

/-- `_NATIVE_CTXS`: the contexts the table has signatures for -/
inductive NativeCtx
  | fp (dbl : Bool) (rm : HwRM)      -- `IEEEContext(8, 32, rm)` / `IEEEContext(11, 64, rm)`
  | sint (n : Nat)                   -- `SINT8/16/32/64` (n = 8, 16, 32, 64)
  | uint (n : Nat)                   -- `UINT8/16/32/64`
  | integer                          -- `INTEGER`
deriving DecidableEq, Repr, Inhabited

def fpCtxs : List NativeCtx :=
  [false, true].flatMap fun d => [HwRM.rne, .rtz, .rtp, .rtn].map fun r => NativeCtx.fp d r
def intCtxs : List NativeCtx :=
  [.sint 8, .sint 16, .sint 32, .sint 64, .uint 8, .uint 16, .uint 32, .uint 64, .integer]
def allCtxs : List NativeCtx := fpCtxs ++ intCtxs

/-- `ctx.format()` lifted by `_to_abstract`, with the `MPFixedFormat` marker -/
def NativeCtx.bound : NativeCtx → Bound
  | .fp false _ => .fmt (ieeeFmt 24 (-149) 104) none
  | .fp true _ => .fmt (ieeeFmt 53 (-1074) 971) none
  | .sint n => .fmt (sintFmt n) none
  | .uint n => .fmt (uintFmt n) none
  | .integer => .fmt { prec := none, exp := some 0, pos := .inf false, neg := .inf true } (some 0)

/-- `_ty_of(ctx) = choose_storage_scalar(ctx.format())` -/
def NativeCtx.ty (c : NativeCtx) : Option MachTy := chooseStorageScalar c.bound

/-- the rounding context of the interpreter (`Fpy.Ctx`) a native context denotes
(`k = some 0`: `num_randbits = 0`, no stochastic rounding) -/
def NativeCtx.toCtx : NativeCtx → Ctx
  | .fp dbl rm => .efloat { es := if dbl then 11 else 8, nbits := if dbl then 64 else 32, inf := true, kind := .ieee, eoff := 0,
                            rm := rm.toRM, ov := .overflow, k := some 0, nanValue := none, infValue := none }
  | .sint n => Ctx.fixed true 0 n .rtz .wrap (some 0) none none
  | .uint n => Ctx.fixed false 0 n .rtz .wrap (some 0) none none
  | .integer => .mpfix (-1) .rtz (some 0) false { enableNan := false, enableInf := false }

/-- the primitive nodes the table is modelled for -/
inductive Node | add | sub | mul | div | neg | abs | sqrt | fma
deriving DecidableEq, Repr, Inhabited

def Node.toOp : Node → Op
  | .add => .add | .sub => .sub | .mul => .mul | .div => .div | .neg => .neg | .abs => .fabs | .sqrt => .sqrt | .fma => .fma

def Node.arity : Node → Nat
  | .neg | .abs | .sqrt => 1 | .fma => 3 | _ => 2

/-- one `CppOp`: C++ spelling, input slots, the context its output is correct under -/
structure Sig where
  name : String
  inTys : List MachTy
  outCtx : NativeCtx
deriving DecidableEq, Repr

/-- same-context signatures, one per context, every slot at `_ty_of(ctx)`; the C++ spelling may depend
on that type -/
def sameSigsBy (arity : Nat) (nm : MachTy → String) (cs : List NativeCtx) : List Sig :=
  cs.filterMap fun c => c.ty.map fun t => { name := nm t, inTys := List.replicate arity t, outCtx := c }

/-- same-context signatures (`_fp_unary`, `_fp_binary`, `_fp_ternary`, and the comprehensions of
`_make_unary_table` / `_make_binary_table`): one spelling for every context -/
def sameSigs (arity : Nat) (nm : String) (cs : List NativeCtx) : List Sig := sameSigsBy arity (fun _ => nm) cs

/-- `_int_abs`: `std::abs` for a signed type; an unsigned type has no `std::abs` overload (the call is
ambiguous for `uint32_t`/`uint64_t`) and is its own absolute value: the identity conversion -/
def intAbsName (t : MachTy) : String := if t.isUnsigned then "static_cast<" ++ t.cpp ++ ">" else "std::abs"

/-- the signatures `make_op_table()` lists for a node -/
def sigs (nd : Node) : List Sig :=
  match nd with
  | .add => sameSigs nd.arity "+" allCtxs | .sub => sameSigs nd.arity "-" allCtxs
  | .mul => sameSigs nd.arity "*" allCtxs | .div => sameSigs nd.arity "/" allCtxs
  | .neg => sameSigs nd.arity "-" allCtxs
  | .abs => sameSigs nd.arity "std::fabs" fpCtxs ++ sameSigsBy nd.arity intAbsName intCtxs
  | .sqrt => sameSigs nd.arity "std::sqrt" fpCtxs
  | .fma => sameSigs nd.arity "std::fma" fpCtxs

/-- `CppOp.matches(in_tys, active_ctx)` -/
def Sig.matchesDirect (s : Sig) (tys : List MachTy) (active : NativeCtx) : Bool :=
  s.outCtx == active && s.inTys == tys

/-- phases (1) and (2) of `_dispatch` for a native active context: a direct match, else the
all-same-type signature of the active context provided every operand storage fits in its storage
(`_maybe_cast` refuses a lossy conversion; the value-level escape `bound_fits_in_scalar` and phase
(3), widening under `REAL`, are not modelled).  `none` = `CppEmitError`. -/
def dispatch (nd : Node) (tys : List MachTy) (active : NativeCtx) : Option Sig :=
  match (sigs nd).find? (fun s => s.matchesDirect tys active) with
  | some s => some s
  | none =>
    match active.ty with
    | none => none
    | some target =>
      match (sigs nd).find? (fun s => s.inTys == List.replicate tys.length target && s.outCtx == active) with
      | some s => if tys.all (fun t => t == target || scalarFitsIn t target) then some s else none
      | none => none

end Fpy.C11
