/-
Model of the value-class lattice and the pure transfer functions of
`fpy2/analysis/value_class.py` (C13, layer 1).

`ValueClass` is an `enum.Flag` over the four atoms NAN = 1, INF = 2, ZERO = 4,
FINITE = 8 (finite and non-zero); a flag value is a set of atoms, `|` joins, `&` meets,
the empty flag is bottom and is falsy.  Here a flag is a record of four Booleans.

Modelled, arm by arm as written: `class_of`, `representable_classes` / `_rounded_class`
(the three probes NaN, +Inf, −Inf through the context's rounding), `_map`, the tables `_LOGB`
and `_POW_POS_BASE`, `_exact_add`, `_exact_mul`, the Min/Max join, `_rounded`, and the
refinements of `_implied` / `_implied_compare` for one tested operand.
Core Lean only.
-/
import Fpy.Model.Num.Engine
namespace Fpy.C13
open Fpy

/-- the four atoms -/
inductive Cls | nan | inf | zero | fin
deriving DecidableEq, Repr, Inhabited

/-- a `ValueClass` flag value: which atoms are in the set -/
structure VC where
  nan : Bool
  inf : Bool
  zero : Bool
  fin : Bool
deriving DecidableEq, Repr, Inhabited

namespace VC

def bot : VC := ⟨false, false, false, false⟩
def top : VC := ⟨true, true, true, true⟩
def NAN : VC := ⟨true, false, false, false⟩
def INF : VC := ⟨false, true, false, false⟩
def ZERO : VC := ⟨false, false, true, false⟩
def FINITE : VC := ⟨false, false, false, true⟩

/-- `a | b` -/
def join (a b : VC) : VC := ⟨a.nan || b.nan, a.inf || b.inf, a.zero || b.zero, a.fin || b.fin⟩
/-- `a & b` -/
def meet (a b : VC) : VC := ⟨a.nan && b.nan, a.inf && b.inf, a.zero && b.zero, a.fin && b.fin⟩
/-- truthiness of a flag: `bool(a)` is `a != 0` -/
def truthy (a : VC) : Bool := a.nan || a.inf || a.zero || a.fin
/-- `atom in a` -/
def has (a : VC) : Cls → Bool
  | .nan => a.nan | .inf => a.inf | .zero => a.zero | .fin => a.fin
/-- the flag with one atom -/
def single : Cls → VC
  | .nan => NAN | .inf => INF | .zero => ZERO | .fin => FINITE
/-- `a ⊆ b` -/
def le (a b : VC) : Bool := (!a.nan || b.nan) && (!a.inf || b.inf) && (!a.zero || b.zero) && (!a.fin || b.fin)

/-- the integer value of the flag (NAN = 1, INF = 2, ZERO = 4, FINITE = 8) -/
def toBits (a : VC) : Nat :=
  (if a.nan then 1 else 0) + (if a.inf then 2 else 0) + (if a.zero then 4 else 0) + (if a.fin then 8 else 0)
def ofBits (n : Nat) : VC := ⟨n % 2 == 1, n / 2 % 2 == 1, n / 4 % 2 == 1, n / 8 % 2 == 1⟩

instance : OrOp VC := ⟨join⟩
instance : AndOp VC := ⟨meet⟩

end VC

open VC

/-- `class_of(x)` for a `Float` -/
def classOf : FV → Cls
  | .nan _ => .nan
  | .inf _ => .inf
  | .fin x => if x.c == 0 then .zero else .fin

/-- the class of an interpreter value: a (non-dyadic) `Fraction` is finite; zero iff its numerator is -/
def classOfNV : NV → Cls
  | .fv v => classOf v
  | .q n _ => if n == 0 then .zero else .fin

/-- concretisation: the values whose class is in the set -/
def γ (a : VC) (v : FV) : Prop := a.has (classOf v) = true
def γNV (a : VC) (v : NV) : Prop := a.has (classOfNV v) = true

/-! ### Rounding -/

/-- `_rounded_class(ctx, x)`: the class of `ctx.round(x)`, bottom where the context raises -/
def roundedClass (C : Ctx) (x : FV) : VC :=
  match C.roundAtCore x none false 0 with
  | .ok r => single (classOf r.v)
  | .error _ => bot

/-- `representable_classes(ctx)`: ZERO | FINITE, plus what the probes NaN, +Inf, −Inf round to -/
def representableClasses (C : Ctx) : VC :=
  (((ZERO ||| FINITE) ||| roundedClass C (.nan false)) ||| roundedClass C (.inf false)) ||| roundedClass C (.inf true)

/-- `_rounded(e, exact)`: `none` = no scope / symbolic context (top); `REAL` keeps the exact class;
any other concrete context gives the classes it represents -/
def rounded (C : Option Ctx) (exact : VC) : VC :=
  match C with
  | none => top
  | some .real => exact
  | some C => representableClasses C

/-! ### Transfer functions of exact results -/

/-- `_map(table, a)` for a table given as a function on atoms -/
def mapTable (t : Cls → VC) (a : VC) : VC :=
  (((if (NAN &&& a).truthy then t .nan else bot) |||
    (if (INF &&& a).truthy then t .inf else bot)) |||
    (if (ZERO &&& a).truthy then t .zero else bot)) |||
    (if (FINITE &&& a).truthy then t .fin else bot)

/-- `_LOGB` -/
def logbTable : Cls → VC
  | .nan => NAN | .inf => INF | .zero => INF | .fin => ZERO ||| FINITE

/-- `_POW_POS_BASE` -/
def powPosBaseTable : Cls → VC
  | .nan => NAN | .inf => INF ||| ZERO | .zero => FINITE | .fin => FINITE

/-- `_exact_add(a, b)` (also used for subtraction) -/
def exactAdd (a b : VC) : VC :=
  if !(a.truthy && b.truthy) then bot else
  let out := bot
  let out := if ((a ||| b) &&& NAN).truthy then out ||| NAN else out
  let out := if ((a ||| b) &&& INF).truthy then out ||| INF else out
  let out := if (a &&& INF).truthy && (b &&& INF).truthy then out ||| NAN else out
  let out := if (a &&& ZERO).truthy && (b &&& ZERO).truthy then out ||| ZERO else out
  let out := if ((a &&& ZERO).truthy && (b &&& FINITE).truthy) || ((a &&& FINITE).truthy && (b &&& ZERO).truthy)
             then out ||| FINITE else out
  let out := if (a &&& FINITE).truthy && (b &&& FINITE).truthy then out ||| (ZERO ||| FINITE) else out
  out

/-- one pass of the `for x, y in ((a, b), (b, a))` loop of `_exact_mul` -/
def exactMulPass (x y out : VC) : VC :=
  let out := if (x &&& INF).truthy && (y &&& (INF ||| FINITE)).truthy then out ||| INF else out
  let out := if (x &&& INF).truthy && (y &&& ZERO).truthy then out ||| NAN else out
  let out := if (x &&& ZERO).truthy && (y &&& (ZERO ||| FINITE)).truthy then out ||| ZERO else out
  out

/-- `_exact_mul(a, b)` -/
def exactMul (a b : VC) : VC :=
  if !(a.truthy && b.truthy) then bot else
  let out := bot
  let out := if ((a ||| b) &&& NAN).truthy then out ||| NAN else out
  let out := exactMulPass a b out
  let out := exactMulPass b a out
  let out := if (a &&& FINITE).truthy && (b &&& FINITE).truthy then out ||| FINITE else out
  out

/-- `Min` / `Max`: the join of the operands' classes (`out = _BOT; for a in args: out |= a`) -/
def minMax (args : List VC) : VC := args.foldl (· ||| ·) bot

/-! ### The operations being abstracted -/

/-- `ops.logb` before the final rounding: the normalised exponent `e` of a finite non-zero value,
+Inf for an infinity, NaN for a NaN, −Inf for a zero -/
def logbFV : FV → FV
  | .fin x => if x.c != 0 then .fin (RF.ofInt x.e) else .inf true
  | .inf _ => .inf false
  | .nan _ => .nan false

/-- `_unchecked_min` / `_unchecked_max` return one of the list's elements (specification used by
the Min/Max rule): a selection function is any `sel` with `sel vs ∈ vs` -/
def IsSelection (sel : List NV → NV) : Prop := ∀ vs, vs ≠ [] → sel vs ∈ vs

/-- `_eval_sum(val, ctx)` of the interpreter, as written: an empty list gives an exact zero, otherwise
the FIRST element is the initial accumulator and each further element is added under the context
(`addC`) — so a one-element list is returned as it is, unrounded. -/
def evalSum (addC : FV → FV → Except Err FV) : List FV → Except Err FV
  | [] => .ok (.fin ⟨false, 0, 0⟩)
  | x :: xs => xs.foldlM addC x

/-- the `Sum()` case of `_visit_unaryop`: the result need not be a value the context represents
(see `evalSum`), so the rule answers the top class whatever the context -/
def sumRule (_C : Option Ctx) (_a : VC) : VC := top

/-! ### Branch refinement (`_implied`, `_implied_compare`) for one tested operand -/

/-- the class tests -/
inductive Pred | isnan | isinf | isfinite | isnormal
deriving DecidableEq, Repr

/-- what `pred(x)` being `truth` implies for `x`; `none` = no refinement -/
def impliedPred (p : Pred) (truth : Bool) : Option VC :=
  match p with
  | .isnan => some (if truth then NAN else (INF ||| ZERO) ||| FINITE)
  | .isinf => some (if truth then INF else (NAN ||| ZERO) ||| FINITE)
  | .isfinite => some (if truth then ZERO ||| FINITE else NAN ||| INF)
  | .isnormal => if truth then some FINITE else none

inductive CmpOp | lt | le | ge | gt | eq | ne
deriving DecidableEq, Repr

/-- the other operand as `_literal_value` sees it: not a literal, a literal equal to zero,
a non-zero literal -/
inductive Lit | notLit | zero | nonzero
deriving DecidableEq, Repr

/-- one link `x op y` that HOLDS, seen from either operand (`_both`); `other` describes the
operand on the other side.  `none` = nothing appended to `out` -/
def impliedLinkTrue (op : CmpOp) (other : Lit) : Option VC :=
  match op with
  | .ne => if other == .zero then some ((NAN ||| INF) ||| FINITE) else none
  | .eq =>
    match other with
    | .notLit => some ((INF ||| ZERO) ||| FINITE)
    | .zero => some ZERO
    | .nonzero => some FINITE
  | _ => some ((INF ||| ZERO) ||| FINITE)

/-- a single comparison `x op y` that FAILS: `not (a != b)` is `a == b`; a failed `==` against a
zero literal rules out a zero; anything else says nothing -/
def impliedLinkFalse (op : CmpOp) (other : Lit) : Option VC :=
  match op with
  | .ne => impliedLinkTrue .eq other
  | .eq => if other == .zero then some ((NAN ||| INF) ||| FINITE) else none
  | _ => none

/-- the interpreter's comparison of two numbers: unordered (a NaN) makes every operator but
`!=` false -/
def cmpHolds (op : CmpOp) (x y : NV) : Bool :=
  match nvCompare x y with
  | none => op == .ne
  | some o =>
    match op with
    | .lt => o == .lt | .le => o != .gt | .ge => o != .lt | .gt => o == .gt
    | .eq => o == .eq | .ne => o != .eq

/-- how a literal (a finite rational constant) looks to `_literal_value` -/
def litOf (y : NV) : Lit := if nvIsZero y then .zero else .nonzero

/-- mirror an operator (`y op' x` is `x op y`) -/
def CmpOp.flip : CmpOp → CmpOp
  | .lt => .gt | .le => .ge | .ge => .le | .gt => .lt | .eq => .eq | .ne => .ne

/-- `_refined`: `out[d] = out.get(d, TOP) & cls` -/
def refine (mask : VC) (cls : Option VC) : VC :=
  match cls with
  | none => mask
  | some c => mask &&& c

end Fpy.C13
