/-
Skeleton language for property C15 (core Lean only).

Values are irrelevant: an expression is the tree of its name *uses* (in the order the
real visitors walk them) plus list comprehensions, which bind their targets locally.
A statement is one of the statement kinds the property lists.  Tuple patterns are
flattened to the list of names they bind (`_` binds nothing, so it is dropped).

Run-time semantics: the state is the list of currently bound names.  Branch outcomes and
trip counts are taken from an oracle (a list of naturals consumed in evaluation order):
  * `if` / one-armed `if`: one choice, `0` = condition false, anything else = true;
  * `while`: one choice per evaluation of the condition, `0` = leave the loop;
  * `for` and comprehensions: one choice after the iterable is evaluated = the trip count.
All functions are fuel-driven (`timeout` when the fuel or the oracle runs out) so that they
are total; a terminating run of the real program corresponds to any sufficiently large fuel.
-/
namespace Fpy.Skel

abbrev Name := Nat

inductive Expr where
  | lit : Expr
  | var (x : Name) : Expr
  /-- any operator / tuple / list / call of a builtin: evaluates `a`, then `b` -/
  | op (a b : Expr) : Expr
  /-- `[body for ts in it]` -/
  | comp (ts : List Name) (it body : Expr) : Expr
deriving Repr, Inhabited

mutual
inductive Stmt where
  | assign (ts : List Name) (e : Expr)
  | ite (c : Expr) (t e : Block)
  | if1 (c : Expr) (t : Block)
  | while (c : Expr) (b : Block)
  | for (ts : List Name) (it : Expr) (b : Block)
  /-- `with e as x: b` (`none`: no `as` clause) -/
  | with (e : Expr) (as : Option Name) (b : Block)
  | ret (e : Expr)
  | eff (e : Expr)
  | pass
inductive Block where
  | nil
  | cons (s : Stmt) (b : Block)
end

instance : Inhabited Stmt := ⟨.pass⟩
instance : Inhabited Block := ⟨.nil⟩

def Block.ofList : List Stmt → Block
  | [] => .nil
  | s :: ss => .cons s (Block.ofList ss)

/-- a function: named arguments and free variables, bound on entry, and a body.
MODEL ASSUMPTION (checked by the harness, not provable here): `args` lists a FREE variable only if the
body never binds that name at function level — Python makes any name that is assigned, a loop target or
a `with … as` target a LOCAL of the compiled function, unbound on entry whatever global / closure
variable / builtin of that name exists.  The decorator derives the set from `inspect.getclosurevars`
(which reads `co_names`/`co_freevars`, so a rebound name never enters it); harness/c15.py re-derives it
from CPython's own compilation of the rendered source and crosses every definedness pattern with
locals named like builtins, module globals, closure variables, the function itself and its parameter. -/
structure Func where
  args : List Name
  body : Block

/-- result of evaluating an expression -/
inductive ERes where
  | ok (ch : List Nat)
  | unbound (x : Name)
  | timeout
deriving Repr, DecidableEq

/-- result of running a statement or a block -/
inductive Outcome where
  /-- control reaches the end of the statement/block with bound names `σ` and the rest of the oracle -/
  | normal (σ : List Name) (ch : List Nat)
  | returned
  | unbound (x : Name)
  /-- only with `noZero = true`: the run lies in the excluded region
      (a `for` loop with at least one named target ran zero times) -/
  | excluded
  | timeout
deriving Repr, DecidableEq

def asList : Option Name → List Name
  | none => []
  | some x => [x]

mutual
/-- evaluate an expression: every use must be bound -/
def evalE : Nat → List Name → Expr → List Nat → ERes
  | 0, _, _, _ => .timeout
  | f + 1, σ, e, ch =>
    match e with
    | .lit => .ok ch
    | .var x => if x ∈ σ then .ok ch else .unbound x
    | .op a b =>
      match evalE f σ a ch with
      | .ok ch' => evalE f σ b ch'
      | r => r
    | .comp ts it body =>
      match evalE f σ it ch with
      | .ok (n :: ch') => evalN f (ts ++ σ) body n ch'
      | .ok [] => .timeout
      | r => r
/-- evaluate the element expression of a comprehension `n` times -/
def evalN : Nat → List Name → Expr → Nat → List Nat → ERes
  | 0, _, _, _, _ => .timeout
  | _ + 1, _, _, 0, ch => .ok ch
  | f + 1, σ, e, n + 1, ch =>
    match evalE f σ e ch with
    | .ok ch' => evalN f σ e n ch'
    | r => r
end

/-- lift an expression result into a statement outcome -/
@[inline] def onE (r : ERes) (k : List Nat → Outcome) : Outcome :=
  match r with
  | .ok ch => k ch
  | .unbound x => .unbound x
  | .timeout => .timeout

mutual
def exec (z : Bool) : Nat → List Name → Stmt → List Nat → Outcome
  | 0, _, _, _ => .timeout
  | f + 1, σ, s, ch =>
    match s with
    | .assign ts e => onE (evalE f σ e ch) fun ch' => .normal (ts ++ σ) ch'
    | .ite c t e =>
      onE (evalE f σ c ch) fun ch' =>
        match ch' with
        | [] => .timeout
        | k :: ch'' => if k = 0 then execB z f σ e ch'' else execB z f σ t ch''
    | .if1 c t =>
      onE (evalE f σ c ch) fun ch' =>
        match ch' with
        | [] => .timeout
        | k :: ch'' => if k = 0 then .normal σ ch'' else execB z f σ t ch''
    | .while c b =>
      onE (evalE f σ c ch) fun ch' =>
        match ch' with
        | [] => .timeout
        | k :: ch'' =>
          if k = 0 then .normal σ ch''
          else
            match execB z f σ b ch'' with
            | .normal σ' ch3 => exec z f σ' (.while c b) ch3
            | r => r
    | .for ts it b =>
      onE (evalE f σ it ch) fun ch' =>
        match ch' with
        | [] => .timeout
        | n :: ch'' =>
          if z && n == 0 && !ts.isEmpty then .excluded
          else execFor z f σ ts b n ch''
    | .with e as b =>
      onE (evalE f σ e ch) fun ch' => execB z f (asList as ++ σ) b ch'
    | .ret e => onE (evalE f σ e ch) fun _ => .returned
    | .eff e => onE (evalE f σ e ch) fun ch' => .normal σ ch'
    | .pass => .normal σ ch
/-- `n` iterations of a `for` body, binding the targets before each -/
def execFor (z : Bool) : Nat → List Name → List Name → Block → Nat → List Nat → Outcome
  | 0, _, _, _, _, _ => .timeout
  | _ + 1, σ, _, _, 0, ch => .normal σ ch
  | f + 1, σ, ts, b, n + 1, ch =>
    match execB z f (ts ++ σ) b ch with
    | .normal σ' ch' => execFor z f σ' ts b n ch'
    | r => r
def execB (z : Bool) : Nat → List Name → Block → List Nat → Outcome
  | 0, _, _, _ => .timeout
  | _ + 1, σ, .nil, ch => .normal σ ch
  | f + 1, σ, .cons s b, ch =>
    match exec z f σ s ch with
    | .normal σ' ch' => execB z f σ' b ch'
    | r => r
end

/-- outcome of calling a function -/
inductive Final where
  | returned
  /-- control reached the end of the body without a `return` -/
  | fellOff
  | unbound (x : Name)
  | excluded
  | timeout
deriving Repr, DecidableEq

/-- call `p` (Python semantics of the compiled body): arguments are bound on entry -/
def call (z : Bool) (fuel : Nat) (p : Func) (ch : List Nat) : Final :=
  match execB z fuel p.args p.body ch with
  | .normal _ _ => .fellOff
  | .returned => .returned
  | .unbound x => .unbound x
  | .excluded => .excluded
  | .timeout => .timeout

/-- the two failures property C15 forbids -/
def Final.bad : Final → Bool
  | .fellOff => true
  | .unbound _ => true
  | _ => false

end Fpy.Skel
