/-
Model of what the `@fpy` front end runs on a function (fpy2/decorator.py `_apply_fpy_decorator`):
  1. `SyntaxCheck.check`      (fpy2/analysis/syntax_check.py)  → `checkB`
  2. `Reachability.analyze(check_all_reachable, check_no_fallthrough)` (analysis/reachability.py) → `reachB`
and of the definition/use pre-pass the byte-code interpreter runs the first time an accepted
function is called (`BytecodeCompiler.__init__` → `DefineUse.analyze` → `ReachingDefs`,
fpy2/analysis/{define_use,reaching_defs}.py) → `duB`: it raises `KeyError(name)` when a use has no
reaching definition *in its own scoping discipline*, before any statement runs.

The rules follow the CURRENT code (after the repairs of findings F6 and F21), statement kind by
statement kind.  Switches keep the earlier rules available (`Mode.legacy`, `duB false`), for the
theorems that record why the repairs were needed:
  * `forLeak` (`false` today): before F6, `_visit_for` merged the body environment with the
    environment *in which the loop target was already bound*, so the target counted as defined after
    the loop.  Today it merges with the pre-loop environment.
  * `absorb` (`true` today): `_visit_return` yields an empty *terminated* environment which
    `_Env.merge` absorbs.  `false`: a `return` leaves the environment unchanged and nothing is ever
    terminated.
  * `ft` of `duS`/`duB` (`true` today): since F21, `_ReachingDefs._visit_if` continues with the
    definitions of the only branch that can fall through (`_falls_through`) when the other one always
    returns.  `false`: it intersected the two branches whatever they do.
Core Lean only.
-/
import Fpy.Model.Skel.Skel
namespace Fpy.Skel

/-- `_Env`: name ↦ (defined on all paths?), and the `terminated` flag.
The dict is modelled as a function (`none` = key absent). -/
structure Env where
  get : Name → Option Bool
  term : Bool

def Env.empty (term : Bool) : Env := ⟨fun _ => none, term⟩

/-- `_Env.extend`: keeps the `terminated` flag -/
def Env.extend (env : Env) (x : Name) : Env :=
  ⟨fun y => if y = x then some true else env.get y, env.term⟩

/-- `_visit_binding` on a (flattened) tuple pattern -/
def Env.extendAll (env : Env) : List Name → Env
  | [] => env
  | x :: xs => (env.extend x).extendAll xs

def Env.extendOpt (env : Env) : Option Name → Env
  | none => env
  | some x => env.extend x

/-- key-wise conjunction over the union of the keys (a missing key counts as `False`) -/
def mergeGet (a b : Name → Option Bool) : Name → Option Bool := fun k =>
  match a k, b k with
  | none, none => none
  | va, vb => some (va.getD false && vb.getD false)

/-- `_Env.merge` -/
def Env.merge (self other : Env) : Env :=
  if self.term && other.term then Env.empty true
  else if self.term then ⟨other.get, false⟩
  else if other.term then ⟨self.get, false⟩
  else ⟨mergeGet self.get other.get, false⟩

inductive Reject where
  /-- `FPySyntaxError('unbound variable `x`')` -/
  | unbound (x : Name)
  /-- `FPySyntaxError('variable `x` not defined along all paths')` -/
  | notAllPaths (x : Name)
  /-- `ReachabilityError`: unreachable statements -/
  | unreachable
  /-- `ReachabilityError`: not all paths have a return statement -/
  | fallthrough
deriving Repr, DecidableEq

structure Mode where
  forLeak : Bool
  absorb : Bool
deriving Repr, DecidableEq

/-- the code as it is (F6 repaired) -/
def Mode.real : Mode := ⟨false, true⟩
/-- the code before the repair of F6: loop targets leak -/
def Mode.legacy : Mode := ⟨true, true⟩
/-- loop targets do not leak and a returning branch lends nothing to its sibling
(the discipline of the pre-F21 definition/use pre-pass) -/
def Mode.strict : Mode := ⟨false, false⟩

/-- `_mark_use` -/
def useName (env : Env) (x : Name) : Except Reject Unit :=
  match env.get x with
  | none => .error (.unbound x)
  | some false => .error (.notAllPaths x)
  | some true => .ok ()

/-- `_visit_expr`: `_visit_var`, operators (children left to right), `_visit_list_comp` -/
def checkE (env : Env) : Expr → Except Reject Unit
  | .lit => .ok ()
  | .var x => useName env x
  | .op a b => do checkE env a; checkE env b
  | .comp ts it body => do checkE env it; checkE (env.extendAll ts) body

mutual
/-- `_visit_statement` -/
def checkS (m : Mode) (env : Env) : Stmt → Except Reject Env
  | .assign ts e => do            -- _visit_assign
      checkE env e
      pure (env.extendAll ts)
  | .if1 c t => do                -- _visit_if1
      checkE env c
      let ift ← checkB m env t
      pure (env.merge ift)
  | .ite c t e => do              -- _visit_if
      checkE env c
      let ift ← checkB m env t
      let iff ← checkB m env e
      pure (ift.merge iff)
  | .while c b => do              -- _visit_while: body first, condition in the merged environment
      let body ← checkB m env b
      let env' := env.merge body
      checkE env' c
      pure env'
  | .for ts it b => do            -- _visit_for
      checkE env it
      let env1 := env.extendAll ts
      let body ← checkB m env1 b
      pure ((if m.forLeak then env1 else env).merge body)
  | .with e as b => do            -- _visit_context: no merge
      checkE env e
      checkB m (env.extendOpt as) b
  | .ret e => do                  -- _visit_return
      checkE env e
      pure (if m.absorb then Env.empty true else env)
  | .eff e => do checkE env e; pure env
  | .pass => pure env
/-- `_visit_block` -/
def checkB (m : Mode) (env : Env) : Block → Except Reject Env
  | .nil => pure env
  | .cons s b => do
      let env' ← checkS m env s
      checkB m env' b
end

/-- `_visit_function`: free variables and named arguments are bound -/
def Env.init (args : List Name) : Env := (Env.empty false).extendAll args

/-! ### Reachability -/

mutual
/-- `(has_exit, every statement inside (and this one) has has_entry)` given `has_entry = inR` -/
def reachS (inR : Bool) : Stmt → Bool × Bool
  | .assign _ _ => (inR, inR)
  | .eff _ => (inR, inR)
  | .pass => (inR, inR)
  | .ret _ => (false, inR)
  | .if1 _ t => let r := reachB inR t; (inR || r.1, inR && r.2)
  | .ite _ t e => let r1 := reachB inR t; let r2 := reachB inR e; (r1.1 || r2.1, inR && r1.2 && r2.2)
  | .while _ b => let r := reachB inR b; (inR || r.1, inR && r.2)
  | .for _ _ b => let r := reachB inR b; (inR || r.1, inR && r.2)
  | .with _ _ b => let r := reachB inR b; (r.1, inR && r.2)
def reachB (inR : Bool) : Block → Bool × Bool
  | .nil => (inR, true)
  | .cons s b => let r1 := reachS inR s; let r2 := reachB r1.1 b; (r2.1, r1.2 && r2.2)
end

/-- `Reachability.analyze(check_all_reachable=True, check_no_fallthrough=True)` -/
def reachCheck (p : Func) : Except Reject Unit :=
  let r := reachB true p.body
  if !r.2 then .error .unreachable
  else if r.1 then .error .fallthrough
  else .ok ()

/-- the whole front end: `.ok ()` = the decorator returns a `Function` -/
def frontend (m : Mode) (p : Func) : Except Reject Unit := do
  let _ ← checkB m (Env.init p.args) p.body
  reachCheck p

def accepts (m : Mode) (p : Func) : Bool :=
  match frontend m p with
  | .ok _ => true
  | .error _ => false

/-! ### The interpreter's definition/use pre-pass -/

abbrev Scope := Name → Bool

def Scope.add (c : Scope) (x : Name) : Scope := fun y => y == x || c y
def Scope.addAll (c : Scope) : List Name → Scope
  | [] => c
  | x :: xs => (c.add x).addAll xs
def Scope.addOpt (c : Scope) : Option Name → Scope
  | none => c
  | some x => c.add x
def Scope.inter (a b : Scope) : Scope := fun y => a y && b y
def Scope.ofList (xs : List Name) : Scope := Scope.addAll (fun _ => false) xs

/-- `_DefineUseInstance._visit_var` / `_visit_list_comp`: `ctx[name]` raises `KeyError` -/
def duE (c : Scope) : Expr → Except Name Unit
  | .lit => .ok ()
  | .var x => if c x then .ok () else .error x
  | .op a b => do duE c a; duE c b
  | .comp ts it body => do duE c it; duE (c.addAll ts) body

mutual
/-- `_falls_through` (reaching_defs.py): can control reach the end of the statement / block? -/
def fallsS : Stmt → Bool
  | .ret _ => false
  | .ite _ t e => fallsB t || fallsB e
  | .with _ _ b => fallsB b
  | .assign _ _ => true
  | .if1 _ _ => true
  | .while _ _ => true
  | .for _ _ _ => true
  | .eff _ => true
  | .pass => true
def fallsB : Block → Bool
  | .nil => true
  | .cons s b => fallsS s && fallsB b
end

mutual
/-- keys of the `_ReachingDefs` context after the statement; uses are looked up in the
context that reaches the statement.  `ft`: `_visit_if` is fall-through aware (the code today). -/
def duS (ft : Bool) (c : Scope) : Stmt → Except Name Scope
  | .assign ts e => do duE c e; pure (c.addAll ts)
  | .if1 cnd t => do duE c cnd; let _ ← duB ft c t; pure c
  | .ite cnd t e => do
      duE c cnd
      let o1 ← duB ft c t
      let o2 ← duB ft c e
      pure (if ft && (fallsB t != fallsB e) then (if fallsB t then o1 else o2) else o1.inter o2)
  | .while cnd b => do duE c cnd; let _ ← duB ft c b; pure c
  | .for ts it b => do duE c it; let _ ← duB ft (c.addAll ts) b; pure c
  | .with e as b => do duE c e; duB ft (c.addOpt as) b
  | .ret e => do duE c e; pure c
  | .eff e => do duE c e; pure c
  | .pass => pure c
def duB (ft : Bool) (c : Scope) : Block → Except Name Scope
  | .nil => pure c
  | .cons s b => do let c' ← duS ft c s; duB ft c' b
end

/-- `.error x`: the first call raises `KeyError(x)` from `DefineUse.analyze` -/
def prepassWith (ft : Bool) (p : Func) : Except Name Unit :=
  match duB ft (Scope.ofList p.args) p.body with
  | .ok _ => .ok ()
  | .error x => .error x

/-- the pre-pass of the code as it is -/
def prepass (p : Func) : Except Name Unit := prepassWith true p
/-- the pre-pass before the repair of F21 -/
def prepassLegacy (p : Func) : Except Name Unit := prepassWith false p

/-- calling an accepted function through the byte-code interpreter: compile (pre-pass), then run -/
def runWith (ft : Bool) (z : Bool) (fuel : Nat) (p : Func) (ch : List Nat) : Final :=
  match prepassWith ft p with
  | .error x => .unbound x
  | .ok _ => call z fuel p ch

def run (z : Bool) (fuel : Nat) (p : Func) (ch : List Nat) : Final := runWith true z fuel p ch
def runLegacy (z : Bool) (fuel : Nat) (p : Func) (ch : List Nat) : Final := runWith false z fuel p ch

end Fpy.Skel
