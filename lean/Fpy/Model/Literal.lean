/-
Model of how a numeric constant in FPy source becomes a number (property C06).

* `fpy2/utils/fractions.py`: `_DECIMAL_PATTERN`, `_HEXNUM_PATTERN` (as hand-written
  matchers that accept exactly what `re.fullmatch` accepts), `_sci_to_fraction`,
  `decnum_to_fraction`, `hexnum_to_fraction`, `digits_to_fraction`.
* `fpy2/ast/fpyast.py`: `Decnum/Hexnum/Integer/Rational/Digits` with `as_rational`, `as_real`.
* `fpy2/frontend/parser.py`: `_parse_constant` (a Python `float` constant is re-stringified with
  `str(float)`: finding F5, not repaired), `_parse_unaryop` (negated-zero fold), `_parse_integer_arg`,
  `_parse_hexfloat/_rational/_digits`.
* CPython: the tokenizer's numeric literal (digit groups with `_` separators, `e`/`E`, radix
  prefixes), `float(literal)` = round-to-nearest-even to binary64 (modelled with `Ctx.round` of the
  IEEE(11,64) context), `str(float)` = shortest round-trip digits.
* `parseFloatRepaired`: what `_parse_constant` would do if it re-read the literal's text from the
  parsed source (the proposed repair of F5; not the current code).

Strings are `List Char` here (the `String` API wraps `toList`), so that the kernel can evaluate
the model on concrete spellings.  Core Lean only.
-/
import Fpy.Model.Num.Ctx
namespace Fpy.Lit
open Fpy

/-- error *kinds* raised by the real code on this path -/
inductive LErr | value | type | zeroDiv | parse | syntax
deriving DecidableEq, Repr, Inhabited

/-! ### characters -/

def decChars : List Char := ['0', '1', '2', '3', '4', '5', '6', '7', '8', '9']
def hexChars : List Char := decChars ++ ['a', 'b', 'c', 'd', 'e', 'f']

/-- `[0-9]` -/
def isDig (c : Char) : Bool := decChars.contains c
/-- `[0-9a-f]` -/
def isHex (c : Char) : Bool := hexChars.contains c

/-- digit value as CPython's `int(str, base)` computes it for `0-9a-f` -/
def digVal (c : Char) : Nat := if c.toNat ≤ 57 then c.toNat - 48 else c.toNat - 87

/-- `str.isspace()` (what `str.strip()` removes) -/
def isSpace (c : Char) : Bool :=
  let n := c.toNat
  (9 ≤ n && n ≤ 13) || (28 ≤ n && n ≤ 32) || n == 0x85 || n == 0xa0 || n == 0x1680 ||
  (0x2000 ≤ n && n ≤ 0x200a) || n == 0x2028 || n == 0x2029 || n == 0x202f || n == 0x205f || n == 0x3000

def lstrip (cs : List Char) : List Char := cs.dropWhile isSpace
def strip (cs : List Char) : List Char := ((lstrip cs).reverse.dropWhile isSpace).reverse

/-! ### `int(str, base)` -/

/-- `sys.get_int_max_str_digits()`: CPython refuses longer digit strings in non-power-of-two bases -/
def maxStrDigits : Nat := 4300

/-- `int(cs, base)` for a string of `[0-9a-f]` characters (no sign): Horner's rule.
Empty string: `ValueError`. More than 4300 digits in base 10: `ValueError`. -/
def pyInt (base : Nat) (cs : List Char) : Except LErr Nat :=
  if cs.isEmpty then .error .value
  else if base == 10 && cs.length > maxStrDigits then .error .value
  else .ok (cs.foldl (fun a c => a * base + digVal c) 0)

/-- `int(cs)` for `[-+]?[0-9]+` -/
def pySInt (cs : List Char) : Except LErr Int :=
  match cs with
  | '-' :: r => (pyInt 10 r).map (fun n => -(n : Int))
  | '+' :: r => (pyInt 10 r).map (fun n => (n : Int))
  | r => (pyInt 10 r).map (fun n => (n : Int))

/-! ### the two regular expressions -/

/-- capture groups 1, 2, 5 of `_DECIMAL_PATTERN` / `_HEXNUM_PATTERN` -/
structure Groups where
  sign : Option Char
  mant : List Char
  exp : Option (List Char)
deriving DecidableEq, Repr

/-- `([-+])?` -/
def matchSign : List Char → Option Char × List Char
  | '-' :: r => (some '-', r)
  | '+' :: r => (some '+', r)
  | r => (none, r)

/-- `(D+(\.D+)?|\.D+)` at the head of `cs`: the text of the group and what follows it -/
def matchMant (p : Char → Bool) (cs : List Char) : Option (List Char × List Char) :=
  let i := cs.takeWhile p
  let r := cs.dropWhile p
  if i.isEmpty then
    match r with
    | '.' :: r' =>
      let f := r'.takeWhile p
      if f.isEmpty then none else some ('.' :: f, r'.dropWhile p)
    | _ => none
  else
    match r with
    | '.' :: r' =>
      let f := r'.takeWhile p
      if f.isEmpty then some (i, r) else some (i ++ '.' :: f, r'.dropWhile p)
    | _ => some (i, r)

/-- `(E([-+]?[0-9]+))?` followed by the end of the string -/
def matchExp (expCh : Char) : List Char → Option (Option (List Char))
  | [] => some none
  | c :: r =>
    if c == expCh then
      let (sg, r1) := matchSign r
      let ds := r1.takeWhile isDig
      if ds.isEmpty then none
      else if (r1.dropWhile isDig).isEmpty then
        some (some (match sg with | some s => s :: ds | none => ds))
      else none
    else none

/-- `re.fullmatch(_DECIMAL_PATTERN, cs)` -/
def matchDec (cs : List Char) : Option Groups :=
  let (sg, r) := matchSign cs
  match matchMant isDig r with
  | none => none
  | some (m, r1) =>
    match matchExp 'e' r1 with
    | none => none
    | some e => some ⟨sg, m, e⟩

/-- `re.fullmatch(_HEXNUM_PATTERN, cs)` -/
def matchHex (cs : List Char) : Option Groups :=
  let (sg, r) := matchSign cs
  match r with
  | '0' :: 'x' :: r0 =>
    match matchMant isHex r0 with
    | none => none
    | some (m, r1) =>
      match matchExp 'p' r1 with
      | none => none
      | some e => some ⟨sg, m, e⟩
  | _ => none

/-! ### `_sci_to_fraction` and its callers -/

/-- `Fraction(b) ** e` for an integer base (`ZeroDivisionError` for `0 ** negative`) -/
def fracPow (b : Int) (e : Int) : Except LErr Rat :=
  if b == 0 && e < 0 then .error .zeroDiv else .ok ((b : Rat) ^ e)

/-- `_sci_to_fraction(s, i, f, e, base, b)` -/
def sciToFraction (s : Option Char) (i : List Char) (f : Option (List Char)) (e : Option (List Char))
    (base b : Nat) : Except LErr Rat := do
  let neg := s == some '-'
  let ipart ← pyInt base i
  let (fpart, efrac) ← (match f with
    | some f => (pyInt base f).map (fun n => (n, -(f.length : Int)))
    | none => .ok (0, (0 : Int)))
  let exp ← (match e with
    | some e => pySInt e
    | none => .ok 0)
  let mag : Rat := ((ipart : Rat) + (fpart : Rat) * ((base : Nat) : Rat) ^ efrac) * ((b : Nat) : Rat) ^ exp
  pure (if neg then -mag else mag)

/-- `mant.split('.')` when `'.' in mant` -/
def splitDot (mant : List Char) : List Char × Option (List Char) :=
  if mant.contains '.' then
    (mant.takeWhile (· != '.'), some ((mant.dropWhile (· != '.')).drop 1))
  else (mant, none)

/-- `decnum_to_fraction(s)` after `s.strip()` -/
def decnumCore (cs : List Char) : Except LErr Rat :=
  match matchDec cs with
  | none => .error .value
  | some g =>
    let (i0, f) := splitDot g.mant
    let i := if f.isSome && i0.isEmpty then ['0'] else i0
    sciToFraction g.sign i f g.exp 10 10

/-- `hexnum_to_fraction(s)` after `s.strip()` -/
def hexnumCore (cs : List Char) : Except LErr Rat :=
  match matchHex cs with
  | none => .error .value
  | some g =>
    let (i0, f) := splitDot g.mant
    let i := if f.isSome && i0.isEmpty then ['0'] else i0
    sciToFraction g.sign i f g.exp 16 2

def decnum (cs : List Char) : Except LErr Rat := decnumCore (strip cs)
def hexnum (cs : List Char) : Except LErr Rat := hexnumCore (strip cs)

/-- `digits_to_fraction(m, e, b)` on ints -/
def digitsToFraction (m e b : Int) : Except LErr Rat :=
  (fracPow b e).map (fun p => (m : Rat) * p)

/-- `Fraction(p, q)` -/
def rationalToFraction (p q : Int) : Except LErr Rat :=
  if q == 0 then .error .zeroDiv else .ok ((p : Rat) / (q : Rat))

/-! ### AST nodes, `as_rational`, `as_real` -/

inductive Node
  | integer (v : Int)
  | decnum (s : List Char)
  | hexnum (s : List Char)
  | rational (p q : Int)
  | digits (m e b : Int)
  | neg (a : Node)          -- a `Neg` operation (not a literal)
deriving DecidableEq, Repr, Inhabited

def Node.isRationalVal : Node → Bool
  | .neg _ => false
  | _ => true

/-- `RationalVal.as_rational()` -/
def Node.asRational : Node → Except LErr Rat
  | .integer v => .ok (v : Rat)
  | .decnum s => Lit.decnum s
  | .hexnum s => Lit.hexnum s
  | .rational p q => rationalToFraction p q
  | .digits m e b => digitsToFraction m e b
  | .neg _ => .error .type

/-- an exact real value with a signed zero: what `as_real()` returns -/
inductive LitVal
  | negZero
  | rat (r : Rat)
deriving DecidableEq, Repr, Inhabited

/-- `RationalVal.as_real()` (`Decnum`/`Hexnum` override it to keep a negative zero) -/
def Node.asReal (n : Node) : Except LErr LitVal :=
  match n with
  | .decnum s | .hexnum s => do
    let r ← n.asRational
    pure (if r == 0 && (lstrip s).head? == some '-' then .negZero else .rat r)
  | _ => n.asRational.map .rat

/-- value of a parsed constant expression under the real context: literals are lowered to
their `as_real()`; `Neg` under `REAL` negates exactly -/
def Node.evalReal : Node → Except LErr LitVal
  | .neg a => do
    match (← a.evalReal) with
    | .negZero => pure (.rat 0)
    | .rat r => pure (if r == 0 then .negZero else .rat (-r))
  | n => n.asReal

/-! ### binary64 and `repr(float)` -/

/-- the IEEE 754 binary64 context, round to nearest even, overflow to infinity -/
def fp64 : Ctx :=
  .efloat { es := 11, nbits := 64, inf := true, kind := .ieee, eoff := 0, rm := .rne, ov := .overflow,
            k := some 0, nanValue := none, infValue := none }

/-- `float(<decimal literal>)`: the exact rational of the spelling rounded once to binary64 -/
def toF64 (r : Rat) : FV :=
  match fp64.round (.frac r.num r.den) with
  | .ok res => res.v
  | .error _ => .nan false

def natDigitsAux : Nat → Nat → List Char → List Char
  | 0, _, acc => acc
  | fuel + 1, n, acc =>
    let acc := Char.ofNat (48 + n % 10) :: acc
    if n < 10 then acc else natDigitsAux fuel (n / 10) acc

/-- decimal digits of a natural number (`str(n)`) -/
def natDigits (n : Nat) : List Char := natDigitsAux (n.log2 + 1) n []

/-- `num/den ≥ 10^k` -/
def geP10 (num den : Nat) (k : Int) : Bool :=
  if k ≥ 0 then num ≥ den * 10 ^ k.toNat else num * 10 ^ (-k).toNat ≥ den

/-- the decimal point position `k` of a positive rational: `10^(k-1) ≤ num/den < 10^k` -/
def decPoint (num den : Nat) : Int :=
  let est : Int := (((bitLength num : Int) - (bitLength den : Int)) * 30103) / 100000
  -- the estimate is within 1 of the answer; walk to it
  let k := est - 2
  let k := if geP10 num den (k + 1) then k + 1 else k
  let k := if geP10 num den (k + 1) then k + 1 else k
  let k := if geP10 num den (k + 1) then k + 1 else k
  let k := if geP10 num den (k + 1) then k + 1 else k
  k + 1

def stripZerosAux : Nat → Nat → Nat
  | 0, n => n
  | fuel + 1, n => if n != 0 && n % 10 == 0 then stripZerosAux fuel (n / 10) else n

/-- one step of the shortest-digits search: the `n`-digit decimals just below and just above
`num/den`; the one that reads back as `x` (the nearer one if both do) -/
def shortestAt (x : RF) (num den : Nat) (k : Int) (n : Nat) : Option (Nat × Int) :=
  -- scaled = num/den * 10^(n-k)
  let sh : Int := (n : Int) - k
  let (a, b) : Nat × Nat := if sh ≥ 0 then (num * 10 ^ sh.toNat, den) else (num, den * 10 ^ (-sh).toNat)
  let lo := a / b
  let hi := lo + 1
  let back (d : Nat) : Bool :=
    let r : Rat := if sh ≥ 0 then (d : Rat) / ((10 ^ sh.toNat : Nat) : Rat) else ((d * 10 ^ (-sh).toNat : Nat) : Rat)
    match toF64 r with
    | .fin y => y.beqVal x
    | _ => false
  let okLo := lo != 0 && back lo
  let okHi := back hi
  -- distance of lo, hi to the value, in units of 1/b: a - lo*b, hi*b - a
  let pick : Option Nat :=
    if okLo && okHi then
      (if a - lo * b < hi * b - a then some lo
       else if a - lo * b > hi * b - a then some hi
       else some (if lo % 2 == 0 then lo else hi))
    else if okLo then some lo
    else if okHi then some hi
    else none
  pick.map (fun d => (d, k - n))

def shortestLoop (x : RF) (num den : Nat) (k : Int) : Nat → Nat → Option (Nat × Int)
  | 0, _ => none
  | fuel + 1, n =>
    match shortestAt x num den k n with
    | some r => some r
    | none => shortestLoop x num den k fuel (n + 1)

/-- shortest decimal `(D, e10)` with `D·10^e10` reading back as the positive binary64 number `x`
(David Gay's mode 0, which `repr(float)` uses) -/
def shortest (x : RF) : Nat × Int :=
  let (num, den) : Nat × Nat := if x.exp ≥ 0 then (x.c * 2 ^ x.exp.toNat, 1) else (x.c, 2 ^ (-x.exp).toNat)
  let k := decPoint num den
  match shortestLoop x num den k 17 1 with
  | some (d, e) =>
    let d' := stripZerosAux 20 d
    let z := (natDigits d).length - (natDigits d').length
    (d', e + z)
  | none => (0, 0)

def zeros (n : Nat) : List Char := List.replicate n '0'

/-- `repr(x)` / `str(x)` of a positive finite float (`float_repr_style == 'short'`, format code `'r'`) -/
def reprPos (x : RF) : List Char :=
  let (d, e10) := shortest x
  let ds := natDigits d
  let n := ds.length
  let decpt : Int := e10 + n
  if decpt ≤ -4 || decpt > 16 then
    let e := decpt - 1
    let ed := natDigits e.natAbs
    let ed := if ed.length < 2 then '0' :: ed else ed
    ds.take 1 ++ (if n > 1 then '.' :: ds.drop 1 else []) ++ 'e' :: (if e < 0 then '-' else '+') :: ed
  else if decpt ≤ 0 then '0' :: '.' :: zeros (-decpt).toNat ++ ds
  else if decpt ≥ n then ds ++ zeros (decpt.toNat - n) ++ ['.', '0']
  else ds.take decpt.toNat ++ '.' :: ds.drop decpt.toNat

/-- `str(v)` for a Python float -/
def reprFloat : FV → List Char
  | .nan _ => ['n', 'a', 'n']
  | .inf s => (if s then ['-'] else []) ++ ['i', 'n', 'f']
  | .fin x =>
    (if x.s then ['-'] else []) ++ (if x.c = 0 then ['0', '.', '0'] else reprPos { x with s := false })

/-! ### the Python tokenizer's numeric literal -/

/-- the `ast.Constant` of a numeric token.  For a float the digit groups are kept as written
(without the `_` separators): that is the text the front end re-reads. -/
inductive PyConst
  | int (n : Nat)
  | float (ip fp : List Char) (ex : Option (List Char))   -- exponent: optional sign, digits
  | imag
deriving DecidableEq, Repr, Inhabited

/-- `digit (["_"] digit)*` at the head: the digits without the underscores, and the rest.
`none` when an underscore is not followed by a digit. -/
def digitPartAux (p : Char → Bool) : Nat → List Char → List Char → Option (List Char × List Char)
  | 0, _, _ => none
  | fuel + 1, acc, cs =>
    match cs with
    | c :: r =>
      if p c then digitPartAux p fuel (c :: acc) r
      else if c == '_' && !acc.isEmpty then
        match r with
        | c' :: _ => if p c' then digitPartAux p fuel acc r else none
        | [] => none
      else some (acc.reverse, cs)
    | [] => some (acc.reverse, [])

def digitPart (p : Char → Bool) (cs : List Char) : Option (List Char × List Char) :=
  digitPartAux p (cs.length + 1) [] cs

def lower (c : Char) : Char := if 65 ≤ c.toNat && c.toNat ≤ 90 then Char.ofNat (c.toNat + 32) else c

/-- positional value of `[0-9a-f]*` in a base (no limits: the tokenizer's own conversion) -/
def horner (base : Nat) (cs : List Char) : Nat := cs.foldl (fun a c => a * base + digVal c) 0

/-- `0x…`, `0o…`, `0b…` integers: an underscore may follow the prefix -/
def prefixedInt (base : Nat) (p : Char → Bool) (cs : List Char) : Except LErr PyConst :=
  let cs := cs.map lower
  let cs := match cs with | '_' :: r => r | r => r
  match digitPart p cs with
  | some (ds, []) => if ds.isEmpty then .error .syntax else .ok (.int (horner base ds))
  | _ => .error .syntax

/-- `["." [digitpart]]`: was there a point, the fraction digits, the rest -/
def pyFraction (r1 : List Char) : Option (Bool × List Char × List Char) :=
  match r1 with
  | '.' :: r2 =>
    match digitPart isDig r2 with
    | none => none
    | some (fp, r3) => some (true, fp, r3)
  | _ => some (false, [], r1)

/-- `[("e"|"E") ["+"|"-"] digitpart]`: the exponent text (sign and digits), the rest -/
def pyExponent (r3 : List Char) : Option (Option (List Char) × List Char) :=
  match r3 with
  | c :: r4 =>
    if c == 'e' || c == 'E' then
      let (sg, r5) := matchSign r4
      match digitPart isDig r5 with
      | some (ed, r6) =>
        if ed.isEmpty then none
        else some (some (match sg with | some s => s :: ed | none => ed), r6)
      | none => none
    else some (none, r3)
  | [] => some (none, [])

/-- a decimal token: `decinteger | floatnumber | imagnumber` -/
def pyDecimal (cs : List Char) : Except LErr PyConst :=
  match digitPart isDig cs with
  | none => .error .syntax
  | some (ip, r1) =>
    match pyFraction r1 with
    | none => .error .syntax
    | some (dot, fp, r3) =>
      if ip.isEmpty && fp.isEmpty then .error .syntax else
      match pyExponent r3 with
      | none => .error .syntax
      | some (e, r6) =>
        match r6 with
        | [] =>
          if dot || e.isSome then .ok (.float ip fp e)
          else
            -- decinteger: no leading zeros unless the value is zero
            if ip.head? == some '0' && ip.any (· != '0') then .error .syntax
            else if ip.length > maxStrDigits then .error .syntax   -- "Exceeds the limit (4300 digits)"
            else .ok (.int (horner 10 ip))
        | [c] => if c == 'j' || c == 'J' then .ok .imag else .error .syntax
        | _ => .error .syntax

/-- a numeric literal token of Python source: its `ast.Constant` value.
(The decimal forms and the prefixed forms are disjoint: after a leading `0` a decimal token
continues with a digit, `_`, `.`, `e`, `E`, `j` or `J`, never with a radix letter.) -/
def pyNumber (cs : List Char) : Except LErr PyConst :=
  match pyDecimal cs with
  | .ok v => .ok v
  | .error e =>
    match cs with
    | '0' :: 'x' :: r | '0' :: 'X' :: r => prefixedInt 16 isHex r
    | '0' :: 'o' :: r | '0' :: 'O' :: r => prefixedInt 8 (fun c => isDig c && c != '8' && c != '9') r
    | '0' :: 'b' :: r | '0' :: 'B' :: r => prefixedInt 2 (fun c => c == '0' || c == '1') r
    | _ => .error e

/-! ### the FPy front end -/

/-- the exact rational a float token spells (digit groups without separators, exponent text) -/
def floatRat (ip fp : List Char) (ex : Option (List Char)) : Rat :=
  let m : Nat := horner 10 (ip ++ fp)
  let e : Int := match ex with
    | none => 0
    | some ('-' :: ds) => -(horner 10 ds : Int)
    | some ('+' :: ds) => (horner 10 ds : Int)
    | some ds => (horner 10 ds : Int)
  let sc : Int := e - fp.length
  if sc ≥ 0 then ((m * 10 ^ sc.toNat : Nat) : Rat) else (m : Rat) / ((10 ^ (-sc).toNat : Nat) : Rat)

/-- the Python `float` a float token compiles to: its spelling rounded once to binary64 -/
def floatValue (ip fp : List Char) (ex : Option (List Char)) : FV := toF64 (floatRat ip fp ex)

/-- `Parser._parse_constant` on a `float`: an `Integer` if the double is integral, else a
`Decnum` of `str(value)` -/
def parseFloatLegacy (v : FV) : Node :=
  match v with
  | .fin x =>
    match x.toInt? with
    | some i => .integer i
    | none => .decnum (reprFloat v)
  | _ => .decnum (reprFloat v)

/-- `Parser._parse_constant` on a numeric `ast.Constant` (current code) -/
def parseConstant : PyConst → Except LErr Node
  | .int n => .ok (.integer n)
  | .float ip fp ex => .ok (parseFloatLegacy (floatValue ip fp ex))
  | .imag => .error .parse

/-! #### the proposed repair of F5 (not the current code) -/

/-- the literal's text normalised to a `Decnum` spelling
(digits on both sides of the point, lowercase `e`) -/
def floatText (ip fp : List Char) (ex : Option (List Char)) : List Char :=
  (if ip.isEmpty then ['0'] else ip) ++ '.' :: (if fp.isEmpty then ['0'] else fp) ++
    (match ex with | some e => 'e' :: e | none => [])

def maxExponentDigits : Nat := 6

/-- `len(exp.lstrip('+-').lstrip('0'))` -/
def expDigits (e : List Char) : Nat :=
  ((e.dropWhile (fun c => c == '+' || c == '-')).dropWhile (· == '0')).length

/-- the repaired `_parse_constant` on a float token: re-read the text; the exponent may have at
most 6 significant digits; the value is that of the spelling (a `ValueError` of `int()`'s digit
limit becomes a parse error); an integral value is an `Integer`, any other a `Decnum` of the text -/
def parseFloatRepaired (ip fp : List Char) (ex : Option (List Char)) : Except LErr Node :=
  let text := floatText ip fp ex
  if expDigits (ex.getD []) > maxExponentDigits then .error .parse
  else match decnum text with
    | .error _ => .error .parse
    | .ok v => if v.den == 1 then .ok (.integer v.num) else .ok (.decnum text)

/-- source expressions that denote constants -/
inductive Src
  | num (spelling : List Char)       -- a numeric literal token
  | hexfloat (s : List Char)         -- `fp.hexfloat('<s>')`
  | rational (p q : Src)             -- `fp.rational(p, q)`
  | digits (m e b : Src)             -- `fp.digits(m, e, b)`
  | neg (a : Src)                    -- `-a`
  | pos (a : Src)                    -- `+a`
deriving Repr, Inhabited

def negZeroText : List Char := ['-', '0', '.', '0']

/-- `Parser._parse_unaryop` for `USub` applied to an already parsed operand: a zero literal is
folded to the zero literal of the opposite sign -/
def negFold (arg : Node) : Except LErr Node :=
  if arg.isRationalVal then do
    let r ← arg.asRational
    if r == 0 then
      match (← arg.asReal) with
      | .negZero => pure (.integer 0)
      | .rat _ => pure (.decnum negZeroText)
    else match arg with
      | .integer v => pure (.integer (-v))
      | _ => pure (.neg arg)
  else pure (.neg arg)

/-- `Parser._parse_integer_arg`: an `Integer`, or a `Decnum` with an integral value
(the folded `-0`) -/
def asInteger : Node → Except LErr Int
  | .integer v => .ok v
  | .decnum s =>
    match decnum s with
    | .error e => .error e
    | .ok r => if r.den == 1 then .ok r.num else .error .parse
  | _ => .error .parse

/-- `Parser._parse_expr` restricted to constant expressions -/
def parseExpr : Src → Except LErr Node
  | .num s => do parseConstant (← pyNumber s)
  | .hexfloat s => .ok (.hexnum s)
  | .rational p q => do
    let p ← asInteger (← parseExpr p)
    let q ← asInteger (← parseExpr q)
    pure (.rational p q)
  | .digits m e b => do
    let m ← asInteger (← parseExpr m)
    let e ← asInteger (← parseExpr e)
    let b ← asInteger (← parseExpr b)
    pure (.digits m e b)
  | .pos a => parseExpr a
  | .neg a => do negFold (← parseExpr a)

/-- what `return <expr>` evaluates to under `fp.REAL` -/
def frontValue (e : Src) : Except LErr LitVal := do (← parseExpr e).evalReal

/-- value under the real context of a numeric token *with the repaired* `_parse_constant` -/
def frontValueRepaired (cs : List Char) : Except LErr LitVal := do
  match (← pyNumber cs) with
  | .float ip fp ex => (← parseFloatRepaired ip fp ex).evalReal
  | c => (← parseConstant c).evalReal

/-- `round(<literal>)` under a context: the literal's exact value rounded once -/
def LitVal.operand : LitVal → Operand
  | .negZero => .flt (.fin ⟨true, 0, 0⟩)
  | .rat r => .frac r.num r.den

inductive RoundOut
  | litErr (e : LErr)
  | res (r : Except Err Res)

def roundLit (C : Ctx) (n : Node) : RoundOut :=
  match n.asReal with
  | .error e => .litErr e
  | .ok v => .res (C.round v.operand)

end Fpy.Lit
