/-
C12 (round 2) — the FPy → FPCore compiler on the subset WITH loops, one-armed `if`, `if/else`
followed by statements, and tuples.

`compileS / compileB` give, for every statement, the COMPOSITE output of the normalisation passes
(`ForBundling`, `WhileBundling`, `IfBundling`, fpy2/transform/*_bundling.py) followed by the backend
(`_visit_assign`, `_visit_context`, `_visit_if`, `_visit_if1`, `_visit_while`, `_visit_for` of
fpy2/backend/fpc.py as of af5fc1c), up to α-equivalence of the emitted core:

* the passes RENAME the variables they bundle (`s11 = s11 + b`); the model keeps the source names —
  in the emitted core every such variable is `let`-bound, so the two outputs differ by a renaming of
  bound variables only (harness/c12.py compares α-normal forms);
* compiler temporaries are the fixed names `%t` (tuples), `%it` (the iterable of a `for`), `%k`
  (its index), `%j` (the dimension variable of a `range`), `_`;
* `WhileBundling`, `ForBundling` and the one-armed case of `IfBundling` iterate a Python `set`; the
  order they meet the variables in is the parameter `ord` of the model (any order is sound);
* which variables a loop carries / an `if` hands on is decided as the real analyses decide it:
  `mutated_in` = assigned in the block and defined before it (`Γ`), `introed_in` = defined at its end
  and not before (`gammaB`), the `with` block passes on what the continuation mentions (`occ`).

Subset: rounded constants, rounded operators, order comparisons, tuples; assignment, tuple
unpacking, `with`, `if/else`, `if`, `while`, `for x in range(round(n))`, `return`.
-/
import Fpy.Model.FPCoreCompile
namespace Fpy.C12
open Fpy Fpy.Lang

/-! ## names occurring in / free in an FPCore expression -/

def tmpNames : List String := ["%t", "%it", "%k", "%j", "_"]
/-- compiler temporaries (never names of the source program) -/
def isTmpL (x : String) : Bool := tmpNames.contains x

def rmNames (xs : List String) (l : List String) : List String := l.filter fun y => !xs.contains y

mutual
/-- every variable REFERENCE in the expression (`_mentioned_vars` of backend/fpc.py) -/
def occ : FExpr → List String
  | .var x => [x]
  | .num _ => []
  | .const _ => []
  | .op _ args => occL args
  | .pred _ a => occ a
  | .cmp _ args => occL args
  | .and es => occL es
  | .or es => occL es
  | .not e => occ e
  | .ite c t f => occ c ++ occ t ++ occ f
  | .let_ _ binds body => occB binds ++ occ body
  | .while_ _ c binds body => occ c ++ occT binds ++ occ body
  | .for_ _ dims binds body => occB dims ++ occT binds ++ occ body
  | .tensor dims body => occB dims ++ occ body
  | .array es => occL es
  | .ref a idx => occ a ++ occL idx
  | .size a k => occ a ++ occ k
  | .dim a => occ a
  | .ann _ e => occ e
def occL : List FExpr → List String
  | [] => []
  | e :: es => occ e ++ occL es
def occB : List (String × FExpr) → List String
  | [] => []
  | (_, e) :: rest => occ e ++ occB rest
def occT : List (String × FExpr × FExpr) → List String
  | [] => []
  | (_, i, u) :: rest => occ i ++ occ u ++ occT rest
end

mutual
/-- the FREE variables (for the non-starred binding forms the compiler emits, and `let*`) -/
def fvF : FExpr → List String
  | .var x => [x]
  | .num _ => []
  | .const _ => []
  | .op _ args => fvL args
  | .pred _ a => fvF a
  | .cmp _ args => fvL args
  | .and es => fvL es
  | .or es => fvL es
  | .not e => fvF e
  | .ite c t f => fvF c ++ fvF t ++ fvF f
  | .let_ false binds body => fvB binds ++ rmNames (binds.map (·.1)) (fvF body)
  | .let_ true binds body => fvStar binds (fvF body)
  | .while_ _ c binds body => fvInit binds ++ rmNames (binds.map (·.1)) (fvF c ++ fvUpd binds ++ fvF body)
  | .for_ _ dims binds body =>
    fvB dims ++ fvInit binds ++ rmNames (dims.map (·.1) ++ binds.map (·.1)) (fvUpd binds ++ fvF body)
  | .tensor dims body => fvB dims ++ rmNames (dims.map (·.1)) (fvF body)
  | .array es => fvL es
  | .ref a idx => fvF a ++ fvL idx
  | .size a k => fvF a ++ fvF k
  | .dim a => fvF a
  | .ann _ e => fvF e
def fvL : List FExpr → List String
  | [] => []
  | e :: es => fvF e ++ fvL es
def fvB : List (String × FExpr) → List String
  | [] => []
  | (_, e) :: rest => fvF e ++ fvB rest
def fvStar : List (String × FExpr) → List String → List String
  | [], acc => acc
  | (x, e) :: rest, acc => fvF e ++ rmNames [x] (fvStar rest acc)
def fvInit : List (String × FExpr × FExpr) → List String
  | [] => []
  | (_, i, _) :: rest => fvF i ++ fvInit rest
def fvUpd : List (String × FExpr × FExpr) → List String
  | [] => []
  | (_, _, u) :: rest => fvF u ++ fvUpd rest
end

/-! ## the source subset -/

inductive LExpr
  | var (x : String)
  | lit (v : NV)                              -- `round(<literal>)`
  | op (o : Op) (args : List LExpr)
  | cmp (o : COp) (a b : LExpr)
  | tuple (es : List LExpr)
deriving Inhabited

inductive LStmt
  | assign (x : String) (e : LExpr)
  | tassign (xs : List String) (e : LExpr)    -- `x, y, … = e`
  | with_ (d : CDesc) (body : List LStmt)
  | ifte (c : LExpr) (t f : List LStmt)
  | if1 (c : LExpr) (t : List LStmt)
  | while_ (c : LExpr) (body : List LStmt)
  | forRange (x : String) (n : Nat) (body : List LStmt)   -- `for x in range(round(n)):`
  | ret (e : LExpr)
deriving Inhabited

mutual
def LExpr.toLang : LExpr → Expr
  | .var x => .var x
  | .lit v => .op .round [.num v]
  | .op o args => .op o (LExpr.toLangs args)
  | .cmp o a b => .cmp [o.toCmp] [a.toLang, b.toLang]
  | .tuple es => .tuple (LExpr.toLangs es)
def LExpr.toLangs : List LExpr → List Expr
  | [] => []
  | e :: es => e.toLang :: LExpr.toLangs es
end

mutual
def LStmt.toLang : LStmt → Stmt
  | .assign x e => .assign (.var x) e.toLang
  | .tassign xs e => .assign (.tup (xs.map Pat.var)) e.toLang
  | .with_ d body => .with (.ctxLit (d.toCtx.getD .real)) none (LStmt.toLangs body)
  | .ifte c t f => .ifte c.toLang (LStmt.toLangs t) (LStmt.toLangs f)
  | .if1 c t => .if1 c.toLang (LStmt.toLangs t)
  | .while_ c body => .while c.toLang (LStmt.toLangs body)
  | .forRange x n body => .for (.var x) (.range [.op .round [.num (.q (n : Int) 1)]]) (LStmt.toLangs body)
  | .ret e => .ret e.toLang
def LStmt.toLangs : List LStmt → List Stmt
  | [] => []
  | s :: ss => s.toLang :: LStmt.toLangs ss
end

mutual
/-- `_visit_expr`, with every variable `x` written `sub x` (the identity except in the condition of
a bundled loop / `if`, where a bundled variable is `(ref %t (! :precision integer i))`) -/
def LExpr.toFsub (sub : String → FExpr) : LExpr → FExpr
  | .var x => sub x
  | .lit v => .num v
  | .op o args => .op o (LExpr.toFsubs sub args)
  | .cmp o a b => .cmp o.toCmp [a.toFsub sub, b.toFsub sub]
  | .tuple es => .array (LExpr.toFsubs sub es)
def LExpr.toFsubs (sub : String → FExpr) : List LExpr → List FExpr
  | [] => []
  | e :: es => e.toFsub sub :: LExpr.toFsubs sub es
end

def LExpr.toF (e : LExpr) : FExpr := e.toFsub FExpr.var

mutual
def LExpr.vars : LExpr → List String
  | .var x => [x]
  | .lit _ => []
  | .op _ args => LExpr.varsL args
  | .cmp _ a b => a.vars ++ b.vars
  | .tuple es => LExpr.varsL es
def LExpr.varsL : List LExpr → List String
  | [] => []
  | e :: es => e.vars ++ LExpr.varsL es
end

mutual
/-- the variables assigned anywhere in a block (loop targets included) -/
def LStmt.asg : LStmt → List String
  | .assign x _ => [x]
  | .tassign xs _ => xs
  | .with_ _ body => LStmt.asgL body
  | .ifte _ t f => LStmt.asgL t ++ LStmt.asgL f
  | .if1 _ t => LStmt.asgL t
  | .while_ _ body => LStmt.asgL body
  | .forRange x _ body => x :: LStmt.asgL body
  | .ret _ => []
def LStmt.asgL : List LStmt → List String
  | [] => []
  | s :: ss => s.asg ++ LStmt.asgL ss
end

mutual
/-- the variables definitely defined after a statement, given those defined before it
(`DefineUse` / reaching definitions: both branches of an `if`; nothing from a loop body or a one-armed `if`) -/
def LStmt.gamma (G : List String) : LStmt → List String
  | .assign x _ => x :: G
  | .tassign xs _ => xs ++ G
  | .with_ _ body => LStmt.gammaL G body
  | .ifte _ t f => (LStmt.gammaL G t).filter fun y => (LStmt.gammaL G f).contains y
  | .if1 _ _ => G
  | .while_ _ _ => G
  | .forRange _ _ _ => G
  | .ret _ => G
def LStmt.gammaL (G : List String) : List LStmt → List String
  | [] => G
  | s :: ss => LStmt.gammaL (s.gamma G) ss
end

/-! ## the compiler -/

def intProps : Props := { prec := some .integer }

def indexIn : List String → String → Nat → Option Nat
  | [], _, _ => none
  | y :: ys, x, i => if x == y then some i else indexIn ys x (i + 1)

/-- a bundled variable inside the condition: `(ref %t (! :precision integer i))` (`unsafe_int_cast`) -/
def subIdx (M : List String) (x : String) : FExpr :=
  match indexIn M x 0 with
  | some i => .ref (.var "%t") [.ann intProps (.num (.q (i : Int) 1))]
  | none => .var x

/-- `(let* ([%t <e>] [x0 (ref %t 0)] [x1 (ref %t 1)] …) K)` — tuple unpacking (`_visit_assign`, `TupleBinding`) -/
def unpack (xs : List String) (e K : FExpr) : FExpr := .let_ true (("%t", e) :: refBinds "%t" xs 0) K

/-- `(let ([%t (array x0 x1 …)]) K)` -/
def pack (xs : List String) (K : FExpr) : FExpr := .let_ false [("%t", .array (xs.map FExpr.var))] K

/-- what the end of a bundled body hands back -/
def repack (xs : List String) : FExpr := pack xs (.var "%t")

/-- `(let ([x e]) K)` -/
def bind1 (x : String) (e K : FExpr) : FExpr := .let_ false [(x, e)] K

/-- `(while c ([m init U]) K)` -/
def whileE (c : FExpr) (m : String) (init U K : FExpr) : FExpr := .while_ false c [(m, init, U)] K

/-- `(tensor ([%j n]) %j)` — `range(n)` -/
def rangeE (n : Nat) : FExpr := .tensor [("%j", .num (.q (n : Int) 1))] (.var "%j")

/-- `(let ([%it <range n>]) (for ([%k (size %it 0)]) ([m init (let ([x (ref %it %k)]) B)]) K))` -/
def forE (x : String) (n : Nat) (m : String) (init B K : FExpr) : FExpr :=
  bind1 "%it" (rangeE n)
    (.for_ false [("%k", .size (.var "%it") (.num (.q 0 1)))]
      [(m, init, bind1 x (.ref (.var "%it") [.var "%k"]) B)] K)

/-- the variables a block changes that are defined before it (`mutated_in`), sorted -/
def mutatedOf (G : List String) (ss : List LStmt) : List String :=
  sortNames ((LStmt.asgL ss).filter fun y => G.contains y)

/-- the variables a `with` block hands to its continuation `K`: changed, defined at its end, mentioned by `K` -/
def passedL (G : List String) (body : List LStmt) (K : FExpr) : List String :=
  sortNames ((LStmt.asgL body).filter fun y => (LStmt.gammaL G body).contains y && (occ K).contains y)

mutual
/-- number of statements (nested ones included) -/
def LStmt.size : LStmt → Nat
  | .assign _ _ => 1
  | .tassign _ _ => 1
  | .with_ _ body => 1 + LStmt.sizeL body
  | .ifte _ t f => 1 + LStmt.sizeL t + LStmt.sizeL f
  | .if1 _ t => 1 + LStmt.sizeL t
  | .while_ _ body => 1 + LStmt.sizeL body
  | .forRange _ _ body => 1 + LStmt.sizeL body
  | .ret _ => 1
def LStmt.sizeL : List LStmt → Nat
  | [] => 0
  | s :: ss => s.size + LStmt.sizeL ss
end

/-- a key for the place a set of variables is bundled at: the kind of statement and the size of its body (the
iteration order of a Python `set` depends on how the set was built, so two statements bundling the same variables
may meet them in different orders) -/
def siteIf1 (t : List LStmt) : Nat := 3 * LStmt.sizeL t
def siteWhile (b : List LStmt) : Nat := 3 * LStmt.sizeL b + 1
def siteFor (b : List LStmt) : Nat := 3 * LStmt.sizeL b + 2

structure Cfg where
  /-- `unsafe_int_cast` of `FPCoreCompiler` -/
  unsafeInt : Bool
  /-- the order in which `WhileBundling` / `ForBundling` / the one-armed `IfBundling` meet the
  variables of a (sorted) set at a site: iteration order of a Python `set` -/
  ord : Nat → List String → List String


/-! the carried variables `M` of a loop / one-armed `if`: none (`_`, `0`), one (the variable itself), or
several (the tuple `%t`; `WhileBundling`, `ForBundling`, `IfBundling`) -/
def isMany (M : List String) : Bool := decide (2 ≤ M.length)
/-- the default compiler refuses the raw integer index the passes write into a condition that reads a bundled variable -/
def needsCast (cfg : Cfg) (M : List String) (c : LExpr) : Bool :=
  isMany M && !cfg.unsafeInt && c.vars.any fun y => M.contains y
/-- the name that carries them -/
def carrier : List String → String
  | [] => "_"
  | [x] => x
  | _ => "%t"
/-- its initial value -/
def carryInit : List String → FExpr
  | [] => .num (.q 0 1)
  | [x] => .var x
  | _ => .var "%t"
/-- what the body evaluates to -/
def carryRet : List String → FExpr
  | [] => .num (.q 0 1)
  | [x] => .var x
  | M => repack M
/-- unpacking at the start of the body / of the continuation -/
def carryIn (M : List String) (B : FExpr) : FExpr := if isMany M then unpack M (.var "%t") B else B
/-- packing before the statement -/
def carryOut (M : List String) (E : FExpr) : FExpr := if isMany M then pack M E else E
/-- the condition, reading bundled variables out of the tuple -/
def carryCond (M : List String) (c : LExpr) : FExpr := if isMany M then c.toFsub (subIdx M) else c.toF

/-! `if/else` followed by statements (`IfBundling._visit_if` + `_visit_if`) -/
/-- each branch starts by copying the variables it may change -/
def ifPre (muts : List String) (B : FExpr) : FExpr :=
  match muts with
  | [] => B
  | [m] => bind1 m (.var m) B
  | _ => unpack muts (.var "%t") B
/-- … and ends with the changed variables -/
def ifEnd : List String → FExpr
  | [] => .num (.q 0 1)
  | [x] => bind1 x (.var x) (.var x)
  | changed => repack changed
/-- how the result of the `if` is bound for the continuation -/
def ifAfter (changed : List String) (ifE K : FExpr) : FExpr :=
  match changed with
  | [] => bind1 "_" ifE K
  | [x] => bind1 x ifE K
  | _ => bind1 "%t" ifE (unpack changed (.var "%t") K)

def mutsIf (G : List String) (t f : List LStmt) : List String := mutatedOf G (t ++ f)
def introsIf (G : List String) (t f : List LStmt) : List String :=
  sortNames (((LStmt.gammaL G t).filter fun y => (LStmt.gammaL G f).contains y).filter fun y => !G.contains y)

mutual
def compileLS (cfg : Cfg) (G : List String) : LStmt → Option FExpr → Option FExpr
  | .assign x e, some K => some (bind1 x e.toF K)
  | .assign _ _, none => none
  | .tassign xs e, some K => some (unpack xs e.toF K)
  | .tassign _ _, none => none
  | .ret e, none => some e.toF
  | .ret _, some _ => none
  | .with_ d body, K =>
    match fromDesc d with
    | none => none
    | some p =>
      match K with
      | none => (compileLB cfg G body none).map (FExpr.ann p)
      | some K =>
        (compileLB cfg G body (some (retOf (passedL G body K)))).map fun I =>
          bundle (passedL G body K) (.ann p I) K
  | .ifte c t f, K =>
    match K with
    | none => none          -- `_visit_if` compiles its branches with a continuation: a `return` inside them is refused
    | some K =>
      if needsCast cfg (mutsIf G t f) c then none else
      match compileLB cfg G t (some (ifEnd (mutsIf G t f ++ introsIf G t f))),
            compileLB cfg G f (some (ifEnd (mutsIf G t f ++ introsIf G t f))) with
      | some T, some F =>
        some (carryOut (mutsIf G t f)
          (ifAfter (mutsIf G t f ++ introsIf G t f)
            (.ite (carryCond (mutsIf G t f) c) (ifPre (mutsIf G t f) T) (ifPre (mutsIf G t f) F)) K))
      | _, _ => none
  | .if1 c t, K =>
    match K with
    | none => none
    | some K =>
      if needsCast cfg (cfg.ord (siteIf1 t) (mutatedOf G t)) c then none else
      (compileLB cfg G t (some (carryRet (cfg.ord (siteIf1 t) (mutatedOf G t))))).map fun B =>
        carryOut (cfg.ord (siteIf1 t) (mutatedOf G t))
          (bind1 (carrier (cfg.ord (siteIf1 t) (mutatedOf G t)))
            (.ite (carryCond (cfg.ord (siteIf1 t) (mutatedOf G t)) c) (carryIn (cfg.ord (siteIf1 t) (mutatedOf G t)) B)
              (carryInit (cfg.ord (siteIf1 t) (mutatedOf G t))))
            (carryIn (cfg.ord (siteIf1 t) (mutatedOf G t)) K))
  | .while_ c body, K =>
    match K with
    | none => none
    | some K =>
      if needsCast cfg (cfg.ord (siteWhile body) (mutatedOf G body)) c then none else
      (compileLB cfg G body (some (carryRet (cfg.ord (siteWhile body) (mutatedOf G body))))).map fun B =>
        carryOut (cfg.ord (siteWhile body) (mutatedOf G body))
          (whileE (carryCond (cfg.ord (siteWhile body) (mutatedOf G body)) c) (carrier (cfg.ord (siteWhile body) (mutatedOf G body)))
            (carryInit (cfg.ord (siteWhile body) (mutatedOf G body))) (carryIn (cfg.ord (siteWhile body) (mutatedOf G body)) B)
            (carryIn (cfg.ord (siteWhile body) (mutatedOf G body)) K))
  | .forRange x n body, K =>
    match K with
    | none => none
    | some K =>
      -- `mutated_in(body)` counts the loop target as defined before the body (C12-looptarget)
      (compileLB cfg (x :: G) body (some (carryRet (cfg.ord (siteFor body) (mutatedOf (x :: G) body))))).map fun B =>
        carryOut (cfg.ord (siteFor body) (mutatedOf (x :: G) body))
          (forE x n (carrier (cfg.ord (siteFor body) (mutatedOf (x :: G) body))) (carryInit (cfg.ord (siteFor body) (mutatedOf (x :: G) body)))
            (carryIn (cfg.ord (siteFor body) (mutatedOf (x :: G) body)) B) (carryIn (cfg.ord (siteFor body) (mutatedOf (x :: G) body)) K))
def compileLB (cfg : Cfg) (G : List String) : List LStmt → Option FExpr → Option FExpr
  | [], K => K
  | s :: ss, K =>
    match ss, K with
    | [], none => compileLS cfg G s none
    | _, _ =>
      match compileLB cfg (s.gamma G) ss K with
      | none => none
      | some K' => compileLS cfg G s (some K')
end

/-! ## side conditions of the soundness theorem -/

mutual
/-- WELL-SCOPED: every variable read is definitely defined (`G`), no source name is a compiler
temporary, the targets of a tuple assignment are distinct, and — the shapes of C12-looptarget /
C12-looptarget2, which the compiler gets wrong — a loop target is neither defined before the loop nor
assigned in its body. -/
def LStmt.ws (G : List String) : LStmt → Prop
  | .assign x e => (∀ y, y ∈ e.vars → y ∈ G) ∧ isTmpL x = false
  | .tassign xs e => (∀ y, y ∈ e.vars → y ∈ G) ∧ (∀ x, x ∈ xs → isTmpL x = false) ∧ xs.Nodup
  | .with_ _ body => LStmt.wsL G body
  | .ifte c t f => (∀ y, y ∈ c.vars → y ∈ G) ∧ LStmt.wsL G t ∧ LStmt.wsL G f
  | .if1 c t => (∀ y, y ∈ c.vars → y ∈ G) ∧ LStmt.wsL G t
  | .while_ c b => (∀ y, y ∈ c.vars → y ∈ G) ∧ LStmt.wsL G b
  | .forRange x _ b => isTmpL x = false ∧ x ∉ G ∧ x ∉ LStmt.asgL b ∧ LStmt.wsL (x :: G) b
  | .ret e => ∀ y, y ∈ e.vars → y ∈ G
def LStmt.wsL (G : List String) : List LStmt → Prop
  | [] => True
  | s :: ss => s.ws G ∧ LStmt.wsL (s.gamma G) ss
end

/-- the integer literals `0 … n-1` the compiler writes are read back exactly under the context `P` denotes -/
def LitsP (P : Props) (n : Nat) : Prop := ∃ C, P.toCtx = .ok C ∧ CtxLits C n
/-- … and under `P` with `:precision integer` (the indices inside a bundled condition) -/
def LitsOK (P : Props) (n : Nat) : Prop := LitsP P n ∧ LitsP (P.update intProps) n

mutual
/-- `LitsOK` wherever the compiled block has such literals (tuple indices, the `0` a block without effect
returns, the bound of a `range`), with generous bounds on their number -/
def LStmt.lits (G : List String) (P : Props) : LStmt → Prop
  | .assign _ _ => True
  | .ret _ => True
  | .tassign xs _ => LitsOK P xs.length
  | .with_ d body =>
    match fromDesc d with
    | none => True
    | some p => LitsOK P ((LStmt.asgL body).length + 1) ∧ LitsOK (P.update p) 1 ∧ LStmt.litsL G (P.update p) body
  | .ifte _ t f =>
    LitsOK P ((LStmt.asgL t).length + (LStmt.asgL f).length + (LStmt.gammaL G t).length + 1) ∧
      LStmt.litsL G P t ∧ LStmt.litsL G P f
  | .if1 _ t => LitsOK P ((LStmt.asgL t).length + 1) ∧ LStmt.litsL G P t
  | .while_ _ b => LitsOK P ((LStmt.asgL b).length + 1) ∧ LStmt.litsL G P b
  | .forRange x n b => LitsOK P (n + (LStmt.asgL b).length + 2) ∧ LStmt.litsL (x :: G) P b
def LStmt.litsL (G : List String) (P : Props) : List LStmt → Prop
  | [] => True
  | s :: ss => s.lits G P ∧ LStmt.litsL (s.gamma G) P ss
end

/-- the order parameter only reorders -/
def OrdOK (cfg : Cfg) : Prop := ∀ k l, (∀ y, y ∈ cfg.ord k l ↔ y ∈ l) ∧ (cfg.ord k l).length ≤ l.length

/-- the whole function -/
def compileFunL (cfg : Cfg) (params : List String) (decl : Option CDesc) (body : List LStmt) : Option FCore :=
  match compileLB cfg params body none with
  | none => none
  | some e =>
    match decl with
    | none => some { params := params, props := {}, body := e }
    | some d => (fromDesc d).map fun p => { params := params, props := p, body := e }

end Fpy.C12
