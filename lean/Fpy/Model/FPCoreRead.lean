/-
C12 (round 2) — the READER `Function.from_fpcore` (fpy2/frontend/fpc.py, `_FPCore2FPy`) on the forms the
compiler emits for tuple-free programs: `let`, `let*`, `if`, `while`, `while*`, `!` annotations, over
"pure" operands (variables, literals, rounded operators, one order comparison).

The reader turns an EXPRESSION into STATEMENTS followed by a result expression: every binding form
becomes assignments to fresh names (`gensym`, here `nm k` for a counter `k`), `env` maps the FPCore
variables in scope to the FPy names that hold them, and a `!` annotation becomes a `with` block whose
context is denoted by the properties IN FORCE updated with the ones it names (inherited properties):

    (! p e)                 with <ctx of P.update p>:  <statements of e>;  t = <result of e>        => t
    (if c a b)              if c: <a>; t = <ra>   else: <b>; t = <rb>                                => t
    (let ([x e] …) body)    <e>; x' = <re>; …  (every value read in the OUTER scope)  <body>
    (let* ([x e] …) body)   the same, each value read in the scope extended so far
    (while c ([x i u] …) body)
                            <inits as let>;  while c:  t1 = <u1>; …  x1' = t1; …        <body>
    (while* c ([x i u] …) body)
                            <inits as let*>; while c:  x1' = <u1>; x2' = <u2>; …        <body>

Operands of operators / conditions are pure in the compiler's output, so they need no statements; a
loop condition that would need statements is outside this model (that is the recorded defect
C12-readwhilecond of the real reader: it evaluates such a condition once), and so is a parallel `while`
with more than one variable (the compiler never emits one: it bundles the variables first).
-/
import Fpy.Model.FPCore
namespace Fpy.C12
open Fpy Fpy.Lang

/-- FPCore variable ↦ the FPy name that holds it (`_Ctx.env`) -/
abbrev RMap := List (String × String)

def RMap.get? : RMap → String → Option String
  | [], _ => none
  | (a, b) :: rest, x => if a == x then some b else RMap.get? rest x

def isOrder : CmpOp → Bool
  | .lt => true | .le => true | .gt => true | .ge => true | _ => false

mutual
/-- operands: variables, literals (`round(<literal>)`), rounded operators, one order comparison -/
def readP (m : RMap) : FExpr → Option Expr
  | .var x => (m.get? x).map Expr.var
  | .num q => some (.op .round [.num q])
  | .op o args => (readPs m args).map (Expr.op o)
  | .cmp o [a, b] =>
    if isOrder o then
      match readP m a, readP m b with
      | some a', some b' => some (.cmp [o] [a', b'])
      | _, _ => none
    else none
  | _ => none
def readPs (m : RMap) : List FExpr → Option (List Expr)
  | [] => some []
  | e :: es =>
    match readP m e, readPs m es with
    | some e', some es' => some (e' :: es')
    | _, _ => none
end

section
variable (nm : Nat → String)

mutual
/-- `_visit`: statements, result expression, next fresh index -/
def readE : Nat → RMap → Props → FExpr → Option (List Stmt × Expr × Nat)
  | k, m, P, .ite c t f =>
    match readP m c, readE k m P t with
    | some c', some (st, rt, k1) =>
      match readE k1 m P f with
      | some (sf, rf, k2) =>
        some ([.ifte c' (st ++ [.assign (.var (nm k2)) rt]) (sf ++ [.assign (.var (nm k2)) rf])], .var (nm k2), k2 + 1)
      | none => none
    | _, _ => none
  | k, m, P, .let_ star binds body =>
    match readBinds star k m m P binds with
    | some (ss, m', k1) =>
      match readE k1 m' P body with
      | some (sb, rb, k2) => some (ss ++ sb, rb, k2)
      | none => none
    | none => none
  | k, m, P, .ann p e =>
    match readE k m (P.update p) e, (P.update p).toCtx with
    | some (s, r, k1), .ok C' => some ([.with (.ctxLit C') none (s ++ [.assign (.var (nm k1)) r])], .var (nm k1), k1 + 1)
    | _, _ => none
  | k, m, P, .while_ star c binds body =>
    if !star && decide (2 ≤ binds.length) then none else    -- (a parallel `while` with several variables: not modelled)
    match readInits star k m m P binds with
    | some (si, m1, k1) =>
      match readP m1 c with
      | some c' =>
        match (if star then readUpdStar k1 m1 P binds
               else (readUpdTmpGo k1 m1 P binds).map fun r => (r.1 ++ r.2.1, r.2.2)) with
        | some (su, k2) =>
          match readE k2 m1 P body with
          | some (sb, rb, k3) => some (si ++ [.while c' su] ++ sb, rb, k3)
          | none => none
        | none => none
      | none => none
    | none => none
  | k, m, _, e => (readP m e).map fun r => ([], r, k)
/-- the bindings of a `let` / `let*`: `m0` the scope outside, `acc` the scope extended so far -/
def readBinds (star : Bool) : Nat → RMap → RMap → Props → List (String × FExpr) → Option (List Stmt × RMap × Nat)
  | k, _, acc, _, [] => some ([], acc, k)
  | k, m0, acc, P, (x, e) :: rest =>
    match readE k (if star then acc else m0) P e with
    | some (s, r, k1) =>
      match readBinds star (k1 + 1) m0 ((x, nm k1) :: acc) P rest with
      | some (ss, m', k2) => some (s ++ [.assign (.var (nm k1)) r] ++ ss, m', k2)
      | none => none
    | none => none
/-- the initial values of a loop's variables: like `let` / `let*` -/
def readInits (star : Bool) : Nat → RMap → RMap → Props → List (String × FExpr × FExpr) → Option (List Stmt × RMap × Nat)
  | k, _, acc, _, [] => some ([], acc, k)
  | k, m0, acc, P, (x, i, _) :: rest =>
    match readE k (if star then acc else m0) P i with
    | some (s, r, k1) =>
      match readInits star (k1 + 1) m0 ((x, nm k1) :: acc) P rest with
      | some (ss, m', k2) => some (s ++ [.assign (.var (nm k1)) r] ++ ss, m', k2)
      | none => none
    | none => none
/-- `while*`: every update is assigned to the loop variable at once -/
def readUpdStar : Nat → RMap → Props → List (String × FExpr × FExpr) → Option (List Stmt × Nat)
  | k, _, _, [] => some ([], k)
  | k, m1, P, (x, _, u) :: rest =>
    match readE k m1 P u, m1.get? x with
    | some (s, r, k1), some y =>
      match readUpdStar k1 m1 P rest with
      | some (ss, k2) => some (s ++ [.assign (.var y) r] ++ ss, k2)
      | none => none
    | _, _ => none
/-- `while`: every update is computed into a temporary first (all of them read the OLD values: first list), then the
temporaries are copied to the loop variables (second list) -/
def readUpdTmpGo : Nat → RMap → Props → List (String × FExpr × FExpr) → Option (List Stmt × List Stmt × Nat)
  | k, _, _, [] => some ([], [], k)
  | k, m1, P, (x, _, u) :: rest =>
    match readE k m1 P u, m1.get? x with
    | some (s, r, k1), some y =>
      match readUpdTmpGo (k1 + 1) m1 P rest with
      | some (ss, rebinds, k2) => some (s ++ [.assign (.var (nm k1)) r] ++ ss, .assign (.var y) (.var (nm k1)) :: rebinds, k2)
      | none => none
    | _, _ => none
end

/-- bind the parameters to fresh names -/
def readParams : Nat → List String → RMap × List String
  | _, [] => ([], [])
  | k, x :: xs => let r := readParams (k + 1) xs; ((x, nm k) :: r.1, nm k :: r.2)

/-- `_visit_function`: the function re-read from a core (its declared context: the one the top-level properties denote) -/
def readFun (name : String) (core : FCore) : Option FuncDef :=
  match readE nm core.params.length (readParams nm 0 core.params).1 core.props core.body, core.props.toCtx with
  | some (ss, r, _), .ok C =>
    some { name := name, params := (readParams nm 0 core.params).2, ctx := some C, body := ss ++ [.ret r] }
  | _, _ => none

end
end Fpy.C12
