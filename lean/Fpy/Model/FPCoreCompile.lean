/-
C12 — model of the FPy → FPCore compiler (`fpy2/backend/fpc.py`) on the loop-free statement subset.

The source subset is an inductive type of its own (`SExpr`, `SStmt`: explicitly rounded constants,
rounded operators, order comparisons; assignment, `with <context>:`, `if/else`, `return`) with an
embedding into the core language (`toLang`), so that the soundness theorems speak about the
core-language evaluator `Fpy.Lang.evalB` on the embedded program.

`compileB` follows `_visit_block` / `_visit_assign` / `_visit_context` / `_visit_if` of the REPAIRED
compiler: statements are compiled back to front, every statement receiving the compiled
continuation; a `with` block that is followed by other statements is compiled to an annotated
expression computing ONLY the variables the block (re)defines and the continuation mentions,
which are then bound OUTSIDE the annotation:

    (let  ([x (! props body…x)]) K)
    (let* ([%t (! props body…(array x y …))] [x (ref %t 0)] [y (ref %t 1)] …) K)

`compileBLegacy` is the compiler before the repair (`(! props body…K)`: the continuation inside the
annotation).  `if/else` is modelled where both branches end in `return` (an `if` followed by other
statements goes through `IfBundling`, which is not modelled: `compileS` refuses it).  Compiler
temporaries are the single name `%t` (the real compiler draws fresh names `t, t0, …` — the model is
the compiler up to renaming of its own temporaries).
-/
import Fpy.Model.FPCore
namespace Fpy.C12
open Fpy Fpy.Lang

/-- the four order comparisons (`==`/`!=` on non-numbers have no FPCore counterpart) -/
inductive COp | lt | le | gt | ge
deriving DecidableEq, Repr, Inhabited

def COp.toCmp : COp → CmpOp | .lt => .lt | .le => .le | .gt => .gt | .ge => .ge

inductive SExpr
  | var (x : String)
  | lit (v : NV)                              -- `round(<literal>)`: an explicitly rounded constant
  | op (o : Op) (args : List SExpr)           -- a rounded operator on its operands
  | cmp (o : COp) (a b : SExpr)
deriving Inhabited

inductive SStmt
  | assign (x : String) (e : SExpr)
  | with_ (d : CDesc) (body : List SStmt)
  | ifte (c : SExpr) (t f : List SStmt)
  | ret (e : SExpr)
deriving Inhabited

/-! ### embedding into the core language -/
mutual
def SExpr.toLang : SExpr → Expr
  | .var x => .var x
  | .lit v => .op .round [.num v]
  | .op o args => .op o (SExpr.toLangs args)
  | .cmp o a b => .cmp [o.toCmp] [a.toLang, b.toLang]
def SExpr.toLangs : List SExpr → List Expr
  | [] => []
  | e :: es => e.toLang :: SExpr.toLangs es
end

mutual
def SStmt.toLang : SStmt → Stmt
  | .assign x e => .assign (.var x) e.toLang
  | .with_ d body => .with (.ctxLit (d.toCtx.getD .real)) none (SStmt.toLangs body)
  | .ifte c t f => .ifte c.toLang (SStmt.toLangs t) (SStmt.toLangs f)
  | .ret e => .ret e.toLang
def SStmt.toLangs : List SStmt → List Stmt
  | [] => []
  | s :: ss => s.toLang :: SStmt.toLangs ss
end

/-! ### expressions -/
mutual
/-- `_visit_expr`: `round(c)` ↦ the literal `c` (rounded by FPCore under the context in force),
operators ↦ the operator of the same name -/
def SExpr.toF : SExpr → FExpr
  | .var x => .var x
  | .lit v => .num v
  | .op o args => .op o (SExpr.toFs args)
  | .cmp o a b => .cmp o.toCmp [a.toF, b.toF]
def SExpr.toFs : List SExpr → List FExpr
  | [] => []
  | e :: es => e.toF :: SExpr.toFs es
end

mutual
/-- the variables an expression mentions -/
def SExpr.vars : SExpr → List String
  | .var x => [x]
  | .lit _ => []
  | .op _ args => SExpr.varsL args
  | .cmp _ a b => a.vars ++ b.vars
def SExpr.varsL : List SExpr → List String
  | [] => []
  | e :: es => e.vars ++ SExpr.varsL es
end

/-! ### names -/
/-- the compiler's own names: the tuple temporary and the `_` of a block without effect -/
def tmpName : String := "%t"
def isTmp (x : String) : Bool := x == tmpName || x == "_"

/-- sorted insertion without duplicates (`sorted(set)` of the compiler) -/
def insertName (x : String) : List String → List String
  | [] => [x]
  | y :: ys => if x == y then y :: ys else if x < y then x :: y :: ys else y :: insertName x ys

def sortNames (l : List String) : List String := l.foldr insertName []

mutual
/-- the variables a block assigns anywhere (`mutated_in ∪ introed_in` for blocks of this subset that
are executed to their end; for `if` the variables assigned in BOTH branches or already defined — see `changedIf`) -/
def SStmt.defs : SStmt → List String
  | .assign x _ => [x]
  | .with_ _ body => SStmt.defsL body
  | .ifte _ t f => SStmt.defsL t ++ SStmt.defsL f
  | .ret _ => []
def SStmt.defsL : List SStmt → List String
  | [] => []
  | s :: ss => s.defs ++ SStmt.defsL ss
end

/-- what a block returns to the code after it: nothing (`0`), its one variable, or an array of them -/
def retOf : List String → FExpr
  | [] => .num (.q 0 1)
  | [x] => .var x
  | D => .array (D.map FExpr.var)

def refBinds (t : String) : List String → Nat → List (String × FExpr)
  | [], _ => []
  | x :: xs, i => (x, .ref (.var t) [.num (.q (i : Int) 1)]) :: refBinds t xs (i + 1)

/-- bind the variables `D` computed by `inner` around the continuation `K` -/
def bundle (D : List String) (inner K : FExpr) : FExpr :=
  match D with
  | [] => .let_ false [("_", inner)] K
  | [x] => .let_ false [(x, inner)] K
  | _ => .let_ true ((tmpName, inner) :: refBinds tmpName D 0) K

mutual
/-- the variables the compiled form of a block followed by a continuation mentioning `N` mentions
(`_mentioned_vars` of the compiled continuation, computed on the source) -/
def SStmt.mention : SStmt → List String → List String
  | .assign _ e, N => e.vars ++ N
  | .ret e, _ => e.vars
  | .with_ _ body, N =>
    let D := sortNames ((SStmt.defsL body).filter (N.contains ·))
    SStmt.mentionL body D ++ D ++ N
  | .ifte c t f, _ => c.vars ++ SStmt.mentionL t [] ++ SStmt.mentionL f []
def SStmt.mentionL : List SStmt → List String → List String
  | [], N => N
  | s :: ss, N => s.mention (SStmt.mentionL ss N)
end

mutual
/-- one statement in front of the compiled continuation `K` (`none`: the statement ends the function
body and produces its value) which mentions the variables `N` -/
def compileS : SStmt → Option FExpr → List String → Option FExpr
  | .assign x e, some K, _ => some (.let_ false [(x, e.toF)] K)
  | .assign _ _, none, _ => none
  | .ret e, none, _ => some e.toF
  | .ret _, some _, _ => none                       -- 'FPCore does not support multiple return statements'
  | .with_ d body, K, N =>
    match fromDesc d with
    | none => none                                   -- `from_context` refuses the context
    | some p =>
      match K with
      | none => (compileB body none []).map (FExpr.ann p)
      | some K =>
        let D := sortNames ((SStmt.defsL body).filter (N.contains ·))
        (compileB body (some (retOf D)) D).map fun I => bundle D (.ann p I) K
  | .ifte c t f, K, N =>
    match K with
    | none =>                                        -- both branches end in `return`
      match compileB t none [], compileB f none [] with
      | some T, some F => some (.ite c.toF T F)
      | _, _ => none
    | some _ => none                                 -- (an `if` followed by statements — `IfBundling` — is not modelled)
def compileB : List SStmt → Option FExpr → List String → Option FExpr
  | [], K, _ => K
  | s :: ss, K, N =>
    match ss, K with
    | [], none => compileS s none []
    | _, _ =>
      match compileB ss K N with
      | none => none
      | some K' => compileS s (some K') (SStmt.mentionL ss N)
end

mutual
/-- the compiler BEFORE the repair: `_visit_context` compiled the body with the continuation and
wrapped the annotation around both -/
def compileSLegacy : SStmt → Option FExpr → Option FExpr
  | .assign x e, some K => some (.let_ false [(x, e.toF)] K)
  | .assign _ _, none => none
  | .ret e, none => some e.toF
  | .ret _, some _ => none
  | .with_ d body, K =>
    match tableLegacy d with
    | none => none
    | some p => (compileBLegacy body K).map (FExpr.ann p)
  | .ifte c t f, K =>
    match K with
    | none =>
      match compileBLegacy t none, compileBLegacy f none with
      | some T, some F => some (.ite c.toF T F)
      | _, _ => none
    | some _ => none
def compileBLegacy : List SStmt → Option FExpr → Option FExpr
  | [], K => K
  | s :: ss, K =>
    match ss, K with
    | [], none => compileSLegacy s none
    | _, _ =>
      match compileBLegacy ss K with
      | none => none
      | some K' => compileSLegacy s (some K')
end

/-! ### side conditions of the soundness theorems -/
mutual
/-- every name a block reads or writes -/
def SStmt.names : SStmt → List String
  | .assign x e => x :: e.vars
  | .with_ _ body => SStmt.namesL body
  | .ifte c t f => c.vars ++ SStmt.namesL t ++ SStmt.namesL f
  | .ret e => e.vars
def SStmt.namesL : List SStmt → List String
  | [] => []
  | s :: ss => s.names ++ SStmt.namesL ss
end

/-- the integer literals `0 … n-1` the compiler writes (tuple indices, the `0` a block without effect
returns) are read back exactly under `C` — true of every IEEE format with more than `log2 n` digits;
an FPCore literal is rounded under the context in force like any other number -/
def CtxLits (C : Ctx) (n : Nat) : Prop :=
  ∀ i, i < n → ∃ r, opEval C .round [cvtReal (.q (i : Int) 1)] = .ok r ∧ asIndex (.num r) = .ok i

mutual
/-- `CtxLits` at every place the compiled block has such a literal (`C`: context in force,
`hasK`: the block is followed by a continuation, which mentions `N`) -/
def SStmt.litsOK : SStmt → Ctx → Bool → List String → Prop
  | .assign _ _, _, _, _ => True
  | .ret _, _, _, _ => True
  | .with_ d body, C, hasK, N =>
    match d.toCtx with
    | none => False
    | some C' =>
      if hasK then
        (sortNames ((SStmt.defsL body).filter (N.contains ·)) = [] → CtxLits C' 1) ∧
        CtxLits C (sortNames ((SStmt.defsL body).filter (N.contains ·))).length ∧
        SStmt.litsOKL body C' true (sortNames ((SStmt.defsL body).filter (N.contains ·)))
      else SStmt.litsOKL body C' false []
  | .ifte _ t f, C, _, _ => SStmt.litsOKL t C false [] ∧ SStmt.litsOKL f C false []
def SStmt.litsOKL : List SStmt → Ctx → Bool → List String → Prop
  | [], _, _, _ => True
  | s :: ss, C, hasK, N =>
    (match ss, hasK with
     | [], false => s.litsOK C false []
     | _, _ => s.litsOK C true (SStmt.mentionL ss N)) ∧ SStmt.litsOKL ss C hasK N
end

/-- the whole function: parameters, declared context, body -/
def compileFun (params : List String) (decl : Option CDesc) (body : List SStmt) : Option FCore :=
  match compileB body none [] with
  | none => none
  | some e =>
    match decl with
    | none => some { params := params, props := {}, body := e }
    | some d => (fromDesc d).map fun p => { params := params, props := p, body := e }

end Fpy.C12
