/-
C18 — the Python boundary of the interpreter as a state machine over the core-language evaluator.

Anchors: `fpy2/interpret/byte.py` (`BytecodeInterpreter.eval(convert=True)`, `func_cache`,
`BytecodeCompiler.compile`: free variables are converted once, at compile time, into the namespace of the
compiled function; one that holds a list is kept under a fresh symbol and `_visit_function` copies it into
a local at EVERY activation -- commit 20fad08), `fpy2/interpret/value.py` (`to_value` and, since commit
1c6f5b2, `from_value`: containers rebuilt unconditionally).

Two levels.

* HEAP LEVEL (`toValue`, `exitValue`, `callBoundary`): CPython has ONE heap shared by the caller and the
  interpreter.  A call copies every argument list to a fresh cell (`to_value`), runs `callEntry` on the
  copies and converts the result (`from_value`: `rebuild`).  `Props/C18.lean` proves that the cells that
  existed before the call are not written (`args_untouched`) and that every list reachable from the result
  is a cell that did not exist before the call (`result_fresh`).
* PROCESS LEVEL (`State`, `Op`, `step`, `run`, threads): what survives between calls is the cache
  `FuncDef identity ↦ compiled function`, and a compiled function owns the cells of the free variables it
  captured (`Compiled.heap`, `Compiled.genv`).  A call copies those cells (`activationEnv`), allocates the
  (by-value) arguments behind them, runs the body with the copied environment under the parameters and
  drops every cell it allocated: nothing that persists can reach them (that is exactly `args_untouched` +
  `result_fresh`, and `ResultsOK` in `Proof/BoundaryProc.lean`), Python frees them.
  `Policy` records the two design points of the repaired findings F7/F8: `Policy.current` is the code as it
  is (`Prog.policy` defaults to it); `Policy.legacy` is the code before the repairs -- captured cells shared
  by all calls, writes to them kept, internal lists handed out -- kept so that `Props/C18.lean` can show the
  property FAILS for it (`legacy_…_counterexample`): an edit that goes back breaks the correspondence check.

NOT modelled: writes that happened before an exception (the model keeps the old cells), free variables of
callees (a callee runs with its parameters only, as in `Fpy.Lang.evalE`), a Python caller that mutates a
module-level list (capture time = first call), preemption inside C extensions and gmpy2's thread-local
MPFR context (threads are interleavings of the atomic steps `lookup | compile | insert | run`).
-/
import Fpy.Model.Lang.Core
namespace Fpy.C18
open Fpy Fpy.Lang

/-! ## values as the caller writes / reads them: by value -/

inductive Tree
  | bool (b : Bool)
  | num (v : NV)
  | ctx (c : Ctx)
  | tuple (ts : List Tree)
  | list (ts : List Tree)
deriving Repr, Inhabited

mutual
/-- the caller builds an argument: every list literal is a new cell -/
def allocTree : Tree → Heap → Val × Heap
  | .bool b, μ => (.bool b, μ)
  | .num v, μ => (.num v, μ)
  | .ctx c, μ => (.ctx c, μ)
  | .tuple ts, μ => let (vs, μ') := allocTrees ts μ; (.tuple vs, μ')
  | .list ts, μ => let (vs, μ') := allocTrees ts μ; let (μ'', v) := alloc μ' vs; (v, μ'')
def allocTrees : List Tree → Heap → List Val × Heap
  | [], μ => ([], μ)
  | t :: ts, μ => let (v, μ1) := allocTree t μ; let (vs, μ2) := allocTrees ts μ1; (v :: vs, μ2)
end

mutual
/-- what the caller sees when it prints a value (lists read out of the heap) -/
def readOut (μ : Heap) : Nat → Val → M Tree
  | 0, _ => .error .outOfFuel
  | _ + 1, .bool b => .ok (.bool b)
  | _ + 1, .num v => .ok (.num v)
  | _ + 1, .ctx c => .ok (.ctx c)
  | f + 1, .tuple vs => do .ok (.tuple (← readOuts μ f vs))
  | f + 1, .list r => do let l ← heapGet μ r; .ok (.list (← readOuts μ f l))
def readOuts (μ : Heap) : Nat → List Val → M (List Tree)
  | 0, _ => .error .outOfFuel
  | _ + 1, [] => .ok []
  | f + 1, v :: vs => do let t ← readOut μ f v; let ts ← readOuts μ f vs; .ok (t :: ts)
end

/-! ## `to_value`: containers are rebuilt unconditionally -/

mutual
/-- deep copy of a value read from `src` into fresh cells of `dst` (`to_value`): EVERY list becomes a
fresh list, also when the same list object occurs twice.  Out of fuel = Python's `RecursionError`. -/
def copyIn (src : Heap) : Nat → Val → Heap → M (Val × Heap)
  | 0, _, _ => .error .outOfFuel
  | f + 1, .list r, dst => do
    let l ← heapGet src r
    let (vs, dst') ← copyIns src f l dst
    let (dst'', v) := alloc dst' vs
    .ok (v, dst'')
  | f + 1, .tuple vs, dst => do
    let (ws, dst') ← copyIns src f vs dst
    .ok (.tuple ws, dst')
  | _ + 1, .bool b, dst => .ok (.bool b, dst)
  | _ + 1, .num v, dst => .ok (.num v, dst)
  | _ + 1, .ctx c, dst => .ok (.ctx c, dst)
def copyIns (src : Heap) : Nat → List Val → Heap → M (List Val × Heap)
  | 0, _, _ => .error .outOfFuel
  | _ + 1, [], dst => .ok ([], dst)
  | f + 1, v :: vs, dst => do
    let (w, d1) ← copyIn src f v dst
    let (ws, d2) ← copyIns src f vs d1
    .ok (w :: ws, d2)
end

/-- `to_value` on the one CPython heap: read the caller's cells, allocate behind them -/
def toValue (μ : Heap) (fuel : Nat) (v : Val) : M (Val × Heap) := copyIn μ fuel v μ
def toValues (μ : Heap) (fuel : Nat) (vs : List Val) : M (List Val × Heap) := copyIns μ fuel vs μ

/-! ## `from_value`: containers are rebuilt only when needed -/

/-- `is_dyadic` of a `Fraction` -/
def isDyadic (n : Int) (d : Nat) : Bool := match NV.ofRat n d with | .fv _ => true | .q _ _ => false

mutual
/-- `_is_boundary_value` -/
def isBoundary (μ : Heap) : Nat → Val → M Bool
  | 0, _ => .error .outOfFuel
  | _ + 1, .bool _ => .ok true
  | _ + 1, .ctx _ => .ok true
  | _ + 1, .num (.fv _) => .ok true
  | _ + 1, .num (.q n d) => .ok (!isDyadic n d)
  | f + 1, .tuple vs => allBoundary μ f vs
  | f + 1, .list r => do let l ← heapGet μ r; allBoundary μ f l
def allBoundary (μ : Heap) : Nat → List Val → M Bool
  | 0, _ => .error .outOfFuel
  | _ + 1, [] => .ok true
  | f + 1, v :: vs => do if ← isBoundary μ f v then allBoundary μ f vs else .ok false
end

mutual
/-- `from_value`: a value already in boundary form is returned AS IS (the same list cell) -/
def fromValue : Nat → Val → Heap → M (Val × Heap)
  | 0, _, _ => .error .outOfFuel
  | f + 1, v, μ => do
    if ← isBoundary μ f v then .ok (v, μ)
    else match v with
      | .num (.q n d) => .ok (.num (NV.ofRat n d), μ)
      | .tuple vs => do let (ws, μ') ← fromValues f vs μ; .ok (.tuple ws, μ')
      | .list r => do
        let l ← heapGet μ r
        let (ws, μ') ← fromValues f l μ
        let (μ'', w) := alloc μ' ws
        .ok (w, μ'')
      | v => .ok (v, μ)
def fromValues : Nat → List Val → Heap → M (List Val × Heap)
  | 0, _, _ => .error .outOfFuel
  | _ + 1, [], μ => .ok ([], μ)
  | f + 1, v :: vs, μ => do
    let (w, μ1) ← fromValue f v μ
    let (ws, μ2) ← fromValues f vs μ1
    .ok (w :: ws, μ2)
end

/-! ## the two design points the findings F7 / F8 are about -/

/-- `copyCaptured`: a captured list is copied into fresh cells at every activation (the code since commit
20fad08, which repaired F7; before it the list was converted once, at compile time, and every call shared
those cells).  `rebuildResult`: `from_value` rebuilds every container (the code since commit 1c6f5b2, which
repaired F8; before it a list that already had boundary form was returned as the very cell the interpreter
holds). -/
structure Policy where
  copyCaptured : Bool
  rebuildResult : Bool

/-- the code of /repo as it is (F7 and F8 repaired) -/
def Policy.current : Policy := { copyCaptured := true, rebuildResult := true }
/-- the code before the repairs: capture once and share afterwards, hand out internal lists -/
def Policy.legacy : Policy := { copyCaptured := false, rebuildResult := false }

mutual
/-- `from_value` as it is now: every container is rebuilt -/
def rebuild : Nat → Val → Heap → M (Val × Heap)
  | 0, _, _ => .error .outOfFuel
  | _ + 1, .num (.q n d), μ => .ok (.num (NV.ofRat n d), μ)
  | _ + 1, .num (.fv x), μ => .ok (.num (.fv x), μ)
  | _ + 1, .bool b, μ => .ok (.bool b, μ)
  | _ + 1, .ctx c, μ => .ok (.ctx c, μ)
  | f + 1, .tuple vs, μ => do let (ws, μ') ← rebuilds f vs μ; .ok (.tuple ws, μ')
  | f + 1, .list r, μ => do
    let l ← heapGet μ r
    let (ws, μ') ← rebuilds f l μ
    let (μ'', w) := alloc μ' ws
    .ok (w, μ'')
def rebuilds : Nat → List Val → Heap → M (List Val × Heap)
  | 0, _, _ => .error .outOfFuel
  | _ + 1, [], μ => .ok ([], μ)
  | f + 1, v :: vs, μ => do
    let (w, μ1) ← rebuild f v μ
    let (ws, μ2) ← rebuilds f vs μ1
    .ok (w :: ws, μ2)
end

/-- the conversion of a result at the boundary -/
def exitValue (π : Policy) (fuel : Nat) (v : Val) (μ : Heap) : M (Val × Heap) :=
  if π.rebuildResult then rebuild fuel v μ else fromValue fuel v μ

/-! ## a call from Python on the shared heap (function without captured free variables) -/

/-- `BytecodeInterpreter.eval(func, args, ctx, convert=True)`: the arguments are the CALLER's values
(references into `μ`, possibly aliased); they are copied to fresh cells behind `μ`, the body runs on the
copies, the result goes through `from_value`. -/
def callBoundary (π : Policy) (Φ : Funs) (fuel : Nat) (f : String) (args : List Val) (μ : Heap) (ctx : Option Ctx) : M (Val × Heap) := do
  let (vs, μ1) ← toValues μ fuel args
  let (v, μ2) ← callEntry Φ fuel f vs μ1 ctx
  exitValue π fuel v μ2

/-! ## process level -/

/-- a module: its FPy functions (identity = position), the module-level Python values they may capture
(references into `pyHeap`, the caller's cells) -/
structure Prog where
  defs : List FuncDef
  globals : Env
  pyHeap : Heap
  policy : Policy := Policy.current

/-- a compiled function: the definition, the captured free variables (converted ONCE by `to_value` into
cells that the compiled function owns) and those cells -/
structure Compiled where
  fd : FuncDef
  genv : Env
  heap : Heap
  policy : Policy

structure State where
  /-- `func_cache`, keyed by the identity of the `FuncDef` -/
  cache : List (Nat × Compiled)
  /-- definitions produced by transformations: new `FuncDef` objects (identity `defs.length + i`) -/
  extra : List FuncDef
  /-- values handed back to the caller so far: (function identity, value) -/
  results : List (Nat × Val)

def State.init : State := { cache := [], extra := [], results := [] }

inductive Op
  /-- `f(*args, ctx=ctx)` from Python; the arguments are written by value (fresh caller objects) -/
  | call (fid : Nat) (args : List Tree) (ctx : Option Ctx)
  /-- a (semantics-preserving) transformation: a NEW `FuncDef` object with the same body -/
  | transform (fid : Nat)
  /-- the caller assigns `results[k][i] = x` on a list it was handed back -/
  | mutateResult (k i : Nat) (x : NV)

def lookup (cache : List (Nat × Compiled)) (fid : Nat) : Option Compiled :=
  (cache.find? (·.1 == fid)).map (·.2)

/-- `self.func_cache[func.ast] = fn` -/
def insert (cache : List (Nat × Compiled)) (fid : Nat) (c : Compiled) : List (Nat × Compiled) :=
  (fid, c) :: cache.filter (·.1 != fid)

def defAt (P : Prog) (S : State) (fid : Nat) : Option FuncDef := (P.defs ++ S.extra)[fid]?

/-- `BytecodeCompiler.compile`: `namespace[name] = to_value(self.env[name])` for the free variables -/
def compile (P : Prog) (fuel : Nat) (d : FuncDef) : M Compiled := do
  let (vals, h) ← copyIns P.pyHeap fuel (P.globals.map (·.2)) []
  .ok { fd := d, genv := (P.globals.map (·.1)).zip vals, heap := h, policy := P.policy }

def callCtx (d : FuncDef) (ctx : Option Ctx) : Ctx :=
  match d.ctx with | some c => c | none => (match ctx with | some c => c | none => fp64)

/-- the captured environment an activation sees: fresh copies of the compile-time cells behind them, or
(legacy) the compile-time cells themselves -/
def activationEnv (fuel : Nat) (c : Compiled) : M (Env × Heap) :=
  if c.policy.copyCaptured then do
    let (vals, h) ← copyIns c.heap fuel (c.genv.map (·.2)) c.heap
    .ok ((c.genv.map (·.1)).zip vals, h)
  else .ok (c.genv, c.heap)

/-- run a compiled function on by-value arguments: parameters shadow the captured names -/
def runCompiled (Φ : Funs) (fuel : Nat) (c : Compiled) (args : List Tree) (ctx : Option Ctx) : M (Tree × Val × Heap) := do
  let (genv, μ0) ← activationEnv fuel c
  let (vs, μ1) := allocTrees args μ0
  if c.fd.params.length != vs.length then .error .typeError
  else
    let σ0 : Env := (c.fd.params.zip vs).foldl (fun s (x, v) => s.set x v) genv
    match evalB Φ fuel σ0 μ1 (callCtx c.fd ctx) c.fd.body with
    | .error e => .error e
    | .ok (.normal _, _) => .error .assertion
    | .ok (.ret v, μ2) => do
      let (w, μ3) ← exitValue c.policy fuel v μ2
      let t ← readOut μ3 fuel w
      .ok (t, w, μ3)

/-- the cells a call leaves behind: all of them when the function captured cells (a captured list may
now reference a new cell), none otherwise -/
def Compiled.after (c : Compiled) (μ : Heap) : Compiled :=
  if c.policy.copyCaptured || c.heap.isEmpty then c else { c with heap := μ }

abbrev Obs := Option (Except Err Tree)

def step (P : Prog) (fuel : Nat) (S : State) : Op → State × Obs
  | .call fid args ctx =>
    match defAt P S fid with
    | none => (S, some (.error .unbound))
    | some d =>
      -- lookup; on a miss compile and insert
      match (match lookup S.cache fid with
             | some c => (.ok c : M Compiled)
             | none => compile P fuel d) with
      | .error e => (S, some (.error e))
      | .ok c =>
        match runCompiled ⟨P.defs⟩ fuel c args ctx with
        | .error e => ({ S with cache := insert S.cache fid c }, some (.error e))
        | .ok (t, w, μ) =>
          ({ S with cache := insert S.cache fid (c.after μ), results := S.results ++ [(fid, w)] }, some (.ok t))
  | .transform fid =>
    match defAt P S fid with
    | none => (S, none)
    | some d => ({ S with extra := S.extra ++ [d] }, none)
  | .mutateResult k i x =>
    match S.results[k]? with
    | some (fid, .list r) =>
      (match lookup S.cache fid with
       | some c =>
         (match c.heap[r]? with
          | some l => if i < l.length then ({ S with cache := insert S.cache fid { c with heap := c.heap.set r (l.set i (.num x)) } }, none) else (S, none)
          | none => (S, none))       -- a cell the interpreter does not hold: the caller's own object
       | none => (S, none))
    | _ => (S, none)

def run (P : Prog) (fuel : Nat) (S : State) : List Op → State
  | [] => S
  | op :: ops => run P fuel (step P fuel S op).1 ops

/-- the observations of a history, in order -/
def observe (P : Prog) (fuel : Nat) (S : State) : List Op → List Obs
  | [] => []
  | op :: ops => (step P fuel S op).2 :: observe P fuel (step P fuel S op).1 ops

/-- what a call returns when nothing at all has happened before: a function of the module, the
definition, the arguments and the context -/
def pureCall (P : Prog) (fuel : Nat) (d : FuncDef) (args : List Tree) (ctx : Option Ctx) : Except Err Tree :=
  match compile P fuel d with
  | .error e => .error e
  | .ok c => (runCompiled ⟨P.defs⟩ fuel c args ctx).map (·.1)

/-! ## threads: interleavings of atomic steps over the shared cache -/

inductive PC
  | start
  | hit (c : Compiled)        -- `func.ast in self.func_cache` was true and the entry was read
  | miss                      -- it was false
  | compiled (c : Compiled)   -- `compiler.compile()` returned
  | failed (e : Err)          -- compilation raised
  | ready (c : Compiled)      -- `self.func_cache[func.ast] = fn` done
  | done (r : Except Err Tree)

structure Thread where
  fid : Nat
  args : List Tree
  ctx : Option Ctx
  pc : PC

/-- the atomic step `run`: evaluate, and leave behind the cells of a function that captured cells -/
def trun (P : Prog) (fuel : Nat) (cache : List (Nat × Compiled)) (t : Thread) (c : Compiled) : List (Nat × Compiled) × Thread :=
  match runCompiled ⟨P.defs⟩ fuel c t.args t.ctx with
  | .error e => (cache, { t with pc := .done (.error e) })
  | .ok (tr, _, μ) => (insert cache t.fid (c.after μ), { t with pc := .done (.ok tr) })

/-- one atomic step of one thread (`lookup | compile | insert | run`) on the shared cache -/
def tstep (P : Prog) (fuel : Nat) (cache : List (Nat × Compiled)) (t : Thread) : List (Nat × Compiled) × Thread :=
  match t.pc with
  | .start => (cache, { t with pc := match lookup cache t.fid with | some c => .hit c | none => .miss })
  | .miss =>
    (cache, { t with pc := match P.defs[t.fid]? with
                          | none => .failed .unbound
                          | some d => match compile P fuel d with | .ok c => .compiled c | .error e => .failed e })
  | .compiled c => (insert cache t.fid c, { t with pc := .ready c })
  | .hit c => trun P fuel cache t c
  | .ready c => trun P fuel cache t c
  | .failed e => (cache, { t with pc := .done (.error e) })
  | .done r => (cache, { t with pc := .done r })

/-- a schedule is the list of thread indices that get the interpreter lock, in order -/
def runSchedule (P : Prog) (fuel : Nat) (cache : List (Nat × Compiled)) (ts : List Thread) : List Nat → List (Nat × Compiled) × List Thread
  | [] => (cache, ts)
  | i :: rest =>
    match ts[i]? with
    | none => runSchedule P fuel cache ts rest
    | some t =>
      let (cache', t') := tstep P fuel cache t
      runSchedule P fuel cache' (ts.set i t') rest

/-- the sequential result of a thread's call: the call made alone in a fresh process -/
def seqResult (P : Prog) (fuel : Nat) (t : Thread) : Except Err Tree :=
  match P.defs[t.fid]? with
  | none => .error .unbound
  | some d => pureCall P fuel d t.args t.ctx

end Fpy.C18
