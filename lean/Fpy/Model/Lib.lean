/-
Model of the library functions of `fpy2/libraries/eft.py` (error-free transformations) and of the
decompositions of `fpy2/libraries/core.py` (`split`, `modf`, `frexp`, `ldexp`, `isinteger`, `isnar`,
`max_p`), transcribed statement by statement from the CURRENT source.  Definitions named `…Legacy` are the
source as it was BEFORE the repairs F38 (`classic_2sum`), F39 (`classic_2mul`), F40 (`frexp`) and the
last step of `classic_2fma`; the counterexample theorems of Props/C20 are about them.

The `@fp.fpy` functions are straight-line FPy programs: every operator is `ops.<op>` under the ACTIVE
context (`ap C op args` = `_cvt_to_real` on the operands, then `opEval C op`), `with fp.REAL:` switches
the active context to the real context for the block, `with fp.INTEGER:` to `MPFixedContext(-1, RTZ)`.
The `@fp.fpy_primitive` functions are Python code over `Float` values calling `ctx.round(…, exact=…)`
(`Ctx.round`).  The source lines are kept next to each definition.

The same `@fp.fpy` functions are ALSO evaluated by `Fpy.Lang.callEntry` on the AST exported from the real
decorated function (harness/c20.py compares real code = `eval` = `lib` on every call), so the hand
transcription below is tied to the real AST on every run.
-/
import Fpy.Model.Lang.Core
namespace Fpy.Lib
open Fpy Fpy.Lang

abbrev M := Except Err

/-- an operator application as the interpreter performs it (`E-Op`): operands through
`ops._cvt_to_real`, then `ops.<op>(…, ctx=C)` -/
def ap (C : Ctx) (o : Op) (args : List NV) : M NV := opEval C o (args.map cvtReal)

/-- a numeric literal of a program: an exact `Fraction`, not rounded -/
def lit (i : Int) : NV := .q i 1

/-- `fp.INTEGER` = `MPFixedContext(nmin=-1, rm=RTZ, enable_nan=False, enable_inf=False, enable_neg_zero=False)` -/
def integerCtx : Ctx := .mpfix (-1) .rtz (some 0) false { enableNan := false, enableInf := false }

/-- a comparison `x <op> y` of two numbers (`_eval_compare` on numbers) -/
def cmpNum (op : CmpOp) (x y : NV) : Bool :=
  match op with
  | .eq => nvCompare x y == some .eq
  | .ne => !(nvCompare x y == some .eq)
  | _ => cmpHolds op (nvCompare x y)

/-! ## `fpy2/libraries/core.py` -/

/-- ```
@fp.fpy
def isnar(x: fp.Real) -> bool:
    return fp.isnan(x) or fp.isinf(x)
``` -/
def isnar (x : NV) : Bool := nvIsNan x || nvIsInf x

/-- ```
@fp.fpy_primitive(ctx='R', ret_ctx=('R', 'R'))
def split(x: fp.Float, n: fp.Float, ctx: fp.Context) -> tuple[fp.Float, fp.Float]:
    if not n.is_integer():
        raise ValueError("n must be an integer")
    if x.isnan:
        hi = ctx.round(fp.Float.nan(), exact=True)
        lo = ctx.round(fp.Float.nan(), exact=True)
        return hi, lo
    elif x.isinf:
        hi = ctx.round(fp.Float(s=x.s, isinf=True), exact=True)
        lo = ctx.round(fp.Float(s=x.s, isinf=True), exact=True)
        return hi, lo
    else:
        above, below = x.as_real().split(int(n))
        hi = ctx.round(above, exact=True)
        lo = ctx.round(below, exact=True)
        return hi, lo
``` -/
def split (C : Ctx) (x n : FV) : M (FV × FV) :=
  match n with
  | .fin nr =>
    match nr.toInt? with
    | none => .error .valueError
    | some k =>
      match x with
      | .nan _ => do
        let hi ← C.round (.flt (.nan false)) true
        let lo ← C.round (.flt (.nan false)) true
        pure (hi.v, lo.v)
      | .inf s => do
        let hi ← C.round (.flt (.inf s)) true
        let lo ← C.round (.flt (.inf s)) true
        pure (hi.v, lo.v)
      | .fin xr => do
        let hi ← C.round (.real (xr.split k).1) true
        let lo ← C.round (.real (xr.split k).2) true
        pure (hi.v, lo.v)
  | _ => .error .valueError

/-- ```
@fp.fpy_primitive(ctx='R', ret_ctx=('R', 'R'), spec=_modf_spec)
def modf(x: fp.Float, ctx: fp.Context) -> tuple[fp.Float, fp.Float]:
    if x.isnan:
        i = ctx.round(x, exact=True)
        f = ctx.round(x, exact=True)
        return i, f
    elif x.isinf:
        i = ctx.round(fp.Float(s=x.s), exact=True)
        f = ctx.round(fp.Float(s=x.s, isinf=True), exact=True)
        return i, f
    elif x.is_zero():
        i = ctx.round(fp.Float(s=x.s), exact=True)
        f = ctx.round(fp.Float(s=x.s), exact=True)
        return i, f
    else:
        hi, lo = x.as_real().split(-1)
        i = ctx.round(hi, exact=True)
        f = ctx.round(lo, exact=True)
        return i, f
``` -/
def modf (C : Ctx) (x : FV) : M (FV × FV) :=
  match x with
  | .nan s => do
    let i ← C.round (.flt (.nan s)) true
    let f ← C.round (.flt (.nan s)) true
    pure (i.v, f.v)
  | .inf s => do
    let i ← C.round (.flt (.fin ⟨s, 0, 0⟩)) true
    let f ← C.round (.flt (.inf s)) true
    pure (i.v, f.v)
  | .fin xr =>
    if xr.c = 0 then do
      let i ← C.round (.flt (.fin ⟨xr.s, 0, 0⟩)) true
      let f ← C.round (.flt (.fin ⟨xr.s, 0, 0⟩)) true
      pure (i.v, f.v)
    else do
      let i ← C.round (.real (xr.split (-1)).1) true
      let f ← C.round (.real (xr.split (-1)).2) true
      pure (i.v, f.v)

/-- the mantissa `RealFloat(s=x.s, e=0, c=x.c)` of `frexp`: the digits of `x` with the normalized
exponent set to 0 (`exp = 0 - c.bit_length() + 1`) -/
def frexpMant (x : RF) : RF := ⟨x.s, 1 - (bitLength x.c : Int), x.c⟩

/-- ```
@fp.fpy_primitive(ctx='R', ret_ctx=('R', 'R'))
def frexp(x: fp.Float, ctx: fp.Context) -> tuple[fp.Float, fp.Float]:
    if x.isnan:
        m = ctx.round(fp.Float.nan(), exact=True)
        e = ctx.round(fp.Float.nan(), exact=True)
        return m, e
    elif x.isinf:
        m = ctx.round(fp.Float(s=x.s, isinf=True), exact=True)
        e = ctx.round(fp.Float.nan(), exact=True)
        return m, e
    elif x.is_zero():
        m = ctx.round(fp.Float(s=x.s), exact=True)
        e = ctx.round(fp.Float.zero(), exact=True)
        return m, e
    else:
        x = x.normalize()
        m = ctx.round(fp.RealFloat(s=x.s, e=0, c=x.c), exact=True)
        e = ctx.round(x.e, exact=True)          # F40: was `ctx.round(x.e)`
        return m, e
```
`x.normalize()` is `x.ctx.normalize(x)`: the operand is assumed to carry the context it was rounded
under (the call raises `ValueError` for a context-free `Float`); normalisation changes the encoding
`(c, exp)` of `x`, not its value, its sign or its normalized exponent `x.e`, and the mantissa
`RealFloat(e=0, c=x.c)` denotes the same number for every encoding, so the model keeps the encoding
it was given (results are compared by value).  `exactE = false` is the source before F40. -/
def frexpG (exactE : Bool) (C : Ctx) (x : FV) : M (FV × FV) :=
  match x with
  | .nan _ => do
    let m ← C.round (.flt (.nan false)) true
    let e ← C.round (.flt (.nan false)) true
    pure (m.v, e.v)
  | .inf s => do
    let m ← C.round (.flt (.inf s)) true
    let e ← C.round (.flt (.nan false)) true
    pure (m.v, e.v)
  | .fin xr =>
    if xr.c = 0 then do
      let m ← C.round (.flt (.fin ⟨xr.s, 0, 0⟩)) true
      let e ← C.round (.flt (.fin ⟨false, 0, 0⟩)) true
      pure (m.v, e.v)
    else do
      let m ← C.round (.real (frexpMant xr)) true
      let e ← C.round (.int xr.e) exactE
      pure (m.v, e.v)

/-- `core.frexp` (current source) -/
def frexp (C : Ctx) (x : FV) : M (FV × FV) := frexpG true C x
/-- `core.frexp` before F40: `e = ctx.round(x.e)` without `exact=True` -/
def frexpLegacy (C : Ctx) (x : FV) : M (FV × FV) := frexpG false C x

/-- a call of a `Float`-typed primitive from a program: a `Fraction` argument has no `.isnan` (the real
code raises `AttributeError`; reported as `TypeError`, never compared) -/
def asFloat : NV → M FV
  | .fv v => .ok v
  | .q _ _ => .error .typeError

/-- ```
@fp.fpy
def isinteger(x: fp.Real) -> bool:
    _, fpart = modf(x)
    return fp.isfinite(fpart) and fpart == 0
``` -/
def isinteger (C : Ctx) (x : NV) : M Bool := do
  let xv ← asFloat x
  let (_, fpart) ← modf C xv
  let fp : NV := .fv fpart
  pure (!(nvIsNan fp || nvIsInf fp) && cmpNum .eq fp (lit 0))

/-- ```
@fp.fpy
def ldexp(x: fp.Real, n: fp.Real) -> fp.Real:
    with fp.REAL:
        assert isinteger(n)
        scale = 2 ** n
    return x * scale
``` -/
def ldexp (C : Ctx) (x n : NV) : M NV := do
  let ok ← isinteger .real n
  if !ok then throw .assertion
  let scale ← ap .real .pow [lit 2, n]
  ap C .mul [x, scale]

/-- ```
@fp.fpy_primitive(ctx='R', ret_ctx='R')
def max_p(ctx: fp.Context) -> fp.Float:
    p, _ = ctx.round_params()
    if p is None:
        raise ValueError(f"ctx={ctx} does not have a maximum precision")
    return ctx.round(p)
``` -/
def maxP (C : Ctx) : M FV :=
  match C.roundParams.1 with
  | none => .error .valueError
  | some p => do
    let r ← C.round (.int p) false
    pure r.v

/-! ## `fpy2/libraries/eft.py` -/

/-- ```
@fp.fpy
def veltkamp_split(x: fp.Real, s: fp.Real):
    C = fp.pow(fp.round(2), s) + fp.round(1)
    g = C * x
    e = x - g
    s = g + e
    t = x - s
    return s, t
``` -/
def veltkampSplit (C : Ctx) (x s : NV) : M (NV × NV) := do
  let two ← ap C .round [lit 2]
  let pw ← ap C .pow [two, s]
  let one ← ap C .round [lit 1]
  let cc ← ap C .add [pw, one]
  let g ← ap C .mul [cc, x]
  let e ← ap C .sub [x, g]
  let s' ← ap C .add [g, e]
  let t ← ap C .sub [x, s']
  pure (s', t)

/-- ```
@fp.fpy
def ideal_2sum(a: fp.Real, b: fp.Real):
    s = a + b
    with fp.REAL:
        t = (a + b) - s
    return s, t
``` -/
def ideal2sum (C : Ctx) (a b : NV) : M (NV × NV) := do
  let s ← ap C .add [a, b]
  let u ← ap .real .add [a, b]
  let t ← ap .real .sub [u, s]
  pure (s, t)

/-- ```
@fp.fpy
def fast_2sum(a: fp.Real, b: fp.Real):
    assert core.isnar(a) or core.isnar(b) or abs(a) >= abs(b)
    s = a + b
    z = s - a
    t = b - z
    return s, t
``` -/
def fast2sum (C : Ctx) (a b : NV) : M (NV × NV) := do
  let ok ← (if isnar a then pure true
            else if isnar b then pure true
            else do
              let aa ← ap C .fabs [a]
              let ab ← ap C .fabs [b]
              pure (cmpNum .ge aa ab) : M Bool)
  if !ok then throw .assertion
  let s ← ap C .add [a, b]
  let z ← ap C .sub [s, a]
  let t ← ap C .sub [b, z]
  pure (s, t)

/-- ```
@fp.fpy
def classic_2sum(a: fp.Real, b: fp.Real):
    s = a + b
    aa = s - b
    bb = s - aa                # F38: was `bb = s - a`
    ea = a - aa
    eb = b - bb
    t = ea + eb
    return s, t
```
(Knuth / Møller.)  `legacy = true` is the source before F38. -/
def classic2sumG (legacy : Bool) (C : Ctx) (a b : NV) : M (NV × NV) := do
  let s ← ap C .add [a, b]
  let aa ← ap C .sub [s, b]
  let bb ← ap C .sub [s, if legacy then a else aa]
  let ea ← ap C .sub [a, aa]
  let eb ← ap C .sub [b, bb]
  let t ← ap C .add [ea, eb]
  pure (s, t)

/-- `eft.classic_2sum` (current source) -/
def classic2sum (C : Ctx) (a b : NV) : M (NV × NV) := classic2sumG false C a b
/-- `eft.classic_2sum` before F38 (`bb = s - a`) -/
def classic2sumLegacy (C : Ctx) (a b : NV) : M (NV × NV) := classic2sumG true C a b

/-- ```
@fp.fpy
def priest_2sum(a: fp.Real, b: fp.Real):
    if abs(a) < abs(b):
        a, b = b, a
    c = a + b
    e = c - a
    g = c - e
    h = g - a
    f = b - h
    d = f - e
    if d + e != f:
        c = a
        d = b
    return c, d
``` -/
def priest2sum (C : Ctx) (a b : NV) : M (NV × NV) := do
  let aa ← ap C .fabs [a]
  let ab ← ap C .fabs [b]
  let (a, b) := if cmpNum .lt aa ab then (b, a) else (a, b)
  let c ← ap C .add [a, b]
  let e ← ap C .sub [c, a]
  let g ← ap C .sub [c, e]
  let h ← ap C .sub [g, a]
  let f ← ap C .sub [b, h]
  let d ← ap C .sub [f, e]
  let de ← ap C .add [d, e]
  if cmpNum .ne de f then pure (a, b) else pure (c, d)

/-- ```
@fp.fpy
def ideal_2mul(a: fp.Real, b: fp.Real):
    s = a * b
    with fp.REAL:
        t = (a * b) - s
    return s, t
``` -/
def ideal2mul (C : Ctx) (a b : NV) : M (NV × NV) := do
  let s ← ap C .mul [a, b]
  let u ← ap .real .mul [a, b]
  let t ← ap .real .sub [u, s]
  pure (s, t)

/-- ```
@fp.fpy
def classic_2mul(a: fp.Real, b: fp.Real):
    p = core.max_p()           # F39: was inside `with fp.INTEGER:` (the integer context has no precision)
    with fp.REAL:              # F39: was `with fp.INTEGER:` — there `p / 2` is truncated, `ceil` is a no-op
        s = fp.ceil(p / 2)
    ah, al = veltkamp_split(a, s)
    bh, bl = veltkamp_split(b, s)
    r1 = a * b
    t1 = -r1 + ah * bh
    t2 = t1 + ah * bl
    t3 = t2 + al * bh
    r2 = t3 + al * bl
    return r1, r2
```
(Dekker.)  `legacy = true` is the source before F39: `with fp.INTEGER: p = core.max_p(); s = fp.ceil(p / 2)`. -/
def classic2mulG (legacy : Bool) (C : Ctx) (a b : NV) : M (NV × NV) := do
  let p ← maxP (if legacy then integerCtx else C)
  let Cs : Ctx := if legacy then integerCtx else .real
  let half ← ap Cs .div [.fv p, lit 2]
  let s ← ap Cs .ceil [half]
  let (ah, al) ← veltkampSplit C a s
  let (bh, bl) ← veltkampSplit C b s
  let r1 ← ap C .mul [a, b]
  let nr1 ← ap C .neg [r1]
  let ahbh ← ap C .mul [ah, bh]
  let t1 ← ap C .add [nr1, ahbh]
  let ahbl ← ap C .mul [ah, bl]
  let t2 ← ap C .add [t1, ahbl]
  let albh ← ap C .mul [al, bh]
  let t3 ← ap C .add [t2, albh]
  let albl ← ap C .mul [al, bl]
  let r2 ← ap C .add [t3, albl]
  pure (r1, r2)

/-- `eft.classic_2mul` (current source) -/
def classic2mul (C : Ctx) (a b : NV) : M (NV × NV) := classic2mulG false C a b
/-- `eft.classic_2mul` before F39 -/
def classic2mulLegacy (C : Ctx) (a b : NV) : M (NV × NV) := classic2mulG true C a b

/-- ```
@fp.fpy
def fast_2mul(a: fp.Real, b: fp.Real):
    r1 = a * b
    r2 = fp.fma(a, b, -r1)
    return r1, r2
``` -/
def fast2mul (C : Ctx) (a b : NV) : M (NV × NV) := do
  let r1 ← ap C .mul [a, b]
  let nr1 ← ap C .neg [r1]
  let r2 ← ap C .fma [a, b, nr1]
  pure (r1, r2)

/-- ```
@fp.fpy
def ideal_fma(a: fp.Real, b: fp.Real, c: fp.Real):
    r = fp.fma(a, b, c)
    with fp.REAL:
        t = fp.fma(a, b, c) - r
    return r, t
``` -/
def idealFma (C : Ctx) (a b c : NV) : M (NV × NV) := do
  let r ← ap C .fma [a, b, c]
  let u ← ap .real .fma [a, b, c]
  let t ← ap .real .sub [u, r]
  pure (r, t)

/-- ```
@fp.fpy
def classic_2fma(a: fp.Real, b: fp.Real, c: fp.Real):
    r1 = fp.fma(a, b, c)
    u1, u2 = fast_2mul(a, b)
    a1, a2 = classic_2sum(c, u2)
    b1, b2 = classic_2sum(u1, a1)
    g = (b1 - r1) + b2
    r2, r3 = classic_2sum(g, a2)      # was `fast_2sum(g, a2)`, whose `assert |g| >= |a2|` need not hold
    return r1, r2, r3
```
(Boldo / Muller.)  `legacySum`: the two inner calls use `classic_2sum` before F38; `fastLast`: the last step
is `fast_2sum(g, a2)` (Boldo–Muller guarantee `g = 0` or an exponent of `g` not below that of `a2`, which
is weaker than the `|g| >= |a2|` that `fast_2sum` asserts). -/
def classic2fmaG (legacySum fastLast : Bool) (C : Ctx) (a b c : NV) : M (NV × NV × NV) := do
  let r1 ← ap C .fma [a, b, c]
  let (u1, u2) ← fast2mul C a b
  let (a1, a2) ← classic2sumG legacySum C c u2
  let (b1, b2) ← classic2sumG legacySum C u1 a1
  let d ← ap C .sub [b1, r1]
  let g ← ap C .add [d, b2]
  let (r2, r3) ← if fastLast then fast2sum C g a2 else classic2sumG legacySum C g a2
  pure (r1, r2, r3)

/-- `eft.classic_2fma` (current source) -/
def classic2fma (C : Ctx) (a b c : NV) : M (NV × NV × NV) := classic2fmaG false false C a b c
/-- `eft.classic_2fma` with the repaired `classic_2sum` but `fast_2sum` as its last step -/
def classic2fmaFastLast (C : Ctx) (a b c : NV) : M (NV × NV × NV) := classic2fmaG false true C a b c
/-- `eft.classic_2fma` before F38 -/
def classic2fmaLegacy (C : Ctx) (a b c : NV) : M (NV × NV × NV) := classic2fmaG true true C a b c

end Fpy.Lib
