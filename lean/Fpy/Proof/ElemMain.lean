/-
C03 — the wrapper on a coherent family, exactly representable values, scaling by a power of two, and the link
to `_round_prepare` for rational values (helper lemmas for `Props/C03.lean`).
-/
import Fpy.Proof.Elem
namespace Fpy.C03
open Fpy Fpy.Spec

/-! ### main statements for a coherent family -/

/-- normalized exponent of the value described by a coherent family: the same at every level -/
theorem coherent_e (t : Oracle) (ht : Coherent t) (q W : Nat) (hq : 1 ≤ q) (hqW : q ≤ W) : (t q).1.e = (t W).1.e := by
  rw [ht.step q W hq hqW]
  exact (truncRF_props (t W).1 q hq (ht.nz W (by omega))).2.1

theorem wrapper_coherent (C : Ctx) (hC : C.det) (t : Oracle) (ht : Coherent t) (W : Nat)
    (hW : workPrec C.roundParams.1 C.roundParams.2 (t 1).1.e ≤ W) :
    Res.agree (elemEval C t) (C.roundAtCore (.fin (refDyadic t W)) none false 0) := by
  have hW1 : 1 ≤ W := by
    unfold workPrec at hW
    cases h1 : C.roundParams.1 <;> cases h2 : C.roundParams.2 <;> simp only [h1, h2] at hW <;> (try split at hW) <;> omega
  obtain ⟨hc, he, _, hall⟩ := coherent_witness t ht W hW1
  apply wrapper_dyadic C hC t (refDyadic t W) hc W _ hall
  rw [he, ← coherent_e t ht 1 W (by omega) hW1]
  exact hW

/-- two dyadic values with the same truncations (digits and flag) up to the working precision round alike -/
theorem determined_dyadic (C : Ctx) (hC : C.det) (x w : RF) (hx : x.c ≠ 0) (hw : w.c ≠ 0) (W : Nat)
    (hW : workPrec C.roundParams.1 C.roundParams.2 x.e ≤ W)
    (h : ∀ q, 1 ≤ q → q ≤ W → truncRF x q = truncRF w q) :
    Res.agree (C.roundAtCore (.fin x) none false 0) (C.roundAtCore (.fin w) none false 0) := by
  have hW1 : 1 ≤ W := by
    unfold workPrec at hW
    cases h1 : C.roundParams.1 <;> cases h2 : C.roundParams.2 <;> simp only [h1, h2] at hW <;> (try split at hW) <;> omega
  have hxe : x.e = w.e := by
    have a := (truncRF_props x 1 (by omega) hx).2.1
    have b := (truncRF_props w 1 (by omega) hw).2.1
    rw [h 1 (by omega) hW1] at a
    rw [← a, b]
  have A := wrapper_dyadic C hC (truncRF x) x hx W hW (fun _ _ _ => rfl)
  have B := wrapper_dyadic C hC (truncRF x) w hw W (by rw [← hxe]; exact hW) h
  exact agree_trans (agree_symm A) B

/-! ### exactly representable values -/

theorem roundOdd_exact (x : RF) : roundOdd x false = x := by
  unfold roundOdd; rw [rtoBit_false]

/-- a value that fits in the working precision comes back from the wrapper unchanged -/
theorem wrapper_exact (t : Oracle) (x : RF) (hx : x.c ≠ 0) (prec : Option Nat) (n : Option Int)
    (hpn : ¬ (prec = none ∧ n = none)) (W : Nat) (hW : workPrec prec n x.e ≤ W)
    (h : ∀ q, 1 ≤ q → q ≤ W → t q = truncRF x q) (hfit : x.p ≤ workPrec prec n x.e) :
    mpfrCallModel t prec n = .ok x := by
  rw [mpfrCall_of_agree t x hx prec n W hW h]
  unfold mpfrRtoRF workPrec at *
  simp only [hx, if_false]
  cases prec with
  | some p => simp only at hfit ⊢; rw [rtoRF_keep x _ hfit]
  | none =>
    cases n with
    | none => exact absurd ⟨rfl, rfl⟩ hpn
    | some n =>
      simp only at hfit ⊢
      by_cases hen : x.e ≤ n
      · simp only [hen, if_true] at hfit ⊢; rw [rtoRF_keep x _ hfit]
      · simp only [hen, if_false] at hfit ⊢; rw [rtoRF_keep x _ hfit]

/-- `MPFloatContext(p)`: a true result with at most `p` digits is returned as is, not flagged inexact -/
theorem exact_mp (p : Nat) (rm : RM) (o : Opts) (hp : 1 ≤ p) (t : Oracle) (x : RF) (hx : x.c ≠ 0) (hxp : x.p ≤ p)
    (W : Nat) (hW : p + 2 ≤ W) (h : ∀ q, 1 ≤ q → q ≤ W → t q = truncRF x q) :
    ∃ fl, elemEval (.mp p rm (some 0) o) t = .ok ⟨.fin x, fl⟩ ∧ fl.inexact = false ∧ fl.overflow = false := by
  have hcall : mpfrCallModel t (some (p + 0)) none = .ok x :=
    wrapper_exact t x hx (some (p + 0)) none (by simp) W (by unfold workPrec; omega) h (by unfold workPrec; simp only; omega)
  unfold elemEval
  simp only [Ctx.roundParams, widenP, hcall]
  unfold Ctx.roundAtCore floatSpecial
  simp only [hx, if_false]
  unfold RF.round RF.roundParams
  simp only [if_true]
  obtain ⟨y, fl, h1, _, _, _, h5, _⟩ := roundAtCore_prec x p (x.e - p) none rm hx hp (by omega)
  have hgt : x.exp > x.e - p := by unfold RF.e; omega
  obtain ⟨hy, hi⟩ := h5 hgt
  subst hy
  refine ⟨fl, by rw [h1], hi, ?_⟩
  -- overflow is never set by `_round_at`
  unfold RF.roundAtCore at h1
  have hfit : (y.exp > y.e - ↑p && y.p ≤ p) = true := by simp [hgt, hxp]
  simp only [hfit, if_true] at h1
  cases h1; rfl

/-! ### scaling by a power of two (the repair of `PI_2`, `PI_4`) -/

/-- `x / 2^k` -/
def shiftRF (x : RF) (k : Nat) : RF := ⟨x.s, x.exp - (k : Int), x.c⟩

theorem truncRF_shift (x : RF) (k q : Nat) :
    truncRF (shiftRF x k) q = (shiftRF (truncRF x q).1 k, (truncRF x q).2) := by
  unfold truncRF shiftRF
  by_cases h : x.p ≤ q
  · have h' : (⟨x.s, x.exp - (k : Int), x.c⟩ : RF).p ≤ q := h
    simp only [h, h', if_true]
  · have h' : ¬ (⟨x.s, x.exp - (k : Int), x.c⟩ : RF).p ≤ q := h
    simp only [h, h', if_false]
    have hp : (⟨x.s, x.exp - (k : Int), x.c⟩ : RF).p = x.p := rfl
    rw [hp]
    congr 2
    omega

theorem scale_coherent (t : Oracle) (ht : Coherent t) (k : Nat) : Coherent (scaleOracle t k) where
  nz q hq := ht.nz q hq
  short q hq := ht.short q hq
  full q hq hb := ht.full q hq hb
  step q W hq hqW := by
    have hs := ht.step q W hq hqW
    show (shiftRF (t q).1 k, (t q).2) = truncStep (shiftRF (t W).1 k, (t W).2) q
    unfold truncStep
    simp only [truncRF_shift]
    rw [hs]
    rfl

theorem refDyadic_scale (t : Oracle) (k W : Nat) :
    refDyadic (scaleOracle t k) W = shiftRF (refDyadic t W) k := by
  unfold refDyadic scaleOracle shiftRF
  simp only
  split
  · show (⟨(t W).1.s, (t W).1.exp - (k : Int) - 1, 2 * (t W).1.c + 1⟩ : RF) = ⟨(t W).1.s, (t W).1.exp - 1 - (k : Int), 2 * (t W).1.c + 1⟩
    congr 1; omega
  · rfl

/-! ### rational values: the wrapper on MPFR's conversion of a `Fraction` is `_round_prepare` -/

theorem mpfrCall_ratOracle (neg : Bool) (num den : Nat) (prec : Option Nat) (n : Option Int)
    (hnz : (truncRat num den 2).1 ≠ 0) :
    mpfrCallModel (ratOracle neg num den) prec n = mpfrValue neg num den prec n := by
  unfold mpfrCallModel mpfrValue ratOracle roundOdd rtoRat rtoBit
  cases prec with
  | some p => rfl
  | none =>
    cases n with
    | none => rfl
    | some n =>
      simp only [hnz, if_false, RF.e, RF.p]
      split <;> rfl

theorem elemEval_rat (C : Ctx) (num : Int) (den : Nat) (hd1 : den ≠ 1) (hd2 : isPow2 den = false)
    (hnz : (truncRat num.natAbs den 2).1 ≠ 0) :
    elemEval C (ratOracle (num < 0) num.natAbs den) = C.round (.frac num den) := by
  unfold elemEval Ctx.round prepare
  simp only [hd1, hd2, if_false, Bool.false_eq_true, mpfrCall_ratOracle _ _ _ _ _ hnz]
  cases mpfrValue (decide (num < 0)) num.natAbs den C.roundParams.1 C.roundParams.2 <;> rfl


end Fpy.C03
