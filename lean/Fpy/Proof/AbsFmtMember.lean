/-
Helper lemmas for C14: the executable membership test equals the Spec's γ, and a member of an
`MPFloat`-shaped format is left unchanged by `RealFloat.round` at that precision.
-/
import Fpy.Proof.AbsFmtSound
namespace Fpy
open RF Fpy.Spec
namespace AbsFmt

/-- the executable test decides `Writable` -/
theorem writableB_iff (a : AbsFmt) (x : RF) (hc : x.c ≠ 0) : a.writableB x = true ↔ a.Writable x := by
  rw [writable_iff a x x.exp hc (Int.le_refl _)]
  have hX : (x.sc x.exp).natAbs = x.c := by rw [natAbs_sc]; simp [mag]
  unfold writableB
  simp only [beq_iff_eq]
  constructor
  · intro h
    generalize hk : max (dropPrec a.prec x.c) (dropExp a.exp x.exp) = k at h
    have hdiv := Nat.div_add_mod x.c (2 ^ k)
    rw [h, Nat.add_zero] at hdiv
    refine ⟨x.c / 2 ^ k, x.exp + k, by omega, ?_, fun p hp => ?_, fun E hE => ?_⟩
    · rw [hX]
      have : (x.exp + (k : Int) - x.exp).toNat = k := by omega
      rw [this, Nat.mul_comm]; exact hdiv.symm
    · have hk1 : bitLength x.c - p ≤ k := by rw [hp] at hk; simp only [dropPrec] at hk; omega
      have h1 : x.c < 2 ^ bitLength x.c := (bitLength_le_iff x.c _).1 (Nat.le_refl _)
      have h2 : 2 ^ bitLength x.c ≤ 2 ^ (p + k) := Nat.pow_le_pow_right (by decide) (by omega)
      rw [Nat.pow_add] at h2
      have h3 : x.c / 2 ^ k * 2 ^ k < 2 ^ p * 2 ^ k := by rw [Nat.mul_comm] at hdiv; omega
      exact Nat.lt_of_mul_lt_mul_right h3
    · have hk2 : (E - x.exp).toNat ≤ k := by rw [hE] at hk; simp only [dropExp] at hk; omega
      omega
  · rintro ⟨m, e, hge, hm, hp, hE⟩
    rw [hX] at hm
    generalize hj : (e - x.exp).toNat = j at hm
    have hm0 : m ≠ 0 := by intro h0; rw [h0] at hm; simp at hm; exact hc hm
    have h1 : dropPrec a.prec x.c ≤ j := by
      cases hpp : a.prec with
      | none => simp [dropPrec]
      | some p =>
        have hmp := hp p hpp
        have hb : bitLength m ≤ p := (bitLength_le_iff m p).2 hmp
        have : bitLength x.c = bitLength m + j := by rw [hm]; exact bitLength_shift m j hm0
        simp only [dropPrec]; omega
    have h2 : dropExp a.exp x.exp ≤ j := by
      cases hee : a.exp with
      | none => simp [dropExp]
      | some E => have := hE E hee; simp only [dropExp]; omega
    have hkj : max (dropPrec a.prec x.c) (dropExp a.exp x.exp) ≤ j := by omega
    generalize max (dropPrec a.prec x.c) (dropExp a.exp x.exp) = k at hkj ⊢
    have : j = (j - k) + k := by omega
    rw [hm, this, Nat.pow_add, ← Nat.mul_assoc]
    exact Nat.mul_mod_left _ _

/-- **the driver's `member` operation decides γ** -/
theorem member_iff (a : AbsFmt) (v : FV) : a.member v = true ↔ γ a v := by
  cases v with
  | nan s => exact Iff.rfl
  | inf s => cases s <;> exact Iff.rfl
  | fin x =>
    simp only [member, γ, finMem]
    by_cases hc : x.c = 0
    · simp only [hc, if_true]
      cases x.s <;> simp
    · simp only [hc, if_false, Bool.and_eq_true, decide_eq_true_eq]
      rw [writableB_iff a x hc]
      constructor
      · rintro ⟨⟨h1, h2⟩, h3⟩; exact ⟨h1, h2, h3⟩
      · rintro ⟨h1, h2, h3⟩; exact ⟨⟨h1, h2⟩, h3⟩

/-- a non-zero value writable with `p` digits (no exponent bound) is returned unchanged and
unflagged by `RealFloat.round(max_p = p)` — what `MPFloatContext(p).round` does with it -/
theorem round_of_writable (x : RF) (p : Nat) (hp : 1 ≤ p) (hc : x.c ≠ 0) (rm : RM)
    (hw : (⟨some p, none, .inf false, .inf true, false, false, false, false⟩ : AbsFmt).Writable x) :
    ∃ y fl, x.round (some p) none rm = .ok (y, fl) ∧ y.eqV x ∧ y.s = x.s ∧ fl.inexact = false := by
  have hwb := (writableB_iff _ x hc).2 hw
  simp only [writableB, dropPrec, dropExp, Nat.max_zero, beq_iff_eq] at hwb
  have hround : ∃ y fl, x.round (some p) none rm = .ok (y, fl) ∧ y.s = x.s ∧ bitLength y.c ≤ p ∧ y.exp > x.e - p ∧
      (x.exp > x.e - p → y = x ∧ fl.inexact = false) ∧
      (x.exp ≤ x.e - p →
        y.c * 2 ^ (y.exp - (x.e - p + 1)).toNat = roundQuot rm x.s x.c (x.e - p + 1 - x.exp).toNat ∧
        fl.inexact = decide (x.c % 2 ^ (x.e - p + 1 - x.exp).toNat ≠ 0)) := by
    unfold RF.round RF.roundParams
    simp only [if_true]
    exact roundAtCore_prec x p (x.e - p) none rm hc hp (by omega)
  obtain ⟨y, fl, hr, hs, _, hyexp, hfast, hslow⟩ := hround
  refine ⟨y, fl, hr, ?_, hs, ?_⟩
  · by_cases hcase : x.exp > x.e - p
    · rw [(hfast hcase).1]; rfl
    · have hle : x.exp ≤ x.e - p := by omega
      have hk : (x.e - p + 1 - x.exp).toNat = bitLength x.c - p := by unfold RF.e RF.p at *; omega
      have ⟨hq, _⟩ := hslow hle
      rw [hk, roundQuot_exact rm x.s x.c _ hwb] at hq
      rw [eqV_iff y x x.exp (Or.inr (by omega)) (okAt_self x), sc_eq_mag, sc_eq_mag, hs]
      congr 1
      unfold mag
      simp only [Int.sub_self, Int.toNat_zero, Nat.pow_zero, Nat.mul_one]
      have hsplit : (y.exp - x.exp).toNat = (y.exp - (x.e - p + 1)).toNat + (bitLength x.c - p) := by
        unfold RF.e RF.p at *; omega
      have hdiv := Nat.div_add_mod x.c (2 ^ (bitLength x.c - p))
      rw [hwb, Nat.add_zero] at hdiv
      rw [hsplit, Nat.pow_add, ← Nat.mul_assoc, hq, Nat.mul_comm]
      exact congrArg _ hdiv
  · by_cases hcase : x.exp > x.e - p
    · exact (hfast hcase).2
    · have hle : x.exp ≤ x.e - p := by omega
      have hk : (x.e - p + 1 - x.exp).toNat = bitLength x.c - p := by unfold RF.e RF.p at *; omega
      rw [(hslow hle).2, hk]; simp [hwb]

end AbsFmt
end Fpy
