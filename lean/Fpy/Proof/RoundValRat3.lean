/-
Part 12 of the value-level helpers for C01: `mpfr_value` of a non-dyadic rational followed by the
rounding core is the correct rounding of the rational (fixed and float shapes).
-/
import Fpy.Proof.RoundValRat2
namespace Fpy.C01v
open Fpy Fpy.Spec

/-- the signed rational `(-1)^neg · N/D` -/
def ratVal (neg : Bool) (N D : Nat) : Rat := RF.sgn neg * ((N : Rat) / (D : Rat))

theorem rtoRat_eq (neg : Bool) (N D prec : Nat) :
    rtoRat neg N D prec =
      ⟨neg, ratE N D - prec + 1,
        rtoBit (ratA N (ratE N D - prec + 1) / ratB D (ratE N D - prec + 1))
          (ratA N (ratE N D - prec + 1) % ratB D (ratE N D - prec + 1) != 0)⟩ := by
  unfold rtoRat
  rw [truncRat_eq]
  rfl

theorem bitLength_ne_zero {c k : Nat} (hk : 1 ≤ k) (h : bitLength c = k) : c ≠ 0 := by
  intro hc; rw [hc] at h; unfold bitLength at h; simp at h; omega

/-- shape of the round-to-odd intermediate of `N/D`: `prec` digits, binade exponent `ratE` -/
theorem rtoRat_shape' (neg : Bool) (N D prec : Nat) (hN : N ≠ 0) (hD : 0 < D) (hp : 1 ≤ prec) :
    (rtoRat neg N D prec).c ≠ 0 ∧ (rtoRat neg N D prec).s = neg ∧
    (rtoRat neg N D prec).exp = ratE N D - prec + 1 ∧ (rtoRat neg N D prec).e = ratE N D := by
  have hb := truncRat_bits N D prec hN hD hp
  have hb' := bitLength_rtoBit _ prec (ratA N (ratE N D - prec + 1) % ratB D (ratE N D - prec + 1) != 0) hp hb
  rw [rtoRat_eq]
  refine ⟨bitLength_ne_zero hp hb', rfl, rfl, ?_⟩
  unfold RF.e RF.p
  simp only [hb']
  omega

/-- rounding the intermediate on any grid at least two digits above its last digit -/
theorem rtoRat_roundVal (rm : RM) (neg : Bool) (N D prec : Nat) (hD : 0 < D) (u : Int)
    (hu : ratE N D - prec + 1 + 2 ≤ u) :
    roundVal rm u (rtoRat neg N D prec).val = roundVal rm u (ratVal neg N D) ∧
    (OnGrid u (rtoRat neg N D prec).val ↔ OnGrid u (ratVal neg N D)) := by
  rw [rtoRat_eq]
  have hB := ratB_pos D hD (ratE N D - prec + 1)
  have hv := ratAB_val N D hD (ratE N D - prec + 1)
  have := rto_roundVal rm neg (ratA N (ratE N D - prec + 1)) (ratB D (ratE N D - prec + 1)) hB
    (ratE N D - prec + 1) u hu
  have hq : RF.sgn neg * ((ratA N (ratE N D - prec + 1) : Rat) / (ratB D (ratE N D - prec + 1) : Rat)) *
      (2 : Rat) ^ (ratE N D - prec + 1) = ratVal neg N D := by
    unfold ratVal; rw [← hv]; grind
  rw [hq] at this
  exact this

/-- **Fixed shape**: `mpfr_value(x, n = n)` of the rational, then `round(min_n = n)`, is the correct
rounding of the rational to the grid `2^(n+1)`; `inexact` is clear exactly when it is on that grid. -/
theorem frac_round_fixed (neg : Bool) (N D : Nat) (n : Int) (rm : RM) (hN : N ≠ 0) (hD : 0 < D) :
    ∃ xi y fl, mpfrValue neg N D none (some n) = .ok xi ∧ xi.c ≠ 0 ∧ xi.s = neg ∧
      xi.round none (some n) rm = .ok (y, fl) ∧ y.s = neg ∧ y.exp > n ∧
      y.val = roundVal rm (n + 1) (ratVal neg N D) ∧
      (fl.inexact = false ↔ OnGrid (n + 1) (ratVal neg N D)) := by
  have hb2 := truncRat_bits N D 2 hN hD (by omega)
  have main : ∀ prec : Nat, 1 ≤ prec → ratE N D - prec + 1 + 2 ≤ n + 1 →
      ∃ y fl, (rtoRat neg N D prec).c ≠ 0 ∧ (rtoRat neg N D prec).s = neg ∧
        (rtoRat neg N D prec).round none (some n) rm = .ok (y, fl) ∧ y.s = neg ∧ y.exp > n ∧
        y.val = roundVal rm (n + 1) (ratVal neg N D) ∧
        (fl.inexact = false ↔ OnGrid (n + 1) (ratVal neg N D)) := by
    intro prec hp hu
    obtain ⟨s1, s2, -, -⟩ := rtoRat_shape' neg N D prec hN hD hp
    obtain ⟨y, fl, hr, a, b, c, d⟩ := fixed_round_total (rtoRat neg N D prec) n rm
    obtain ⟨r1, r2⟩ := rtoRat_roundVal rm neg N D prec hD (n + 1) hu
    exact ⟨y, fl, s1, s2, hr, by rw [a, s2], b, by rw [c, r1], by rw [d, r2]⟩
  unfold mpfrValue
  simp only [truncRat_eq N D 2]
  rw [hb2]
  by_cases he : ratE N D - ((2 : Nat) : Int) + 1 + ((2 : Nat) : Int) - 1 ≤ n
  · rw [if_pos he]
    obtain ⟨y, fl, h⟩ := main 2 (by omega) (by omega)
    exact ⟨_, y, fl, rfl, h⟩
  · rw [if_neg he]
    obtain ⟨y, fl, h⟩ := main ((ratE N D - ((2 : Nat) : Int) + 1 + ((2 : Nat) : Int) - 1 - n).toNat + 2) (by omega) (by omega)
    exact ⟨_, y, fl, rfl, h⟩

/-- the rounding position of the float shape for the rational `N/D` (binade exponent `ratE N D`) -/
def ratN (N D p : Nat) (minN : Option Int) : Int :=
  match minN with | none => ratE N D - p | some m => max m (ratE N D - p)

/-- **Float shape**: `mpfr_value(x, prec = p)` (that is `p + 2` digits, round to odd), then
`round(max_p = p, min_n)`, is the correct rounding of the rational to the grid `2^(n+1)`,
`n = max(nmin, e − p)` with `e` the binade exponent of the rational. -/
theorem frac_round_float (neg : Bool) (N D p : Nat) (minN : Option Int) (rm : RM) (hN : N ≠ 0) (hD : 0 < D)
    (hp : 1 ≤ p) :
    (rtoRat neg N D (p + 2)).c ≠ 0 ∧ (rtoRat neg N D (p + 2)).s = neg ∧
    ∃ y fl, (rtoRat neg N D (p + 2)).round (some p) minN rm = .ok (y, fl) ∧
      y.s = neg ∧ bitLength y.c ≤ p ∧ y.exp > ratN N D p minN ∧
      y.val = roundVal rm (ratN N D p minN + 1) (ratVal neg N D) ∧
      (fl.inexact = false ↔ OnGrid (ratN N D p minN + 1) (ratVal neg N D)) := by
  obtain ⟨s1, s2, s3, s4⟩ := rtoRat_shape' neg N D (p + 2) hN hD (by omega)
  refine ⟨s1, s2, ?_⟩
  obtain ⟨y, fl, hr, a, b, c, d, e⟩ := float_val (rtoRat neg N D (p + 2)) p minN rm s1 hp
  have hn : floatN (rtoRat neg N D (p + 2)) p minN = ratN N D p minN := by
    cases minN <;> simp only [floatN, ratN, s4]
  rw [hn] at c d e
  have hge : ratE N D - p ≤ ratN N D p minN := by
    unfold ratN; cases minN <;> simp <;> omega
  obtain ⟨r1, r2⟩ := rtoRat_roundVal rm neg N D (p + 2) hD (ratN N D p minN + 1) (by
    have : ((p + 2 : Nat) : Int) = (p : Int) + 2 := by omega
    omega)
  exact ⟨y, fl, hr, by rw [a, s2], b, c, by rw [d, r1], by rw [e, r2]⟩

/-- the binade of the rational: `2^e ≤ |N/D| < 2^(e+1)` with `e = ratE N D` -/
theorem ratVal_binade (neg : Bool) (N D : Nat) (hN : N ≠ 0) (hD : 0 < D) :
    (2 : Rat) ^ ratE N D ≤ (ratVal neg N D).abs ∧ (ratVal neg N D).abs < (2 : Rat) ^ (ratE N D + 1) := by
  have h := ratE_spec N D hN hD
  have hpos : (0 : Rat) ≤ (N : Rat) / (D : Rat) := by
    rw [Rat.div_def]; exact Rat.mul_nonneg Rat.natCast_nonneg (Rat.le_of_lt (Rat.inv_pos.2 (natCast_pos' hD)))
  have : (ratVal neg N D).abs = (N : Rat) / (D : Rat) := by
    unfold ratVal
    cases neg
    · simp only [RF.sgn, Bool.false_eq_true, if_false, Rat.one_mul]; exact Rat.abs_of_nonneg hpos
    · simp only [RF.sgn, if_true, Rat.neg_mul, Rat.one_mul, Rat.abs_neg]; exact Rat.abs_of_nonneg hpos
  rw [this]; exact h

end Fpy.C01v
