/-
The rewrite schemas with syntactic side conditions (`x ∉ readsB rest`, `x ∉ bvB ss`, …), obtained
from the checker-style theorems of LangRewrite / LangInline and the syntactic facts of LangSyntax.
-/
import Fpy.Proof.LangSyntax
namespace Fpy.Xform
open Fpy Fpy.Lang

theorem idRel_bindOK (xs : List String) (w : String) : (idRel xs).bindOK w w = true := by
  unfold VRel.bindOK idRel
  rw [List.all_eq_true]
  intro p hp
  rw [List.mem_map] at hp
  obtain ⟨x, _, rfl⟩ := hp
  exact beq_self_eq_true _

theorem VRel.bindOK_append (R S : VRel) (a b : String) : VRel.bindOK (R ++ S) a b = (R.bindOK a b && S.bindOK a b) := by
  unfold VRel.bindOK; rw [List.all_append]

/-- a block reads only variables of `xs` ⇒ the checker accepts it against itself under the identity on `xs` -/
theorem simB_idRel_of_reads {xs : List String} {ss : List Stmt} (h : ∀ z ∈ readsB ss, z ∈ xs) :
    simB (idRel xs) ss ss = true := by
  have := simB_ren (idRel xs) id ss (fun z hz => (idRel_has xs z z).2 ⟨rfl, h z hz⟩)
    (fun z hz => (idRel_has xs z z).2 ⟨rfl, h z hz⟩) (fun w _ => idRel_bindOK xs w)
  rwa [renB_id] at this

theorem simE_idRel_of_reads {xs : List String} {e : Expr} (h : ∀ z ∈ readsE e, z ∈ xs) :
    simE (idRel xs) e e = true := by
  have := simE_ren (idRel xs) id e (fun z hz => (idRel_has xs z z).2 ⟨rfl, h z hz⟩) (fun w _ => idRel_bindOK xs w)
  rwa [renE_id] at this

theorem simEs_idRel_of_reads {xs : List String} {es : List Expr} (h : ∀ z ∈ readsEs es, z ∈ xs) :
    simEs (idRel xs) es es = true := by
  have := simEs_ren (idRel xs) id es (fun z hz => (idRel_has xs z z).2 ⟨rfl, h z hz⟩) (fun w _ => idRel_bindOK xs w)
  rwa [renEs_id] at this

/-! ### evaluation depends only on the variables read -/

/-- ENV-AGREEMENT for expressions, at every fuel -/
theorem evalE_congr_env (Φ : Funs) (n : Nat) {σ1 σ2 : Env} (μ : Heap) (C : Ctx) (e : Expr)
    (h : ∀ z ∈ readsE e, σ1.get? z = σ2.get? z) : evalE Φ n σ1 μ C e = evalE Φ n σ2 μ C e :=
  (simAt Φ (idRel (readsE e)) n).evalE σ1 σ2 e e (inv_idRel.2 h) (simE_idRel_of_reads (fun _ hz => hz)) μ C

/-- ENV-AGREEMENT for blocks, at every fuel: same error / same returned value and heap / final
environments that still agree on `xs`, for every `xs` containing the variables read -/
theorem evalB_congr_env (Φ : Funs) (n : Nat) {σ1 σ2 : Env} (μ : Heap) (C : Ctx) (ss : List Stmt) (xs : List String)
    (hxs : ∀ z ∈ readsB ss, z ∈ xs) (h : ∀ z ∈ xs, σ1.get? z = σ2.get? z) :
    RelM (OutRel (idRel xs)) (evalB Φ n σ1 μ C ss) (evalB Φ n σ2 μ C ss) :=
  (simAt Φ (idRel xs) n).evalB σ1 σ2 ss ss (inv_idRel.2 h) (simB_idRel_of_reads hxs) μ C

theorem returns_congr_env (Φ : Funs) {σ1 σ2 : Env} (μ : Heap) (C : Ctx) (ss : List Stmt)
    (h : ∀ z ∈ readsB ss, σ1.get? z = σ2.get? z) (v : Val) (μ' : Heap) :
    Returns Φ σ1 μ C ss v μ' ↔ Returns Φ σ2 μ C ss v μ' :=
  sim_returns (inv_idRel.2 h) (simB_idRel_of_reads (fun _ hz => hz)) μ C v μ'

/-! ### C07 with syntactic side conditions -/

/-- DEAD ASSIGNMENT ELIMINATION: `x` is not read afterwards (not returned either) and the
right-hand side is pure and total in the current state -/
theorem dead_assign_elim_syn {Φ : Funs} {x : String} {e : Expr} {rest : List Stmt} (hx : x ∉ readsB rest)
    {σ : Env} {μ : Heap} {C : Ctx} (hp : PureTotal Φ σ μ C e) (w : Val) (μ' : Heap) :
    Returns Φ σ μ C (.assign (.var x) e :: rest) w μ' ↔ Returns Φ σ μ C rest w μ' :=
  dead_assign_elim hx (simB_idRel_of_reads (fun _ hz => hz)) hp w μ'

theorem dead_assign_elim_syn_returns {Φ : Funs} {x : String} {e : Expr} {rest : List Stmt} (hx : x ∉ readsB rest)
    {σ : Env} {μ : Heap} {C : Ctx} (hp : HeapNeutral Φ σ μ C e) (w : Val) (μ' : Heap) :
    Returns Φ σ μ C (.assign (.var x) e :: rest) w μ' → Returns Φ σ μ C rest w μ' :=
  dead_assign_elim_returns hx (simB_idRel_of_reads (fun _ hz => hz)) hp w μ'

theorem self_assign_elim_syn {Φ : Funs} {x : String} {rest : List Stmt} {σ : Env} {μ : Heap} {C : Ctx} {v : Val}
    (hb : σ.get? x = some v) (w : Val) (μ' : Heap) :
    Returns Φ σ μ C (.assign (.var x) (.var x) :: rest) w μ' ↔ Returns Φ σ μ C rest w μ' :=
  self_assign_elim (xs := readsB rest) (simB_idRel_of_reads (fun _ hz => hz)) hb w μ'

/-- a syntactic sufficient condition for `PureTotal`: a (bound) variable or a literal -/
def simpleE : Expr → Bool
  | .var _ => true
  | .bool _ => true
  | .num _ => true
  | .ctxLit _ => true
  | _ => false

theorem pureTotal_of_simple {Φ : Funs} {σ : Env} {μ : Heap} {C : Ctx} {e : Expr} (hs : simpleE e = true)
    (hb : ∀ z ∈ readsE e, (σ.get? z).isSome = true) : PureTotal Φ σ μ C e := by
  cases e <;> first
    | exact absurd hs Bool.false_ne_true
    | skip
  · rename_i x
    have := hb x (List.mem_singleton.2 rfl)
    cases hx : σ.get? x with
    | none => rw [hx] at this; cases this
    | some v => exact ⟨v, by rw [evalEω_var, hx]⟩
  · exact ⟨_, evalEω_bool Φ σ μ C _⟩
  · exact ⟨_, evalEω_num Φ σ μ C _⟩
  · exact ⟨_, evalEω_ctxLit Φ σ μ C _⟩

/-- the checker accepts `ss[y/x]` against `ss` when neither `x` nor `y` is bound in `ss` -/
theorem simB_subst {x y : String} {ss : List Stmt} (hx : x ∉ bvB ss) (hy : y ∉ bvB ss) :
    simB (cpRel (readsB ss) x y) (substB x y ss) ss = true := by
  unfold substB
  apply simB_ren
  · intro z hz
    unfold cpRel sub1
    rw [VRel.has_append, Bool.or_eq_true]
    by_cases hzx : z = x
    · right; rw [if_pos hzx, hzx]; exact (single_has y x y x).2 ⟨rfl, rfl⟩
    · left; rw [if_neg hzx]; exact (idRel_has _ z z).2 ⟨rfl, hz⟩
  · intro z hz
    unfold cpRel
    rw [VRel.has_append, Bool.or_eq_true]
    left; exact (idRel_has _ z z).2 ⟨rfl, hz⟩
  · intro w hw
    unfold cpRel
    rw [VRel.bindOK_append, Bool.and_eq_true]
    refine ⟨idRel_bindOK _ w, ?_⟩
    unfold VRel.bindOK
    have h1 : (y == w) = false := by
      rw [beq_eq_false_iff_ne]; intro h; exact hy (h ▸ hw)
    have h2 : (x == w) = false := by
      rw [beq_eq_false_iff_ne]; intro h; exact hx (h ▸ hw)
    simp only [List.all_cons, List.all_nil, Bool.and_true, h1, h2]
    rfl

/-- COPY PROPAGATION, substitution form: in `x = y; ss` where `ss` binds neither `x` nor `y`
(the repaired single-definition condition of `copy_propagate.py`), replacing the reads of `x` by
`y` in `ss` preserves what the block returns -/
theorem copy_prop_subst_sound {Φ : Funs} {x y : String} {ss : List Stmt} (hx : x ∉ bvB ss) (hy : y ∉ bvB ss)
    (σ : Env) (μ : Heap) (C : Ctx) (w : Val) (μ' : Heap) :
    Returns Φ σ μ C (.assign (.var x) (.var y) :: substB x y ss) w μ' ↔
      Returns Φ σ μ C (.assign (.var x) (.var y) :: ss) w μ' :=
  copy_prop_sound (simB_subst hx hy) σ μ C w μ'

/-- the expression-level substitution lemma: if `x` and `y` hold the same value then `e[y/x]` and `e`
evaluate alike (comprehension targets of `e` must not capture `x` or `y`) -/
theorem evalE_subst (Φ : Funs) (n : Nat) {σ : Env} (μ : Heap) (C : Ctx) {x y : String} (e : Expr)
    (hxy : σ.get? x = σ.get? y) (hx : x ∉ bvE e) (hy : y ∉ bvE e) :
    evalE Φ n σ μ C (renE (sub1 x y) e) = evalE Φ n σ μ C e := by
  refine (simAt Φ (cpRel (readsE e) x y) n).evalE σ σ _ e ?_ ?_ μ C
  · intro a b hab
    unfold cpRel at hab
    rw [VRel.has_append, Bool.or_eq_true] at hab
    rcases hab with hab | hab
    · obtain ⟨rfl, _⟩ := (idRel_has _ a b).1 hab; rfl
    · obtain ⟨rfl, rfl⟩ := (single_has y x a b).1 hab; exact hxy.symm
  · apply simE_ren
    · intro z hz
      unfold cpRel sub1
      rw [VRel.has_append, Bool.or_eq_true]
      by_cases hzx : z = x
      · right; rw [if_pos hzx, hzx]; exact (single_has y x y x).2 ⟨rfl, rfl⟩
      · left; rw [if_neg hzx]; exact (idRel_has _ z z).2 ⟨rfl, hz⟩
    · intro w hw
      unfold cpRel
      rw [VRel.bindOK_append, Bool.and_eq_true]
      refine ⟨idRel_bindOK _ w, ?_⟩
      unfold VRel.bindOK
      have h1 : (y == w) = false := by
        rw [beq_eq_false_iff_ne]; intro h; exact hy (h ▸ hw)
      have h2 : (x == w) = false := by
        rw [beq_eq_false_iff_ne]; intro h; exact hx (h ▸ hw)
      simp only [List.all_cons, List.all_nil, Bool.and_true, h1, h2]
      rfl

end Fpy.Xform
