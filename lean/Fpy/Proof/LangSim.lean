/-
Soundness of the simulation checker `simB` (Model/Lang/Sim.lean): programs that are the same up
to a variable correspondence `R`, started in `R`-related environments on the same heap under the
same context, have the same outcome at EVERY fuel — expressions evaluate to the same value and
heap, statements end in `R`-related environments / return the same value, with the same heap, or
fail with the same error.  One induction on the fuel over the ten evaluator functions.
-/
import Fpy.Model.Lang.Sim
import Fpy.Proof.LangRules
set_option linter.unusedSimpArgs false
namespace Fpy.Xform
open Fpy Fpy.Lang

/-! ### environments -/

theorem Env.get?_set (σ : Env) (x y : String) (v : Val) :
    (σ.set x v).get? y = if y = x then some v else σ.get? y := by
  unfold Env.set Env.get?
  by_cases h : y = x
  · subst h; simp
  · have hxy : (x == y) = false := by simp; exact fun h' => h h'.symm
    simp only [List.find?_cons, hxy, if_neg h]
    congr 1
    induction σ with
    | nil => rfl
    | cons a σ ih =>
      rw [List.filter_cons]
      by_cases ha : a.1 = x
      · have h1 : (a.1 != x) = false := by simp [ha]
        have h2 : (a.1 == y) = false := by rw [ha]; exact hxy
        rw [h1]; simp only [Bool.false_eq_true, if_false, List.find?_cons, h2]; exact ih
      · have h1 : (a.1 != x) = true := by simp [ha]
        rw [h1]; simp only [if_true, List.find?_cons]; rw [ih]

/-- `R`-related environments: related names hold the same value (or are both unbound) -/
def Inv (R : VRel) (σ1 σ2 : Env) : Prop := ∀ a b, R.has a b = true → σ1.get? a = σ2.get? b

theorem Inv.set {R : VRel} {σ1 σ2 : Env} (h : Inv R σ1 σ2) {a b : String} (hb : R.bindOK a b = true) (v : Val) :
    Inv R (σ1.set a v) (σ2.set b v) := by
  intro a' b' hab
  rw [Env.get?_set, Env.get?_set]
  have key : (a' = a) ↔ (b' = b) := by
    unfold VRel.has at hab
    unfold VRel.bindOK at hb
    rw [List.any_eq_true] at hab
    obtain ⟨p, hp, hp'⟩ := hab
    rw [List.all_eq_true] at hb
    have := hb p hp
    simp only [Bool.and_eq_true, beq_iff_eq] at hp'
    rw [hp'.1, hp'.2] at this
    simp only [beq_iff_eq] at this
    by_cases h1 : a' = a <;> by_cases h2 : b' = b <;> simp_all
  by_cases h1 : a' = a
  · rw [if_pos h1, if_pos (key.1 h1)]
  · rw [if_neg h1, if_neg (fun h2 => h1 (key.2 h2))]
    exact h a' b' hab

/-! ### results related up to a relation on values; errors must coincide -/

def RelM {α β : Type} (Q : α → β → Prop) : M α → M β → Prop
  | .ok x, .ok y => Q x y
  | .error e, .error e' => e = e'
  | _, _ => False

theorem RelM.bind {α β γ δ : Type} {P : α → β → Prop} {Q : γ → δ → Prop} {a : M α} {b : M β} {f : α → M γ} {g : β → M δ}
    (h : RelM P a b) (hf : ∀ x y, P x y → RelM Q (f x) (g y)) : RelM Q (a >>= f) (b >>= g) := by
  cases a <;> cases b <;> simp only [RelM] at h
  · subst h; rfl
  · exact hf _ _ h

theorem RelM.bind_same {α γ δ : Type} {Q : γ → δ → Prop} {a : M α} {f : α → M γ} {g : α → M δ}
    (hf : ∀ x, RelM Q (f x) (g x)) : RelM Q (a >>= f) (a >>= g) := by
  cases a
  · rfl
  · exact hf _

theorem RelM.eq_iff {α : Type} {a b : M α} : RelM Eq a b ↔ a = b := by
  cases a <;> cases b <;> simp [RelM]

/-- outcomes related: same returned value / `R`-related final environments, and the same heap -/
def OutRel (R : VRel) : Outcome × Heap → Outcome × Heap → Prop
  | (.ret v, μ), (.ret w, μ') => v = w ∧ μ = μ'
  | (.normal σ1, μ), (.normal σ2, μ') => Inv R σ1 σ2 ∧ μ = μ'
  | _, _ => False

/-! ### pattern matching -/

theorem bindPat_sim (R : VRel) : ∀ (n : Nat) (p q : Pat) (v : Val) (σ1 σ2 : Env), Inv R σ1 σ2 → simP R p q = true →
    RelM (Inv R) (bindPat n p v σ1) (bindPat n q v σ2) := by
  intro n
  induction n with
  | zero => intro p q v σ1 σ2 _ _; simp only [bindPat, RelM]
  | succ n ih =>
    have hgo : ∀ (ps qs : List Pat) (vs : List Val) (σ1 σ2 : Env), Inv R σ1 σ2 → simPs R ps qs = true →
        RelM (Inv R) (bindPat.go n ps vs σ1) (bindPat.go n qs vs σ2) := by
      intro ps
      induction ps with
      | nil =>
        intro qs vs σ1 σ2 hinv h
        cases qs with
        | nil => simp only [bindPat.go]; exact hinv
        | cons q qs => simp [simPs] at h
      | cons p ps ihp =>
        intro qs vs σ1 σ2 hinv h
        cases qs with
        | nil => simp [simPs] at h
        | cons q qs =>
          simp only [simPs, Bool.and_eq_true] at h
          cases vs with
          | nil => simp only [bindPat.go]; exact hinv
          | cons v vs =>
            simp only [bindPat.go]
            exact RelM.bind (ih p q v σ1 σ2 hinv h.1) (fun σ1' σ2' hi => ihp qs vs σ1' σ2' hi h.2)
    have hlen : ∀ (ps qs : List Pat), simPs R ps qs = true → ps.length = qs.length := by
      intro ps
      induction ps with
      | nil => intro qs h; cases qs with
        | nil => rfl
        | cons q qs => simp [simPs] at h
      | cons p ps ihp => intro qs h; cases qs with
        | nil => simp [simPs] at h
        | cons q qs =>
          simp only [simPs, Bool.and_eq_true] at h
          simp only [List.length_cons, ihp qs h.2]
    intro p q v σ1 σ2 hinv h
    cases p <;> cases q <;> simp only [simP, Bool.false_eq_true] at h
    · simp only [bindPat]; exact hinv.set h v
    · simp only [bindPat]; exact hinv
    · rename_i ps qs
      cases v <;> simp only [bindPat] <;> try (exact rfl)
      rw [hlen ps qs h]
      split
      · exact rfl
      · exact hgo ps qs _ σ1 σ2 hinv h

structure SimAt (Φ : Funs) (R : VRel) (n : Nat) : Prop where
  evalE : ∀ σ1 σ2 e1 e2, Inv R σ1 σ2 → simE R e1 e2 = true → ∀ μ C, evalE Φ n σ1 μ C e1 = evalE Φ n σ2 μ C e2
  evalEs : ∀ σ1 σ2 es1 es2, Inv R σ1 σ2 → simEs R es1 es2 = true → ∀ μ C, evalEs Φ n σ1 μ C es1 = evalEs Φ n σ2 μ C es2
  evalChain : ∀ σ1 σ2 es1 es2, Inv R σ1 σ2 → simEs R es1 es2 = true →
    ∀ μ C a ops, evalChain Φ n σ1 μ C a ops es1 = evalChain Φ n σ2 μ C a ops es2
  evalAnd : ∀ σ1 σ2 es1 es2, Inv R σ1 σ2 → simEs R es1 es2 = true → ∀ μ C, evalAnd Φ n σ1 μ C es1 = evalAnd Φ n σ2 μ C es2
  evalOr : ∀ σ1 σ2 es1 es2, Inv R σ1 σ2 → simEs R es1 es2 = true → ∀ μ C, evalOr Φ n σ1 μ C es1 = evalOr Φ n σ2 μ C es2
  evalComp : ∀ σ1 σ2 ps1 ps2 its1 its2 elt1 elt2, Inv R σ1 σ2 → simPs R ps1 ps2 = true → simEs R its1 its2 = true →
    simE R elt1 elt2 = true → ∀ μ C, evalComp Φ n σ1 μ C ps1 its1 elt1 = evalComp Φ n σ2 μ C ps2 its2 elt2
  compLoop : ∀ σ1 σ2 p1 p2 ps1 ps2 its1 its2 elt1 elt2, Inv R σ1 σ2 → simP R p1 p2 = true → simPs R ps1 ps2 = true →
    simEs R its1 its2 = true → simE R elt1 elt2 = true →
    ∀ μ C r i, compLoop Φ n σ1 μ C r i p1 ps1 its1 elt1 = compLoop Φ n σ2 μ C r i p2 ps2 its2 elt2
  evalS : ∀ σ1 σ2 s1 s2, Inv R σ1 σ2 → simS R s1 s2 = true →
    ∀ μ C, RelM (OutRel R) (evalS Φ n σ1 μ C s1) (evalS Φ n σ2 μ C s2)
  forLoop : ∀ σ1 σ2 p1 p2 b1 b2, Inv R σ1 σ2 → simP R p1 p2 = true → simB R b1 b2 = true →
    ∀ μ C r i, RelM (OutRel R) (forLoop Φ n σ1 μ C r i p1 b1) (forLoop Φ n σ2 μ C r i p2 b2)
  evalB : ∀ σ1 σ2 ss1 ss2, Inv R σ1 σ2 → simB R ss1 ss2 = true →
    ∀ μ C, RelM (OutRel R) (evalB Φ n σ1 μ C ss1) (evalB Φ n σ2 μ C ss2)



/-- invert `h : simE R (.c …) e2 = true`: `e2` has the same head constructor -/
macro "inv_sim" h:ident e:ident : tactic => `(tactic| (cases $e:ident <;> first | exact absurd $h Bool.false_ne_true | skip))

theorem sim_evalE_step {Φ : Funs} {R : VRel} {n : Nat} (ih : SimAt Φ R n) :
    ∀ σ1 σ2 e1 e2, Inv R σ1 σ2 → simE R e1 e2 = true → ∀ μ C, evalE Φ (n+1) σ1 μ C e1 = evalE Φ (n+1) σ2 μ C e2 := by
  intro σ1 σ2 e1 e2 hinv h μ C
  cases e1 with
  | var x0 =>
    inv_sim h e2
    rename_i y0
    replace h : (R.has x0 y0) = true := h
    have h0 := h
    simp only [evalE, hinv _ _ h0]
  | bool x0 =>
    inv_sim h e2
    rename_i y0
    replace h : ((x0 == y0)) = true := h
    simp only [Bool.and_eq_true, decide_eq_true_eq, beq_iff_eq] at h
    subst h
    rfl
  | num x0 =>
    inv_sim h e2
    rename_i y0
    replace h : (decide (x0 = y0)) = true := h
    simp only [Bool.and_eq_true, decide_eq_true_eq, beq_iff_eq] at h
    subst h
    rfl
  | ctxLit x0 =>
    inv_sim h e2
    rename_i y0
    replace h : (decide (x0 = y0)) = true := h
    simp only [Bool.and_eq_true, decide_eq_true_eq, beq_iff_eq] at h
    subst h
    rfl
  | op x0 x1 =>
    inv_sim h e2
    rename_i y0 y1
    replace h : (decide (x0 = y0) && simEs R x1 y1) = true := h
    simp only [Bool.and_eq_true, decide_eq_true_eq, beq_iff_eq] at h
    obtain ⟨rfl, h1⟩ := h
    simp only [evalE, ih.evalEs σ1 σ2 _ _ hinv h1]
  | pred x0 x1 =>
    inv_sim h e2
    rename_i y0 y1
    replace h : (decide (x0 = y0) && simE R x1 y1) = true := h
    simp only [Bool.and_eq_true, decide_eq_true_eq, beq_iff_eq] at h
    obtain ⟨rfl, h1⟩ := h
    simp only [evalE, ih.evalE σ1 σ2 _ _ hinv h1]
  | cmp x0 x1 =>
    inv_sim h e2
    rename_i y0 y1
    replace h : (decide (x0 = y0) && simEs R x1 y1) = true := h
    simp only [Bool.and_eq_true, decide_eq_true_eq, beq_iff_eq] at h
    obtain ⟨rfl, h1⟩ := h
    cases x1 <;> cases y1 <;> (try (exact absurd h1 Bool.false_ne_true))
    · simp only [evalE]
    · rename_i a as b bs
      replace h1 : (simE R a b && simEs R as bs) = true := h1
      simp only [Bool.and_eq_true] at h1
      simp only [evalE, ih.evalE σ1 σ2 _ _ hinv h1.1, ih.evalChain σ1 σ2 _ _ hinv h1.2]
  | not x0 =>
    inv_sim h e2
    rename_i y0
    replace h : (simE R x0 y0) = true := h
    have h0 := h
    simp only [evalE, ih.evalE σ1 σ2 _ _ hinv h0]
  | and x0 =>
    inv_sim h e2
    rename_i y0
    replace h : (simEs R x0 y0) = true := h
    have h0 := h
    simp only [evalE, ih.evalAnd σ1 σ2 _ _ hinv h0]
  | or x0 =>
    inv_sim h e2
    rename_i y0
    replace h : (simEs R x0 y0) = true := h
    have h0 := h
    simp only [evalE, ih.evalOr σ1 σ2 _ _ hinv h0]
  | ite x0 x1 x2 =>
    inv_sim h e2
    rename_i y0 y1 y2
    replace h : (simE R x0 y0 && simE R x1 y1 && simE R x2 y2) = true := h
    simp only [Bool.and_eq_true, decide_eq_true_eq, beq_iff_eq] at h
    obtain ⟨⟨h0, h1⟩, h2⟩ := h
    simp only [evalE, ih.evalE σ1 σ2 _ _ hinv h0, ih.evalE σ1 σ2 _ _ hinv h1, ih.evalE σ1 σ2 _ _ hinv h2]
  | tuple x0 =>
    inv_sim h e2
    rename_i y0
    replace h : (simEs R x0 y0) = true := h
    have h0 := h
    simp only [evalE, ih.evalEs σ1 σ2 _ _ hinv h0]
  | list x0 =>
    inv_sim h e2
    rename_i y0
    replace h : (simEs R x0 y0) = true := h
    have h0 := h
    simp only [evalE, ih.evalEs σ1 σ2 _ _ hinv h0]
  | index x0 x1 =>
    inv_sim h e2
    rename_i y0 y1
    replace h : (simE R x0 y0 && simE R x1 y1) = true := h
    simp only [Bool.and_eq_true, decide_eq_true_eq, beq_iff_eq] at h
    obtain ⟨h0, h1⟩ := h
    simp only [evalE, ih.evalE σ1 σ2 _ _ hinv h0, ih.evalE σ1 σ2 _ _ hinv h1]
  | slice x0 x1 x2 =>
    inv_sim h e2
    rename_i y0 y1 y2
    replace h : (simE R x0 y0 && simO R x1 y1 && simO R x2 y2) = true := h
    simp only [Bool.and_eq_true, decide_eq_true_eq, beq_iff_eq] at h
    obtain ⟨⟨h0, h1⟩, h2⟩ := h
    have e1 := ih.evalE σ1 σ2 _ _ hinv h0
    have hs : ∀ x y, x1 = some x → y1 = some y → ∀ μ C, evalE Φ n σ1 μ C x = evalE Φ n σ2 μ C y := by
      intro x y hx hy; subst hx hy; exact ih.evalE _ _ _ _ hinv h1
    have ht : ∀ x y, x2 = some x → y2 = some y → ∀ μ C, evalE Φ n σ1 μ C x = evalE Φ n σ2 μ C y := by
      intro x y hx hy; subst hx hy; exact ih.evalE _ _ _ _ hinv h2
    cases x1 <;> cases y1 <;> (try (exact absurd h1 Bool.false_ne_true)) <;>
    cases x2 <;> cases y2 <;> (try (exact absurd h2 Bool.false_ne_true)) <;>
    first
    | simp only [evalE, e1, hs _ _ rfl rfl, ht _ _ rfl rfl]
    | simp only [evalE, e1, hs _ _ rfl rfl]
    | simp only [evalE, e1, ht _ _ rfl rfl]
    | simp only [evalE, e1]
  | comp x0 x1 x2 =>
    inv_sim h e2
    rename_i y0 y1 y2
    replace h : (simPs R x0 y0 && simEs R x1 y1 && simE R x2 y2) = true := h
    simp only [Bool.and_eq_true, decide_eq_true_eq, beq_iff_eq] at h
    obtain ⟨⟨h0, h1⟩, h2⟩ := h
    simp only [evalE, ih.evalComp σ1 σ2 _ _ _ _ _ _ hinv h0 h1 h2]
  | len x0 =>
    inv_sim h e2
    rename_i y0
    replace h : (simE R x0 y0) = true := h
    have h0 := h
    simp only [evalE, ih.evalE σ1 σ2 _ _ hinv h0]
  | range x0 =>
    inv_sim h e2
    rename_i y0
    replace h : (simEs R x0 y0) = true := h
    have h0 := h
    simp only [evalE, ih.evalEs σ1 σ2 _ _ hinv h0]
  | zip x0 =>
    inv_sim h e2
    rename_i y0
    replace h : (simEs R x0 y0) = true := h
    have h0 := h
    simp only [evalE, ih.evalEs σ1 σ2 _ _ hinv h0]
  | enumerate x0 =>
    inv_sim h e2
    rename_i y0
    replace h : (simE R x0 y0) = true := h
    have h0 := h
    simp only [evalE, ih.evalE σ1 σ2 _ _ hinv h0]
  | sum x0 =>
    inv_sim h e2
    rename_i y0
    replace h : (simE R x0 y0) = true := h
    have h0 := h
    simp only [evalE, ih.evalE σ1 σ2 _ _ hinv h0]
  | min x0 =>
    inv_sim h e2
    rename_i y0
    replace h : (simEs R x0 y0) = true := h
    have h0 := h
    simp only [evalE, ih.evalEs σ1 σ2 _ _ hinv h0]
  | max x0 =>
    inv_sim h e2
    rename_i y0
    replace h : (simEs R x0 y0) = true := h
    have h0 := h
    simp only [evalE, ih.evalEs σ1 σ2 _ _ hinv h0]
  | any x0 =>
    inv_sim h e2
    rename_i y0
    replace h : (simE R x0 y0) = true := h
    have h0 := h
    simp only [evalE, ih.evalE σ1 σ2 _ _ hinv h0]
  | all x0 =>
    inv_sim h e2
    rename_i y0
    replace h : (simE R x0 y0) = true := h
    have h0 := h
    simp only [evalE, ih.evalE σ1 σ2 _ _ hinv h0]
  | roundAt x0 x1 =>
    inv_sim h e2
    rename_i y0 y1
    replace h : (simE R x0 y0 && simE R x1 y1) = true := h
    simp only [Bool.and_eq_true, decide_eq_true_eq, beq_iff_eq] at h
    obtain ⟨h0, h1⟩ := h
    simp only [evalE, ih.evalE σ1 σ2 _ _ hinv h0, ih.evalE σ1 σ2 _ _ hinv h1]
  | call x0 x1 =>
    inv_sim h e2
    rename_i y0 y1
    replace h : (decide (x0 = y0) && simEs R x1 y1) = true := h
    simp only [Bool.and_eq_true, decide_eq_true_eq, beq_iff_eq] at h
    obtain ⟨rfl, h1⟩ := h
    simp only [evalE, ih.evalEs σ1 σ2 _ _ hinv h1]


theorem sim_evalEs_step {Φ : Funs} {R : VRel} {n : Nat} (ih : SimAt Φ R n) :
    ∀ σ1 σ2 es1 es2, Inv R σ1 σ2 → simEs R es1 es2 = true → ∀ μ C, evalEs Φ (n+1) σ1 μ C es1 = evalEs Φ (n+1) σ2 μ C es2 := by
  intro σ1 σ2 es1 es2 hinv h μ C
  cases es1 <;> cases es2 <;> (try (exact absurd h Bool.false_ne_true))
  · simp only [evalEs]
  · rename_i a as b bs
    replace h : (simE R a b && simEs R as bs) = true := h
    simp only [Bool.and_eq_true] at h
    simp only [evalEs, ih.evalE σ1 σ2 _ _ hinv h.1, ih.evalEs σ1 σ2 _ _ hinv h.2]

theorem sim_evalChain_step {Φ : Funs} {R : VRel} {n : Nat} (ih : SimAt Φ R n) :
    ∀ σ1 σ2 es1 es2, Inv R σ1 σ2 → simEs R es1 es2 = true →
      ∀ μ C a ops, evalChain Φ (n+1) σ1 μ C a ops es1 = evalChain Φ (n+1) σ2 μ C a ops es2 := by
  intro σ1 σ2 es1 es2 hinv h μ C a ops
  cases es1 <;> cases es2 <;> (try (exact absurd h Bool.false_ne_true))
  · cases ops <;> simp only [evalChain]
  · rename_i a as b bs
    replace h : (simE R a b && simEs R as bs) = true := h
    simp only [Bool.and_eq_true] at h
    cases ops
    · simp only [evalChain]
    · simp only [evalChain, ih.evalE σ1 σ2 _ _ hinv h.1, ih.evalChain σ1 σ2 _ _ hinv h.2]

theorem sim_evalAnd_step {Φ : Funs} {R : VRel} {n : Nat} (ih : SimAt Φ R n) :
    ∀ σ1 σ2 es1 es2, Inv R σ1 σ2 → simEs R es1 es2 = true → ∀ μ C, evalAnd Φ (n+1) σ1 μ C es1 = evalAnd Φ (n+1) σ2 μ C es2 := by
  intro σ1 σ2 es1 es2 hinv h μ C
  cases es1 <;> cases es2 <;> (try (exact absurd h Bool.false_ne_true))
  · simp only [evalAnd]
  · rename_i a as b bs
    replace h : (simE R a b && simEs R as bs) = true := h
    simp only [Bool.and_eq_true] at h
    obtain ⟨h1, h2⟩ := h
    cases as <;> cases bs <;> (try (exact absurd h2 Bool.false_ne_true))
    · simp only [evalAnd, ih.evalE σ1 σ2 _ _ hinv h1]
    · simp only [evalAnd, ih.evalE σ1 σ2 _ _ hinv h1, ih.evalAnd σ1 σ2 _ _ hinv h2]

theorem sim_evalOr_step {Φ : Funs} {R : VRel} {n : Nat} (ih : SimAt Φ R n) :
    ∀ σ1 σ2 es1 es2, Inv R σ1 σ2 → simEs R es1 es2 = true → ∀ μ C, evalOr Φ (n+1) σ1 μ C es1 = evalOr Φ (n+1) σ2 μ C es2 := by
  intro σ1 σ2 es1 es2 hinv h μ C
  cases es1 <;> cases es2 <;> (try (exact absurd h Bool.false_ne_true))
  · simp only [evalOr]
  · rename_i a as b bs
    replace h : (simE R a b && simEs R as bs) = true := h
    simp only [Bool.and_eq_true] at h
    obtain ⟨h1, h2⟩ := h
    cases as <;> cases bs <;> (try (exact absurd h2 Bool.false_ne_true))
    · simp only [evalOr, ih.evalE σ1 σ2 _ _ hinv h1]
    · simp only [evalOr, ih.evalE σ1 σ2 _ _ hinv h1, ih.evalOr σ1 σ2 _ _ hinv h2]

theorem sim_evalComp_step {Φ : Funs} {R : VRel} {n : Nat} (ih : SimAt Φ R n) :
    ∀ σ1 σ2 ps1 ps2 its1 its2 elt1 elt2, Inv R σ1 σ2 → simPs R ps1 ps2 = true → simEs R its1 its2 = true →
      simE R elt1 elt2 = true → ∀ μ C, evalComp Φ (n+1) σ1 μ C ps1 its1 elt1 = evalComp Φ (n+1) σ2 μ C ps2 its2 elt2 := by
  intro σ1 σ2 ps1 ps2 its1 its2 elt1 elt2 hinv hps hits helt μ C
  cases ps1 <;> cases ps2 <;> (try (exact absurd hps Bool.false_ne_true))
  · simp only [evalComp, ih.evalE σ1 σ2 _ _ hinv helt]
  · rename_i p ps q qs
    replace hps : (simP R p q && simPs R ps qs) = true := hps
    simp only [Bool.and_eq_true] at hps
    cases its1 <;> cases its2 <;> (try (exact absurd hits Bool.false_ne_true))
    · simp only [evalComp]
    · rename_i a as b bs
      replace hits : (simE R a b && simEs R as bs) = true := hits
      simp only [Bool.and_eq_true] at hits
      simp only [evalComp, ih.evalE σ1 σ2 _ _ hinv hits.1,
        ih.compLoop σ1 σ2 _ _ _ _ _ _ _ _ hinv hps.1 hps.2 hits.2 helt]

theorem sim_compLoop_step {Φ : Funs} {R : VRel} {n : Nat} (ih : SimAt Φ R n) :
    ∀ σ1 σ2 p1 p2 ps1 ps2 its1 its2 elt1 elt2, Inv R σ1 σ2 → simP R p1 p2 = true → simPs R ps1 ps2 = true →
      simEs R its1 its2 = true → simE R elt1 elt2 = true →
      ∀ μ C r i, compLoop Φ (n+1) σ1 μ C r i p1 ps1 its1 elt1 = compLoop Φ (n+1) σ2 μ C r i p2 ps2 its2 elt2 := by
  intro σ1 σ2 p1 p2 ps1 ps2 its1 its2 elt1 elt2 hinv hp hps hits helt μ C r i
  simp only [compLoop, ih.compLoop σ1 σ2 _ _ _ _ _ _ _ _ hinv hp hps hits helt]
  congr 1; funext l
  cases l[i]? with
  | none => rfl
  | some x =>
    have := bindPat_sim R n p1 p2 x σ1 σ2 hinv hp
    cases h1 : bindPat n p1 x σ1 <;> cases h2 : bindPat n p2 x σ2 <;> rw [h1, h2] at this <;> simp only [RelM] at this
    · subst this; simp only [h1, h2]; rfl
    · simp only [h1, h2, bind, Except.bind, ih.evalComp _ _ _ _ _ _ _ _ this hps hits helt]

theorem OutRel.normal {R : VRel} {σ1 σ2 : Env} (h : Inv R σ1 σ2) (μ : Heap) :
    RelM (OutRel R) (.ok (.normal σ1, μ)) (.ok (.normal σ2, μ)) := ⟨h, rfl⟩

theorem OutRel.ret (R : VRel) (v : Val) (μ : Heap) :
    RelM (OutRel R) (.ok (.ret v, μ)) (.ok (.ret v, μ)) := ⟨rfl, rfl⟩

/-- both sides are the same computation up to the final environment -/
macro "rel_tac" hinv:ident : tactic => `(tactic| repeat (first
  | exact OutRel.normal $hinv _
  | exact OutRel.ret _ _ _
  | exact (rfl : RelM _ (Except.error _) (Except.error _))
  | apply RelM.bind_same
  | (intro ⟨_, _⟩; try dsimp only)
  | intro _
  | split))

theorem sim_evalB_step {Φ : Funs} {R : VRel} {n : Nat} (ih : SimAt Φ R n) :
    ∀ σ1 σ2 ss1 ss2, Inv R σ1 σ2 → simB R ss1 ss2 = true →
      ∀ μ C, RelM (OutRel R) (evalB Φ (n+1) σ1 μ C ss1) (evalB Φ (n+1) σ2 μ C ss2) := by
  intro σ1 σ2 ss1 ss2 hinv h μ C
  cases ss1 <;> cases ss2 <;> (try (exact absurd h Bool.false_ne_true))
  · simp only [evalB]; exact OutRel.normal hinv _
  · rename_i s ss t ts
    replace h : (simS R s t && simB R ss ts) = true := h
    simp only [Bool.and_eq_true] at h
    simp only [evalB]
    apply RelM.bind (ih.evalS σ1 σ2 _ _ hinv h.1 μ C)
    intro ⟨o1, μ1⟩ ⟨o2, μ2⟩ ho
    cases o1 <;> cases o2 <;> simp only [OutRel] at ho
    · obtain ⟨hi, rfl⟩ := ho; exact ih.evalB _ _ _ _ hi h.2 _ _
    · obtain ⟨rfl, rfl⟩ := ho; exact OutRel.ret _ _ _

theorem sim_forLoop_step {Φ : Funs} {R : VRel} {n : Nat} (ih : SimAt Φ R n) :
    ∀ σ1 σ2 p1 p2 b1 b2, Inv R σ1 σ2 → simP R p1 p2 = true → simB R b1 b2 = true →
      ∀ μ C r i, RelM (OutRel R) (forLoop Φ (n+1) σ1 μ C r i p1 b1) (forLoop Φ (n+1) σ2 μ C r i p2 b2) := by
  intro σ1 σ2 p1 p2 b1 b2 hinv hp hb μ C r i
  simp only [forLoop]
  apply RelM.bind_same; intro l
  cases l[i]? with
  | none => exact OutRel.normal hinv _
  | some x =>
    apply RelM.bind (bindPat_sim R n p1 p2 x σ1 σ2 hinv hp)
    intro σ1' σ2' hi
    apply RelM.bind (ih.evalB σ1' σ2' _ _ hi hb μ C)
    intro ⟨o1, μ1⟩ ⟨o2, μ2⟩ ho
    cases o1 <;> cases o2 <;> simp only [OutRel] at ho
    · obtain ⟨hi', rfl⟩ := ho; exact ih.forLoop _ _ _ _ _ _ hi' hp hb _ _ _ _
    · obtain ⟨rfl, rfl⟩ := ho; exact OutRel.ret _ _ _

theorem sim_evalS_step {Φ : Funs} {R : VRel} {n : Nat} (ih : SimAt Φ R n) :
    ∀ σ1 σ2 s1 s2, Inv R σ1 σ2 → simS R s1 s2 = true →
      ∀ μ C, RelM (OutRel R) (evalS Φ (n+1) σ1 μ C s1) (evalS Φ (n+1) σ2 μ C s2) := by
  intro σ1 σ2 s1 s2 hinv h μ C
  have h0 := h
  cases s1 with
  | assign p e =>
    inv_sim h s2; rename_i q e'
    replace h : (simP R p q && simE R e e') = true := h
    simp only [Bool.and_eq_true] at h
    simp only [evalS, ih.evalE σ1 σ2 _ _ hinv h.2]
    apply RelM.bind_same; intro ⟨v, μ'⟩
    apply RelM.bind (bindPat_sim R n p q v σ1 σ2 hinv h.1)
    intro σ1' σ2' hi
    exact OutRel.normal hi _
  | iassign x is e =>
    inv_sim h s2; rename_i y js e'
    replace h : (R.has x y && simEs R is js && simE R e e') = true := h
    simp only [Bool.and_eq_true] at h
    simp only [evalS, ih.evalE σ1 σ2 _ _ hinv h.2, ih.evalEs σ1 σ2 _ _ hinv h.1.2, hinv x y h.1.1]
    rel_tac hinv
  | ifte c t f =>
    inv_sim h s2; rename_i c' t' f'
    replace h : (simE R c c' && simB R t t' && simB R f f') = true := h
    simp only [Bool.and_eq_true] at h
    simp only [evalS, ih.evalE σ1 σ2 _ _ hinv h.1.1]
    apply RelM.bind_same; intro ⟨v, μ'⟩
    apply RelM.bind_same; intro bb
    split
    · exact ih.evalB σ1 σ2 _ _ hinv h.1.2 _ _
    · exact ih.evalB σ1 σ2 _ _ hinv h.2 _ _
  | if1 c t =>
    inv_sim h s2; rename_i c' t'
    replace h : (simE R c c' && simB R t t') = true := h
    simp only [Bool.and_eq_true] at h
    simp only [evalS, ih.evalE σ1 σ2 _ _ hinv h.1]
    apply RelM.bind_same; intro ⟨v, μ'⟩
    apply RelM.bind_same; intro bb
    split
    · exact ih.evalB σ1 σ2 _ _ hinv h.2 _ _
    · exact OutRel.normal hinv _
  | «while» c b =>
    inv_sim h s2; rename_i c' b'
    replace h : (simE R c c' && simB R b b') = true := h
    simp only [Bool.and_eq_true] at h
    simp only [evalS, ih.evalE σ1 σ2 _ _ hinv h.1]
    apply RelM.bind_same; intro ⟨v, μ'⟩
    apply RelM.bind_same; intro bb
    split
    · apply RelM.bind (ih.evalB σ1 σ2 _ _ hinv h.2 _ _)
      intro ⟨o1, μ1⟩ ⟨o2, μ2⟩ ho
      cases o1 <;> cases o2 <;> simp only [OutRel] at ho
      · obtain ⟨hi, rfl⟩ := ho; exact ih.evalS _ _ _ _ hi h0 _ _
      · obtain ⟨rfl, rfl⟩ := ho; exact OutRel.ret _ _ _
    · exact OutRel.normal hinv _
  | «for» p it b =>
    inv_sim h s2; rename_i q it' b'
    replace h : (simP R p q && simE R it it' && simB R b b') = true := h
    simp only [Bool.and_eq_true] at h
    simp only [evalS, ih.evalE σ1 σ2 _ _ hinv h.1.2]
    apply RelM.bind_same; intro ⟨iv, μ'⟩
    cases iv <;> first
      | exact (rfl : RelM _ (Except.error _) (Except.error _))
      | exact ih.forLoop σ1 σ2 _ _ _ _ hinv h.1.1 h.2 _ _ _ _
  | «with» ce nm b =>
    inv_sim h s2; rename_i ce' nm' b'
    replace h : (simE R ce ce' && simName R nm nm' && simB R b b') = true := h
    simp only [Bool.and_eq_true] at h
    simp only [evalS, ih.evalE σ1 σ2 _ _ hinv h.1.1]
    apply RelM.bind_same; intro ⟨cv, μ'⟩
    cases cv <;> first
      | exact (rfl : RelM _ (Except.error _) (Except.error _))
      | skip
    apply ih.evalB _ _ _ _ _ h.2
    have hnm := h.1.2
    cases nm <;> cases nm' <;> simp only [simName, Bool.false_eq_true] at hnm
    · exact hinv
    · exact hinv.set hnm _
  | assert e =>
    inv_sim h s2; rename_i e'
    simp only [evalS, ih.evalE σ1 σ2 _ _ hinv h]
    rel_tac hinv
  | effect e =>
    inv_sim h s2; rename_i e'
    simp only [evalS, ih.evalE σ1 σ2 _ _ hinv h]
    rel_tac hinv
  | ret e =>
    inv_sim h s2; rename_i e'
    simp only [evalS, ih.evalE σ1 σ2 _ _ hinv h]
    rel_tac hinv
  | pass =>
    inv_sim h s2
    simp only [evalS]; exact OutRel.normal hinv _

/-- SOUNDNESS of the simulation checker at every fuel -/
theorem simAt (Φ : Funs) (R : VRel) : ∀ n, SimAt Φ R n := by
  intro n
  induction n with
  | zero =>
    constructor <;> intros <;> first | rfl | exact (rfl : RelM _ (Except.error _) (Except.error _))
  | succ n ih =>
    exact ⟨sim_evalE_step ih, sim_evalEs_step ih, sim_evalChain_step ih, sim_evalAnd_step ih, sim_evalOr_step ih,
      sim_evalComp_step ih, sim_compLoop_step ih, sim_evalS_step ih, sim_forLoop_step ih, sim_evalB_step ih⟩

end Fpy.Xform
