/-
Heap-location parametricity, part 3: the step lemmas for the other expression evaluators.
-/
import Fpy.Proof.LangPar2
namespace Fpy.Xform
open Fpy Fpy.Lang

theorem par_evalEs_step {Φ : Funs} {π : RMap} {D : List Nat} {n : Nat} (ih : ParAt Φ π D n) :
    ∀ d σ1 σ2 μ1 μ2 C es, d ≤ μ1.length → ER π D d σ1 σ2 → HR π D μ1 μ2 →
      RelM (QEs π D μ1 μ2) (evalEs Φ (n+1) σ1 μ1 C es) (evalEs Φ (n+1) σ2 μ2 C es) := by
  intro d σ1 σ2 μ1 μ2 C es hd henv hh
  cases es with
  | nil => simp only [evalEs]; exact ⟨VRs.nil _ _ _, hh, ExtP.refl hh⟩
  | cons e es =>
    simp only [evalEs]
    refine RelM.bind (ih.evalE d σ1 σ2 μ1 μ2 C e hd henv hh) ?_
    rintro ⟨v1, m1⟩ ⟨v2, m2⟩ ⟨hv, hh1, hx⟩
    dsimp only at hv hh1 hx ⊢
    refine RelM.bind (ih.evalEs d σ1 σ2 m1 m2 C es (Nat.le_trans hd hx.e1.le) henv hh1) ?_
    rintro ⟨vs1, m1'⟩ ⟨vs2, m2'⟩ ⟨hvs, hh2, hy⟩
    exact ⟨VRs.cons (hv.mono hy.e1.le) hvs, hh2, hx.trans hy⟩

theorem par_evalChain_step {Φ : Funs} {π : RMap} {D : List Nat} {n : Nat} (ih : ParAt Φ π D n) :
    ∀ d σ1 σ2 μ1 μ2 C a1 a2 ops es, d ≤ μ1.length → ER π D d σ1 σ2 → HR π D μ1 μ2 → VR π D d a1 a2 →
      RelM (QE π D μ1 μ2) (evalChain Φ (n+1) σ1 μ1 C a1 ops es) (evalChain Φ (n+1) σ2 μ2 C a2 ops es) := by
  intro d σ1 σ2 μ1 μ2 C a1 a2 ops es hd henv hh ha
  have leaf : RelM (QE π D μ1 μ2) (.ok (.bool true, μ1)) (.ok (.bool true, μ2)) :=
    ⟨VR.bool' _ _ _ _, hh, ExtP.refl hh⟩
  cases ops with
  | nil => cases es <;> simp only [evalChain] <;> exact leaf
  | cons op ops =>
    cases es with
    | nil => simp only [evalChain]; exact leaf
    | cons b rest =>
      simp only [evalChain]
      refine RelM.bind (ih.evalE d σ1 σ2 μ1 μ2 C b hd henv hh) ?_
      rintro ⟨bv1, m1⟩ ⟨bv2, m2⟩ ⟨hbv, hh1, hx⟩
      dsimp only at hbv hh1 hx ⊢
      have ha' : VR π D m1.length a1 a2 := ha.mono (Nat.le_trans hd hx.e1.le)
      refine RelM.bind (P := Eq) (RelM.eq_iff.2 ?_) ?_
      · cases op <;> simp only [valEq_rel hh1 n a1 a2 bv1 bv2 ha' hbv, asNum_rel ha', asNum_rel hbv]
      intro ok ok' hok
      subst hok
      split
      · exact QE.rebase hx (ih.evalChain m1.length σ1 σ2 m1 m2 C bv1 bv2 ops rest (Nat.le_refl _)
          (henv.mono (Nat.le_trans hd hx.e1.le)) hh1 hbv)
      · exact ⟨VR.bool' _ _ _ _, hh1, hx⟩

theorem par_evalAnd_step {Φ : Funs} {π : RMap} {D : List Nat} {n : Nat} (ih : ParAt Φ π D n) :
    ∀ d σ1 σ2 μ1 μ2 C es, d ≤ μ1.length → ER π D d σ1 σ2 → HR π D μ1 μ2 →
      RelM (QE π D μ1 μ2) (evalAnd Φ (n+1) σ1 μ1 C es) (evalAnd Φ (n+1) σ2 μ2 C es) := by
  intro d σ1 σ2 μ1 μ2 C es hd henv hh
  rcases es with _ | ⟨e, _ | ⟨e', es⟩⟩
  · simp only [evalAnd]; exact ⟨VR.bool' _ _ _ _, hh, ExtP.refl hh⟩
  · simp only [evalAnd]; exact ih.evalE d σ1 σ2 μ1 μ2 C e hd henv hh
  · simp only [evalAnd]
    refine RelM.bind (ih.evalE d σ1 σ2 μ1 μ2 C e hd henv hh) ?_
    rintro ⟨v1, m1⟩ ⟨v2, m2⟩ ⟨hv, hh1, hx⟩
    dsimp only at hv hh1 hx ⊢
    rw [asBool_rel hv]
    refine RelM.bind_same ?_; intro b
    split
    · exact QE.rebase hx (ih.evalAnd d σ1 σ2 m1 m2 C (e' :: es) (Nat.le_trans hd hx.e1.le) henv hh1)
    · exact ⟨VR.bool' _ _ _ _, hh1, hx⟩

theorem par_evalOr_step {Φ : Funs} {π : RMap} {D : List Nat} {n : Nat} (ih : ParAt Φ π D n) :
    ∀ d σ1 σ2 μ1 μ2 C es, d ≤ μ1.length → ER π D d σ1 σ2 → HR π D μ1 μ2 →
      RelM (QE π D μ1 μ2) (evalOr Φ (n+1) σ1 μ1 C es) (evalOr Φ (n+1) σ2 μ2 C es) := by
  intro d σ1 σ2 μ1 μ2 C es hd henv hh
  rcases es with _ | ⟨e, _ | ⟨e', es⟩⟩
  · simp only [evalOr]; exact ⟨VR.bool' _ _ _ _, hh, ExtP.refl hh⟩
  · simp only [evalOr]; exact ih.evalE d σ1 σ2 μ1 μ2 C e hd henv hh
  · simp only [evalOr]
    refine RelM.bind (ih.evalE d σ1 σ2 μ1 μ2 C e hd henv hh) ?_
    rintro ⟨v1, m1⟩ ⟨v2, m2⟩ ⟨hv, hh1, hx⟩
    dsimp only at hv hh1 hx ⊢
    rw [asBool_rel hv]
    refine RelM.bind_same ?_; intro b
    split
    · exact ⟨VR.bool' _ _ _ _, hh1, hx⟩
    · exact QE.rebase hx (ih.evalOr d σ1 σ2 m1 m2 C (e' :: es) (Nat.le_trans hd hx.e1.le) henv hh1)

theorem par_evalComp_step {Φ : Funs} {π : RMap} {D : List Nat} {n : Nat} (ih : ParAt Φ π D n) :
    ∀ d σ1 σ2 μ1 μ2 C ps its elt, d ≤ μ1.length → ER π D d σ1 σ2 → HR π D μ1 μ2 →
      RelM (QEs π D μ1 μ2) (evalComp Φ (n+1) σ1 μ1 C ps its elt) (evalComp Φ (n+1) σ2 μ2 C ps its elt) := by
  intro d σ1 σ2 μ1 μ2 C ps its elt hd henv hh
  cases ps with
  | nil =>
    simp only [evalComp]
    refine RelM.bind (ih.evalE d σ1 σ2 μ1 μ2 C elt hd henv hh) ?_
    rintro ⟨v1, m1⟩ ⟨v2, m2⟩ ⟨hv, hh1, hx⟩
    exact ⟨VRs.cons hv (VRs.nil _ _ _), hh1, hx⟩
  | cons p ps =>
    cases its with
    | nil => simp only [evalComp]; exact rfl
    | cons it its =>
      simp only [evalComp]
      refine RelM.bind (ih.evalE d σ1 σ2 μ1 μ2 C it hd henv hh) ?_
      rintro ⟨iv1, m1⟩ ⟨iv2, m2⟩ ⟨hiv, hh1, hx⟩
      dsimp only at hiv hh1 hx ⊢
      refine RelM.bind (asList_rel hh1 hiv) ?_
      intro l1 l2 _
      rcases VR.inv hiv with ⟨hf, rfl⟩ | ⟨xs, ys, rfl, rfl, _⟩ | ⟨r, rfl, rfl, _, hrd⟩
      · cases iv2 <;> first | exact rfl | exact absurd hf (by simp [flatV])
      · exact rfl
      · exact QEs.rebase hx (ih.compLoop d σ1 σ2 m1 m2 C r 0 p ps its elt (Nat.le_trans hd hx.e1.le) henv hh1 hrd)

theorem par_compLoop_step {Φ : Funs} {π : RMap} {D : List Nat} {n : Nat} (ih : ParAt Φ π D n) :
    ∀ d σ1 σ2 μ1 μ2 C r i p ps its elt, d ≤ μ1.length → ER π D d σ1 σ2 → HR π D μ1 μ2 → r ∉ D →
      RelM (QEs π D μ1 μ2) (compLoop Φ (n+1) σ1 μ1 C r i p ps its elt) (compLoop Φ (n+1) σ2 μ2 C (π r) i p ps its elt) := by
  intro d σ1 σ2 μ1 μ2 C r i p ps its elt hd henv hh hrd
  simp only [compLoop]
  refine RelM.bind (heapGet_rel hh r hrd) ?_
  intro l1 l2 hl
  have hi := VRs.get hl i
  cases e1 : l1[i]? <;> cases e2 : l2[i]? <;> rw [e1, e2] at hi <;> simp only [ORel] at hi
  · exact ⟨VRs.nil _ _ _, hh, ExtP.refl hh⟩
  · rename_i x1 x2
    dsimp only
    refine RelM.bind (bindPat_rel n p x1 x2 σ1 σ2 (henv.mono hd) hi) ?_
    intro σ1' σ2' henv'
    refine RelM.bind (ih.evalComp μ1.length σ1' σ2' μ1 μ2 C ps its elt (Nat.le_refl _) henv' hh) ?_
    rintro ⟨vs1, m1⟩ ⟨vs2, m2⟩ ⟨hvs, hh1, hx⟩
    dsimp only at hvs hh1 hx ⊢
    refine RelM.bind (ih.compLoop d σ1 σ2 m1 m2 C r (i + 1) p ps its elt (Nat.le_trans hd hx.e1.le) henv hh1 hrd) ?_
    rintro ⟨ws1, m1'⟩ ⟨ws2, m2'⟩ ⟨hws, hh2, hy⟩
    exact ⟨VRs.append (hvs.mono hy.e1.le) hws, hh2, hx.trans hy⟩

end Fpy.Xform
