/-
C10 helper lemmas: `unfold_special` (constants and shedding), the overflow outcome as a constant of the sign,
the early check, roundings that are identities.
-/
import Fpy.Proof.LowerF2F
namespace Fpy.C10
open Fpy Fpy.Spec

/-! ### `unfold_special` -/

/-- what a context makes of a NaN does not depend on the position, on `exact`, or on the random draw:
one probe (`ctx.round(NaN)`) tells it all -/
theorem special_nan_const (C : Ctx) (hC : C ≠ .real) (s : Bool) (n : Option Int) (ex : Bool) (r : Nat) :
    C.roundAtCore (.nan s) n ex r = C.roundAtCore (.nan s) none false 0 := by
  cases C <;> simp [Ctx.roundAtCore, mpbRoundAt, mpbfixRoundAt, expRoundAt, floatSpecial, fixedSpecial] at hC ⊢

theorem special_inf_const (C : Ctx) (hC : C ≠ .real) (s : Bool) (n : Option Int) (ex : Bool) (r : Nat) :
    C.roundAtCore (.inf s) n ex r = C.roundAtCore (.inf s) none false 0 := by
  cases C <;> simp [Ctx.roundAtCore, mpbRoundAt, mpbfixRoundAt, expRoundAt, floatSpecial, fixedSpecial] at hC ⊢

/-- … and what it makes of a zero depends on the sign of that zero only (not on its exponent) -/
theorem special_zero_const (C : Ctx) (hC : C ≠ .real) (s : Bool) (e : Int) (n : Option Int) (ex : Bool) (r : Nat) :
    C.roundAtCore (.fin ⟨s, e, 0⟩) n ex r = C.roundAtCore (.fin ⟨s, 0, 0⟩) none false 0 := by
  cases C <;> simp [Ctx.roundAtCore, mpbRoundAt, mpbfixRoundAt, expRoundAt, floatSpecial, fixedSpecial] at hC ⊢

/-- `MPBFloatContext._round_at` on a finite operand, with its overflow arm named -/
theorem mpbRoundAt_arm (c : MPBParams) (x : RF) (n : Option Int) (ex : Bool) (r : Nat) :
    mpbRoundAt c (.fin x) n ex r =
      (if x.c = 0 then .ok ⟨.fin ⟨x.s, 0, 0⟩, {}⟩
       else
        match x.round (some c.p) (some (match n with | none => c.nmin | some n => if n < c.nmin then c.nmin else n)) c.rm c.k r ex with
        | .error e => .error e
        | .ok (rounded, fl) =>
          if (if rounded.s then rounded.lt c.negMax else rounded.gt c.posMax) then
            (if ex then .error .valueError else mpbOverflow c x.s rounded.s)
          else .ok ⟨.fin rounded, fl⟩) := by
  unfold mpbRoundAt floatSpecial mpbOverflow
  rfl

/-- `MPBFixedContext._round_at` on a finite operand of a non-wrapping format, with its overflow arm named -/
theorem mpbfixRoundAt_arm (c : MPBFixParams) (hw : c.ov ≠ .wrap) (x : RF) (n : Option Int) (ex : Bool) (r : Nat) :
    mpbfixRoundAt c (.fin x) n ex r =
      (if x.c = 0 then .ok ⟨.fin ⟨x.s && c.negZero, 0, 0⟩, {}⟩
       else
        match x.round none (some (match n with | none => c.nmin | some n => max n c.nmin)) c.rm c.k r ex with
        | .error e => .error e
        | .ok (xr, fl) =>
          if (if xr.s then xr.lt c.negMax else xr.gt c.posMax) then
            (if ex then .error .valueError else mpbfixOverflow c x.s xr.s)
          else
            if xr.c = 0 && xr.s && !c.negZero then .ok ⟨.fin { xr with s := false }, fl⟩
            else .ok ⟨.fin xr, fl⟩) := by
  unfold mpbfixRoundAt fixedSpecial mpbfixOverflow
  cases hov : c.ov with
  | wrap => exact absurd hov hw
  | overflow => simp only; rfl
  | saturate => simp only; rfl
  | assert => simp only; rfl

theorem mpbOverflow_shed (c : MPBParams) (nan inf : Bool) (hinf : inf = true → reachesInf (.mpb c) = false) (sx sy : Bool) :
    mpbOverflow { c with o := shedOpts c.o nan inf } sx sy = mpbOverflow c sx sy := by
  cases inf with
  | false => unfold mpbOverflow shedOpts; simp
  | true =>
    have h := hinf rfl
    simp only [reachesInf, Bool.and_eq_false_iff, Bool.or_eq_false_iff, beq_eq_false_iff_ne, ne_eq] at h
    unfold mpbOverflow shedOpts
    rcases h with (h | h) | h
    · cases hov : c.ov <;> simp_all
    · cases hov : c.ov <;> cases sy <;> simp_all
    · cases hov : c.ov <;> simp_all

theorem mpbfixOverflow_shed (c : MPBFixParams) (nan inf : Bool) (hinf : inf = true → reachesInf (.mpbfix c) = false) (sx sy : Bool) :
    mpbfixOverflow { c with o := shedOpts c.o nan inf } sx sy = mpbfixOverflow c sx sy := by
  cases inf with
  | false => unfold mpbfixOverflow shedOpts MPBFixParams.rangeEnd; simp
  | true =>
    have h := hinf rfl
    simp only [reachesInf, Bool.and_eq_false_iff, Bool.or_eq_false_iff, beq_eq_false_iff_ne, ne_eq] at h
    unfold mpbfixOverflow shedOpts MPBFixParams.rangeEnd
    rcases h with (h | h) | h
    · cases hov : c.ov <;> simp_all
    · cases hov : c.ov <;> cases sy <;> simp_all
    · cases hov : c.ov <;> simp_all

/-- **shedding is invisible to finite operands**: the NaN rule always; the infinity rule unless an overflow
can reach it (`_shedable`).  (`MPBFixedContext`: non-wrapping; a wrapping format never consults the rule either,
see `shed_finite_wrap`.) -/
theorem shed_finite (C : Ctx) (nan inf : Bool) (hinf : inf = true → reachesInf C = false)
    (hw : ∀ c, C = .mpbfix c → c.ov ≠ .wrap)
    (x : RF) (n : Option Int) (ex : Bool) (r : Nat) :
    (shedCtx C nan inf).roundAtCore (.fin x) n ex r = C.roundAtCore (.fin x) n ex r := by
  cases C with
  | real => rfl
  | efloat c => rfl
  | exp c => rfl
  | mp p rm k o => simp [shedCtx, Ctx.roundAtCore, floatSpecial]
  | mps p emin rm k o => simp [shedCtx, Ctx.roundAtCore, floatSpecial]
  | mpfix nmin rm k nz o => simp [shedCtx, Ctx.roundAtCore, fixedSpecial]
  | mpb c =>
    simp only [shedCtx, Ctx.roundAtCore]
    rw [mpbRoundAt_arm, mpbRoundAt_arm]
    simp only [mpbOverflow_shed c nan inf hinf]
    rfl
  | mpbfix c =>
    have hw' := hw c rfl
    simp only [shedCtx, Ctx.roundAtCore]
    rw [mpbfixRoundAt_arm _ (by exact hw'), mpbfixRoundAt_arm _ hw']
    simp only [mpbfixOverflow_shed c nan inf hinf]

/-- the context `float_to_fixed` emits states no NaN substitute, and no infinity substitute but a NaN -/
theorem f2fTarget_subs (c : MPBParams) (pol : Policy) (nz : Bool) (n : Int) :
    (f2fTarget c pol nz n).o.nanValue = none ∧
    ((f2fTarget c pol nz n).o.infValue = none ∨ (f2fTarget c pol nz n).o.infValue = some (.nan false)) := by
  cases pol
  · exact ⟨rfl, Or.inl rfl⟩
  · exact ⟨rfl, Or.inl rfl⟩
  · exact ⟨rfl, Or.inr rfl⟩

/-! ### the overflow outcome is a constant of the sign -/

/-- whenever the unbounded rounding of a finite non-zero operand is past a bound, a deterministic bounded float
context returns its overflow arm for the operand's sign — nothing else about the operand matters -/
theorem overflow_const_float (c : MPBParams) (hk : c.k = some 0) (hp : 1 ≤ c.p) (x y : RF) (fl : Flags) (hx : x.c ≠ 0)
    (hr : x.round (some c.p) (some c.nmin) c.rm (some 0) 0 false = .ok (y, fl))
    (hout : (if y.s then y.lt c.negMax else y.gt c.posMax) = true) :
    mpbRoundAt c (.fin x) none false 0 = mpbOverflow c x.s x.s := by
  have hys : y.s = x.s := round_float_sign x c.p (some c.nmin) c.rm hx hp y fl hr
  rw [mpbRoundAt_arm]
  rw [hys] at hout
  simp only [hx, if_false, hk, hr, Bool.false_eq_true, hys, hout, if_true]

theorem overflow_const_fixed (c : MPBFixParams) (hk : c.k = some 0) (hw : c.ov ≠ .wrap) (x y : RF) (fl : Flags) (hx : x.c ≠ 0)
    (hr : x.round none (some c.nmin) c.rm (some 0) 0 false = .ok (y, fl))
    (hout : (if y.s then y.lt c.negMax else y.gt c.posMax) = true) :
    mpbfixRoundAt c (.fin x) none false 0 = mpbfixOverflow c x.s x.s := by
  have hys : y.s = x.s := round_fixed_sign x c.nmin c.rm hx y fl hr
  rw [mpbfixRoundAt_arm c hw]
  rw [hys] at hout
  simp only [hx, if_false, hk, hr, Bool.false_eq_true, hys, hout, if_true]

/-! ### the early check -/

/-- an operand in a binade above the bound's is certain to overflow: its unbounded rounding is past the bound
(for a format whose bound tops its binade — every IEEE format — `2^(e(maxval)+1)` *is* `infval`) -/
theorem early_check_binade (c : MPBParams) (hp : 1 ≤ c.p)
    (hpc : c.posMax.c ≠ 0) (hps : c.posMax.s = false) (hnc : c.negMax.c ≠ 0) (hns : c.negMax.s = true)
    (x : RF) (hx : x.c ≠ 0) (hnm : c.nmin < x.e)
    (hbig : if x.s then c.negMax.e < x.e else c.posMax.e < x.e) :
    ∃ y fl, x.round (some c.p) (some c.nmin) c.rm (some 0) 0 false = .ok (y, fl) ∧
      (if y.s then y.lt c.negMax else y.gt c.posMax) = true := by
  obtain ⟨y, fl, y2, fl2, h1, h2, hys, hys2, heq, _, _, _⟩ := float_fixed_round x c.p (some c.nmin) c.rm hx hp
  have hfp : floatPos x c.p (some c.nmin) + 1 ≤ x.e := by unfold floatPos; simp only; omega
  obtain ⟨hc2, he2⟩ := round_fixed_e_ge x _ c.rm hx hfp y2 fl2 h2
  refine ⟨y, fl, h1, ?_⟩
  rw [hys]
  cases hxs : x.s
  · simp only [Bool.false_eq_true, if_false]
    rw [hxs] at hbig; simp only [Bool.false_eq_true, if_false] at hbig
    rw [gt_congr_left y y2 c.posMax heq]
    have hc1 := compare_of_e_gt y2 c.posMax hc2 hpc (by rw [hys2, hxs, hps]) (by omega)
    rw [hys2, hxs] at hc1
    unfold RF.gt; rw [hc1]; rfl
  · simp only [if_true]
    rw [hxs] at hbig; simp only [if_true] at hbig
    rw [lt_congr_left y y2 c.negMax heq]
    have hc1 := compare_of_e_gt y2 c.negMax hc2 hnc (by rw [hys2, hxs, hns]) (by omega)
    rw [hys2, hxs] at hc1
    unfold RF.lt; rw [hc1]; rfl

/-! ### roundings that are identities -/

/-- a value the float format represents (at most `p` digits, all above `nmin`) is returned unchanged and
unflagged by the rounding core, in every mode -/
theorem round_float_representable (x : RF) (p : Nat) (nmin : Int) (rm : RM) (hc : x.c ≠ 0) (hp : 1 ≤ p)
    (hd : bitLength x.c ≤ p) (hn : nmin < x.exp) :
    ∃ fl, x.round (some p) (some nmin) rm = .ok (x, fl) ∧ fl.inexact = false := by
  obtain ⟨y, fl, h1, _, _, _, h5, _⟩ :=
    roundAtCore_prec x p (max nmin (x.e - p)) (some ((p : Int) + nmin)) rm hc hp (by omega)
  have h0 : x.exp > max nmin (x.e - p) := by unfold RF.e RF.p; omega
  obtain ⟨hy, hi⟩ := h5 h0
  refine ⟨fl, ?_, hi⟩
  unfold RF.round RF.roundParams
  simp only [if_true]
  rw [h1, hy]

end Fpy.C10
