/-
Helper lemmas for the process-level theorems of C18: the cache invariant of the state machine and of the
thread machine (core Lean only).
-/
import Fpy.Proof.Boundary
import Fpy.Proof.Frame
namespace Fpy.C18
open Fpy Fpy.Lang

local macro "triv" : tactic => `(tactic| first | rfl | trivial)

/-! ## values without any list -/

mutual
def RefFree : Val → Prop
  | .list _ => False
  | .tuple vs => RefFreeL vs
  | .bool _ => True
  | .num _ => True
  | .ctx _ => True
def RefFreeL : List Val → Prop
  | [] => True
  | v :: vs => RefFree v ∧ RefFreeL vs
end

/-- no module-level value that a function could capture holds a list -/
def NoCapturedLists (P : Prog) : Prop := RefFreeL (P.globals.map (·.2))

theorem copy_refFree (src : Heap) : ∀ (f : Nat),
    (∀ v dst w dst', RefFree v → copyIn src f v dst = .ok (w, dst') → dst' = dst) ∧
    (∀ vs dst ws dst', RefFreeL vs → copyIns src f vs dst = .ok (ws, dst') → dst' = dst) := by
  intro f
  induction f with
  | zero =>
    constructor
    · intro v dst w dst' _ h; simp [copyIn] at h
    · intro vs dst ws dst' _ h; simp [copyIns] at h
  | succ f ih =>
    obtain ⟨ih1, ih2⟩ := ih
    constructor
    · intro v dst w dst' hv h
      cases v with
      | bool b => simp only [copyIn] at h; cases h; rfl
      | num x => simp only [copyIn] at h; cases h; rfl
      | ctx c => simp only [copyIn] at h; cases h; rfl
      | list r => simp [RefFree] at hv
      | tuple vs =>
        simp only [copyIn, bind, Except.bind] at h
        split at h
        · cases h
        · rename_i r hr
          obtain ⟨ws, d1⟩ := r
          cases h
          exact ih2 vs dst ws _ (by simpa [RefFree] using hv) hr
    · intro vs dst ws dst' hv h
      cases vs with
      | nil => simp only [copyIns] at h; cases h; rfl
      | cons v vs =>
        simp only [copyIns, bind, Except.bind] at h
        split at h
        · cases h
        · rename_i r1 hr1
          obtain ⟨w, d1⟩ := r1
          split at h
          · cases h
          · rename_i r2 hr2
            obtain ⟨ws', d2⟩ := r2
            cases h
            have e1 := ih1 v dst w d1 hv.1 hr1
            subst e1
            exact ih2 vs _ ws' _ hv.2 hr2

theorem compile_heap_nil {P : Prog} (hP : NoCapturedLists P) {fuel : Nat} {d : FuncDef} {c : Compiled}
    (h : compile P fuel d = .ok c) : c.heap = [] := by
  unfold compile at h
  simp only [bind, Except.bind] at h
  split at h
  · cases h
  · rename_i r hr
    obtain ⟨vals, hp⟩ := r
    cases h
    exact (copy_refFree P.pyHeap fuel).2 _ _ _ _ hP hr

theorem after_of_heap_nil {c : Compiled} (h : c.heap = []) (μ : Heap) : c.after μ = c := by
  unfold Compiled.after; simp [h]

/-! ## the cache as a finite map -/

theorem lookup_insert_self (cache : List (Nat × Compiled)) (fid : Nat) (c : Compiled) :
    lookup (insert cache fid c) fid = some c := by
  simp [lookup, insert]

theorem lookup_insert_ne (cache : List (Nat × Compiled)) {fid fid' : Nat} (c : Compiled) (h : fid' ≠ fid) :
    lookup (insert cache fid c) fid' = lookup cache fid' := by
  unfold lookup insert
  have h1 : ((fid, c).1 == fid') = false := by simp; exact fun e => h e.symm
  rw [List.find?_cons_of_neg (by simpa using h1)]
  rw [List.find?_filter]
  have hp : (fun a : Nat × Compiled => decide ((a.1 != fid) = true ∧ (a.1 == fid') = true)) = (fun a : Nat × Compiled => a.1 == fid') := by
    funext a
    by_cases ha : a.1 = fid'
    · simp [ha, h]
    · simp [ha]
  rw [hp]

/-! ## the state machine: every cache entry is the compilation of the definition it is filed under -/

def CacheOK (P : Prog) (fuel : Nat) (S : State) : Prop :=
  ∀ fid c, lookup S.cache fid = some c → ∃ d, defAt P S fid = some d ∧ compile P fuel d = .ok c

theorem cacheOK_init (P : Prog) (fuel : Nat) : CacheOK P fuel State.init := by
  intro fid c h; simp [State.init, lookup] at h

theorem defAt_extend {P : Prog} {S : State} {fid : Nat} {d d' : FuncDef} (h : defAt P S fid = some d) :
    defAt P { S with extra := S.extra ++ [d'] } fid = some d := by
  unfold defAt at *
  rw [← List.append_assoc]
  have hlt : fid < (P.defs ++ S.extra).length := (List.getElem?_eq_some_iff.mp h).1
  rw [List.getElem?_append_left hlt]; exact h

theorem defAt_of_defs {P : Prog} (S : State) {fid : Nat} {d : FuncDef} (h : P.defs[fid]? = some d) : defAt P S fid = some d := by
  unfold defAt
  have hlt : fid < P.defs.length := (List.getElem?_eq_some_iff.mp h).1
  rw [List.getElem?_append_left hlt]; exact h

theorem cacheOK_insert {P : Prog} {fuel : Nat} {S : State} (hS : CacheOK P fuel S) {fid : Nat} {d : FuncDef} {c : Compiled}
    (hd : defAt P S fid = some d) (hc : compile P fuel d = .ok c) (res : List (Nat × Val)) :
    CacheOK P fuel { S with cache := insert S.cache fid c, results := res } := by
  intro fid' c' h
  by_cases e : fid' = fid
  · subst e
    rw [show ({ S with cache := insert S.cache fid' c, results := res } : State).cache = insert S.cache fid' c from rfl,
        lookup_insert_self] at h
    cases h
    exact ⟨d, hd, hc⟩
  · rw [show ({ S with cache := insert S.cache fid c, results := res } : State).cache = insert S.cache fid c from rfl,
        lookup_insert_ne _ _ e] at h
    exact hS fid' c' h

/-- the compiled function a call uses: the cache entry, or a fresh compilation -/
def fetch (P : Prog) (fuel : Nat) (S : State) (fid : Nat) (d : FuncDef) : M Compiled :=
  match lookup S.cache fid with
  | some c => .ok c
  | none => compile P fuel d

theorem fetch_eq {P : Prog} {fuel : Nat} {S : State} (hS : CacheOK P fuel S) {fid : Nat} {d : FuncDef}
    (hd : defAt P S fid = some d) : fetch P fuel S fid d = compile P fuel d := by
  unfold fetch
  cases hl : lookup S.cache fid with
  | none => rfl
  | some c =>
    obtain ⟨d', hd', hc⟩ := hS fid c hl
    rw [hd] at hd'; cases hd'
    exact hc.symm

theorem step_call_eq (P : Prog) (fuel : Nat) (S : State) (fid : Nat) (args : List Tree) (ctx : Option Ctx) (d : FuncDef)
    (hd : defAt P S fid = some d) :
    step P fuel S (.call fid args ctx) =
      (match fetch P fuel S fid d with
       | .error e => (S, some (.error e))
       | .ok c =>
         match runCompiled ⟨P.defs⟩ fuel c args ctx with
         | .error e => ({ S with cache := insert S.cache fid c }, some (.error e))
         | .ok (t, w, μ) =>
           ({ S with cache := insert S.cache fid (c.after μ), results := S.results ++ [(fid, w)] }, some (.ok t))) := by
  simp only [step, hd, fetch]
  rfl

theorem step_preserves {P : Prog} {fuel : Nat} (hP : NoCapturedLists P) {S : State} (hS : CacheOK P fuel S) (op : Op) :
    CacheOK P fuel (step P fuel S op).1 := by
  cases op with
  | call fid args ctx =>
    cases hd : defAt P S fid with
    | none => simp only [step, hd]; exact hS
    | some d =>
      rw [step_call_eq P fuel S fid args ctx d hd, fetch_eq hS hd]
      cases hc : compile P fuel d with
      | error e => exact hS
      | ok c =>
        simp only
        cases hr : runCompiled ⟨P.defs⟩ fuel c args ctx with
        | error e => exact cacheOK_insert hS hd hc S.results
        | ok r =>
          obtain ⟨t, w, μ⟩ := r
          simp only [after_of_heap_nil (compile_heap_nil hP hc)]
          exact cacheOK_insert hS hd hc _
  | transform fid =>
    cases hd : defAt P S fid with
    | none => simp only [step, hd]; exact hS
    | some d =>
      simp only [step, hd]
      intro fid' c h
      obtain ⟨d', hd', hc⟩ := hS fid' c h
      exact ⟨d', defAt_extend hd', hc⟩
  | mutateResult k i x =>
    simp only [step]
    split
    · rename_i fid r hres
      split
      · rename_i c hl
        obtain ⟨d, _, hc⟩ := hS fid c hl
        have hnil := compile_heap_nil hP hc
        simp only [hnil]
        simp
        exact hS
      · exact hS
    · exact hS

theorem run_preserves {P : Prog} {fuel : Nat} (hP : NoCapturedLists P) (ops : List Op) {S : State} (hS : CacheOK P fuel S) :
    CacheOK P fuel (run P fuel S ops) := by
  induction ops generalizing S with
  | nil => exact hS
  | cons op ops ih => exact ih (step_preserves hP hS op)

theorem step_call_obs {P : Prog} {fuel : Nat} {S : State} (hS : CacheOK P fuel S) (fid : Nat) (args : List Tree) (ctx : Option Ctx)
    {d : FuncDef} (hd : defAt P S fid = some d) :
    (step P fuel S (.call fid args ctx)).2 = some (pureCall P fuel d args ctx) := by
  rw [step_call_eq P fuel S fid args ctx d hd, fetch_eq hS hd]
  unfold pureCall
  cases hc : compile P fuel d with
  | error e => rfl
  | ok c =>
    simp only
    cases hr : runCompiled ⟨P.defs⟩ fuel c args ctx with
    | error e => rfl
    | ok r => obtain ⟨t, w, μ⟩ := r; rfl

/-- `run` only appends to `extra`: an identity that exists keeps its definition -/
theorem defAt_step {P : Prog} {fuel : Nat} {S : State} (op : Op) {fid : Nat} {d : FuncDef} (h : defAt P S fid = some d) :
    defAt P (step P fuel S op).1 fid = some d := by
  have key : ∀ S' : State, S'.extra = S.extra → defAt P S' fid = some d := by
    intro S' e; unfold defAt at *; rw [e]; exact h
  cases op with
  | call f args ctx =>
    simp only [step]
    split
    · exact h
    · split
      · exact h
      · split
        · exact key _ rfl
        · exact key _ rfl
  | transform f =>
    simp only [step]
    split
    · exact h
    · exact defAt_extend h
  | mutateResult k i x =>
    simp only [step]
    split
    · split
      · split
        · split
          · exact key _ rfl
          · exact h
        · exact h
      · exact h
    · exact h

theorem defAt_run {P : Prog} {fuel : Nat} (ops : List Op) {S : State} {fid : Nat} {d : FuncDef} (h : defAt P S fid = some d) :
    defAt P (run P fuel S ops) fid = some d := by
  induction ops generalizing S with
  | nil => exact h
  | cons op ops ih => exact ih (defAt_step op h)

/-! ## captured lists copied at every activation (the code since the repair of F7) -/

theorem compile_policy {P : Prog} {fuel : Nat} {d : FuncDef} {c : Compiled} (h : compile P fuel d = .ok c) : c.policy = P.policy := by
  unfold compile at h
  simp only [bind, Except.bind] at h
  split at h
  · cases h
  · cases h; rfl

theorem after_of_copy {c : Compiled} (h : c.policy.copyCaptured = true) (μ : Heap) : c.after μ = c := by
  unfold Compiled.after; simp [h]

theorem eok_zip {n : Nat} (names : List String) (vals : List Val) (h : VGeL n vals) : EOK n (names.zip vals) := by
  intro p hp
  exact (vgeL_iff n vals).mp h p.2 (List.of_mem_zip hp).2

/-- with per-activation copies every list reachable from a result is a cell allocated by that call -/
theorem runCompiled_fresh {Φ : Funs} {fuel : Nat} {c : Compiled} (hc : c.policy.copyCaptured = true)
    {args : List Tree} {ctx : Option Ctx} {t : Tree} {w : Val} {μ : Heap}
    (h : runCompiled Φ fuel c args ctx = .ok (t, w, μ)) : VGe c.heap.length w := by
  unfold runCompiled activationEnv at h
  simp only [hc, if_true, bind, Except.bind] at h
  split at h
  · cases h
  · rename_i r0 h0
    obtain ⟨genv, μ0⟩ := r0
    -- the activation environment: copies behind the compile-time cells
    have hg : Ext c.heap.length c.heap μ0 ∧ EOK c.heap.length genv := by
      split at h0
      · cases h0
      · rename_i r1 h1
        obtain ⟨vals, hh⟩ := r1
        cases h0
        obtain ⟨e, hv⟩ := (copy_frame c.heap c.heap.length fuel).2 _ _ _ _ (hok_self c.heap) h1
        exact ⟨e, eok_zip _ _ hv⟩
    obtain ⟨e0, hgenv⟩ := hg
    obtain ⟨e1, hvs⟩ := allocTrees_frame c.heap.length args μ0 e0.1
    cases hA : allocTrees args μ0 with
    | mk vs μ1 =>
      rw [hA] at h e1 hvs
      simp only at h e1 hvs
      split at h
      · cases h
      · have hσ : EOK c.heap.length ((c.fd.params.zip vs).foldl (fun s (x, v) => s.set x v) genv) :=
          eok_bindParams _ (fun s p => by cases p; rfl) c.fd.params vs genv hgenv hvs
        cases hev : evalB Φ fuel ((c.fd.params.zip vs).foldl (fun s (x, v) => s.set x v) genv) μ1 (callCtx c.fd ctx) c.fd.body with
        | error e => rw [hev] at h; cases h
        | ok r =>
          obtain ⟨o, μ2⟩ := r
          rw [hev] at h
          cases o with
          | normal σ => cases h
          | ret v =>
            simp only at h
            obtain ⟨e2, hv⟩ := evalFrame Φ fuel c.heap.length _ μ1 _ c.fd.body (.ret v) μ2 hσ e1.1 hev
            split at h
            · cases h
            · rename_i r3 h3
              obtain ⟨w', μ3⟩ := r3
              obtain ⟨_, hw⟩ := exit_frame c.policy e2.1 hv h3
              split at h
              · cases h
              · cases h; exact hw

/-- every value handed back to the caller lives in cells the compiled function does not hold -/
def ResultsOK (P : Prog) (fuel : Nat) (S : State) : Prop :=
  ∀ p ∈ S.results, ∃ d, defAt P S p.1 = some d ∧ ∀ c, compile P fuel d = .ok c → VGe c.heap.length p.2

theorem resultsOK_congr {P : Prog} {fuel : Nat} {S S' : State} (he : S'.extra = S.extra) (hr : S'.results = S.results)
    (h : ResultsOK P fuel S) : ResultsOK P fuel S' := by
  intro p hp
  rw [hr] at hp
  obtain ⟨d, hd, hc⟩ := h p hp
  exact ⟨d, by unfold defAt at *; rw [he]; exact hd, hc⟩

theorem step_preserves_fixed {P : Prog} {fuel : Nat} (hπ : P.policy.copyCaptured = true) {S : State}
    (hS : CacheOK P fuel S) (hR : ResultsOK P fuel S) (op : Op) :
    CacheOK P fuel (step P fuel S op).1 ∧ ResultsOK P fuel (step P fuel S op).1 := by
  cases op with
  | call fid args ctx =>
    cases hd : defAt P S fid with
    | none => simp only [step, hd]; exact ⟨hS, hR⟩
    | some d =>
      rw [step_call_eq P fuel S fid args ctx d hd, fetch_eq hS hd]
      cases hc : compile P fuel d with
      | error e => exact ⟨hS, hR⟩
      | ok c =>
        simp only
        have hcp : c.policy.copyCaptured = true := by rw [compile_policy hc]; exact hπ
        cases hr : runCompiled ⟨P.defs⟩ fuel c args ctx with
        | error e => exact ⟨cacheOK_insert hS hd hc S.results, resultsOK_congr rfl rfl hR⟩
        | ok r =>
          obtain ⟨t, w, μ⟩ := r
          simp only [after_of_copy hcp]
          refine ⟨cacheOK_insert hS hd hc _, ?_⟩
          intro p hp
          rcases List.mem_append.mp hp with h1 | h1
          · obtain ⟨d', hd', hc'⟩ := hR p h1
            exact ⟨d', hd', hc'⟩
          · simp only [List.mem_singleton] at h1
            subst h1
            refine ⟨d, hd, ?_⟩
            intro c' hc'
            rw [hc] at hc'; cases hc'
            exact runCompiled_fresh hcp hr
  | transform fid =>
    cases hd : defAt P S fid with
    | none => simp only [step, hd]; exact ⟨hS, hR⟩
    | some d =>
      simp only [step, hd]
      refine ⟨?_, ?_⟩
      · intro fid' c h
        obtain ⟨d', hd', hc⟩ := hS fid' c h
        exact ⟨d', defAt_extend hd', hc⟩
      · intro p hp
        obtain ⟨d', hd', hc⟩ := hR p hp
        exact ⟨d', defAt_extend hd', hc⟩
  | mutateResult k i x =>
    simp only [step]
    split
    · rename_i fid r hres
      split
      · rename_i c hl
        obtain ⟨d, hd, hc⟩ := hS fid c hl
        obtain ⟨d', hd', hv⟩ := hR (fid, .list r) (List.mem_of_getElem? hres)
        rw [hd] at hd'; cases hd'
        have hge : c.heap.length ≤ r := by simpa [VGe] using hv c hc
        rw [List.getElem?_eq_none hge]
        exact ⟨hS, hR⟩
      · exact ⟨hS, hR⟩
    · exact ⟨hS, hR⟩

theorem run_preserves_fixed {P : Prog} {fuel : Nat} (hπ : P.policy.copyCaptured = true) (ops : List Op) {S : State}
    (hS : CacheOK P fuel S) (hR : ResultsOK P fuel S) :
    CacheOK P fuel (run P fuel S ops) ∧ ResultsOK P fuel (run P fuel S ops) := by
  induction ops generalizing S with
  | nil => exact ⟨hS, hR⟩
  | cons op ops ih =>
    obtain ⟨h1, h2⟩ := step_preserves_fixed hπ hS hR op
    exact ih h1 h2

theorem resultsOK_init (P : Prog) (fuel : Nat) : ResultsOK P fuel State.init := by
  intro p hp; simp [State.init] at hp

/-- with per-activation copies the observation of a call does not depend on the history (any module) -/
theorem history_independent_of_copy (P : Prog) (fuel : Nat) (hπ : P.policy.copyCaptured = true) (h : List Op)
    (fid : Nat) (d : FuncDef) (hd : P.defs[fid]? = some d) (args : List Tree) (ctx : Option Ctx) :
    (step P fuel (run P fuel State.init h) (.call fid args ctx)).2 = some (pureCall P fuel d args ctx) :=
  step_call_obs (run_preserves_fixed hπ h (cacheOK_init P fuel) (resultsOK_init P fuel)).1 fid args ctx (defAt_of_defs _ hd)

theorem current_copies {P : Prog} (hπ : P.policy = Policy.current) : P.policy.copyCaptured = true := by
  rw [hπ]; rfl

/-- no cell survives a call: nothing captured holds a list, or captured lists are copied per activation -/
def NoSharedCells (P : Prog) : Prop := NoCapturedLists P ∨ P.policy.copyCaptured = true

theorem after_stable {P : Prog} (hP : NoSharedCells P) {fuel : Nat} {d : FuncDef} {c : Compiled}
    (hc : compile P fuel d = .ok c) (μ : Heap) : c.after μ = c := by
  rcases hP with h | h
  · exact after_of_heap_nil (compile_heap_nil h hc) μ
  · exact after_of_copy (by rw [compile_policy hc]; exact h) μ

/-! ## a call on the shared heap -/

/-- Shared core of `args_untouched` and `result_fresh`. -/
theorem callBoundary_frame (π : Policy) (Φ : Funs) (fuel : Nat) (f : String) (args : List Val) (μ : Heap) (ctx : Option Ctx)
    (v : Val) (μ' : Heap) (h : callBoundary π Φ fuel f args μ ctx = .ok (v, μ')) :
    Ext μ.length μ μ' ∧ VGe μ.length v := by
  unfold callBoundary toValues at h
  simp only [bind, Except.bind] at h
  split at h
  · cases h
  · rename_i r1 h1
    obtain ⟨vs, μ1⟩ := r1
    split at h
    · cases h
    · rename_i r2 h2
      obtain ⟨w, μ2⟩ := r2
      obtain ⟨e1, hvs⟩ := (copy_frame μ μ.length fuel).2 args μ vs μ1 (hok_self μ) h1
      obtain ⟨e2, hw⟩ := callEntry_frame (evalFrame Φ) hvs e1.1 h2
      obtain ⟨e3, hv⟩ := exit_frame π e2.1 hw h
      exact ⟨ext_trans (ext_trans e1 e2) e3, hv⟩

/-- `transform` files the copy under a NEW identity -/
theorem transform_new_identity (P : Prog) (fuel : Nat) (S : State) (fid : Nat) (d : FuncDef) (hd : defAt P S fid = some d) :
    defAt P (step P fuel S (.transform fid)).1 (P.defs ++ S.extra).length = some d := by
  have hd' : (P.defs ++ S.extra)[fid]? = some d := hd
  simp only [step, defAt, hd']
  rw [← List.append_assoc]
  exact List.getElem?_concat_length

/-! ## the thread machine -/

def TCacheOK (P : Prog) (fuel : Nat) (cache : List (Nat × Compiled)) : Prop :=
  ∀ fid c, lookup cache fid = some c → ∃ d, P.defs[fid]? = some d ∧ compile P fuel d = .ok c

/-- what a thread holds at its program counter is what the sequential call would have computed -/
def ThreadOK (P : Prog) (fuel : Nat) (t : Thread) : Prop :=
  match t.pc with
  | .start => True
  | .miss => True
  | .hit c => ∃ d, P.defs[t.fid]? = some d ∧ compile P fuel d = .ok c
  | .compiled c => ∃ d, P.defs[t.fid]? = some d ∧ compile P fuel d = .ok c
  | .ready c => ∃ d, P.defs[t.fid]? = some d ∧ compile P fuel d = .ok c
  | .failed e => (P.defs[t.fid]? = none ∧ e = .unbound) ∨ ∃ d, P.defs[t.fid]? = some d ∧ compile P fuel d = .error e
  | .done r => r = seqResult P fuel t

theorem seqResult_congr (P : Prog) (fuel : Nat) (t : Thread) (pc : PC) : seqResult P fuel { t with pc := pc } = seqResult P fuel t := rfl

theorem run_is_seq {P : Prog} {fuel : Nat} {t : Thread} {d : FuncDef} {c : Compiled}
    (hd : P.defs[t.fid]? = some d) (hc : compile P fuel d = .ok c) :
    (runCompiled ⟨P.defs⟩ fuel c t.args t.ctx).map (·.1) = seqResult P fuel t := by
  unfold seqResult pureCall
  simp only [hd, hc]

theorem tcacheOK_insert {P : Prog} {fuel : Nat} {cache : List (Nat × Compiled)} (h : TCacheOK P fuel cache)
    {fid : Nat} {d : FuncDef} {c : Compiled} (hd : P.defs[fid]? = some d) (hc : compile P fuel d = .ok c) :
    TCacheOK P fuel (insert cache fid c) := by
  intro fid' c' hl
  by_cases e : fid' = fid
  · subst e; rw [lookup_insert_self] at hl; cases hl; exact ⟨d, hd, hc⟩
  · rw [lookup_insert_ne _ _ e] at hl; exact h fid' c' hl

theorem trun_preserves {P : Prog} {fuel : Nat} (hP : NoSharedCells P) {cache : List (Nat × Compiled)} {t : Thread} {c : Compiled}
    (hc : TCacheOK P fuel cache) (ht : ∃ d, P.defs[t.fid]? = some d ∧ compile P fuel d = .ok c) :
    TCacheOK P fuel (trun P fuel cache t c).1 ∧ ThreadOK P fuel (trun P fuel cache t c).2 ∧
    (trun P fuel cache t c).2.fid = t.fid ∧ (trun P fuel cache t c).2.args = t.args ∧ (trun P fuel cache t c).2.ctx = t.ctx := by
  obtain ⟨d, hd, hcd⟩ := ht
  have hseq := run_is_seq (t := t) hd hcd
  unfold trun
  cases hr : runCompiled ⟨P.defs⟩ fuel c t.args t.ctx with
  | error e =>
    rw [hr] at hseq
    refine ⟨hc, ?_, by triv, by triv, by triv⟩
    show Except.error e = seqResult P fuel _
    rw [seqResult_congr]; exact hseq
  | ok r =>
    obtain ⟨tr, w, μ⟩ := r
    rw [hr] at hseq
    simp only [after_stable hP hcd]
    refine ⟨tcacheOK_insert hc hd hcd, ?_, by triv, by triv, by triv⟩
    show Except.ok tr = seqResult P fuel _
    rw [seqResult_congr]; exact hseq

theorem tstep_preserves {P : Prog} {fuel : Nat} (hP : NoSharedCells P) {cache : List (Nat × Compiled)} {t : Thread}
    (hc : TCacheOK P fuel cache) (ht : ThreadOK P fuel t) :
    TCacheOK P fuel (tstep P fuel cache t).1 ∧ ThreadOK P fuel (tstep P fuel cache t).2 ∧
    (tstep P fuel cache t).2.fid = t.fid ∧ (tstep P fuel cache t).2.args = t.args ∧ (tstep P fuel cache t).2.ctx = t.ctx := by
  unfold tstep
  cases hpc : t.pc with
  | start =>
    simp only
    refine ⟨hc, ?_, by triv, by triv, by triv⟩
    cases hl : lookup cache t.fid with
    | none => simp [ThreadOK]
    | some c => simpa [ThreadOK] using hc t.fid c hl
  | miss =>
    simp only
    refine ⟨hc, ?_, by triv, by triv, by triv⟩
    cases hd : P.defs[t.fid]? with
    | none => simp [ThreadOK, hd]
    | some d =>
      cases hcd : compile P fuel d with
      | ok c => simp [ThreadOK, hd, hcd]
      | error e => simp [ThreadOK, hd, hcd]
  | compiled c =>
    simp only
    have ht' : ∃ d, P.defs[t.fid]? = some d ∧ compile P fuel d = .ok c := by simpa [ThreadOK, hpc] using ht
    obtain ⟨d, hd, hcd⟩ := ht'
    exact ⟨tcacheOK_insert hc hd hcd, by simpa [ThreadOK] using ⟨d, hd, hcd⟩, by triv, by triv, by triv⟩
  | hit c =>
    simp only
    exact trun_preserves hP hc (by simpa [ThreadOK, hpc] using ht)
  | ready c =>
    simp only
    exact trun_preserves hP hc (by simpa [ThreadOK, hpc] using ht)
  | failed e =>
    simp only
    refine ⟨hc, ?_, by triv, by triv, by triv⟩
    have ht' : (P.defs[t.fid]? = none ∧ e = .unbound) ∨ ∃ d, P.defs[t.fid]? = some d ∧ compile P fuel d = .error e := by
      simpa [ThreadOK, hpc] using ht
    show Except.error e = seqResult P fuel _
    rw [seqResult_congr]
    unfold seqResult pureCall
    rcases ht' with ⟨h1, h2⟩ | ⟨d, hd, hcd⟩
    · simp [h1, h2]
    · simp [hd, hcd]
  | done r =>
    simp only
    refine ⟨hc, ?_, by triv, by triv, by triv⟩
    have : r = seqResult P fuel t := by simpa [ThreadOK, hpc] using ht
    show r = seqResult P fuel _
    rw [seqResult_congr]; exact this

/-- the schedule theorem in its general form: from any cache whose entries are compilations of their
definitions and any threads whose program counters hold what the sequential call would hold, under
`NoSharedCells` (no captured list, or per-activation copies) -/
theorem schedule_independent_from (P : Prog) (fuel : Nat) (hP : NoSharedCells P) (sched : List Nat) :
    ∀ (cache : List (Nat × Compiled)) (ts : List Thread), TCacheOK P fuel cache → (∀ t ∈ ts, ThreadOK P fuel t) →
      TCacheOK P fuel (runSchedule P fuel cache ts sched).1 ∧
      ∀ t ∈ (runSchedule P fuel cache ts sched).2, ∀ r, t.pc = .done r → r = seqResult P fuel t := by
  induction sched with
  | nil =>
    intro cache ts hc hts
    refine ⟨hc, ?_⟩
    intro t ht r hr
    have := hts t ht
    simpa [ThreadOK, hr] using this
  | cons i rest ih =>
    intro cache ts hc hts
    simp only [runSchedule]
    cases hi : ts[i]? with
    | none => exact ih cache ts hc hts
    | some t =>
      simp only
      have ht : ThreadOK P fuel t := hts t (List.mem_of_getElem? hi)
      obtain ⟨h1, h2, _, _, _⟩ := tstep_preserves hP hc ht
      apply ih _ _ h1
      intro t' ht'
      rcases List.mem_or_eq_of_mem_set ht' with h | h
      · exact hts t' h
      · exact h ▸ h2

/-! ## progress of the thread machine -/

/-- number of atomic steps a thread still needs, at most -/
def PC.rank : PC → Nat
  | .start => 4
  | .miss => 3
  | .compiled _ => 2
  | .failed _ => 1
  | .hit _ => 1
  | .ready _ => 1
  | .done _ => 0

theorem trun_rank (P : Prog) (fuel : Nat) (cache : List (Nat × Compiled)) (t : Thread) (c : Compiled) :
    (trun P fuel cache t c).2.pc.rank = 0 := by
  unfold trun
  cases runCompiled ⟨P.defs⟩ fuel c t.args t.ctx with
  | error e => rfl
  | ok r => obtain ⟨tr, w, μ⟩ := r; rfl

theorem tstep_rank (P : Prog) (fuel : Nat) (cache : List (Nat × Compiled)) (t : Thread) :
    (tstep P fuel cache t).2.pc.rank ≤ t.pc.rank - 1 := by
  unfold tstep
  cases hpc : t.pc with
  | start =>
    simp only
    cases lookup cache t.fid <;> simp [PC.rank]
  | miss =>
    simp only
    cases P.defs[t.fid]? with
    | none => simp [PC.rank]
    | some d => cases hc : compile P fuel d <;> simp [hc, PC.rank]
  | compiled c => simp [PC.rank]
  | hit c => simp only; rw [trun_rank]; exact Nat.zero_le _
  | ready c => simp only; rw [trun_rank]; exact Nat.zero_le _
  | failed e => simp [PC.rank]
  | done r => simp [PC.rank]

theorem runSchedule_rank (P : Prog) (fuel : Nat) (sched : List Nat) :
    ∀ (cache : List (Nat × Compiled)) (ts : List Thread) (i : Nat) (t : Thread), ts[i]? = some t →
      ∃ t', (runSchedule P fuel cache ts sched).2[i]? = some t' ∧ t'.pc.rank ≤ t.pc.rank - sched.count i := by
  induction sched with
  | nil => intro cache ts i t h; exact ⟨t, h, by simp⟩
  | cons j rest ih =>
    intro cache ts i t h
    simp only [runSchedule]
    by_cases hji : j = i
    · subst hji
      rw [h]
      simp only
      have hlt : j < ts.length := (List.getElem?_eq_some_iff.mp h).1
      obtain ⟨t', h1, h2⟩ := ih (tstep P fuel cache t).1 (ts.set j (tstep P fuel cache t).2) j (tstep P fuel cache t).2
        (List.getElem?_set_self hlt)
      refine ⟨t', h1, ?_⟩
      have := tstep_rank P fuel cache t
      rw [List.count_cons_self]
      omega
    · rw [List.count_cons_of_ne hji]
      cases hj : ts[j]? with
      | none => exact ih cache ts i t h
      | some tj =>
        simp only
        apply ih
        rw [List.getElem?_set_ne hji]; exact h

end Fpy.C18
