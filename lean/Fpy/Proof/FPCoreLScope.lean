/-
C12 (round 2) — the compiled form of a well-scoped block has its free variables (other than compiler
temporaries) among the variables defined before the block.
-/
import Fpy.Proof.FPCoreLFv
set_option linter.unusedSimpArgs false
set_option linter.unusedVariables false
namespace Fpy.C12
open Fpy Fpy.Lang

/-- the free variables of `E` that are not compiler temporaries are in `G` -/
def FvIn (G : List String) (E : FExpr) : Prop := ∀ y, y ∈ fvF E → isTmpL y = false → y ∈ G

mutual
theorem gamma_sub : ∀ (s : LStmt) (G : List String) (y : String), y ∈ s.gamma G → y ∈ G ∨ y ∈ s.asg
  | .assign x e, G, y, h => by
    simp only [LStmt.gamma, List.mem_cons] at h
    rcases h with h | h
    · exact Or.inr (by simp [LStmt.asg, h])
    · exact Or.inl h
  | .tassign xs e, G, y, h => by
    simp only [LStmt.gamma, List.mem_append] at h
    rcases h with h | h
    · exact Or.inr (by simpa [LStmt.asg] using h)
    · exact Or.inl h
  | .with_ d body, G, y, h => by
    simp only [LStmt.gamma] at h
    simpa [LStmt.asg] using gammaL_sub body G y h
  | .ifte c t f, G, y, h => by
    simp only [LStmt.gamma, List.mem_filter] at h
    rcases gammaL_sub t G y h.1 with h' | h'
    · exact Or.inl h'
    · exact Or.inr (by simp [LStmt.asg, h'])
  | .if1 c t, G, y, h => Or.inl (by simpa [LStmt.gamma] using h)
  | .while_ c b, G, y, h => Or.inl (by simpa [LStmt.gamma] using h)
  | .forRange x n b, G, y, h => Or.inl (by simpa [LStmt.gamma] using h)
  | .ret e, G, y, h => Or.inl (by simpa [LStmt.gamma] using h)
theorem gammaL_sub : ∀ (ss : List LStmt) (G : List String) (y : String), y ∈ LStmt.gammaL G ss → y ∈ G ∨ y ∈ LStmt.asgL ss
  | [], G, y, h => Or.inl (by simpa [LStmt.gammaL] using h)
  | s :: ss, G, y, h => by
    simp only [LStmt.gammaL] at h
    rcases gammaL_sub ss (s.gamma G) y h with h' | h'
    · rcases gamma_sub s G y h' with h'' | h''
      · exact Or.inl h''
      · exact Or.inr (by simp [LStmt.asgL, h''])
    · exact Or.inr (by simp [LStmt.asgL, h'])
end

theorem fvIn_toF {G : List String} {e : LExpr} (h : ∀ y, y ∈ e.vars → y ∈ G) : FvIn G e.toF :=
  fun y hy _ => h y (fvF_toF e y hy)

theorem fvIn_retOf {G D : List String} (h : ∀ y, y ∈ D → y ∈ G) : FvIn G (retOf D) :=
  fun y hy _ => h y ((fv_retOf D y).1 hy)

theorem fvIn_repack {G M : List String} (h : ∀ y, y ∈ M → y ∈ G) : FvIn G (repack M) :=
  fun y hy ht => h y ((fv_repack M y ht).1 hy)

theorem fvIn_num (G : List String) (v : NV) : FvIn G (.num v) := fun y hy _ => by simp [fvF] at hy

theorem fvIn_var {G : List String} {x : String} (h : x ∈ G) : FvIn G (.var x) :=
  fun y hy _ => by simp only [fvF, List.mem_singleton] at hy; subst hy; exact h

/-- the free variables of the continuation of a loop-like statement with carried variables `M` -/
theorem fvIn_unpackK {G M : List String} {K : FExpr} (hK : FvIn G K) : FvIn G (unpack M (.var "%t") K) := by
  intro y hy ht
  rcases (fv_unpack M (.var "%t") K y ht).1 hy with h | h
  · simp only [fvF, List.mem_singleton] at h; exact absurd h (isTmpL_ne ht).1
  · exact hK y h.1 ht

theorem fvIn_bind1 {G : List String} {x : String} {e K : FExpr} (he : FvIn G e)
    (hK : ∀ y, y ∈ fvF K → isTmpL y = false → y ≠ x → y ∈ G) : FvIn G (bind1 x e K) := by
  intro y hy ht
  rcases (fv_bind1 x e K y).1 hy with h | h
  · exact he y h ht
  · exact hK y h.1 ht h.2

theorem fvIn_ite {G : List String} {c t f : FExpr} (hc : FvIn G c) (h1 : FvIn G t) (h2 : FvIn G f) : FvIn G (.ite c t f) := by
  intro y hy ht
  simp only [fvF, List.mem_append] at hy
  rcases hy with (h | h) | h
  · exact hc y h ht
  · exact h1 y h ht
  · exact h2 y h ht

theorem fvIn_whileE {G : List String} {c init U K : FExpr} {m : String} (hc : FvIn G c) (hi : FvIn G init)
    (hU : FvIn G U) (hK : FvIn G K) : FvIn G (whileE c m init U K) := by
  intro y hy ht
  rcases (fv_whileE c m init U K y).1 hy with h | h
  · exact hi y h ht
  · rcases h.1 with h' | h' | h'
    · exact hc y h' ht
    · exact hU y h' ht
    · exact hK y h' ht

theorem fvIn_forE {G : List String} {x m : String} {n : Nat} {init B K : FExpr} (hi : FvIn G init)
    (hB : FvIn (x :: G) B) (hK : FvIn G K) : FvIn G (forE x n m init B K) := by
  intro y hy ht
  rcases (fv_forE x n m init B K y ht).1 hy with h | h
  · exact hi y h ht
  · rcases h.1 with h' | h'
    · rcases List.mem_cons.1 (hB y h'.1 ht) with e | e
      · exact absurd e h'.2
      · exact e
    · exact hK y h' ht

theorem isMany_cons2 (x y : String) (l : List String) : isMany (x :: y :: l) = true := by simp [isMany]
theorem isMany_nil : isMany [] = false := by simp [isMany]
theorem isMany_one (x : String) : isMany [x] = false := by simp [isMany]

theorem fvIn_carryRet {G M : List String} (h : ∀ y, y ∈ M → y ∈ G) : FvIn G (carryRet M) := by
  match M with
  | [] => exact fvIn_num _ _
  | [x] => exact fvIn_var (h x (by simp))
  | x :: x2 :: rest => exact fvIn_repack h

theorem fvIn_carryInit {G M : List String} (h : ∀ y, y ∈ M → y ∈ G) : FvIn G (carryInit M) := by
  match M with
  | [] => exact fvIn_num _ _
  | [x] => exact fvIn_var (h x (by simp))
  | x :: x2 :: rest =>
    intro y hy ht
    simp only [carryInit, fvF, List.mem_singleton] at hy
    exact absurd hy (isTmpL_ne ht).1

theorem fvIn_carryIn {G : List String} (M : List String) {B : FExpr} (h : FvIn G B) : FvIn G (carryIn M B) := by
  unfold carryIn
  split
  · exact fvIn_unpackK h
  · exact h

theorem fvIn_carryOut {G M : List String} {E : FExpr} (hM : ∀ y, y ∈ M → y ∈ G) (h : FvIn G E) : FvIn G (carryOut M E) := by
  unfold carryOut
  split
  · intro y hy ht
    rcases (fv_pack M E y).1 hy with h' | h'
    · exact hM y h'
    · exact h y h'.1 ht
  · exact h

theorem fvIn_carryCond {G : List String} (M : List String) {c : LExpr} (h : ∀ y, y ∈ c.vars → y ∈ G) : FvIn G (carryCond M c) := by
  unfold carryCond
  split
  · exact fun y hy ht => h y (fv_cond_sub M c y hy ht)
  · exact fvIn_toF h

theorem fvIn_ifPre {G muts : List String} {B : FExpr} (hM : ∀ y, y ∈ muts → y ∈ G) (h : FvIn G B) : FvIn G (ifPre muts B) := by
  match muts with
  | [] => exact h
  | [m] => exact fvIn_bind1 (fvIn_var (hM m (by simp))) (fun y hy ht _ => h y hy ht)
  | m :: m2 :: rest => exact fvIn_unpackK h

theorem fvIn_ifEnd {G ch : List String} (h : ∀ y, y ∈ ch → y ∈ G) : FvIn G (ifEnd ch) := by
  match ch with
  | [] => exact fvIn_num _ _
  | [x] => exact fvIn_bind1 (fvIn_var (h x (by simp))) (fun y hy ht _ => fvIn_var (h x (by simp)) y hy ht)
  | x :: x2 :: rest => exact fvIn_repack h

theorem fvIn_ifAfter {G ch : List String} {ifE K : FExpr} (hE : FvIn G ifE)
    (hK : ∀ y, y ∈ fvF K → isTmpL y = false → y ∉ ch → y ∈ G) : FvIn G (ifAfter ch ifE K) := by
  match ch with
  | [] => exact fvIn_bind1 hE (fun y hy ht _ => hK y hy ht (by simp))
  | [x] => exact fvIn_bind1 hE (fun y hy ht hne => hK y hy ht (by simpa using hne))
  | x :: x2 :: rest =>
    refine fvIn_bind1 hE (fun y hy ht _ => ?_)
    rcases (fv_unpack _ _ _ y ht).1 hy with h' | h'
    · simp only [fvF, List.mem_singleton] at h'; exact absurd h' (isTmpL_ne ht).1
    · exact hK y h'.1 ht h'.2

theorem mem_mutsIf (G : List String) (t f : List LStmt) (y : String) :
    y ∈ mutsIf G t f ↔ (y ∈ LStmt.asgL t ∨ y ∈ LStmt.asgL f) ∧ y ∈ G := by
  unfold mutsIf
  rw [mem_mutatedOf, asgL_append, List.mem_append]

theorem mem_introsIf (G : List String) (t f : List LStmt) (y : String) :
    y ∈ introsIf G t f ↔ y ∈ LStmt.gammaL G t ∧ y ∈ LStmt.gammaL G f ∧ y ∉ G := by
  unfold introsIf
  rw [mem_sortNames]
  simp only [List.mem_filter, List.contains_iff_mem, Bool.not_eq_true', decide_eq_true_eq]
  constructor
  · rintro ⟨⟨h1, h2⟩, h3⟩
    exact ⟨h1, by simpa using h2, by simpa using h3⟩
  · rintro ⟨h1, h2, h3⟩
    exact ⟨⟨h1, by simpa using h2⟩, by simpa using h3⟩

section
variable (cfg : Cfg) (hord : OrdOK cfg)
include hord

theorem mem_ord_mut {k : Nat} {G : List String} {ss : List LStmt} {y : String} (h : y ∈ cfg.ord k (mutatedOf G ss)) :
    y ∈ LStmt.asgL ss ∧ y ∈ G := (mem_mutatedOf G ss y).1 (((hord _ _).1 y).1 h)

mutual
theorem fvIn_S : ∀ (s : LStmt) (G : List String) (K : Option FExpr) (E : FExpr), s.ws G →
    compileLS cfg G s K = some E → (∀ k, K = some k → FvIn (s.gamma G) k) → FvIn G E
  | .assign x e, G, K, E, hws, hc, hk => by
    cases K with
    | none => simp [compileLS] at hc
    | some k =>
      simp only [compileLS] at hc; cases hc
      refine fvIn_bind1 (fvIn_toF hws.1) (fun y hy ht hne => ?_)
      have := hk k rfl y hy ht
      simp only [LStmt.gamma, List.mem_cons] at this
      rcases this with h' | h'
      · exact absurd h' hne
      · exact h'
  | .tassign xs e, G, K, E, hws, hc, hk => by
    cases K with
    | none => simp [compileLS] at hc
    | some k =>
      simp only [compileLS] at hc; cases hc
      intro y hy ht
      rcases (fv_unpack xs e.toF k y ht).1 hy with h | h
      · exact hws.1 y (fvF_toF e y h)
      · have := hk k rfl y h.1 ht
        simp only [LStmt.gamma, List.mem_append] at this
        rcases this with h' | h'
        · exact absurd h' h.2
        · exact h'
  | .ret e, G, K, E, hws, hc, hk => by
    cases K with
    | some k => simp [compileLS] at hc
    | none =>
      simp only [compileLS] at hc; cases hc
      exact fvIn_toF hws
  | .with_ d body, G, K, E, hws, hc, hk => by
    simp only [compileLS] at hc
    cases hfd : fromDesc d with
    | none => rw [hfd] at hc; cases hc
    | some p =>
      rw [hfd] at hc
      simp only at hc
      cases K with
      | none =>
        cases hcb : compileLB cfg G body none with
        | none => rw [hcb] at hc; cases hc
        | some I =>
          rw [hcb] at hc; simp only [Option.map] at hc; cases hc
          have := fvIn_B body G none I hws hcb (fun k hk' => by cases hk')
          intro y hy ht
          exact this y (by simpa [fvF] using hy) ht
      | some k =>
        simp only at hc
        cases hcb : compileLB cfg G body (some (retOf (passedL G body k))) with
        | none => rw [hcb] at hc; cases hc
        | some I =>
          rw [hcb] at hc; simp only [Option.map] at hc; cases hc
          have hI := fvIn_B body G (some (retOf (passedL G body k))) I hws hcb
            (fun k' hk' => by cases hk'; exact fvIn_retOf (fun y hy => ((mem_passedL G body k y).1 hy).2.1))
          intro y hy ht
          rcases (fv_bundle _ _ _ y ht).1 hy with h | h
          · exact hI y (by simpa [fvF] using h) ht
          · have hg := hk k rfl y h.1 ht
            simp only [LStmt.gamma] at hg
            rcases gammaL_sub body G y hg with h' | h'
            · exact h'
            · exact absurd ((mem_passedL G body k y).2 ⟨h', hg, fvF_sub_occ k y h.1⟩) h.2
  | .ifte c t f, G, K, E, hws, hc, hk => by
    obtain ⟨hwc, hwt, hwf⟩ := hws
    have hmuts : ∀ y, y ∈ mutsIf G t f → y ∈ G := fun y hy => ((mem_mutsIf G t f y).1 hy).2
    have hchT : ∀ y, y ∈ mutsIf G t f ++ introsIf G t f → y ∈ LStmt.gammaL G t := fun y hy => by
      rcases List.mem_append.1 hy with h | h
      · exact gammaL_mono t G y (hmuts y h)
      · exact ((mem_introsIf G t f y).1 h).1
    have hchF : ∀ y, y ∈ mutsIf G t f ++ introsIf G t f → y ∈ LStmt.gammaL G f := fun y hy => by
      rcases List.mem_append.1 hy with h | h
      · exact gammaL_mono f G y (hmuts y h)
      · exact ((mem_introsIf G t f y).1 h).2.1
    simp only [compileLS] at hc
    cases K with
    | none => simp at hc
    | some k =>
      simp only at hc
      split at hc
      · cases hc
      · cases hT : compileLB cfg G t (some (ifEnd (mutsIf G t f ++ introsIf G t f))) with
        | none => rw [hT] at hc; simp at hc
        | some T =>
          cases hF : compileLB cfg G f (some (ifEnd (mutsIf G t f ++ introsIf G t f))) with
          | none => rw [hT, hF] at hc; simp at hc
          | some F =>
            rw [hT, hF] at hc; simp only [Option.some.injEq] at hc; subst hc
            have h1 := fvIn_B t G _ T hwt hT (fun k' hk' => by cases hk'; exact fvIn_ifEnd hchT)
            have h2 := fvIn_B f G _ F hwf hF (fun k' hk' => by cases hk'; exact fvIn_ifEnd hchF)
            refine fvIn_carryOut hmuts (fvIn_ifAfter (fvIn_ite (fvIn_carryCond _ hwc) (fvIn_ifPre hmuts h1) (fvIn_ifPre hmuts h2)) ?_)
            intro y hy ht hn
            have hg := hk k rfl y hy ht
            simp only [LStmt.gamma, List.mem_filter, List.contains_iff_mem] at hg
            by_cases hG : y ∈ G
            · exact hG
            · exact absurd (List.mem_append.2 (Or.inr ((mem_introsIf G t f y).2 ⟨hg.1, by simpa using hg.2, hG⟩))) hn
  | .if1 c t, G, K, E, hws, hc, hk => by
    obtain ⟨hwc, hwt⟩ := hws
    cases K with
    | none => simp [compileLS] at hc
    | some k =>
      have hkG : FvIn G k := fun y hy ht => by simpa [LStmt.gamma] using hk k rfl y hy ht
      have hMG : ∀ y, y ∈ cfg.ord (siteIf1 t) (mutatedOf G t) → y ∈ G := fun y hy => (mem_ord_mut cfg hord hy).2
      simp only [compileLS] at hc
      split at hc
      · cases hc
      · cases hB : compileLB cfg G t (some (carryRet (cfg.ord (siteIf1 t) (mutatedOf G t)))) with
        | none => rw [hB] at hc; cases hc
        | some B =>
          rw [hB] at hc; simp only [Option.map, Option.some.injEq] at hc; subst hc
          have h1 := fvIn_B t G _ B hwt hB
            (fun k' hk' => by cases hk'; exact fvIn_carryRet (fun y hy => gammaL_mono t G y (hMG y hy)))
          exact fvIn_carryOut hMG (fvIn_bind1
            (fvIn_ite (fvIn_carryCond _ hwc) (fvIn_carryIn _ h1) (fvIn_carryInit hMG))
            (fun y hy ht _ => fvIn_carryIn _ hkG y hy ht))
  | .while_ c b, G, K, E, hws, hc, hk => by
    obtain ⟨hwc, hwb⟩ := hws
    cases K with
    | none => simp [compileLS] at hc
    | some k =>
      have hkG : FvIn G k := fun y hy ht => by simpa [LStmt.gamma] using hk k rfl y hy ht
      have hMG : ∀ y, y ∈ cfg.ord (siteWhile b) (mutatedOf G b) → y ∈ G := fun y hy => (mem_ord_mut cfg hord hy).2
      simp only [compileLS] at hc
      split at hc
      · cases hc
      · cases hB : compileLB cfg G b (some (carryRet (cfg.ord (siteWhile b) (mutatedOf G b)))) with
        | none => rw [hB] at hc; cases hc
        | some B =>
          rw [hB] at hc; simp only [Option.map, Option.some.injEq] at hc; subst hc
          have h1 := fvIn_B b G _ B hwb hB
            (fun k' hk' => by cases hk'; exact fvIn_carryRet (fun y hy => gammaL_mono b G y (hMG y hy)))
          exact fvIn_carryOut hMG (fvIn_whileE (fvIn_carryCond _ hwc) (fvIn_carryInit hMG) (fvIn_carryIn _ h1)
            (fvIn_carryIn _ hkG))
  | .forRange x n b, G, K, E, hws, hc, hk => by
    obtain ⟨hxt, hxG, hxa, hwb⟩ := hws
    cases K with
    | none => simp [compileLS] at hc
    | some k =>
      have hkG : FvIn G k := fun y hy ht => by simpa [LStmt.gamma] using hk k rfl y hy ht
      have hMG : ∀ y, y ∈ cfg.ord (siteFor b) (mutatedOf G b) → y ∈ G := fun y hy => (mem_ord_mut cfg hord hy).2
      simp only [compileLS] at hc
      rw [mutatedOf_cons x G b hxa] at hc
      cases hB : compileLB cfg (x :: G) b (some (carryRet (cfg.ord (siteFor b) (mutatedOf G b)))) with
      | none => rw [hB] at hc; cases hc
      | some B =>
        rw [hB] at hc; simp only [Option.map, Option.some.injEq] at hc; subst hc
        have h1 := fvIn_B b (x :: G) _ B hwb hB
          (fun k' hk' => by cases hk'; exact fvIn_carryRet (fun y hy => gammaL_mono b (x :: G) y (by simp [hMG y hy])))
        exact fvIn_carryOut hMG (fvIn_forE (fvIn_carryInit hMG) (fvIn_carryIn _ h1) (fvIn_carryIn _ hkG))
theorem fvIn_B : ∀ (ss : List LStmt) (G : List String) (K : Option FExpr) (E : FExpr), LStmt.wsL G ss →
    compileLB cfg G ss K = some E → (∀ k, K = some k → FvIn (LStmt.gammaL G ss) k) → FvIn G E
  | [], G, K, E, hws, hc, hk => by
    simp only [compileLB] at hc
    subst hc
    exact hk E rfl
  | s :: ss, G, K, E, hws, hc, hk => by
    obtain ⟨hw1, hw2⟩ := hws
    by_cases hlast : ss = [] ∧ K = none
    · obtain ⟨rfl, rfl⟩ := hlast
      simp only [compileLB] at hc
      exact fvIn_S s G none E hw1 hc (fun k hk' => by cases hk')
    · have hc' : ∃ K', compileLB cfg (s.gamma G) ss K = some K' ∧ compileLS cfg G s (some K') = some E := by
        cases ss with
        | nil =>
          cases K with
          | none => exact absurd ⟨rfl, rfl⟩ hlast
          | some k => simp only [compileLB] at hc; exact ⟨k, rfl, hc⟩
        | cons s2 ss2 =>
          simp only [compileLB] at hc
          cases hcc : compileLB cfg (s.gamma G) (s2 :: ss2) K with
          | none => simp only [compileLB] at hcc; rw [hcc] at hc; cases hc
          | some K' => simp only [compileLB] at hcc; rw [hcc] at hc; exact ⟨K', rfl, hc⟩
      obtain ⟨K', hcK', hcs⟩ := hc'
      have h2 := fvIn_B ss (s.gamma G) K K' hw2 hcK' (fun k hk' => by simpa [LStmt.gammaL] using hk k hk')
      exact fvIn_S s G (some K') E hw1 hcs (fun k hk' => by cases hk'; exact h2)
end

end
end Fpy.C12
