/-
Heap-location parametricity, part 5: the fuel-free form, the version for environments related on
a set of variables only (the other side may hold extra temporaries), and well-formedness.
-/
import Fpy.Proof.LangPar4
namespace Fpy.Xform
open Fpy Fpy.Lang

section
variable {Φ : Funs} {π : RMap} {D : List Nat} {d : Nat} {σ1 σ2 : Env} {μ1 μ2 : Heap}

theorem par_evalBω (hd : d ≤ μ1.length) (henv : ER π D d σ1 σ2) (hh : HR π D μ1 μ2) (C : Ctx) (ss : List Stmt) :
    RelM (QS π D μ1 μ2) (evalBω Φ σ1 μ1 C ss) (evalBω Φ σ2 μ2 C ss) :=
  RelM.tends (tends_evalB Φ σ1 μ1 C ss) (tends_evalB Φ σ2 μ2 C ss)
    (fun n => (parAt Φ π D n).evalB d σ1 σ2 μ1 μ2 C ss hd henv hh)

theorem par_evalSω (hd : d ≤ μ1.length) (henv : ER π D d σ1 σ2) (hh : HR π D μ1 μ2) (C : Ctx) (s : Stmt) :
    RelM (QS π D μ1 μ2) (evalSω Φ σ1 μ1 C s) (evalSω Φ σ2 μ2 C s) :=
  RelM.tends (tends_evalS Φ σ1 μ1 C s) (tends_evalS Φ σ2 μ2 C s)
    (fun n => (parAt Φ π D n).evalS d σ1 σ2 μ1 μ2 C s hd henv hh)

theorem par_evalEω (hd : d ≤ μ1.length) (henv : ER π D d σ1 σ2) (hh : HR π D μ1 μ2) (C : Ctx) (e : Expr) :
    RelM (QE π D μ1 μ2) (evalEω Φ σ1 μ1 C e) (evalEω Φ σ2 μ2 C e) :=
  RelM.tends (tends_evalE Φ σ1 μ1 C e) (tends_evalE Φ σ2 μ2 C e)
    (fun n => (parAt Φ π D n).evalE d σ1 σ2 μ1 μ2 C e hd henv hh)

theorem par_forLoopω (hd : d ≤ μ1.length) (henv : ER π D d σ1 σ2) (hh : HR π D μ1 μ2) (C : Ctx) {r : Nat} (hr : r ∉ D)
    (i : Nat) (p : Pat) (body : List Stmt) :
    RelM (QS π D μ1 μ2) (forLoopω Φ σ1 μ1 C r i p body) (forLoopω Φ σ2 μ2 C (π r) i p body) :=
  RelM.tends (tends_forLoop Φ σ1 μ1 C r i p body) (tends_forLoop Φ σ2 μ2 C (π r) i p body)
    (fun n => (parAt Φ π D n).forLoop d σ1 σ2 μ1 μ2 C r i p body hd henv hh hr)
end

/-! ### environments related on a set of variables -/

/-- related on the variables of `S` (the other variables are unconstrained: temporaries) -/
def ERS (S : List String) (π : RMap) (D : List Nat) (d : Nat) (σ1 σ2 : Env) : Prop :=
  ∀ x, x ∈ S → ORel (VR π D d) (σ1.get? x) (σ2.get? x)

/-- the bindings of the variables in `S` -/
def restrictEnv (σ : Env) (S : List String) : Env := σ.filter (fun p => decide (p.1 ∈ S))

theorem get?_restrictEnv (σ : Env) (S : List String) (x : String) :
    (restrictEnv σ S).get? x = if x ∈ S then σ.get? x else none := by
  unfold restrictEnv Env.get?
  induction σ with
  | nil => simp
  | cons a σ ih =>
    rw [List.filter_cons]
    by_cases haS : a.1 ∈ S
    · rw [if_pos (decide_eq_true haS)]
      simp only [List.find?_cons]
      by_cases hax : a.1 = x
      · have h1 : (a.1 == x) = true := by simpa using hax
        simp only [h1]
        rw [if_pos (hax ▸ haS)]
      · have h1 : (a.1 == x) = false := by simpa using hax
        simp only [h1]; exact ih
    · rw [if_neg (by simpa using haS)]
      rw [ih]
      simp only [List.find?_cons]
      by_cases hax : a.1 = x
      · have hxS : x ∉ S := hax ▸ haS
        rw [if_neg hxS, if_neg hxS]
      · have h1 : (a.1 == x) = false := by simpa using hax
        simp only [h1]

theorem ERS.restrict {S : List String} {π : RMap} {D : List Nat} {d : Nat} {σ1 σ2 : Env} (h : ERS S π D d σ1 σ2) :
    ER π D d (restrictEnv σ1 S) (restrictEnv σ2 S) := by
  intro x
  rw [get?_restrictEnv, get?_restrictEnv]
  split
  · rename_i hx; exact h x hx
  · simp only [ORel]

theorem ERS.of_ER {S : List String} {π : RMap} {D : List Nat} {d : Nat} {σ1 σ2 : Env} (h : ER π D d σ1 σ2) :
    ERS S π D d σ1 σ2 := fun x _ => h x

theorem ERS.mono {S : List String} {π : RMap} {D : List Nat} {d d' : Nat} (hd : d ≤ d') {σ1 σ2 : Env}
    (h : ERS S π D d σ1 σ2) : ERS S π D d' σ1 σ2 := by
  intro x hx
  have := h x hx
  cases h1 : σ1.get? x <;> cases h2 : σ2.get? x <;> rw [h1, h2] at this <;> simp only [ORel] at this ⊢
  exact this.mono hd

theorem ERS.transfer {S : List String} {π π' : RMap} {D D' : List Nat} {d d' : Nat} (hd : d ≤ d')
    (hπ : ∀ r, r < d → π r = π' r) (hD : ∀ r, r < d → r ∉ D → r ∉ D') {σ1 σ2 : Env}
    (h : ERS S π D d σ1 σ2) : ERS S π' D' d' σ1 σ2 := by
  intro x hx
  have := h x hx
  cases h1 : σ1.get? x <;> cases h2 : σ2.get? x <;> rw [h1, h2] at this <;> simp only [ORel] at this ⊢
  exact VR.transfer hd hπ hD _ _ this

theorem ERS.set {S : List String} {π : RMap} {D : List Nat} {d : Nat} {σ1 σ2 : Env} (h : ERS S π D d σ1 σ2) (x : String)
    {v w : Val} (hv : VR π D d v w) : ERS S π D d (σ1.set x v) (σ2.set x w) := by
  intro y hy
  rw [Env.get?_set, Env.get?_set]
  split
  · simpa only [ORel] using hv
  · exact h y hy

/-- a temporary (a name outside `S`) may be bound on one side only -/
theorem ERS.set_right {S : List String} {π : RMap} {D : List Nat} {d : Nat} {σ1 σ2 : Env} (h : ERS S π D d σ1 σ2)
    {x : String} (hx : x ∉ S) (w : Val) : ERS S π D d σ1 (σ2.set x w) := by
  intro y hy
  rw [Env.get?_set, if_neg (by intro e; subst e; exact hx hy)]
  exact h y hy

def ORS (S : List String) (π : RMap) (D : List Nat) (d : Nat) : Outcome → Outcome → Prop
  | .normal σ1, .normal σ2 => ERS S π D d σ1 σ2
  | .ret v, .ret w => VR π D d v w
  | _, _ => False

structure QSS (S : List String) (π : RMap) (D : List Nat) (μ1 μ2 : Heap) (a b : Outcome × Heap) : Prop where
  out : ORS S π D a.2.length a.1 b.1
  heap : HR π D a.2 b.2
  ext : ExtP π D μ1 μ2 a.2 b.2

theorem restrict_inv (σ : Env) (S : List String) : Inv (idRel S) σ (restrictEnv σ S) := by
  rw [inv_idRel]; intro z hz
  rw [get?_restrictEnv, if_pos hz]

/-- PARAMETRICITY ON A SET OF VARIABLES: a block that reads only variables of `S`, run in environments
related on `S` (each side may hold other variables), ends in environments related on `S` -/
theorem par_on {Φ : Funs} {S : List String} {π : RMap} {D : List Nat} {d : Nat} {σ1 σ2 : Env} {μ1 μ2 : Heap}
    {ss : List Stmt} (hreads : ∀ z ∈ readsB ss, z ∈ S) (hd : d ≤ μ1.length) (henv : ERS S π D d σ1 σ2)
    (hh : HR π D μ1 μ2) (C : Ctx) :
    RelM (QSS S π D μ1 μ2) (evalBω Φ σ1 μ1 C ss) (evalBω Φ σ2 μ2 C ss) := by
  have hs := simB_idRel_of_reads hreads
  have h1 := sim_evalBω (Φ := Φ) (restrict_inv σ1 S) hs μ1 C
  have h2 := sim_evalBω (Φ := Φ) (restrict_inv σ2 S) hs μ2 C
  have hp := par_evalBω (Φ := Φ) hd henv.restrict hh C ss
  cases a1 : evalBω Φ σ1 μ1 C ss <;> cases b1 : evalBω Φ (restrictEnv σ1 S) μ1 C ss <;> rw [a1, b1] at h1 <;>
    simp only [RelM] at h1
  · subst h1
    cases b2 : evalBω Φ (restrictEnv σ2 S) μ2 C ss <;> rw [b1, b2] at hp <;> simp only [RelM] at hp
    subst hp
    cases a2 : evalBω Φ σ2 μ2 C ss <;> rw [a2, b2] at h2 <;> simp only [RelM] at h2
    subst h2; exact rfl
  · cases b2 : evalBω Φ (restrictEnv σ2 S) μ2 C ss <;> rw [b1, b2] at hp <;> simp only [RelM] at hp
    cases a2 : evalBω Φ σ2 μ2 C ss <;> rw [a2, b2] at h2 <;> simp only [RelM] at h2
    rename_i x1 y1 y2 x2
    obtain ⟨o1, m1⟩ := x1; obtain ⟨p1, n1⟩ := y1; obtain ⟨p2, n2⟩ := y2; obtain ⟨o2, m2⟩ := x2
    obtain ⟨hpo, hph, hpx⟩ := hp
    dsimp only at hpo hph hpx
    cases o1 <;> cases p1 <;> simp only [OutRel] at h1 <;>
      cases o2 <;> cases p2 <;> simp only [OutRel] at h2 <;> simp only [OR] at hpo
    · obtain ⟨hi1, rfl⟩ := h1; obtain ⟨hi2, rfl⟩ := h2
      refine ⟨?_, hph, hpx⟩
      intro x hx
      show ORel _ (Env.get? _ x) (Env.get? _ x)
      rw [inv_idRel.1 hi1 x hx, inv_idRel.1 hi2 x hx]
      exact hpo x
    · obtain ⟨rfl, rfl⟩ := h1; obtain ⟨rfl, rfl⟩ := h2
      exact ⟨hpo, hph, hpx⟩

end Fpy.Xform
