/-
Helper lemmas for C17 (stochastic rounding): the two-step `_round_at_stochastic` of the model
is the deterministic `_round_at` with mode RAZ/RTZ chosen by the threshold test
`2^k ≤ r + m`, where `m = Spec.srNumer …` is the operand's distance past its lower neighbour
in units of `2^-k` of the gap, rounded as the context's mode says.
-/
import Fpy.Proof.Round
namespace Fpy

namespace Spec

/-- Numerator of the round-away probability.  The operand is `c` units of its own LSB, `K ≥ 1`
digits are dropped (gap `2^K` units), so it lies `ρ = c % 2^K` units past the lower neighbour,
i.e. `ρ · 2^k / 2^K` units of `2^-k` of the gap: for `k ≤ K` this is `ρ / 2^(K-k)` rounded as
the mode prescribes, for `k ≥ K` it is the integer `ρ · 2^(k-K)`. -/
def srNumer (rm : RM) (s : Bool) (c K k : Nat) : Nat :=
  if k ≤ K then roundQuot rm s (c % 2 ^ K) (K - k) else (c % 2 ^ K) * 2 ^ (k - K)

end Spec
open Fpy.Spec

/-! ### counting draws -/

theorem countP_ge_range (T N : Nat) :
    (List.range N).countP (fun r => decide (T ≤ r)) = N - T := by
  induction N with
  | zero => simp
  | succ N ih =>
    rw [List.range_succ, List.countP_append, ih]
    by_cases h : T ≤ N
    · simp [h]; omega
    · simp [h]; omega

/-- of the `N` draws `0 … N-1`, exactly `m` pass the threshold test `N ≤ r + m` -/
theorem countP_threshold (m N : Nat) (h : m ≤ N) :
    (List.range N).countP (fun r => decide (N ≤ r + m)) = m := by
  have : (fun r => decide (N ≤ r + m)) = (fun r => decide (N - m ≤ r)) := by
    funext r; congr 1; apply propext; omega
  rw [this, countP_ge_range]; omega

theorem countP_lt_range (T N : Nat) :
    (List.range N).countP (fun r => decide (r < T)) = min N T := by
  induction N with
  | zero => simp
  | succ N ih =>
    rw [List.range_succ, List.countP_append, ih]
    by_cases h : N < T
    · simp [h]; omega
    · simp [h]; omega

/-- … and the other `N - m` fail it -/
theorem countP_below_threshold (m N : Nat) :
    (List.range N).countP (fun r => decide (¬ N ≤ r + m)) = N - m := by
  have : (fun r => decide (¬ N ≤ r + m)) = (fun r => decide (r < N - m)) := by
    funext r; congr 1; apply propext; omega
  rw [this, countP_lt_range]; omega

theorem sum_map_ite (l : List Nat) (P : Nat → Bool) (q : Nat) :
    (l.map (fun r => if P r then q + 1 else q)).sum = l.length * q + l.countP P := by
  induction l with
  | nil => simp
  | cons a l ih =>
    simp only [List.map_cons, List.sum_cons, List.length_cons, List.countP_cons, ih, Nat.succ_mul]
    by_cases h : P a <;> simp [h] <;> omega

/-! ### arithmetic of the rounding digits -/

theorem roundQuot_zero_digits (rm : RM) (s : Bool) (c : Nat) : roundQuot rm s c 0 = c := by
  unfold roundQuot; simp [Nat.mod_one]

/-- adding an even multiple of the grid spacing shifts the prescribed quotient by that multiple -/
theorem roundQuot_shift (rm : RM) (s : Bool) (c u J : Nat) :
    roundQuot rm s (c + 2 * u * 2 ^ J) J = roundQuot rm s c J + 2 * u := by
  have hG : 0 < 2 ^ J := Nat.pow_pos (by decide)
  have hd : (c + 2 * u * 2 ^ J) / 2 ^ J = c / 2 ^ J + 2 * u := Nat.add_mul_div_right _ _ hG
  have hm : (c + 2 * u * 2 ^ J) % 2 ^ J = c % 2 ^ J := Nat.add_mul_mod_self_right _ _ _
  unfold roundQuot
  simp only [hd, hm]
  have hpar : (c / 2 ^ J + 2 * u) % 2 = (c / 2 ^ J) % 2 := by omega
  simp only [hpar]
  generalize c / 2 ^ J = a
  generalize c % 2 ^ J = b
  generalize 2 ^ J = G
  cases rm <;> simp only [] <;> split <;> (try split) <;> (try split) <;> (try split) <;> omega

theorem srNumer_exact (rm : RM) (s : Bool) (c K k : Nat) (h : c % 2 ^ K = 0) :
    srNumer rm s c K k = 0 := by
  unfold srNumer; rw [h]
  split
  · rw [roundQuot_exact _ _ _ _ (Nat.zero_mod _)]; simp
  · simp

theorem srNumer_high (rm : RM) (s : Bool) (c K k : Nat) (h : K ≤ k) :
    srNumer rm s c K k = (c % 2 ^ K) * 2 ^ (k - K) := by
  unfold srNumer
  split
  · have : k = K := by omega
    subst this; simp [roundQuot_zero_digits]
  · rfl

theorem srNumer_le (rm : RM) (s : Bool) (c K k : Nat) : srNumer rm s c K k ≤ 2 ^ k := by
  have hρ : c % 2 ^ K < 2 ^ K := Nat.mod_lt _ (Nat.pow_pos (by decide))
  unfold srNumer
  split
  · rename_i h
    have hK : 2 ^ K = 2 ^ k * 2 ^ (K - k) := by rw [← Nat.pow_add]; congr 1; omega
    have hlt : (c % 2 ^ K) / 2 ^ (K - k) < 2 ^ k := by
      apply (Nat.div_lt_iff_lt_mul (Nat.pow_pos (by decide))).2; rw [← hK]; exact hρ
    rcases roundQuot_neighbour rm s (c % 2 ^ K) (K - k) with h' | h' <;> omega
  · rename_i h
    have hk : 2 ^ k = 2 ^ K * 2 ^ (k - K) := by rw [← Nat.pow_add]; congr 1; omega
    rw [hk]
    exact Nat.le_of_lt (Nat.mul_lt_mul_of_pos_right hρ (Nat.pow_pos (by decide)))

/-- `m / 2^k` is within `2^-k` of `ρ / 2^K` (both sides scaled by `2^K · 2^k`) -/
theorem srNumer_close (rm : RM) (s : Bool) (c K k : Nat) :
    srNumer rm s c K k * 2 ^ K < (c % 2 ^ K) * 2 ^ k + 2 ^ K ∧
    (c % 2 ^ K) * 2 ^ k < srNumer rm s c K k * 2 ^ K + 2 ^ K := by
  have hGK : 0 < 2 ^ K := Nat.pow_pos (by decide)
  generalize hρ : c % 2 ^ K = ρ
  by_cases h : k ≤ K
  · have hm : srNumer rm s c K k = roundQuot rm s ρ (K - k) := by unfold srNumer; simp [h, hρ]
    rw [hm]
    have hK : 2 ^ K = 2 ^ (K - k) * 2 ^ k := by rw [← Nat.pow_add]; congr 1; omega
    have hGJ : 0 < 2 ^ (K - k) := Nat.pow_pos (by decide)
    have hGk : 0 < 2 ^ k := Nat.pow_pos (by decide)
    have hdm := Nat.div_add_mod ρ (2 ^ (K - k))
    have hml : ρ % 2 ^ (K - k) < 2 ^ (K - k) := Nat.mod_lt _ hGJ
    have hex := roundQuot_exact rm s ρ (K - k)
    have hnb := roundQuot_neighbour rm s ρ (K - k)
    rw [hK]
    generalize roundQuot rm s ρ (K - k) = w at *
    generalize 2 ^ (K - k) = GJ at *
    generalize 2 ^ k = Gk at *
    generalize ρ / GJ = a at *
    generalize ρ % GJ = b at *
    have e1 : (a + 1) * GJ = a * GJ + GJ := by rw [Nat.add_mul]; simp
    have e2 : GJ * a = a * GJ := Nat.mul_comm _ _
    -- compare `w * GJ` with `ρ`, then scale by `Gk`
    have key : w * GJ < ρ + GJ ∧ ρ < w * GJ + GJ := by
      rcases hnb with h' | h'
      · subst h'; omega
      · subst h'
        have : b ≠ 0 := fun hb => by have := hex hb; omega
        omega
    have s1 := Nat.mul_lt_mul_of_pos_right key.1 hGk
    have s2 := Nat.mul_lt_mul_of_pos_right key.2 hGk
    rw [Nat.add_mul] at s1 s2
    rw [← Nat.mul_assoc]
    exact ⟨s1, s2⟩
  · have hm : srNumer rm s c K k = ρ * 2 ^ (k - K) := by rw [srNumer_high _ _ _ _ _ (by omega), hρ]
    have hk : 2 ^ k = 2 ^ (k - K) * 2 ^ K := by rw [← Nat.pow_add]; congr 1; omega
    rw [hm, hk, Nat.mul_assoc]
    omega

/-- the extended-precision quotient (dropping `J = K - k` digits) is the lower neighbour
followed by `k` rounding digits `m`, where `m ≤ 2^k` (equality = carry into the neighbour) -/
theorem roundQuot_ext (rm : RM) (s : Bool) (c J k : Nat) (hk : 1 ≤ k) :
    roundQuot rm s c J = c / 2 ^ (J + k) * 2 ^ k + srNumer rm s c (J + k) k := by
  have hm : srNumer rm s c (J + k) k = roundQuot rm s (c % 2 ^ (J + k)) J := by
    unfold srNumer; simp
  rw [hm]
  have hdm := Nat.div_add_mod c (2 ^ (J + k))
  have hpow : 2 ^ (J + k) = 2 * 2 ^ (k - 1) * 2 ^ J := by
    rw [Nat.mul_assoc, ← Nat.pow_add, ← Nat.pow_succ']; congr 1; omega
  have hk2 : 2 ^ k = 2 * 2 ^ (k - 1) := two_pow_pred k hk
  have hc : c = c % 2 ^ (J + k) + 2 * (c / 2 ^ (J + k) * 2 ^ (k - 1)) * 2 ^ J := by
    have : 2 * (c / 2 ^ (J + k) * 2 ^ (k - 1)) * 2 ^ J = 2 ^ (J + k) * (c / 2 ^ (J + k)) := by
      rw [hpow]; simp only [Nat.mul_assoc, Nat.mul_comm, Nat.mul_left_comm]
    omega
  conv => lhs; rw [hc]
  rw [roundQuot_shift, hk2]
  simp only [Nat.mul_left_comm]
  omega

/-- the mean `q + m / 2^k` of the `2^k` outcomes is within `2^-k` of the operand `c / 2^K`
(everything multiplied by `2^k · 2^K`), and equals it when `k ≥ K` -/
theorem srNumer_mean_close (rm : RM) (s : Bool) (c K k : Nat) :
    (2 ^ k * (c / 2 ^ K) + srNumer rm s c K k) * 2 ^ K < c * 2 ^ k + 2 ^ K ∧
    c * 2 ^ k < (2 ^ k * (c / 2 ^ K) + srNumer rm s c K k) * 2 ^ K + 2 ^ K ∧
    (K ≤ k → (2 ^ k * (c / 2 ^ K) + srNumer rm s c K k) * 2 ^ K = c * 2 ^ k) := by
  have hcl := srNumer_close rm s c K k
  have hen : K ≤ k → srNumer rm s c K k * 2 ^ K = (c % 2 ^ K) * 2 ^ k := by
    intro h
    rw [srNumer_high rm s c K k h, Nat.mul_assoc, ← Nat.pow_add]
    congr 2; omega
  have hdm := Nat.div_add_mod c (2 ^ K)
  generalize srNumer rm s c K k = m at *
  generalize c / 2 ^ K = q at *
  generalize c % 2 ^ K = ρ at *
  have e1 : (2 ^ k * q + m) * 2 ^ K = 2 ^ K * q * 2 ^ k + m * 2 ^ K := by
    rw [Nat.add_mul]; congr 1
    simp only [Nat.mul_assoc, Nat.mul_comm, Nat.mul_left_comm]
  have e2 : c * 2 ^ k = 2 ^ K * q * 2 ^ k + ρ * 2 ^ k := by
    rw [← hdm, Nat.add_mul]
  rw [e1, e2]
  generalize 2 ^ K * q * 2 ^ k = A at *
  refine ⟨by omega, by omega, fun h => ?_⟩
  have := hen h; omega

/-- sum over all draws of a thresholded outcome -/
theorem sum_threshold (q m k : Nat) (h : m ≤ 2 ^ k) :
    ((List.range (2 ^ k)).map (fun r => if 2 ^ k ≤ r + m then q + 1 else q)).sum = 2 ^ k * q + m := by
  have := sum_map_ite (List.range (2 ^ k)) (fun r => decide (2 ^ k ≤ r + m)) q
  simp only [decide_eq_true_eq] at this
  rw [this, countP_threshold _ _ h, List.length_range]

/-! ### comparison of magnitudes -/

theorem bitLength_bounds {c : Nat} (h : c ≠ 0) : 2 ^ (bitLength c - 1) ≤ c ∧ c < 2 ^ bitLength c :=
  (bitLength_eq_iff c (bitLength c) (bitLength_pos h)).1 rfl

/-- `abs(a) > abs(b)` for a non-zero `b` whose LSB is not above that of `a` -/
theorem abs_gt_spec (a b : RF) (hb : b.c ≠ 0) (hexp : b.exp ≤ a.exp) :
    a.abs.gt b.abs = decide (b.c < a.c * 2 ^ (a.exp - b.exp).toNat) := by
  unfold RF.gt RF.compare RF.abs
  simp only [hb, if_false]
  by_cases ha : a.c = 0
  · simp [ha]
  · simp only [ha, if_false, bne_self_eq_false, Bool.false_eq_true, RF.e, RF.p, RF.shl,
      Int.min_eq_right hexp, Int.sub_self, Int.toNat_zero, Nat.pow_zero, Nat.mul_one]
    generalize hd : (a.exp - b.exp).toNat = d
    have hda : a.exp = b.exp + d := by omega
    have ⟨a1, a2⟩ := bitLength_bounds ha
    have ⟨b1, b2⟩ := bitLength_bounds hb
    have hpa := bitLength_pos ha
    have hpb := bitLength_pos hb
    have hGd : 0 < 2 ^ d := Nat.pow_pos (by decide)
    by_cases h1 : a.exp + (bitLength a.c : Int) - 1 > b.exp + (bitLength b.c : Int) - 1
    · simp only [h1, if_true]
      have hle : bitLength b.c ≤ (bitLength a.c - 1) + d := by omega
      have h3 : 2 ^ bitLength b.c ≤ 2 ^ (bitLength a.c - 1) * 2 ^ d := by
        rw [← Nat.pow_add]; exact Nat.pow_le_pow_right (by decide) hle
      have h4 : 2 ^ (bitLength a.c - 1) * 2 ^ d ≤ a.c * 2 ^ d := Nat.mul_le_mul_right _ a1
      have : b.c < a.c * 2 ^ d := by omega
      simp [this]
    · simp only [h1, if_false]
      by_cases h2 : a.exp + (bitLength a.c : Int) - 1 < b.exp + (bitLength b.c : Int) - 1
      · simp only [h2, if_true]
        have hle : bitLength a.c + d ≤ bitLength b.c - 1 := by omega
        have h3 : 2 ^ bitLength a.c * 2 ^ d ≤ 2 ^ (bitLength b.c - 1) := by
          rw [← Nat.pow_add]; exact Nat.pow_le_pow_right (by decide) hle
        have h4 : a.c * 2 ^ d < 2 ^ bitLength a.c * 2 ^ d := Nat.mul_lt_mul_of_pos_right a2 hGd
        have : ¬ b.c < a.c * 2 ^ d := by omega
        simp [this]
      · simp only [h2, if_false]
        generalize a.c * 2 ^ d = A
        by_cases h : b.c < A
        · simp [h, Nat.compare_eq_gt.2 h]
        · have : compare A b.c ≠ .gt := fun hh => h (Nat.compare_eq_gt.1 hh)
          simp [h, this]

/-! ### the rounding digits of the extended-precision value -/

/-- lost part of an extended-precision value `⟨s, n-k+1, w⟩` split at `n` -/
theorem split_ext (s : Bool) (n : Int) (k w : Nat) (hk : 1 ≤ k) :
    (RF.split ⟨s, n - k + 1, w⟩ n).2.c = w % 2 ^ k ∧
    (w % 2 ^ k ≠ 0 → (RF.split ⟨s, n - k + 1, w⟩ n).2.exp = n - k + 1) := by
  by_cases hw : w = 0
  · subst hw; unfold RF.split; simp
  · have hle : (⟨s, n - k + 1, w⟩ : RF).exp ≤ n := by simp only; omega
    rw [split_spec ⟨s, n - k + 1, w⟩ n hw hle]
    have : (n + 1 - (n - (k : Int) + 1)).toNat = k := by omega
    simp [this]

/-! ### `_round_at_stochastic` = `_round_at` with a thresholded mode -/

/-- the mode the draw `r` selects: away from zero iff `2^k ≤ r + m` -/
def srMode (rm : RM) (x : RF) (n : Int) (k r : Nat) : RM :=
  if 2 ^ k ≤ r + srNumer rm x.s x.c (n + 1 - x.exp).toNat k then .raz else .rtz

/-- case `exp ≤ n - k`: the extended-precision value drops `K - k ≥ 1` digits -/
theorem roundAtStochastic_low (x : RF) (p : Option Nat) (n : Int) (emin : Option Int) (rm : RM)
    (k r : Nat) (hc : x.c ≠ 0) (hk : 1 ≤ k) (hA : x.exp ≤ n - k) (hr : r < 2 ^ k) :
    x.roundAtStochastic p n emin rm (some k) r false = x.roundAtCore p n emin (srMode rm x n k r) false := by
  unfold RF.roundAtStochastic
  simp only [roundAtCore_fixed x (n - k) rm hc hA]
  generalize hJ : (n - (k : Int) + 1 - x.exp).toNat = J
  have hK : (n + 1 - x.exp).toNat = J + k := by omega
  have hw := roundQuot_ext rm x.s x.c J k hk
  have hmle := srNumer_le rm x.s x.c (J + k) k
  have hGk : 0 < 2 ^ k := Nat.pow_pos (by decide)
  have hGJ : 0 < 2 ^ J := Nat.pow_pos (by decide)
  have hpow : 2 ^ (J + k) = 2 ^ k * 2 ^ J := by rw [Nat.pow_add, Nat.mul_comm]
  have hdm := Nat.div_add_mod x.c (2 ^ (J + k))
  have hml : x.c % 2 ^ (J + k) < 2 ^ (J + k) := Nat.mod_lt _ (Nat.pow_pos (by decide))
  unfold srMode
  rw [hK]
  generalize hm : srNumer rm x.s x.c (J + k) k = m at *
  generalize hq : x.c / 2 ^ (J + k) = q at *
  generalize hwd : roundQuot rm x.s x.c J = w at *
  have ⟨hlc, hlexp⟩ := split_ext x.s n k w hk
  generalize hs : RF.split ⟨x.s, n - k + 1, w⟩ n = sp at *
  obtain ⟨kept, lost⟩ := sp
  simp only at hlc hlexp ⊢
  by_cases hl : w % 2 ^ k = 0
  · simp only [hlc, hl, if_true]
    rw [abs_gt_spec _ x hc (by simp only; omega)]
    have hd : (n - (k : Int) + 1 - x.exp).toNat = J := hJ
    simp only [hd]
    -- m = 0 or m = 2^k
    have hm0 : m = 0 ∨ m = 2 ^ k := by
      rw [hw, Nat.mul_add_mod_self_right] at hl
      by_cases h : m = 2 ^ k
      · exact Or.inr h
      · rw [Nat.mod_eq_of_lt (by omega)] at hl; exact Or.inl hl
    rcases hm0 with h0 | h0
    · have h1 : ¬ (x.c < w * 2 ^ J) := by
        rw [hw, h0, Nat.add_zero, Nat.mul_assoc, ← hpow]
        have : 2 ^ (J + k) * q = q * 2 ^ (J + k) := Nat.mul_comm _ _
        omega
      have h2 : ¬ (2 ^ k ≤ r + m) := by omega
      simp [h1, h2]
    · have h1 : x.c < w * 2 ^ J := by
        have : w = (q + 1) * 2 ^ k := by rw [hw, h0, Nat.add_mul]; simp
        rw [this, Nat.mul_assoc, ← hpow, Nat.add_mul]
        have : 2 ^ (J + k) * q = q * 2 ^ (J + k) := Nat.mul_comm _ _
        omega
      have h2 : 2 ^ k ≤ r + m := by omega
      simp [h1, h2]
  · have hlt : m < 2 ^ k := by
      apply Nat.lt_of_le_of_ne hmle
      intro h; apply hl; rw [hw, h, Nat.mul_add_mod_self_right]; exact Nat.mod_self _
    have hmod : w % 2 ^ k = m := by
      rw [hw, Nat.mul_add_mod_self_right]; exact Nat.mod_eq_of_lt hlt
    have he := hlexp hl
    have hm0 : m ≠ 0 := fun h => hl (by rw [hmod]; exact h)
    simp only [hlc, hmod, hm0, if_false, he, Int.sub_self, Int.lt_irrefl, gt_iff_lt, ge_iff_le]

/-- case `n - k < exp ≤ n`: the extended-precision value is the operand itself -/
theorem roundAtStochastic_high (x : RF) (p : Option Nat) (n : Int) (emin : Option Int) (rm : RM)
    (k r : Nat) (hc : x.c ≠ 0) (hB : n - k < x.exp) (hle : x.exp ≤ n) (hr : r < 2 ^ k) :
    x.roundAtStochastic p n emin rm (some k) r false = x.roundAtCore p n emin (srMode rm x n k r) false := by
  have hxr : x.roundAtCore none (n - k) none rm false = .ok (x, {}) := by
    unfold RF.roundAtCore; simp [hB]
  unfold RF.roundAtStochastic
  simp only [hxr, split_spec x n hc hle]
  generalize hK : (n + 1 - x.exp).toNat = K
  have hKk : K ≤ k := by omega
  unfold srMode
  rw [hK, srNumer_high _ _ _ _ _ hKk]
  by_cases hl : x.c % 2 ^ K = 0
  · have hgt : x.abs.gt x.abs = false := by
      rw [abs_gt_spec x x hc (Int.le_refl _)]; simp
    have h2 : ¬ (2 ^ k ≤ r) := by omega
    simp [hl, hgt, h2]
  · simp only [hl, if_false]
    have hoff : (x.exp - (n - (k : Int) + 1)).toNat = k - K := by omega
    by_cases h0 : x.exp - (n - (k : Int) + 1) > 0
    · simp only [h0, if_true, hoff, ge_iff_le]
    · have h1 : ¬ (x.exp - (n - (k : Int) + 1) < 0) := by omega
      have hkK : k - K = 0 := by omega
      simp only [h0, h1, if_false, hkK, Nat.pow_zero, Nat.mul_one, ge_iff_le]

/-- **`_round_at_stochastic` is `_round_at` with the thresholded mode** (non-zero operand with
digits at or below `n`, `k ≥ 1` random bits, draw `r < 2^k`; any `p`, `emin`). -/
theorem roundAtStochastic_eq (x : RF) (p : Option Nat) (n : Int) (emin : Option Int) (rm : RM)
    (k r : Nat) (hc : x.c ≠ 0) (hk : 1 ≤ k) (hle : x.exp ≤ n) (hr : r < 2 ^ k) :
    x.roundAtStochastic p n emin rm (some k) r false = x.roundAtCore p n emin (srMode rm x n k r) false := by
  by_cases hA : x.exp ≤ n - k
  · exact roundAtStochastic_low x p n emin rm k r hc hk hA hr
  · exact roundAtStochastic_high x p n emin rm k r hc (by omega) hle hr

/-- all digits above `n`: the second step rounds toward zero, i.e. changes nothing -/
theorem roundAtStochastic_above (x : RF) (p : Option Nat) (n : Int) (emin : Option Int) (rm : RM)
    (k r : Nat) (exact : Bool) (h : x.exp > n) :
    x.roundAtStochastic p n emin rm (some k) r exact = x.roundAtCore p n emin .rtz exact := by
  have hxr : x.roundAtCore none (n - k) none rm exact = .ok (x, {}) := by
    unfold RF.roundAtCore
    have : x.exp > n - k := by omega
    simp [this]
  have hsp : (x.split n).2.c = 0 := by
    unfold RF.split
    by_cases hc : x.c = 0
    · simp [hc]
    · have hbl := bitLength_pos hc
      have h1 : ¬ (n ≥ x.e) := by unfold RF.e RF.p; omega
      simp [hc, h1, h]
  have hgt : x.abs.gt x.abs = false := by
    by_cases hc : x.c = 0
    · unfold RF.gt RF.compare RF.abs; simp [hc]
    · rw [abs_gt_spec x x hc (Int.le_refl _)]; simp
  unfold RF.roundAtStochastic
  simp only [hxr]
  generalize x.split n = sp at *
  obtain ⟨kept, lost⟩ := sp
  simp only at hsp
  simp [hsp, hgt]

/-- the two directed modes in the arithmetic spec -/
theorem roundQuot_srMode (rm : RM) (x : RF) (n : Int) (k r : Nat) (hr : r < 2 ^ k) :
    roundQuot (srMode rm x n k r) x.s x.c (n + 1 - x.exp).toNat =
      if 2 ^ k ≤ r + srNumer rm x.s x.c (n + 1 - x.exp).toNat k
      then x.c / 2 ^ (n + 1 - x.exp).toNat + 1 else x.c / 2 ^ (n + 1 - x.exp).toNat := by
  unfold srMode
  generalize (n + 1 - x.exp).toNat = K
  by_cases h0 : x.c % 2 ^ K = 0
  · have hm := srNumer_exact rm x.s x.c K k h0
    have : ¬ (2 ^ k ≤ r + 0) := by omega
    rw [hm]; simp only [this, if_false]
    exact roundQuot_exact _ _ _ _ h0
  · split <;> (unfold roundQuot; simp [h0])

/-! ### float shape, and the per-draw outcome as a number -/

/-- `RealFloat.round(max_p = p, min_n, rm, num_randbits = k)` with draw `r` -/
theorem round_stochastic_float (x : RF) (p : Nat) (minN : Option Int) (rm : RM) (k r : Nat)
    (hc : x.c ≠ 0) (hp : 1 ≤ p) (hk : 1 ≤ k) (hr : r < 2 ^ k) :
    let n : Int := match minN with | none => x.e - p | some m => max m (x.e - p)
    ∃ y fl, x.round (some p) minN rm (some k) r = .ok (y, fl) ∧ y.s = x.s ∧ bitLength y.c ≤ p ∧ y.exp > n ∧
      (x.exp > n → y = x ∧ fl.inexact = false) ∧
      (x.exp ≤ n →
        y.c * 2 ^ (y.exp - (n + 1)).toNat =
          (if 2 ^ k ≤ r + srNumer rm x.s x.c (n + 1 - x.exp).toNat k
           then x.c / 2 ^ (n + 1 - x.exp).toNat + 1 else x.c / 2 ^ (n + 1 - x.exp).toNat) ∧
        fl.inexact = decide (x.c % 2 ^ (n + 1 - x.exp).toNat ≠ 0)) := by
  intro n
  have hn : x.e - p ≤ n := by
    simp only [n]; cases minN <;> simp <;> omega
  have hk0 : ¬ (k = 0) := by omega
  -- `round` is `_round_at_stochastic` at position `n` with some `emin`
  have hround : ∃ emin, x.round (some p) minN rm (some k) r = x.roundAtStochastic (some p) n emin rm (some k) r false := by
    cases minN with
    | none => exact ⟨none, by unfold RF.round RF.roundParams; simp only [Option.some.injEq, hk0, if_false, n]⟩
    | some m => exact ⟨some ((p : Int) + m), by unfold RF.round RF.roundParams; simp only [Option.some.injEq, hk0, if_false, n]⟩
  obtain ⟨emin, hround⟩ := hround
  rw [hround]
  by_cases hle : x.exp ≤ n
  · rw [roundAtStochastic_eq x (some p) n emin rm k r hc hk hle hr]
    obtain ⟨y, fl, h1, h2, h3, h4, h5, h6⟩ := roundAtCore_prec x p n emin (srMode rm x n k r) hc hp hn
    refine ⟨y, fl, h1, h2, h3, h4, h5, fun h => ?_⟩
    rw [← roundQuot_srMode rm x n k r hr]
    exact h6 h
  · rw [roundAtStochastic_above x (some p) n emin rm k r false (by omega)]
    obtain ⟨y, fl, h1, h2, h3, h4, h5, _⟩ := roundAtCore_prec x p n emin .rtz hc hp hn
    exact ⟨y, fl, h1, h2, h3, h4, h5, fun h => absurd h hle⟩

/-- result significand of draw `r`, in units of the grid spacing (`0` would mean an error) -/
def resultQuot (x : RF) (n : Int) (rm : RM) (k r : Nat) : Nat :=
  match (x.round none (some n) rm (some k) r).toOption with
  | some (y, _) => y.c
  | none => 0

/-- magnitude of the float-shape result of draw `r` in units of `2^(n+1)` (`0` would mean an error) -/
def floatQuot (x : RF) (p : Nat) (minN : Option Int) (rm : RM) (k : Nat) (n : Int) (r : Nat) : Nat :=
  match (x.round (some p) minN rm (some k) r).toOption with
  | some (y, _) => y.c * 2 ^ (y.exp - (n + 1)).toNat
  | none => 0

theorem floatQuot_eq (x : RF) (p : Nat) (minN : Option Int) (rm : RM) (k r : Nat) (n : Int)
    (hn : n = match minN with | none => x.e - p | some m => max m (x.e - p))
    (hc : x.c ≠ 0) (hp : 1 ≤ p) (hk : 1 ≤ k) (hr : r < 2 ^ k) (hle : x.exp ≤ n) :
    floatQuot x p minN rm k n r =
      (if 2 ^ k ≤ r + srNumer rm x.s x.c (n + 1 - x.exp).toNat k
       then x.c / 2 ^ (n + 1 - x.exp).toNat + 1 else x.c / 2 ^ (n + 1 - x.exp).toNat) := by
  subst hn
  obtain ⟨y, fl, h1, _, _, _, _, h6⟩ := round_stochastic_float x p minN rm k r hc hp hk hr
  unfold floatQuot
  rw [h1]
  exact (h6 hle).1


end Fpy
