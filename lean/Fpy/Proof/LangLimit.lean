/-
Meta-theory of the evaluator, part 2: the FUEL-FREE semantics.

`lim a` is the limit of a chain of results (its unique value other than `.outOfFuel`, if it
has one, and `.outOfFuel` — here meaning DIVERGENCE — otherwise).  `evalEω … evalBω` are the
limits of the ten evaluator functions.  They satisfy the defining equations of the evaluator
with the fuel erased (`evalSω_while`, `evalBω_cons`, …), so program equivalences can be proved
by equational reasoning; an equality `evalBω … ss = evalBω … ss'` says that the two programs
return the same value and heap, end normally in the same environment and heap, fail with the
same error, or both diverge.

`Returns`/`Normal` are the requested existential-fuel judgements; `returns_iff`/`normal_iff`
tie them to `evalBω`, and determinism across fuels follows.
-/
import Fpy.Proof.LangMeta
namespace Fpy.Xform
open Fpy Fpy.Lang

noncomputable def lim {α : Type} (a : Nat → M α) : M α :=
  open Classical in
  if h : ∃ n, a n ≠ .error .outOfFuel then a (Classical.choose h) else .error .outOfFuel

/-- `a` converges to `l`: every `a n` is below `l`, and if `l` is a definite result then `a` is
eventually equal to it -/
structure Tends {α : Type} (a : Nat → M α) (l : M α) : Prop where
  le : ∀ n, Le (a n) l
  reach : l ≠ .error .outOfFuel → ∃ n, ∀ m, n ≤ m → a m = l

theorem Tends.lim_eq {α : Type} {a : Nat → M α} {l : M α} (h : Tends a l) : lim a = l := by
  unfold lim
  split
  · rename_i hex
    have h1 := Classical.choose_spec hex
    rcases h.le (Classical.choose hex) with h2 | h2
    · exact absurd h2 h1
    · exact h2
  · rename_i hex
    by_cases hl : l = .error .outOfFuel
    · exact hl.symm
    · obtain ⟨n, hn⟩ := h.reach hl
      exact absurd ⟨n, by rw [hn n (Nat.le_refl _)]; exact hl⟩ hex

theorem Tends.of_chain {α : Type} {a : Nat → M α} (h : ∀ n m, n ≤ m → Le (a n) (a m)) : Tends a (lim a) := by
  unfold lim
  split
  · rename_i hex
    have h1 := Classical.choose_spec hex
    refine ⟨fun n => ?_, fun _ => ⟨Classical.choose hex, fun m hm => ?_⟩⟩
    · rcases Nat.le_total n (Classical.choose hex) with hn | hn
      · exact h _ _ hn
      · rcases h _ _ hn with h2 | h2
        · exact absurd h2 h1
        · exact .inr h2.symm
    · rcases h _ _ hm with h2 | h2
      · exact absurd h2 h1
      · exact h2.symm
  · rename_i hex
    refine ⟨fun n => .inl ?_, fun hl => absurd rfl hl⟩
    exact Classical.byContradiction fun hn => hex ⟨n, hn⟩

theorem Tends.unique {α : Type} {a : Nat → M α} {l l' : M α} (h : Tends a l) (h' : Tends a l') : l = l' := by
  rw [← h.lim_eq, ← h'.lim_eq]

theorem Tends.const {α : Type} (c : M α) : Tends (fun _ => c) c :=
  ⟨fun _ => Le.refl _, fun _ => ⟨0, fun _ _ => rfl⟩⟩

theorem Tends.bind {α β : Type} {a : Nat → M α} {l : M α} {k : Nat → α → M β} {m : α → M β}
    (h : Tends a l) (hk : ∀ x, Tends (fun n => k n x) (m x)) : Tends (fun n => a n >>= k n) (l >>= m) := by
  refine ⟨fun n => Le.bind (h.le n) (fun x => (hk x).le n), fun hne => ?_⟩
  cases l with
  | error e =>
    have he : (Except.error e : M α) ≠ .error .outOfFuel := by
      intro h0; apply hne; rw [h0]; rfl
    obtain ⟨n, hn⟩ := h.reach he
    exact ⟨n, fun j hj => by show a j >>= k j = _; rw [hn j hj]; rfl⟩
  | ok x =>
    obtain ⟨n, hn⟩ := h.reach (by intro h0; cases h0)
    obtain ⟨n', hn'⟩ := (hk x).reach hne
    refine ⟨max n n', fun j hj => ?_⟩
    show a j >>= k j = _
    rw [hn j (by omega)]
    exact hn' j (by omega)

theorem Tends.emap {α β : Type} {a : Nat → M α} {l : M α} (g : α → β) (h : Tends a l) :
    Tends (fun n => Except.map g (a n)) (Except.map g l) := by
  refine ⟨fun n => Le.emap g (h.le n), fun hne => ?_⟩
  have hl : l ≠ .error .outOfFuel := by intro h0; apply hne; rw [h0]; rfl
  obtain ⟨n, hn⟩ := h.reach hl
  exact ⟨n, fun j hj => by rw [hn j hj]⟩

/-- the evaluator functions start at `.outOfFuel`, so a limit may be computed from fuel `n + 1` on -/
theorem Tends.unshift {α : Type} {a : Nat → M α} {l : M α} (h0 : a 0 = .error .outOfFuel)
    (h : Tends (fun n => a (n + 1)) l) : Tends a l := by
  refine ⟨fun n => ?_, fun hne => ?_⟩
  · cases n with
    | zero => exact .inl h0
    | succ n => exact h.le n
  · obtain ⟨n, hn⟩ := h.reach hne
    refine ⟨n + 1, fun j hj => ?_⟩
    cases j with
    | zero => omega
    | succ j => exact hn j (by omega)

theorem Tends.definite {α : Type} {a : Nat → M α} {l : M α} (h : Tends a l) {n : Nat} {r : M α}
    (hr : a n = r) (hne : r ≠ .error .outOfFuel) : l = r := by
  rcases h.le n with h1 | h1
  · exact absurd (hr ▸ h1) hne
  · rw [← h1, hr]

/-! ### the limits of the ten evaluator functions -/

noncomputable def evalEω (Φ : Funs) (σ : Env) (μ : Heap) (C : Ctx) (e : Expr) : M (Val × Heap) :=
  lim (fun n => evalE Φ n σ μ C e)
noncomputable def evalEsω (Φ : Funs) (σ : Env) (μ : Heap) (C : Ctx) (es : List Expr) : M (List Val × Heap) :=
  lim (fun n => evalEs Φ n σ μ C es)
noncomputable def evalChainω (Φ : Funs) (σ : Env) (μ : Heap) (C : Ctx) (a : Val) (ops : List CmpOp) (es : List Expr) : M (Val × Heap) :=
  lim (fun n => evalChain Φ n σ μ C a ops es)
noncomputable def evalAndω (Φ : Funs) (σ : Env) (μ : Heap) (C : Ctx) (es : List Expr) : M (Val × Heap) :=
  lim (fun n => evalAnd Φ n σ μ C es)
noncomputable def evalOrω (Φ : Funs) (σ : Env) (μ : Heap) (C : Ctx) (es : List Expr) : M (Val × Heap) :=
  lim (fun n => evalOr Φ n σ μ C es)
noncomputable def evalCompω (Φ : Funs) (σ : Env) (μ : Heap) (C : Ctx) (ps : List Pat) (its : List Expr) (elt : Expr) : M (List Val × Heap) :=
  lim (fun n => evalComp Φ n σ μ C ps its elt)
noncomputable def compLoopω (Φ : Funs) (σ : Env) (μ : Heap) (C : Ctx) (r i : Nat) (p : Pat) (ps : List Pat) (its : List Expr) (elt : Expr) : M (List Val × Heap) :=
  lim (fun n => compLoop Φ n σ μ C r i p ps its elt)
noncomputable def evalSω (Φ : Funs) (σ : Env) (μ : Heap) (C : Ctx) (s : Stmt) : M (Outcome × Heap) :=
  lim (fun n => evalS Φ n σ μ C s)
noncomputable def forLoopω (Φ : Funs) (σ : Env) (μ : Heap) (C : Ctx) (r i : Nat) (p : Pat) (body : List Stmt) : M (Outcome × Heap) :=
  lim (fun n => forLoop Φ n σ μ C r i p body)
noncomputable def evalBω (Φ : Funs) (σ : Env) (μ : Heap) (C : Ctx) (ss : List Stmt) : M (Outcome × Heap) :=
  lim (fun n => evalB Φ n σ μ C ss)
/-- structural equality and pattern matching need fuel proportional to the depth of the value /
pattern only; their limits are what they compute with enough fuel -/
noncomputable def valEqω (μ : Heap) (a b : Val) : M Bool := lim (fun n => valEq μ n a b)
noncomputable def bindPatω (p : Pat) (v : Val) (σ : Env) : M Env := lim (fun n => bindPat n p v σ)

theorem tends_evalE (Φ σ μ C e) : Tends (fun n => evalE Φ n σ μ C e) (evalEω Φ σ μ C e) :=
  Tends.of_chain fun n m h => (monoAt Φ n m h).evalE _ _ _ _
theorem tends_evalEs (Φ σ μ C es) : Tends (fun n => evalEs Φ n σ μ C es) (evalEsω Φ σ μ C es) :=
  Tends.of_chain fun n m h => (monoAt Φ n m h).evalEs _ _ _ _
theorem tends_evalChain (Φ σ μ C a ops es) : Tends (fun n => evalChain Φ n σ μ C a ops es) (evalChainω Φ σ μ C a ops es) :=
  Tends.of_chain fun n m h => (monoAt Φ n m h).evalChain _ _ _ _ _ _
theorem tends_evalAnd (Φ σ μ C es) : Tends (fun n => evalAnd Φ n σ μ C es) (evalAndω Φ σ μ C es) :=
  Tends.of_chain fun n m h => (monoAt Φ n m h).evalAnd _ _ _ _
theorem tends_evalOr (Φ σ μ C es) : Tends (fun n => evalOr Φ n σ μ C es) (evalOrω Φ σ μ C es) :=
  Tends.of_chain fun n m h => (monoAt Φ n m h).evalOr _ _ _ _
theorem tends_evalComp (Φ σ μ C ps its elt) : Tends (fun n => evalComp Φ n σ μ C ps its elt) (evalCompω Φ σ μ C ps its elt) :=
  Tends.of_chain fun n m h => (monoAt Φ n m h).evalComp _ _ _ _ _ _
theorem tends_compLoop (Φ σ μ C r i p ps its elt) : Tends (fun n => compLoop Φ n σ μ C r i p ps its elt) (compLoopω Φ σ μ C r i p ps its elt) :=
  Tends.of_chain fun n m h => (monoAt Φ n m h).compLoop _ _ _ _ _ _ _ _ _
theorem tends_evalS (Φ σ μ C s) : Tends (fun n => evalS Φ n σ μ C s) (evalSω Φ σ μ C s) :=
  Tends.of_chain fun n m h => (monoAt Φ n m h).evalS _ _ _ _
theorem tends_forLoop (Φ σ μ C r i p body) : Tends (fun n => forLoop Φ n σ μ C r i p body) (forLoopω Φ σ μ C r i p body) :=
  Tends.of_chain fun n m h => (monoAt Φ n m h).forLoop _ _ _ _ _ _ _
theorem tends_evalB (Φ σ μ C ss) : Tends (fun n => evalB Φ n σ μ C ss) (evalBω Φ σ μ C ss) :=
  Tends.of_chain fun n m h => (monoAt Φ n m h).evalB _ _ _ _
theorem tends_valEq (μ a b) : Tends (fun n => valEq μ n a b) (valEqω μ a b) :=
  Tends.of_chain fun _ _ h => valEq_mono_le μ h a b
theorem tends_bindPat (p v σ) : Tends (fun n => bindPat n p v σ) (bindPatω p v σ) :=
  Tends.of_chain fun _ _ h => bindPat_mono_le h p v σ

/-- prove `Tends (fun n => body n) body∞` where the two bodies have the same shape -/
macro "tends_tac" : tactic => `(tactic| repeat (first
  | with_reducible exact Tends.const _
  | with_reducible apply Tends.bind
  | with_reducible exact tends_evalE _ _ _ _ _
  | with_reducible exact tends_evalEs _ _ _ _ _
  | with_reducible exact tends_evalB _ _ _ _ _
  | with_reducible exact tends_evalS _ _ _ _ _
  | with_reducible exact tends_evalChain _ _ _ _ _ _ _
  | with_reducible exact tends_evalAnd _ _ _ _ _
  | with_reducible exact tends_evalOr _ _ _ _ _
  | with_reducible exact tends_evalComp _ _ _ _ _ _ _
  | with_reducible exact tends_compLoop _ _ _ _ _ _ _ _ _ _
  | with_reducible exact tends_forLoop _ _ _ _ _ _ _ _
  | with_reducible exact tends_valEq _ _ _
  | with_reducible exact tends_bindPat _ _ _
  | with_reducible apply Tends.emap
  | exact Tends.const _
  | (intro ⟨_, _⟩; try dsimp only)
  | intro _
  | (split <;> (try dsimp only) <;> (try simp only [*]))
  | focus (exfalso; simp_all; done)))

end Fpy.Xform
