/-
Part 7 of the value-level helpers for C01: the bounded families (`MPBFloat`, `MPBFixed`, `EFloat`):
membership of every result, truthfulness of the overflow flag.
-/
import Fpy.Proof.RoundValCtx2
namespace Fpy.C01v
open Fpy Fpy.Spec

/-- the range test of the bounded families is the comparison of values -/
theorem overflowing_iff (negMax posMax y : RF) (h1 : negMax.val ≤ 0) (h2 : 0 ≤ posMax.val) :
    (if y.s then y.lt negMax else y.gt posMax) = true ↔ (y.val < negMax.val ∨ posMax.val < y.val) := by
  cases hs : y.s
  · have := val_nonneg_of_pos y hs
    simp only [Bool.false_eq_true, if_false, gt_iff_val]
    constructor
    · intro h; exact Or.inr h
    · rintro (h | h)
      · exfalso; grind
      · exact h
  · have := val_nonpos_of_neg y hs
    simp only [if_true, lt_iff_val]
    constructor
    · intro h; exact Or.inl h
    · rintro (h | h)
      · exact h
      · exfalso; grind

theorem in_range_of_not (negMax posMax y : RF) (h1 : negMax.val ≤ 0) (h2 : 0 ≤ posMax.val)
    (h : ¬ (if y.s then y.lt negMax else y.gt posMax) = true) : negMax.val ≤ y.val ∧ y.val ≤ posMax.val := by
  rw [overflowing_iff negMax posMax y h1 h2] at h
  constructor
  · apply Rat.not_lt.1; intro h'; exact h (Or.inl h')
  · apply Rat.not_lt.1; intro h'; exact h (Or.inr h')

/-- `MPBFloatContext` -/
theorem mpb_round_mem (c : MPBParams) (hwf : CtxWF (.mpb c)) (v : FV) (r : Nat) (res : Res)
    (h : mpbRoundAt c v none false r = .ok res) :
    CtxMember (.mpb c) res.v ∨ CtxSubstitute (.mpb c) res.v := by
  obtain ⟨hp, hpm, hnm, hn0, hp0⟩ := hwf
  have hmaxmem : ∀ s : Bool, CtxMember (.mpb c) (.fin (if s then c.negMax else c.posMax)) := by
    intro s
    cases s
    · exact ⟨⟨hpm, by grind, Rat.le_refl⟩, fun _ _ => rfl⟩
    · exact ⟨⟨hnm, Rat.le_refl, by grind⟩, fun _ _ => rfl⟩
  unfold mpbRoundAt at h
  cases hsp : floatSpecial c.o v with
  | some e =>
    rw [hsp] at h
    exact floatSpecial_mem (.mpb c) c.o rfl rfl rfl rfl v e hsp res h
  | none =>
    rw [hsp] at h
    cases v with
    | nan s => simp [floatSpecial] at hsp
    | inf s => simp [floatSpecial] at hsp
    | fin x =>
      simp only at h
      by_cases hc : x.c = 0
      · simp only [hc, if_true, Except.ok.injEq] at h
        left; rw [← h]
        exact ⟨by simp only [CtxFinMember]; rw [RF.val_mk_zero]; exact ⟨repFloatSub_zero _ _, hn0, hp0⟩, fun _ _ => rfl⟩
      · simp only [hc, if_false] at h
        cases hr : x.round (some c.p) (some c.nmin) c.rm c.k r false with
        | error e => rw [hr] at h; cases h
        | ok yf =>
          obtain ⟨y, fl⟩ := yf
          rw [hr] at h; simp only at h
          obtain ⟨-, hbl, hexp, -⟩ := float_round_any x c.p (some c.nmin) c.rm c.k r y fl hc hp hr
          have := floatN_ge_nmin x c.p c.nmin
          by_cases hov : (if y.s then y.lt c.negMax else y.gt c.posMax) = true
          · simp only [hov, if_true, Bool.false_eq_true, if_false] at h
            cases hovm : c.ov with
            | assert => rw [hovm] at h; cases h
            | wrap => rw [hovm] at h; cases h
            | saturate =>
              rw [hovm] at h; simp only [Except.ok.injEq] at h
              left; rw [← h]; exact hmaxmem y.s
            | overflow =>
              rw [hovm] at h; simp only at h
              by_cases hti : overflowToInfinity c.rm y.s = true
              · simp only [hti, if_true] at h
                by_cases hen : c.o.enableInf = true
                · simp only [hen, if_true, Except.ok.injEq] at h
                  left; rw [← h]; exact hen
                · simp only [hen, Bool.false_eq_true, if_false] at h
                  cases hiv : c.o.infValue with
                  | none => rw [hiv] at h; cases h
                  | some iv =>
                    rw [hiv] at h; simp only [Except.ok.injEq] at h
                    right; left
                    exact ⟨by simpa [hasInf] using hen, iv, hiv, Or.inr ⟨y.s, by rw [← h]; rfl⟩⟩
              · simp only [hti, Bool.false_eq_true, if_false, Except.ok.injEq] at h
                left; rw [← h]; exact hmaxmem y.s
          · simp only [hov, Bool.false_eq_true, if_false, Except.ok.injEq] at h
            obtain ⟨r1, r2⟩ := in_range_of_not c.negMax c.posMax y hn0 hp0 hov
            left; rw [← h]
            exact ⟨⟨repFloatSub_of_shape y c.p c.nmin hbl (by omega), r1, r2⟩, fun _ _ => rfl⟩

/-- `MPBFloatContext`: the overflow flag is set exactly when the unbounded-exponent rounding
exceeds the range -/
theorem mpb_flag_overflow (c : MPBParams) (hwf : CtxWF (.mpb c)) (x : RF) (hx : x.c ≠ 0) (r : Nat) (y : RF) (fl : Flags)
    (hr : x.round (some c.p) (some c.nmin) c.rm c.k r false = .ok (y, fl)) (res : Res)
    (h : mpbRoundAt c (.fin x) none false r = .ok res) :
    res.fl.overflow = true ↔ (y.val < c.negMax.val ∨ c.posMax.val < y.val) := by
  obtain ⟨hp, hpm, hnm, hn0, hp0⟩ := hwf
  rw [← overflowing_iff c.negMax c.posMax y hn0 hp0]
  obtain ⟨-, -, -, hfo, -⟩ := float_round_any x c.p (some c.nmin) c.rm c.k r y fl hx hp hr
  unfold mpbRoundAt floatSpecial at h
  simp only [hx, if_false, hr] at h
  by_cases hov : (if y.s then y.lt c.negMax else y.gt c.posMax) = true
  · simp only [hov, if_true, Bool.false_eq_true, if_false] at h
    simp only [hov, iff_true]
    cases hovm : c.ov with
    | assert => rw [hovm] at h; cases h
    | wrap => rw [hovm] at h; cases h
    | saturate => rw [hovm] at h; simp only [Except.ok.injEq] at h; rw [← h]; rfl
    | overflow =>
      rw [hovm] at h; simp only at h
      split at h
      · split at h
        · simp only [Except.ok.injEq] at h; rw [← h]; rfl
        · split at h
          · cases h
          · simp only [Except.ok.injEq] at h; rw [← h]; rfl
      · simp only [Except.ok.injEq] at h; rw [← h]; rfl
  · simp only [hov, Bool.false_eq_true, if_false, Except.ok.injEq] at h
    rw [← h]; simp only [hfo, hov]

end Fpy.C01v
