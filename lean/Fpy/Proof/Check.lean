/-
Helper lemmas for property C15: the invariant "every name the checker marks as defined on all
paths is bound at run time", carried through the fuel-driven semantics of `Fpy.Model.Skel.Skel`.
-/
import Fpy.Model.Skel.Check
namespace Fpy.Skel

/-! ### environments -/

/-- the run-time state `σ` honours the checker environment: the path is live and every name
marked `True` is bound -/
def Inv (env : Env) (σ : List Name) : Prop :=
  env.term = false ∧ ∀ x, env.get x = some true → x ∈ σ

def Sub (σ σ' : List Name) : Prop := ∀ x, x ∈ σ → x ∈ σ'

theorem Sub.refl (σ : List Name) : Sub σ σ := fun _ h => h
theorem Sub.trans {a b c : List Name} (h1 : Sub a b) (h2 : Sub b c) : Sub a c := fun x h => h2 x (h1 x h)
theorem Sub.append_right (ts σ : List Name) : Sub σ (ts ++ σ) := fun _ h => List.mem_append.2 (Or.inr h)
theorem Sub.of_append {ts σ σ' : List Name} (h : Sub (ts ++ σ) σ') : Sub σ σ' :=
  fun x hx => h x (List.mem_append.2 (Or.inr hx))
theorem Sub.of_append_left {ts σ σ' : List Name} (h : Sub (ts ++ σ) σ') : Sub ts σ' :=
  fun x hx => h x (List.mem_append.2 (Or.inl hx))

theorem Inv.mono {env : Env} {σ σ' : List Name} (h : Inv env σ) (hs : Sub σ σ') : Inv env σ' :=
  ⟨h.1, fun x hx => hs x (h.2 x hx)⟩

@[simp] theorem Env.extend_term (env : Env) (x : Name) : (env.extend x).term = env.term := rfl

@[simp] theorem Env.extendAll_term (env : Env) (ts : List Name) : (env.extendAll ts).term = env.term := by
  induction ts generalizing env with
  | nil => rfl
  | cons t ts ih => simp [Env.extendAll, ih]

theorem Env.extendAll_get (env : Env) (ts : List Name) (x : Name) :
    (env.extendAll ts).get x = some true ↔ x ∈ ts ∨ env.get x = some true := by
  induction ts generalizing env with
  | nil => simp [Env.extendAll]
  | cons t ts ih =>
    simp only [Env.extendAll, ih, Env.extend, List.mem_cons]
    by_cases h : x = t
    · simp [h]
    · simp [h]

theorem Env.extendAll_get_none (env : Env) (ts : List Name) (x : Name) (hx : x ∉ ts) :
    (env.extendAll ts).get x = env.get x := by
  induction ts generalizing env with
  | nil => rfl
  | cons t ts ih =>
    simp only [List.mem_cons, not_or] at hx
    simp only [Env.extendAll]
    rw [ih _ hx.2]
    simp [Env.extend, hx.1]

theorem Inv.extendAll {env : Env} {σ : List Name} (h : Inv env σ) (ts : List Name) :
    Inv (env.extendAll ts) (ts ++ σ) := by
  refine ⟨by simp [h.1], fun x hx => ?_⟩
  rw [Env.extendAll_get] at hx
  rcases hx with hx | hx
  · exact List.mem_append.2 (Or.inl hx)
  · exact List.mem_append.2 (Or.inr (h.2 x hx))

theorem Inv.extendOpt {env : Env} {σ : List Name} (h : Inv env σ) (a : Option Name) :
    Inv (env.extendOpt a) (asList a ++ σ) := by
  cases a with
  | none => simpa [Env.extendOpt, asList] using h
  | some x => exact h.extendAll [x]

theorem mergeGet_true {a b : Name → Option Bool} {x : Name} (h : mergeGet a b x = some true) :
    a x = some true ∧ b x = some true := by
  unfold mergeGet at h
  cases ha : a x <;> cases hb : b x <;> simp [ha, hb] at h
  rename_i va vb
  cases va <;> cases vb <;> simp at h
  simp

theorem Env.merge_term (a b : Env) : (a.merge b).term = (a.term && b.term) := by
  unfold Env.merge
  cases a.term <;> cases b.term <;> simp [Env.empty]

/-- a live left operand: the merge is live and its `True` names are `True` on the left -/
theorem Env.merge_left {a b : Env} (ha : a.term = false) {x : Name}
    (h : (a.merge b).get x = some true) : a.get x = some true := by
  unfold Env.merge at h
  cases hb : b.term <;> simp [ha, hb] at h
  · exact (mergeGet_true h).1
  · exact h

theorem Env.merge_right {a b : Env} (hb : b.term = false) {x : Name}
    (h : (a.merge b).get x = some true) : b.get x = some true := by
  unfold Env.merge at h
  cases ha : a.term <;> simp [ha, hb] at h
  · exact (mergeGet_true h).2
  · exact h

theorem Inv.merge_left {a b : Env} {σ : List Name} (h : Inv a σ) : Inv (a.merge b) σ :=
  ⟨by simp [Env.merge_term, h.1], fun _ hx => h.2 _ (Env.merge_left h.1 hx)⟩

theorem Inv.merge_right {a b : Env} {σ : List Name} (h : Inv b σ) : Inv (a.merge b) σ :=
  ⟨by simp [Env.merge_term, h.1], fun _ hx => h.2 _ (Env.merge_right h.1 hx)⟩

/-! ### expressions -/

theorem useName_ok {env : Env} {x : Name} (h : useName env x = .ok ()) : env.get x = some true := by
  unfold useName at h
  split at h <;> simp_all

theorem checkE_op {env : Env} {a b : Expr} (h : checkE env (.op a b) = .ok ()) :
    checkE env a = .ok () ∧ checkE env b = .ok () := by
  simp only [checkE, bind, Except.bind] at h
  split at h
  · cases h
  · rename_i u hu; cases u; exact ⟨hu, h⟩

theorem checkE_comp {env : Env} {ts : List Name} {it body : Expr} (h : checkE env (.comp ts it body) = .ok ()) :
    checkE env it = .ok () ∧ checkE (env.extendAll ts) body = .ok () := by
  simp only [checkE, bind, Except.bind] at h
  split at h
  · cases h
  · rename_i u hu; cases u; exact ⟨hu, h⟩

/-- a checked expression never reads an unbound name -/
theorem evalE_sound : ∀ f,
    (∀ (env : Env) (σ : List Name) (e : Expr) (ch : List Nat), checkE env e = .ok () →
        (∀ x, env.get x = some true → x ∈ σ) → ∀ y, evalE f σ e ch ≠ .unbound y) ∧
    (∀ (env : Env) (σ : List Name) (e : Expr) (n : Nat) (ch : List Nat), checkE env e = .ok () →
        (∀ x, env.get x = some true → x ∈ σ) → ∀ y, evalN f σ e n ch ≠ .unbound y) := by
  intro f
  induction f with
  | zero => constructor <;> intros <;> simp [evalE, evalN]
  | succ f ih =>
    obtain ⟨ihE, ihN⟩ := ih
    constructor
    · intro env σ e ch hc hs y
      cases e with
      | lit => simp [evalE]
      | var x =>
        have := hs x (useName_ok (by simpa [checkE] using hc))
        simp [evalE, this]
      | op a b =>
        obtain ⟨h1, h2⟩ := checkE_op hc
        simp only [evalE]
        cases h : evalE f σ a ch with
        | ok ch' => exact ihE env σ b ch' h2 hs y
        | unbound z => exact absurd h (ihE env σ a ch h1 hs z)
        | timeout => simp
      | comp ts it body =>
        obtain ⟨h1, h2⟩ := checkE_comp hc
        simp only [evalE]
        cases h : evalE f σ it ch with
        | ok ch' =>
          cases ch' with
          | nil => simp
          | cons n ch'' =>
            refine ihN (env.extendAll ts) (ts ++ σ) body n ch'' h2 ?_ y
            intro x hx
            rw [Env.extendAll_get] at hx
            rcases hx with hx | hx
            · exact List.mem_append.2 (Or.inl hx)
            · exact List.mem_append.2 (Or.inr (hs x hx))
        | unbound z => exact absurd h (ihE env σ it ch h1 hs z)
        | timeout => simp
    · intro env σ e n ch hc hs y
      cases n with
      | zero => simp [evalN]
      | succ n =>
        simp only [evalN]
        cases h : evalE f σ e ch with
        | ok ch' => exact ihN env σ e n ch' hc hs y
        | unbound z => exact absurd h (ihE env σ e ch hc hs z)
        | timeout => simp

theorem evalE_ok_or_timeout {env : Env} {σ : List Name} {e : Expr} (hc : checkE env e = .ok ())
    (hs : ∀ x, env.get x = some true → x ∈ σ) (f : Nat) (ch : List Nat) :
    (∃ ch', evalE f σ e ch = .ok ch') ∨ evalE f σ e ch = .timeout := by
  cases h : evalE f σ e ch with
  | ok ch' => exact Or.inl ⟨ch', rfl⟩
  | unbound z => exact absurd h ((evalE_sound f).1 env σ e ch hc hs z)
  | timeout => exact Or.inr rfl

/-! ### inversion of the checker's `do` blocks -/

theorem bind_ok {ε α β : Type} {x : Except ε α} {f : α → Except ε β} {b : β}
    (h : (x >>= f) = .ok b) : ∃ a, x = .ok a ∧ f a = .ok b := by
  cases x with
  | error e => cases h
  | ok a => exact ⟨a, rfl, h⟩

theorem pure_ok {ε α : Type} {a b : α} (h : (pure a : Except ε α) = .ok b) : a = b := by
  cases h; rfl

theorem checkS_assign {m : Mode} {env env' : Env} {ts : List Name} {e : Expr}
    (h : checkS m env (.assign ts e) = .ok env') : checkE env e = .ok () ∧ env' = env.extendAll ts := by
  simp only [checkS] at h
  obtain ⟨_, h1, h⟩ := bind_ok h
  exact ⟨h1, (pure_ok h).symm⟩

theorem checkS_if1 {m : Mode} {env env' : Env} {c : Expr} {t : Block}
    (h : checkS m env (.if1 c t) = .ok env') :
    checkE env c = .ok () ∧ ∃ ift, checkB m env t = .ok ift ∧ env' = env.merge ift := by
  simp only [checkS] at h
  obtain ⟨_, h1, h⟩ := bind_ok h
  obtain ⟨ift, h2, h⟩ := bind_ok h
  exact ⟨h1, ift, h2, (pure_ok h).symm⟩

theorem checkS_ite {m : Mode} {env env' : Env} {c : Expr} {t e : Block}
    (h : checkS m env (.ite c t e) = .ok env') :
    checkE env c = .ok () ∧ ∃ ift iff, checkB m env t = .ok ift ∧ checkB m env e = .ok iff ∧ env' = ift.merge iff := by
  simp only [checkS] at h
  obtain ⟨_, h1, h⟩ := bind_ok h
  obtain ⟨ift, h2, h⟩ := bind_ok h
  obtain ⟨iff, h3, h⟩ := bind_ok h
  exact ⟨h1, ift, iff, h2, h3, (pure_ok h).symm⟩

theorem checkS_while {m : Mode} {env env' : Env} {c : Expr} {b : Block}
    (h : checkS m env (.while c b) = .ok env') :
    ∃ body, checkB m env b = .ok body ∧ checkE (env.merge body) c = .ok () ∧ env' = env.merge body := by
  simp only [checkS] at h
  obtain ⟨body, h1, h⟩ := bind_ok h
  obtain ⟨_, h2, h⟩ := bind_ok h
  exact ⟨body, h1, h2, (pure_ok h).symm⟩

theorem checkS_for {m : Mode} {env env' : Env} {ts : List Name} {it : Expr} {b : Block}
    (h : checkS m env (.for ts it b) = .ok env') :
    checkE env it = .ok () ∧ ∃ body, checkB m (env.extendAll ts) b = .ok body ∧
      env' = (if m.forLeak then env.extendAll ts else env).merge body := by
  simp only [checkS] at h
  obtain ⟨_, h1, h⟩ := bind_ok h
  obtain ⟨body, h2, h⟩ := bind_ok h
  exact ⟨h1, body, h2, (pure_ok h).symm⟩

theorem checkS_with {m : Mode} {env env' : Env} {e : Expr} {a : Option Name} {b : Block}
    (h : checkS m env (.with e a b) = .ok env') :
    checkE env e = .ok () ∧ checkB m (env.extendOpt a) b = .ok env' := by
  simp only [checkS] at h
  obtain ⟨_, h1, h⟩ := bind_ok h
  exact ⟨h1, h⟩

theorem checkS_ret {m : Mode} {env env' : Env} {e : Expr}
    (h : checkS m env (.ret e) = .ok env') : checkE env e = .ok () := by
  simp only [checkS] at h
  obtain ⟨_, h1, _⟩ := bind_ok h
  exact h1

theorem checkS_eff {m : Mode} {env env' : Env} {e : Expr}
    (h : checkS m env (.eff e) = .ok env') : checkE env e = .ok () ∧ env' = env := by
  simp only [checkS] at h
  obtain ⟨_, h1, h⟩ := bind_ok h
  exact ⟨h1, (pure_ok h).symm⟩

theorem checkS_pass {m : Mode} {env env' : Env} (h : checkS m env .pass = .ok env') : env' = env := by
  simp only [checkS] at h
  exact (pure_ok h).symm

theorem checkB_cons {m : Mode} {env env' : Env} {s : Stmt} {b : Block}
    (h : checkB m env (.cons s b) = .ok env') :
    ∃ env1, checkS m env s = .ok env1 ∧ checkB m env1 b = .ok env' := by
  simp only [checkB] at h
  exact bind_ok h

theorem checkB_nil {m : Mode} {env env' : Env} (h : checkB m env .nil = .ok env') : env' = env := by
  simp only [checkB] at h
  exact (pure_ok h).symm

/-! ### the invariant through statements -/

/-- what a run may do: end normally in a state satisfying `P`, return, run out of fuel, or lie in
the excluded region — but never read an unbound name -/
def Good (P : List Name → Prop) : Outcome → Prop
  | .normal σ' _ => P σ'
  | .unbound _ => False
  | _ => True

@[simp] theorem Good_normal {P : List Name → Prop} {σ : List Name} {ch : List Nat} : Good P (.normal σ ch) = P σ := rfl
@[simp] theorem Good_timeout {P : List Name → Prop} : Good P .timeout = True := rfl
@[simp] theorem Good_returned {P : List Name → Prop} : Good P .returned = True := rfl
@[simp] theorem Good_excluded {P : List Name → Prop} : Good P .excluded = True := rfl
@[simp] theorem Good_unbound {P : List Name → Prop} {x : Name} : Good P (.unbound x) = False := rfl

theorem Good.imp {P Q : List Name → Prop} {o : Outcome} (h : Good P o) (hpq : ∀ σ, P σ → Q σ) : Good Q o := by
  cases o <;> simp_all [Good]

theorem good_onE {env : Env} {σ : List Name} {e : Expr} (hc : checkE env e = .ok ())
    (hs : ∀ x, env.get x = some true → x ∈ σ) (f : Nat) (ch : List Nat)
    {k : List Nat → Outcome} {P : List Name → Prop} (hk : ∀ ch', Good P (k ch')) :
    Good P (onE (evalE f σ e ch) k) := by
  rcases evalE_ok_or_timeout hc hs f ch with ⟨ch', h⟩ | h
  · rw [h]; exact hk ch'
  · rw [h]; simp [onE]

/-- **Soundness of the checker's environment** for every mode in which either loop targets do not
leak (`forLeak = false`) or the run is restricted to non-zero trip counts of `for` loops with a named
target (`z = true`). -/
theorem sound (m : Mode) (z : Bool) (hm : m.forLeak = false ∨ z = true) : ∀ f,
    (∀ (env env' : Env) (σ : List Name) (s : Stmt) (ch : List Nat), checkS m env s = .ok env' → Inv env σ →
        Good (fun σ' => Inv env' σ' ∧ Sub σ σ') (exec z f σ s ch)) ∧
    (∀ (env env' : Env) (σ : List Name) (b : Block) (ch : List Nat), checkB m env b = .ok env' → Inv env σ →
        Good (fun σ' => Inv env' σ' ∧ Sub σ σ') (execB z f σ b ch)) ∧
    (∀ (env body : Env) (σ ts : List Name) (b : Block) (n : Nat) (ch : List Nat),
        checkB m (env.extendAll ts) b = .ok body → Inv env σ →
        Good (fun σ' => Sub σ σ' ∧ (n ≠ 0 → Inv body σ' ∧ Sub ts σ')) (execFor z f σ ts b n ch)) := by
  intro f
  induction f with
  | zero => refine ⟨?_, ?_, ?_⟩ <;> intros <;> simp [exec, execB, execFor]
  | succ f ih =>
    obtain ⟨ihS, ihB, ihF⟩ := ih
    refine ⟨?_, ?_, ?_⟩
    · intro env env' σ s ch hc hi
      cases s with
      | assign ts e =>
        obtain ⟨h1, rfl⟩ := checkS_assign hc
        simp only [exec]
        exact good_onE h1 hi.2 f ch fun ch' => by
          simp only [Good_normal]
          exact ⟨hi.extendAll ts, Sub.append_right ts σ⟩
      | ite c t e =>
        obtain ⟨h1, ift, iff, h2, h3, rfl⟩ := checkS_ite hc
        simp only [exec]
        refine good_onE h1 hi.2 f ch fun ch' => ?_
        cases ch' with
        | nil => simp
        | cons k ch'' =>
          simp only []
          split
          · exact (ihB env iff σ e ch'' h3 hi).imp fun σ' h => ⟨h.1.merge_right, h.2⟩
          · exact (ihB env ift σ t ch'' h2 hi).imp fun σ' h => ⟨h.1.merge_left, h.2⟩
      | if1 c t =>
        obtain ⟨h1, ift, h2, rfl⟩ := checkS_if1 hc
        simp only [exec]
        refine good_onE h1 hi.2 f ch fun ch' => ?_
        cases ch' with
        | nil => simp
        | cons k ch'' =>
          simp only []
          split
          · simp only [Good_normal]; exact ⟨hi.merge_left, Sub.refl σ⟩
          · exact (ihB env ift σ t ch'' h2 hi).imp fun σ' h => ⟨h.1.merge_right, h.2⟩
      | «while» c b =>
        obtain ⟨body, h1, h2, rfl⟩ := checkS_while hc
        have hi' : Inv (env.merge body) σ := hi.merge_left
        simp only [exec]
        refine good_onE h2 hi'.2 f ch fun ch' => ?_
        cases ch' with
        | nil => simp
        | cons k ch'' =>
          simp only []
          split
          · simp only [Good_normal]; exact ⟨hi', Sub.refl σ⟩
          · have hB := ihB env body σ b ch'' h1 hi
            revert hB; generalize execB z f σ b ch'' = o; intro hB
            cases o with
            | normal σ1 ch1 =>
              simp only [Good_normal] at hB
              exact (ihS env (env.merge body) σ1 (.while c b) ch1 hc (hi.mono hB.2)).imp
                fun σ' h' => ⟨h'.1, hB.2.trans h'.2⟩
            | unbound x => exact hB.elim
            | returned => simp
            | excluded => simp
            | timeout => simp
      | «for» ts it b =>
        obtain ⟨h1, body, h2, rfl⟩ := checkS_for hc
        simp only [exec]
        refine good_onE h1 hi.2 f ch fun ch' => ?_
        cases ch' with
        | nil => simp
        | cons n ch'' =>
          simp only []
          by_cases hex : (z && n == 0 && !ts.isEmpty) = true
          · rw [if_pos hex]; simp
          · rw [if_neg hex]
            refine (ihF env body σ ts b n ch'' h2 hi).imp fun σ' h => ⟨?_, h.1⟩
            cases hfl : m.forLeak with
            | false =>
              simp only [Bool.false_eq_true, if_false]
              exact (hi.mono h.1).merge_left
            | true =>
              have hz : z = true := by
                rcases hm with hm | hm
                · rw [hm] at hfl; cases hfl
                · exact hm
              simp only [if_true]
              by_cases hn : n = 0
              · -- zero trips: only possible here when there is no named target
                have hts : ts = [] := by
                  cases ts with
                  | nil => rfl
                  | cons t ts => simp [hz, hn] at hex
                subst hts
                exact (hi.mono h.1).merge_left
              · exact (h.2 hn).1.merge_right
      | «with» e a b =>
        obtain ⟨h1, h2⟩ := checkS_with hc
        simp only [exec]
        refine good_onE h1 hi.2 f ch fun ch' => ?_
        exact (ihB (env.extendOpt a) env' (asList a ++ σ) b ch' h2 (hi.extendOpt a)).imp
          fun σ' h => ⟨h.1, Sub.of_append h.2⟩
      | ret e =>
        have h1 := checkS_ret hc
        simp only [exec]
        exact good_onE h1 hi.2 f ch fun ch' => by simp
      | eff e =>
        obtain ⟨h1, rfl⟩ := checkS_eff hc
        simp only [exec]
        exact good_onE h1 hi.2 f ch fun ch' => by
          simp only [Good_normal]; exact ⟨hi, Sub.refl σ⟩
      | pass =>
        have := checkS_pass hc; subst this
        simp only [exec, Good_normal]
        exact ⟨hi, Sub.refl σ⟩
    · intro env env' σ b ch hc hi
      cases b with
      | nil =>
        have := checkB_nil hc; subst this
        simp only [execB, Good_normal]
        exact ⟨hi, Sub.refl σ⟩
      | cons s b =>
        obtain ⟨env1, h1, h2⟩ := checkB_cons hc
        simp only [execB]
        have hS := ihS env env1 σ s ch h1 hi
        revert hS; generalize exec z f σ s ch = o; intro hS
        cases o with
        | normal σ1 ch1 =>
          simp only [Good_normal] at hS
          exact (ihB env1 env' σ1 b ch1 h2 hS.1).imp fun σ' h' => ⟨h'.1, hS.2.trans h'.2⟩
        | unbound x => exact hS.elim
        | returned => simp
        | excluded => simp
        | timeout => simp
    · intro env body σ ts b n ch hc hi
      cases n with
      | zero =>
        simp only [execFor, Good_normal]
        exact ⟨Sub.refl σ, fun h => absurd rfl h⟩
      | succ n =>
        simp only [execFor]
        have hB := ihB (env.extendAll ts) body (ts ++ σ) b ch hc (hi.extendAll ts)
        revert hB; generalize execB z f (ts ++ σ) b ch = o; intro hB
        cases o with
        | normal σ1 ch1 =>
          simp only [Good_normal] at hB
          have hs1 : Sub σ σ1 := Sub.of_append hB.2
          refine (ihF env body σ1 ts b n ch1 hc (hi.mono hs1)).imp fun σ' h' => ?_
          exact ⟨hs1.trans h'.1, fun _ => ⟨hB.1.mono h'.1, (Sub.of_append_left hB.2).trans h'.1⟩⟩
        | unbound x => exact hB.elim
        | returned => simp
        | excluded => simp
        | timeout => simp

/-! ### reachability: a block whose exit is unreachable never ends normally -/

theorem reach_normal (z : Bool) : ∀ f,
    (∀ (σ : List Name) (s : Stmt) (ch : List Nat) (σ' : List Name) (ch' : List Nat),
        exec z f σ s ch = .normal σ' ch' → (reachS true s).1 = true) ∧
    (∀ (σ : List Name) (b : Block) (ch : List Nat) (σ' : List Name) (ch' : List Nat),
        execB z f σ b ch = .normal σ' ch' → (reachB true b).1 = true) := by
  intro f
  induction f with
  | zero => constructor <;> intros <;> simp_all [exec, execB]
  | succ f ih =>
    obtain ⟨ihS, ihB⟩ := ih
    constructor
    · intro σ s ch σ' ch' h
      cases s with
      | assign ts e => simp [reachS]
      | eff e => simp [reachS]
      | pass => simp [reachS]
      | if1 c t => simp [reachS]
      | «while» c b => simp [reachS]
      | «for» ts it b => simp [reachS]
      | ret e =>
        simp only [exec] at h
        cases he : evalE f σ e ch <;> simp [he, onE] at h
      | ite c t e =>
        simp only [exec] at h
        simp only [reachS]
        cases he : evalE f σ c ch with
        | ok ch1 =>
          simp only [he, onE] at h
          cases ch1 with
          | nil => simp at h
          | cons k ch2 =>
            simp only [] at h
            split at h
            · simp [ihB σ e ch2 σ' ch' h]
            · simp [ihB σ t ch2 σ' ch' h]
        | unbound x => simp [he, onE] at h
        | timeout => simp [he, onE] at h
      | «with» e a b =>
        simp only [exec] at h
        simp only [reachS]
        cases he : evalE f σ e ch with
        | ok ch1 =>
          simp only [he, onE] at h
          exact ihB _ b ch1 σ' ch' h
        | unbound x => simp [he, onE] at h
        | timeout => simp [he, onE] at h
    · intro σ b ch σ' ch' h
      cases b with
      | nil => simp [reachB]
      | cons s b =>
        simp only [execB] at h
        simp only [reachB]
        cases hs : exec z f σ s ch with
        | normal σ1 ch1 =>
          simp only [hs] at h
          rw [ihS σ s ch σ1 ch1 hs]
          exact ihB σ1 b ch1 σ' ch' h
        | returned => simp [hs] at h
        | unbound x => simp [hs] at h
        | excluded => simp [hs] at h
        | timeout => simp [hs] at h

/-! ### runs outside the excluded region are the same with and without the restriction -/

theorem noZero_agrees : ∀ f,
    (∀ (σ : List Name) (s : Stmt) (ch : List Nat),
        exec true f σ s ch ≠ .excluded → exec false f σ s ch = exec true f σ s ch) ∧
    (∀ (σ : List Name) (b : Block) (ch : List Nat),
        execB true f σ b ch ≠ .excluded → execB false f σ b ch = execB true f σ b ch) ∧
    (∀ (σ ts : List Name) (b : Block) (n : Nat) (ch : List Nat),
        execFor true f σ ts b n ch ≠ .excluded → execFor false f σ ts b n ch = execFor true f σ ts b n ch) := by
  intro f
  induction f with
  | zero => refine ⟨?_, ?_, ?_⟩ <;> intros <;> simp [exec, execB, execFor]
  | succ f ih =>
    obtain ⟨ihS, ihB, ihF⟩ := ih
    refine ⟨?_, ?_, ?_⟩
    · intro σ s ch h
      cases s with
      | assign ts e => simp [exec]
      | eff e => simp [exec]
      | pass => simp [exec]
      | ret e => simp [exec]
      | ite c t e =>
        simp only [exec] at h ⊢
        cases he : evalE f σ c ch with
        | ok ch1 =>
          simp only [he, onE] at h ⊢
          cases ch1 with
          | nil => rfl
          | cons k ch2 =>
            simp only [] at h ⊢
            split
            · rename_i hk; rw [if_pos hk] at h; exact ihB σ e ch2 h
            · rename_i hk; rw [if_neg hk] at h; exact ihB σ t ch2 h
        | unbound x => simp [onE]
        | timeout => simp [onE]
      | if1 c t =>
        simp only [exec] at h ⊢
        cases he : evalE f σ c ch with
        | ok ch1 =>
          simp only [he, onE] at h ⊢
          cases ch1 with
          | nil => rfl
          | cons k ch2 =>
            simp only [] at h ⊢
            split
            · rfl
            · rename_i hk; rw [if_neg hk] at h; exact ihB σ t ch2 h
        | unbound x => simp [onE]
        | timeout => simp [onE]
      | «while» c b =>
        simp only [exec] at h ⊢
        cases he : evalE f σ c ch with
        | ok ch1 =>
          simp only [he, onE] at h ⊢
          cases ch1 with
          | nil => rfl
          | cons k ch2 =>
            simp only [] at h ⊢
            split
            · rfl
            · rename_i hk
              rw [if_neg hk] at h
              cases hb : execB true f σ b ch2 with
              | normal σ1 ch3 =>
                rw [hb] at h; simp only [] at h
                rw [ihB σ b ch2 (by rw [hb]; simp), hb]
                exact ihS σ1 (.while c b) ch3 h
              | excluded => rw [hb] at h; simp at h
              | returned => rw [ihB σ b ch2 (by rw [hb]; simp), hb]
              | unbound x => rw [ihB σ b ch2 (by rw [hb]; simp), hb]
              | timeout => rw [ihB σ b ch2 (by rw [hb]; simp), hb]
        | unbound x => simp [onE]
        | timeout => simp [onE]
      | «for» ts it b =>
        simp only [exec] at h ⊢
        cases he : evalE f σ it ch with
        | ok ch1 =>
          simp only [he, onE] at h ⊢
          cases ch1 with
          | nil => rfl
          | cons n ch2 =>
            simp only [] at h ⊢
            by_cases hex : (true && n == 0 && !ts.isEmpty) = true
            · rw [if_pos hex] at h; exact absurd rfl h
            · rw [if_neg hex] at h ⊢
              simp only [Bool.false_and, Bool.false_eq_true, if_false]
              exact ihF σ ts b n ch2 h
        | unbound x => simp [onE]
        | timeout => simp [onE]
      | «with» e a b =>
        simp only [exec] at h ⊢
        cases he : evalE f σ e ch with
        | ok ch1 =>
          simp only [he, onE] at h ⊢
          exact ihB _ b ch1 h
        | unbound x => simp [onE]
        | timeout => simp [onE]
    · intro σ b ch h
      cases b with
      | nil => simp [execB]
      | cons s b =>
        simp only [execB] at h ⊢
        cases hs : exec true f σ s ch with
        | normal σ1 ch1 =>
          rw [hs] at h; simp only [] at h
          rw [ihS σ s ch (by rw [hs]; simp), hs]
          exact ihB σ1 b ch1 h
        | excluded => rw [hs] at h; simp at h
        | returned => rw [ihS σ s ch (by rw [hs]; simp), hs]
        | unbound x => rw [ihS σ s ch (by rw [hs]; simp), hs]
        | timeout => rw [ihS σ s ch (by rw [hs]; simp), hs]
    · intro σ ts b n ch h
      cases n with
      | zero => simp [execFor]
      | succ n =>
        simp only [execFor] at h ⊢
        cases hb : execB true f (ts ++ σ) b ch with
        | normal σ1 ch1 =>
          rw [hb] at h; simp only [] at h
          rw [ihB _ b ch (by rw [hb]; simp), hb]
          exact ihF σ1 ts b n ch1 h
        | excluded => rw [hb] at h; simp at h
        | returned => rw [ihB _ b ch (by rw [hb]; simp), hb]
        | unbound x => rw [ihB _ b ch (by rw [hb]; simp), hb]
        | timeout => rw [ihB _ b ch (by rw [hb]; simp), hb]

/-! ### the strict front end implies the interpreter's pre-pass succeeds -/

theorem checkS_ret_env {m : Mode} {env env' : Env} {e : Expr}
    (h : checkS m env (.ret e) = .ok env') : env' = if m.absorb then Env.empty true else env := by
  simp only [checkS] at h
  obtain ⟨_, _, h⟩ := bind_ok h
  exact (pure_ok h).symm

def InvC (env : Env) (c : Scope) : Prop :=
  env.term = false ∧ ∀ x, env.get x = some true → c x = true

theorem Scope.addAll_get (c : Scope) (ts : List Name) (x : Name) :
    (c.addAll ts) x = true ↔ x ∈ ts ∨ c x = true := by
  induction ts generalizing c with
  | nil => simp [Scope.addAll]
  | cons t ts ih =>
    simp only [Scope.addAll, ih, Scope.add, List.mem_cons, Bool.or_eq_true, beq_iff_eq]
    constructor
    · rintro (h | h | h)
      · exact Or.inl (Or.inr h)
      · exact Or.inl (Or.inl h)
      · exact Or.inr h
    · rintro ((h | h) | h)
      · exact Or.inr (Or.inl h)
      · exact Or.inl h
      · exact Or.inr (Or.inr h)

theorem InvC.extendAll {env : Env} {c : Scope} (h : InvC env c) (ts : List Name) :
    InvC (env.extendAll ts) (c.addAll ts) := by
  refine ⟨by simp [h.1], fun x hx => ?_⟩
  rw [Env.extendAll_get] at hx
  rw [Scope.addAll_get]
  exact hx.imp id (h.2 x)

theorem InvC.extendOpt {env : Env} {c : Scope} (h : InvC env c) (a : Option Name) :
    InvC (env.extendOpt a) (c.addOpt a) := by
  cases a with
  | none => exact h
  | some x => exact h.extendAll [x]

theorem InvC.merge_left {a b : Env} {c : Scope} (h : InvC a c) : InvC (a.merge b) c :=
  ⟨by simp [Env.merge_term, h.1], fun _ hx => h.2 _ (Env.merge_left h.1 hx)⟩

theorem InvC.merge_inter {a b : Env} {c1 c2 : Scope} (h1 : InvC a c1) (h2 : InvC b c2) :
    InvC (a.merge b) (c1.inter c2) := by
  refine ⟨by simp [Env.merge_term, h1.1], fun x hx => ?_⟩
  simp only [Scope.inter, Bool.and_eq_true]
  exact ⟨h1.2 _ (Env.merge_left h1.1 hx), h2.2 _ (Env.merge_right h2.1 hx)⟩

theorem duE_of_checkE : ∀ (e : Expr) (env : Env) (c : Scope), checkE env e = .ok () →
    (∀ x, env.get x = some true → c x = true) → duE c e = .ok ()
  | .lit, _, _, _, _ => rfl
  | .var x, env, c, h, hs => by
    have := hs x (useName_ok (by simpa [checkE] using h))
    simp [duE, this]
  | .op a b, env, c, h, hs => by
    obtain ⟨h1, h2⟩ := checkE_op h
    simp only [duE, duE_of_checkE a env c h1 hs, duE_of_checkE b env c h2 hs]
    rfl
  | .comp ts it body, env, c, h, hs => by
    obtain ⟨h1, h2⟩ := checkE_comp h
    have hb := duE_of_checkE body (env.extendAll ts) (c.addAll ts) h2 (by
      intro x hx
      rw [Env.extendAll_get] at hx
      rw [Scope.addAll_get]
      exact hx.imp id (hs x))
    simp only [duE, duE_of_checkE it env c h1 hs, hb]
    rfl

mutual
theorem strict_duS : ∀ (s : Stmt) (env env' : Env) (c : Scope),
    checkS Mode.strict env s = .ok env' → InvC env c → ∃ c', duS false c s = .ok c' ∧ InvC env' c'
  | .assign ts e, env, env', c, h, hi => by
    obtain ⟨h1, rfl⟩ := checkS_assign h
    exact ⟨c.addAll ts, by simp only [duS, duE_of_checkE e env c h1 hi.2]; rfl, hi.extendAll ts⟩
  | .if1 cnd t, env, env', c, h, hi => by
    obtain ⟨h1, ift, h2, rfl⟩ := checkS_if1 h
    obtain ⟨c1, hd, _⟩ := strict_duB t env ift c h2 hi
    exact ⟨c, by simp only [duS, duE_of_checkE cnd env c h1 hi.2, hd]; rfl, hi.merge_left⟩
  | .ite cnd t e, env, env', c, h, hi => by
    obtain ⟨h1, ift, iff, h2, h3, rfl⟩ := checkS_ite h
    obtain ⟨c1, hd1, hi1⟩ := strict_duB t env ift c h2 hi
    obtain ⟨c2, hd2, hi2⟩ := strict_duB e env iff c h3 hi
    exact ⟨c1.inter c2, by simp only [duS, duE_of_checkE cnd env c h1 hi.2, hd1, hd2]; rfl, hi1.merge_inter hi2⟩
  | .while cnd b, env, env', c, h, hi => by
    obtain ⟨body, h1, h2, rfl⟩ := checkS_while h
    obtain ⟨c1, hd, _⟩ := strict_duB b env body c h1 hi
    have hi' : InvC (env.merge body) c := hi.merge_left
    exact ⟨c, by simp only [duS, duE_of_checkE cnd _ c h2 hi'.2, hd]; rfl, hi'⟩
  | .for ts it b, env, env', c, h, hi => by
    obtain ⟨h1, body, h2, rfl⟩ := checkS_for h
    obtain ⟨c1, hd, _⟩ := strict_duB b (env.extendAll ts) body (c.addAll ts) h2 (hi.extendAll ts)
    refine ⟨c, by simp only [duS, duE_of_checkE it env c h1 hi.2, hd]; rfl, ?_⟩
    simpa [Mode.strict] using hi.merge_left
  | .with e a b, env, env', c, h, hi => by
    obtain ⟨h1, h2⟩ := checkS_with h
    obtain ⟨c1, hd, hi1⟩ := strict_duB b (env.extendOpt a) env' (c.addOpt a) h2 (hi.extendOpt a)
    exact ⟨c1, by simp only [duS, duE_of_checkE e env c h1 hi.2]; exact hd, hi1⟩
  | .ret e, env, env', c, h, hi => by
    have h1 := checkS_ret h
    have h2 := checkS_ret_env h
    simp only [Mode.strict, Bool.false_eq_true, if_false] at h2
    subst h2
    exact ⟨c, by simp only [duS, duE_of_checkE e env' c h1 hi.2]; rfl, hi⟩
  | .eff e, env, env', c, h, hi => by
    obtain ⟨h1, rfl⟩ := checkS_eff h
    exact ⟨c, by simp only [duS, duE_of_checkE e env' c h1 hi.2]; rfl, hi⟩
  | .pass, env, env', c, h, hi => by
    have := checkS_pass h; subst this
    exact ⟨c, rfl, hi⟩
theorem strict_duB : ∀ (b : Block) (env env' : Env) (c : Scope),
    checkB Mode.strict env b = .ok env' → InvC env c → ∃ c', duB false c b = .ok c' ∧ InvC env' c'
  | .nil, env, env', c, h, hi => by
    have := checkB_nil h; subst this
    exact ⟨c, rfl, hi⟩
  | .cons s b, env, env', c, h, hi => by
    obtain ⟨env1, h1, h2⟩ := checkB_cons h
    obtain ⟨c1, hd1, hi1⟩ := strict_duS s env env1 c h1 hi
    obtain ⟨c2, hd2, hi2⟩ := strict_duB b env1 env' c1 h2 hi1
    exact ⟨c2, by simp only [duB, hd1]; exact hd2, hi2⟩
end

/-! ### … and conversely: the pre-pass *is* the strict discipline -/

def InvD (env : Env) (c : Scope) : Prop :=
  env.term = false ∧ ∀ x, c x = true → env.get x = some true

theorem Env.merge_both {a b : Env} (ha : a.term = false) (hb : b.term = false) {x : Name}
    (h1 : a.get x = some true) (h2 : b.get x = some true) : (a.merge b).get x = some true := by
  unfold Env.merge
  simp [ha, hb, mergeGet, h1, h2]

theorem InvD.extendAll {env : Env} {c : Scope} (h : InvD env c) (ts : List Name) :
    InvD (env.extendAll ts) (c.addAll ts) := by
  refine ⟨by simp [h.1], fun x hx => ?_⟩
  rw [Scope.addAll_get] at hx
  rw [Env.extendAll_get]
  exact hx.imp id (h.2 x)

theorem InvD.extendOpt {env : Env} {c : Scope} (h : InvD env c) (a : Option Name) :
    InvD (env.extendOpt a) (c.addOpt a) := by
  cases a with
  | none => exact h
  | some x => exact h.extendAll [x]

theorem InvD.merge {a b : Env} {c c1 : Scope} (ha : InvD a c) (hb : InvD b c1)
    (hm : ∀ x, c x = true → c1 x = true) : InvD (a.merge b) c :=
  ⟨by simp [Env.merge_term, ha.1], fun x hx => Env.merge_both ha.1 hb.1 (ha.2 x hx) (hb.2 x (hm x hx))⟩

theorem InvD.merge_inter {a b : Env} {c1 c2 : Scope} (ha : InvD a c1) (hb : InvD b c2) :
    InvD (a.merge b) (c1.inter c2) := by
  refine ⟨by simp [Env.merge_term, ha.1], fun x hx => ?_⟩
  simp only [Scope.inter, Bool.and_eq_true] at hx
  exact Env.merge_both ha.1 hb.1 (ha.2 x hx.1) (hb.2 x hx.2)

theorem checkE_of_duE : ∀ (e : Expr) (env : Env) (c : Scope), duE c e = .ok () →
    (∀ x, c x = true → env.get x = some true) → checkE env e = .ok ()
  | .lit, _, _, _, _ => rfl
  | .var x, env, c, h, hs => by
    have hx : c x = true := by
      simp only [duE] at h
      split at h
      · assumption
      · cases h
    simp [checkE, useName, hs x hx]
  | .op a b, env, c, h, hs => by
    simp only [duE] at h
    obtain ⟨_, h1, h2⟩ := bind_ok h
    simp only [checkE, checkE_of_duE a env c h1 hs, checkE_of_duE b env c h2 hs]
    rfl
  | .comp ts it body, env, c, h, hs => by
    simp only [duE] at h
    obtain ⟨_, h1, h2⟩ := bind_ok h
    have hb := checkE_of_duE body (env.extendAll ts) (c.addAll ts) h2 (by
      intro x hx
      rw [Scope.addAll_get] at hx
      rw [Env.extendAll_get]
      exact hx.imp id (hs x))
    simp only [checkE, checkE_of_duE it env c h1 hs, hb]
    rfl

mutual
theorem du_mono_S : ∀ (s : Stmt) (c c' : Scope), duS false c s = .ok c' → ∀ x, c x = true → c' x = true
  | .assign ts e, c, c', h, x, hx => by
    simp only [duS] at h
    obtain ⟨_, _, h⟩ := bind_ok h
    have := pure_ok h; subst this
    rw [Scope.addAll_get]; exact Or.inr hx
  | .if1 cnd t, c, c', h, x, hx => by
    simp only [duS] at h
    obtain ⟨_, _, h⟩ := bind_ok h
    obtain ⟨_, _, h⟩ := bind_ok h
    have := pure_ok h; subst this; exact hx
  | .ite cnd t e, c, c', h, x, hx => by
    simp only [duS, Bool.false_and, Bool.false_eq_true, if_false] at h
    obtain ⟨_, _, h⟩ := bind_ok h
    obtain ⟨o1, h1, h⟩ := bind_ok h
    obtain ⟨o2, h2, h⟩ := bind_ok h
    have := pure_ok h; subst this
    simp only [Scope.inter, Bool.and_eq_true]
    exact ⟨du_mono_B t c o1 h1 x hx, du_mono_B e c o2 h2 x hx⟩
  | .while cnd b, c, c', h, x, hx => by
    simp only [duS] at h
    obtain ⟨_, _, h⟩ := bind_ok h
    obtain ⟨_, _, h⟩ := bind_ok h
    have := pure_ok h; subst this; exact hx
  | .for ts it b, c, c', h, x, hx => by
    simp only [duS] at h
    obtain ⟨_, _, h⟩ := bind_ok h
    obtain ⟨_, _, h⟩ := bind_ok h
    have := pure_ok h; subst this; exact hx
  | .with e a b, c, c', h, x, hx => by
    simp only [duS] at h
    obtain ⟨_, _, h⟩ := bind_ok h
    refine du_mono_B b (c.addOpt a) c' h x ?_
    cases a with
    | none => exact hx
    | some y => simp [Scope.addOpt, Scope.add, hx]
  | .ret e, c, c', h, x, hx => by
    simp only [duS] at h
    obtain ⟨_, _, h⟩ := bind_ok h
    have := pure_ok h; subst this; exact hx
  | .eff e, c, c', h, x, hx => by
    simp only [duS] at h
    obtain ⟨_, _, h⟩ := bind_ok h
    have := pure_ok h; subst this; exact hx
  | .pass, c, c', h, x, hx => by
    simp only [duS] at h
    have := pure_ok h; subst this; exact hx
theorem du_mono_B : ∀ (b : Block) (c c' : Scope), duB false c b = .ok c' → ∀ x, c x = true → c' x = true
  | .nil, c, c', h, x, hx => by
    simp only [duB] at h
    have := pure_ok h; subst this; exact hx
  | .cons s b, c, c', h, x, hx => by
    simp only [duB] at h
    obtain ⟨c1, h1, h2⟩ := bind_ok h
    exact du_mono_B b c1 c' h2 x (du_mono_S s c c1 h1 x hx)
end

mutual
theorem du_strict_S : ∀ (s : Stmt) (env : Env) (c c' : Scope), duS false c s = .ok c' → InvD env c →
    ∃ env', checkS Mode.strict env s = .ok env' ∧ InvD env' c'
  | .assign ts e, env, c, c', h, hi => by
    simp only [duS] at h
    obtain ⟨_, h1, h⟩ := bind_ok h
    have := pure_ok h; subst this
    exact ⟨env.extendAll ts, by simp only [checkS, checkE_of_duE e env c h1 hi.2]; rfl, hi.extendAll ts⟩
  | .if1 cnd t, env, c, c', h, hi => by
    simp only [duS] at h
    obtain ⟨_, h1, h⟩ := bind_ok h
    obtain ⟨c1, h2, h⟩ := bind_ok h
    have := pure_ok h; subst this
    obtain ⟨ift, hc, hi1⟩ := du_strict_B t env c c1 h2 hi
    exact ⟨env.merge ift, by simp only [checkS, checkE_of_duE cnd env c h1 hi.2, hc]; rfl,
      hi.merge hi1 (du_mono_B t c c1 h2)⟩
  | .ite cnd t e, env, c, c', h, hi => by
    simp only [duS, Bool.false_and, Bool.false_eq_true, if_false] at h
    obtain ⟨_, h1, h⟩ := bind_ok h
    obtain ⟨o1, h2, h⟩ := bind_ok h
    obtain ⟨o2, h3, h⟩ := bind_ok h
    have := pure_ok h; subst this
    obtain ⟨ift, hc1, hi1⟩ := du_strict_B t env c o1 h2 hi
    obtain ⟨iff, hc2, hi2⟩ := du_strict_B e env c o2 h3 hi
    exact ⟨ift.merge iff, by simp only [checkS, checkE_of_duE cnd env c h1 hi.2, hc1, hc2]; rfl,
      hi1.merge_inter hi2⟩
  | .while cnd b, env, c, c', h, hi => by
    simp only [duS] at h
    obtain ⟨_, h1, h⟩ := bind_ok h
    obtain ⟨c1, h2, h⟩ := bind_ok h
    have := pure_ok h; subst this
    obtain ⟨body, hc, hi1⟩ := du_strict_B b env c c1 h2 hi
    have hi' : InvD (env.merge body) c := hi.merge hi1 (du_mono_B b c c1 h2)
    have hE := checkE_of_duE cnd _ c h1 hi'.2
    refine ⟨env.merge body, ?_, hi'⟩
    simp only [checkS, hc]
    change (checkE (env.merge body) cnd >>= fun _ => pure (env.merge body)) = Except.ok (env.merge body)
    rw [hE]; rfl
  | .for ts it b, env, c, c', h, hi => by
    simp only [duS] at h
    obtain ⟨_, h1, h⟩ := bind_ok h
    obtain ⟨c1, h2, h⟩ := bind_ok h
    have := pure_ok h; subst this
    obtain ⟨body, hc, hi1⟩ := du_strict_B b (env.extendAll ts) (c.addAll ts) c1 h2 (hi.extendAll ts)
    refine ⟨env.merge body, by simp only [checkS, checkE_of_duE it env c h1 hi.2, hc]; rfl, ?_⟩
    refine hi.merge hi1 fun x hx => du_mono_B b _ c1 h2 x ?_
    rw [Scope.addAll_get]; exact Or.inr hx
  | .with e a b, env, c, c', h, hi => by
    simp only [duS] at h
    obtain ⟨_, h1, h⟩ := bind_ok h
    obtain ⟨env', hc, hi1⟩ := du_strict_B b (env.extendOpt a) (c.addOpt a) c' h (hi.extendOpt a)
    exact ⟨env', by simp only [checkS, checkE_of_duE e env c h1 hi.2]; exact hc, hi1⟩
  | .ret e, env, c, c', h, hi => by
    simp only [duS] at h
    obtain ⟨_, h1, h⟩ := bind_ok h
    have := pure_ok h; subst this
    exact ⟨env, by simp only [checkS, checkE_of_duE e env c h1 hi.2]; rfl, hi⟩
  | .eff e, env, c, c', h, hi => by
    simp only [duS] at h
    obtain ⟨_, h1, h⟩ := bind_ok h
    have := pure_ok h; subst this
    exact ⟨env, by simp only [checkS, checkE_of_duE e env c h1 hi.2]; rfl, hi⟩
  | .pass, env, c, c', h, hi => by
    simp only [duS] at h
    have := pure_ok h; subst this
    exact ⟨env, rfl, hi⟩
theorem du_strict_B : ∀ (b : Block) (env : Env) (c c' : Scope), duB false c b = .ok c' → InvD env c →
    ∃ env', checkB Mode.strict env b = .ok env' ∧ InvD env' c'
  | .nil, env, c, c', h, hi => by
    simp only [duB] at h
    have := pure_ok h; subst this
    exact ⟨env, rfl, hi⟩
  | .cons s b, env, c, c', h, hi => by
    simp only [duB] at h
    obtain ⟨c1, h1, h2⟩ := bind_ok h
    obtain ⟨env1, hc1, hi1⟩ := du_strict_S s env c c1 h1 hi
    obtain ⟨env', hc2, hi2⟩ := du_strict_B b env1 c1 c' h2 hi1
    exact ⟨env', by simp only [checkB, hc1]; exact hc2, hi2⟩
end

/-! ### initial environment -/

theorem Inv_init (args : List Name) : Inv (Env.init args) args := by
  have h : Inv (Env.empty false) [] := ⟨rfl, fun x hx => by simp [Env.empty] at hx⟩
  simpa [Env.init] using h.extendAll args

theorem InvC_init (args : List Name) : InvC (Env.init args) (Scope.ofList args) := by
  have h : InvC (Env.empty false) (fun _ => false) := ⟨rfl, fun x hx => by simp [Env.empty] at hx⟩
  exact h.extendAll args

theorem InvD_init (args : List Name) : InvD (Env.init args) (Scope.ofList args) := by
  have h : InvD (Env.empty false) (fun _ => false) := ⟨rfl, fun x hx => by simp at hx⟩
  exact h.extendAll args

/-! ### unpacking the front end -/

theorem frontend_ok {m : Mode} {p : Func} (h : frontend m p = .ok ()) :
    (∃ env', checkB m (Env.init p.args) p.body = .ok env') ∧ (reachB true p.body).1 = false := by
  unfold frontend at h
  obtain ⟨env', h1, h2⟩ := bind_ok h
  refine ⟨⟨env', h1⟩, ?_⟩
  unfold reachCheck at h2
  simp only [] at h2
  split at h2
  · cases h2
  · split at h2
    · cases h2
    · rename_i h3; simpa using h3

/-- the invariant argument, for every mode/run restriction pair it supports -/
theorem safe_of_frontend (m : Mode) (z : Bool) (hm : m.forLeak = false ∨ z = true) (p : Func)
    (h : frontend m p = .ok ()) (fuel : Nat) (ch : List Nat) : (call z fuel p ch).bad = false := by
  obtain ⟨⟨env', h1⟩, h2⟩ := frontend_ok h
  have hs := (sound m z hm fuel).2.1 (Env.init p.args) env' p.args p.body ch h1 (Inv_init p.args)
  unfold call
  cases hr : execB z fuel p.args p.body ch with
  | normal σ' ch' =>
    have := (reach_normal z fuel).2 p.args p.body ch σ' ch' hr
    rw [h2] at this; cases this
  | unbound x => rw [hr] at hs; exact hs.elim
  | returned => rfl
  | excluded => rfl
  | timeout => rfl

/-- the interpreter's pre-pass succeeds exactly on the programs the strict discipline lets through -/
theorem prepassLegacy_iff_strict (p : Func) :
    prepassLegacy p = .ok () ↔ ∃ env', checkB Mode.strict (Env.init p.args) p.body = .ok env' := by
  constructor
  · intro h
    unfold prepassLegacy prepassWith at h
    cases hd : duB false (Scope.ofList p.args) p.body with
    | error x => rw [hd] at h; cases h
    | ok c' =>
      obtain ⟨env', hc, _⟩ := du_strict_B p.body (Env.init p.args) _ c' hd (InvD_init p.args)
      exact ⟨env', hc⟩
  · rintro ⟨env', hc⟩
    obtain ⟨c', hd, _⟩ := strict_duB p.body (Env.init p.args) env' _ hc (InvC_init p.args)
    simp [prepassLegacy, prepassWith, hd]

theorem frontend_strict_iff (p : Func) :
    frontend Mode.strict p = .ok () ↔ prepassLegacy p = .ok () ∧ reachCheck p = .ok () := by
  rw [prepassLegacy_iff_strict]
  constructor
  · intro h
    unfold frontend at h
    obtain ⟨env', h1, h2⟩ := bind_ok h
    exact ⟨⟨env', h1⟩, h2⟩
  · rintro ⟨⟨env', h1⟩, h2⟩
    unfold frontend
    rw [h1]; exact h2



/-! ### the repaired front end implies the repaired pre-pass succeeds -/

theorem Env.merge_cases {a b : Env} {x : Name} (h : (a.merge b).get x = some true) :
    (a.term = false ∧ b.term = false ∧ a.get x = some true ∧ b.get x = some true) ∨
    (a.term = true ∧ b.term = false ∧ b.get x = some true) ∨
    (a.term = false ∧ b.term = true ∧ a.get x = some true) := by
  unfold Env.merge at h
  cases ha : a.term <;> cases hb : b.term <;> simp [ha, hb, Env.empty] at h
  · exact Or.inl ⟨rfl, rfl, mergeGet_true h⟩
  · exact Or.inr (Or.inr ⟨rfl, rfl, h⟩)
  · exact Or.inr (Or.inl ⟨rfl, rfl, h⟩)

mutual
/-- a terminated environment stays terminated -/
theorem term_preserved_S : ∀ (m : Mode) (s : Stmt) (env env' : Env),
    checkS m env s = .ok env' → env.term = true → env'.term = true
  | m, .assign ts e, env, env', h, ht => by
    obtain ⟨_, rfl⟩ := checkS_assign h; simpa using ht
  | m, .if1 c t, env, env', h, ht => by
    obtain ⟨_, ift, h2, rfl⟩ := checkS_if1 h
    simp [Env.merge_term, ht, term_preserved_B m t env ift h2 ht]
  | m, .ite c t e, env, env', h, ht => by
    obtain ⟨_, ift, iff, h2, h3, rfl⟩ := checkS_ite h
    simp [Env.merge_term, term_preserved_B m t env ift h2 ht, term_preserved_B m e env iff h3 ht]
  | m, .while c b, env, env', h, ht => by
    obtain ⟨body, h1, _, rfl⟩ := checkS_while h
    simp [Env.merge_term, ht, term_preserved_B m b env body h1 ht]
  | m, .for ts it b, env, env', h, ht => by
    obtain ⟨_, body, h2, rfl⟩ := checkS_for h
    have hb := term_preserved_B m b (env.extendAll ts) body h2 (by simpa using ht)
    cases m.forLeak <;> simp [Env.merge_term, ht, hb]
  | m, .with e a b, env, env', h, ht => by
    obtain ⟨_, h2⟩ := checkS_with h
    refine term_preserved_B m b (env.extendOpt a) env' h2 ?_
    cases a with
    | none => exact ht
    | some x => simpa [Env.extendOpt] using ht
  | m, .ret e, env, env', h, ht => by
    have := checkS_ret_env h; subst this
    cases m.absorb <;> simp [Env.empty, ht]
  | m, .eff e, env, env', h, ht => by
    obtain ⟨_, rfl⟩ := checkS_eff h; exact ht
  | m, .pass, env, env', h, ht => by
    have := checkS_pass h; subst this; exact ht
theorem term_preserved_B : ∀ (m : Mode) (b : Block) (env env' : Env),
    checkB m env b = .ok env' → env.term = true → env'.term = true
  | m, .nil, env, env', h, ht => by
    have := checkB_nil h; subst this; exact ht
  | m, .cons s b, env, env', h, ht => by
    obtain ⟨env1, h1, h2⟩ := checkB_cons h
    exact term_preserved_B m b env1 env' h2 (term_preserved_S m s env env1 h1 ht)
end

mutual
/-- from a live environment, the checker's `terminated` flag says exactly that control cannot reach
the end (the front end and `_falls_through` agree) -/
theorem term_iff_falls_S : ∀ (s : Stmt) (env env' : Env),
    checkS Mode.real env s = .ok env' → env.term = false → env'.term = !fallsS s
  | .assign ts e, env, env', h, hl => by
    obtain ⟨_, rfl⟩ := checkS_assign h; simpa [fallsS] using hl
  | .if1 c t, env, env', h, hl => by
    obtain ⟨_, ift, _, rfl⟩ := checkS_if1 h
    simp [Env.merge_term, hl, fallsS]
  | .ite c t e, env, env', h, hl => by
    obtain ⟨_, ift, iff, h2, h3, rfl⟩ := checkS_ite h
    simp [Env.merge_term, fallsS, term_iff_falls_B t env ift h2 hl, term_iff_falls_B e env iff h3 hl]
  | .while c b, env, env', h, hl => by
    obtain ⟨body, _, _, rfl⟩ := checkS_while h
    simp [Env.merge_term, hl, fallsS]
  | .for ts it b, env, env', h, hl => by
    obtain ⟨_, body, _, rfl⟩ := checkS_for h
    simp [Env.merge_term, hl, fallsS, Mode.real]
  | .with e a b, env, env', h, hl => by
    obtain ⟨_, h2⟩ := checkS_with h
    simp only [fallsS]
    refine term_iff_falls_B b (env.extendOpt a) env' h2 ?_
    cases a with
    | none => exact hl
    | some x => simpa [Env.extendOpt] using hl
  | .ret e, env, env', h, hl => by
    have := checkS_ret_env h; subst this
    simp [Mode.real, Env.empty, fallsS]
  | .eff e, env, env', h, hl => by
    obtain ⟨_, rfl⟩ := checkS_eff h; simpa [fallsS] using hl
  | .pass, env, env', h, hl => by
    have := checkS_pass h; subst this; simpa [fallsS] using hl
theorem term_iff_falls_B : ∀ (b : Block) (env env' : Env),
    checkB Mode.real env b = .ok env' → env.term = false → env'.term = !fallsB b
  | .nil, env, env', h, hl => by
    have := checkB_nil h; subst this; simpa [fallsB] using hl
  | .cons s b, env, env', h, hl => by
    obtain ⟨env1, h1, h2⟩ := checkB_cons h
    have hs := term_iff_falls_S s env env1 h1 hl
    simp only [fallsB]
    cases hf : fallsS s with
    | true =>
      rw [hf] at hs
      simpa using term_iff_falls_B b env1 env' h2 (by simpa using hs)
    | false =>
      rw [hf] at hs
      simpa using term_preserved_B Mode.real b env1 env' h2 (by simpa using hs)
end

/-- every name the checker marks defined is in the pre-pass context (no liveness condition) -/
def InvR (env : Env) (c : Scope) : Prop := ∀ x, env.get x = some true → c x = true

theorem InvR.extendAll {env : Env} {c : Scope} (h : InvR env c) (ts : List Name) :
    InvR (env.extendAll ts) (c.addAll ts) := by
  intro x hx
  rw [Env.extendAll_get] at hx
  rw [Scope.addAll_get]
  exact hx.imp id (h x)

theorem InvR.extendOpt {env : Env} {c : Scope} (h : InvR env c) (a : Option Name) :
    InvR (env.extendOpt a) (c.addOpt a) := by
  cases a with
  | none => exact h
  | some x => exact h.extendAll [x]

/-- merging with something checked from the same (possibly extended) start: the result's defined
names are defined at the start -/
theorem InvR.merge_start {a b : Env} {c : Scope} (h : InvR a c) (hb : a.term = true → b.term = true) :
    InvR (a.merge b) c := by
  intro x hx
  rcases Env.merge_cases hx with ⟨_, _, h1, _⟩ | ⟨ht, hf, _⟩ | ⟨_, _, h1⟩
  · exact h x h1
  · rw [hb ht] at hf; cases hf
  · exact h x h1

mutual
theorem real_duS : ∀ (s : Stmt) (env env' : Env) (c : Scope),
    checkS Mode.real env s = .ok env' → InvR env c → ∃ c', duS true c s = .ok c' ∧ InvR env' c'
  | .assign ts e, env, env', c, h, hi => by
    obtain ⟨h1, rfl⟩ := checkS_assign h
    exact ⟨c.addAll ts, by simp only [duS, duE_of_checkE e env c h1 hi]; rfl, hi.extendAll ts⟩
  | .if1 cnd t, env, env', c, h, hi => by
    obtain ⟨h1, ift, h2, rfl⟩ := checkS_if1 h
    obtain ⟨c1, hd, _⟩ := real_duB t env ift c h2 hi
    exact ⟨c, by simp only [duS, duE_of_checkE cnd env c h1 hi, hd]; rfl,
      hi.merge_start (term_preserved_B _ t env ift h2)⟩
  | .ite cnd t e, env, env', c, h, hi => by
    obtain ⟨h1, ift, iff, h2, h3, rfl⟩ := checkS_ite h
    obtain ⟨c1, hd1, hi1⟩ := real_duB t env ift c h2 hi
    obtain ⟨c2, hd2, hi2⟩ := real_duB e env iff c h3 hi
    refine ⟨_, by simp only [duS, duE_of_checkE cnd env c h1 hi, hd1, hd2]; rfl, ?_⟩
    intro x hx
    cases hl : env.term with
    | true =>
      have t1 := term_preserved_B _ t env ift h2 hl
      have t2 := term_preserved_B _ e env iff h3 hl
      rcases Env.merge_cases hx with ⟨f1, _⟩ | ⟨_, f2, _⟩ | ⟨f1, _⟩
      · rw [t1] at f1; cases f1
      · rw [t2] at f2; cases f2
      · rw [t1] at f1; cases f1
    | false =>
      have t1 := term_iff_falls_B t env ift h2 hl
      have t2 := term_iff_falls_B e env iff h3 hl
      rcases Env.merge_cases hx with ⟨f1, f2, x1, x2⟩ | ⟨f1, f2, x2⟩ | ⟨f1, f2, x1⟩
      · rw [t1] at f1; rw [t2] at f2
        have g1 : fallsB t = true := by simpa using f1
        have g2 : fallsB e = true := by simpa using f2
        simp [g1, g2, Scope.inter, hi1 x x1, hi2 x x2]
      · rw [t1] at f1; rw [t2] at f2
        have g1 : fallsB t = false := by simpa using f1
        have g2 : fallsB e = true := by simpa using f2
        simp [g1, g2, hi2 x x2]
      · rw [t1] at f1; rw [t2] at f2
        have g1 : fallsB t = true := by simpa using f1
        have g2 : fallsB e = false := by simpa using f2
        simp [g1, g2, hi1 x x1]
  | .while cnd b, env, env', c, h, hi => by
    obtain ⟨body, h1, h2, rfl⟩ := checkS_while h
    obtain ⟨c1, hd, _⟩ := real_duB b env body c h1 hi
    have hi' : InvR (env.merge body) c := hi.merge_start (term_preserved_B _ b env body h1)
    exact ⟨c, by simp only [duS, duE_of_checkE cnd _ c h2 hi', hd]; rfl, hi'⟩
  | .for ts it b, env, env', c, h, hi => by
    obtain ⟨h1, body, h2, rfl⟩ := checkS_for h
    obtain ⟨c1, hd, _⟩ := real_duB b (env.extendAll ts) body (c.addAll ts) h2 (hi.extendAll ts)
    refine ⟨c, by simp only [duS, duE_of_checkE it env c h1 hi, hd]; rfl, ?_⟩
    have := hi.merge_start (b := body) fun ht =>
      term_preserved_B _ b (env.extendAll ts) body h2 (by simpa using ht)
    simpa [Mode.real] using this
  | .with e a b, env, env', c, h, hi => by
    obtain ⟨h1, h2⟩ := checkS_with h
    obtain ⟨c1, hd, hi1⟩ := real_duB b (env.extendOpt a) env' (c.addOpt a) h2 (hi.extendOpt a)
    exact ⟨c1, by simp only [duS, duE_of_checkE e env c h1 hi]; exact hd, hi1⟩
  | .ret e, env, env', c, h, hi => by
    have h1 := checkS_ret h
    have h2 := checkS_ret_env h
    subst h2
    exact ⟨c, by simp only [duS, duE_of_checkE e env c h1 hi]; rfl, fun x hx => by simp [Mode.real, Env.empty] at hx⟩
  | .eff e, env, env', c, h, hi => by
    obtain ⟨h1, rfl⟩ := checkS_eff h
    exact ⟨c, by simp only [duS, duE_of_checkE e env' c h1 hi]; rfl, hi⟩
  | .pass, env, env', c, h, hi => by
    have := checkS_pass h; subst this
    exact ⟨c, rfl, hi⟩
theorem real_duB : ∀ (b : Block) (env env' : Env) (c : Scope),
    checkB Mode.real env b = .ok env' → InvR env c → ∃ c', duB true c b = .ok c' ∧ InvR env' c'
  | .nil, env, env', c, h, hi => by
    have := checkB_nil h; subst this
    exact ⟨c, rfl, hi⟩
  | .cons s b, env, env', c, h, hi => by
    obtain ⟨env1, h1, h2⟩ := checkB_cons h
    obtain ⟨c1, hd1, hi1⟩ := real_duS s env env1 c h1 hi
    obtain ⟨c2, hd2, hi2⟩ := real_duB b env1 env' c1 h2 hi1
    exact ⟨c2, by simp only [duB, hd1]; exact hd2, hi2⟩
end

/-- **the pre-pass succeeds on everything the front end accepts** -/
theorem prepass_ok_of_frontend {p : Func} (h : frontend Mode.real p = .ok ()) : prepass p = .ok () := by
  obtain ⟨⟨env', h1⟩, _⟩ := frontend_ok h
  obtain ⟨c', hd, _⟩ := real_duB p.body (Env.init p.args) env' (Scope.ofList p.args) h1 (InvC_init p.args).2
  simp [prepass, prepassWith, hd]

end Fpy.Skel
