/-
Fast2Sum (Dekker) on the integer model.

All quantities live on one grid (the smaller of the two operand exponents), so the operands, their
sum, the rounded sum and the error terms are integers.  `N` is "round to nearest with `p` digits"
on such integers, known only through three properties (`small`, `near`, `even`) that
`Spec.roundQuot` has for both nearest modes (proved below for `rndI`).
-/
import Fpy.Proof.Round
namespace Fpy.C20
open Fpy Fpy.Spec

theorem abs_mul_lt_self (G : Nat) (x : Int) (h : ((G : Int) * x).natAbs < G) : x = 0 := by
  by_cases hx : x = 0
  · exact hx
  · exfalso
    have e : ((G : Int) * x).natAbs = G * x.natAbs := by rw [Int.natAbs_mul]; simp
    have h1 : 1 ≤ x.natAbs := by omega
    have h2 : G * 1 ≤ G * x.natAbs := Nat.mul_le_mul_left G h1
    omega

theorem pow_lt_four (x : Nat) (h : 2 ^ x < 4) : x ≤ 1 := by
  match x with
  | 0 => omega
  | 1 => omega
  | n + 2 =>
    have e : 2 ^ (n + 2) = 4 * 2 ^ n := by rw [Nat.pow_add]; omega
    have : 0 < 2 ^ n := Nat.pow_pos (by decide)
    omega

/-- the rounding error is at most `|B|` when `A` lies on the grid of the rounded sum -/
theorem err_le_of_grid (G : Nat) (A B s q m : Int) (hs : s = (G : Int) * q) (hm : A = (G : Int) * m)
    (hd : 2 * (A + B - s).natAbs ≤ G) : (A + B - s).natAbs ≤ B.natAbs := by
  by_cases hb2 : 2 * B.natAbs < G
  · have e : (G : Int) * (q - m) = s - A := by rw [hs, hm, Int.mul_sub]
    have hlt : ((G : Int) * (q - m)).natAbs < G := by rw [e]; omega
    have hqm := abs_mul_lt_self G (q - m) hlt
    have : s = A := by rw [hs, hm]; congr 1; omega
    rw [this]; omega
  · omega

theorem fast2sum_int (p : Nat) (hp : 1 ≤ p) (N : Int → Int)
    (small : ∀ S : Int, S.natAbs < 2 ^ p → N S = S)
    (near : ∀ (S : Int) (k : Nat), 1 ≤ k → 2 ^ p * 2 ^ k ≤ 2 * S.natAbs → S.natAbs < 2 ^ p * 2 ^ k →
        ∃ q : Int, N S = ((2 ^ k : Nat) : Int) * q ∧ 2 * (S - N S).natAbs ≤ 2 ^ k)
    (even : ∀ S m : Int, S = 2 * m → 2 ^ p ≤ S.natAbs → S.natAbs < 2 * 2 ^ p → N S = S)
    (A B a0 : Int) (ja : Nat) (hA : A = a0 * ((2 ^ ja : Nat) : Int)) (ha0 : a0.natAbs < 2 ^ p)
    (hB : B.natAbs < 2 ^ p) (hAB : B.natAbs ≤ A.natAbs) :
    N (A + B) + N (B - N (N (A + B) - A)) = A + B ∧
    N (N (A + B) - A) = N (A + B) - A ∧ N (B - N (N (A + B) - A)) = A + B - N (A + B) := by
  have hP : 0 < 2 ^ p := Nat.pow_pos (by decide)
  have hJ : 0 < 2 ^ ja := Nat.pow_pos (by decide)
  have h0 : N 0 = 0 := small 0 (by simpa using hP)
  by_cases hS : (A + B).natAbs < 2 ^ p
  · rw [small _ hS]
    have e1 : A + B - A = B := by omega
    rw [e1, small B hB]
    have e2 : B - B = 0 := by omega
    rw [e2, h0]; omega
  · have hne : (A + B).natAbs ≠ 0 := by omega
    obtain ⟨hL1, hL2⟩ := (bitLength_eq_iff (A + B).natAbs (bitLength (A + B).natAbs) (bitLength_pos hne)).1 rfl
    have hLp : p < bitLength (A + B).natAbs := by
      have := (bitLength_le_iff (A + B).natAbs p); omega
    generalize bitLength (A + B).natAbs = L at *
    obtain ⟨k, hk⟩ : ∃ k, L = p + k := ⟨L - p, by omega⟩
    have hk1 : 1 ≤ k := by omega
    subst hk
    have e2L : 2 ^ (p + k) = 2 ^ p * 2 ^ k := Nat.pow_add 2 p k
    have e2L1 : 2 * 2 ^ (p + k - 1) = 2 ^ p * 2 ^ k := by rw [← e2L]; exact (two_pow_pred (p + k) (by omega)).symm
    obtain ⟨q, hq, hd⟩ := near (A + B) k hk1 (by omega) (by omega)
    have hAabs : A.natAbs = a0.natAbs * 2 ^ ja := by rw [hA, Int.natAbs_mul]; simp
    have hAle : a0.natAbs * 2 ^ ja + 2 ^ ja ≤ 2 ^ p * 2 ^ ja := by
      have h1 : (a0.natAbs + 1) * 2 ^ ja ≤ 2 ^ p * 2 ^ ja := Nat.mul_le_mul_right _ (by omega)
      rw [Nat.add_mul, Nat.one_mul] at h1; exact h1
    have hGk : 2 ^ k = 2 * 2 ^ (k - 1) := two_pow_pred k hk1
    have hPp : 2 ^ p = 2 * 2 ^ (p - 1) := two_pow_pred p hp
    -- Claim 1: the error is at most |B|
    have hD : (A + B - N (A + B)).natAbs ≤ B.natAbs := by
      by_cases hj : k ≤ ja
      · have ej : 2 ^ ja = 2 ^ k * 2 ^ (ja - k) := by rw [← Nat.pow_add]; congr 1; omega
        have hm : A = ((2 ^ k : Nat) : Int) * (a0 * ((2 ^ (ja - k) : Nat) : Int)) := by
          rw [hA, ej, Int.natCast_mul]; grind
        exact err_le_of_grid (2 ^ k) A B (N (A + B)) q _ hq hm hd
      · have eG : 2 ^ k = 2 ^ ja * 2 ^ (k - ja) := by rw [← Nat.pow_add]; congr 1; omega
        have hX : 2 ^ (k - ja) < 4 := by
          have hlt : 2 ^ p * 2 ^ k < 4 * (2 ^ p * 2 ^ ja) := by omega
          rw [eG, ← Nat.mul_assoc, Nat.mul_comm 4] at hlt
          exact Nat.lt_of_mul_lt_mul_left hlt
        have hx1 : k - ja = 1 := by have := pow_lt_four _ hX; omega
        have eG2 : 2 ^ k = 2 * 2 ^ ja := by rw [eG, hx1]; omega
        have eGP : 2 ^ p * 2 ^ k = 2 * (2 ^ p * 2 ^ ja) := by rw [eG2, Nat.mul_left_comm]
        omega
    -- Claim 3 first: the last operation is exact
    have hZD : B - (N (A + B) - A) = A + B - N (A + B) := by omega
    -- Claim 2: `s - a` is representable
    have hZ : N (N (A + B) - A) = N (A + B) - A := by
      by_cases hz : (N (A + B) - A).natAbs < 2 ^ p
      · exact small _ hz
      · by_cases hj0 : ja = 0
        · -- |A| < 2^p, so the sum has p+1 digits, the grid spacing is 2 and |Z| = 2^p
          subst hj0
          have hk1' : k = 1 := by
            have hlt : 2 ^ p * 2 ^ k < 2 ^ p * 4 := by omega
            have := Nat.lt_of_mul_lt_mul_left hlt
            have h4 : (4 : Nat) = 2 ^ 2 := rfl
            rw [h4] at this
            have := (Nat.pow_lt_pow_iff_right (by decide : 1 < 2)).1 this
            omega
          subst hk1'
          have hzabs : (N (A + B) - A).natAbs = 2 ^ p := by omega
          by_cases hzs : 0 ≤ N (A + B) - A
          · exact even _ ((2 ^ (p - 1) : Nat) : Int) (by omega) (by omega) (by omega)
          · exact even _ (-((2 ^ (p - 1) : Nat) : Int)) (by omega) (by omega) (by omega)
        · have eJ : 2 ^ ja = 2 * 2 ^ (ja - 1) := two_pow_pred ja (by omega)
          have hAe : A = 2 * (a0 * ((2 ^ (ja - 1) : Nat) : Int)) := by
            rw [hA, eJ, Int.natCast_mul]; grind
          have hse : N (A + B) = 2 * (((2 ^ (k - 1) : Nat) : Int) * q) := by
            rw [hq, hGk, Int.natCast_mul]; grind
          refine even _ (((2 ^ (k - 1) : Nat) : Int) * q - a0 * ((2 ^ (ja - 1) : Nat) : Int)) ?_ (by omega) (by omega)
          rw [Int.mul_sub, ← hse, ← hAe]
    have hT : N (B - N (N (A + B) - A)) = A + B - N (A + B) := by
      rw [hZ, hZD]; exact small _ (by omega)
    exact ⟨by rw [hT]; omega, hZ, hT⟩

/-! ### the concrete rounding: `Spec.roundQuot` to `p` digits on signed integers -/

/-- round the integer `S` to `p` significant digits under mode `rm` -/
def rndI (p : Nat) (rm : RM) (S : Int) : Int :=
  if S.natAbs < 2 ^ p then S
  else
    (if S < 0 then -1 else 1) *
      ((roundQuot rm (decide (S < 0)) S.natAbs (bitLength S.natAbs - p) * 2 ^ (bitLength S.natAbs - p) : Nat) : Int)

theorem rndI_small (p : Nat) (rm : RM) (S : Int) (h : S.natAbs < 2 ^ p) : rndI p rm S = S := by
  unfold rndI; simp [h]

/-- a value whose digits below the rounding position are zero is returned unchanged -/
theorem rndI_exact (p : Nat) (rm : RM) (S : Int) (h : S.natAbs % 2 ^ (bitLength S.natAbs - p) = 0) :
    rndI p rm S = S := by
  unfold rndI
  by_cases hs : S.natAbs < 2 ^ p
  · simp [hs]
  · simp only [hs, if_false]
    rw [roundQuot_exact rm _ _ _ h, Nat.div_mul_cancel (Nat.dvd_of_mod_eq_zero h)]
    by_cases hn : S < 0
    · simp only [hn, if_true]; omega
    · simp only [hn, if_false]; omega

theorem bitLength_of_binade (c p k : Nat) (h1 : 2 ^ p * 2 ^ k ≤ 2 * c) (h2 : c < 2 ^ p * 2 ^ k) (hk : 1 ≤ p + k) :
    bitLength c = p + k := by
  rw [bitLength_eq_iff c (p + k) hk]
  have e := two_pow_pred (p + k) hk
  rw [Nat.pow_add] at e
  rw [Nat.pow_add]
  omega

theorem rndI_near (p : Nat) (rm : RM) (hrm : rm = .rne ∨ rm = .rna) (S : Int) (k : Nat) (hk : 1 ≤ k)
    (h1 : 2 ^ p * 2 ^ k ≤ 2 * S.natAbs) (h2 : S.natAbs < 2 ^ p * 2 ^ k) :
    ∃ q : Int, rndI p rm S = ((2 ^ k : Nat) : Int) * q ∧ 2 * (S - rndI p rm S).natAbs ≤ 2 ^ k := by
  have hL := bitLength_of_binade S.natAbs p k h1 h2 (by omega)
  have hP : 0 < 2 ^ p := Nat.pow_pos (by decide)
  have hGk := two_pow_pred k hk
  have hs : ¬ S.natAbs < 2 ^ p := by
    have : 2 ^ p * 2 ^ k = 2 * (2 ^ p * 2 ^ (k - 1)) := by rw [hGk]; exact Nat.mul_left_comm _ _ _
    have : 2 ^ p * 1 ≤ 2 ^ p * 2 ^ (k - 1) := Nat.mul_le_mul_left _ (Nat.pow_pos (by decide))
    omega
  have hkk : bitLength S.natAbs - p = k := by omega
  have hn := roundQuot_nearest rm hrm (decide (S < 0)) S.natAbs k
  unfold rndI
  simp only [hs, if_false, hkk]
  generalize roundQuot rm (decide (S < 0)) S.natAbs k = Q at *
  generalize 2 ^ k = G at *
  by_cases hneg : S < 0
  · simp only [hneg, if_true]
    refine ⟨-(Q : Int), ?_, ?_⟩
    · rw [Int.natCast_mul]; grind
    · have : ((Q * G : Nat) : Int) = (Q : Int) * G := Int.natCast_mul _ _
      omega
  · simp only [hneg, if_false]
    refine ⟨(Q : Int), ?_, ?_⟩
    · rw [Int.natCast_mul]; grind
    · have : ((Q * G : Nat) : Int) = (Q : Int) * G := Int.natCast_mul _ _
      omega

theorem rndI_even (p : Nat) (hp : 1 ≤ p) (rm : RM) (S m : Int) (h : S = 2 * m) (h1 : 2 ^ p ≤ S.natAbs)
    (h2 : S.natAbs < 2 * 2 ^ p) : rndI p rm S = S := by
  apply rndI_exact
  have hL : bitLength S.natAbs = p + 1 := bitLength_of_binade S.natAbs p 1 (by omega) (by omega) (by omega)
  rw [hL]
  have : p + 1 - p = 1 := by omega
  rw [this]
  omega

/-- **Fast2Sum on the integer model**, both nearest modes: with `|B| ≤ |A|`, `A` a `p`-digit significand
times a power of two and `|B| < 2^p` on the common grid, `s = RN(A+B)`, `z = RN(s−A)`, `t = RN(B−z)` satisfy
`z = s − A` exactly, `t = A + B − s` exactly (the rounding error is representable), hence `s + t = A + B`. -/
theorem fast2sum_rndI (p : Nat) (hp : 1 ≤ p) (rm : RM) (hrm : rm = .rne ∨ rm = .rna)
    (A B a0 : Int) (ja : Nat) (hA : A = a0 * ((2 ^ ja : Nat) : Int)) (ha0 : a0.natAbs < 2 ^ p)
    (hB : B.natAbs < 2 ^ p) (hAB : B.natAbs ≤ A.natAbs) :
    rndI p rm (A + B) + rndI p rm (B - rndI p rm (rndI p rm (A + B) - A)) = A + B ∧
    rndI p rm (rndI p rm (A + B) - A) = rndI p rm (A + B) - A ∧
    rndI p rm (B - rndI p rm (rndI p rm (A + B) - A)) = A + B - rndI p rm (A + B) :=
  fast2sum_int p hp (rndI p rm) (rndI_small p rm) (rndI_near p rm hrm) (rndI_even p hp rm) A B a0 ja hA ha0 hB hAB

end Fpy.C20
