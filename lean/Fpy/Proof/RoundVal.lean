/-
Helper lemmas for the value-level statement of C01 (core Lean only).

Part 1 (this file): facts about the SPECIFICATION `Spec.roundVal` alone, for an arbitrary real
(rational) operand: it is one of the two grid neighbours `⌊·⌋`, `⌈·⌉`, it is the operand itself
exactly on the grid, nearest modes minimise the distance over the whole grid, directed modes
point where their names say; and the bridge `roundInt_frac` from the integer-level
`Spec.roundQuot`/`roundDiv` (quotient + remainder comparisons) to `roundVal` (floor/ceil of a
rational).
-/
import Fpy.Proof.Exact
import Fpy.Spec.Rep
namespace Fpy.C01v
open Fpy Fpy.Spec

/-! ### rational helpers -/

theorem floor_eq {t : Rat} {z : Int} (h1 : (z : Rat) ≤ t) (h2 : t < (z : Rat) + 1) : t.floor = z := by
  apply Int.le_antisymm
  · have : t.floor < z + 1 := Rat.floor_lt_iff.2 (by rw [Rat.intCast_add]; exact h2)
    omega
  · exact Rat.le_floor_iff.2 h1

theorem ceil_eq {t : Rat} {z : Int} (h1 : (z : Rat) - 1 < t) (h2 : t ≤ (z : Rat)) : t.ceil = z := by
  apply Int.le_antisymm
  · exact Rat.ceil_le_iff.2 h2
  · have : z - 1 < t.ceil := Rat.lt_ceil_iff.2 (by rw [Rat.intCast_sub]; exact h1)
    omega

/-- floor and ceiling enclose `t` and are equal or adjacent -/
theorem fc_facts (t : Rat) :
    (t.floor : Rat) ≤ t ∧ t < (t.floor : Rat) + 1 ∧ t ≤ (t.ceil : Rat) ∧ (t.ceil : Rat) - 1 < t ∧
    (t.ceil = t.floor ∨ t.ceil = t.floor + 1) := by
  have h1 := Rat.floor_le t
  have h2 : t < (t.floor : Rat) + 1 := by have := Rat.lt_floor_add_one t; rwa [Rat.intCast_add] at this
  have h3 : t ≤ (t.ceil : Rat) := Rat.le_ceil
  have h4 : (t.ceil : Rat) - 1 < t := by
    have : t.ceil - 1 < t.ceil := by omega
    have := (Rat.lt_ceil_iff (x := t) (y := t.ceil - 1)).1 this
    rwa [Rat.intCast_sub] at this
  refine ⟨h1, h2, h3, h4, ?_⟩
  have a : t.floor ≤ t.ceil := Rat.intCast_le_intCast.1 (Rat.le_trans h1 h3)
  have b : t.ceil - 1 < t.floor + 1 := by
    apply Rat.intCast_lt_intCast.1
    rw [Rat.intCast_sub, Rat.intCast_add]
    grind
  omega

theorem abs_lt_of {a b : Rat} (h1 : -b < a) (h2 : a < b) : a.abs < b := by
  unfold Rat.abs; split <;> grind

theorem abs_le_of {a b : Rat} (h1 : -b ≤ a) (h2 : a ≤ b) : a.abs ≤ b := by
  unfold Rat.abs; split <;> grind

theorem abs_mul_pos (a G : Rat) (hG : 0 < G) : (a * G).abs = a.abs * G := by
  by_cases h : 0 ≤ a
  · rw [Rat.abs_of_nonneg h, Rat.abs_of_nonneg (Rat.mul_nonneg h (Rat.le_of_lt hG))]
  · have h' : a < 0 := Rat.not_le.1 h
    have h2 : a * G < 0 := (Rat.mul_neg_iff_of_pos_right hG).2 h'
    rw [Rat.abs_of_nonpos (Rat.le_of_lt h'), Rat.abs_of_nonpos (Rat.le_of_lt h2), Rat.neg_mul]

theorem nonneg_mul_iff (t G : Rat) (hG : 0 < G) : 0 ≤ t * G ↔ 0 ≤ t := by
  constructor
  · intro h
    apply Rat.not_lt.1
    intro h'
    exact absurd ((Rat.mul_neg_iff_of_pos_right hG).2 h') (Rat.not_lt.2 h)
  · intro h; exact Rat.mul_nonneg h (Rat.le_of_lt hG)

/-- `N / D` as a rational is the integer quotient plus a proper fraction, whose comparisons with
`0` and `1/2` are the remainder's comparisons with `0` and `D/2` -/
theorem frac_split (N D : Nat) (hD : 0 < D) :
    ∃ f : Rat, (N : Rat) / (D : Rat) = ((N / D : Nat) : Rat) + f ∧ 0 ≤ f ∧ f < 1 ∧
      (f = 0 ↔ N % D = 0) ∧ (2 * f < 1 ↔ 2 * (N % D) < D) ∧ (1 < 2 * f ↔ D < 2 * (N % D)) := by
  have hDq : (0 : Rat) < (D : Rat) := Rat.natCast_pos.2 hD
  have hD0 : (D : Rat) ≠ 0 := Rat.ne_of_gt hDq
  have hdm : (N : Rat) = (D : Rat) * ((N / D : Nat) : Rat) + ((N % D : Nat) : Rat) := by
    rw [← Rat.natCast_mul, ← Rat.natCast_add, Nat.div_add_mod]
  have hlt : N % D < D := Nat.mod_lt _ hD
  generalize N % D = r at *
  have h2 : (2 : Rat) * ((r : Rat) / (D : Rat)) = ((2 * r : Nat) : Rat) / (D : Rat) := by
    rw [Rat.natCast_mul]; simp only [Rat.natCast_ofNat]; grind
  refine ⟨(r : Rat) / (D : Rat), ?_, ?_, ?_, ?_, ?_, ?_⟩
  · rw [hdm]; grind
  · rw [Rat.div_def]; exact Rat.mul_nonneg Rat.natCast_nonneg (Rat.le_of_lt (Rat.inv_pos.2 hDq))
  · rw [Rat.div_lt_iff hDq, Rat.one_mul]; exact Rat.natCast_lt_natCast.2 hlt
  · rw [Rat.div_def, Rat.mul_eq_zero]
    constructor
    · rintro (h | h)
      · exact Rat.natCast_eq_zero_iff.1 h
      · exact absurd (Rat.inv_pos.2 hDq) (by rw [h]; exact Rat.lt_irrefl)
    · intro h; left; rw [h]; rfl
  · rw [h2, Rat.div_lt_iff hDq, Rat.one_mul]; exact Rat.natCast_lt_natCast
  · rw [h2, Rat.lt_div_iff hDq, Rat.one_mul]; exact Rat.natCast_lt_natCast

/-! ### the integer-level rule and the value-level rule agree -/

theorem roundQuot_eq_roundDiv (rm : RM) (s : Bool) (c k : Nat) : roundQuot rm s c k = roundDiv rm s c (2 ^ k) := rfl

/-- **Bridge.**  For a real of sign `s` and magnitude `N/D` grid units, the textbook rule
(`roundInt`: floor/ceiling of the signed real, distances to them) picks the same multiple as the
quotient/remainder rule (`roundDiv`, of which `roundQuot` is the case `D = 2^k`). -/
theorem roundInt_frac (rm : RM) (s : Bool) (N D : Nat) (hD : 0 < D) (u : Int) :
    roundInt rm u (RF.sgn s * ((N : Rat) / (D : Rat)) * (2 : Rat) ^ u)
      = (if s then -1 else 1) * ((roundDiv rm s N D : Nat) : Int) := by
  obtain ⟨f, hN, hf0, hf1, hfz, hflt, hfgt⟩ := frac_split N D hD
  have hG := RF.two_zpow_pos u
  have ht : ∀ a : Rat, a * (2 : Rat) ^ u / (2 : Rat) ^ u = a := fun a => Rat.mul_div_cancel (RF.two_zpow_ne u)
  unfold roundInt roundDiv
  simp only [ht, hN]
  generalize N / D = q at *
  generalize hr : N % D = r at *
  generalize (2 : Rat) ^ u = G at *
  cases s
  · have hsg : RF.sgn false = 1 := rfl
    simp only [hsg, Rat.one_mul]
    have hfl : ((q : Rat) + f).floor = (q : Int) :=
      floor_eq (by simp only [Rat.intCast_natCast]; grind) (by simp only [Rat.intCast_natCast]; grind)
    have hv : 0 ≤ ((q : Rat) + f) * G :=
      Rat.mul_nonneg (Rat.add_nonneg Rat.natCast_nonneg hf0) (Rat.le_of_lt hG)
    by_cases hr0 : r = 0
    · have hfz' : f = 0 := hfz.2 hr0
      have hce : ((q : Rat) + f).ceil = (q : Int) :=
        ceil_eq (by simp only [Rat.intCast_natCast]; grind) (by simp only [Rat.intCast_natCast]; grind)
      simp [hfl, hce, hr0]
    · have hfz' : f ≠ 0 := fun h => hr0 (hfz.1 h)
      have hce : ((q : Rat) + f).ceil = (q : Int) + 1 :=
        ceil_eq (by simp only [Rat.intCast_natCast, Rat.intCast_add, Rat.intCast_one]; grind)
          (by simp only [Rat.intCast_add, Rat.intCast_one, Rat.intCast_natCast]; grind)
      have hne : ¬ ((q : Int) = (q : Int) + 1) := by omega
      simp only [hfl, hce, hne, hr0, if_false, hv, if_true, Rat.intCast_add, Rat.intCast_natCast,
        Rat.intCast_one, Bool.false_eq_true, Int.one_mul]
      have A : ((q : Rat) + f - (q : Rat) < (q : Rat) + 1 - ((q : Rat) + f)) ↔ 2 * r < D := by rw [← hflt]; grind
      have B : ((q : Rat) + 1 - ((q : Rat) + f) < (q : Rat) + f - (q : Rat)) ↔ D < 2 * r := by rw [← hfgt]; grind
      simp only [A, B]
      cases rm <;> simp only [] <;> grind
  · have hsg : RF.sgn true = -1 := rfl
    simp only [hsg]
    have hce : (-1 * ((q : Rat) + f)).ceil = -(q : Int) :=
      ceil_eq (by simp only [Rat.intCast_neg, Rat.intCast_natCast]; grind)
        (by simp only [Rat.intCast_neg, Rat.intCast_natCast]; grind)
    by_cases hr0 : r = 0
    · have hfz' : f = 0 := hfz.2 hr0
      have hfl : (-1 * ((q : Rat) + f)).floor = -(q : Int) :=
        floor_eq (by simp only [Rat.intCast_neg, Rat.intCast_natCast]; grind)
          (by simp only [Rat.intCast_neg, Rat.intCast_natCast]; grind)
      simp [hfl, hce, hr0]
    · have hfz' : f ≠ 0 := fun h => hr0 (hfz.1 h)
      have hfl : (-1 * ((q : Rat) + f)).floor = -(q : Int) - 1 :=
        floor_eq (by simp only [Rat.intCast_sub, Rat.intCast_neg, Rat.intCast_natCast, Rat.intCast_one]; grind)
          (by simp only [Rat.intCast_sub, Rat.intCast_neg, Rat.intCast_natCast, Rat.intCast_one]; grind)
      have hv : ¬ (0 ≤ -1 * ((q : Rat) + f) * G) := by
        have h1 : 0 < ((q : Rat) + f) * G :=
          Rat.mul_pos (by have := @Rat.natCast_nonneg q; grind) hG
        grind
      have hne : ¬ (-(q : Int) - 1 = -(q : Int)) := by omega
      simp only [hfl, hce, hne, hr0, if_false, hv, Rat.intCast_sub, Rat.intCast_neg,
        Rat.intCast_natCast, Rat.intCast_one]
      have A : (-1 * ((q : Rat) + f) - (-(q : Rat) - 1) < -(q : Rat) - -1 * ((q : Rat) + f)) ↔ D < 2 * r := by
        rw [← hfgt]; grind
      have B : (-(q : Rat) - -1 * ((q : Rat) + f) < -1 * ((q : Rat) + f) - (-(q : Rat) - 1)) ↔ 2 * r < D := by
        rw [← hflt]; grind
      simp only [A, B]
      cases rm <;> simp only [] <;> grind

/-- value form of the bridge -/
theorem roundVal_frac (rm : RM) (s : Bool) (N D : Nat) (hD : 0 < D) (u : Int) :
    roundVal rm u (RF.sgn s * ((N : Rat) / (D : Rat)) * (2 : Rat) ^ u)
      = RF.sgn s * ((roundDiv rm s N D : Nat) : Rat) * (2 : Rat) ^ u := by
  unfold roundVal
  rw [roundInt_frac rm s N D hD u]
  cases s <;> simp [RF.sgn, Rat.intCast_mul, Rat.intCast_neg, Rat.intCast_natCast, Rat.neg_mul]

end Fpy.C01v
