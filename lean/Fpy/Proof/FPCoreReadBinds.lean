/-
C12 (round 2) — the reader: what is proved for an expression (`ReadOK`), the bindings of `let` / `let*` and the
initial values of a loop, the updates of a `while*`.
-/
import Fpy.Proof.FPCoreReadP
set_option linter.unusedSimpArgs false
set_option linter.unusedVariables false
set_option linter.unusedSectionVars false
namespace Fpy.C12
open Fpy Fpy.Lang

section
variable (Φ : Funs) (nm : Nat → String)

/-- the value of the result expression, in every later state that keeps the names below `k'` -/
def RVal (k' : Nat) (σ' : Env) (μ : Heap) (C : Ctx) (r : Expr) (v : Val) : Prop :=
  ∀ σ'', Ext nm k' σ' σ'' → Gives Φ σ'' μ C r v

/-- reading `e` at counter `k`: the statements run, keep the names below `k`, and the result expression has the value FPCore gives `e` -/
def ReadOK (n : Nat) : Prop :=
  ∀ (e : FExpr) (k : Nat) (m : RMap) (P : Props) (C : Ctx) (ρ σ : Env) (μ : Heap) (v : Val)
    (ss : List Stmt) (r : Expr) (k' : Nat),
    eval n ρ P e = .ok v → readE nm k m P e = some (ss, r, k') → P.toCtx = .ok C → RInv nm k m ρ σ →
    k ≤ k' ∧ ∃ σ', Runs Φ σ μ C ss σ' μ ∧ Ext nm k σ σ' ∧ RVal Φ nm k' σ' μ C r v

/-- which names hold the variables after a list of bindings read at counter `k`: a fresh one (at or above `k`) for a bound
variable, the old one otherwise -/
def FreshB (k : Nat) (names : List String) (acc m' : RMap) : Prop :=
  ∀ x, (∃ j, k ≤ j ∧ m'.get? x = some (nm j)) ∨ (m'.get? x = acc.get? x ∧ x ∉ names)

def BindsOK (n : Nat) : Prop :=
  ∀ (star : Bool) (binds : List (String × FExpr)) (k : Nat) (m0 acc : RMap) (P : Props) (C : Ctx) (ρ0 ρa σ : Env) (μ : Heap)
    (ρ' : Env) (ss : List Stmt) (m' : RMap) (k' : Nat),
    evalBinds n star ρ0 ρa P binds = .ok ρ' → readBinds nm star k m0 acc P binds = some (ss, m', k') → P.toCtx = .ok C →
    RInv nm k m0 ρ0 σ → RInv nm k acc ρa σ →
    k ≤ k' ∧ FreshB nm k (binds.map (·.1)) acc m' ∧
      ∃ σ', Runs Φ σ μ C ss σ' μ ∧ Ext nm k σ σ' ∧ RInv nm k' m' ρ' σ'

theorem rinv_penv {k : Nat} {m : RMap} {ρ σ : Env} (h : RInv nm k m ρ σ) : PEnv m ρ σ := fun x y hxy => (h.1 x y hxy).2

/-- the bound on the names comes from one invariant, the values from another -/
theorem rinv_rebound {ka kb : Nat} {m : RMap} {ρ σ ρ' σ' : Env} (h1 : RInv nm ka m ρ σ) (h2 : RInv nm kb m ρ' σ') :
    RInv nm ka m ρ' σ' :=
  ⟨fun x y hxy => ⟨(h1.1 x y hxy).1, (h2.1 x y hxy).2⟩, h1.2⟩

theorem readInits_eq (star : Bool) : ∀ (binds : List (String × FExpr × FExpr)) (k : Nat) (m0 acc : RMap) (P : Props),
    readInits nm star k m0 acc P binds = readBinds nm star k m0 acc P (binds.map fun b => (b.1, b.2.1)) := by
  intro binds
  induction binds with
  | nil => intro k m0 acc P; simp [readInits, readBinds]
  | cons b rest ih =>
    intro k m0 acc P
    obtain ⟨x, i, u⟩ := b
    simp only [readInits, List.map_cons, readBinds]
    cases readE nm k (if star then acc else m0) P i with
    | none => rfl
    | some r =>
      obtain ⟨s, rr, k1⟩ := r
      simp only [ih]

variable (hnm : ∀ i j, nm i = nm j → i = j)
include hnm

theorem binds_step (n : Nat) (hR : ReadOK Φ nm n) (hB : BindsOK Φ nm n) : BindsOK Φ nm (n + 1) := by
  intro star binds k m0 acc P C ρ0 ρa σ μ ρ' ss m' k' h hr hP hI0 hIa
  cases binds with
  | nil =>
    rw [evalBinds_nil] at h
    cases h
    simp only [readBinds, Option.some.injEq, Prod.mk.injEq] at hr
    obtain ⟨rfl, rfl, rfl⟩ := hr
    exact ⟨Nat.le_refl _, fun x => Or.inr ⟨rfl, by simp⟩, σ, runs_nil Φ σ μ C, Ext.refl nm k σ, hIa⟩
  | cons b rest =>
    obtain ⟨x0, e⟩ := b
    rw [evalBinds_cons] at h
    simp only [readBinds] at hr
    cases hre : readE nm k (if star then acc else m0) P e with
    | none => rw [hre] at hr; cases hr
    | some r1 =>
      obtain ⟨s, r, k1⟩ := r1
      rw [hre] at hr
      simp only at hr
      cases hrest : readBinds nm star (k1 + 1) m0 ((x0, nm k1) :: acc) P rest with
      | none => rw [hrest] at hr; cases hr
      | some r2 =>
        obtain ⟨ss2, m2, k2⟩ := r2
        rw [hrest] at hr
        simp only [Option.some.injEq, Prod.mk.injEq] at hr
        obtain ⟨rfl, rfl, rfl⟩ := hr
        cases hv : eval n (if star then ρa else ρ0) P e with
        | error err => rw [hv] at h; cases h
        | ok v =>
          rw [hv] at h
          simp only [bind, Except.bind] at h
          -- the value
          have hIe : RInv nm k (if star then acc else m0) (if star then ρa else ρ0) σ := by
            cases star <;> simpa
          obtain ⟨hk1, σ1, hrun1, hext1, hval1⟩ := hR e k _ P C _ σ μ v s r k1 hv hre hP hIe
          have hg : Gives Φ σ1 μ C r v := hval1 σ1 (Ext.refl nm k1 σ1)
          have hrun2 := runs_assign Φ (x := nm k1) hg
          have hext2 : Ext nm k σ (σ1.set (nm k1) v) := hext1.trans nm (ext_set nm hnm σ1 v hk1)
          -- the rest
          have hI0' : RInv nm (k1 + 1) m0 ρ0 (σ1.set (nm k1) v) := hI0.mono nm (by omega) hext2
          have hIa' : RInv nm (k1 + 1) ((x0, nm k1) :: acc) (ρa.set x0 v) (σ1.set (nm k1) v) :=
            rinv_bind nm hnm (hIa.mono nm hk1 (hext1.mono nm (Nat.le_refl _))) (Nat.le_refl _) x0 v
          obtain ⟨hk2, hfresh, σ3, hrun3, hext3, hI3⟩ :=
            hB star rest (k1 + 1) m0 _ P C ρ0 _ _ μ ρ' ss2 m2 k2 h hrest hP hI0' hIa'
          refine ⟨by omega, fun x => ?_, σ3, ?_, hext2.trans nm (hext3.mono nm (by omega)), hI3⟩
          · rcases hfresh x with ⟨j, hj, hget⟩ | ⟨hget, hnot⟩
            · exact Or.inl ⟨j, by omega, hget⟩
            · rw [rmap_get_cons] at hget
              by_cases hx : x0 = x
              · simp only [hx, if_true] at hget
                exact Or.inl ⟨k1, hk1, hget⟩
              · simp only [hx, if_false] at hget
                refine Or.inr ⟨hget, ?_⟩
                simp only [List.map_cons, List.mem_cons, not_or]
                exact ⟨fun e' => hx e'.symm, hnot⟩
          · have := runs_append Φ s hrun1 (runs_append Φ [.assign (.var (nm k1)) r] hrun2 hrun3)
            simpa [List.append_assoc] using this

end
end Fpy.C12
