/-
C03 — a contract oracle for non-dyadic rationals is coherent; the integer-level "same digits, same flag ⇒ same
rounding" (helper lemmas for `Props/C03.lean`).
-/
import Fpy.Proof.Elem
namespace Fpy.C03
open Fpy Fpy.Spec

/-! ### a non-dyadic value: `(N/D)·2^E` with `1/2 ≤ N/D < 1` -/

/-- contract oracle of the rational `±(N/D)·2^E`, `D ≤ 2N < 2D`: `q` leading digits `⌊N·2^q/D⌋`, flag "remainder ≠ 0" -/
def normOracle (neg : Bool) (N D : Nat) (E : Int) : Oracle := fun q =>
  (⟨neg, E - (q : Int), N * 2 ^ q / D⟩, N * 2 ^ q % D != 0)

theorem normOracle_digits (N D : Nat) (h1 : D ≤ 2 * N) (h2 : N < D) (q : Nat) (hq : 1 ≤ q) :
    bitLength (N * 2 ^ q / D) = q := by
  have hD : 0 < D := by omega
  apply (bitLength_eq_iff _ q hq).2
  constructor
  · apply (Nat.le_div_iff_mul_le hD).2
    have hp := two_pow_pred q hq
    rw [hp]
    generalize 2 ^ (q - 1) = P
    have h3 := Nat.mul_le_mul_left P h1
    have e : P * (2 * N) = N * (2 * P) := by
      rw [Nat.mul_left_comm P 2 N, Nat.mul_left_comm N 2 P, Nat.mul_comm P N]
    omega
  · apply (Nat.div_lt_iff_lt_mul hD).2
    rw [Nat.mul_comm (2 ^ q) D]
    exact Nat.mul_lt_mul_of_pos_right h2 (Nat.pow_pos (by decide))

/-- remainder flag of a coarser quotient from a finer one -/
theorem quot_flag (A D G : Nat) (hD : 0 < D) (hG : 0 < G) :
    (A % D ≠ 0) ↔ ((A * G / D) % G ≠ 0 ∨ A * G % D ≠ 0) := by
  constructor
  · intro hA
    by_cases h1 : A * G % D = 0
    · left
      intro h2
      apply hA
      -- A G = D Q, Q = G Q'
      have e1 : A * G = D * (A * G / D) := by
        have := Nat.div_add_mod (A * G) D; omega
      obtain ⟨Q', hQ'⟩ : G ∣ A * G / D := Nat.dvd_of_mod_eq_zero h2
      rw [hQ'] at e1
      have e2 : A * G = (D * Q') * G := by rw [e1, Nat.mul_comm G Q', Nat.mul_assoc]
      have e3 : A = D * Q' := Nat.eq_of_mul_eq_mul_right hG e2
      rw [e3]; exact Nat.mul_mod_right D Q'
    · right; exact h1
  · intro h hA
    obtain ⟨a, ha⟩ : D ∣ A := Nat.dvd_of_mod_eq_zero hA
    have e1 : A * G = D * (a * G) := by rw [ha, Nat.mul_assoc]
    rcases h with h | h
    · apply h
      rw [e1, Nat.mul_div_cancel_left _ hD]
      exact Nat.mul_mod_left a G
    · apply h
      rw [e1]; exact Nat.mul_mod_right D _

theorem normOracle_coherent (neg : Bool) (N D : Nat) (E : Int) (h1 : D ≤ 2 * N) (h2 : N < D) :
    Coherent (normOracle neg N D E) where
  nz q hq := by
    have := normOracle_digits N D h1 h2 q hq
    intro hz
    have hz' : N * 2 ^ q / D = 0 := hz
    rw [hz', bitLength_zero] at this; omega
  short q hq := by
    show bitLength (N * 2 ^ q / D) ≤ q
    rw [normOracle_digits N D h1 h2 q hq]; exact Nat.le_refl _
  full q hq _ := normOracle_digits N D h1 h2 q hq
  step q W hq hqW := by
    have hD : 0 < D := by omega
    have hpW : (normOracle neg N D E W).1.p = W := normOracle_digits N D h1 h2 W (by omega)
    unfold truncStep
    by_cases hqe : W ≤ q
    · have : q = W := by omega
      subst this
      rw [truncRF_keep _ q (by rw [hpW]; exact Nat.le_refl _)]
      simp
    · obtain ⟨f1, f2, _⟩ := truncRF_drop (normOracle neg N D E W).1 q hq (by rw [hpW]; omega)
      rw [f1, f2, hpW]
      have hG : 0 < 2 ^ (W - q) := Nat.pow_pos (by decide)
      have hWq : N * 2 ^ W = N * 2 ^ q * 2 ^ (W - q) := by
        rw [Nat.mul_assoc, ← Nat.pow_add]; congr 2; omega
      apply Prod.ext
      · show (⟨neg, E - (q : Int), N * 2 ^ q / D⟩ : RF) = ⟨neg, E - (W : Int) + ((W - q : Nat) : Int), N * 2 ^ W / D / 2 ^ (W - q)⟩
        congr 1
        · omega
        · rw [Nat.div_div_eq_div_mul, hWq, Nat.mul_div_mul_right _ _ hG]
      · show (N * 2 ^ q % D != 0) = ((N * 2 ^ W / D % 2 ^ (W - q) != 0) || (N * 2 ^ W % D != 0))
        have key := quot_flag (N * 2 ^ q) D (2 ^ (W - q)) hD hG
        rw [← hWq] at key
        by_cases a : N * 2 ^ q % D = 0
        · have hb : ¬ (N * 2 ^ W / D % 2 ^ (W - q) ≠ 0 ∨ N * 2 ^ W % D ≠ 0) := fun hh => (key.2 hh) a
          have b1 : N * 2 ^ W / D % 2 ^ (W - q) = 0 := by
            by_cases z : N * 2 ^ W / D % 2 ^ (W - q) = 0
            · exact z
            · exact absurd (Or.inl z) hb
          have b2 : N * 2 ^ W % D = 0 := by
            by_cases z : N * 2 ^ W % D = 0
            · exact z
            · exact absurd (Or.inr z) hb
          rw [a, b1, b2]; rfl
        · have bt : ∀ m : Nat, m ≠ 0 → (m != 0) = true := by intro m h; simp [h]
          rw [bt _ a]
          rcases key.1 a with h | h
          · rw [bt _ h]; rfl
          · rw [bt _ h, Bool.or_true]

/-! ### the integer-level statement: same leading digits and same flag ⇒ same rounding -/

theorem determined_nat (rm : RM) (s : Bool) (c c' j k : Nat) (h : j + 2 ≤ k)
    (hq : c / 2 ^ j = c' / 2 ^ j) (hf : c % 2 ^ j = 0 ↔ c' % 2 ^ j = 0) :
    roundQuot rm s c k = roundQuot rm s c' k ∧ (c % 2 ^ k = 0 ↔ c' % 2 ^ k = 0) := by
  obtain ⟨a1, a2⟩ := rto_reround rm s c j k h
  obtain ⟨b1, b2⟩ := rto_reround rm s c' j k h
  have e : rtoNat c j = rtoNat c' j := by
    unfold rtoNat
    rw [hq]
    congr 1
    by_cases z : c % 2 ^ j = 0
    · rw [z, hf.1 z]
    · have z' : ¬ c' % 2 ^ j = 0 := fun hh => z (hf.2 hh)
      have bt : ∀ m : Nat, m ≠ 0 → (m != 0) = true := by intro m h; simp [h]
      rw [bt _ z, bt _ z']
  rw [e] at a1 a2
  exact ⟨a1.symm.trans b1, a2.symm.trans b2⟩


end Fpy.C03
