/-
Scalar expressions (Model/Lang/Scalar.lean) evaluate without touching the heap, to a value without
references, and the value does not depend on the heap: one induction on the fuel over the five
expression evaluators a scalar expression can reach.  Consequence (C07): a scalar expression whose
variables are bound to known flat values evaluates, in EVERY state that agrees on those variables,
to what the evaluator computes statically under the same active context — the static decision of
constant folding.
-/
import Fpy.Model.Lang.Scalar
import Fpy.Proof.LangEntry
namespace Fpy.Xform
open Fpy Fpy.Lang

/-- same value, heaps untouched (`μ` on the left, `μ'` on the right), value without references -/
def SRel (μ μ' : Heap) (a b : Val × Heap) : Prop := a.1 = b.1 ∧ a.2 = μ ∧ b.2 = μ' ∧ flatV a.1 = true
def SRels (μ μ' : Heap) (a b : List Val × Heap) : Prop := a.1 = b.1 ∧ a.2 = μ ∧ b.2 = μ' ∧ ∀ v ∈ a.1, flatV v = true

/-- the variables an expression reads hold values without references -/
def FlatOn (σ : Env) (xs : List String) : Prop := ∀ z ∈ xs, ∀ v, σ.get? z = some v → flatV v = true

theorem FlatOn.left {σ : Env} {a b : List String} (h : FlatOn σ (a ++ b)) : FlatOn σ a :=
  fun z hz => h z (List.mem_append_left _ hz)
theorem FlatOn.right {σ : Env} {a b : List String} (h : FlatOn σ (a ++ b)) : FlatOn σ b :=
  fun z hz => h z (List.mem_append_right _ hz)

theorem valEq_flat (μ μ' : Heap) (n : Nat) {a b : Val} (ha : flatV a = true) (hb : flatV b = true) :
    valEq μ n a b = valEq μ' n a b := by
  cases n with
  | zero => simp only [valEq]
  | succ n =>
    cases a <;> cases b <;> simp only [flatV, Bool.false_eq_true] at ha hb <;> simp only [valEq]

structure ScalAt (Φ : Funs) (n : Nat) : Prop where
  evalE : ∀ σ μ μ' C e, scalarE e = true → FlatOn σ (readsE e) →
    RelM (SRel μ μ') (evalE Φ n σ μ C e) (evalE Φ n σ μ' C e)
  evalEs : ∀ σ μ μ' C es, scalarEs es = true → FlatOn σ (readsEs es) →
    RelM (SRels μ μ') (evalEs Φ n σ μ C es) (evalEs Φ n σ μ' C es)
  evalChain : ∀ σ μ μ' C a ops es, flatV a = true → scalarEs es = true → FlatOn σ (readsEs es) →
    RelM (SRel μ μ') (evalChain Φ n σ μ C a ops es) (evalChain Φ n σ μ' C a ops es)
  evalAnd : ∀ σ μ μ' C es, scalarEs es = true → FlatOn σ (readsEs es) →
    RelM (SRel μ μ') (evalAnd Φ n σ μ C es) (evalAnd Φ n σ μ' C es)
  evalOr : ∀ σ μ μ' C es, scalarEs es = true → FlatOn σ (readsEs es) →
    RelM (SRel μ μ') (evalOr Φ n σ μ C es) (evalOr Φ n σ μ' C es)

/-- take a pair of related intermediate results apart -/
macro "srel_intro" x:ident hf:ident : tactic => `(tactic| (
  intro ⟨$x, m1⟩ ⟨x2, m2⟩ hrel
  have hr1 := hrel.1
  have hr2 := hrel.2.1
  have hr3 := hrel.2.2.1
  have $hf := hrel.2.2.2
  dsimp only at hr1 hr2 hr3 $hf:ident
  subst x2; subst m1; subst m2
  clear hrel))

theorem SRel.mk' (μ μ' : Heap) (v : Val) (h : flatV v = true) : RelM (SRel μ μ') (.ok (v, μ)) (.ok (v, μ')) :=
  ⟨rfl, rfl, rfl, h⟩

theorem RelM.err {α β : Type} {Q : α → β → Prop} (e : Err) : RelM Q (.error e : M α) (.error e : M β) := rfl

/-- the tail of a scalar computation: identical on both sides up to the heap paired with the result -/
macro "srel_tac" : tactic => `(tactic| repeat (first
  | exact SRel.mk' _ _ _ rfl
  | exact RelM.err _
  | apply RelM.bind_same
  | (intro ⟨_, _⟩; try dsimp only)
  | intro _
  | split))

theorem scal_evalE_step {Φ : Funs} {n : Nat} (ih : ScalAt Φ n) :
    ∀ σ μ μ' C e, scalarE e = true → FlatOn σ (readsE e) →
      RelM (SRel μ μ') (evalE Φ (n+1) σ μ C e) (evalE Φ (n+1) σ μ' C e) := by
  intro σ μ μ' C e h hfl
  cases e <;> first
    | exact absurd h Bool.false_ne_true
    | skip
  case var x =>
    simp only [evalE]
    cases hx : σ.get? x with
    | none => exact rfl
    | some v => exact SRel.mk' μ μ' v (hfl x (List.mem_singleton.2 rfl) v hx)
  case bool b => simp only [evalE]; exact SRel.mk' _ _ _ rfl
  case num v => simp only [evalE]; exact SRel.mk' _ _ _ rfl
  case ctxLit c => simp only [evalE]; exact SRel.mk' _ _ _ rfl
  case op o as =>
    simp only [evalE]
    apply RelM.bind (ih.evalEs σ μ μ' C as h hfl)
    srel_intro x1 hflat
    srel_tac
  case pred p a =>
    simp only [evalE]
    apply RelM.bind (ih.evalE σ μ μ' C a h hfl)
    srel_intro x1 hflat
    srel_tac
  case cmp ops as =>
    cases as with
    | nil => simp only [evalE]; exact SRel.mk' _ _ _ rfl
    | cons a as =>
      replace h : (scalarE a && scalarEs as) = true := h
      rw [Bool.and_eq_true] at h
      have hfl' : FlatOn σ (readsE a ++ readsEs as) := hfl
      simp only [evalE]
      apply RelM.bind (ih.evalE σ μ μ' C a h.1 hfl'.left)
      srel_intro x1 hflat
      exact ih.evalChain σ μ μ' C x1 ops as hflat h.2 hfl'.right
  case not a =>
    simp only [evalE]
    apply RelM.bind (ih.evalE σ μ μ' C a h hfl)
    srel_intro x1 hflat
    srel_tac
  case and as => simp only [evalE]; exact ih.evalAnd σ μ μ' C as h hfl
  case or as => simp only [evalE]; exact ih.evalOr σ μ μ' C as h hfl
  case ite c t f =>
    replace h : (scalarE c && scalarE t && scalarE f) = true := h
    simp only [Bool.and_eq_true] at h
    have hfl' : FlatOn σ (readsE c ++ readsE t ++ readsE f) := hfl
    simp only [evalE]
    apply RelM.bind (ih.evalE σ μ μ' C c h.1.1 hfl'.left.left)
    srel_intro x1 hflat
    apply RelM.bind_same; intro bb
    split
    · exact ih.evalE σ μ μ' C t h.1.2 hfl'.left.right
    · exact ih.evalE σ μ μ' C f h.2 hfl'.right
  case roundAt a m =>
    replace h : (scalarE a && scalarE m) = true := h
    simp only [Bool.and_eq_true] at h
    have hfl' : FlatOn σ (readsE a ++ readsE m) := hfl
    simp only [evalE]
    apply RelM.bind (ih.evalE σ μ μ' C a h.1 hfl'.left)
    srel_intro x1 hflat
    apply RelM.bind (ih.evalE σ μ μ' C m h.2 hfl'.right)
    srel_intro x1 hflat
    srel_tac

theorem scal_evalEs_step {Φ : Funs} {n : Nat} (ih : ScalAt Φ n) :
    ∀ σ μ μ' C es, scalarEs es = true → FlatOn σ (readsEs es) →
      RelM (SRels μ μ') (evalEs Φ (n+1) σ μ C es) (evalEs Φ (n+1) σ μ' C es) := by
  intro σ μ μ' C es h hfl
  cases es with
  | nil => simp only [evalEs]; exact ⟨rfl, rfl, rfl, fun _ hv => by cases hv⟩
  | cons a as =>
    replace h : (scalarE a && scalarEs as) = true := h
    rw [Bool.and_eq_true] at h
    have hfl' : FlatOn σ (readsE a ++ readsEs as) := hfl
    simp only [evalEs]
    apply RelM.bind (ih.evalE σ μ μ' C a h.1 hfl'.left)
    srel_intro x1 hflat
    apply RelM.bind (ih.evalEs σ μ μ' C as h.2 hfl'.right)
    intro ⟨vs, m1⟩ ⟨vs', m2⟩ hrel
    obtain ⟨hr1, hr2, hr3, hfs⟩ := hrel
    dsimp only at hr1 hr2 hr3 hfs
    subst vs'; subst m1; subst m2
    refine ⟨rfl, rfl, rfl, ?_⟩
    intro v hv
    rcases List.mem_cons.1 hv with hv | hv
    · rw [hv]; exact hflat
    · exact hfs v hv

theorem scal_evalChain_step {Φ : Funs} {n : Nat} (ih : ScalAt Φ n) :
    ∀ σ μ μ' C a ops es, flatV a = true → scalarEs es = true → FlatOn σ (readsEs es) →
      RelM (SRel μ μ') (evalChain Φ (n+1) σ μ C a ops es) (evalChain Φ (n+1) σ μ' C a ops es) := by
  intro σ μ μ' C a ops es ha h hfl
  cases ops with
  | nil => cases es <;> simp only [evalChain] <;> exact SRel.mk' _ _ _ rfl
  | cons op ops =>
    cases es with
    | nil => simp only [evalChain]; exact SRel.mk' _ _ _ rfl
    | cons b bs =>
      replace h : (scalarE b && scalarEs bs) = true := h
      rw [Bool.and_eq_true] at h
      have hfl' : FlatOn σ (readsE b ++ readsEs bs) := hfl
      simp only [evalChain]
      apply RelM.bind (ih.evalE σ μ μ' C b h.1 hfl'.left)
      srel_intro x1 hflat
      rw [valEq_flat μ μ' n ha hflat]
      apply RelM.bind_same; intro ok
      split
      · exact ih.evalChain σ μ μ' C x1 ops bs hflat h.2 hfl'.right
      · exact SRel.mk' _ _ _ rfl

theorem scal_evalAnd_step {Φ : Funs} {n : Nat} (ih : ScalAt Φ n) :
    ∀ σ μ μ' C es, scalarEs es = true → FlatOn σ (readsEs es) →
      RelM (SRel μ μ') (evalAnd Φ (n+1) σ μ C es) (evalAnd Φ (n+1) σ μ' C es) := by
  intro σ μ μ' C es h hfl
  cases es with
  | nil => simp only [evalAnd]; exact SRel.mk' _ _ _ rfl
  | cons a as =>
    replace h : (scalarE a && scalarEs as) = true := h
    rw [Bool.and_eq_true] at h
    have hfl' : FlatOn σ (readsE a ++ readsEs as) := hfl
    cases as with
    | nil => simp only [evalAnd]; exact ih.evalE σ μ μ' C a h.1 hfl'.left
    | cons b bs =>
      simp only [evalAnd]
      apply RelM.bind (ih.evalE σ μ μ' C a h.1 hfl'.left)
      srel_intro x1 hflat
      apply RelM.bind_same; intro bb
      split
      · exact ih.evalAnd σ μ μ' C (b :: bs) h.2 hfl'.right
      · exact SRel.mk' _ _ _ rfl

theorem scal_evalOr_step {Φ : Funs} {n : Nat} (ih : ScalAt Φ n) :
    ∀ σ μ μ' C es, scalarEs es = true → FlatOn σ (readsEs es) →
      RelM (SRel μ μ') (evalOr Φ (n+1) σ μ C es) (evalOr Φ (n+1) σ μ' C es) := by
  intro σ μ μ' C es h hfl
  cases es with
  | nil => simp only [evalOr]; exact SRel.mk' _ _ _ rfl
  | cons a as =>
    replace h : (scalarE a && scalarEs as) = true := h
    rw [Bool.and_eq_true] at h
    have hfl' : FlatOn σ (readsE a ++ readsEs as) := hfl
    cases as with
    | nil => simp only [evalOr]; exact ih.evalE σ μ μ' C a h.1 hfl'.left
    | cons b bs =>
      simp only [evalOr]
      apply RelM.bind (ih.evalE σ μ μ' C a h.1 hfl'.left)
      srel_intro x1 hflat
      apply RelM.bind_same; intro bb
      split
      · exact SRel.mk' _ _ _ rfl
      · exact ih.evalOr σ μ μ' C (b :: bs) h.2 hfl'.right

theorem scalAt (Φ : Funs) : ∀ n, ScalAt Φ n := by
  intro n
  induction n with
  | zero => constructor <;> intros <;> exact rfl
  | succ n ih =>
    exact ⟨scal_evalE_step ih, scal_evalEs_step ih, scal_evalChain_step ih, scal_evalAnd_step ih, scal_evalOr_step ih⟩


/-- a scalar expression leaves the heap alone, yields a value without references, and yields the same
value on every heap -/
theorem scalar_eval {Φ : Funs} {n : Nat} {σ : Env} {μ : Heap} {C : Ctx} {e : Expr} {v : Val} {m : Heap}
    (hs : scalarE e = true) (hfl : FlatOn σ (readsE e)) (h : evalE Φ n σ μ C e = .ok (v, m)) :
    m = μ ∧ flatV v = true ∧ ∀ μ', evalE Φ n σ μ' C e = .ok (v, μ') := by
  have h0 := (scalAt Φ n).evalE σ μ μ C e hs hfl
  rw [h] at h0
  obtain ⟨_, hm, _, hf⟩ := h0
  refine ⟨hm, hf, fun μ' => ?_⟩
  have h1 := (scalAt Φ n).evalE σ μ μ' C e hs hfl
  rw [h] at h1
  cases h2 : evalE Φ n σ μ' C e with
  | error err => rw [h2] at h1; exact absurd h1 id
  | ok r =>
    rw [h2] at h1
    obtain ⟨v', m'⟩ := r
    obtain ⟨hv, _, hm', _⟩ := h1
    dsimp only at hv hm'
    rw [← hv, hm']

/-- THE STATIC DECISION OF CONSTANT FOLDING IS SOUND.  `Γ` binds the names known to be constant
(flat values: numbers, Booleans, contexts); `e` is scalar; the folder evaluates `e` in `Γ` on the empty heap
under the context `C` active at that program point and obtains `v`.  Then in EVERY state whose environment
agrees with `Γ` on the variables of `e`, on every heap, `e` evaluates under `C` to `v`, leaving the heap alone. -/
theorem const_fold_static {Φ : Funs} {N : Nat} {Γ σ : Env} {C : Ctx} {e : Expr} {v : Val} {m : Heap}
    (hs : scalarE e = true) (hΓ : FlatOn Γ (readsE e)) (hσ : ∀ z ∈ readsE e, σ.get? z = Γ.get? z)
    (hstatic : evalE Φ N Γ [] C e = .ok (v, m)) (μ : Heap) :
    evalEω Φ σ μ C e = .ok (v, μ) ∧ flatV v = true := by
  have h1 : evalE Φ N σ [] C e = .ok (v, m) := by rw [evalE_congr_env Φ N [] C e hσ]; exact hstatic
  have hfl : FlatOn σ (readsE e) := fun z hz w hw => hΓ z hz w (by rw [← hσ z hz]; exact hw)
  obtain ⟨_, hf, hall⟩ := scalar_eval hs hfl h1
  exact ⟨evalEω_of_run (hall μ) (by intro h0; cases h0), hf⟩

/-- … in particular for a closed expression (no variables): no hypothesis on the state at all -/
theorem const_fold_closed {Φ : Funs} {N : Nat} {C : Ctx} {e : Expr} {v : Val} {m : Heap}
    (hc : closedE e = true) (hstatic : evalE Φ N [] [] C e = .ok (v, m)) (σ : Env) (μ : Heap) :
    evalEω Φ σ μ C e = .ok (v, μ) ∧ flatV v = true := by
  unfold closedE at hc
  rw [Bool.and_eq_true, List.isEmpty_iff] at hc
  refine const_fold_static (Γ := []) hc.1 ?_ ?_ hstatic μ
  · rw [hc.2]; intro z hz; cases hz
  · rw [hc.2]; intro z hz; cases hz

/-- the literal of a flat value evaluates to it -/
theorem evalEω_litOf {Φ : Funs} {v : Val} {lit : Expr} (h : litOf v = some lit) (σ : Env) (μ : Heap) (C : Ctx) :
    evalEω Φ σ μ C lit = .ok (v, μ) := by
  cases v with
  | bool b => cases h; exact evalEω_bool Φ σ μ C _
  | num x => cases h; exact evalEω_num Φ σ μ C _
  | ctx c => cases h; exact evalEω_ctxLit Φ σ μ C _
  | tuple vs => cases h
  | list r => cases h

/-- folding = replacing `e` by the literal of its statically computed value: the two expressions evaluate alike -/
theorem const_fold_expr {Φ : Funs} {N : Nat} {Γ σ : Env} {C : Ctx} {e lit : Expr} {v : Val} {m : Heap}
    (hs : scalarE e = true) (hΓ : FlatOn Γ (readsE e)) (hσ : ∀ z ∈ readsE e, σ.get? z = Γ.get? z)
    (hstatic : evalE Φ N Γ [] C e = .ok (v, m)) (hlit : litOf v = some lit) (μ : Heap) :
    evalEω Φ σ μ C e = evalEω Φ σ μ C lit := by
  rw [(const_fold_static hs hΓ hσ hstatic μ).1, evalEω_litOf hlit]

/-- statements are functions of the value of their top-level expression -/
theorem stmt_expr_congr {Φ : Funs} {σ : Env} {μ : Heap} {C : Ctx} {e e' : Expr}
    (h : evalEω Φ σ μ C e = evalEω Φ σ μ C e') (p : Pat) (t f : List Stmt) :
    evalSω Φ σ μ C (.assign p e) = evalSω Φ σ μ C (.assign p e') ∧
    evalSω Φ σ μ C (.ret e) = evalSω Φ σ μ C (.ret e') ∧
    evalSω Φ σ μ C (.assert e) = evalSω Φ σ μ C (.assert e') ∧
    evalSω Φ σ μ C (.effect e) = evalSω Φ σ μ C (.effect e') ∧
    evalSω Φ σ μ C (.ifte e t f) = evalSω Φ σ μ C (.ifte e' t f) ∧
    evalSω Φ σ μ C (.if1 e t) = evalSω Φ σ μ C (.if1 e' t) ∧
    evalSω Φ σ μ C (.for p e t) = evalSω Φ σ μ C (.for p e' t) := by
  refine ⟨?_, ?_, ?_, ?_, ?_, ?_, ?_⟩
  · rw [evalSω_assign, evalSω_assign, h]
  · rw [evalSω_ret, evalSω_ret, h]
  · rw [evalSω_assert, evalSω_assert, h]
  · rw [evalSω_effect, evalSω_effect, h]
  · rw [evalSω_ifte, evalSω_ifte, h]
  · rw [evalSω_if1, evalSω_if1, h]
  · rw [evalSω_for, evalSω_for, h]

theorem block_head_congr {Φ : Funs} {σ : Env} {μ : Heap} {C : Ctx} {s s' : Stmt}
    (h : evalSω Φ σ μ C s = evalSω Φ σ μ C s') (rest : List Stmt) :
    evalBω Φ σ μ C (s :: rest) = evalBω Φ σ μ C (s' :: rest) := by
  rw [evalBω_cons', evalBω_cons', h]

end Fpy.Xform
