/-
Meta-theory of the fuel-indexed evaluator, part 0 (split off `LangMeta.lean` to keep compile times
low): the definedness order `Le`, monotonicity of `valEq` and `bindPat` in the fuel, the induction
hypothesis bundle `MonoAt`, the tactic `le_tac`, and the step lemma for `evalE`.
-/
import Fpy.Model.Lang.Core
namespace Fpy.Xform
open Fpy Fpy.Lang

/-- definedness order on results: `a ⊑ b` iff `a` ran out of fuel or `a = b` -/
def Le {α : Type} (a b : M α) : Prop := a = .error .outOfFuel ∨ a = b

theorem Le.refl {α : Type} (a : M α) : Le a a := .inr rfl
theorem Le.oof {α : Type} (b : M α) : Le (.error .outOfFuel) b := .inl rfl

theorem Le.trans {α : Type} {a b c : M α} (h1 : Le a b) (h2 : Le b c) : Le a c := by
  rcases h1 with h1 | h1
  · exact .inl h1
  · subst h1; exact h2

theorem Le.bind {α β : Type} {a a' : M α} {f f' : α → M β} (h : Le a a') (hf : ∀ x, Le (f x) (f' x)) :
    Le (a >>= f) (a' >>= f') := by
  rcases h with h | h
  · subst h; exact .inl rfl
  · subst h
    cases a with
    | error e => exact .inr rfl
    | ok x => exact hf x

theorem Le.map {α β : Type} {a a' : M α} (g : α → β) (h : Le a a') : Le (g <$> a) (g <$> a') := by
  rcases h with h | h
  · subst h; exact .inl rfl
  · subst h; exact .inr rfl

theorem Le.emap {α β : Type} {a a' : M α} (g : α → β) (h : Le a a') : Le (Except.map g a) (Except.map g a') := by
  rcases h with h | h
  · subst h; exact .inl rfl
  · subst h; exact .inr rfl

theorem valEq_go_mono (μ : Heap) (n : Nat) (ih : ∀ a b, Le (valEq μ n a b) (valEq μ (n+1) a b)) :
    ∀ xs ys, Le (valEq.go μ n xs ys) (valEq.go μ (n+1) xs ys) := by
  intro xs
  induction xs with
  | nil => intro ys; cases ys <;> simp only [valEq.go] <;> exact Le.refl _
  | cons x xs ihx =>
    intro ys
    cases ys with
    | nil => simp only [valEq.go]; exact Le.refl _
    | cons y ys =>
      simp only [valEq.go]
      apply Le.bind (ih x y)
      intro b
      split
      · exact ihx ys
      · exact Le.refl _

theorem valEq_mono (μ : Heap) : ∀ n a b, Le (valEq μ n a b) (valEq μ (n+1) a b) := by
  intro n
  induction n with
  | zero => intro a b; simp only [valEq]; exact Le.oof _
  | succ n ih =>
    have hgo := valEq_go_mono μ n ih
    intro a b
    cases a <;> cases b <;> simp only [valEq] <;> try (exact Le.refl _)
    · split
      · exact Le.refl _
      · exact hgo _ _
    · apply Le.bind (Le.refl _); intro xs
      apply Le.bind (Le.refl _); intro ys
      split
      · exact Le.refl _
      · exact hgo _ _

theorem bindPat_mono : ∀ n p v σ, Le (bindPat n p v σ) (bindPat (n+1) p v σ) := by
  intro n
  induction n with
  | zero => intro p v σ; simp only [bindPat]; exact Le.oof _
  | succ n ih =>
    have hgo : ∀ ps vs σ, Le (bindPat.go n ps vs σ) (bindPat.go (n+1) ps vs σ) := by
      intro ps
      induction ps with
      | nil => intro vs σ; simp only [bindPat.go]; exact Le.refl _
      | cons p ps ihp =>
        intro vs σ
        cases vs with
        | nil => simp only [bindPat.go]; exact Le.refl _
        | cons v vs =>
          simp only [bindPat.go]
          apply Le.bind (ih _ _ _)
          intro σ'
          exact ihp _ _
    intro p v σ
    cases p with
    | var x => simp only [bindPat]; exact Le.refl _
    | wild => simp only [bindPat]; exact Le.refl _
    | tup ps =>
      cases v <;> simp only [bindPat] <;> try (exact Le.refl _)
      split
      · exact Le.refl _
      · exact hgo _ _ _
theorem Le.stable {α : Type} {a b r : M α} (h : Le a b) (ha : a = r) (hr : r ≠ .error .outOfFuel) : b = r := by
  rcases h with h | h
  · exact absurd (ha ▸ h) hr
  · exact h ▸ ha

theorem chain_le {α : Type} {a : Nat → M α} (h : ∀ n, Le (a n) (a (n+1))) {n m : Nat} (hnm : n ≤ m) : Le (a n) (a m) := by
  induction m with
  | zero => have : n = 0 := by omega
            subst this; exact Le.refl _
  | succ m ih =>
    by_cases hm : n ≤ m
    · exact Le.trans (ih hm) (h m)
    · have : n = m + 1 := by omega
      subst this; exact Le.refl _


theorem valEq_mono_le (μ : Heap) {n m : Nat} (h : n ≤ m) (a b : Val) : Le (valEq μ n a b) (valEq μ m a b) :=
  chain_le (a := fun n => valEq μ n a b) (fun n => valEq_mono μ n a b) h

theorem bindPat_mono_le {n m : Nat} (h : n ≤ m) (p : Pat) (v : Val) (σ : Env) : Le (bindPat n p v σ) (bindPat m p v σ) :=
  chain_le (a := fun n => bindPat n p v σ) (fun n => bindPat_mono n p v σ) h

/-- all ten evaluator functions at fuel `n` are below themselves at fuel `m` -/
structure MonoAt (Φ : Funs) (n m : Nat) : Prop where
  le : n ≤ m
  evalE : ∀ σ μ C e, Le (evalE Φ n σ μ C e) (evalE Φ m σ μ C e)
  evalEs : ∀ σ μ C es, Le (evalEs Φ n σ μ C es) (evalEs Φ m σ μ C es)
  evalChain : ∀ σ μ C a ops es, Le (evalChain Φ n σ μ C a ops es) (evalChain Φ m σ μ C a ops es)
  evalAnd : ∀ σ μ C es, Le (evalAnd Φ n σ μ C es) (evalAnd Φ m σ μ C es)
  evalOr : ∀ σ μ C es, Le (evalOr Φ n σ μ C es) (evalOr Φ m σ μ C es)
  evalComp : ∀ σ μ C ps its elt, Le (evalComp Φ n σ μ C ps its elt) (evalComp Φ m σ μ C ps its elt)
  compLoop : ∀ σ μ C r i p ps its elt, Le (compLoop Φ n σ μ C r i p ps its elt) (compLoop Φ m σ μ C r i p ps its elt)
  evalS : ∀ σ μ C s, Le (evalS Φ n σ μ C s) (evalS Φ m σ μ C s)
  forLoop : ∀ σ μ C r i p body, Le (forLoop Φ n σ μ C r i p body) (forLoop Φ m σ μ C r i p body)
  evalB : ∀ σ μ C ss, Le (evalB Φ n σ μ C ss) (evalB Φ m σ μ C ss)

/-- close a monotonicity goal whose two sides differ only in the fuel of recursive calls -/
macro "le_tac" ih:ident : tactic => `(tactic| repeat (first
  | with_reducible exact Le.refl _
  | with_reducible apply Le.bind
  | with_reducible exact MonoAt.evalE $ih _ _ _ _
  | with_reducible exact MonoAt.evalEs $ih _ _ _ _
  | with_reducible exact MonoAt.evalChain $ih _ _ _ _ _ _
  | with_reducible exact MonoAt.evalAnd $ih _ _ _ _
  | with_reducible exact MonoAt.evalOr $ih _ _ _ _
  | with_reducible exact MonoAt.evalComp $ih _ _ _ _ _ _
  | with_reducible exact MonoAt.compLoop $ih _ _ _ _ _ _ _ _ _
  | with_reducible exact MonoAt.evalS $ih _ _ _ _
  | with_reducible exact MonoAt.forLoop $ih _ _ _ _ _ _ _
  | with_reducible exact MonoAt.evalB $ih _ _ _ _
  | with_reducible exact valEq_mono_le _ (MonoAt.le $ih) _ _
  | with_reducible exact bindPat_mono_le (MonoAt.le $ih) _ _ _
  | with_reducible apply Le.emap
  | intro ⟨_, _⟩
  | intro _
  | split))

theorem evalE_step {Φ : Funs} {n m : Nat} (ih : MonoAt Φ n m) :
    ∀ σ μ C e, Le (evalE Φ (n+1) σ μ C e) (evalE Φ (m+1) σ μ C e) := by
  intro σ μ C e
  cases e <;> simp only [evalE] <;> le_tac ih


end Fpy.Xform
