/-
C12 (round 2) — convergence lemmas for the FPCore forms the compiler emits for loops and tuples:
`pack` / `unpack`, `while`, `for` over `(tensor ([%j n]) %j)`, `size`, `ref`.
-/
import Fpy.Proof.FPCoreLExpr
set_option linter.unusedSimpArgs false
set_option linter.unusedVariables false
namespace Fpy.C12
open Fpy Fpy.Lang

/-! ### one-step unfoldings -/

theorem eval_while (n : Nat) (ρ : Env) (P : Props) (star : Bool) (c : FExpr) (binds : List (String × FExpr × FExpr)) (body : FExpr) :
    eval (n + 1) ρ P (.while_ star c binds body) =
      (do let ρ' ← evalBinds n star ρ ρ P (binds.map fun b => (b.1, b.2.1))
          whileLoop n star ρ' P c binds body) := by
  simp only [eval] <;> rfl

theorem whileLoop_succ (n : Nat) (star : Bool) (ρ : Env) (P : Props) (c : FExpr) (binds : List (String × FExpr × FExpr)) (body : FExpr) :
    whileLoop (n + 1) star ρ P c binds body =
      (do let cv ← eval n ρ P c
          if ← asBool cv then do
            let ρ' ← evalBinds n star ρ ρ P (binds.map fun b => (b.1, b.2.2))
            whileLoop n star ρ' P c binds body
          else eval n ρ P body) := by
  simp only [whileLoop] <;> rfl

theorem eval_for (n : Nat) (ρ : Env) (P : Props) (star : Bool) (dims : List (String × FExpr))
    (binds : List (String × FExpr × FExpr)) (body : FExpr) :
    eval (n + 1) ρ P (.for_ star dims binds body) =
      (do let ns ← evalDims n ρ P dims
          let ρ' ← evalBinds n star ρ ρ P (binds.map fun b => (b.1, b.2.1))
          C12.forLoop n star ρ' P (dims.map (·.1)) (positions ns) binds body) := by
  simp only [eval] <;> rfl

theorem forLoop_nil (n : Nat) (star : Bool) (ρ : Env) (P : Props) (names : List String)
    (binds : List (String × FExpr × FExpr)) (body : FExpr) :
    C12.forLoop (n + 1) star ρ P names [] binds body = eval n ρ P body := by
  simp only [C12.forLoop] <;> rfl

theorem forLoop_cons (n : Nat) (star : Bool) (ρ : Env) (P : Props) (names : List String) (pos : List Nat)
    (more : List (List Nat)) (binds : List (String × FExpr × FExpr)) (body : FExpr) :
    C12.forLoop (n + 1) star ρ P names (pos :: more) binds body =
      (do let ρ' ← evalBinds n star (bindAll ρ (names.zip (pos.map fun (i : Nat) => intVal (Int.ofNat i))))
                      (bindAll ρ (names.zip (pos.map fun (i : Nat) => intVal (Int.ofNat i)))) P (binds.map fun b => (b.1, b.2.2))
          C12.forLoop n star ρ' P names more binds body) := by
  simp only [C12.forLoop] <;> rfl

theorem eval_tensor (n : Nat) (ρ : Env) (P : Props) (dims : List (String × FExpr)) (body : FExpr) :
    eval (n + 1) ρ P (.tensor dims body) =
      (do let ns ← evalDims n ρ P dims
          let vs ← tensorLoop n ρ P (dims.map (·.1)) (positions ns) body
          pure (reshape ns vs)) := by
  simp only [eval] <;> rfl

theorem tensorLoop_nil (n : Nat) (ρ : Env) (P : Props) (names : List String) (body : FExpr) :
    tensorLoop (n + 1) ρ P names [] body = .ok [] := by
  simp only [tensorLoop] <;> rfl

theorem tensorLoop_cons (n : Nat) (ρ : Env) (P : Props) (names : List String) (pos : List Nat) (more : List (List Nat)) (body : FExpr) :
    tensorLoop (n + 1) ρ P names (pos :: more) body =
      (do let v ← eval n (bindAll ρ (names.zip (pos.map fun (i : Nat) => intVal (Int.ofNat i)))) P body
          let vs ← tensorLoop n ρ P names more body
          pure (v :: vs)) := by
  simp only [tensorLoop] <;> rfl

theorem evalDims_nil (n : Nat) (ρ : Env) (P : Props) : evalDims (n + 1) ρ P [] = .ok [] := by
  simp only [evalDims] <;> rfl

theorem evalDims_cons (n : Nat) (ρ : Env) (P : Props) (x : String) (e : FExpr) (rest : List (String × FExpr)) :
    evalDims (n + 1) ρ P ((x, e) :: rest) =
      (do let v ← eval n ρ P e
          let k ← asIndex v
          let ns ← evalDims n ρ P rest
          pure (k :: ns)) := by
  simp only [evalDims] <;> rfl

theorem eval_size_tuple (n : Nat) (ρ : Env) (P : Props) (a k : FExpr) (vs : List Val) (kv : Val)
    (ha : eval n ρ P a = .ok (.tuple vs)) (hk : eval n ρ P k = .ok kv) (hi : asIndex kv = .ok 0) :
    eval (n + 1) ρ P (.size a k) = .ok (.num (.q (vs.length : Int) 1)) := by
  simp only [eval, ha, hk, hi, bind, Except.bind, eval.shapeAt]

/-! ### small facts about values -/

theorem toInt_ofInt' (i : Int) : (RF.ofInt i).toInt? = some i := by
  unfold RF.toInt? RF.isInteger RF.isMoreSignificant RF.ofInt
  by_cases h : i = 0
  · subst h; simp
  · have hc : i.natAbs ≠ 0 := by omega
    simp [hc]
    omega

theorem asIndex_intVal (i : Nat) : asIndex (intVal (Int.ofNat i)) = .ok i := by
  unfold asIndex intVal
  simp only [asNum, bind, Except.bind, nvInt?, toInt_ofInt']
  have : ¬ (Int.ofNat i < 0) := Int.not_lt.mpr (Int.natCast_nonneg i)
  simp [this]

theorem asIndex_q (n : Nat) : asIndex (.num (.q (n : Int) 1)) = .ok n := by
  unfold asIndex
  simp only [asNum, bind, Except.bind, nvInt?]
  have : ¬ ((n : Int) < 0) := by omega
  simp [this]

theorem positions_one (n : Nat) : positions [n] = (List.range n).map fun i => [i] := by
  simp [positions, List.flatMap, List.map_map]
  induction (List.range n) with
  | nil => rfl
  | cons a l ih => simp [ih]

/-! ### tuples -/

/-- `(let ([%t (array x…)]) K)` -/
theorem conv_pack {ρ : Env} {P : Props} {xs : List String} {K : FExpr} {ws : List Val} {v : Val}
    (h1 : ConvL ρ P (xs.map FExpr.var) ws) (h2 : Conv (ρ.set "%t" (.tuple ws)) P K v) : Conv ρ P (pack xs K) v :=
  conv_let1 (conv_array h1) h2

/-- `(let* ([%t e] [x0 (ref %t 0)] …) K)` -/
theorem conv_unpack {ρ : Env} {P : Props} {C : Ctx} (hP : P.toCtx = .ok C) (xs : List String) (e K : FExpr)
    (g : String → Val) (w : Val) (hL : CtxLits C xs.length) (hT : ∀ x, x ∈ xs → isTmpL x = false)
    (hi : Conv ρ P e (.tuple (xs.map g)))
    (hK : ∀ ρ', (∀ y, isTmpL y = false → ρ'.get? y = if y ∈ xs then some (g y) else ρ.get? y) → Conv ρ' P K w) :
    Conv ρ P (unpack xs e K) w := by
  unfold unpack
  exact conv_bundle_many hP xs e K g w hL (fun x hx => isTmp_of_isTmpL (hT x hx)) hi
    (fun ρ' h => hK ρ' (fun y hy => h y (isTmp_of_isTmpL hy)))

/-! ### `while` with one binding -/

def ConvW (ρ : Env) (P : Props) (c : FExpr) (binds : List (String × FExpr × FExpr)) (K : FExpr) (v : Val) : Prop :=
  ∃ N, ∀ n, N ≤ n → whileLoop n false ρ P c binds K = .ok v

theorem convW_exit {ρ : Env} {P : Props} {c K : FExpr} {binds : List (String × FExpr × FExpr)} {v : Val}
    (hc : Conv ρ P c (.bool false)) (hK : Conv ρ P K v) : ConvW ρ P c binds K v := by
  obtain ⟨N1, hc⟩ := hc; obtain ⟨N2, hK⟩ := hK
  refine ⟨max N1 N2 + 1, fun n hn => ?_⟩
  obtain ⟨m, rfl⟩ : ∃ m, n = m + 1 := ⟨n - 1, by omega⟩
  rw [whileLoop_succ, hc m (by omega)]
  simp only [bind, Except.bind, asBool, Bool.false_eq_true, if_false]
  exact hK m (by omega)

theorem convW_step {ρ : Env} {P : Props} {c K U init : FExpr} {m : String} {w v : Val}
    (hc : Conv ρ P c (.bool true)) (hU : Conv ρ P U w) (hrest : ConvW (ρ.set m w) P c [(m, init, U)] K v) :
    ConvW ρ P c [(m, init, U)] K v := by
  obtain ⟨N1, hc⟩ := hc; obtain ⟨N2, hU⟩ := hU; obtain ⟨N3, hrest⟩ := hrest
  refine ⟨max N1 (max N2 N3) + 3, fun n hn => ?_⟩
  obtain ⟨k, rfl⟩ : ∃ k, n = k + 3 := ⟨n - 3, by omega⟩
  rw [whileLoop_succ, hc (k + 2) (by omega)]
  simp only [bind, Except.bind, asBool, if_true, List.map]
  rw [evalBinds_cons]
  simp only [Bool.false_eq_true, if_false]
  rw [hU (k + 1) (by omega)]
  simp only [bind, Except.bind]
  rw [evalBinds_nil]
  exact hrest (k + 2) (by omega)

theorem conv_while {ρ : Env} {P : Props} {c K U init : FExpr} {m : String} {w0 v : Val}
    (hi : Conv ρ P init w0) (hloop : ConvW (ρ.set m w0) P c [(m, init, U)] K v) :
    Conv ρ P (.while_ false c [(m, init, U)] K) v := by
  obtain ⟨N1, hi⟩ := hi; obtain ⟨N2, hloop⟩ := hloop
  refine ⟨max N1 N2 + 3, fun n hn => ?_⟩
  obtain ⟨k, rfl⟩ : ∃ k, n = k + 3 := ⟨n - 3, by omega⟩
  rw [eval_while]
  simp only [List.map]
  rw [evalBinds_cons]
  simp only [Bool.false_eq_true, if_false]
  rw [hi (k + 1) (by omega)]
  simp only [bind, Except.bind]
  rw [evalBinds_nil]
  exact hloop (k + 2) (by omega)

/-! ### `for` over one dimension, one binding -/

def ConvF (ρ : Env) (P : Props) (k : String) (poss : List (List Nat)) (binds : List (String × FExpr × FExpr)) (K : FExpr) (v : Val) : Prop :=
  ∃ N, ∀ n, N ≤ n → C12.forLoop n false ρ P [k] poss binds K = .ok v

theorem convF_done {ρ : Env} {P : Props} {k : String} {binds : List (String × FExpr × FExpr)} {K : FExpr} {v : Val}
    (hK : Conv ρ P K v) : ConvF ρ P k [] binds K v := by
  obtain ⟨N, hK⟩ := hK
  refine ⟨N + 1, fun n hn => ?_⟩
  obtain ⟨m, rfl⟩ : ∃ m, n = m + 1 := ⟨n - 1, by omega⟩
  rw [forLoop_nil]; exact hK m (by omega)

theorem convF_step {ρ : Env} {P : Props} {k m : String} {i : Nat} {more : List (List Nat)} {init U K : FExpr} {w v : Val}
    (hU : Conv (ρ.set k (intVal (Int.ofNat i))) P U w)
    (hrest : ConvF ((ρ.set k (intVal (Int.ofNat i))).set m w) P k more [(m, init, U)] K v) :
    ConvF ρ P k ([i] :: more) [(m, init, U)] K v := by
  obtain ⟨N1, hU⟩ := hU; obtain ⟨N2, hrest⟩ := hrest
  refine ⟨max N1 N2 + 3, fun n hn => ?_⟩
  obtain ⟨j, rfl⟩ : ∃ j, n = j + 3 := ⟨n - 3, by omega⟩
  rw [forLoop_cons]
  simp only [List.map, List.zip_cons_cons, List.zip_nil_right, bindAll]
  rw [evalBinds_cons]
  simp only [Bool.false_eq_true, if_false]
  rw [hU (j + 1) (by omega)]
  simp only [bind, Except.bind]
  rw [evalBinds_nil]
  exact hrest (j + 2) (by omega)

theorem conv_for {ρ : Env} {P : Props} {k m : String} {dimE init U K : FExpr} {dv w0 v : Val} {n : Nat}
    (hd : Conv ρ P dimE dv) (hidx : asIndex dv = .ok n) (hi : Conv ρ P init w0)
    (hloop : ConvF (ρ.set m w0) P k ((List.range n).map fun i => [i]) [(m, init, U)] K v) :
    Conv ρ P (.for_ false [(k, dimE)] [(m, init, U)] K) v := by
  obtain ⟨N1, hd⟩ := hd; obtain ⟨N2, hi⟩ := hi; obtain ⟨N3, hloop⟩ := hloop
  refine ⟨max N1 (max N2 N3) + 3, fun f hf => ?_⟩
  obtain ⟨j, rfl⟩ : ∃ j, f = j + 3 := ⟨f - 3, by omega⟩
  rw [eval_for, evalDims_cons, hd (j + 1) (by omega)]
  simp only [bind, Except.bind, hidx]
  rw [evalDims_nil]
  simp only [pure, Except.pure, List.map]
  rw [evalBinds_cons]
  simp only [Bool.false_eq_true, if_false]
  rw [hi (j + 1) (by omega)]
  simp only [bind, Except.bind]
  rw [evalBinds_nil, positions_one]
  exact hloop (j + 2) (by omega)

/-! ### `(tensor ([%j n]) %j)`, `(size %it 0)`, `(ref %it %k)` -/

theorem tensorLoop_range (ρ : Env) (P : Props) (j : String) : ∀ (l : List Nat) (f : Nat), l.length + 2 ≤ f →
    tensorLoop f ρ P [j] (l.map fun i => [i]) (.var j) = .ok (l.map fun (i : Nat) => intVal (Int.ofNat i)) := by
  intro l
  induction l with
  | nil =>
    intro f hf
    obtain ⟨m, rfl⟩ : ∃ m, f = m + 1 := ⟨f - 1, by omega⟩
    simp only [List.map]; rw [tensorLoop_nil]
  | cons a l ih =>
    intro f hf
    simp only [List.length_cons] at hf
    obtain ⟨m, rfl⟩ : ∃ m, f = m + 2 := ⟨f - 2, by omega⟩
    simp only [List.map]
    rw [tensorLoop_cons]
    simp only [List.map, List.zip_cons_cons, List.zip_nil_right, bindAll]
    rw [eval_var, get?_set_self]
    simp only [bind, Except.bind]
    rw [ih (m + 1) (by omega)]
    rfl

/-- the iterable of `for x in range(round(n))` -/
theorem conv_range {ρ : Env} {P : Props} {C : Ctx} (hP : P.toCtx = .ok C) (n : Nat) (hL : CtxLits C (n + 1)) :
    Conv ρ P (.tensor [("%j", .num (.q (n : Int) 1))] (.var "%j"))
      (.tuple ((List.range n).map fun (i : Nat) => intVal (Int.ofNat i))) := by
  obtain ⟨r, hr, hidx⟩ := hL n (by omega)
  refine ⟨n + 5, fun f hf => ?_⟩
  obtain ⟨m, rfl⟩ : ∃ m, f = m + 3 := ⟨f - 3, by omega⟩
  rw [eval_tensor, evalDims_cons, eval_num, hP]
  simp only [bind, Except.bind, hr, pure, Except.pure, hidx]
  rw [evalDims_nil]
  simp only [List.map]
  rw [positions_one, tensorLoop_range ρ P "%j" (List.range n) (m + 2) (by simp; omega)]
  simp only [reshape]

theorem conv_size0 {ρ : Env} {P : Props} {C : Ctx} (hP : P.toCtx = .ok C) (hL : CtxLits C 1) {a : FExpr} {vs : List Val}
    (ha : Conv ρ P a (.tuple vs)) : Conv ρ P (.size a (.num (.q 0 1))) (.num (.q (vs.length : Int) 1)) := by
  obtain ⟨r, hr, hidx⟩ := hL 0 (by omega)
  obtain ⟨N, ha⟩ := ha
  refine ⟨N + 2, fun f hf => ?_⟩
  obtain ⟨m, rfl⟩ : ∃ m, f = m + 2 := ⟨f - 2, by omega⟩
  have hk : eval (m + 1) ρ P (.num (.q 0 1)) = .ok (.num r) := by
    rw [eval_num, hP]
    simp only [bind, Except.bind]
    have : opEval C .round [cvtReal (.q ((0 : Nat) : Int) 1)] = .ok r := hr
    simp only [Int.ofNat_zero, Int.natCast_zero] at this
    rw [this]; rfl
  exact eval_size_tuple (m + 1) ρ P a _ vs _ (ha (m + 1) (by omega)) hk hidx

theorem conv_ref_var {ρ : Env} {P : Props} {it k : String} {vs : List Val} {i : Nat} {x : Val}
    (hit : ρ.get? it = some (.tuple vs)) (hk : ρ.get? k = some (intVal (Int.ofNat i))) (hx : vs[i]? = some x) :
    Conv ρ P (.ref (.var it) [.var k]) x := by
  refine ⟨4, fun f hf => ?_⟩
  obtain ⟨m, rfl⟩ : ∃ m, f = m + 3 := ⟨f - 3, by omega⟩
  rw [eval_ref, eval_var, hit, evalList_cons, eval_var, hk]
  simp only [bind, Except.bind]
  rw [evalList_nil]
  simp only [pure, Except.pure, List.mapM_cons, List.mapM_nil, asIndex_intVal, bind, Except.bind, refIdx, hx]

end Fpy.C12
