/-
The two number-layer interfaces of the loop-unrolling theorems (C08), PROVED:

* `intArith_INTEGER : IntArith Lib.integerCtx` — under `fp.INTEGER`
  (`MPFixedContext(-1, RM.RTZ, enable_neg_zero=False)`, modelled by `Lib.integerCtx`) sums, differences and
  C remainders of integer-valued numbers are exact, for every representation `nvInt?` accepts
  (`Float` with any redundant encoding, either zero, or an integer-valued `Fraction`);
* `intEq : IntEq` — `==` on integer-valued numbers is equality of the integers.

Route: C02 (`add_correct`, `sub_correct`, `fmod_correct`, `op_exact_correct`: the operation is the exact
`RealFloat` result rounded ONCE by the context), C05 (`val_add`, `val_sub`, `toInt_some`, `compare_cmpRat`:
the value is a homomorphism), C01v (`round_fixed_unchanged`: a value on the grid is returned unchanged).
-/
import Fpy.Proof.LangIdx8
import Fpy.Proof.EFT
import Fpy.Props.C01v
namespace Fpy.Xform
open Fpy Fpy.Lang Fpy.Spec

/-! ### integer-valued `RealFloat`s -/

/-- a record whose value is the integer `i` reads as `i` -/
theorem toInt_of_val (x : RF) (i : Int) (h : x.val = (i : Rat)) : x.toInt? = some i := by
  cases hx : x.toInt? with
  | none => exact absurd ⟨i, h⟩ ((RF.toInt_none_iff x).mp hx)
  | some j =>
    have hj := RF.toInt_some x j hx
    rw [h, Rat.intCast_inj] at hj
    rw [hj]

/-- the integer reading over a common denominator: `i · 2^(−exp)⁺ = m · 2^(exp)⁺` -/
theorem toInt_spec (x : RF) (i : Int) (h : x.toInt? = some i) :
    i * ((2 ^ (-x.exp).toNat : Nat) : Int) = x.m * ((2 ^ x.exp.toNat : Nat) : Int) := by
  unfold RF.toInt? at h
  by_cases hi : x.isInteger = true
  · simp only [hi, Bool.not_true, Bool.false_eq_true, if_false] at h
    by_cases h0 : x.c = 0
    · simp only [h0, if_true, Option.some.injEq] at h
      subst h; unfold RF.m; simp [h0]
    · simp only [h0, if_false, Option.some.injEq] at h
      subst h
      by_cases he : x.exp ≥ 0
      · have e0 : (-x.exp).toNat = 0 := by omega
        simp only [he, if_true, e0, Nat.pow_zero]
        unfold RF.m
        cases x.s <;> simp [Int.neg_mul]
      · have e0 : x.exp.toNat = 0 := by omega
        have hm : x.c % 2 ^ (-x.exp).toNat = 0 := by
          have := hi; unfold RF.isInteger at this; rw [RF.isMoreSignificant_eq] at this
          have h' : ((-1 : Int) + 1 - x.exp).toNat = (-x.exp).toNat := by omega
          rw [h'] at this; simpa using this
        simp only [he, if_false, e0, Nat.pow_zero]
        generalize (-x.exp).toNat = k at *
        have hc : x.c / 2 ^ k * 2 ^ k = x.c := by
          have := Nat.div_add_mod x.c (2 ^ k)
          rw [hm, Nat.add_zero, Nat.mul_comm] at this; exact this
        unfold RF.m
        cases x.s
        · simp only [Bool.false_eq_true, if_false]
          rw [← Int.natCast_mul, hc]; simp
        · simp only [if_true]
          rw [Int.neg_mul, ← Int.natCast_mul, hc]; simp
  · simp [hi] at h

/-- … and conversely -/
theorem toInt_of_spec (x : RF) (i : Int)
    (h : i * ((2 ^ (-x.exp).toNat : Nat) : Int) = x.m * ((2 ^ x.exp.toNat : Nat) : Int)) : x.toInt? = some i := by
  apply toInt_of_val
  rw [RF.val_eq_m]
  by_cases he : x.exp ≥ 0
  · have e0 : (-x.exp).toNat = 0 := by omega
    rw [e0] at h
    simp only [Nat.pow_zero, Int.natCast_one, Int.mul_one] at h
    obtain ⟨n, hn⟩ := Int.eq_ofNat_of_zero_le he
    rw [h, hn, Int.toNat_natCast, RF.two_zpow_nat, Rat.intCast_mul, Rat.intCast_natCast]
  · have e0 : x.exp.toNat = 0 := by omega
    rw [e0] at h
    simp only [Nat.pow_zero, Int.natCast_one, Int.mul_one] at h
    have h' : x.exp = -((-x.exp).toNat : Int) := by omega
    generalize (-x.exp).toNat = k at h h'
    rw [← h, h', Rat.intCast_mul, Rat.intCast_natCast, Rat.zpow_neg, RF.two_zpow_nat, Rat.mul_assoc]
    have hp : ((2 ^ k : Nat) : Rat) ≠ 0 := by
      rw [Ne, Rat.natCast_eq_zero_iff]; exact Nat.ne_of_gt (Nat.pow_pos (by decide))
    rw [Rat.mul_inv_cancel _ hp, Rat.mul_one]

/-- every number `nvInt?` accepts enters an operation (`ops._cvt_to_real`) as a finite `Float` with the same
integer reading -/
theorem cvt_int (x : NV) (a : Int) (h : nvInt? x = some a) :
    ∃ r : RF, cvtReal x = .fv (.fin r) ∧ r.toInt? = some a := by
  cases x with
  | fv v =>
    cases v with
    | fin r => exact ⟨r, rfl, h⟩
    | inf s => simp [nvInt?] at h
    | nan s => simp [nvInt?] at h
  | q n d =>
    unfold nvInt? at h
    by_cases hd : d = 1
    · simp only [hd, if_true, Option.some.injEq] at h
      subst hd; subst h
      refine ⟨RF.ofInt n, ?_, toInt_ofInt' n⟩
      simp [cvtReal, NV.ofRat]
    · simp [hd] at h

/-! ### rounding an integer under `fp.INTEGER` is the identity on its integer reading -/

theorem int_round (z : RF) (i : Int) (h : z.toInt? = some i) :
    ∃ res z', Lib.integerCtx.roundAtCore (.fin z) none false 0 = .ok res ∧ res.v = .fin z' ∧ z'.toInt? = some i := by
  have hv : z.val = (i : Rat) := (RF.toInt_some z i h).symm
  unfold Lib.integerCtx Ctx.roundAtCore fixedSpecial
  by_cases hc : z.c = 0
  · simp only [hc, if_true]
    refine ⟨_, _, rfl, rfl, ?_⟩
    apply toInt_of_val
    rw [RF.val_mk_zero, ← hv, RF.val_zero_c hc]
  · simp only [hc, if_false]
    obtain ⟨y, fl, hr⟩ := Props.C01v.round_fixed_total z (-1) .rtz
    have hrep : RepFixed (-1) z.val := ⟨i, by rw [hv]; simp⟩
    obtain ⟨hy, -⟩ := Props.C01v.round_fixed_unchanged z y (-1) .rtz fl hr hrep
    simp only [hr]
    by_cases hz : (y.c = 0 && y.s && !false) = true
    · simp only [hz, if_true]
      refine ⟨_, _, rfl, rfl, ?_⟩
      apply toInt_of_val
      have hyc : y.c = 0 := by simp at hz; exact hz.1
      rw [C20.zero_unsign y hyc, hy, hv]
    · simp only [hz]
      exact ⟨_, _, rfl, rfl, toInt_of_val y i (by rw [hy, hv])⟩

/-- from "the operation is `z` rounded once" to "the operation returns a number reading as `i`" -/
theorem int_op (op : Op) (args : List NV) (z : RF) (i : Int) (hz : z.toInt? = some i)
    (hag : OpAgree (opEvalFl Lib.integerCtx op args) (Lib.integerCtx.roundAtCore (.fin z) none false 0)) :
    ∃ w, opEval Lib.integerCtx op args = .ok w ∧ nvInt? w = some i := by
  obtain ⟨res, z', hres, hv, hz'⟩ := int_round z i hz
  rw [hres] at hag
  unfold opEval
  cases ho : opEvalFl Lib.integerCtx op args with
  | error e => rw [ho] at hag; simp [OpAgree] at hag
  | ok p =>
    obtain ⟨v, fl⟩ := p
    rw [ho] at hag
    simp only [OpAgree] at hag
    refine ⟨v, rfl, ?_⟩
    rw [hag.1, hv]; exact hz'

theorem integerCtx_det : Lib.integerCtx.det := rfl

/-! ### scaling lemmas for the aligned significands of `fmod` -/

theorem dy_scale {a c p1 q1 p2 q2 t : Nat} (H : a * 2 ^ p1 = c * 2 ^ q1) (he : q1 + p2 = t + q2 + p1) :
    a * 2 ^ p2 = c * 2 ^ t * 2 ^ q2 := by
  apply Nat.eq_of_mul_eq_mul_right (Nat.pow_pos (by decide) : 0 < 2 ^ p1)
  calc a * 2 ^ p2 * 2 ^ p1 = a * 2 ^ p1 * 2 ^ p2 := by rw [Nat.mul_right_comm]
    _ = c * 2 ^ q1 * 2 ^ p2 := by rw [H]
    _ = c * 2 ^ (q1 + p2) := by rw [Nat.mul_assoc, ← Nat.pow_add]
    _ = c * 2 ^ (t + q2 + p1) := by rw [he]
    _ = c * 2 ^ t * 2 ^ q2 * 2 ^ p1 := by rw [Nat.pow_add, Nat.pow_add, Nat.mul_assoc, Nat.mul_assoc, Nat.mul_assoc]

/-- a non-negative integer-valued record with a non-zero significand has sign `+` and `a·2^(−exp)⁺ = c·2^(exp)⁺` -/
theorem nat_spec (x : RF) (a : Nat) (h : x.toInt? = some (a : Int)) (hc : x.c ≠ 0) :
    x.s = false ∧ a * 2 ^ (-x.exp).toNat = x.c * 2 ^ x.exp.toNat := by
  have hs := toInt_spec x a h
  have hp : 0 < x.c * 2 ^ x.exp.toNat := Nat.mul_pos (Nat.pos_of_ne_zero hc) (Nat.pow_pos (by decide))
  unfold RF.m at hs
  cases hxs : x.s
  · simp only [hxs, Bool.false_eq_true, if_false] at hs
    refine ⟨rfl, ?_⟩
    have : ((a * 2 ^ (-x.exp).toNat : Nat) : Int) = ((x.c * 2 ^ x.exp.toNat : Nat) : Int) := by
      rw [Int.natCast_mul, Int.natCast_mul]; exact hs
    exact Int.ofNat.inj this
  · simp only [hxs, if_true] at hs
    exfalso
    have h1 : (0 : Int) ≤ (a : Int) * ((2 ^ (-x.exp).toNat : Nat) : Int) := by
      rw [← Int.natCast_mul]; exact Int.natCast_nonneg _
    have h2 : -(x.c : Int) * ((2 ^ x.exp.toNat : Nat) : Int) < 0 := by
      rw [Int.neg_mul, ← Int.natCast_mul]; omega
    omega

/-! ### `IntArith fp.INTEGER` -/

theorem int_add (x y : RF) (a b : Int) (hx : x.toInt? = some a) (hy : y.toInt? = some b) :
    ∃ w, opEval Lib.integerCtx .add [.fv (.fin x), .fv (.fin y)] = .ok w ∧ nvInt? w = some (a + b) := by
  apply int_op .add _ (x.add y) (a + b) _ (Props.C02.add_correct Lib.integerCtx integerCtx_det x y)
  apply toInt_of_val
  rw [RF.val_add, ← RF.toInt_some x a hx, ← RF.toInt_some y b hy, Rat.intCast_add]

theorem int_sub (x y : RF) (a b : Int) (hx : x.toInt? = some a) (hy : y.toInt? = some b) :
    ∃ w, opEval Lib.integerCtx .sub [.fv (.fin x), .fv (.fin y)] = .ok w ∧ nvInt? w = some (a - b) := by
  apply int_op .sub _ (x.sub y) (a - b) _ (Props.C02.sub_correct Lib.integerCtx integerCtx_det x y)
  apply toInt_of_val
  rw [C20.val_sub, ← RF.toInt_some x a hx, ← RF.toInt_some y b hy, Rat.intCast_sub]

/-- the exact C remainder of two naturals, on aligned significands -/
theorem fmodRF_int (x y : RF) (a b : Nat) (hx : x.toInt? = some (a : Int)) (hy : y.toInt? = some (b : Int))
    (hxc : x.c ≠ 0) (hyc : y.c ≠ 0) : (fmodRF x y).toInt? = some ((a % b : Nat) : Int) := by
  obtain ⟨hxs, hxe⟩ := nat_spec x a hx hxc
  obtain ⟨-, hye⟩ := nat_spec y b hy hyc
  apply toInt_of_spec
  unfold fmodRF alignRF RF.shl RF.m
  simp only [hxs, Bool.false_eq_true, if_false]
  generalize hE : min x.exp y.exp = e
  have he1 : e ≤ x.exp := by omega
  have he2 : e ≤ y.exp := by omega
  have hA := dy_scale (p2 := (-e).toNat) (q2 := e.toNat) (t := (x.exp - e).toNat) hxe (by omega)
  have hB := dy_scale (p2 := (-e).toNat) (q2 := e.toNat) (t := (y.exp - e).toNat) hye (by omega)
  rw [← Int.natCast_mul, ← Int.natCast_mul]
  congr 1
  rw [← Nat.mul_mod_mul_right, hA, hB, Nat.mul_mod_mul_right]

theorem int_fmod (x y : RF) (a b : Nat) (hx : x.toInt? = some (a : Int)) (hy : y.toInt? = some (b : Int)) (hb : 0 < b) :
    ∃ w, opEval Lib.integerCtx .fmod [.fv (.fin x), .fv (.fin y)] = .ok w ∧ nvInt? w = some ((a % b : Nat) : Int) := by
  have hyc : y.c ≠ 0 := by
    intro h0
    have := RF.toInt_some y b hy
    rw [RF.val_zero_c h0, Rat.intCast_natCast] at this
    have : b = 0 := by
      have h' : ((b : Nat) : Rat) = ((0 : Nat) : Rat) := by rw [this]; rfl
      exact Rat.natCast_inj.mp h'
    omega
  by_cases hxc : x.c = 0
  · -- a zero dividend (either sign): MPFR returns it, `fp.INTEGER` has a single zero
    have ha : a = 0 := by
      have := RF.toInt_some x a hx
      rw [RF.val_zero_c hxc, Rat.intCast_natCast] at this
      have h' : ((a : Nat) : Rat) = ((0 : Nat) : Rat) := by rw [this]; rfl
      exact Rat.natCast_inj.mp h'
    subst ha
    have hag := op_exact_correct Lib.integerCtx integerCtx_det .fmod [.fin x, .fin y] ⟨x.s, 0, 0⟩ rfl
      (by simp only [mpfrOp, mpfrOfExact, hxc, hyc, if_true, if_false])
    refine int_op .fmod _ ⟨x.s, 0, 0⟩ _ ?_ hag
    apply toInt_of_val; rw [RF.val_mk_zero]; simp
  · exact int_op .fmod _ (fmodRF x y) _ (fmodRF_int x y a b hx hy hxc hyc)
      (Props.C02.fmod_correct Lib.integerCtx integerCtx_det x y hxc hyc)

/-- **`IntArith` holds of `fp.INTEGER`** — no corner excluded: any encoding of the integers, `−0` included
(`fmod(−0, 3)` is `−0` exactly and rounds to the single zero of the context) -/
theorem intArith_INTEGER : IntArith Lib.integerCtx where
  add := by
    intro x y a b hx hy
    obtain ⟨rx, ex, hrx⟩ := cvt_int x a hx
    obtain ⟨ry, ey, hry⟩ := cvt_int y b hy
    rw [ex, ey]; exact int_add rx ry a b hrx hry
  sub := by
    intro x y a b hx hy
    obtain ⟨rx, ex, hrx⟩ := cvt_int x a hx
    obtain ⟨ry, ey, hry⟩ := cvt_int y b hy
    rw [ex, ey]; exact int_sub rx ry a b hrx hry
  fmod := by
    intro x y a b hx hy hb
    obtain ⟨rx, ex, hrx⟩ := cvt_int x a hx
    obtain ⟨ry, ey, hry⟩ := cvt_int y b hy
    rw [ex, ey]; exact int_fmod rx ry a b hrx hry hb

/-! ### `IntEq` -/

theorem toRat_int (r : RF) (a : Int) (h : r.toInt? = some a) : r.toRat.1 = a * (r.toRat.2 : Int) ∧ 0 < r.toRat.2 := by
  have hs := toInt_spec r a h
  unfold RF.m at hs
  unfold RF.toRat
  by_cases he : r.exp ≥ 0
  · have e0 : (-r.exp).toNat = 0 := by omega
    rw [e0] at hs
    simp only [he, if_true]
    refine ⟨?_, by decide⟩
    simp only [Nat.pow_zero, Int.natCast_one, Int.mul_one] at hs
    rw [hs]; simp [Int.natCast_pow]
  · have e0 : r.exp.toNat = 0 := by omega
    rw [e0] at hs
    simp only [he, if_false]
    refine ⟨?_, Nat.pow_pos (by decide)⟩
    simp only [Nat.pow_zero, Int.natCast_one, Int.mul_one] at hs
    rw [← hs]

theorem cmp_scaled (a b : Int) (d1 d2 : Nat) (h1 : 0 < d1) (h2 : 0 < d2) :
    (compare (a * (d1 : Int) * (d2 : Int)) (b * (d2 : Int) * (d1 : Int)) = .eq) ↔ a = b := by
  rw [Int.compare_eq_eq]
  have e : b * (d2 : Int) * (d1 : Int) = b * (d1 : Int) * (d2 : Int) := Int.mul_right_comm _ _ _
  rw [e]
  have n1 : (d1 : Int) ≠ 0 := by omega
  have n2 : (d2 : Int) ≠ 0 := by omega
  constructor
  · intro h
    exact Int.eq_of_mul_eq_mul_right n1 (Int.eq_of_mul_eq_mul_right n2 h)
  · intro h; rw [h]

/-- (numerator, denominator) of a number reading as the integer `a` -/
theorem nvRat_int (x : NV) (a : Int) (h : nvInt? x = some a) :
    (nvRat x).1 = a * ((nvRat x).2 : Int) ∧ 0 < (nvRat x).2 ∧ nvIsNan x = false ∧ nvIsInf x = false := by
  cases x with
  | fv v =>
    cases v with
    | fin r => obtain ⟨h1, h2⟩ := toRat_int r a h; exact ⟨h1, h2, rfl, rfl⟩
    | inf s => simp [nvInt?] at h
    | nan s => simp [nvInt?] at h
  | q n d =>
    unfold nvInt? at h
    by_cases hd : d = 1
    · simp only [hd, if_true, Option.some.injEq] at h
      subst hd; subst h
      exact ⟨by simp [nvRat], Nat.one_pos, rfl, rfl⟩
    · simp [hd] at h

theorem nvCompare_int (x y : NV) (a b : Int) (hx : nvInt? x = some a) (hy : nvInt? y = some b) :
    (Lang.nvCompare x y == some .eq) = decide (a = b) := by
  obtain ⟨px, dx, nx, ix⟩ := nvRat_int x a hx
  obtain ⟨py, dy, ny, iy⟩ := nvRat_int y b hy
  have key : Lang.nvCompare x y = some (compare ((nvRat x).1 * ((nvRat y).2 : Int)) ((nvRat y).1 * ((nvRat x).2 : Int))) ∨
      (∃ rx ry, x = .fv (.fin rx) ∧ y = .fv (.fin ry)) := by
    cases x with
    | q n d => left; unfold Lang.nvCompare; simp [nx, ix, ny, iy] <;> (cases y <;> simp_all [nvIsNan, nvIsInf])
    | fv u =>
      cases y with
      | q n d => left; unfold Lang.nvCompare; simp [nx, ix, ny, iy]
      | fv v =>
        right
        cases u with
        | fin rx =>
          cases v with
          | fin ry => exact ⟨rx, ry, rfl, rfl⟩
          | inf s => simp [nvInt?] at hy
          | nan s => simp [nvInt?] at hy
        | inf s => simp [nvInt?] at hx
        | nan s => simp [nvInt?] at hx
  rcases key with hk | ⟨rx, ry, rfl, rfl⟩
  · rw [hk, px, py]
    have := cmp_scaled a b _ _ dx dy
    by_cases hab : a = b
    · rw [this.2 hab]; simp [hab]
    · have hne : ¬ compare (a * ((nvRat x).2 : Int) * ((nvRat y).2 : Int)) (b * ((nvRat y).2 : Int) * ((nvRat x).2 : Int)) = .eq :=
        fun h => hab (this.1 h)
      simp [hab, hne]
  · show (some (rx.compare ry) == some .eq) = decide (a = b)
    rw [RF.compare_cmpRat, ← RF.toInt_some rx a hx, ← RF.toInt_some ry b hy]
    unfold cmpRat
    by_cases h1 : (a : Rat) < (b : Rat)
    · have : a ≠ b := by have := Rat.intCast_lt_intCast.mp h1; omega
      simp [h1, this]
    · by_cases h2 : (b : Rat) < (a : Rat)
      · have : a ≠ b := by have := Rat.intCast_lt_intCast.mp h2; omega
        simp [h1, h2, this]
      · have hab : a = b := by
          have n1 : ¬ a < b := fun h => h1 (Rat.intCast_lt_intCast.mpr h)
          have n2 : ¬ b < a := fun h => h2 (Rat.intCast_lt_intCast.mpr h)
          omega
        subst hab
        simp [h1]

/-- **`IntEq`**: `==` on integer-valued numbers (any mix of `Float` and `Fraction` representations, `−0 == 0`
included) is equality of the integers -/
theorem intEq : IntEq where
  eq := by
    intro x y a b μ n hx hy
    rw [valEq]
    show (Except.ok (Lang.nvCompare x y == some .eq) : M Bool) = .ok (decide (a = b))
    rw [nvCompare_int x y a b hx hy]

end Fpy.Xform
