/-
C12 (round 2) — the reader on operands: what FPCore evaluates an operand to, the expression read from it
evaluates to in the core language (under the context the properties in force denote).
-/
import Fpy.Proof.FPCoreReadBase
set_option linter.unusedSimpArgs false
set_option linter.unusedVariables false
set_option linter.unusedSectionVars false
namespace Fpy.C12
open Fpy Fpy.Lang

theorem eval_opF (n : Nat) (ρ : Env) (P : Props) (o : Op) (args : List FExpr) :
    eval (n + 1) ρ P (.op o args) =
      (do let vs ← evalList n ρ P args
          let ns ← vs.mapM asNum
          let C ← P.toCtx
          let r ← opEval C o (ns.map cvtReal)
          pure (.num r)) := by
  simp only [eval] <;> rfl

/-- the FPy names hold the values of the FPCore variables -/
def PEnv (m : RMap) (ρ σ : Env) : Prop := ∀ x y, m.get? x = some y → ρ.get? x = σ.get? y

theorem order_cop (o : CmpOp) (h : isOrder o = true) : ∃ co : COp, co.toCmp = o := by
  cases o with
  | lt => exact ⟨.lt, rfl⟩
  | le => exact ⟨.le, rfl⟩
  | gt => exact ⟨.gt, rfl⟩
  | ge => exact ⟨.ge, rfl⟩
  | eq => simp [isOrder] at h
  | ne => simp [isOrder] at h

theorem cmpNums_ord (co : COp) (x y : NV) : cmpNums co.toCmp x y = cmpHolds co.toCmp (Lang.nvCompare x y) := by
  cases co <;> rfl

section
variable (Φ : Funs)

theorem readP_sound_all : ∀ N n, n ≤ N →
    (∀ (p : FExpr) (m : RMap) (P : Props) (C : Ctx) (ρ σ : Env) (μ : Heap) (v : Val) (r : Expr),
      eval n ρ P p = .ok v → readP m p = some r → P.toCtx = .ok C → PEnv m ρ σ → Gives Φ σ μ C r v) ∧
    (∀ (ps : List FExpr) (m : RMap) (P : Props) (C : Ctx) (ρ σ : Env) (μ : Heap) (vs : List Val) (rs : List Expr),
      evalList n ρ P ps = .ok vs → readPs m ps = some rs → P.toCtx = .ok C → PEnv m ρ σ →
      ∃ F, evalEs Φ F σ μ C rs = .ok (vs, μ)) := by
  intro N
  induction N with
  | zero =>
    intro n hn
    have : n = 0 := by omega
    subst this
    exact ⟨fun p m P C ρ σ μ v r h => by simp [eval] at h, fun ps m P C ρ σ μ vs rs h => by simp [evalList] at h⟩
  | succ N ih =>
    intro n hn
    by_cases hle : n ≤ N
    · exact ih n hle
    · have : n = N + 1 := by omega
      subst this
      have ihN := ih N (Nat.le_refl _)
      constructor
      · intro p m P C ρ σ μ v r h hr hP hE
        cases p with
        | var x =>
          rw [eval_var] at h
          simp only [readP, Option.map_eq_some_iff] at hr
          obtain ⟨y, hy, rfl⟩ := hr
          refine ⟨1, ?_⟩
          rw [evalE_var, ← hE x y hy]
          cases hx : ρ.get? x with
          | none => rw [hx] at h; cases h
          | some w => rw [hx] at h; cases h; rfl
        | num q =>
          rw [eval_num, hP] at h
          simp only [bind, Except.bind] at h
          simp only [readP, Option.some.injEq] at hr
          subst hr
          cases ho : opEval C .round [cvtReal q] with
          | error e => rw [ho] at h; cases h
          | ok rr =>
            rw [ho] at h
            simp only [pure, Except.pure, Except.ok.injEq] at h
            subst h
            refine ⟨3, ?_⟩
            rw [evalE_op, evalEs_cons, evalE_num]
            simp only [bind, Except.bind]
            rw [evalEs_nil]
            simp only [pure, Except.pure, List.mapM_cons, List.mapM_nil, bind, Except.bind, asNum, List.map_cons, List.map_nil, ho]
        | op o args =>
          rw [eval_opF, hP] at h
          simp only [readP, Option.map_eq_some_iff] at hr
          obtain ⟨rs, hrs, rfl⟩ := hr
          cases hl : evalList N ρ P args with
          | error e => rw [hl] at h; cases h
          | ok vs =>
            rw [hl] at h
            simp only [bind, Except.bind] at h
            obtain ⟨F, hF⟩ := ihN.2 args m P C ρ σ μ vs rs hl hrs hP hE
            refine ⟨F + 1, ?_⟩
            rw [evalE_op, hF]
            simp only [bind, Except.bind]
            cases hm : vs.mapM asNum with
            | error e => rw [hm] at h; cases h
            | ok ns =>
              rw [hm] at h
              simp only at h ⊢
              cases ho : opEval C o (ns.map cvtReal) with
              | error e => rw [ho] at h; cases h
              | ok rr =>
                rw [ho] at h
                simp only [pure, Except.pure, Except.ok.injEq] at h
                subst h
                rfl
        | cmp o args =>
          match args, hr with
          | [a, b], hr =>
            simp only [readP] at hr
            split at hr
            · next ho =>
              obtain ⟨co, rfl⟩ := order_cop o ho
              cases hra : readP m a with
              | none => rw [hra] at hr; simp at hr
              | some a' =>
                cases hrb : readP m b with
                | none => rw [hra, hrb] at hr; simp at hr
                | some b' =>
                  rw [hra, hrb] at hr
                  simp only [Option.some.injEq] at hr
                  subst hr
                  rw [eval_cmp_cons] at h
                  cases ha : eval N ρ P a with
                  | error e => rw [ha] at h; cases h
                  | ok av =>
                    rw [ha] at h
                    simp only [bind, Except.bind] at h
                    cases hax : asNum av with
                    | error e => rw [hax] at h; cases h
                    | ok x =>
                      rw [hax] at h
                      simp only at h
                      cases N with
                      | zero => simp [evalCmp] at h
                      | succ N1 =>
                        rw [evalCmp_cons] at h
                        cases hb : eval N1 ρ P b with
                        | error e => rw [hb] at h; cases h
                        | ok bv =>
                          rw [hb] at h
                          simp only [bind, Except.bind] at h
                          cases hby : asNum bv with
                          | error e => rw [hby] at h; cases h
                          | ok y =>
                            rw [hby] at h
                            simp only at h
                            obtain ⟨Fa, hFa⟩ := ihN.1 a m P C ρ σ μ av a' ha hra hP hE
                            obtain ⟨Fb, hFb⟩ := (ih N1 (by omega)).1 b m P C ρ σ μ bv b' hb hrb hP hE
                            refine ⟨max Fa Fb + 3, ?_⟩
                            rw [evalE_cmp_cons, Fpy.Xform.evalE_fuel_mono (f' := max Fa Fb + 2) (by omega) hFa (by simp)]
                            simp only [bind, Except.bind]
                            rw [evalChain_order, Fpy.Xform.evalE_fuel_mono (f' := max Fa Fb + 1) (by omega) hFb (by simp)]
                            simp only [bind, Except.bind, hax, hby]
                            rw [← cmpNums_ord]
                            by_cases hc : cmpNums co.toCmp x y = true
                            · rw [if_pos hc] at h ⊢
                              cases N1 with
                              | zero => simp [evalCmp] at h
                              | succ N2 =>
                                rw [evalCmp_nil] at h
                                cases h
                                have : max Fa Fb + 1 = (max Fa Fb) + 1 := rfl
                                rw [evalChain_nil]
                            · rw [if_neg hc] at h ⊢
                              simp only [pure, Except.pure, Except.ok.injEq] at h
                              subst h
                              rfl
            · cases hr
          | [], hr => simp [readP] at hr
          | [_], hr => simp [readP] at hr
          | _ :: _ :: _ :: _, hr => simp [readP] at hr
        | _ => simp [readP] at hr
      · intro ps m P C ρ σ μ vs rs h hr hP hE
        cases ps with
        | nil =>
          rw [evalList_nil] at h
          cases h
          simp only [readPs, Option.some.injEq] at hr
          subst hr
          exact ⟨1, by rw [evalEs_nil]⟩
        | cons p ps =>
          rw [evalList_cons] at h
          simp only [readPs] at hr
          cases hrp : readP m p with
          | none => rw [hrp] at hr; simp at hr
          | some p' =>
            cases hrps : readPs m ps with
            | none => rw [hrp, hrps] at hr; simp at hr
            | some ps' =>
              rw [hrp, hrps] at hr
              simp only [Option.some.injEq] at hr
              subst hr
              cases hp : eval N ρ P p with
              | error e => rw [hp] at h; cases h
              | ok pv =>
                rw [hp] at h
                simp only [bind, Except.bind] at h
                cases hps : evalList N ρ P ps with
                | error e => rw [hps] at h; cases h
                | ok pvs =>
                  rw [hps] at h
                  simp only [pure, Except.pure, Except.ok.injEq] at h
                  subst h
                  obtain ⟨F1, hF1⟩ := ihN.1 p m P C ρ σ μ pv p' hp hrp hP hE
                  obtain ⟨F2, hF2⟩ := ihN.2 ps m P C ρ σ μ pvs ps' hps hrps hP hE
                  refine ⟨max F1 F2 + 1, ?_⟩
                  rw [evalEs_cons, Fpy.Xform.evalE_fuel_mono (Nat.le_max_left F1 F2) hF1 (by simp)]
                  simp only [bind, Except.bind]
                  rw [Fpy.Xform.evalEs_fuel_mono (Nat.le_max_right F1 F2) hF2 (by simp)]
                  rfl

theorem readP_sound {n : Nat} {p : FExpr} {m : RMap} {P : Props} {C : Ctx} {ρ σ : Env} {μ : Heap} {v : Val} {r : Expr}
    (h : eval n ρ P p = .ok v) (hr : readP m p = some r) (hP : P.toCtx = .ok C) (hE : PEnv m ρ σ) : Gives Φ σ μ C r v :=
  (readP_sound_all Φ n n (Nat.le_refl _)).1 p m P C ρ σ μ v r h hr hP hE

end
end Fpy.C12
