/-
Helper lemmas for C06, front end: Python's numeric tokens (digit groups with `_` separators)
and the repaired `_parse_constant` (`parseFloatRepaired`), which re-reads the text of a float literal.
-/
import Fpy.Proof.Literal
namespace Fpy.Lit
open Fpy.Spec.Lit

/-! ### digit groups with `_` separators -/

/-- the list is empty or starts with a character that is neither accepted by `p` nor `_` -/
def StopU (p : Char → Bool) (r : List Char) : Prop := ∀ c t, r = c :: t → p c = false ∧ c ≠ '_'

theorem stopU_nil (p : Char → Bool) : StopU p [] := by intro c t h; cases h
theorem stopU_cons {p : Char → Bool} {c : Char} (h : p c = false) (h' : c ≠ '_') (t : List Char) :
    StopU p (c :: t) := by
  intro c' t' e; cases e; exact ⟨h, h'⟩

theorem digitPartAux_group (p : Char → Bool) (hus : p '_' = false) (r : List Char) (hr : StopU p r) :
    ∀ (g : Group), (∀ uc ∈ g, p uc.2 = true) → ∀ (fuel : Nat) (acc : List Char),
      (g.render ++ r).length < fuel → (acc = [] → ∀ uc, g.head? = some uc → uc.1 = false) →
      digitPartAux p fuel acc (g.render ++ r) = some (acc.reverse ++ g.digits, r) := by
  intro g
  induction g with
  | nil =>
    intro _ fuel acc hf _
    cases fuel with
    | zero => omega
    | succ n =>
      cases r with
      | nil => simp [Group.render, Group.digits, digitPartAux]
      | cons c t =>
        obtain ⟨h1, h2⟩ := hr c t rfl
        have : (c == '_') = false := by simpa using h2
        simp [Group.render, Group.digits, digitPartAux, h1, this]
  | cons uc g ih =>
    intro hd fuel acc hf hacc
    obtain ⟨u, c⟩ := uc
    have hc : p c = true := hd (u, c) (by simp)
    have hd' : ∀ uc ∈ g, p uc.2 = true := fun uc h => hd uc (by simp [h])
    cases u with
    | false =>
      cases fuel with
      | zero => omega
      | succ n =>
        have hlen : (Group.render g ++ r).length < n := by
          simp [Group.render] at hf; simp; omega
        simp only [Group.render, Bool.false_eq_true, ↓reduceIte, List.cons_append, List.nil_append, digitPartAux, hc]
        rw [ih hd' n (c :: acc) hlen (by intro h; cases h)]
        simp [Group.digits]
    | true =>
      have hne : acc ≠ [] := by
        intro h; have := hacc h (true, c) (by simp); cases this
      have hemp : acc.isEmpty = false := by cases acc <;> simp_all
      cases fuel with
      | zero => omega
      | succ n =>
        cases n with
        | zero => simp [Group.render] at hf
        | succ m =>
          have hlen : (Group.render g ++ r).length < m := by
            simp [Group.render] at hf; simp; omega
          simp only [Group.render, ↓reduceIte, List.cons_append, List.nil_append, digitPartAux, hus,
            Bool.false_eq_true, beq_self_eq_true, hemp, Bool.not_false, Bool.and_self, hc]
          rw [ih hd' m (c :: acc) hlen (by intro h; cases h)]
          simp [Group.digits]

theorem digitPart_group (p : Char → Bool) (hus : p '_' = false) (g : Group) (hd : ∀ uc ∈ g, p uc.2 = true)
    (hh : ∀ uc, g.head? = some uc → uc.1 = false) (r : List Char) (hr : StopU p r) :
    digitPart p (g.render ++ r) = some (g.digits, r) := by
  unfold digitPart
  rw [digitPartAux_group p hus r hr g hd _ [] (by omega) (fun _ => hh)]
  simp

theorem group_isDig {g : Group} (h : g.WF) : ∀ uc ∈ g, isDig uc.2 = true :=
  fun uc huc => (isDig_iff _).2 (h.digits uc huc)

theorem group_digits_isDigit {g : Group} (h : g.WF) : ∀ c ∈ g.digits, IsDigit 10 c := by
  intro c hc
  simp only [Group.digits, List.mem_map] at hc
  obtain ⟨uc, huc, rfl⟩ := hc
  exact h.digits uc huc

theorem group_digits_ne {g : Group} (h : g ≠ []) : g.digits ≠ [] := by
  cases g <;> simp_all [Group.digits]

/-- a non-empty well-formed group renders to text that starts with a digit -/
theorem group_render_head {g : Group} (h : g.WF) (hne : g ≠ []) :
    ∃ c t, g.render = c :: t ∧ IsDigit 10 c := by
  cases g with
  | nil => exact absurd rfl hne
  | cons uc g =>
    obtain ⟨u, c⟩ := uc
    have : u = false := h.head (u, c) (by simp)
    subst this
    exact ⟨c, Group.render g, by simp [Group.render], h.digits (false, c) (by simp)⟩

/-! ### the tokenizer on float tokens -/

def exText : Option (Sign × Group) → Option (List Char)
  | none => none
  | some (sg, g) => some (sg.chars ++ g.digits)

def exChars (E : Char) : Option (Sign × Group) → List Char
  | none => []
  | some (sg, g) => E :: (sg.chars ++ g.render)

theorem stopU_exChars (E : Char) (hE : E = 'e' ∨ E = 'E') (ex : Option (Sign × Group)) : StopU isDig (exChars E ex) := by
  cases ex with
  | none => exact stopU_nil _
  | some v => cases hE with
    | inl h => subst h; exact stopU_cons (by decide) (by decide) _
    | inr h => subst h; exact stopU_cons (by decide) (by decide) _

theorem pyExponent_exChars (E : Char) (hE : E = 'e' ∨ E = 'E') (ex : Option (Sign × Group))
    (hw : ∀ sg g, ex = some (sg, g) → g ≠ [] ∧ g.WF) :
    pyExponent (exChars E ex) = some (exText ex, []) := by
  cases ex with
  | none => rfl
  | some v =>
    obtain ⟨sg, g⟩ := v
    obtain ⟨hne, hg⟩ := hw sg g rfl
    obtain ⟨c, t, hrt, hc⟩ := group_render_head hg hne
    have hns : NoSign g.render := by
      rw [hrt]
      constructor <;> (simp only [List.head?_cons, ne_eq, Option.some.injEq]; intro e; subst e; revert hc; unfold IsDigit; decide)
    have hE' : (E == 'e' || E == 'E') = true := by cases hE with | inl h => subst h; rfl | inr h => subst h; rfl
    have hdp : digitPart isDig g.render = some (g.digits, []) := by
      have := digitPart_group isDig (by decide) g (group_isDig hg) hg.head [] (stopU_nil _)
      simpa using this
    have hemp : g.digits.isEmpty = false := by
      have := group_digits_ne hne; cases hd : g.digits <;> simp_all
    simp only [exChars, pyExponent, hE', ↓reduceIte, matchSign_render sg g.render hns, hdp, hemp, Bool.false_eq_true, exText]
    cases sg <;> rfl

theorem pyDecimal_float (E : Char) (hE : E = 'e' ∨ E = 'E') (t : PyFloat) (h : t.WF) :
    pyDecimal (t.render E) = .ok (.float t.ip.digits t.fp.digits (exText t.ex)) := by
  have hX : StopU isDig (exChars E t.ex) := stopU_exChars E hE t.ex
  have hrender : t.render E = t.ip.render ++ ((if t.dot then '.' :: t.fp.render else []) ++ exChars E t.ex) := by
    unfold PyFloat.render exChars; cases t.ex <;> rfl
  have hEdot : E ≠ '.' := by cases hE with | inl h => subst h; decide | inr h => subst h; decide
  have hpe := pyExponent_exChars E hE t.ex h.ex_wf
  have hnonempty : (t.ip.digits.isEmpty && t.fp.digits.isEmpty) = false := by
    cases h.some_digits with
    | inl hi => have := group_digits_ne hi; cases hd : t.ip.digits <;> simp_all
    | inr hf => have := group_digits_ne hf; cases hd : t.fp.digits <;> simp_all
  rw [hrender]
  unfold pyDecimal
  cases hdot : t.dot with
  | true =>
    have hF : StopU isDig ('.' :: (t.fp.render ++ exChars E t.ex)) := stopU_cons (by decide) (by decide) _
    simp only [↓reduceIte, List.cons_append,
      digitPart_group isDig (by decide) t.ip (group_isDig h.ip_wf) h.ip_wf.head _ hF, pyFraction,
      digitPart_group isDig (by decide) t.fp (group_isDig h.fp_wf) h.fp_wf.head _ hX, hnonempty,
      Bool.false_eq_true, hpe, Bool.true_or]
  | false =>
    have hfp : t.fp = [] := h.no_dot_no_fp hdot
    have hex : t.ex.isSome = true := by cases h.is_float with | inl h' => simp [hdot] at h' | inr h' => exact h'
    have hfr : pyFraction (exChars E t.ex) = some (false, [], exChars E t.ex) := by
      cases hx : t.ex with
      | none => simp [hx] at hex
      | some v =>
        obtain ⟨sg, g⟩ := v
        unfold pyFraction exChars
        split
        · rename_i heq; simp only [List.cons.injEq] at heq; exact absurd heq.1 hEdot
        · rfl
    have hfd : t.fp.digits = [] := by simp [hfp, Group.digits]
    simp only [Bool.false_eq_true, ↓reduceIte, List.nil_append,
      digitPart_group isDig (by decide) t.ip (group_isDig h.ip_wf) h.ip_wf.head _ hX, hfr, hfd] at hnonempty ⊢
    have hex' : (exText t.ex).isSome = true := by
      cases hx : t.ex with
      | none => simp [hx] at hex
      | some v => rfl
    simp only [hnonempty, Bool.false_eq_true, ↓reduceIte, hpe, hex', Bool.false_or]

theorem pyNumber_of_decimal {cs : List Char} {v : PyConst} (h : pyDecimal cs = .ok v) : pyNumber cs = .ok v := by
  unfold pyNumber; rw [h]

/-- a decimal integer token (digit group with optional `_` separators, no leading zero unless it
is all zeros, within the tokenizer's 4300-digit limit) is the integer it spells -/
theorem pyNumber_decint (g : Group) (hne : g ≠ []) (hg : g.WF)
    (hlz : ¬ (g.digits.head? = some '0' ∧ ∃ c ∈ g.digits, c ≠ '0')) (hlim : g.digits.length ≤ maxStrDigits) :
    pyNumber g.render = .ok (.int (intVal 10 g.digits)) := by
  apply pyNumber_of_decimal
  have hd := group_digits_isDigit hg
  have hh : horner 10 g.digits = intVal 10 g.digits := by
    unfold horner
    rw [horner_eq 10 g.digits (fun c hc => isDigit_10_16 (hd c hc)) 0]; simp
  have hany : (g.digits.head? == some '0' && g.digits.any (· != '0')) = false := by
    cases hb : (g.digits.head? == some '0' && g.digits.any (· != '0')) with
    | false => rfl
    | true =>
      exfalso; apply hlz
      simp only [Bool.and_eq_true, beq_iff_eq, List.any_eq_true, bne_iff_ne, ne_eq] at hb
      exact hb
  have hl : ¬ (g.digits.length > maxStrDigits) := by omega
  have hemp : g.digits.isEmpty = false := by
    have := group_digits_ne hne; cases hd : g.digits <;> simp_all
  have hdp : digitPart isDig g.render = some (g.digits, []) := by
    have := digitPart_group isDig (by decide) g (group_isDig hg) hg.head [] (stopU_nil _)
    simpa using this
  unfold pyDecimal
  simp only [hdp, pyFraction, hemp, Bool.false_and, Bool.false_eq_true, ↓reduceIte, pyExponent,
    Bool.false_or, Option.isSome_none, hany, hl, hh]

/-! ### the front end on float tokens -/

theorem decnum_of_render (s : Sci) (h : s.WF 10) :
    decnum (s.render [] 'e') = if withinB 10 s then .ok (s.value 10 10) else .error .value := by
  unfold decnum
  rw [strip_render 10 [] (by simp) 'e' s h, decnumCore_render s (wfb_dec h)]
  exact sciEval_eq 10 10 (by decide) true s h (Or.inl rfl)

/-- the digit groups of a float token as a decimal spelling: `0` stands in for a missing group -/
def floatSci (t : PyFloat) : Sci :=
  ⟨.none, if t.ip.digits.isEmpty then ['0'] else t.ip.digits,
    some (if t.fp.digits.isEmpty then ['0'] else t.fp.digits),
    match t.ex with | none => none | some (sg, g) => some (sg, g.digits)⟩

theorem floatText_eq (t : PyFloat) :
    floatText t.ip.digits t.fp.digits (exText t.ex) = (floatSci t).render [] 'e' := by
  unfold floatText floatSci Sci.render exText
  cases t.ex with
  | none => simp [Sign.chars, fracChars, expChars]
  | some v => obtain ⟨sg, g⟩ := v; simp [Sign.chars, fracChars, expChars]

theorem floatSci_wf (t : PyFloat) (h : t.WF) : (floatSci t).WF 10 := by
  have h0 : IsDigit 10 '0' := by unfold IsDigit; decide
  refine ⟨?_, ?_, ?_, ?_⟩
  · intro c hc
    simp only [floatSci] at hc
    split at hc
    · simp at hc; subst hc; exact h0
    · exact group_digits_isDigit h.ip_wf c hc
  · intro f hf
    simp only [floatSci, Option.some.injEq] at hf
    subst hf
    split
    · exact ⟨by simp, by intro c hc; simp at hc; subst hc; exact h0⟩
    · rename_i hne
      exact ⟨by intro e; apply hne; simp [e], group_digits_isDigit h.fp_wf⟩
  · intro hf; simp [floatSci] at hf
  · intro sg ds he
    simp only [floatSci] at he
    cases hx : t.ex with
    | none => simp [hx] at he
    | some v =>
      obtain ⟨sg', g⟩ := v
      simp only [hx, Option.some.injEq, Prod.mk.injEq] at he
      obtain ⟨rfl, rfl⟩ := he
      obtain ⟨hne, hg⟩ := h.ex_wf sg' g hx
      exact ⟨group_digits_ne hne, group_digits_isDigit hg⟩

theorem floatSci_value (t : PyFloat) : (floatSci t).value 10 10 = t.value := by
  have hi : intVal 10 (if t.ip.digits.isEmpty then ['0'] else t.ip.digits) = intVal 10 t.ip.digits := by
    cases hd : t.ip.digits <;> simp [intVal, digit, alphabet]
  have hf : fracVal 10 (if t.fp.digits.isEmpty then ['0'] else t.fp.digits) = fracVal 10 t.fp.digits := by
    cases hd : t.fp.digits <;> simp [fracVal, digit, alphabet] <;> decide +kernel
  have he : (floatSci t).expVal = t.expVal := by
    unfold Sci.expVal PyFloat.expVal floatSci
    cases t.ex with
    | none => rfl
    | some v => rfl
  unfold Sci.value PyFloat.value
  rw [he]
  simp only [floatSci, Sign.isNeg, Bool.false_eq_true, ↓reduceIte, Option.getD, hi, hf]
  rfl

/-- the limits of the implementation on a float token: no digit group longer than CPython's
`int(str)` limit, at most 6 significant digits in the exponent -/
structure FloatWithin (t : PyFloat) : Prop where
  ip : t.ip.digits.length ≤ maxStrDigits
  fp : t.fp.digits.length ≤ maxStrDigits
  ex : ∀ sg g, t.ex = some (sg, g) → g.digits.length ≤ maxStrDigits ∧
        (g.digits.dropWhile (· == '0')).length ≤ maxExponentDigits

theorem floatSci_within (t : PyFloat) (hl : FloatWithin t) : withinB 10 (floatSci t) = true := by
  unfold withinB floatSci
  have h1 : (if t.ip.digits.isEmpty then ['0'] else t.ip.digits).length ≤ maxStrDigits := by
    split
    · simp [maxStrDigits]
    · exact hl.ip
  have h2 : (if t.fp.digits.isEmpty then ['0'] else t.fp.digits).length ≤ maxStrDigits := by
    split
    · simp [maxStrDigits]
    · exact hl.fp
  simp only [bne_self_eq_false, Bool.false_or, h1, decide_true, Option.getD, h2, Bool.and_self, Bool.true_and]
  cases hx : t.ex with
  | none => rfl
  | some v => obtain ⟨sg, g⟩ := v; simpa using (hl.ex sg g hx).1

theorem expDigits_exText (t : PyFloat) (h : t.WF) (hl : FloatWithin t) :
    ¬ (expDigits ((exText t.ex).getD []) > maxExponentDigits) := by
  cases hx : t.ex with
  | none => simp [exText, expDigits, maxExponentDigits]
  | some v =>
    obtain ⟨sg, g⟩ := v
    obtain ⟨hne, hg⟩ := h.ex_wf sg g hx
    have hd := group_digits_isDigit hg
    have hlim := (hl.ex sg g hx).2
    -- the sign characters are dropped, the first digit is not one
    have hdrop : (g.digits.dropWhile (fun c => c == '+' || c == '-')) = g.digits := by
      cases hgd : g.digits with
      | nil => rfl
      | cons c r =>
        have hc : IsDigit 10 c := hd c (by simp [hgd])
        have : (c == '+' || c == '-') = false := by
          cases hb : (c == '+' || c == '-') with
          | false => rfl
          | true =>
            exfalso
            simp only [Bool.or_eq_true, beq_iff_eq] at hb
            cases hb with
            | inl e => subst e; exact not_digit_misc.2.2.1 (isDigit_10_16 hc)
            | inr e => subst e; exact not_digit_misc.2.1 (isDigit_10_16 hc)
        simp [List.dropWhile, this]
    simp only [exText, Option.getD, expDigits]
    cases sg with
    | none => simp only [Sign.chars, List.nil_append, hdrop]; omega
    | plus =>
      have : (['+'] ++ g.digits).dropWhile (fun c => c == '+' || c == '-') = g.digits := by
        simp [hdrop]
      simp only [Sign.chars, this]; omega
    | minus =>
      have : (['-'] ++ g.digits).dropWhile (fun c => c == '+' || c == '-') = g.digits := by
        simp [hdrop]
      simp only [Sign.chars, this]; omega

theorem rat_of_den_one (v : Rat) (h : v.den = 1) : ((v.num : Int) : Rat) = v := by
  apply Rat.ext <;> simp [h]

/-- **the repaired front end on a float token**: its value is the positional value of the spelling -/
theorem frontValueRepaired_float (E : Char) (hE : E = 'e' ∨ E = 'E') (t : PyFloat) (h : t.WF) (hl : FloatWithin t) :
    frontValueRepaired (t.render E) = .ok (.rat t.value) := by
  have hpn := pyNumber_of_decimal (pyDecimal_float E hE t h)
  have hdec : decnum (floatText t.ip.digits t.fp.digits (exText t.ex)) = .ok t.value := by
    rw [floatText_eq, decnum_of_render _ (floatSci_wf t h), floatSci_within t hl, floatSci_value]; rfl
  unfold frontValueRepaired
  simp only [hpn, bind, Except.bind, parseFloatRepaired, expDigits_exText t h hl, ↓reduceIte, hdec]
  by_cases hden : t.value.den = 1
  · simp only [hden, beq_self_eq_true, ↓reduceIte, Node.evalReal, Node.asReal, Node.asRational, Except.map,
      rat_of_den_one _ hden]
  · have hb : (t.value.den == 1) = false := by simpa using hden
    have hnz : (t.value == 0) = false := by
      cases hz : (t.value == 0) with
      | false => rfl
      | true => exfalso; apply hden; have : t.value = 0 := by simpa using hz
                rw [this]; rfl
    simp only [hb, Bool.false_eq_true, ↓reduceIte, Node.evalReal, Node.asReal, Node.asRational, hdec, bind, Except.bind,
      hnz, Bool.false_and, pure, Except.pure]

end Fpy.Lit
