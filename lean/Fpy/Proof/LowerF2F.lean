/-
C10 helper lemmas: `float_to_fixed` at context level.
-/
import Fpy.Proof.LowerOvf
namespace Fpy.C10
open Fpy Fpy.Spec

/-! ### the position formula -/

/-- with `EXP = emin − P + 1` and no active upper clamp, the emitted formula is the position the float
rounding uses: `max(nmin, e − P)` with `nmin = emin − P` -/
theorem f2fPos_unclamped (p : Nat) (emin : Int) (expmax : Option Int) (e : Int)
    (h : ∀ M, expmax = some M → e - ((p : Int) - 1) ≤ M) :
    f2fPos p (some (emin, emin - p + 1)) expmax e = max (emin - p) (e - p) := by
  unfold f2fPos
  cases expmax with
  | none => simp only; split <;> omega
  | some M =>
    have := h M rfl
    simp only; split <;> omega

/-- without subnormals (`MPFloatContext`) the position is `e − P` -/
theorem f2fPos_nosub (p : Nat) (e : Int) : f2fPos p none none e = e - p := by
  unfold f2fPos; simp only; omega

/-- an active upper clamp puts the position at `EXPMAX − 1` (above every subnormal) -/
theorem f2fPos_clamped (p : Nat) (emin M e : Int) (hM : emin - p + 1 ≤ M) (h : M < e - ((p : Int) - 1)) :
    f2fPos p (some (emin, emin - p + 1)) (some M) e = M - 1 := by
  unfold f2fPos
  simp only; split <;> omega

/-! ### a rounding never drops below the binade of its operand -/

theorem compare_of_e_gt (a b : RF) (ha : a.c ≠ 0) (hb : b.c ≠ 0) (hs : a.s = b.s) (he : a.e > b.e) :
    a.compare b = if a.s then .lt else .gt := by
  unfold RF.compare
  simp only [ha, hb, if_false, hs, bne_self_eq_false, Bool.false_eq_true, he, if_true]
  cases b.s <;> rfl

theorem bitLength_ge_of_pow_le (c j : Nat) (h : 2 ^ j ≤ c) : j + 1 ≤ bitLength c := by
  have hc : c ≠ 0 := by have := Nat.pow_pos (n := j) (by decide : 0 < 2); omega
  by_cases hlt : bitLength c ≤ j
  · have := (bitLength_le_iff c j).1 hlt; omega
  · omega

/-- fixed-point rounding at a position below the leading digit keeps the result in the operand's binade or above:
`e(result) ≥ e(x)`, for every mode -/
theorem round_fixed_e_ge (x : RF) (n : Int) (rm : RM) (hc : x.c ≠ 0) (hn : n + 1 ≤ x.e)
    (y : RF) (fl : Flags) (h : x.round none (some n) rm = .ok (y, fl)) : y.c ≠ 0 ∧ x.e ≤ y.e := by
  have e2 : x.round none (some n) rm = x.roundAtCore none n none rm false := by
    unfold RF.round RF.roundParams; simp
  rw [e2] at h
  by_cases h0 : x.exp > n
  · unfold RF.roundAtCore at h
    simp [h0] at h
    rw [← h.1]; exact ⟨hc, Int.le_refl _⟩
  · have hle : x.exp ≤ n := by omega
    rw [roundAtCore_fixed x n rm hc hle] at h
    injection h with h; injection h with h _
    subst h
    generalize hk : (n + 1 - x.exp).toNat = k
    have hkn : (k : Int) = n + 1 - x.exp := by omega
    have hbl := bitLength_pos hc
    have hkb : k + 1 ≤ bitLength x.c := by unfold RF.e RF.p at hn; omega
    -- the lower neighbour already has `bitLength x.c − k` digits
    have hlow : 2 ^ (bitLength x.c - 1 - k) ≤ x.c / 2 ^ k := by
      have h1 : 2 ^ (bitLength x.c - 1) ≤ x.c := ((bitLength_eq_iff x.c (bitLength x.c) hbl).1 rfl).1
      apply (Nat.le_div_iff_mul_le (Nat.pow_pos (by decide))).2
      rw [← Nat.pow_add]
      have : bitLength x.c - 1 - k + k = bitLength x.c - 1 := by omega
      rw [this]; exact h1
    have hQ : x.c / 2 ^ k ≤ roundQuot rm x.s x.c k := by
      rcases roundQuot_neighbour rm x.s x.c k with h | h <;> omega
    have hQ2 : 2 ^ (bitLength x.c - 1 - k) ≤ roundQuot rm x.s x.c k := Nat.le_trans hlow hQ
    have hb := bitLength_ge_of_pow_le _ _ hQ2
    have hne : roundQuot rm x.s x.c k ≠ 0 := by
      have := Nat.pow_pos (n := bitLength x.c - 1 - k) (by decide : 0 < 2); omega
    refine ⟨hne, ?_⟩
    unfold RF.e RF.p
    simp only
    omega

/-! ### the overflow policy -/

/-- `policyOf` with the probes replaced by the arms they return -/
def policyOfArms (c : MPBParams) : Option Policy := policyFrom c (mpbOverflow c false false) (mpbOverflow c true true)

theorem policyOf_eq_arms (c : MPBParams) (hk : c.k = some 0)
    (hpos : BoundOk c.p c.nmin c.posMax) (hps : c.posMax.s = false)
    (hneg : BoundOk c.p c.nmin c.negMax) (hns : c.negMax.s = true) : policyOf c = policyOfArms c := by
  unfold policyOf policyOfArms
  rw [probe_float_pos c hk 1 (Nat.le_refl _) hpos hps, probe_float_neg c hk 1 (Nat.le_refl _) hneg hns]

/-- **the emitted overflow rule reproduces the source's**: whatever policy the probe finds, the
`MPBFixedContext` built for it makes of an overflow of either sign what the source makes of it
(value and flags) -/
theorem policy_arms (c : MPBParams) (pol : Policy) (nz : Bool) (n : Int) (hpol : policyOfArms c = some pol)
    (hpc : c.posMax.c ≠ 0) (hps : c.posMax.s = false) (hm : c.negMax = c.posMax.neg) (s : Bool) :
    obsEq (mpbOverflow c s s) (mpbfixOverflow (f2fTarget c pol nz n) s s) := by
  unfold policyOfArms policyFrom mpbOverflow at hpol
  unfold mpbOverflow mpbfixOverflow f2fTarget MPBFixParams.rangeEnd
  have hnc : c.posMax.neg.c ≠ 0 := hpc
  have hnS : c.posMax.neg.s = true := by unfold RF.neg; simp [hps]
  rw [hm] at hpol ⊢
  cases hiv : c.o.infValue with
  | none =>
    cases hov : c.ov <;> cases hei : c.o.enableInf <;> cases h0 : overflowToInfinity c.rm false <;>
      cases h1 : overflowToInfinity c.rm true <;> cases pol <;> cases s <;>
      simp_all [setOvf, obsEq, sameFV, eqV_refl]
  | some w =>
    cases w <;> cases hov : c.ov <;> cases hei : c.o.enableInf <;> cases h0 : overflowToInfinity c.rm false <;>
      cases h1 : overflowToInfinity c.rm true <;> cases pol <;> cases s <;>
      simp_all [setOvf, obsEq, sameFV, eqV_refl, FV.withSign]

/-! ### assembling `float_to_fixed` for a bounded source -/

theorem neg_e (b : RF) : b.neg.e = b.e := rfl

/-- the common core: source and target rounded values with the operand's sign, whose bound tests agree and
which agree as numbers when in range, give observably equal results -/
theorem f2f_core (c : MPBParams) (pol : Policy) (n : Int) (hpol : policyOfArms c = some pol)
    (hpc : c.posMax.c ≠ 0) (hps : c.posMax.s = false) (hm : c.negMax = c.posMax.neg)
    (x y y' : RF) (fl fl' : Flags) (hys : y.s = x.s) (hys' : y'.s = x.s)
    (hg : y.gt c.posMax = y'.gt c.posMax) (hl : y.lt c.negMax = y'.lt c.negMax)
    (hin : y.gt c.posMax = false → y.lt c.negMax = false →
      y.eqV y' ∧ fl.inexact = fl'.inexact ∧ fl.overflow = fl'.overflow) :
    obsEq
      (if y.gt c.posMax then mpbOverflow c x.s y.s else if y.lt c.negMax then mpbOverflow c x.s y.s else .ok ⟨.fin y, fl⟩)
      (if y'.gt c.posMax then mpbfixOverflow (f2fTarget c pol true n) x.s y'.s
       else if y'.lt c.negMax then mpbfixOverflow (f2fTarget c pol true n) x.s y'.s else .ok ⟨.fin y', fl'⟩) := by
  rw [← hg, ← hl, hys, hys']
  by_cases h1 : y.gt c.posMax = true
  · simp only [h1, if_true]; exact policy_arms c pol true n hpol hpc hps hm x.s
  · by_cases h2 : y.lt c.negMax = true
    · simp only [h1, h2, if_true, Bool.false_eq_true, if_false]; exact policy_arms c pol true n hpol hpc hps hm x.s
    · simp only [h1, h2, Bool.false_eq_true, if_false]
      obtain ⟨he, hi, ho⟩ := hin (by simpa using h1) (by simpa using h2)
      simp only [obsEq, sameFV]
      exact ⟨⟨by rw [hys, hys'], he⟩, hi, ho⟩

/-- **`float_to_fixed` on a bounded float source** (`MPBFloatContext` with mirrored bounds; `IEEEContext` and the
`EFloatContext`s whose fix-up is the identity): for every deterministic context, every rounding mode, every
overflow policy the probe accepts (INFINITE / SATURATING / NAN_ON_OVERFLOW) and every finite non-zero operand —
normal, subnormal, at or past the overflow threshold — rounding under the `MPBFixedContext` emitted at position
`n = clamp(logb(x) − P + 1, EXP, EMAX − P + 1) − 1` (or `EXP − 1` when `logb(x) < emin`) gives the value, the
`inexact` flag and the `overflow` flag the source context gives. -/
theorem f2f_bounded (c : MPBParams) (pol : Policy) (emax : Int) (hk : c.k = some 0) (hp : 1 ≤ c.p)
    (hpos : BoundOk c.p c.nmin c.posMax) (hps : c.posMax.s = false) (hm : c.negMax = c.posMax.neg)
    (hemax : c.posMax.e ≤ emax) (hee : c.emin ≤ emax)
    (hpol : policyOf c = some pol) (x : RF) (hx : x.c ≠ 0) :
    obsEq (mpbRoundAt c (.fin x) none false 0) (f2fBounded c pol true emax x) := by
  have hneg : BoundOk c.p c.nmin c.negMax := by rw [hm]; exact hpos
  have hns : c.negMax.s = true := by rw [hm]; unfold RF.neg; simp [hps]
  have hpolA : policyOfArms c = some pol := by rw [← policyOf_eq_arms c hk hpos hps hneg hns]; exact hpol
  have hpc := hpos.1
  unfold f2fBounded
  generalize hn : f2fPos c.p (some (c.emin, c.emin - c.p + 1)) (some (emax - c.p + 1)) x.e = n
  have hTw : (f2fTarget c pol true n).ov ≠ .wrap := by
    cases pol <;> (intro h; unfold f2fTarget at h; simp only at h; cases h)
  have hTp : (f2fTarget c pol true n).posMax = c.posMax := rfl
  have hTn : (f2fTarget c pol true n).negMax = c.negMax := by rw [hm]; rfl
  rw [mpb_unfold_arm c (Or.inr hps) (Or.inr hns) x hx,
      mpbfix_unfold_arm (f2fTarget c pol true n) hTw (by rw [hTp]; exact Or.inr hps) (by rw [hTn]; exact Or.inr hns) x hx]
  rw [hTp, hTn]
  unfold unboundedFloat unboundedFixed Ctx.roundAtCore floatSpecial fixedSpecial
  have hTnm : (f2fTarget c pol true n).nmin = n := rfl
  have hTrm : (f2fTarget c pol true n).rm = c.rm := rfl
  have hTk : (f2fTarget c pol true n).k = some 0 := rfl
  have hTz : (f2fTarget c pol true n).negZero = true := rfl
  simp only [hx, if_false, hTnm, hTrm, hTk, hTz, hk, Bool.not_true, Bool.and_false, Bool.false_eq_true]
  -- the source rounding, and the fixed-point rounding at the position the source chose
  obtain ⟨y, fl, y2, fl2, h1, h2, hys, hys2, heq, hi, ho, ho2⟩ :=
    float_fixed_round x c.p (some (c.emin - c.p)) c.rm hx hp
  have hfp : floatPos x c.p (some (c.emin - c.p)) = max (c.emin - c.p) (x.e - c.p) := rfl
  rw [hfp] at h2
  have h1' : x.round (some c.p) (some (c.emin - ↑c.p)) c.rm (some 0) 0 false = .ok (y, fl) := h1
  rw [h1']
  simp only
  by_cases hcl : x.e ≤ emax
  · -- the clamp is idle: the emitted position is the source's own
    have hnn : n = max (c.emin - c.p) (x.e - c.p) := by
      rw [← hn]; apply f2fPos_unclamped
      intro M hM; injection hM with hM; omega
    rw [hnn]
    have h2' : x.round none (some (max (c.emin - ↑c.p) (x.e - ↑c.p))) c.rm (some 0) 0 false = .ok (y2, fl2) := h2
    rw [h2']
    simp only
    exact f2f_core c pol _ hpolA hpc hps hm x y y2 fl fl2 hys hys2
      (gt_congr_left y y2 c.posMax heq) (lt_congr_left y y2 c.negMax heq)
      (fun _ _ => ⟨heq, hi, by rw [ho, ho2]⟩)
  · -- the clamp is active: both sides are past the bound
    have hxe : emax < x.e := by omega
    have hnn : n = emax - c.p := by
      rw [← hn]
      have := f2fPos_clamped c.p c.emin (emax - c.p + 1) x.e (by omega) (by omega)
      rw [this]; omega
    rw [hnn]
    cases h3 : x.round none (some (emax - ↑c.p)) c.rm (some 0) 0 false with
    | error e =>
      exfalso
      have e2 : x.round none (some (emax - ↑c.p)) c.rm = x.roundAtCore none (emax - c.p) none c.rm false := by
        unfold RF.round RF.roundParams; simp
      have h3' : x.round none (some (emax - ↑c.p)) c.rm = .error e := h3
      rw [e2] at h3'
      by_cases h0 : x.exp > emax - c.p
      · unfold RF.roundAtCore at h3'; simp [h0] at h3'
      · rw [roundAtCore_fixed x _ c.rm hx (by omega)] at h3'; cases h3'
    | ok yf =>
      obtain ⟨y3, fl3⟩ := yf
      have hys3 : y3.s = x.s := round_fixed_sign x _ c.rm hx y3 fl3 h3
      have hmax : max (c.emin - (c.p : Int)) (x.e - c.p) = x.e - c.p := by omega
      rw [hmax] at h2
      obtain ⟨hc2, he2⟩ := round_fixed_e_ge x (x.e - c.p) c.rm hx (by omega) y2 fl2 h2
      obtain ⟨hc3, he3⟩ := round_fixed_e_ge x (emax - c.p) c.rm hx (by omega) y3 fl3 h3
      -- both rounded values lie in a binade above the bound's
      have big : ∀ t : RF, t.c ≠ 0 → t.s = x.s → x.e ≤ t.e →
          t.gt c.posMax = !x.s ∧ t.lt c.negMax = x.s := by
        intro t htc hts hte
        cases hxs : x.s
        · have hc1 := compare_of_e_gt t c.posMax htc hpc (by rw [hts, hxs, hps]) (by omega)
          rw [hts, hxs] at hc1
          refine ⟨?_, ?_⟩
          · unfold RF.gt; rw [hc1]; rfl
          · exact lt_false_of_signs t c.negMax (Or.inr (by rw [hts, hxs])) (Or.inr hns)
        · have hne : c.negMax.e = c.posMax.e := by rw [hm]; rfl
          have hc1 := compare_of_e_gt t c.negMax htc hneg.1 (by rw [hts, hxs, hns]) (by omega)
          rw [hts, hxs] at hc1
          refine ⟨?_, ?_⟩
          · exact gt_false_of_signs t c.posMax (Or.inr (by rw [hts, hxs])) (Or.inr hps)
          · unfold RF.lt; rw [hc1]; rfl
      obtain ⟨g2, l2⟩ := big y2 hc2 hys2 he2
      obtain ⟨g3, l3⟩ := big y3 hc3 hys3 he3
      have gy : y.gt c.posMax = !x.s := by rw [gt_congr_left y y2 c.posMax heq]; exact g2
      have ly : y.lt c.negMax = x.s := by rw [lt_congr_left y y2 c.negMax heq]; exact l2
      simp only
      refine f2f_core c pol _ hpolA hpc hps hm x y y3 fl fl3 hys hys3 (by rw [gy, g3]) (by rw [ly, l3]) ?_
      intro a b
      rw [gy] at a; rw [ly] at b
      cases hxs : x.s <;> simp_all

end Fpy.C10
