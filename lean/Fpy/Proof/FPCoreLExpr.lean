/-
C12 (round 2) — expressions of the subset with tuples, compiled with a substitution of the variables
(`LExpr.toFsub`): they evaluate in FPCore to the value the core language gives, provided every
variable `x` of the expression is written as an expression `sub x` that evaluates to the value of `x`.
-/
import Fpy.Proof.FPCoreLSyn
import Fpy.Proof.FPCoreExpr
set_option linter.unusedSimpArgs false
set_option linter.unusedVariables false
namespace Fpy.C12
open Fpy Fpy.Lang

theorem evalE_tuple (Φ : Funs) (n : Nat) (σ : Env) (μ : Heap) (C : Ctx) (es : List Expr) :
    evalE Φ (n + 1) σ μ C (.tuple es) = (do let (vs, μ') ← evalEs Φ n σ μ C es; pure (.tuple vs, μ')) := by
  simp only [evalE] <;> rfl

/-- every variable of `S` that is bound in `σ` is written, under `sub`, as an expression with that value -/
def SubOK (ρ : Env) (P : Props) (σ : Env) (sub : String → FExpr) (S : List String) : Prop :=
  ∀ x, x ∈ S → ∀ w, σ.get? x = some w → Conv ρ P (sub x) w

theorem SubOK.mono {ρ P σ sub} {S T : List String} (h : SubOK ρ P σ sub T) (hs : ∀ x, x ∈ S → x ∈ T) : SubOK ρ P σ sub S :=
  fun x hx w hw => h x (hs x hx) w hw

/-- the identity substitution: agreement of the environments -/
theorem subOK_var {ρ : Env} {P : Props} {σ : Env} {S : List String} (hA : AgreeL S ρ σ)
    (hT : ∀ x, x ∈ S → isTmpL x = false) : SubOK ρ P σ FExpr.var S :=
  fun x hx w hw => conv_var (by rw [hA x hx (hT x hx)]; exact hw)

def LExprOK (Φ : Funs) (fuel : Nat) : Prop :=
  ∀ (e : LExpr) (σ : Env) (μ : Heap) (C : Ctx) (v : Val) (μ' : Heap),
    evalE Φ fuel σ μ C e.toLang = .ok (v, μ') →
    μ' = μ ∧ ∀ (ρ : Env) (P : Props) (sub : String → FExpr), P.toCtx = .ok C → SubOK ρ P σ sub e.vars →
      Conv ρ P (e.toFsub sub) v

def LExprsOK (Φ : Funs) (fuel : Nat) : Prop :=
  ∀ (es : List LExpr) (σ : Env) (μ : Heap) (C : Ctx) (vs : List Val) (μ' : Heap),
    evalEs Φ fuel σ μ C (LExpr.toLangs es) = .ok (vs, μ') →
    μ' = μ ∧ ∀ (ρ : Env) (P : Props) (sub : String → FExpr), P.toCtx = .ok C → SubOK ρ P σ sub (LExpr.varsL es) →
      ConvL ρ P (LExpr.toFsubs sub es) vs

theorem lexprs_step (Φ : Funs) (f : Nat) (hE : LExprOK Φ f) (hEs : LExprsOK Φ f) : LExprsOK Φ (f + 1) := by
  intro es σ μ C vs μ' h
  cases es with
  | nil =>
    rw [LExpr.toLangs, evalEs_nil] at h
    cases h
    exact ⟨rfl, fun ρ P sub _ _ => convL_nil⟩
  | cons e es =>
    rw [LExpr.toLangs, evalEs_cons] at h
    cases h1 : evalE Φ f σ μ C e.toLang with
    | error err => rw [h1] at h; cases h
    | ok r1 =>
      obtain ⟨v, μ1⟩ := r1
      rw [h1] at h
      simp only [bind, Except.bind] at h
      cases h2 : evalEs Φ f σ μ1 C (LExpr.toLangs es) with
      | error err => rw [h2] at h; cases h
      | ok r2 =>
        obtain ⟨ws, μ2⟩ := r2
        rw [h2] at h
        simp only [pure, Except.pure] at h
        cases h
        obtain ⟨hm1, c1⟩ := hE e σ _ C v _ h1
        subst hm1
        obtain ⟨hm2, c2⟩ := hEs es σ _ C ws _ h2
        subst hm2
        refine ⟨rfl, fun ρ P sub hP hS => ?_⟩
        exact convL_cons (c1 ρ P sub hP (hS.mono (fun x hx => by simp [LExpr.varsL, hx])))
          (c2 ρ P sub hP (hS.mono (fun x hx => by simp [LExpr.varsL, hx])))

theorem lexpr_step (Φ : Funs) (f : Nat) (hE : ∀ m, m ≤ f → LExprOK Φ m) (hEs : LExprsOK Φ f) : LExprOK Φ (f + 1) := by
  intro e σ μ C v μ' h
  cases e with
  | var x =>
    rw [LExpr.toLang, evalE_var] at h
    cases hx : σ.get? x with
    | none => rw [hx] at h; cases h
    | some w =>
      rw [hx] at h
      cases h
      exact ⟨rfl, fun ρ P sub _ hS => hS x (by simp [LExpr.vars]) _ hx⟩
  | lit v0 =>
    rw [LExpr.toLang, evalE_op] at h
    cases f with
    | zero => simp [evalEs, bind, Except.bind] at h
    | succ g =>
      rw [evalEs_cons] at h
      cases g with
      | zero => simp [evalE, bind, Except.bind] at h
      | succ k =>
        rw [evalE_num] at h
        simp only [bind, Except.bind] at h
        rw [evalEs_nil] at h
        simp only [pure, Except.pure, List.mapM_cons, List.mapM_nil, asNum, bind, Except.bind, List.map] at h
        cases hr : opEval C .round [cvtReal v0] with
        | error err => rw [hr] at h; cases h
        | ok r =>
          rw [hr] at h
          cases h
          exact ⟨rfl, fun ρ P sub hP _ => conv_num hP hr⟩
  | op o args =>
    rw [LExpr.toLang, evalE_op] at h
    cases h1 : evalEs Φ f σ μ C (LExpr.toLangs args) with
    | error err => rw [h1] at h; cases h
    | ok r1 =>
      obtain ⟨vs, μ1⟩ := r1
      rw [h1] at h
      simp only [bind, Except.bind] at h
      cases h2 : vs.mapM asNum with
      | error err => rw [h2] at h; cases h
      | ok ns =>
        rw [h2] at h
        simp only at h
        cases h3 : opEval C o (ns.map cvtReal) with
        | error err => rw [h3] at h; cases h
        | ok r =>
          rw [h3] at h
          simp only [pure, Except.pure] at h
          cases h
          obtain ⟨hm, c⟩ := hEs args σ _ C vs _ h1
          subst hm
          refine ⟨rfl, fun ρ P sub hP hS => ?_⟩
          exact conv_op hP (c ρ P sub hP (by simpa [LExpr.vars] using hS)) h2 h3
  | tuple es =>
    rw [LExpr.toLang, evalE_tuple] at h
    cases h1 : evalEs Φ f σ μ C (LExpr.toLangs es) with
    | error err => rw [h1] at h; cases h
    | ok r1 =>
      obtain ⟨vs, μ1⟩ := r1
      rw [h1] at h
      simp only [bind, Except.bind, pure, Except.pure] at h
      cases h
      obtain ⟨hm, c⟩ := hEs es σ _ C vs _ h1
      subst hm
      refine ⟨rfl, fun ρ P sub hP hS => ?_⟩
      exact conv_array (c ρ P sub hP (by simpa [LExpr.vars] using hS))
  | cmp o a b =>
    rw [LExpr.toLang, evalE_cmp_cons] at h
    cases h1 : evalE Φ f σ μ C a.toLang with
    | error err => rw [h1] at h; cases h
    | ok r1 =>
      obtain ⟨av, μ1⟩ := r1
      rw [h1] at h
      simp only [bind, Except.bind] at h
      cases f with
      | zero => simp [evalChain] at h
      | succ g =>
        rw [evalChain_order] at h
        cases h2 : evalE Φ g σ μ1 C b.toLang with
        | error err => rw [h2] at h; cases h
        | ok r2 =>
          obtain ⟨bv, μ2⟩ := r2
          rw [h2] at h
          simp only [bind, Except.bind] at h
          obtain ⟨hm1, c1⟩ := hE (g + 1) (Nat.le_refl _) a σ _ C av _ h1
          subst hm1
          obtain ⟨hm2, c2⟩ := hE g (Nat.le_succ _) b σ _ C bv _ h2
          subst hm2
          cases av with
          | num x =>
            cases bv with
            | num y =>
              simp only [asNum] at h
              have hval : v = .bool (cmpHolds o.toCmp (Lang.nvCompare x y)) ∧ μ' = μ2 := by
                cases hc : cmpHolds o.toCmp (Lang.nvCompare x y) with
                | false => rw [hc] at h; simp only [Bool.false_eq_true, if_false, pure, Except.pure] at h; cases h; exact ⟨rfl, rfl⟩
                | true =>
                  rw [hc] at h; simp only [if_true] at h
                  cases g with
                  | zero => simp [evalChain] at h
                  | succ k => rw [evalChain_nil] at h; cases h; exact ⟨rfl, rfl⟩
              obtain ⟨rfl, rfl⟩ := hval
              refine ⟨rfl, fun ρ P sub hP hS => ?_⟩
              have := conv_cmp (o := o.toCmp) (c1 ρ P sub hP (hS.mono (fun z hz => by simp [LExpr.vars, hz])))
                (c2 ρ P sub hP (hS.mono (fun z hz => by simp [LExpr.vars, hz])))
              rw [cmpNums_order] at this
              simpa [LExpr.toFsub] using this
            | bool _ => simp [asNum] at h
            | ctx _ => simp [asNum] at h
            | tuple _ => simp [asNum] at h
            | list _ => simp [asNum] at h
          | bool _ => simp [asNum] at h
          | ctx _ => simp [asNum] at h
          | tuple _ => simp [asNum] at h
          | list _ => simp [asNum] at h

theorem lexpr_sound_all (Φ : Funs) : ∀ n fuel, fuel ≤ n → LExprOK Φ fuel ∧ LExprsOK Φ fuel := by
  intro n
  induction n with
  | zero =>
    intro fuel hf
    have : fuel = 0 := by omega
    subst this
    exact ⟨fun e σ μ C v μ' h => by simp [evalE] at h, fun es σ μ C vs μ' h => by simp [evalEs] at h⟩
  | succ n ih =>
    intro fuel hf
    by_cases hle : fuel ≤ n
    · exact ih fuel hle
    · have : fuel = n + 1 := by omega
      subst this
      exact ⟨lexpr_step Φ n (fun m hm => (ih m hm).1) (ih n (Nat.le_refl _)).2,
             lexprs_step Φ n (ih n (Nat.le_refl _)).1 (ih n (Nat.le_refl _)).2⟩

theorem lexpr_sound (Φ : Funs) (fuel : Nat) : LExprOK Φ fuel := (lexpr_sound_all Φ fuel fuel (Nat.le_refl _)).1

/-! ### free variables of a compiled expression -/

mutual
theorem fvF_toFsub (sub : String → FExpr) : ∀ (e : LExpr) (y : String), y ∈ fvF (e.toFsub sub) →
    ∃ x, x ∈ e.vars ∧ y ∈ fvF (sub x)
  | .var x, y, h => ⟨x, by simp [LExpr.vars], by simpa [LExpr.toFsub] using h⟩
  | .lit _, y, h => by simp [LExpr.toFsub, fvF] at h
  | .op _ args, y, h => by
    simp only [LExpr.toFsub, fvF, LExpr.vars] at *
    exact fvL_toFsubs sub args y h
  | .tuple es, y, h => by
    simp only [LExpr.toFsub, fvF, LExpr.vars] at *
    exact fvL_toFsubs sub es y h
  | .cmp _ a b, y, h => by
    simp only [LExpr.toFsub, fvF, fvL, LExpr.vars, List.mem_append, List.not_mem_nil, or_false] at *
    rcases h with h | h
    · obtain ⟨x, hx, hy⟩ := fvF_toFsub sub a y h; exact ⟨x, Or.inl hx, hy⟩
    · obtain ⟨x, hx, hy⟩ := fvF_toFsub sub b y h; exact ⟨x, Or.inr hx, hy⟩
theorem fvL_toFsubs (sub : String → FExpr) : ∀ (es : List LExpr) (y : String), y ∈ fvL (LExpr.toFsubs sub es) →
    ∃ x, x ∈ LExpr.varsL es ∧ y ∈ fvF (sub x)
  | [], y, h => by simp [LExpr.toFsubs, fvL] at h
  | e :: es, y, h => by
    simp only [LExpr.toFsubs, fvL, LExpr.varsL, List.mem_append] at *
    rcases h with h | h
    · obtain ⟨x, hx, hy⟩ := fvF_toFsub sub e y h; exact ⟨x, Or.inl hx, hy⟩
    · obtain ⟨x, hx, hy⟩ := fvL_toFsubs sub es y h; exact ⟨x, Or.inr hx, hy⟩
end

mutual
theorem fvF_toFsub_rev (sub : String → FExpr) : ∀ (e : LExpr) (x : String), x ∈ e.vars → ∀ y, y ∈ fvF (sub x) →
    y ∈ fvF (e.toFsub sub)
  | .var z, x, hx, y, hy => by
    simp only [LExpr.vars, List.mem_singleton] at hx; subst hx; simpa [LExpr.toFsub] using hy
  | .lit _, x, hx, y, hy => by simp [LExpr.vars] at hx
  | .op _ args, x, hx, y, hy => by
    simp only [LExpr.toFsub, fvF, LExpr.vars] at *
    exact fvL_toFsubs_rev sub args x hx y hy
  | .tuple es, x, hx, y, hy => by
    simp only [LExpr.toFsub, fvF, LExpr.vars] at *
    exact fvL_toFsubs_rev sub es x hx y hy
  | .cmp _ a b, x, hx, y, hy => by
    simp only [LExpr.toFsub, fvF, fvL, LExpr.vars, List.mem_append, List.not_mem_nil, or_false] at *
    rcases hx with hx | hx
    · exact Or.inl (fvF_toFsub_rev sub a x hx y hy)
    · exact Or.inr (fvF_toFsub_rev sub b x hx y hy)
theorem fvL_toFsubs_rev (sub : String → FExpr) : ∀ (es : List LExpr) (x : String), x ∈ LExpr.varsL es → ∀ y, y ∈ fvF (sub x) →
    y ∈ fvL (LExpr.toFsubs sub es)
  | [], x, hx, y, hy => by simp [LExpr.varsL] at hx
  | e :: es, x, hx, y, hy => by
    simp only [LExpr.toFsubs, fvL, LExpr.varsL, List.mem_append] at *
    rcases hx with hx | hx
    · exact Or.inl (fvF_toFsub_rev sub e x hx y hy)
    · exact Or.inr (fvL_toFsubs_rev sub es x hx y hy)
end

theorem vars_sub_fvF (e : LExpr) (y : String) (h : y ∈ e.vars) : y ∈ fvF e.toF :=
  fvF_toFsub_rev FExpr.var e y h y (by simp [fvF])

theorem fvF_toF (e : LExpr) (y : String) (h : y ∈ fvF e.toF) : y ∈ e.vars := by
  obtain ⟨x, hx, hy⟩ := fvF_toFsub FExpr.var e y h
  simp only [fvF, List.mem_singleton] at hy
  subst hy; exact hx

end Fpy.C12
