/-
C09: inlining one call `t = f(args)` whose callee body is `ss; return e` with no other `return`.
The inlined code binds the arguments to renamed parameters in order, runs the renamed body — under
the callee's declared context if it has one (`with D:`), under the call site's context otherwise —
and assigns the renamed result expression to `t`.
-/
import Fpy.Proof.LangFrame
namespace Fpy.Xform
open Fpy Fpy.Lang

/-- bind names to values left to right (the shape of the callee environment in `evalE … (.call …)`) -/
def setAll (σ : Env) (l : List (String × Val)) : Env := l.foldl (fun s (x, v) => s.set x v) σ

theorem setAll_nil (σ : Env) : setAll σ [] = σ := rfl
theorem setAll_cons (σ : Env) (x : String) (v : Val) (l : List (String × Val)) :
    setAll σ ((x, v) :: l) = setAll (σ.set x v) l := rfl

theorem setAll_get?_notin : ∀ (ps : List String) (vs : List Val) (σ : Env) (z : String), z ∉ ps →
    (setAll σ (ps.zip vs)).get? z = σ.get? z := by
  intro ps
  induction ps with
  | nil => intro vs σ z _; rfl
  | cons p ps ih =>
    intro vs σ z hz
    cases vs with
    | nil => rfl
    | cons v vs =>
      rw [List.zip_cons_cons, setAll_cons, ih vs _ z (fun h => hz (List.mem_cons_of_mem _ h)), Env.get?_set,
        if_neg (fun h => hz (by rw [h]; exact List.mem_cons_self))]

theorem inv_setAll {R : VRel} : ∀ (ps' ps : List String) (vs : List Val) (σ1 σ2 : Env), Inv R σ1 σ2 →
    ((ps'.zip ps).all fun p => R.bindOK p.1 p.2) = true → ps'.length = ps.length →
    Inv R (setAll σ1 (ps'.zip vs)) (setAll σ2 (ps.zip vs)) := by
  intro ps'
  induction ps' with
  | nil =>
    intro ps vs σ1 σ2 h _ hl
    cases ps with
    | nil => exact h
    | cons p ps => cases hl
  | cons p' ps' ih =>
    intro ps vs σ1 σ2 h hb hl
    cases ps with
    | nil => cases hl
    | cons p ps =>
      cases vs with
      | nil => exact h
      | cons v vs =>
        rw [List.zip_cons_cons, List.all_cons, Bool.and_eq_true] at hb
        rw [List.zip_cons_cons, List.zip_cons_cons, setAll_cons, setAll_cons]
        exact ih ps vs _ _ (h.set hb.1 v) hb.2 (by simpa using hl)

theorem evalEsω_length (Φ : Funs) (C : Ctx) : ∀ (es : List Expr) (σ : Env) (μ : Heap) (vs : List Val) (μ' : Heap),
    evalEsω Φ σ μ C es = .ok (vs, μ') → vs.length = es.length := by
  intro es
  induction es with
  | nil => intro σ μ vs μ' h; rw [evalEsω_nil] at h; cases h; rfl
  | cons e es ih =>
    intro σ μ vs μ' h
    rw [evalEsω_cons] at h
    cases h1 : evalEω Φ σ μ C e with
    | error err => rw [h1] at h; cases h
    | ok r =>
      obtain ⟨v, μ1⟩ := r
      rw [h1] at h
      cases h2 : evalEsω Φ σ μ1 C es with
      | error err =>
        have : (Except.ok (v, μ1) >>= fun x : Val × Heap => (do
            let (vs, μ2) ← evalEsω Φ σ x.2 C es
            Except.ok (x.1 :: vs, μ2) : M (List Val × Heap))) = .error err := by
          show (evalEsω Φ σ μ1 C es >>= _) = _; rw [h2]; rfl
        rw [this] at h; cases h
      | ok r2 =>
        obtain ⟨ws, μ2⟩ := r2
        have : (Except.ok (v, μ1) >>= fun x : Val × Heap => (do
            let (vs, μ2) ← evalEsω Φ σ x.2 C es
            Except.ok (x.1 :: vs, μ2) : M (List Val × Heap))) = .ok (v :: ws, μ2) := by
          show (evalEsω Φ σ μ1 C es >>= _) = _; rw [h2]; rfl
        rw [this] at h; cases h
        simp only [List.length_cons, ih σ μ1 ws _ h2]

/-- binding the arguments to fresh names one statement at a time is evaluating the argument list
and binding the values: each argument sees the caller's variables only -/
theorem bindArgs_eval (Φ : Funs) (C : Ctx) (xs : List String) (σ : Env) (K : List Stmt) :
    ∀ (ps' : List String) (args : List Expr) (σb : Env) (μ : Heap),
    ps'.length = args.length → simEs (idRel xs) args args = true → (∀ p ∈ ps', p ∉ xs) →
    (∀ z ∈ xs, σb.get? z = σ.get? z) →
    evalBω Φ σb μ C (bindArgs ps' args ++ K) =
      evalEsω Φ σ μ C args >>= fun r => evalBω Φ (setAll σb (ps'.zip r.1)) r.2 C K := by
  intro ps'
  induction ps' with
  | nil =>
    intro args σb μ hl _ _ _
    cases args with
    | nil => rw [evalEsω_nil]; rfl
    | cons a as => cases hl
  | cons p ps ih =>
    intro args σb μ hl hs hp hσ
    cases args with
    | nil => cases hl
    | cons a as =>
      replace hs : (simE (idRel xs) a a && simEs (idRel xs) as as) = true := hs
      rw [Bool.and_eq_true] at hs
      have ha : evalEω Φ σb μ C a = evalEω Φ σ μ C a := sim_evalEω (inv_idRel.2 hσ) hs.1 μ C
      show evalBω Φ σb μ C (.assign (.var p) a :: (bindArgs ps as ++ K)) = _
      rw [evalBω_cons', evalSω_assign, ha, evalEsω_cons]
      cases h1 : evalEω Φ σ μ C a with
      | error err => rfl
      | ok r =>
        obtain ⟨v, μ1⟩ := r
        have hσ' : ∀ z ∈ xs, (σb.set p v).get? z = σ.get? z := by
          intro z hz
          rw [Env.get?_set, if_neg (by intro h; subst h; exact hp z List.mem_cons_self hz)]
          exact hσ z hz
        have hrec := ih as (σb.set p v) μ1 (by simpa using hl) hs.2
          (fun q hq => hp q (List.mem_cons_of_mem _ hq)) hσ'
        show (bindPatω (.var p) v σb >>= _ >>= _) = (evalEsω Φ σ μ1 C as >>= _ >>= _)
        rw [bindPatω_var]
        show evalBω Φ (σb.set p v) μ1 C (bindArgs ps as ++ K) = _
        rw [hrec]
        cases evalEsω Φ σ μ1 C as with
        | error err => rfl
        | ok r2 => rfl

/-- the code `fpy2/transform/func_inline.py` puts in place of `t = f(args)` -/
def inlineCall (ps' : List String) (args : List Expr) (ctx : Option Ctx) (ss' : List Stmt) (t : String) (e' : Expr)
    (rest : List Stmt) : List Stmt :=
  bindArgs ps' args ++
    ((match ctx with
      | some D => [.with (.ctxLit D) none (ss' ++ [.assign (.var t) e'])]
      | none => ss' ++ [.assign (.var t) e']) ++ rest)

theorem ok_bind {α β : Type} (a : α) (f : α → M β) : ((Except.ok a : M α) >>= f) = f a := rfl
theorem error_bind {α β : Type} (e : Err) (f : α → M β) : ((Except.error e : M α) >>= f) = .error e := rfl

/-- the heart of the inlining proof: renamed body then `t = e'` in the caller's (extended) environment
versus the callee's body then `return e` in the callee's environment, both under the context `C'` -/
theorem inline_core {Φ : Funs} {ss : List Stmt} {e : Expr} (hnr : noRetB ss = true)
    {R : VRel} {ps' : List String} {ss' : List Stmt} {e' : Expr}
    (hsim : simB R ss' ss = true) (hsime : simE R e' e = true)
    {ys : List String} {rest : List Stmt} {t : String}
    (hrest : simB (idRel ys) rest rest = true)
    (hfresh_ys : ∀ z ∈ ys, z ≠ t → z ∉ ps' ∧ z ∉ bvB ss')
    {σ σk σ0 : Env} {vs : List Val} (hσk : setAll σ (ps'.zip vs) = σk) (hσ0 : Inv R σk σ0)
    (μ1 : Heap) (C C' : Ctx) (body : List Stmt) (hbody : body = ss ++ [.ret e])
    (X : M (Outcome × Heap))
    (hX : X = (do
      let r ← (do
        let r0 ← evalBω Φ σ0 μ1 C' body
        match r0.1 with
        | .ret v => (Except.ok (v, r0.2) : M (Val × Heap))
        | .normal _ => .error .assertion)
      let σ' ← bindPatω (.var t) r.1 σ
      .ok (.normal σ', r.2))) :
    RelM (OutRel (idRel ys)) ((evalBω Φ σk μ1 C' ss' >>= thenB Φ C' [.assign (.var t) e']) >>= thenB Φ C rest)
      (X >>= thenB Φ C rest) := by
  subst hX hbody
  rw [evalBω_append]
  have hs := sim_evalBω (Φ := Φ) hσ0 hsim μ1 C'
  cases h1 : evalBω Φ σk μ1 C' ss' with
  | error err =>
    cases h2 : evalBω Φ σ0 μ1 C' ss with
    | error err2 => rw [h1, h2] at hs; simp only [RelM] at hs; subst hs; exact rfl
    | ok r2 => rw [h1, h2] at hs; simp only [RelM] at hs
  | ok r1 =>
    cases h2 : evalBω Φ σ0 μ1 C' ss with
    | error err2 => rw [h1, h2] at hs; simp only [RelM] at hs
    | ok r2 =>
      rw [h1, h2] at hs
      obtain ⟨o1, m1⟩ := r1; obtain ⟨o2, m2⟩ := r2
      cases o2 with
      | ret v => exact absurd h2 (evalBω_noRet Φ σ0 μ1 C' ss hnr)
      | normal σe =>
        cases o1 with
        | ret v => simp only [RelM, OutRel] at hs
        | normal σe' =>
          simp only [RelM, OutRel] at hs
          obtain ⟨hie, rfl⟩ := hs
          rw [ok_bind, ok_bind]
          show RelM _ (evalBω Φ σe' m1 C' [.assign (.var t) e'] >>= thenB Φ C rest)
            ((evalBω Φ σe m1 C' [.ret e] >>= _) >>= _ >>= thenB Φ C rest)
          rw [evalBω_single, evalBω_single, evalSω_assign, evalSω_ret, sim_evalEω hie hsime m1 C']
          cases evalEω Φ σe m1 C' e with
          | error err => exact rfl
          | ok rv =>
            obtain ⟨v, μ3⟩ := rv
            show RelM _ ((bindPatω (.var t) v σe' >>= _) >>= thenB Φ C rest)
              ((bindPatω (.var t) v σ >>= _) >>= thenB Φ C rest)
            rw [bindPatω_var, bindPatω_var]
            refine sim_evalBω ?_ hrest μ3 C
            rw [inv_idRel]
            intro z hz
            rw [Env.get?_set, Env.get?_set]
            split
            · rfl
            · rename_i hzt
              obtain ⟨hz1, hz2⟩ := hfresh_ys z hz hzt
              rw [evalBω_frame Φ σk μ1 C' ss' h1 z hz2, ← hσk, setAll_get?_notin ps' vs σ z hz1]

/-- INLINING ONE CALL.  Callee `fd` = `def f(ps): ss; return e` with no `return` in `ss`;
`ss'`, `e'`, `ps'` its renamed copy, accepted by the checker under a correspondence `R`
(fresh name, callee name) whose fresh names are unbound at the call site (`hσ`), not read by the
arguments (`xs` ⊇ reads of `args`, disjoint from `ps'`) and not read by the rest of the caller
(`ys` ⊇ reads of `rest`, disjoint from the fresh names except possibly `t`).  Then the inlined code and
`t = f(args); rest` have the same outcome: same return value and heap, same error, same divergence,
and final environments that agree on `ys`. -/
theorem call_inline_rel {Φ : Funs} {f : String} {fd : FuncDef} {ss : List Stmt} {e : Expr}
    (hf : Φ.find? f = some fd) (hbody : fd.body = ss ++ [.ret e]) (hnr : noRetB ss = true)
    {R : VRel} {ps' : List String} {ss' : List Stmt} {e' : Expr}
    (hps : ps'.length = fd.params.length)
    (hbind : ((ps'.zip fd.params).all fun p => R.bindOK p.1 p.2) = true)
    (hsim : simB R ss' ss = true) (hsime : simE R e' e = true)
    {xs ys : List String} {args : List Expr} {rest : List Stmt} {t : String}
    (hargslen : args.length = fd.params.length)
    (hargs : simEs (idRel xs) args args = true) (hfresh_xs : ∀ p ∈ ps', p ∉ xs)
    (hrest : simB (idRel ys) rest rest = true)
    (hfresh_ys : ∀ z ∈ ys, z ≠ t → z ∉ ps' ∧ z ∉ bvB ss')
    {σ : Env} (hσ : ∀ a b, R.has a b = true → σ.get? a = none)
    (μ : Heap) (C : Ctx) :
    RelM (OutRel (idRel ys)) (evalBω Φ σ μ C (inlineCall ps' args fd.ctx ss' t e' rest))
      (evalBω Φ σ μ C (.assign (.var t) (.call f args) :: rest)) := by
  unfold inlineCall
  rw [bindArgs_eval Φ C xs σ _ ps' args σ μ (hps.trans hargslen.symm) hargs hfresh_xs (fun _ _ => rfl)]
  rw [evalBω_cons', evalSω_assign, evalEω_call]
  cases hev : evalEsω Φ σ μ C args with
  | error err => exact rfl
  | ok r =>
    obtain ⟨vs, μ1⟩ := r
    have hvl : vs.length = fd.params.length := (evalEsω_length Φ C args σ μ vs μ1 hev).trans hargslen
    have hne : (fd.params.length != vs.length) = false := by rw [hvl]; simp
    rw [ok_bind, ok_bind]
    simp only [hf, hne, Bool.false_eq_true, if_false]
    generalize hσk : setAll σ (ps'.zip vs) = σk
    generalize hσ0e : List.foldl _ ([] : Env) (fd.params.zip vs) = σ0
    have hσ0 : Inv R σk σ0 := by
      rw [← hσk, ← hσ0e]
      exact inv_setAll ps' fd.params vs σ [] (fun a b hab => by rw [hσ a b hab]; rfl) hbind hps
    cases hctx : fd.ctx with
    | none =>
      show RelM _ (evalBω Φ σk μ1 C ((ss' ++ [.assign (.var t) e']) ++ rest)) _
      rw [evalBω_append, evalBω_append]
      exact inline_core hnr hsim hsime hrest hfresh_ys hσk hσ0 μ1 C C fd.body hbody _ rfl
    | some D =>
      show RelM _ (evalBω Φ σk μ1 C (Stmt.with (.ctxLit D) none (ss' ++ [.assign (.var t) e']) :: rest)) _
      rw [with_ctx_wrap_block, evalBω_append]
      exact inline_core hnr hsim hsime hrest hfresh_ys hσk hσ0 μ1 C D fd.body hbody _ rfl

theorem call_inline_sound {Φ : Funs} {f : String} {fd : FuncDef} {ss : List Stmt} {e : Expr}
    (hf : Φ.find? f = some fd) (hbody : fd.body = ss ++ [.ret e]) (hnr : noRetB ss = true)
    {R : VRel} {ps' : List String} {ss' : List Stmt} {e' : Expr}
    (hps : ps'.length = fd.params.length)
    (hbind : ((ps'.zip fd.params).all fun p => R.bindOK p.1 p.2) = true)
    (hsim : simB R ss' ss = true) (hsime : simE R e' e = true)
    {xs ys : List String} {args : List Expr} {rest : List Stmt} {t : String}
    (hargslen : args.length = fd.params.length)
    (hargs : simEs (idRel xs) args args = true) (hfresh_xs : ∀ p ∈ ps', p ∉ xs)
    (hrest : simB (idRel ys) rest rest = true)
    (hfresh_ys : ∀ z ∈ ys, z ≠ t → z ∉ ps' ∧ z ∉ bvB ss')
    {σ : Env} (hσ : ∀ a b, R.has a b = true → σ.get? a = none)
    (μ : Heap) (C : Ctx) (w : Val) (μ' : Heap) :
    Returns Φ σ μ C (inlineCall ps' args fd.ctx ss' t e' rest) w μ' ↔
      Returns Φ σ μ C (.assign (.var t) (.call f args) :: rest) w μ' := by
  rw [returns_iff, returns_iff]
  exact OutRel.ret_iff (call_inline_rel hf hbody hnr hps hbind hsim hsime hargslen hargs hfresh_xs hrest hfresh_ys hσ μ C) w μ'

end Fpy.Xform
