/-
Loop restructuring, part 8: `for` unrolling, STRICT strategy with a length not statically known:
`t = it; with INTEGER: n = len(t); assert fmod(n, k) == 0` then the main loop over `range(0, n, k)`.
-/
import Fpy.Proof.LangIdx7
namespace Fpy.Xform
open Fpy Fpy.Lang

/-- comparing integer-valued numbers for equality (a fact about `nvCompare`, whatever the context) -/
structure IntEq : Prop where
  eq : ∀ (x y : NV) (a b : Int) (μ : Heap) (n : Nat), nvInt? x = some a → nvInt? y = some b →
    valEq μ (n + 1) (.num x) (.num y) = .ok (decide (a = b))

theorem evalChainω_of {Φ σ μ C a ops es l} (h : Tends (fun n => evalChain Φ (n+1) σ μ C a ops es) l) :
    evalChainω Φ σ μ C a ops es = l :=
  (Tends.unshift (a := fun n => evalChain Φ n σ μ C a ops es) rfl h).lim_eq

theorem valEqω_int (IE : IntEq) {x y : NV} {a b : Int} (μ : Heap) (hx : nvInt? x = some a) (hy : nvInt? y = some b) :
    valEqω μ (.num x) (.num y) = .ok (decide (a = b)) :=
  (tends_valEq μ (.num x) (.num y)).definite (IE.eq x y a b μ 0 hx hy) (by intro h; cases h)

/-- `e₁ == e₂` over integer-valued, heap-neutral operands -/
theorem evalEω_eq_int (Φ : Funs) (IE : IntEq) (σ : Env) (μ : Heap) (C : Ctx) {e1 e2 : Expr} {x y : NV} {a b : Int}
    (h1 : evalEω Φ σ μ C e1 = .ok (.num x, μ)) (h2 : evalEω Φ σ μ C e2 = .ok (.num y, μ))
    (hx : nvInt? x = some a) (hy : nvInt? y = some b) :
    evalEω Φ σ μ C (.cmp [.eq] [e1, e2]) = .ok (.bool (decide (a = b)), μ) := by
  have hcmp : evalEω Φ σ μ C (.cmp [.eq] [e1, e2]) =
      (do let (av, μ1) ← evalEω Φ σ μ C e1
          evalChainω Φ σ μ1 C av [.eq] [e2]) := by
    apply evalEω_of; simp only [evalE]; tends_tac
  have hch : evalChainω Φ σ μ C (.num x) [.eq] [e2] =
      (do let (bv, μ1) ← evalEω Φ σ μ C e2
          let ok ← valEqω μ1 (.num x) bv
          if ok then evalChainω Φ σ μ1 C bv [] [] else .ok (.bool false, μ1)) := by
    apply evalChainω_of; simp only [evalChain]; tends_tac
  have hnil : evalChainω Φ σ μ C (.num y) [] [] = .ok (.bool true, μ) := by
    apply evalChainω_of; simp only [evalChain]; tends_tac
  rw [hcmp, h1]
  show evalChainω Φ σ μ C (.num x) [.eq] [e2] = _
  rw [hch, h2]
  show (valEqω μ (.num x) (.num y) >>= _) = _
  rw [valEqω_int IE μ hx hy]
  by_cases hab : a = b
  · rw [decide_eq_true hab]
    show evalChainω Φ σ μ C (.num y) [] [] = _
    rw [hnil]
  · rw [decide_eq_false hab]
    rfl

/-- `_build_strict`, length not statically known -/
def forUnrollStrict (CI : Ctx) (p : Pat) (it : Expr) (body : List Stmt) (t n idx : String) (offs : List String)
    (lits : List NV) (z0 zk : NV) : List Stmt :=
  [ .assign (.var t) it,
    .with (.ctxLit CI) none
      [ .assign (.var n) (.len (.var t)),
        .assert (.cmp [.eq] [.op .fmod [.var n, .num zk], .num z0]) ],
    .for (.var idx) (.range [.num z0, .var n, .num zk]) (mainBody CI p t idx offs lits body) ]

/-- the STRICT prelude: binds `n` to the length and passes iff the length is a multiple of `k` -/
theorem strict_prelude_eval (Φ : Funs) {CI : Ctx} (IA : IntArith CI) (IE : IntEq) (C : Ctx) {σt : Env} {μ0 : Heap}
    {t n : String} {r : Nat} {l : List Val} (ht : σt.get? t = some (.list r)) (hl : μ0[r]? = some l) {z0 zk : NV} {k : Nat}
    (hz0 : nvInt? z0 = some 0) (hzk : nvInt? zk = some (k : Int)) (hk : 0 < k) :
    evalSω Φ σt μ0 C (.with (.ctxLit CI) none
        [ .assign (.var n) (.len (.var t)),
          .assert (.cmp [.eq] [.op .fmod [.var n, .num zk], .num z0]) ]) =
      if l.length % k = 0 then .ok (.normal (σt.set n (.num (.q (l.length : Int) 1))), μ0) else .error .assertion := by
  obtain ⟨w1, hf1, hf2⟩ := IA.fmod (.q (l.length : Int) 1) zk l.length k (nvInt_q _) hzk hk
  rw [with_ctx_wrap, evalBω_cons', evalSω_assign, evalEω_len, evalEω_var, ht]
  have hal : asList μ0 (.list r) = .ok l := by show heapGet μ0 r = _; unfold heapGet; rw [hl]
  show ((((asList μ0 (.list r) >>= _) >>= _) >>= _)) = _
  rw [hal]
  show ((bindPatω (.var n) _ σt >>= _) >>= _) = _
  rw [bindPatω_var]
  show evalBω Φ (σt.set n _) μ0 CI [_] = _
  rw [evalBω_single, evalSω_assert]
  have hn : evalEω Φ (σt.set n (.num (.q (l.length : Int) 1))) μ0 CI (.var n) = .ok (.num (.q (l.length : Int) 1), μ0) := by
    rw [evalEω_var, Env.get?_set, if_pos rfl]
  have hfm : evalEω Φ (σt.set n (.num (.q (l.length : Int) 1))) μ0 CI (.op .fmod [.var n, .num zk]) = .ok (.num w1, μ0) := by
    rw [evalEω_binop Φ _ μ0 CI .fmod hn (evalEω_num Φ _ μ0 CI zk), hf1]; rfl
  rw [evalEω_eq_int Φ IE _ μ0 CI hfm (evalEω_num Φ _ μ0 CI z0) hf2 hz0]
  by_cases hdiv : l.length % k = 0
  · rw [if_pos hdiv]
    have : decide (((l.length % k : Nat) : Int) = 0) = true := decide_eq_true (by omega)
    rw [this]; rfl
  · rw [if_neg hdiv]
    have : decide (((l.length % k : Nat) : Int) = 0) = false := decide_eq_false (by omega)
    rw [this]; rfl

theorem for_unroll_strict_rel {Φ : Funs} {CI : Ctx} (IA : IntArith CI) (IE : IntEq) {C : Ctx} {S : List String}
    {p : Pat} {it : Expr} {body rest : List Stmt} {t n idx : String} {offs : List String} {lits : List NV}
    {z0 zk : NV} {k : Nat}
    (hk : offs.length + 1 = k) (hlits : offs.length = lits.length)
    (hl : ∀ j (h : j < lits.length), nvInt? lits[j] = some ((1 + j : Nat) : Int))
    (hz0 : nvInt? z0 = some 0) (hzk : nvInt? zk = some (k : Int))
    (hnd : (t :: n :: idx :: offs).Nodup)
    (hfresh : ∀ z ∈ t :: n :: idx :: offs, z ∉ S ∧ z ∉ bvP p ++ bvB body)
    (hbody : ∀ z ∈ readsB body, z ∈ S) (hrest : ∀ z ∈ readsB rest, z ∈ S)
    {σ : Env} {μ : Heap} (hwfh : WFH μ) (hwfe : WFE σ μ)
    /- the STRICT precondition: the length is a multiple of `k` (otherwise the emitted `assert` fails, see
       `strict_prelude_eval`) -/
    (hdiv : ∀ r l μ0, evalEω Φ σ μ C it = .ok (.list r, μ0) → μ0[r]? = some l → l.length % k = 0) :
    FinRel S (evalBω Φ σ μ C (.for p it body :: rest))
      (evalBω Φ σ μ C (forUnrollStrict CI p it body t n idx offs lits z0 zk ++ rest)) := by
  have hkpos : 0 < k := by omega
  rw [evalBω_cons', evalSω_for]
  show FinRel S _ (evalBω Φ σ μ C (.assign (.var t) it :: _))
  rw [evalBω_cons', evalSω_assign]
  have hpar := par_evalEω (Φ := Φ) (Nat.le_refl _) hwfe hwfh C it
  cases hit : evalEω Φ σ μ C it with
  | error e => exact rfl
  | ok x =>
    obtain ⟨v, μ0⟩ := x
    rw [hit] at hpar
    obtain ⟨hv, hh0, hx0⟩ := hpar
    dsimp only at hv hh0 hx0
    show FinRel S _ (((bindPatω (.var t) v σ >>= _) >>= _))
    rw [bindPatω_var]
    show FinRel S _ (evalBω Φ (σ.set t v) μ0 C (_ :: _))
    rw [evalBω_cons']
    have ht : (σ.set t v).get? t = some v := by rw [Env.get?_set, if_pos rfl]
    have hnonlist : (∀ r, v ≠ .list r) → ∀ (K : Outcome × Heap → M (Outcome × Heap)),
        FinRel S ((Except.ok (v, μ0) >>= fun x : Val × Heap => match x with
              | (iv, μ') => match iv with
                | .list r => forLoopω Φ σ μ' C r 0 p body
                | _ => (.error .typeError : M (Outcome × Heap))) >>= thenB Φ C rest)
          (evalSω Φ (σ.set t v) μ0 C (.with (.ctxLit CI) none
              [ .assign (.var n) (.len (.var t)),
                .assert (.cmp [.eq] [.op .fmod [.var n, .num zk], .num z0]) ]) >>= K) := by
      intro hne K
      rw [with_ctx_wrap, evalBω_cons', evalSω_assign, evalEω_len, evalEω_var, ht]
      cases v <;> first | exact rfl | exact absurd rfl (hne _)
    rcases VR.inv hv with ⟨hf, _⟩ | ⟨vs, ws, rfl, _, _⟩ | ⟨r, rfl, _, hr, _⟩
    · exact hnonlist (fun r e => by subst e; simp [flatV] at hf) _
    · exact hnonlist (fun r e => by cases e) _
    · obtain ⟨l, hcl⟩ : ∃ l, μ0[r]? = some l := ⟨μ0[r], List.getElem?_eq_getElem hr⟩
      have hd := hdiv r l μ0 hit hcl
      simp only [List.nodup_cons, List.mem_cons, not_or] at hnd
      obtain ⟨⟨htn, hti, hto⟩, ⟨hni, hno⟩, hio, hoo⟩ := hnd
      have hS : ∀ z ∈ t :: n :: idx :: offs, z ∉ S := fun z hz => (hfresh z hz).1
      have hB : ∀ z ∈ t :: n :: idx :: offs, z ∉ bvP p ++ bvB body := fun z hz => (hfresh z hz).2
      rw [strict_prelude_eval Φ IA IE C (n := n) ht hcl hz0 hzk hkpos, if_pos hd, ok_bind]
      generalize hσn : (σ.set t (Val.list r)).set n (.num (.q (l.length : Int) 1)) = σn
      have hn_get : σn.get? n = some (.num (.q (l.length : Int) 1)) := by rw [← hσn, Env.get?_set, if_pos rfl]
      have ht_get : σn.get? t = some (.list r) := by
        rw [← hσn, Env.get?_set, if_neg htn, Env.get?_set, if_pos rfl]
      have hother : ∀ z, z ≠ t → z ≠ n → σn.get? z = σ.get? z := by
        intro z h1 h2
        rw [← hσn, Env.get?_set, if_neg h2, Env.get?_set, if_neg h1]
      have J0 : Jinv S (fun r => r) [] r l.length t σ μ0 σn μ0 := by
        refine ⟨(ERS.of_ER (hwfe.mono hx0.e1.le)).congr_right (fun z hz => hother z ?_ ?_), hh0, by simp, ⟨l, hcl, rfl⟩, ht_get⟩
        · intro e; exact hS t (by simp) (e ▸ hz)
        · intro e; exact hS n (by simp) (e ▸ hz)
      have hA : AnsOK (fun a b => FinRel S (a >>= thenB Φ C rest) b) :=
        ⟨fun _ => rfl, fun π D _ _ _ _ hh hv => ⟨π, D, hh, hv⟩⟩
      have hq : k * (l.length / k) = l.length := by
        have := Nat.div_add_mod l.length k; omega
      show FinRel S (forLoopω Φ σ μ0 C r 0 p body >>= thenB Φ C rest)
        (evalBω Φ σn μ0 C (.for (.var idx) (.range [.num z0, .var n, .num zk]) (mainBody CI p t idx offs lits body) :: rest))
      refine forstmt_cont (Ans := fun a b => FinRel S (a >>= thenB Φ C rest) b) hA IA hbody 0 k (l.length / k) hk hlits hl
        (List.nodup_cons.2 ⟨hio, hoo⟩) ?_ ?_ (by omega) J0
        (AtomInt.num (by simpa using hz0)) (AtomInt.var hn_get (by rw [nvInt_q]; congr 1; omega)) (AtomInt.num hzk) _ ?_
      · intro z hz
        refine ⟨hS z (List.mem_cons_of_mem _ (List.mem_cons_of_mem _ hz)), ?_⟩
        rcases List.mem_cons.1 hz with e | e
        · rw [e]; exact Ne.symm hti
        · intro e'; exact hto (e' ▸ e)
      · intro z hz
        rcases List.mem_cons.1 hz with e | e
        · rw [e]; exact hB t List.mem_cons_self
        · exact hB z (List.mem_cons_of_mem _ (List.mem_cons_of_mem _ e))
      · intro π' σ1' m1 σ2' m2 J1 _
        obtain ⟨l', hl', hlen'⟩ := J1.cell
        have hend : 0 + k * (l.length / k) = l.length := by omega
        rw [hend, forLoopω_end Φ σ1' m1 C r l.length p body hl' (List.getElem?_eq_none (by omega)), ok_bind]
        exact FinRel.of_qss (par_on hrest (Nat.le_refl _) J1.env J1.heap C)

end Fpy.Xform
