/-
C12 — blocks: the compiled form of a loop-free block evaluates, under the property set that denotes
the active context, to what the core-language evaluator returns.
-/
import Fpy.Proof.FPCoreExpr
set_option linter.unusedSimpArgs false
set_option linter.unusedVariables false
namespace Fpy.C12
open Fpy Fpy.Lang

/-! ### names -/

theorem mem_insertName (x y : String) (l : List String) : y ∈ insertName x l ↔ y = x ∨ y ∈ l := by
  induction l with
  | nil => simp [insertName]
  | cons z zs ih =>
    unfold insertName
    split
    · next h =>
      have hxz : x = z := by simpa using h
      subst hxz
      simp
    · split
      · simp
      · simp only [List.mem_cons, ih]
        constructor
        · rintro (h | h | h)
          · exact Or.inr (Or.inl h)
          · exact Or.inl h
          · exact Or.inr (Or.inr h)
        · rintro (h | h | h)
          · exact Or.inr (Or.inl h)
          · exact Or.inl h
          · exact Or.inr (Or.inr h)

theorem mem_sortNames (y : String) (l : List String) : y ∈ sortNames l ↔ y ∈ l := by
  induction l with
  | nil => simp [sortNames]
  | cons x xs ih =>
    have : sortNames (x :: xs) = insertName x (sortNames xs) := rfl
    rw [this, mem_insertName, ih]; simp

/-- the variables a `with` block hands to its continuation -/
def passed (body : List SStmt) (N : List String) : List String :=
  sortNames ((SStmt.defsL body).filter (N.contains ·))

theorem mem_passed (y : String) (body : List SStmt) (N : List String) :
    y ∈ passed body N ↔ y ∈ SStmt.defsL body ∧ y ∈ N := by
  unfold passed
  rw [mem_sortNames, List.mem_filter]
  simp

theorem isTmp_ne_tmp {x : String} (h : isTmp x = false) : x ≠ tmpName := by
  intro hx; subst hx; simp [isTmp] at h

theorem isTmp_ne_us {x : String} (h : isTmp x = false) : x ≠ "_" := by
  intro hx; subst hx; simp [isTmp] at h

/-! ### the property set of a `with` block denotes its context -/

theorem update_toDesc (d : CDesc) (p P : Props) (ht : tableOf d = some p) (hg : p.toDesc = some d) :
    (P.update p).toDesc = p.toDesc := by
  cases d with
  | ieee es nbits rm ov k =>
    simp only [tableOf] at ht
    cases hr : RName.ofRM rm with
    | none => rw [hr] at ht; cases ht
    | some r =>
      rw [hr] at ht
      simp only [Option.map] at ht
      cases ht
      simp only [Props.update, Props.toDesc, Option.or, Option.getD]
      by_cases h1 : es = 15 ∧ nbits = 128
      · simp [h1]
      · by_cases h2 : es = 15 ∧ nbits = 79
        · simp [h1, h2]
        · by_cases h3 : es = 11 ∧ nbits = 64
          · simp [h1, h2, h3]
          · by_cases h4 : es = 8 ∧ nbits = 32
            · simp [h1, h2, h3, h4]
            · by_cases h5 : es = 5 ∧ nbits = 16
              · simp [h1, h2, h3, h4, h5]
              · simp [h1, h2, h3, h4, h5]
  | mpfixed nmin rm nz =>
    simp only [tableOf] at ht
    cases hr : RName.ofRM rm with
    | none => rw [hr] at ht; cases ht
    | some r =>
      rw [hr] at ht
      simp only [Option.map] at ht
      cases ht
      by_cases hn : nmin = -1
      · simp [Props.update, Props.toDesc, hn]
      · simp [hn, Props.toDesc] at hg
  | fixed sg sc nb rm ov =>
    simp only [tableOf] at ht
    cases sg with
    | false => simp at ht
    | true =>
      cases hr : RName.ofRM rm with
      | none => rw [hr] at ht; simp at ht
      | some r =>
        cases ho : OName.ofOV ov with
        | none => rw [hr, ho] at ht; simp at ht
        | some o =>
          rw [hr, ho] at ht
          simp at ht
          cases ht
          simp [Props.update, Props.toDesc]
  | real =>
    simp only [tableOf] at ht
    cases ht
    simp [Props.update, Props.toDesc]
  | other => simp [tableOf] at ht


theorem fromDesc_ctx {d : CDesc} {p : Props} (h : fromDesc d = some p) (P : Props) :
    ∃ C', d.toCtx = some C' ∧ (P.update p).toCtx = .ok C' := by
  unfold fromDesc at h
  cases ht : tableOf d with
  | none => rw [ht] at h; cases h
  | some q =>
    rw [ht] at h
    simp only at h
    split at h
    · next hg =>
      cases h
      have hu := update_toDesc d p P ht hg
      have hd : ∃ C', d.toCtx = some C' := by
        cases d with
        | other => simp [tableOf] at ht
        | ieee _ _ _ _ _ => exact ⟨_, rfl⟩
        | mpfixed _ _ _ => exact ⟨_, rfl⟩
        | fixed _ _ _ _ _ => exact ⟨_, rfl⟩
        | real => exact ⟨_, rfl⟩
      obtain ⟨C', hC'⟩ := hd
      refine ⟨C', hC', ?_⟩
      unfold Props.toCtx
      rw [hu, hg]
      simp [hC']
    · cases h

/-! ### `CtxLits` is decidable (by evaluation) -/

def ctxLitOK (C : Ctx) (i : Nat) : Bool :=
  match opEval C .round [cvtReal (.q (i : Int) 1)] with
  | .ok r => (match asIndex (.num r) with | .ok j => j == i | .error _ => false)
  | .error _ => false

theorem ctxLitOK_iff (C : Ctx) (i : Nat) :
    ctxLitOK C i = true ↔ ∃ r, opEval C .round [cvtReal (.q (i : Int) 1)] = .ok r ∧ asIndex (.num r) = .ok i := by
  unfold ctxLitOK
  cases h1 : opEval C .round [cvtReal (.q (i : Int) 1)] with
  | error e => simp
  | ok r =>
    cases h2 : asIndex (.num r) with
    | error e => simp [h2]
    | ok j => simp [h2]

instance (C : Ctx) (n : Nat) : Decidable (CtxLits C n) :=
  decidable_of_iff (∀ i, i < n → ctxLitOK C i = true) (by simp only [CtxLits, ctxLitOK_iff])

/-! ### the tuple a block hands over and its unpacking -/

theorem eval_num (n : Nat) (ρ : Env) (P : Props) (v : NV) :
    eval (n + 1) ρ P (.num v) =
      (do let C ← P.toCtx
          let r ← opEval C .round [cvtReal v]
          pure (.num r)) := by
  simp only [eval] <;> rfl

theorem convL_vars (P : Props) (σb : Env) : ∀ (D : List String) (ρ' : Env),
    (∀ x, x ∈ D → isTmp x = false) → Agree D ρ' σb → (∀ x, x ∈ D → ∃ w, σb.get? x = some w) →
    ConvL ρ' P (D.map FExpr.var) (D.map (fun x => (σb.get? x).getD default)) := by
  intro D
  induction D with
  | nil => intro ρ' _ _ _; exact convL_nil
  | cons x xs ih =>
    intro ρ' ht hA hb
    obtain ⟨w, hw⟩ := hb x (by simp)
    have hx : ρ'.get? x = some w := by rw [hA x (by simp) (ht x (by simp))]; exact hw
    have h1 : Conv ρ' P (.var x) ((σb.get? x).getD default) := by rw [hw]; exact conv_var hx
    exact convL_cons h1 (ih ρ' (fun y hy => ht y (by simp [hy])) (hA.mono (fun y hy => by simp [hy]))
      (fun y hy => hb y (by simp [hy])))

theorem refBinds_eval (P : Props) (C : Ctx) (hP : P.toCtx = .ok C) (ws : List Val) (g : String → Val) (ρ₀ : Env)
    (tot : Nat) (hL : CtxLits C tot) :
    ∀ (xs : List String) (i : Nat) (acc : Env) (n : Nat),
      acc.get? tmpName = some (.tuple ws) → (∀ x, x ∈ xs → isTmp x = false) →
      i + xs.length ≤ tot → ws.drop i = xs.map g → xs.length + 4 ≤ n →
      evalBinds n true ρ₀ acc P (refBinds tmpName xs i) = .ok (xs.foldl (fun a x => a.set x (g x)) acc) := by
  intro xs
  induction xs with
  | nil =>
    intro i acc n _ _ _ _ hn
    obtain ⟨m, rfl⟩ : ∃ m, n = m + 1 := ⟨n - 1, by omega⟩
    rw [refBinds, evalBinds_nil]; rfl
  | cons x xs ih =>
    intro i acc n ht hx hi hd hn
    simp only [List.length_cons] at hi hn
    obtain ⟨m, rfl⟩ : ∃ m, n = m + 4 := ⟨n - 4, by omega⟩
    obtain ⟨r, hr, hidx⟩ := hL i (by omega)
    have hwi : ws[i]? = some (g x) := by
      have := List.getElem?_drop (xs := ws) (i := i) (j := 0)
      rw [hd] at this
      simpa using this.symm
    have hev : eval (m + 3) acc P (.ref (.var tmpName) [.num (.q (i : Int) 1)]) = .ok (g x) := by
      rw [eval_ref, eval_var, ht, evalList_cons, eval_num, hP]
      simp only [bind, Except.bind, hr, pure, Except.pure]
      rw [evalList_nil]
      simp only [List.mapM_cons, List.mapM_nil, hidx, bind, Except.bind, pure, Except.pure, refIdx, hwi]
    rw [refBinds, evalBinds_cons]
    simp only [if_true]
    rw [hev]
    simp only [bind, Except.bind]
    have hne : x ≠ tmpName := isTmp_ne_tmp (hx x (by simp))
    have ht' : (acc.set x (g x)).get? tmpName = some (.tuple ws) := by
      rw [get?_set_ne _ _ _ _ (fun h => hne h.symm)]; exact ht
    have hd' : ws.drop (i + 1) = xs.map g := by
      have h1 : ws.drop (i + 1) = (ws.drop i).drop 1 := by rw [List.drop_drop]
      rw [h1, hd]; simp
    have := ih (i + 1) (acc.set x (g x)) (m + 3) ht' (fun y hy => hx y (by simp [hy])) (by omega) hd' (by omega)
    rw [this]; rfl

theorem get?_foldl_set (g : String → Val) : ∀ (xs : List String) (acc : Env) (y : String),
    (xs.foldl (fun a x => a.set x (g x)) acc).get? y = if y ∈ xs then some (g y) else acc.get? y := by
  intro xs
  induction xs with
  | nil => intro acc y; simp
  | cons x xs ih =>
    intro acc y
    simp only [List.foldl_cons]
    rw [ih, get?_set]
    by_cases h1 : y ∈ xs
    · simp [h1]
    · by_cases h2 : y = x
      · subst h2; simp [h1]
      · simp [h1, h2]

/-- `(let* ([%t inner] [x (ref %t 0)] …) K)` -/
theorem conv_bundle_many {ρ : Env} {P : Props} {C : Ctx} (hP : P.toCtx = .ok C) (D : List String) (inner K : FExpr)
    (g : String → Val) (w : Val)
    (hL : CtxLits C D.length) (hT : ∀ x, x ∈ D → isTmp x = false)
    (hi : Conv ρ P inner (.tuple (D.map g)))
    (hK : ∀ ρ', (∀ y, isTmp y = false → ρ'.get? y = if y ∈ D then some (g y) else ρ.get? y) → Conv ρ' P K w) :
    Conv ρ P (.let_ true ((tmpName, inner) :: refBinds tmpName D 0) K) w := by
  obtain ⟨N1, hi⟩ := hi
  let acc1 := ρ.set tmpName (.tuple (D.map g))
  let ρ2 := D.foldl (fun a x => a.set x (g x)) acc1
  have hK2 : Conv ρ2 P K w := by
    apply hK
    intro y hy
    show (D.foldl (fun a x => a.set x (g x)) acc1).get? y = _
    rw [get?_foldl_set]
    by_cases h : y ∈ D
    · simp [h]
    · simp only [h, if_false]
      exact get?_set_ne _ _ _ _ (isTmp_ne_tmp hy)
  obtain ⟨N2, hK2⟩ := hK2
  refine ⟨max N1 N2 + D.length + 6, fun n hn => ?_⟩
  obtain ⟨m, rfl⟩ : ∃ m, n = m + 2 := ⟨n - 2, by omega⟩
  rw [eval_let, evalBinds_cons]
  simp only [if_true]
  rw [hi m (by omega)]
  simp only [bind, Except.bind]
  have hb := refBinds_eval P C hP (D.map g) g ρ D.length hL D 0 acc1 m (get?_set_self _ _ _) hT (by omega)
    (by simp) (by omega)
  rw [hb]
  exact hK2 (m + 1) (by omega)

end Fpy.C12
