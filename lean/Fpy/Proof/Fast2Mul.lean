/-
FMA-based 2Mul (`fast_2mul`): integer model for EVERY rounding mode, then the library function of the
model under `MPFloatContext(p, rm)` (no exponent bounds, hence no underflow of the error term).
-/
import Fpy.Proof.Fast2SumModel
namespace Fpy.C20
open Fpy Fpy.Spec Fpy.Lib Fpy.Lang

theorem mul_pow_mod (Q k e : Nat) (h : e ≤ k) : (Q * 2 ^ k) % 2 ^ e = 0 := by
  obtain ⟨j, hj⟩ : ∃ j, k = e + j := ⟨k - e, by omega⟩
  rw [hj, Nat.pow_add, Nat.mul_left_comm]
  exact Nat.mul_mod_right _ _

/-- magnitude and sign of a rounded integer that needed rounding -/
theorem rndI_big (p : Nat) (rm : RM) (S : Int) (k : Nat) (hk : bitLength S.natAbs = p + k) (hk1 : 1 ≤ k) :
    ∃ Q : Nat, rndI p rm S = (if S < 0 then -1 else 1) * ((Q * 2 ^ k : Nat) : Int) ∧ Q ≤ 2 ^ p ∧
      ((S.natAbs : Int) - (Q * 2 ^ k : Nat)).natAbs < 2 ^ k := by
  have hP : 0 < 2 ^ p := Nat.pow_pos (by decide)
  have hG : 0 < 2 ^ k := Nat.pow_pos (by decide)
  have hnot : ¬ S.natAbs < 2 ^ p := by
    have := (bitLength_le_iff S.natAbs p); omega
  have hc : S.natAbs < 2 ^ p * 2 ^ k := by
    rw [← Nat.pow_add]; exact (bitLength_le_iff _ _).1 (by omega)
  have hq : S.natAbs / 2 ^ k < 2 ^ p := (Nat.div_lt_iff_lt_mul hG).2 hc
  have hkk : bitLength S.natAbs - p = k := by omega
  refine ⟨roundQuot rm (decide (S < 0)) S.natAbs k, ?_, ?_, ?_⟩
  · unfold rndI; simp only [hnot, if_false, hkk]
  · rcases roundQuot_neighbour rm (decide (S < 0)) S.natAbs k with h | h <;> rw [h] <;> omega
  · have hdm := Nat.div_add_mod S.natAbs (2 ^ k)
    have hm : S.natAbs % 2 ^ k < 2 ^ k := Nat.mod_lt _ hG
    by_cases hr : S.natAbs % 2 ^ k = 0
    · rw [roundQuot_exact rm _ _ _ hr, Nat.div_mul_cancel (Nat.dvd_of_mod_eq_zero hr)]
      simpa using hG
    · have hn := roundQuot_neighbour rm (decide (S < 0)) S.natAbs k
      generalize roundQuot rm (decide (S < 0)) S.natAbs k = Q at *
      generalize S.natAbs / 2 ^ k = q at *
      generalize S.natAbs % 2 ^ k = r at *
      generalize 2 ^ k = G at *
      have e1 : (q + 1) * G = q * G + G := by rw [Nat.add_mul]; simp
      have e2 : G * q = q * G := Nat.mul_comm _ _
      rcases hn with h | h <;> subst h <;> omega

/-- any mode: a rounded integer is representable — rounding its negation (under any mode) is exact -/
theorem rndI_repr_neg (p : Nat) (hp : 1 ≤ p) (rm rm' : RM) (S : Int) :
    rndI p rm' (-(rndI p rm S)) = -(rndI p rm S) := by
  by_cases hs : S.natAbs < 2 ^ p
  · rw [rndI_small p rm S hs]; exact rndI_small p rm' _ (by omega)
  · have hne : S.natAbs ≠ 0 := by have : 0 < 2 ^ p := Nat.pow_pos (by decide); omega
    have hLp : p < bitLength S.natAbs := by have := (bitLength_le_iff S.natAbs p); omega
    obtain ⟨k, hk⟩ : ∃ k, bitLength S.natAbs = p + k := ⟨bitLength S.natAbs - p, by omega⟩
    obtain ⟨Q, hR, hQ, _⟩ := rndI_big p rm S k hk (by omega)
    apply rndI_exact
    have hab : (-(rndI p rm S)).natAbs = Q * 2 ^ k := by
      rw [hR]; by_cases hn : S < 0 <;> simp only [hn, if_true, if_false] <;> omega
    rw [hab]
    by_cases hQ0 : Q = 0
    · subst hQ0; simp
    · rw [RF.bitLength_shift Q k hQ0]
      by_cases hQp : Q < 2 ^ p
      · have := (bitLength_le_iff Q p).2 hQp
        exact mul_pow_mod Q k _ (by omega)
      · have hQe : Q = 2 ^ p := by omega
        have hb : bitLength Q = p + 1 := by
          rw [bitLength_eq_iff Q (p + 1) (by omega), hQe]
          have := two_pow_pred (p + 1) (by omega)
          simp only [Nat.add_sub_cancel] at this ⊢
          omega
        rw [hb, hQe, ← Nat.pow_add]
        have : p + 1 + k - p = k + 1 := by omega
        rw [this]
        obtain ⟨j, hj⟩ : ∃ j, p + k = (k + 1) + j := ⟨p - 1, by omega⟩
        rw [hj, Nat.pow_add]
        exact Nat.mul_mod_right _ _

/-- the rounding error of a product of two `p`-digit significands has fewer than `p + 1` digits -/
theorem rndI_mul_err (p : Nat) (rm : RM) (S : Int) (hS : S.natAbs < 2 ^ p * 2 ^ p) :
    (S - rndI p rm S).natAbs < 2 ^ p := by
  have hP : 0 < 2 ^ p := Nat.pow_pos (by decide)
  by_cases hs : S.natAbs < 2 ^ p
  · rw [rndI_small p rm S hs]; simpa using hP
  · have hLp : p < bitLength S.natAbs := by have := (bitLength_le_iff S.natAbs p); omega
    obtain ⟨k, hk⟩ : ∃ k, bitLength S.natAbs = p + k := ⟨bitLength S.natAbs - p, by omega⟩
    have hkp : k ≤ p := by
      have : bitLength S.natAbs ≤ p + p := (bitLength_le_iff _ _).2 (by rw [Nat.pow_add]; exact hS)
      omega
    obtain ⟨Q, hR, _, hd⟩ := rndI_big p rm S k hk (by omega)
    have hGP : 2 ^ k ≤ 2 ^ p := Nat.pow_le_pow_right (by decide) hkp
    rw [hR]
    by_cases hn : S < 0 <;> simp only [hn, if_true, if_false] <;> omega

/-- **FMA-based 2Mul on the integer model, every rounding mode**: `R = RN(S)`, `−R` is representable,
`T = RN(S − R)` is exact, `R + T = S` -/
theorem fast2mul_rndI (p : Nat) (hp : 1 ≤ p) (rm : RM) (S : Int) (hS : S.natAbs < 2 ^ p * 2 ^ p) :
    rndI p rm (-(rndI p rm S)) = -(rndI p rm S) ∧
    rndI p rm (S + rndI p rm (-(rndI p rm S))) = S - rndI p rm S ∧
    rndI p rm S + rndI p rm (S + rndI p rm (-(rndI p rm S))) = S := by
  have h1 := rndI_repr_neg p hp rm rm S
  have h2 : rndI p rm (S + rndI p rm (-(rndI p rm S))) = S - rndI p rm S := by
    rw [h1]
    have : S + -rndI p rm S = S - rndI p rm S := by omega
    rw [this]
    exact rndI_small p rm _ (rndI_mul_err p rm S hS)
  exact ⟨h1, h2, by rw [h2]; omega⟩

/-! ### the model -/

theorem fl_ap_mul {C : Ctx} {p : Nat} {rm : RM} (a b : RF) (hC : FloatLike C p rm (a.exp + b.exp)) :
    ∃ y : RF, ap C .mul [.fv (.fin a), .fv (.fin b)] = .ok (.fv (.fin y)) ∧
      y.okAt (a.exp + b.exp) ∧ y.sc (a.exp + b.exp) = rndI p rm (a.sc a.exp * b.sc b.exp) := by
  have hagree := Fpy.Props.C02.mul_correct C hC.1 a b
  obtain ⟨hok, hsc⟩ := RF.mul_sc a b a.exp b.exp (RF.okAt_self a) (RF.okAt_self b)
  obtain ⟨y, fl, hr, hyok, hysc⟩ := hC.2 (a.mul b) hok
  rw [hr] at hagree
  exact ⟨y, ap_of_agree _ .mul [.fin a, .fin b] y fl hagree, hyok, by rw [hysc, hsc]⟩

theorem fl_ap_neg {C : Ctx} {p : Nat} {rm : RM} {g : Int} (hC : FloatLike C p rm g) (x : RF) (hx : x.okAt g) :
    ∃ y : RF, ap C .neg [.fv (.fin x)] = .ok (.fv (.fin y)) ∧ y.okAt g ∧ y.sc g = rndI p rm (-(x.sc g)) := by
  have hagree := Fpy.Props.C02.neg_correct C hC.1 x
  obtain ⟨y, fl, hr, hyok, hysc⟩ := hC.2 x.neg (RF.neg_okAt hx)
  rw [hr] at hagree
  exact ⟨y, ap_of_agree _ .neg [.fin x] y fl hagree, hyok, by rw [hysc, RF.neg_sc]⟩

theorem fl_ap_fma {C : Ctx} {p : Nat} {rm : RM} (a b z : RF) (hC : FloatLike C p rm (a.exp + b.exp))
    (hz : z.okAt (a.exp + b.exp)) :
    ∃ y : RF, ap C .fma [.fv (.fin a), .fv (.fin b), .fv (.fin z)] = .ok (.fv (.fin y)) ∧
      y.okAt (a.exp + b.exp) ∧
      y.sc (a.exp + b.exp) = rndI p rm (a.sc a.exp * b.sc b.exp + z.sc (a.exp + b.exp)) := by
  have hagree := Fpy.Props.C02.fma_correct C hC.1 a b z
  obtain ⟨hok, hsc⟩ := RF.mul_sc a b a.exp b.exp (RF.okAt_self a) (RF.okAt_self b)
  obtain ⟨hok2, hsc2⟩ := RF.add_sc (a.mul b) z _ hok hz
  obtain ⟨y, fl, hr, hyok, hysc⟩ := hC.2 ((a.mul b).add z) hok2
  rw [hr] at hagree
  exact ⟨y, ap_of_agree _ .fma [.fin a, .fin b, .fin z] y fl hagree, hyok, by rw [hysc, hsc2, hsc]⟩

theorem natAbs_sc_self (x : RF) : (x.sc x.exp).natAbs = x.c := by
  rw [natAbs_sc]; unfold RF.mag; simp

/-- **FMA-based 2Mul in a floating-point context that rounds to `p` digits on the grid `2^(a.exp + b.exp)`**
(the product of the last digits of the operands is representable: no underflow of the error term), EVERY
rounding mode: for operands with at most `p` significant digits the model's `fast_2mul` returns finite
`(r1, r2)` with `r1 + r2 = a·b` exactly (the error of the rounded product is representable, the FMA returns it). -/
theorem fast2mul_floatLike (C : Ctx) (p : Nat) (hp : 1 ≤ p) (rm : RM)
    (a b : RF) (hC : FloatLike C p rm (a.exp + b.exp)) (ha : bitLength a.c ≤ p) (hb : bitLength b.c ≤ p)
    (sv tv : NV) (h : fast2mul C (.fv (.fin a)) (.fv (.fin b)) = .ok (sv, tv)) :
    ∃ s t : RF, sv = .fv (.fin s) ∧ tv = .fv (.fin t) ∧ s.val + t.val = a.val * b.val := by
  obtain ⟨r1, h1, h1ok, h1sc⟩ := fl_ap_mul a b hC
  obtain ⟨n1, h2, h2ok, h2sc⟩ := fl_ap_neg hC r1 h1ok
  obtain ⟨r2, h3, h3ok, h3sc⟩ := fl_ap_fma a b n1 hC h2ok
  unfold fast2mul at h
  simp only [bind, Except.bind, pure, Except.pure, h1, h2, h3, Except.ok.injEq, Prod.mk.injEq] at h
  refine ⟨r1, r2, h.1.symm, h.2.symm, ?_⟩
  have hPa : a.c < 2 ^ p := (bitLength_le_iff _ _).1 ha
  have hPb : b.c < 2 ^ p := (bitLength_le_iff _ _).1 hb
  have hS : (a.sc a.exp * b.sc b.exp).natAbs < 2 ^ p * 2 ^ p := by
    rw [Int.natAbs_mul, natAbs_sc_self, natAbs_sc_self]
    exact Nat.mul_lt_mul'' hPa hPb
  obtain ⟨_, _, hsum⟩ := fast2mul_rndI p hp rm _ hS
  have hint : r1.sc (a.exp + b.exp) + r2.sc (a.exp + b.exp) = a.sc a.exp * b.sc b.exp := by
    rw [h3sc, h2sc, h1sc]; exact hsum
  rw [val_eq_sc r1 _ h1ok, val_eq_sc r2 _ h3ok, val_eq_sc a _ (RF.okAt_self a), val_eq_sc b _ (RF.okAt_self b),
    ← Rat.add_mul, ← Rat.intCast_add, hint, RF.two_zpow_add, Rat.intCast_mul]
  grind

end Fpy.C20
