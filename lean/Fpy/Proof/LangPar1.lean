/-
Heap-location parametricity, part 1: the helper functions of the evaluator (`valEq`, `bindPat`, the
subscript walk of `x[i]… = e`, the row builders of `zip`/`enumerate`, the callee environment, the
context constructors) map related inputs to related outputs.
-/
import Fpy.Proof.LangPar0
namespace Fpy.Xform
open Fpy Fpy.Lang

theorem VR.inv {π : RMap} {D : List Nat} {d : Nat} {v w : Val} (h : VR π D d v w) :
    (flatV v = true ∧ w = v) ∨ (∃ vs ws, v = .tuple vs ∧ w = .tuple ws ∧ VRs π D d vs ws) ∨
      (∃ r, v = .list r ∧ w = .list (π r) ∧ r < d ∧ r ∉ D) := by
  cases v <;> simp only [VR] at h
  · exact .inl ⟨rfl, h⟩
  · exact .inl ⟨rfl, h⟩
  · exact .inl ⟨rfl, h⟩
  · cases w <;> first | exact absurd h id | exact .inr (.inl ⟨_, _, rfl, rfl, h⟩)
  · exact .inr (.inr ⟨_, rfl, h.2.2, h.1, h.2.1⟩)

theorem valEq_go_rel {π : RMap} {D : List Nat} {d : Nat} {μ1 μ2 : Heap} (n : Nat)
    (ih : ∀ a a' b b', VR π D d a a' → VR π D d b b' → valEq μ1 n a b = valEq μ2 n a' b') :
    ∀ xs xs' ys ys', VRs π D d xs xs' → VRs π D d ys ys' → valEq.go μ1 n xs ys = valEq.go μ2 n xs' ys' := by
  intro xs
  induction xs with
  | nil =>
    intro xs' ys ys' hx hy
    rw [VRs.inv_nil hx]
    cases ys with
    | nil => rw [VRs.inv_nil hy]; simp only [valEq.go]
    | cons y ys => obtain ⟨y', ys'', rfl, _, _⟩ := VRs.inv_cons hy; simp only [valEq.go]
  | cons x xs ihx =>
    intro xs' ys ys' hx hy
    obtain ⟨x', xs'', rfl, hx1, hx2⟩ := VRs.inv_cons hx
    cases ys with
    | nil => rw [VRs.inv_nil hy]; simp only [valEq.go]
    | cons y ys =>
      obtain ⟨y', ys'', rfl, hy1, hy2⟩ := VRs.inv_cons hy
      simp only [valEq.go, ih x x' y y' hx1 hy1, ihx xs'' ys ys'' hx2 hy2]

theorem valEq_rel {π : RMap} {D : List Nat} {μ1 μ2 : Heap} (hh : HR π D μ1 μ2) :
    ∀ n a a' b b', VR π D μ1.length a a' → VR π D μ1.length b b' → valEq μ1 n a b = valEq μ2 n a' b' := by
  intro n
  induction n with
  | zero => intro a a' b b' _ _; simp only [valEq]
  | succ n ih =>
    intro a a' b b' ha hb
    have hgo := valEq_go_rel (μ1 := μ1) (μ2 := μ2) n ih
    rcases VR.inv ha with ⟨hfa, rfl⟩ | ⟨vs, ws, rfl, rfl, hvs⟩ | ⟨r, rfl, rfl, hr, hrd⟩ <;>
    rcases VR.inv hb with ⟨hfb, rfl⟩ | ⟨vs', ws', rfl, rfl, hvs'⟩ | ⟨r', rfl, rfl, hr', hrd'⟩
    · exact valEq_flat μ1 μ2 (n+1) hfa hfb
    · cases a' <;> simp only [flatV, Bool.false_eq_true] at hfa <;> simp only [valEq]
    · cases a' <;> simp only [flatV, Bool.false_eq_true] at hfa <;> simp only [valEq]
    · cases b' <;> simp only [flatV, Bool.false_eq_true] at hfb <;> simp only [valEq]
    · simp only [valEq, VRs.length_eq hvs, VRs.length_eq hvs', hgo vs ws vs' ws' hvs hvs']
    · simp only [valEq]
    · cases b' <;> simp only [flatV, Bool.false_eq_true] at hfb <;> simp only [valEq]
    · simp only [valEq]
    · simp only [valEq]
      have h1 := heapGet_rel hh r hrd
      have h2 := heapGet_rel hh r' hrd'
      cases e1 : heapGet μ1 r <;> cases e2 : heapGet μ2 (π r) <;> rw [e1, e2] at h1 <;> simp only [RelM] at h1
      · subst h1; rfl
      · cases e3 : heapGet μ1 r' <;> cases e4 : heapGet μ2 (π r') <;> rw [e3, e4] at h2 <;> simp only [RelM] at h2
        · subst h2; rfl
        · show (if _ then _ else _) = (if _ then _ else _)
          rw [VRs.length_eq h1, VRs.length_eq h2, hgo _ _ _ _ h1 h2]


theorem bindPat_rel {π : RMap} {D : List Nat} {d : Nat} : ∀ (n : Nat) (p : Pat) (v w : Val) (σ1 σ2 : Env), ER π D d σ1 σ2 → VR π D d v w →
    RelM (ER π D d) (bindPat n p v σ1) (bindPat n p w σ2) := by
  intro n
  induction n with
  | zero => intro p v w σ1 σ2 _ _; simp only [bindPat]; exact rfl
  | succ n ih =>
    have hgo : ∀ (ps : List Pat) (vs ws : List Val) (σ1 σ2 : Env), ER π D d σ1 σ2 → VRs π D d vs ws →
        RelM (ER π D d) (bindPat.go n ps vs σ1) (bindPat.go n ps ws σ2) := by
      intro ps
      induction ps with
      | nil => intro vs ws σ1 σ2 he _; simp only [bindPat.go]; exact he
      | cons p ps ihp =>
        intro vs ws σ1 σ2 he hv
        cases vs with
        | nil => rw [VRs.inv_nil hv]; simp only [bindPat.go]; exact he
        | cons v vs =>
          obtain ⟨w, ws', rfl, h1, h2⟩ := VRs.inv_cons hv
          simp only [bindPat.go]
          exact RelM.bind (ih p v w σ1 σ2 he h1) (fun σ1' σ2' he' => ihp vs ws' σ1' σ2' he' h2)
    intro p v w σ1 σ2 he hv
    cases p with
    | var x => simp only [bindPat]; exact he.set x hv
    | wild => simp only [bindPat]; exact he
    | tup ps =>
      rcases VR.inv hv with ⟨hf, rfl⟩ | ⟨vs, ws, rfl, rfl, hvs⟩ | ⟨r, rfl, rfl, hr, hrd⟩
      · cases w <;> simp only [flatV, Bool.false_eq_true] at hf <;> simp only [bindPat] <;> exact rfl
      · simp only [bindPat, VRs.length_eq hvs]
        split
        · exact rfl
        · exact hgo ps vs ws σ1 σ2 he hvs
      · simp only [bindPat]; exact rfl

/-- the subscript walk of `x[i₁]…[iₖ] = e` ends at related cells -/
theorem walk_rel {π : RMap} {D : List Nat} {μ1 μ2 : Heap} (hh : HR π D μ1 μ2) :
    ∀ (ks : List Nat) (v w : Val), VR π D μ1.length v w →
      RelM (fun a b => b = (π a.1, a.2) ∧ a.1 ∉ D) (evalS.walk μ1 v ks) (evalS.walk μ2 w ks) := by
  intro ks
  induction ks with
  | nil => intro v w _; cases v <;> cases w <;> simp only [evalS.walk] <;> exact rfl
  | cons k ks ih =>
    intro v w hv
    rcases VR.inv hv with ⟨hf, rfl⟩ | ⟨vs, ws, rfl, rfl, hvs⟩ | ⟨r, rfl, rfl, hr, hrd⟩
    · cases w <;> simp only [flatV, Bool.false_eq_true] at hf <;> simp only [evalS.walk] <;> exact rfl
    · simp only [evalS.walk]; exact rfl
    · cases ks with
      | nil => simp only [evalS.walk]; exact ⟨rfl, hrd⟩
      | cons k' ks' =>
        simp only [evalS.walk]
        apply RelM.bind (heapGet_rel hh r hrd)
        intro l1 l2 hl
        have := VRs.get hl k
        cases h1 : l1[k]? <;> cases h2 : l2[k]? <;> rw [h1, h2] at this <;> simp only [ORel] at this
        · exact rfl
        · exact ih _ _ this

def VRss (π : RMap) (D : List Nat) (d : Nat) : List (List Val) → List (List Val) → Prop
  | [], ls => ls = []
  | l :: ls, ls' => match ls' with | l' :: ls'' => VRs π D d l l' ∧ VRss π D d ls ls'' | [] => False

theorem mapM_asList_rel {π : RMap} {D : List Nat} {d : Nat} {μ1 μ2 : Heap} (hh : HR π D μ1 μ2) :
    ∀ {vs ws : List Val}, VRs π D d vs ws → RelM (VRss π D μ1.length) (vs.mapM (asList μ1)) (ws.mapM (asList μ2))
  | [], ws, h => by rw [VRs.inv_nil h]; simp only [List.mapM_nil]; exact (rfl : VRss π D μ1.length [] [])
  | v :: vs, ws, h => by
    obtain ⟨w, ws', rfl, h1, h2⟩ := VRs.inv_cons h
    simp only [List.mapM_cons]
    apply RelM.bind (asList_rel hh h1)
    intro l1 l2 hl
    apply RelM.bind (mapM_asList_rel hh h2)
    intro ls1 ls2 hls
    show VRss π D μ1.length (l1 :: ls1) (l2 :: ls2)
    simp only [VRss]; exact ⟨hl, hls⟩

theorem VRss.any_len {π : RMap} {D : List Nat} {d : Nat} (n : Nat) : ∀ {ls ls' : List (List Val)}, VRss π D d ls ls' →
    ls.any (fun l => l.length != n) = ls'.any (fun l => l.length != n)
  | [], ls', h => by simp only [VRss] at h; rw [h]
  | l :: ls, ls', h => by
    cases ls' with
    | nil => simp only [VRss] at h
    | cons l' ls'' =>
      simp only [VRss] at h
      simp only [List.any_cons, VRs.length_eq h.1, VRss.any_len n h.2]

theorem VRss.column {π : RMap} {D : List Nat} {d : Nat} (i : Nat) : ∀ {ls ls' : List (List Val)}, VRss π D d ls ls' →
    VRs π D d (ls.filterMap (fun l => l[i]?)) (ls'.filterMap (fun l => l[i]?))
  | [], ls', h => by simp only [VRss] at h; rw [h]; exact VRs.nil _ _ _
  | l :: ls, ls', h => by
    cases ls' with
    | nil => simp only [VRss] at h
    | cons l' ls'' =>
      simp only [VRss] at h
      have hi := VRs.get h.1 i
      have ht := VRss.column i h.2
      cases e1 : l[i]? <;> cases e2 : l'[i]? <;> rw [e1, e2] at hi <;> simp only [ORel] at hi
      · simp only [List.filterMap_cons, e1, e2]; exact ht
      · simp only [List.filterMap_cons, e1, e2]; exact VRs.cons hi ht

/-- the rows of `zip` -/
theorem zip_rows_rel {π : RMap} {D : List Nat} {d : Nat} {ls ls' : List (List Val)} (h : VRss π D d ls ls') (n : Nat) :
    VRs π D d ((List.range n).map (fun i => Val.tuple (ls.filterMap (fun l => l[i]?))))
      ((List.range n).map (fun i => Val.tuple (ls'.filterMap (fun l => l[i]?)))) := by
  apply VRs.map
  intro i _
  simp only [VR]
  exact VRss.column i h

/-- the rows of `enumerate` -/
theorem enum_rows_rel {π : RMap} {D : List Nat} {d : Nat} {l l' : List Val} (h : VRs π D d l l') (n : Nat) :
    VRs π D d ((List.range n).filterMap (fun (i : Nat) => (l[i]?).map (fun x => Val.tuple [intVal (i : Int), x])))
      ((List.range n).filterMap (fun (i : Nat) => (l'[i]?).map (fun x => Val.tuple [intVal (i : Int), x]))) := by
  apply VRs.filterMap
  intro i _
  have hi := VRs.get h i
  cases e1 : l[i]? <;> cases e2 : l'[i]? <;> rw [e1, e2] at hi <;> simp only [ORel] at hi
  · simp only [Option.map, ORel]
  · simp only [Option.map, ORel, VR, VRs]
    exact ⟨by simp only [intVal, VR], hi, trivial⟩

/-- the callee's parameter environment -/
theorem ER.setAll {π : RMap} {D : List Nat} {d : Nat} : ∀ (ps : List String) {vs ws : List Val} {σ1 σ2 : Env}, ER π D d σ1 σ2 →
    VRs π D d vs ws →
    ER π D d ((ps.zip vs).foldl (fun s (x : String × Val) => s.set x.1 x.2) σ1)
      ((ps.zip ws).foldl (fun s (x : String × Val) => s.set x.1 x.2) σ2)
  | [], _, _, _, _, he, _ => by simpa using he
  | p :: ps, vs, ws, σ1, σ2, he, hv => by
    cases vs with
    | nil => rw [VRs.inv_nil hv]; simpa using he
    | cons v vs =>
      obtain ⟨w, ws', rfl, h1, h2⟩ := VRs.inv_cons hv
      simp only [List.zip_cons_cons, List.foldl_cons]
      exact ER.setAll ps (he.set p h1) h2

/-- a context constructor sees numbers only -/
theorem ctxCtor_rel {π : RMap} {D : List Nat} {d : Nat} (f : String) {vs ws : List Val} (h : VRs π D d vs ws) :
    ctxCtor f vs = ctxCtor f ws := by
  unfold ctxCtor
  generalize f.splitOn "/" = parts
  rcases vs with _ | ⟨a, _ | ⟨b, _ | ⟨c, vs⟩⟩⟩
  · rw [VRs.inv_nil h]
  · obtain ⟨a', ws', rfl, h1, h2⟩ := VRs.inv_cons h
    rw [VRs.inv_nil h2]
    have e1 := ctxIntArg_rel h1
    split <;> simp_all
  · obtain ⟨a', ws', rfl, h1, h2⟩ := VRs.inv_cons h
    obtain ⟨b', ws2, rfl, h3, h4⟩ := VRs.inv_cons h2
    rw [VRs.inv_nil h4]
    have e1 := ctxIntArg_rel h1
    have e3 := ctxIntArg_rel h3
    split <;> simp_all
  · obtain ⟨a', ws', rfl, h1, h2⟩ := VRs.inv_cons h
    obtain ⟨b', ws2, rfl, h3, h4⟩ := VRs.inv_cons h2
    obtain ⟨c', ws3, rfl, h5, h6⟩ := VRs.inv_cons h4
    split <;> simp_all

theorem VR.num' (π : RMap) (D : List Nat) (d : Nat) (a : NV) : VR π D d (.num a) (.num a) := by simp only [VR]
theorem VR.bool' (π : RMap) (D : List Nat) (d : Nat) (a : Bool) : VR π D d (.bool a) (.bool a) := by simp only [VR]
theorem VR.ctx' (π : RMap) (D : List Nat) (d : Nat) (a : Ctx) : VR π D d (.ctx a) (.ctx a) := by simp only [VR]
theorem VR.tuple' {π : RMap} {D : List Nat} {d : Nat} {vs ws : List Val} (h : VRs π D d vs ws) : VR π D d (.tuple vs) (.tuple ws) := by
  simp only [VR]; exact h
theorem VR.list_inv {π : RMap} {D : List Nat} {d : Nat} {r : Nat} {w : Val} (h : VR π D d (.list r) w) : w = .list (π r) ∧ r < d := by
  simp only [VR] at h; exact ⟨h.2.2, h.1⟩

/-! ### outcome relations -/

structure QE (π : RMap) (D : List Nat) (μ1 μ2 : Heap) (a b : Val × Heap) : Prop where
  val : VR π D a.2.length a.1 b.1
  heap : HR π D a.2 b.2
  ext : ExtP π D μ1 μ2 a.2 b.2

structure QEs (π : RMap) (D : List Nat) (μ1 μ2 : Heap) (a b : List Val × Heap) : Prop where
  val : VRs π D a.2.length a.1 b.1
  heap : HR π D a.2 b.2
  ext : ExtP π D μ1 μ2 a.2 b.2

def OR (π : RMap) (D : List Nat) (d : Nat) : Outcome → Outcome → Prop
  | .normal σ1, .normal σ2 => ER π D d σ1 σ2
  | .ret v, .ret w => VR π D d v w
  | _, _ => False

structure QS (π : RMap) (D : List Nat) (μ1 μ2 : Heap) (a b : Outcome × Heap) : Prop where
  out : OR π D a.2.length a.1 b.1
  heap : HR π D a.2 b.2
  ext : ExtP π D μ1 μ2 a.2 b.2

/-- the induction hypothesis: every evaluator function at fuel `n` respects the renaming `π` -/
structure ParAt (Φ : Funs) (π : RMap) (D : List Nat) (n : Nat) : Prop where
  evalE : ∀ d σ1 σ2 μ1 μ2 C e, d ≤ μ1.length → ER π D d σ1 σ2 → HR π D μ1 μ2 →
    RelM (QE π D μ1 μ2) (evalE Φ n σ1 μ1 C e) (evalE Φ n σ2 μ2 C e)
  evalEs : ∀ d σ1 σ2 μ1 μ2 C es, d ≤ μ1.length → ER π D d σ1 σ2 → HR π D μ1 μ2 →
    RelM (QEs π D μ1 μ2) (evalEs Φ n σ1 μ1 C es) (evalEs Φ n σ2 μ2 C es)
  evalChain : ∀ d σ1 σ2 μ1 μ2 C a1 a2 ops es, d ≤ μ1.length → ER π D d σ1 σ2 → HR π D μ1 μ2 → VR π D d a1 a2 →
    RelM (QE π D μ1 μ2) (evalChain Φ n σ1 μ1 C a1 ops es) (evalChain Φ n σ2 μ2 C a2 ops es)
  evalAnd : ∀ d σ1 σ2 μ1 μ2 C es, d ≤ μ1.length → ER π D d σ1 σ2 → HR π D μ1 μ2 →
    RelM (QE π D μ1 μ2) (evalAnd Φ n σ1 μ1 C es) (evalAnd Φ n σ2 μ2 C es)
  evalOr : ∀ d σ1 σ2 μ1 μ2 C es, d ≤ μ1.length → ER π D d σ1 σ2 → HR π D μ1 μ2 →
    RelM (QE π D μ1 μ2) (evalOr Φ n σ1 μ1 C es) (evalOr Φ n σ2 μ2 C es)
  evalComp : ∀ d σ1 σ2 μ1 μ2 C ps its elt, d ≤ μ1.length → ER π D d σ1 σ2 → HR π D μ1 μ2 →
    RelM (QEs π D μ1 μ2) (evalComp Φ n σ1 μ1 C ps its elt) (evalComp Φ n σ2 μ2 C ps its elt)
  compLoop : ∀ d σ1 σ2 μ1 μ2 C r i p ps its elt, d ≤ μ1.length → ER π D d σ1 σ2 → HR π D μ1 μ2 → r ∉ D →
    RelM (QEs π D μ1 μ2) (compLoop Φ n σ1 μ1 C r i p ps its elt) (compLoop Φ n σ2 μ2 C (π r) i p ps its elt)
  evalS : ∀ d σ1 σ2 μ1 μ2 C s, d ≤ μ1.length → ER π D d σ1 σ2 → HR π D μ1 μ2 →
    RelM (QS π D μ1 μ2) (evalS Φ n σ1 μ1 C s) (evalS Φ n σ2 μ2 C s)
  forLoop : ∀ d σ1 σ2 μ1 μ2 C r i p body, d ≤ μ1.length → ER π D d σ1 σ2 → HR π D μ1 μ2 → r ∉ D →
    RelM (QS π D μ1 μ2) (forLoop Φ n σ1 μ1 C r i p body) (forLoop Φ n σ2 μ2 C (π r) i p body)
  evalB : ∀ d σ1 σ2 μ1 μ2 C ss, d ≤ μ1.length → ER π D d σ1 σ2 → HR π D μ1 μ2 →
    RelM (QS π D μ1 μ2) (evalB Φ n σ1 μ1 C ss) (evalB Φ n σ2 μ2 C ss)

end Fpy.Xform
