/-
Round-to-odd re-rounding: the load-bearing lemma of C02.

An exact value truncated toward zero at some digit, with "anything lost" OR-ed into the last kept
digit (what `gmputils._round_odd` does to MPFR's toward-zero result), rounds under every mode to the
same point as the exact value itself, provided at least two digits are kept below the final rounding
position.  Proved once on integers (`rto_reround`), then lifted to the model's `_round_at`.
-/
import Fpy.Proof.Round
import Fpy.Model.Num.Engine
namespace Fpy
open Fpy.Spec

/-- truncate `c` by `j` digits and OR the sticky bit into the last kept digit -/
def rtoNat (c j : Nat) : Nat := rtoBit (c / 2 ^ j) (c % 2 ^ j != 0)

theorem div_mod_of_eq {a G q r : Nat} (h : a = G * q + r) (hr : r < G) : a / G = q ∧ a % G = r := by
  subst h
  have hG : 0 < G := by omega
  constructor
  · rw [Nat.mul_add_div hG, Nat.div_eq_of_lt hr]; rfl
  · rw [Nat.mul_add_mod, Nat.mod_eq_of_lt hr]

/-- what `roundQuot` looks at: the quotient, whether the remainder is zero, and how twice the remainder
compares with the grid spacing -/
theorem roundQuot_congr (rm : RM) (s : Bool) (c k c' k' : Nat)
    (hq : c' / 2 ^ k' = c / 2 ^ k)
    (h0 : c' % 2 ^ k' = 0 ↔ c % 2 ^ k = 0)
    (hlt : 2 * (c' % 2 ^ k') < 2 ^ k' ↔ 2 * (c % 2 ^ k) < 2 ^ k)
    (hgt : 2 * (c' % 2 ^ k') > 2 ^ k' ↔ 2 * (c % 2 ^ k) > 2 ^ k) :
    roundQuot rm s c' k' = roundQuot rm s c k := by
  unfold roundQuot
  simp only [hq]
  by_cases z : c % 2 ^ k = 0
  · simp [z, h0.2 z]
  · have z' : ¬ c' % 2 ^ k' = 0 := fun h => z (h0.1 h)
    simp only [z, z', if_false]
    cases rm <;> simp only []
    · -- rne
      by_cases a : 2 * (c % 2 ^ k) < 2 ^ k
      · simp [a, hlt.2 a]
      · have a' : ¬ 2 * (c' % 2 ^ k') < 2 ^ k' := fun h => a (hlt.1 h)
        by_cases b : 2 * (c % 2 ^ k) > 2 ^ k
        · simp [a, a', b, hgt.2 b]
        · have b' : ¬ 2 * (c' % 2 ^ k') > 2 ^ k' := fun h => b (hgt.1 h)
          simp [a, a', b, b']
    · -- rna
      by_cases a : 2 * (c % 2 ^ k) < 2 ^ k
      · simp [a, hlt.2 a]
      · have a' : ¬ 2 * (c' % 2 ^ k') < 2 ^ k' := fun h => a (hlt.1 h)
        simp [a, a']

/-- the arithmetic heart: remainder `r` (< 4H) of the truncated value on its grid, lost part `r0` (< J);
the sticky-adjusted remainder compares with zero and with the half-way point exactly as the full
remainder `r0 + J·r` does on the fine grid `J·4H` -/
theorem rto_arith (J H r r0 : Nat) (hJ : 0 < J) (hH : 0 < H) (hr0 : r0 < J) (hr : r < 4 * H) :
    ((if r % 2 = 0 ∧ r0 ≠ 0 then r + 1 else r) = 0 ↔ r0 + J * r = 0) ∧
    (2 * (if r % 2 = 0 ∧ r0 ≠ 0 then r + 1 else r) < 4 * H ↔ 2 * (r0 + J * r) < J * (4 * H)) ∧
    (2 * (if r % 2 = 0 ∧ r0 ≠ 0 then r + 1 else r) > 4 * H ↔ 2 * (r0 + J * r) > J * (4 * H)) := by
  have hA : ∀ a b, a ≤ b → J * a ≤ J * b := fun a b hab => Nat.mul_le_mul_left J hab
  have eB : J * (4 * H) = 4 * (J * H) := Nat.mul_left_comm J 4 H
  have eB2 : J * (2 * H) = 2 * (J * H) := Nat.mul_left_comm J 2 H
  have e1 : J * (r + 1) = J * r + J := by rw [Nat.mul_add, Nat.mul_one]
  have e2 : J * (r + 2) = J * r + 2 * J := by rw [Nat.mul_add]; omega
  have e21 : J * (2 * H + 1) = 2 * (J * H) + J := by rw [Nat.mul_add, Nat.mul_one, eB2]
  have f_lt : r < 2 * H → J * r + J ≤ 2 * (J * H) := fun hh => by
    have := hA (r + 1) (2 * H) (by omega); rw [e1, eB2] at this; exact this
  have f_lt2 : r + 2 ≤ 2 * H → J * r + 2 * J ≤ 2 * (J * H) := fun hh => by
    have := hA (r + 2) (2 * H) hh; rw [e2, eB2] at this; exact this
  have f_eq : r = 2 * H → J * r = 2 * (J * H) := fun hh => by rw [hh, eB2]
  have f_gt : 2 * H < r → 2 * (J * H) + J ≤ J * r := fun hh => by
    have := hA (2 * H + 1) r (by omega); rw [e21] at this; exact this
  have f_ge : 2 * H ≤ r → 2 * (J * H) ≤ J * r := fun hh => by
    have := hA (2 * H) r hh; rw [eB2] at this; exact this
  have f_z : r = 0 → J * r = 0 := fun hh => by rw [hh]; simp
  have f_nz : r ≠ 0 → J ≤ J * r := fun hh => Nat.le_mul_of_pos_right J (by omega)
  rw [eB]
  by_cases hc : r % 2 = 0 ∧ r0 ≠ 0
  · simp only [hc, and_self, if_true, ne_eq, not_false_eq_true]
    refine ⟨by constructor <;> intro hz <;> omega, ?_, ?_⟩
    · constructor
      · intro hz; have := f_lt2 (by omega); omega
      · intro hz
        by_cases hh : 2 * H ≤ r
        · have := f_ge hh; omega
        · omega
    · constructor
      · intro hz; have := f_ge (by omega); omega
      · intro hz
        by_cases hh : r + 2 ≤ 2 * H
        · have := f_lt2 hh; omega
        · omega
  · simp only [hc, if_false]
    have hodd' : r0 = 0 ∨ r % 2 = 1 := by
      by_cases a : r0 = 0
      · exact Or.inl a
      · exact Or.inr (by
          by_cases b : r % 2 = 0
          · exact absurd ⟨b, a⟩ hc
          · omega)
    refine ⟨?_, ?_, ?_⟩
    · constructor
      · intro hz; have := f_z hz; rcases hodd' with a | a <;> omega
      · intro hz
        by_cases hr : r = 0
        · exact hr
        · have := f_nz hr; omega
    · constructor
      · intro hz; have := f_lt (by omega); rcases hodd' with a | a <;> omega
      · intro hz
        by_cases hh : 2 * H ≤ r
        · have := f_ge hh; omega
        · omega
    · constructor
      · intro hz; have := f_gt (by omega); omega
      · intro hz
        rcases Nat.lt_trichotomy r (2 * H) with hh | hh | hh
        · have := f_lt hh; omega
        · have := f_eq hh; rcases hodd' with a | a <;> omega
        · omega

/-- quotient and remainder of the sticky-adjusted truncation on its own grid (the sticky bit never
carries into the next multiple of an even grid) -/
theorem rtoNat_div_mod (c j m : Nat) :
    (rtoNat c j) / 2 ^ (m + 2) = c / 2 ^ j / 2 ^ (m + 2) ∧
    (rtoNat c j) % 2 ^ (m + 2) =
      (if (c / 2 ^ j % 2 ^ (m + 2)) % 2 = 0 ∧ c % 2 ^ j ≠ 0 then c / 2 ^ j % 2 ^ (m + 2) + 1
       else c / 2 ^ j % 2 ^ (m + 2)) := by
  have hG : 2 ^ (m + 2) = 4 * 2 ^ m := by rw [Nat.pow_add]; omega
  have hpar : (c / 2 ^ j) % 2 = (c / 2 ^ j % 2 ^ (m + 2)) % 2 :=
    (Nat.mod_mod_of_dvd _ ⟨2 * 2 ^ m, by rw [hG]; omega⟩).symm
  have hdm := Nat.div_add_mod (c / 2 ^ j) (2 ^ (m + 2))
  have hrG : c / 2 ^ j % 2 ^ (m + 2) < 2 ^ (m + 2) := Nat.mod_lt _ (Nat.pow_pos (by decide))
  unfold rtoNat rtoBit
  generalize hr0d : c % 2 ^ j = r0 at *
  generalize htd : c / 2 ^ j = t at *
  generalize hrd : t % 2 ^ (m + 2) = r at *
  generalize hqd : t / 2 ^ (m + 2) = q at *
  by_cases hc : r % 2 = 0 ∧ r0 ≠ 0
  · have h1 : (t % 2 == 0 && r0 != 0) = true := by simp [hpar, hc.1, hc.2]
    rw [h1]; simp only [if_true, hc, and_self, ne_eq, not_false_eq_true]
    have hlt : r + 1 < 2 ^ (m + 2) := by rw [hG] at hrG ⊢; omega
    exact div_mod_of_eq (by omega) hlt
  · have h1 : (t % 2 == 0 && r0 != 0) = false := by
      rw [hpar]
      by_cases a : r % 2 = 0
      · have : r0 = 0 := by
          by_cases b : r0 = 0
          · exact b
          · exact absurd ⟨a, b⟩ hc
        simp [this]
      · simp [a]
    rw [h1]; simp only [Bool.false_eq_true, if_false, hc]
    exact ⟨hqd, hrd⟩

/-- **Round-to-odd re-rounding, on integers.**  `c` units; final grid `2^k` units; the intermediate keeps
everything above `2^j` plus a sticky last digit, and `j + 2 ≤ k` (two guard digits).  Then for every mode
and sign the intermediate rounds (on its own grid, `2^(k-j)` of its units) to the same multiple as `c`
does, and it is exact exactly when `c` is. -/
theorem rto_reround (rm : RM) (s : Bool) (c j k : Nat) (h : j + 2 ≤ k) :
    roundQuot rm s (rtoNat c j) (k - j) = roundQuot rm s c k ∧
    ((rtoNat c j) % 2 ^ (k - j) = 0 ↔ c % 2 ^ k = 0) := by
  obtain ⟨m, rfl⟩ : ∃ m, k = j + (m + 2) := ⟨k - j - 2, by omega⟩
  have hkj : j + (m + 2) - j = m + 2 := by omega
  rw [hkj]
  have hJ : 0 < 2 ^ j := Nat.pow_pos (by decide)
  have hH : 0 < 2 ^ m := Nat.pow_pos (by decide)
  have hG : 2 ^ (m + 2) = 4 * 2 ^ m := by rw [Nat.pow_add]; omega
  have hK : 2 ^ (j + (m + 2)) = 2 ^ j * 2 ^ (m + 2) := Nat.pow_add 2 j (m + 2)
  have hdd : c / 2 ^ (j + (m + 2)) = c / 2 ^ j / 2 ^ (m + 2) := by
    rw [Nat.pow_add, Nat.div_div_eq_div_mul]
  have hmm : c % 2 ^ (j + (m + 2)) = c % 2 ^ j + 2 ^ j * (c / 2 ^ j % 2 ^ (m + 2)) := by
    rw [Nat.pow_add, Nat.mod_mul]
  have hr0 : c % 2 ^ j < 2 ^ j := Nat.mod_lt _ hJ
  have hrG : c / 2 ^ j % 2 ^ (m + 2) < 4 * 2 ^ m := by rw [← hG]; exact Nat.mod_lt _ (Nat.pow_pos (by decide))
  obtain ⟨hq', hr'⟩ := rtoNat_div_mod c j m
  obtain ⟨a0, alt, agt⟩ := rto_arith (2 ^ j) (2 ^ m) (c / 2 ^ j % 2 ^ (m + 2)) (c % 2 ^ j) hJ hH hr0 hrG
  rw [← hG] at alt agt
  refine ⟨?_, ?_⟩
  · apply roundQuot_congr
    · rw [hq', hdd]
    · rw [hr', hmm]; exact a0
    · rw [hr', hmm, hK]; exact alt
    · rw [hr', hmm, hK]; exact agt
  · rw [hr', hmm]; exact a0

/-! ### Lifting to the model's `_round_at` -/

/-- the `(exp, c)` pair `_round_at` returns for a rounded quotient `Q` at position `n` with `p` digits:
a carry into the next binade halves the significand -/
def normQ (s : Bool) (n : Int) (p Q : Nat) : RF :=
  if bitLength Q > p then ⟨s, n + 2, Q / 2⟩ else ⟨s, n + 1, Q⟩

/-- determinate form of `roundAtCore_prec`: below-`n` digits present ⇒ the result is `normQ` of the
prescribed quotient, `inexact` iff digits were lost, `overflow` never set here -/
theorem roundAtCore_prec_val (x : RF) (p : Nat) (n : Int) (emin : Option Int) (rm : RM)
    (hc : x.c ≠ 0) (hp : 1 ≤ p) (hn : x.e - p ≤ n) (hle : x.exp ≤ n) :
    ∃ fl, x.roundAtCore (some p) n emin rm false =
        .ok (normQ x.s n p (roundQuot rm x.s x.c (n + 1 - x.exp).toNat), fl) ∧
      fl.inexact = decide (x.c % 2 ^ (n + 1 - x.exp).toNat ≠ 0) ∧ fl.overflow = false := by
  have hbl := bitLength_pos hc
  have h0 : ¬ x.exp > n := by omega
  generalize hk : (n + 1 - x.exp).toNat = k at *
  have hG : 0 < 2 ^ k := Nat.pow_pos (by decide)
  have hq : x.c / 2 ^ k < 2 ^ p := by
    have h1 : x.c < 2 ^ (bitLength x.c) := (bitLength_le_iff _ _).1 (Nat.le_refl _)
    have h2 : bitLength x.c ≤ p + k := by unfold RF.e RF.p at hn; omega
    have h3 : x.c < 2 ^ (p + k) := Nat.lt_of_lt_of_le h1 (Nat.pow_le_pow_right (by decide) h2)
    rw [Nat.pow_add] at h3
    exact (Nat.div_lt_iff_lt_mul hG).2 h3
  have hqb : ¬ bitLength (x.c / 2 ^ k) > p := by
    have := (bitLength_le_iff (x.c / 2 ^ k) p).2 hq; omega
  unfold RF.roundAtCore
  simp only [h0, decide_false, Bool.false_and, Bool.false_eq_true, if_false, split_spec x n hc hle, hk]
  by_cases hr : x.c % 2 ^ k = 0
  · simp only [hr, if_true]
    apply Exists.intro; refine ⟨?_, ?_, ?_⟩
    · rw [roundQuot_exact rm x.s x.c k hr]; unfold normQ; rw [if_neg hqb]
    · simp
    · rfl
  · simp only [hr, if_false]
    have hinc := roundIncrement_spec x.s x.exp n x.c rm hle (by rw [hk]; exact hr)
    rw [hk] at hinc
    rw [hinc]
    rcases roundQuot_neighbour rm x.s x.c k with h | h
    · have hne : ¬ (x.c / 2 ^ k = x.c / 2 ^ k + 1) := by omega
      simp only [h, hne, decide_false, Bool.false_eq_true, if_false]
      apply Exists.intro; refine ⟨?_, ?_, ?_⟩
      · unfold normQ; rw [if_neg hqb]
      · simp [hr]
      · rfl
    · simp only [h, decide_true, if_true]
      by_cases hcarry : bitLength (x.c / 2 ^ k + 1) > p
      · simp only [hcarry, if_true]
        apply Exists.intro; refine ⟨?_, ?_, ?_⟩
        · unfold normQ; rw [if_pos hcarry]
          have : n + 1 + 1 = n + 2 := by omega
          rw [this]
        · simp [hr]
        · rfl
      · simp only [hcarry, if_false]
        apply Exists.intro; refine ⟨?_, ?_, ?_⟩
        · unfold normQ; rw [if_neg hcarry]
        · simp [hr]
        · rfl

theorem bitLength_div_pow (c j q : Nat) (hq : 1 ≤ q) (h : bitLength c = q + j) : bitLength (c / 2 ^ j) = q := by
  have hJ : 0 < 2 ^ j := Nat.pow_pos (by decide)
  obtain ⟨h1, h2⟩ := (bitLength_eq_iff c (q + j) (by omega)).1 h
  apply (bitLength_eq_iff _ q hq).2
  constructor
  · apply (Nat.le_div_iff_mul_le hJ).2
    rw [← Nat.pow_add]
    have : q - 1 + j = q + j - 1 := by omega
    rw [this]; exact h1
  · apply (Nat.div_lt_iff_lt_mul hJ).2
    rw [← Nat.pow_add]; exact h2

/-- the sticky bit does not change the number of digits -/
theorem bitLength_rtoBit (t q : Nat) (b : Bool) (hq : 1 ≤ q) (h : bitLength t = q) : bitLength (rtoBit t b) = q := by
  unfold rtoBit
  split
  · rename_i hc
    obtain ⟨h1, h2⟩ := (bitLength_eq_iff t q hq).1 h
    apply (bitLength_eq_iff _ q hq).2
    have hev : t % 2 = 0 := by
      simp only [Bool.and_eq_true, beq_iff_eq] at hc; exact hc.1
    have hp := two_pow_pred q hq
    constructor <;> omega
  · exact h

/-- shape of the round-to-odd intermediate when digits are dropped -/
theorem rtoRF_drop (x : RF) (q : Nat) (h : ¬ x.p ≤ q) :
    rtoRF x q = ⟨x.s, x.exp + ((x.p - q : Nat) : Int), rtoNat x.c (x.p - q)⟩ := by
  unfold rtoRF rtoNat rtoBit; simp only [h, if_false]

theorem rtoRF_keep (x : RF) (q : Nat) (h : x.p ≤ q) : rtoRF x q = x := by
  unfold rtoRF; simp only [h, if_true]

theorem rtoRF_props (x : RF) (q : Nat) (hq : 1 ≤ q) (hc : x.c ≠ 0) :
    (rtoRF x q).c ≠ 0 ∧ (rtoRF x q).e = x.e ∧ (rtoRF x q).s = x.s := by
  by_cases h : x.p ≤ q
  · rw [rtoRF_keep x q h]; exact ⟨hc, rfl, rfl⟩
  · rw [rtoRF_drop x q h]
    have hb : bitLength x.c = q + (x.p - q) := by unfold RF.p at h ⊢; omega
    have h1 := bitLength_div_pow x.c (x.p - q) q hq hb
    have h2 : bitLength (rtoNat x.c (x.p - q)) = q := bitLength_rtoBit _ q _ hq h1
    refine ⟨?_, ?_, rfl⟩
    · intro hz; simp only at hz; rw [hz] at h2; unfold bitLength at h2; simp at h2; omega
    · unfold RF.e RF.p at *; simp only; rw [h2]; omega

/-- **Float shape** (`p` digits, position `n ≥ e − p`): rounding the round-to-odd intermediate with at least
`p + 2` digits gives the same `RealFloat` and the same `inexact` flag as rounding the exact value. -/
theorem rto_round_prec (x : RF) (p q : Nat) (n : Int) (emin : Option Int) (rm : RM)
    (hc : x.c ≠ 0) (hp : 1 ≤ p) (hq : p + 2 ≤ q) (hn : x.e - p ≤ n) :
    ∃ y fl fl', x.roundAtCore (some p) n emin rm false = .ok (y, fl) ∧
      (rtoRF x q).roundAtCore (some p) n emin rm false = .ok (y, fl') ∧
      fl'.inexact = fl.inexact ∧ fl'.overflow = fl.overflow := by
  by_cases h : x.p ≤ q
  · rw [rtoRF_keep x q h]
    obtain ⟨y, fl, h1, _⟩ := roundAtCore_prec x p n emin rm hc hp hn
    exact ⟨y, fl, fl, h1, h1, rfl, rfl⟩
  · obtain ⟨hc', he', hs'⟩ := rtoRF_props x q (by omega) hc
    have hle : x.exp ≤ n := by unfold RF.e at hn; omega
    have hle' : (rtoRF x q).exp ≤ n := by rw [rtoRF_drop x q h]; simp only; unfold RF.e at hn; omega
    obtain ⟨fl, h1, i1, o1⟩ := roundAtCore_prec_val x p n emin rm hc hp hn hle
    obtain ⟨fl', h2, i2, o2⟩ := roundAtCore_prec_val (rtoRF x q) p n emin rm hc' hp (by rw [he']; exact hn) hle'
    have hkk : (n + 1 - (rtoRF x q).exp).toNat = (n + 1 - x.exp).toNat - (x.p - q) := by
      rw [rtoRF_drop x q h]; simp only; omega
    have hj2 : (x.p - q) + 2 ≤ (n + 1 - x.exp).toNat := by unfold RF.e at hn; omega
    obtain ⟨r1, r2⟩ := rto_reround rm x.s x.c (x.p - q) (n + 1 - x.exp).toNat hj2
    have hcc : (rtoRF x q).c = rtoNat x.c (x.p - q) := by rw [rtoRF_drop x q h]
    rw [hkk, hs', hcc, r1] at h2
    rw [hkk, hcc] at i2
    refine ⟨_, fl, fl', h1, h2, ?_, by rw [o1, o2]⟩
    rw [i1, i2]
    by_cases z : x.c % 2 ^ (n + 1 - x.exp).toNat = 0
    · simp [z, r2.2 z]
    · have z' : ¬ rtoNat x.c (x.p - q) % 2 ^ ((n + 1 - x.exp).toNat - (x.p - q)) = 0 := fun hh => z (r2.1 hh)
      simp [z, z']

/-- **Fixed shape** (position `n` only), with the two-pass precision choice of `mpfr_call`:
two digits if everything lies at or below `n`, else the digits down to `n − 1`. -/
theorem rto_round_fixed (x : RF) (n : Int) (rm : RM) (hc : x.c ≠ 0) :
    ∃ y fl fl', x.roundAtCore none n none rm false = .ok (y, fl) ∧
      (if x.e ≤ n then rtoRF x 2 else rtoRF x ((x.e - n).toNat + 2)).roundAtCore none n none rm false = .ok (y, fl') ∧
      fl'.inexact = fl.inexact ∧ fl'.overflow = fl.overflow := by
  -- common treatment for a working precision q ≥ 2 with the digits kept reaching at least n − 1
  have main : ∀ q : Nat, 2 ≤ q → (x.e + 1 - (q : Int) ≤ n - 1) →
      ∃ y fl fl', x.roundAtCore none n none rm false = .ok (y, fl) ∧
        (rtoRF x q).roundAtCore none n none rm false = .ok (y, fl') ∧
        fl'.inexact = fl.inexact ∧ fl'.overflow = fl.overflow := by
    intro q hq2 hqn
    by_cases h : x.p ≤ q
    · rw [rtoRF_keep x q h]
      by_cases hle : x.exp ≤ n
      · exact ⟨_, _, _, roundAtCore_fixed x n rm hc hle, roundAtCore_fixed x n rm hc hle, rfl, rfl⟩
      · have : x.exp > n := by omega
        unfold RF.roundAtCore; simp only [this, decide_true, Bool.true_and, if_true]
        exact ⟨_, _, _, rfl, rfl, rfl, rfl⟩
    · obtain ⟨hc', he', hs'⟩ := rtoRF_props x q (by omega) hc
      have hle : x.exp ≤ n := by unfold RF.e at hqn; omega
      have hle' : (rtoRF x q).exp ≤ n := by rw [rtoRF_drop x q h]; simp only; unfold RF.e at hqn; omega
      have h1 := roundAtCore_fixed x n rm hc hle
      have h2 := roundAtCore_fixed (rtoRF x q) n rm hc' hle'
      have hkk : (n + 1 - (rtoRF x q).exp).toNat = (n + 1 - x.exp).toNat - (x.p - q) := by
        rw [rtoRF_drop x q h]; simp only; omega
      have hj2 : (x.p - q) + 2 ≤ (n + 1 - x.exp).toNat := by unfold RF.e at hqn; omega
      obtain ⟨r1, r2⟩ := rto_reround rm x.s x.c (x.p - q) (n + 1 - x.exp).toNat hj2
      have hcc : (rtoRF x q).c = rtoNat x.c (x.p - q) := by rw [rtoRF_drop x q h]
      rw [hkk, hs', hcc, r1] at h2
      refine ⟨_, _, _, h1, h2, ?_, rfl⟩
      simp only
      by_cases z : x.c % 2 ^ (n + 1 - x.exp).toNat = 0
      · simp [z, r2.2 z]
      · have z' : ¬ rtoNat x.c (x.p - q) % 2 ^ ((n + 1 - x.exp).toNat - (x.p - q)) = 0 := fun hh => z (r2.1 hh)
        simp [z, z']
  by_cases he : x.e ≤ n
  · simp only [he, if_true]; exact main 2 (by omega) (by omega)
  · simp only [he, if_false]; exact main ((x.e - n).toNat + 2) (by omega) (by omega)

end Fpy
