/-
Syntactic facts about the simulation checker: renaming the reads of a program by `ρ` yields a
program the checker accepts against the original under any correspondence containing `(ρ z, z)`
for the variables read; renaming by the identity is the identity.  These turn the checker-style
hypotheses of the rewrite schemas into the familiar syntactic ones (`x ∉ readsB rest`, …).
(Generated case by case: one line per constructor.)
-/
import Fpy.Proof.LangInline
namespace Fpy.Xform
open Fpy Fpy.Lang

mutual
theorem renE_id : ∀ (e : Expr), renE id e = e
  | .var x => rfl
  | .bool b => rfl
  | .num v => rfl
  | .ctxLit c => rfl
  | .op o as => by show Expr.op o (renEs id as) = _; rw [renEs_id as]
  | .pred p a => by show Expr.pred p (renE id a) = _; rw [renE_id a]
  | .cmp ops as => by show Expr.cmp ops (renEs id as) = _; rw [renEs_id as]
  | .not a => by show Expr.not (renE id a) = _; rw [renE_id a]
  | .and as => by show Expr.and (renEs id as) = _; rw [renEs_id as]
  | .or as => by show Expr.or (renEs id as) = _; rw [renEs_id as]
  | .ite c t f => by show Expr.ite (renE id c) (renE id t) (renE id f) = _; rw [renE_id c, renE_id t, renE_id f]
  | .tuple as => by show Expr.tuple (renEs id as) = _; rw [renEs_id as]
  | .list as => by show Expr.list (renEs id as) = _; rw [renEs_id as]
  | .index a i => by show Expr.index (renE id a) (renE id i) = _; rw [renE_id a, renE_id i]
  | .slice a s t => by show Expr.slice (renE id a) (renO id s) (renO id t) = _; rw [renE_id a, renO_id s, renO_id t]
  | .comp ps its elt => by show Expr.comp ps (renEs id its) (renE id elt) = _; rw [renEs_id its, renE_id elt]
  | .len a => by show Expr.len (renE id a) = _; rw [renE_id a]
  | .range as => by show Expr.range (renEs id as) = _; rw [renEs_id as]
  | .zip as => by show Expr.zip (renEs id as) = _; rw [renEs_id as]
  | .enumerate a => by show Expr.enumerate (renE id a) = _; rw [renE_id a]
  | .sum a => by show Expr.sum (renE id a) = _; rw [renE_id a]
  | .min as => by show Expr.min (renEs id as) = _; rw [renEs_id as]
  | .max as => by show Expr.max (renEs id as) = _; rw [renEs_id as]
  | .any a => by show Expr.any (renE id a) = _; rw [renE_id a]
  | .all a => by show Expr.all (renE id a) = _; rw [renE_id a]
  | .roundAt a n => by show Expr.roundAt (renE id a) (renE id n) = _; rw [renE_id a, renE_id n]
  | .call f as => by show Expr.call f (renEs id as) = _; rw [renEs_id as]
theorem renEs_id : ∀ (es : List Expr), renEs id es = es
  | [] => rfl
  | e :: es => by show renE id e :: renEs id es = _; rw [renE_id e, renEs_id es]
theorem renO_id : ∀ (o : Option Expr), renO id o = o
  | none => rfl
  | some e => by show some (renE id e) = _; rw [renE_id e]
end

mutual
theorem renS_id : ∀ (s : Stmt), renS id s = s
  | .assign p e => by show Stmt.assign p (renE id e) = _; rw [renE_id e]
  | .iassign x is e => by show Stmt.iassign x (renEs id is) (renE id e) = _; rw [renEs_id is, renE_id e]
  | .ifte c t f => by show Stmt.ifte (renE id c) (renB id t) (renB id f) = _; rw [renE_id c, renB_id t, renB_id f]
  | .if1 c t => by show Stmt.if1 (renE id c) (renB id t) = _; rw [renE_id c, renB_id t]
  | .while c b => by show Stmt.while (renE id c) (renB id b) = _; rw [renE_id c, renB_id b]
  | .for p it b => by show Stmt.for p (renE id it) (renB id b) = _; rw [renE_id it, renB_id b]
  | .with ce nm b => by show Stmt.with (renE id ce) nm (renB id b) = _; rw [renE_id ce, renB_id b]
  | .assert e => by show Stmt.assert (renE id e) = _; rw [renE_id e]
  | .effect e => by show Stmt.effect (renE id e) = _; rw [renE_id e]
  | .ret e => by show Stmt.ret (renE id e) = _; rw [renE_id e]
  | .pass => rfl
theorem renB_id : ∀ (ss : List Stmt), renB id ss = ss
  | [] => rfl
  | s :: ss => by show renS id s :: renB id ss = _; rw [renS_id s, renB_id ss]
end

mutual
theorem simP_self (R : VRel) : ∀ (p : Pat), (∀ w ∈ bvP p, R.bindOK w w = true) → simP R p p = true
  | .var x, h => h x (List.mem_singleton.2 rfl)
  | .wild, _ => rfl
  | .tup ps, h => simPs_self R ps h
theorem simPs_self (R : VRel) : ∀ (ps : List Pat), (∀ w ∈ bvPs ps, R.bindOK w w = true) → simPs R ps ps = true
  | [], _ => rfl
  | p :: ps, h => by
    show (simP R p p && simPs R ps ps) = true
    rw [simP_self R p (fun w hw => h w (List.mem_append_left _ hw)),
      simPs_self R ps (fun w hw => h w (List.mem_append_right _ hw))] <;> rfl
end

mutual
theorem simE_ren (R : VRel) (ρ : String → String) : ∀ (e : Expr),
    (∀ z ∈ readsE e, R.has (ρ z) z = true) → (∀ w ∈ bvE e, R.bindOK w w = true) → simE R (renE ρ e) e = true
  | .var x, h1, _ => h1 x (List.mem_singleton.2 rfl)
  | .bool b, _, _ => by show (b == b) = true; exact beq_self_eq_true b
  | .num v, _, _ => by show decide (v = v) = true; exact decide_eq_true rfl
  | .ctxLit v, _, _ => by show decide (v = v) = true; exact decide_eq_true rfl
  | .op o as, h1, h2 => by
    show (decide (o = o) && simEs R (renEs ρ as) as) = true
    rw [decide_eq_true (rfl : o = o), simEs_ren R ρ as (fun z hz => h1 z (hz)) (fun w hw => h2 w (hw))] <;> rfl
  | .pred p a, h1, h2 => by
    show (decide (p = p) && simE R (renE ρ a) a) = true
    rw [decide_eq_true (rfl : p = p), simE_ren R ρ a (fun z hz => h1 z (hz)) (fun w hw => h2 w (hw))] <;> rfl
  | .cmp ops as, h1, h2 => by
    show (decide (ops = ops) && simEs R (renEs ρ as) as) = true
    rw [decide_eq_true (rfl : ops = ops), simEs_ren R ρ as (fun z hz => h1 z (hz)) (fun w hw => h2 w (hw))] <;> rfl
  | .not a, h1, h2 => by
    show (simE R (renE ρ a) a) = true
    rw [simE_ren R ρ a (fun z hz => h1 z (hz)) (fun w hw => h2 w (hw))] <;> rfl
  | .and as, h1, h2 => by
    show (simEs R (renEs ρ as) as) = true
    rw [simEs_ren R ρ as (fun z hz => h1 z (hz)) (fun w hw => h2 w (hw))] <;> rfl
  | .or as, h1, h2 => by
    show (simEs R (renEs ρ as) as) = true
    rw [simEs_ren R ρ as (fun z hz => h1 z (hz)) (fun w hw => h2 w (hw))] <;> rfl
  | .ite c t f, h1, h2 => by
    show (simE R (renE ρ c) c && simE R (renE ρ t) t && simE R (renE ρ f) f) = true
    rw [simE_ren R ρ c (fun z hz => h1 z (List.mem_append_left _ (List.mem_append_left _ hz))) (fun w hw => h2 w (List.mem_append_left _ (List.mem_append_left _ hw))), simE_ren R ρ t (fun z hz => h1 z (List.mem_append_left _ (List.mem_append_right _ hz))) (fun w hw => h2 w (List.mem_append_left _ (List.mem_append_right _ hw))), simE_ren R ρ f (fun z hz => h1 z (List.mem_append_right _ hz)) (fun w hw => h2 w (List.mem_append_right _ hw))] <;> rfl
  | .tuple as, h1, h2 => by
    show (simEs R (renEs ρ as) as) = true
    rw [simEs_ren R ρ as (fun z hz => h1 z (hz)) (fun w hw => h2 w (hw))] <;> rfl
  | .list as, h1, h2 => by
    show (simEs R (renEs ρ as) as) = true
    rw [simEs_ren R ρ as (fun z hz => h1 z (hz)) (fun w hw => h2 w (hw))] <;> rfl
  | .index a i, h1, h2 => by
    show (simE R (renE ρ a) a && simE R (renE ρ i) i) = true
    rw [simE_ren R ρ a (fun z hz => h1 z (List.mem_append_left _ hz)) (fun w hw => h2 w (List.mem_append_left _ hw)), simE_ren R ρ i (fun z hz => h1 z (List.mem_append_right _ hz)) (fun w hw => h2 w (List.mem_append_right _ hw))] <;> rfl
  | .slice a s t, h1, h2 => by
    show (simE R (renE ρ a) a && simO R (renO ρ s) s && simO R (renO ρ t) t) = true
    rw [simE_ren R ρ a (fun z hz => h1 z (List.mem_append_left _ (List.mem_append_left _ hz))) (fun w hw => h2 w (List.mem_append_left _ (List.mem_append_left _ hw))), simO_ren R ρ s (fun z hz => h1 z (List.mem_append_left _ (List.mem_append_right _ hz))) (fun w hw => h2 w (List.mem_append_left _ (List.mem_append_right _ hw))), simO_ren R ρ t (fun z hz => h1 z (List.mem_append_right _ hz)) (fun w hw => h2 w (List.mem_append_right _ hw))] <;> rfl
  | .comp ps its elt, h1, h2 => by
    show (simPs R ps ps && simEs R (renEs ρ its) its && simE R (renE ρ elt) elt) = true
    rw [simPs_self R ps (fun w hw => h2 w (List.mem_append_left _ (List.mem_append_left _ hw))), simEs_ren R ρ its (fun z hz => h1 z (List.mem_append_left _ hz)) (fun w hw => h2 w (List.mem_append_left _ (List.mem_append_right _ hw))), simE_ren R ρ elt (fun z hz => h1 z (List.mem_append_right _ hz)) (fun w hw => h2 w (List.mem_append_right _ hw))] <;> rfl
  | .len a, h1, h2 => by
    show (simE R (renE ρ a) a) = true
    rw [simE_ren R ρ a (fun z hz => h1 z (hz)) (fun w hw => h2 w (hw))] <;> rfl
  | .range as, h1, h2 => by
    show (simEs R (renEs ρ as) as) = true
    rw [simEs_ren R ρ as (fun z hz => h1 z (hz)) (fun w hw => h2 w (hw))] <;> rfl
  | .zip as, h1, h2 => by
    show (simEs R (renEs ρ as) as) = true
    rw [simEs_ren R ρ as (fun z hz => h1 z (hz)) (fun w hw => h2 w (hw))] <;> rfl
  | .enumerate a, h1, h2 => by
    show (simE R (renE ρ a) a) = true
    rw [simE_ren R ρ a (fun z hz => h1 z (hz)) (fun w hw => h2 w (hw))] <;> rfl
  | .sum a, h1, h2 => by
    show (simE R (renE ρ a) a) = true
    rw [simE_ren R ρ a (fun z hz => h1 z (hz)) (fun w hw => h2 w (hw))] <;> rfl
  | .min as, h1, h2 => by
    show (simEs R (renEs ρ as) as) = true
    rw [simEs_ren R ρ as (fun z hz => h1 z (hz)) (fun w hw => h2 w (hw))] <;> rfl
  | .max as, h1, h2 => by
    show (simEs R (renEs ρ as) as) = true
    rw [simEs_ren R ρ as (fun z hz => h1 z (hz)) (fun w hw => h2 w (hw))] <;> rfl
  | .any a, h1, h2 => by
    show (simE R (renE ρ a) a) = true
    rw [simE_ren R ρ a (fun z hz => h1 z (hz)) (fun w hw => h2 w (hw))] <;> rfl
  | .all a, h1, h2 => by
    show (simE R (renE ρ a) a) = true
    rw [simE_ren R ρ a (fun z hz => h1 z (hz)) (fun w hw => h2 w (hw))] <;> rfl
  | .roundAt a n, h1, h2 => by
    show (simE R (renE ρ a) a && simE R (renE ρ n) n) = true
    rw [simE_ren R ρ a (fun z hz => h1 z (List.mem_append_left _ hz)) (fun w hw => h2 w (List.mem_append_left _ hw)), simE_ren R ρ n (fun z hz => h1 z (List.mem_append_right _ hz)) (fun w hw => h2 w (List.mem_append_right _ hw))] <;> rfl
  | .call f as, h1, h2 => by
    show (decide (f = f) && simEs R (renEs ρ as) as) = true
    rw [decide_eq_true (rfl : f = f), simEs_ren R ρ as (fun z hz => h1 z (hz)) (fun w hw => h2 w (hw))] <;> rfl
theorem simEs_ren (R : VRel) (ρ : String → String) : ∀ (es : List Expr),
    (∀ z ∈ readsEs es, R.has (ρ z) z = true) → (∀ w ∈ bvEs es, R.bindOK w w = true) → simEs R (renEs ρ es) es = true
  | [], _, _ => rfl
  | e :: es, h1, h2 => by
    show (simE R (renE ρ e) e && simEs R (renEs ρ es) es) = true
    rw [simE_ren R ρ e (fun z hz => h1 z (List.mem_append_left _ hz)) (fun w hw => h2 w (List.mem_append_left _ hw)),
      simEs_ren R ρ es (fun z hz => h1 z (List.mem_append_right _ hz)) (fun w hw => h2 w (List.mem_append_right _ hw))] <;> rfl
theorem simO_ren (R : VRel) (ρ : String → String) : ∀ (o : Option Expr),
    (∀ z ∈ readsO o, R.has (ρ z) z = true) → (∀ w ∈ bvO o, R.bindOK w w = true) → simO R (renO ρ o) o = true
  | none, _, _ => rfl
  | some e, h1, h2 => simE_ren R ρ e h1 h2
end

mutual
theorem simS_ren (R : VRel) (ρ : String → String) : ∀ (s : Stmt),
    (∀ z ∈ readsS s, R.has (ρ z) z = true) → (∀ z ∈ readsS s, R.has z z = true) →
    (∀ w ∈ bvS s, R.bindOK w w = true) → simS R (renS ρ s) s = true
  | .assign p e, h1, h1', h2 => by
    show (simP R p p && simE R (renE ρ e) e) = true
    rw [simP_self R p (fun w hw => h2 w (List.mem_append_left _ hw)), simE_ren R ρ e (fun z hz => h1 z (hz)) (fun w hw => h2 w (List.mem_append_right _ hw))] <;> rfl
  | .iassign x is e, h1, h1', h2 => by
    show (R.has x x && simEs R (renEs ρ is) is && simE R (renE ρ e) e) = true
    rw [h1' x List.mem_cons_self, simEs_ren R ρ is (fun z hz => h1 z (List.mem_cons_of_mem _ (List.mem_append_left _ hz))) (fun w hw => h2 w (List.mem_append_left _ hw)), simE_ren R ρ e (fun z hz => h1 z (List.mem_cons_of_mem _ (List.mem_append_right _ hz))) (fun w hw => h2 w (List.mem_append_right _ hw))] <;> rfl
  | .ifte c t f, h1, h1', h2 => by
    show (simE R (renE ρ c) c && simB R (renB ρ t) t && simB R (renB ρ f) f) = true
    rw [simE_ren R ρ c (fun z hz => h1 z (List.mem_append_left _ (List.mem_append_left _ hz))) (fun w hw => h2 w (List.mem_append_left _ (List.mem_append_left _ hw))), simB_ren R ρ t (fun z hz => h1 z (List.mem_append_left _ (List.mem_append_right _ hz))) (fun z hz => h1' z (List.mem_append_left _ (List.mem_append_right _ hz))) (fun w hw => h2 w (List.mem_append_left _ (List.mem_append_right _ hw))), simB_ren R ρ f (fun z hz => h1 z (List.mem_append_right _ hz)) (fun z hz => h1' z (List.mem_append_right _ hz)) (fun w hw => h2 w (List.mem_append_right _ hw))] <;> rfl
  | .if1 c t, h1, h1', h2 => by
    show (simE R (renE ρ c) c && simB R (renB ρ t) t) = true
    rw [simE_ren R ρ c (fun z hz => h1 z (List.mem_append_left _ hz)) (fun w hw => h2 w (List.mem_append_left _ hw)), simB_ren R ρ t (fun z hz => h1 z (List.mem_append_right _ hz)) (fun z hz => h1' z (List.mem_append_right _ hz)) (fun w hw => h2 w (List.mem_append_right _ hw))] <;> rfl
  | .«while» c b, h1, h1', h2 => by
    show (simE R (renE ρ c) c && simB R (renB ρ b) b) = true
    rw [simE_ren R ρ c (fun z hz => h1 z (List.mem_append_left _ hz)) (fun w hw => h2 w (List.mem_append_left _ hw)), simB_ren R ρ b (fun z hz => h1 z (List.mem_append_right _ hz)) (fun z hz => h1' z (List.mem_append_right _ hz)) (fun w hw => h2 w (List.mem_append_right _ hw))] <;> rfl
  | .«for» p it b, h1, h1', h2 => by
    show (simP R p p && simE R (renE ρ it) it && simB R (renB ρ b) b) = true
    rw [simP_self R p (fun w hw => h2 w (List.mem_append_left _ (List.mem_append_left _ hw))), simE_ren R ρ it (fun z hz => h1 z (List.mem_append_left _ hz)) (fun w hw => h2 w (List.mem_append_left _ (List.mem_append_right _ hw))), simB_ren R ρ b (fun z hz => h1 z (List.mem_append_right _ hz)) (fun z hz => h1' z (List.mem_append_right _ hz)) (fun w hw => h2 w (List.mem_append_right _ hw))] <;> rfl
  | .with ce nm b, h1, h1', h2 => by
    show (simE R (renE ρ ce) ce && simName R nm nm && simB R (renB ρ b) b) = true
    have hn : simName R nm nm = true := by
      cases nm with
      | none => rfl
      | some x => exact h2 x (List.mem_append_left _ (List.mem_append_left _ (List.mem_singleton.2 rfl)))
    rw [simE_ren R ρ ce (fun z hz => h1 z (List.mem_append_left _ hz)) (fun w hw => h2 w (List.mem_append_left _ (List.mem_append_right _ hw))), hn,
      simB_ren R ρ b (fun z hz => h1 z (List.mem_append_right _ hz)) (fun z hz => h1' z (List.mem_append_right _ hz)) (fun w hw => h2 w (List.mem_append_right _ hw))] <;> rfl
  | .assert e, h1, h1', h2 => by
    show (simE R (renE ρ e) e) = true
    rw [simE_ren R ρ e (fun z hz => h1 z (hz)) (fun w hw => h2 w (hw))] <;> rfl
  | .effect e, h1, h1', h2 => by
    show (simE R (renE ρ e) e) = true
    rw [simE_ren R ρ e (fun z hz => h1 z (hz)) (fun w hw => h2 w (hw))] <;> rfl
  | .ret e, h1, h1', h2 => by
    show (simE R (renE ρ e) e) = true
    rw [simE_ren R ρ e (fun z hz => h1 z (hz)) (fun w hw => h2 w (hw))] <;> rfl
  | .pass, _, _, _ => rfl
theorem simB_ren (R : VRel) (ρ : String → String) : ∀ (ss : List Stmt),
    (∀ z ∈ readsB ss, R.has (ρ z) z = true) → (∀ z ∈ readsB ss, R.has z z = true) →
    (∀ w ∈ bvB ss, R.bindOK w w = true) → simB R (renB ρ ss) ss = true
  | [], _, _, _ => rfl
  | s :: ss, h1, h1', h2 => by
    show (simS R (renS ρ s) s && simB R (renB ρ ss) ss) = true
    rw [simS_ren R ρ s (fun z hz => h1 z (List.mem_append_left _ hz)) (fun z hz => h1' z (List.mem_append_left _ hz))
        (fun w hw => h2 w (List.mem_append_left _ hw)),
      simB_ren R ρ ss (fun z hz => h1 z (List.mem_append_right _ hz)) (fun z hz => h1' z (List.mem_append_right _ hz))
        (fun w hw => h2 w (List.mem_append_right _ hw))] <;> rfl
end

end Fpy.Xform
