/-
Soundness of the value-class transfer functions (`Fpy.Model.VClass`) w.r.t. the number model:
`Float.__add__/__mul__/__neg__/__abs__`, the exact `RealEngine` on Floats and Fractions,
`ops.logb`, and every context's rounding.
-/
import Fpy.Model.VClass
namespace Fpy.C13
open Fpy VC

/-! ### lattice facts -/

theorem has_of_le {a b : VC} {c : Cls} (h : a.le b = true) (hc : a.has c = true) : b.has c = true := by
  cases a; cases b; cases c <;> simp_all [VC.le, VC.has]

theorem has_join_left {a b : VC} {c : Cls} (h : a.has c = true) : (a ||| b).has c = true := by
  cases a; cases b; cases c <;> simp_all [VC.has, HOr.hOr, OrOp.or, VC.join]

theorem has_join_right {a b : VC} {c : Cls} (h : b.has c = true) : (a ||| b).has c = true := by
  cases a; cases b; cases c <;> simp_all [VC.has, HOr.hOr, OrOp.or, VC.join]

theorem has_join {a b : VC} {c : Cls} : (a ||| b).has c = (a.has c || b.has c) := by
  cases a; cases b; cases c <;> simp [VC.has, HOr.hOr, OrOp.or, VC.join]

theorem has_meet {a b : VC} {c : Cls} : (a &&& b).has c = (a.has c && b.has c) := by
  cases a; cases b; cases c <;> simp [VC.has, HAnd.hAnd, AndOp.and, VC.meet]

theorem has_single (c d : Cls) : (single c).has d = decide (c = d) := by
  cases c <;> cases d <;> decide

theorem has_top (c : Cls) : top.has c = true := by cases c <;> rfl

/-! ### classes of values -/

@[simp] theorem classOf_nan (s : Bool) : classOf (.nan s) = .nan := rfl
@[simp] theorem classOf_inf (s : Bool) : classOf (.inf s) = .inf := rfl
theorem classOf_fin_zero {x : RF} (h : x.c = 0) : classOf (.fin x) = .zero := by simp [classOf, h]
theorem classOf_fin_nz {x : RF} (h : x.c ≠ 0) : classOf (.fin x) = .fin := by simp [classOf, h]

theorem classOf_fin_cases (x : RF) : classOf (.fin x) = .zero ∨ classOf (.fin x) = .fin := by
  by_cases h : x.c = 0
  · exact .inl (classOf_fin_zero h)
  · exact .inr (classOf_fin_nz h)

theorem classOf_withSign (v : FV) (s : Bool) : classOf (v.withSign s) = classOf v := by
  cases v <;> simp [FV.withSign, classOf]

theorem classOf_neg (v : FV) : classOf v.neg = classOf v := by
  cases v <;> simp [FV.neg, RF.neg, classOf]

theorem classOf_abs (v : FV) : classOf v.abs = classOf v := by
  simp [FV.abs, classOf_withSign]

/-! ### addition / subtraction -/

/-- result classes of the exact sum of two values of given classes -/
def addAtoms : Cls → Cls → VC
  | .nan, _ => NAN
  | _, .nan => NAN
  | .inf, .inf => INF ||| NAN
  | .inf, _ => INF
  | _, .inf => INF
  | .zero, .zero => ZERO
  | .zero, .fin => FINITE
  | .fin, .zero => FINITE
  | .fin, .fin => ZERO ||| FINITE

theorem addAtoms_le_exactAdd (a b : VC) (c d : Cls) (hc : a.has c = true) (hd : b.has d = true) :
    (addAtoms c d).le (exactAdd a b) = true := by
  obtain ⟨a1, a2, a3, a4⟩ := a
  obtain ⟨b1, b2, b3, b4⟩ := b
  cases c <;> cases d <;> simp only [VC.has] at hc hd <;>
    revert hc hd <;> revert a1 a2 a3 a4 b1 b2 b3 b4 <;> decide

theorem rf_add_class (x y : RF) :
    (addAtoms (classOf (.fin x)) (classOf (.fin y))).has (classOf (.fin (x.add y))) = true := by
  by_cases hx : x.c = 0 <;> by_cases hy : y.c = 0
  · rw [classOf_fin_zero hx, classOf_fin_zero hy, classOf_fin_zero (by simp [RF.add, hx, hy])]; decide
  · rw [classOf_fin_zero hx, classOf_fin_nz hy, classOf_fin_nz (by simp [RF.add, hx, hy])]; decide
  · rw [classOf_fin_nz hx, classOf_fin_zero hy, classOf_fin_nz (by simp [RF.add, hx, hy])]; decide
  · rw [classOf_fin_nz hx, classOf_fin_nz hy]
    rcases classOf_fin_cases (x.add y) with h | h <;> rw [h] <;> decide

theorem fv_add_class (x y : FV) :
    (addAtoms (classOf x) (classOf y)).has (classOf (FV.add x y)) = true := by
  cases x with
  | nan s => cases y <;> simp only [FV.add, classOf_nan] <;> simp [addAtoms] <;> decide
  | inf s =>
    cases y with
    | nan t => simp only [FV.add, classOf_nan, classOf_inf]; decide
    | inf t => cases s <;> cases t <;> decide
    | fin y =>
      simp only [FV.add, classOf_inf]
      rcases classOf_fin_cases y with h | h <;> rw [h] <;> decide
  | fin x =>
    cases y with
    | nan t =>
      simp only [FV.add, classOf_nan]
      rcases classOf_fin_cases x with h | h <;> rw [h] <;> decide
    | inf t =>
      simp only [FV.add, classOf_inf]
      rcases classOf_fin_cases x with h | h <;> rw [h] <;> decide
    | fin y => exact rf_add_class x y

/-! ### multiplication -/

def mulAtoms : Cls → Cls → VC
  | .nan, _ => NAN
  | _, .nan => NAN
  | .inf, .zero => NAN
  | .zero, .inf => NAN
  | .inf, _ => INF
  | _, .inf => INF
  | .zero, _ => ZERO
  | _, .zero => ZERO
  | .fin, .fin => FINITE

theorem mulAtoms_le_exactMul (a b : VC) (c d : Cls) (hc : a.has c = true) (hd : b.has d = true) :
    (mulAtoms c d).le (exactMul a b) = true := by
  obtain ⟨a1, a2, a3, a4⟩ := a
  obtain ⟨b1, b2, b3, b4⟩ := b
  cases c <;> cases d <;> simp only [VC.has] at hc hd <;>
    revert hc hd <;> revert a1 a2 a3 a4 b1 b2 b3 b4 <;> decide

theorem fv_mul_class (x y : FV) :
    (mulAtoms (classOf x) (classOf y)).has (classOf (FV.mul x y)) = true := by
  cases x with
  | nan s => cases y <;> simp only [FV.mul, classOf_nan] <;> simp [mulAtoms] <;> decide
  | inf s =>
    cases y with
    | nan t => simp only [FV.mul, classOf_nan, classOf_inf]; decide
    | inf t => cases s <;> cases t <;> decide
    | fin y =>
      by_cases hy : y.c = 0
      · rw [classOf_fin_zero hy]; simp [FV.mul, FV.isZero, hy]; decide
      · rw [classOf_fin_nz hy]; simp [FV.mul, FV.isZero, hy]; decide
  | fin x =>
    cases y with
    | nan t =>
      simp only [FV.mul, classOf_nan]
      rcases classOf_fin_cases x with h | h <;> rw [h] <;> decide
    | inf t =>
      by_cases hx : x.c = 0
      · rw [classOf_fin_zero hx]; simp [FV.mul, hx]; decide
      · rw [classOf_fin_nz hx]; simp [FV.mul, hx]; decide
    | fin y =>
      have hm : (FV.mul (.fin x) (.fin y)) = .fin (x.mul y) := rfl
      rw [hm]
      by_cases hx : x.c = 0 <;> by_cases hy : y.c = 0
      · rw [classOf_fin_zero hx, classOf_fin_zero hy, classOf_fin_zero (by simp [RF.mul, hx])]; decide
      · rw [classOf_fin_zero hx, classOf_fin_nz hy, classOf_fin_zero (by simp [RF.mul, hx])]; decide
      · rw [classOf_fin_nz hx, classOf_fin_zero hy, classOf_fin_zero (by simp [RF.mul, hy])]; decide
      · rw [classOf_fin_nz hx, classOf_fin_nz hy,
          classOf_fin_nz (by simp only [RF.mul]; simp [hx, hy, Nat.mul_eq_zero])]; decide

end Fpy.C13
