/-
Helper lemmas for property C05: the denotation `RF.val` is a homomorphism for the
exact operations of `RealFloat` (core Lean only: `Rat` lemmas, `omega`, `grind`).
-/
import Fpy.Model.Num.Mixed
import Fpy.Proof.Round
import Fpy.Spec.Denote
namespace Fpy
namespace RF

theorem two_ne : (2 : Rat) ≠ 0 := by decide
theorem two_zpow_pos (e : Int) : (0 : Rat) < 2 ^ e := Rat.zpow_pos (by decide)
theorem two_zpow_ne (e : Int) : (2 : Rat) ^ e ≠ 0 := Rat.ne_of_gt (two_zpow_pos e)
theorem two_zpow_add (a b : Int) : (2 : Rat) ^ (a + b) = 2 ^ a * 2 ^ b := Rat.zpow_add two_ne a b
theorem two_zpow_nat (n : Nat) : (2 : Rat) ^ (n : Int) = ((2 ^ n : Nat) : Rat) := by
  rw [Rat.zpow_natCast, Rat.natCast_pow]; rfl
theorem two_zpow_nat' (n : Nat) : (2 : Rat) ^ (n : Int) = (((2 : Int) ^ n : Int) : Rat) := by
  rw [Rat.zpow_natCast, Rat.intCast_pow]; rfl

theorem val_eq_m (x : RF) : x.val = (x.m : Rat) * (2 : Rat) ^ x.exp := by
  unfold val m
  by_cases h : x.exp ≥ 0
  · simp only [h, if_true]
    obtain ⟨n, hn⟩ := Int.eq_ofNat_of_zero_le h
    rw [hn, Int.toNat_natCast, two_zpow_nat', Rat.intCast_mul]
  · simp only [h, if_false]
    have h' : x.exp = -((-x.exp).toNat : Int) := by omega
    generalize (-x.exp).toNat = n at h'
    rw [h', Rat.zpow_neg, two_zpow_nat, Rat.div_def]

theorem m_cast (x : RF) : (x.m : Rat) = sgn x.s * (x.c : Rat) := by
  unfold m sgn; cases x.s <;> simp [Rat.neg_mul, Rat.intCast_natCast]

/-- normal form of the denotation: `(-1)^s * c * 2^exp` -/
theorem val_eq (x : RF) : x.val = sgn x.s * (x.c : Rat) * (2 : Rat) ^ x.exp := by
  rw [val_eq_m, m_cast]

theorem val_mk (s : Bool) (e : Int) (c : Nat) : (⟨s, e, c⟩ : RF).val = sgn s * (c : Rat) * (2 : Rat) ^ e :=
  val_eq _

theorem val_zero_c {x : RF} (h : x.c = 0) : x.val = 0 := by
  rw [val_eq, h]; simp

/-- value of the record built from a signed integer significand -/
theorem val_ofSigned (k : Int) (e : Int) : (⟨k < 0, e, k.natAbs⟩ : RF).val = (k : Rat) * (2 : Rat) ^ e := by
  rw [val_eq_m]; congr 2; unfold m; simp only
  by_cases h : k < 0
  · simp [h]; omega
  · simp [h]; omega

/-- the denotation written over a smaller exponent `e ≤ x.exp` with an integer significand -/
theorem val_scaled (x : RF) (e : Int) (h : e ≤ x.exp) :
    x.val = ((x.m * ((2 ^ (x.exp - e).toNat : Nat) : Int) : Int) : Rat) * (2 : Rat) ^ e := by
  rw [val_eq_m, Rat.intCast_mul, Rat.mul_assoc]
  congr 1
  have : x.exp = ((x.exp - e).toNat : Int) + e := by omega
  generalize (x.exp - e).toNat = k at this
  rw [this, two_zpow_add, two_zpow_nat]
  simp

theorem sgn_not (s : Bool) : sgn (!s) = -sgn s := by cases s <;> simp [sgn, Rat.neg_neg]
theorem sgn_xor (s t : Bool) : sgn (s != t) = sgn s * sgn t := by
  cases s <;> cases t <;> simp [sgn, Rat.neg_mul, Rat.neg_neg]
theorem sgn_mul_self (s : Bool) : sgn s * sgn s = 1 := by cases s <;> simp [sgn, Rat.neg_mul, Rat.neg_neg]

theorem val_neg (x : RF) : x.neg.val = -x.val := by
  simp only [neg, val_eq, sgn_not]; grind

theorem val_pos (x : RF) : x.pos.val = x.val := rfl

theorem natCast_nonneg' (c : Nat) : (0 : Rat) ≤ (c : Rat) := Rat.natCast_nonneg

theorem mag_nonneg (c : Nat) (e : Int) : (0 : Rat) ≤ (c : Rat) * (2 : Rat) ^ e :=
  Rat.mul_nonneg Rat.natCast_nonneg (Rat.le_of_lt (two_zpow_pos e))

theorem val_abs (x : RF) : x.abs.val = x.val.abs := by
  simp only [abs, val_eq]
  cases hs : x.s
  · simp only [sgn, Bool.false_eq_true, if_false, Rat.one_mul]
    rw [Rat.abs_of_nonneg (mag_nonneg _ _)]
  · simp only [sgn, if_true, Bool.false_eq_true, if_false, Rat.one_mul]
    rw [Rat.neg_mul, Rat.one_mul, Rat.neg_mul, Rat.abs_neg, Rat.abs_of_nonneg (mag_nonneg _ _)]

theorem val_mul (x y : RF) : (x.mul y).val = x.val * y.val := by
  unfold mul
  by_cases h : (x.c = 0 || y.c = 0) = true
  · simp only [h, if_true]
    rw [val_zero_c rfl]
    simp only [Bool.or_eq_true, decide_eq_true_eq] at h
    rcases h with h | h
    · rw [val_zero_c h]; simp
    · rw [val_zero_c h]; simp
  · rw [if_neg h, val_mk, val_eq x, val_eq y, sgn_xor, two_zpow_add, Rat.natCast_mul]
    grind

theorem val_add (x y : RF) : (x.add y).val = x.val + y.val := by
  unfold add
  by_cases hx : x.c = 0
  · by_cases hy : y.c = 0
    · simp only [hx, hy, if_true]; rw [val_zero_c rfl, val_zero_c hx, val_zero_c hy]; exact (Rat.add_zero _).symm
    · simp only [hx, hy, if_true, if_false]; rw [val_zero_c hx]; exact (Rat.zero_add _).symm
  · by_cases hy : y.c = 0
    · simp only [hx, hy, if_true, if_false]; rw [val_zero_c hy]; exact (Rat.add_zero _).symm
    · simp only [hx, hy, if_false]
      rw [val_ofSigned]
      rw [val_scaled x (min x.exp y.exp) (by omega), val_scaled y (min x.exp y.exp) (by omega)]
      rw [← Rat.add_mul]; congr 1
      rw [← Rat.intCast_add]; congr 1
      unfold m shl
      cases x.s <;> cases y.s <;> simp [Int.neg_mul]


theorem rat_mul_pow (a b : Rat) (k : Nat) : (a * b) ^ k = a ^ k * b ^ k := by
  induction k with
  | zero => simp
  | succ n ih => rw [Rat.pow_succ, Rat.pow_succ, Rat.pow_succ, ih]; grind

theorem two_zpow_mul (e : Int) (k : Nat) : (2 : Rat) ^ (e * k) = ((2 : Rat) ^ e) ^ k := by
  induction k with
  | zero => simp
  | succ n ih =>
    rw [Rat.pow_succ, ← ih, ← two_zpow_add]; congr 1
    rw [Int.natCast_succ, Int.mul_add, Int.mul_one]

theorem sgn_pow (s : Bool) (k : Nat) : sgn s ^ k = sgn (s && (k % 2 == 1)) := by
  induction k with
  | zero => cases s <;> simp [sgn]
  | succ n ih =>
    rw [Rat.pow_succ, ih]
    cases s
    · simp [sgn]
    · have h : n % 2 = 0 ∨ n % 2 = 1 := by omega
      rcases h with h | h
      · have h2 : (n + 1) % 2 = 1 := by omega
        simp [sgn, h, h2]
      · have h2 : (n + 1) % 2 = 0 := by omega
        simp [sgn, h, h2, Rat.neg_mul, Rat.neg_neg]

theorem val_pow (x : RF) (k : Nat) : (x.pow k).val = x.val ^ k := by
  unfold pow
  by_cases hk : k = 0
  · subst hk; simp [val_mk, sgn]
  · rw [if_neg hk, val_mk, val_eq x, rat_mul_pow, rat_mul_pow, sgn_pow, two_zpow_mul, Rat.natCast_pow]



/-- three-way comparison of integers -/
def cmpInt (a b : Int) : Ordering := if a < b then .lt else if b < a then .gt else .eq

theorem cmpRat_scale (X Y : Int) (p : Rat) (hp : 0 < p) :
    cmpRat ((X : Rat) * p) ((Y : Rat) * p) = cmpInt X Y := by
  unfold cmpRat cmpInt
  simp only [Rat.mul_lt_mul_right hp, Rat.intCast_lt_intCast]

/-- a smaller normalized exponent means a smaller magnitude (over a common exponent `e`) -/
theorem mag_lt_of_e_lt (c1 c2 : Nat) (e1 e2 e : Int) (_h1 : c1 ≠ 0) (h2 : c2 ≠ 0)
    (he1 : e ≤ e1) (he2 : e ≤ e2)
    (h : e1 + (bitLength c1 : Int) - 1 < e2 + (bitLength c2 : Int) - 1) :
    c1 * 2 ^ (e1 - e).toNat < c2 * 2 ^ (e2 - e).toNat := by
  have hp2 := bitLength_pos h2
  have a1 : c1 < 2 ^ bitLength c1 := (bitLength_le_iff c1 _).mp (Nat.le_refl _)
  have a2 : 2 ^ (bitLength c2 - 1) ≤ c2 := ((bitLength_eq_iff c2 _ hp2).mp rfl).1
  have hk : bitLength c1 + (e1 - e).toNat ≤ (bitLength c2 - 1) + (e2 - e).toNat := by omega
  calc c1 * 2 ^ (e1 - e).toNat < 2 ^ bitLength c1 * 2 ^ (e1 - e).toNat :=
        Nat.mul_lt_mul_of_pos_right a1 (Nat.pow_pos (by decide))
    _ = 2 ^ (bitLength c1 + (e1 - e).toNat) := (Nat.pow_add ..).symm
    _ ≤ 2 ^ ((bitLength c2 - 1) + (e2 - e).toNat) := Nat.pow_le_pow_right (by decide) hk
    _ = 2 ^ (bitLength c2 - 1) * 2 ^ (e2 - e).toNat := Nat.pow_add ..
    _ ≤ c2 * 2 ^ (e2 - e).toNat := Nat.mul_le_mul_right _ a2

theorem m_mul (x : RF) (P : Nat) :
    x.m * (P : Int) = if x.s then -((x.c * P : Nat) : Int) else ((x.c * P : Nat) : Int) := by
  unfold m; cases x.s <;> simp [Int.neg_mul]

theorem compare_int (x y : RF) :
    x.compare y = cmpInt (x.m * ((2 ^ (x.exp - min x.exp y.exp).toNat : Nat) : Int))
                         (y.m * ((2 ^ (y.exp - min x.exp y.exp).toNat : Nat) : Int)) := by
  have hP1 : 0 < 2 ^ (x.exp - min x.exp y.exp).toNat := Nat.pow_pos (by decide)
  have hP2 : 0 < 2 ^ (y.exp - min x.exp y.exp).toNat := Nat.pow_pos (by decide)
  have hlt := mag_lt_of_e_lt x.c y.c x.exp y.exp (min x.exp y.exp)
  have hgt := mag_lt_of_e_lt y.c x.c y.exp x.exp (min x.exp y.exp)
  rw [m_mul, m_mul]
  unfold compare cmpInt e p shl
  simp only [Nat.compare_eq_ite_lt]
  generalize 2 ^ (x.exp - min x.exp y.exp).toNat = P1 at *
  generalize 2 ^ (y.exp - min x.exp y.exp).toNat = P2 at *
  have hA : x.c ≠ 0 → 0 < x.c * P1 := fun h => Nat.mul_pos (Nat.pos_of_ne_zero h) hP1
  have hB : y.c ≠ 0 → 0 < y.c * P2 := fun h => Nat.mul_pos (Nat.pos_of_ne_zero h) hP2
  have hA0 : x.c = 0 → x.c * P1 = 0 := fun h => by simp [h]
  have hB0 : y.c = 0 → y.c * P2 = 0 := fun h => by simp [h]
  generalize x.c * P1 = A at *
  generalize y.c * P2 = B at *
  by_cases hx : x.c = 0
  · have := hA0 hx
    by_cases hy : y.c = 0
    · have := hB0 hy
      cases hs : x.s <;> cases ht : y.s <;> simp only [hx, hy, if_true] <;>
        (repeat' split) <;> first | rfl | (exfalso; omega)
    · have := hB hy
      cases hs : x.s <;> cases ht : y.s <;> simp only [hx, hy, if_true, if_false] <;>
        (repeat' split) <;> first | rfl | (exfalso; omega) | (exfalso; simp_all; done)
  · have a := hA hx
    by_cases hy : y.c = 0
    · have := hB0 hy
      cases hs : x.s <;> cases ht : y.s <;> simp only [hx, hy, if_true, if_false] <;>
        (repeat' split) <;> first | rfl | (exfalso; omega) | (exfalso; simp_all; done)
    · have b := hB hy
      have hlt' := hlt hx hy (by omega) (by omega)
      have hgt' := hgt hy hx (by omega) (by omega)
      cases hs : x.s <;> cases ht : y.s <;> simp only [hx, hy, if_true, if_false] <;>
        (repeat' split) <;> first | rfl | (exfalso; omega) | (exfalso; simp_all; done) | skip


/-- `RealFloat.compare` is the comparison of the denoted values -/
theorem compare_cmpRat (x y : RF) : x.compare y = cmpRat x.val y.val := by
  rw [compare_int, val_scaled x (min x.exp y.exp) (by omega), val_scaled y (min x.exp y.exp) (by omega),
      cmpRat_scale _ _ _ (two_zpow_pos _)]

theorem val_mk_zero (s : Bool) (e : Int) : (⟨s, e, 0⟩ : RF).val = 0 := val_zero_c rfl

/-- moving `k` low zero digits of the significand into the exponent -/
theorem val_shift (s : Bool) (e : Int) (c k : Nat) :
    (⟨s, e, c * 2 ^ k⟩ : RF).val = (⟨s, e + k, c⟩ : RF).val := by
  rw [val_mk, val_mk, two_zpow_add, two_zpow_nat, Rat.natCast_mul]; grind

theorem split_sum (x : RF) (n : Int) : (x.split n).1.val + (x.split n).2.val = x.val := by
  unfold split
  by_cases h0 : x.c = 0
  · simp only [h0, if_true]; rw [val_mk_zero, val_mk_zero, val_zero_c h0]; exact Rat.add_zero _
  · simp only [h0, if_false]
    by_cases h1 : n ≥ x.e
    · simp only [h1, if_true]; rw [val_mk_zero]; exact Rat.zero_add _
    · simp only [h1, if_false]
      by_cases h2 : n < x.exp
      · simp only [h2, if_true]; rw [val_mk_zero]; exact Rat.add_zero _
      · simp only [h2, if_false]
        generalize (n + 1 - x.exp).toNat = k
        rw [← val_shift, val_mk, val_mk, val_eq x]
        have := Nat.div_add_mod x.c (2 ^ k)
        rw [← Rat.add_mul, ← Rat.mul_add, ← Rat.natCast_add, Nat.mul_comm, this]


/-- digit ranges of `split`: the high part has no digit at or below `n`, the low part none above `n`;
both keep the sign -/
theorem split_ranges (x : RF) (n : Int) :
    (x.split n).1.exp ≥ n + 1 ∧ ((x.split n).2.c = 0 ∨ (x.split n).2.e ≤ n) ∧
    (x.split n).1.s = x.s ∧ (x.split n).2.s = x.s := by
  unfold split
  by_cases h0 : x.c = 0
  · simp [h0]
  · simp only [h0, if_false]
    by_cases h1 : n ≥ x.e
    · simp only [h1, if_true]; refine ⟨by omega, Or.inr ?_, by simp, by simp⟩; simp only [e, p] at h1 ⊢; first | done | omega
    · simp only [h1, if_false]
      by_cases h2 : n < x.exp
      · simp only [h2, if_true]; exact ⟨by omega, Or.inl (by simp), by simp, by simp⟩
      · simp only [h2, if_false]
        refine ⟨by omega, ?_, by simp, by simp⟩
        by_cases hz : x.c % 2 ^ (n + 1 - x.exp).toNat = 0
        · exact Or.inl hz
        · right
          have hlt : x.c % 2 ^ (n + 1 - x.exp).toNat < 2 ^ (n + 1 - x.exp).toNat :=
            Nat.mod_lt _ (Nat.pow_pos (by decide))
          have := (bitLength_le_iff _ _).mpr hlt
          simp only [e, p]; omega

/-- `is_more_significant(n)` tests the low `n + 1 - exp` digits of the significand -/
theorem isMoreSignificant_eq (x : RF) (n : Int) :
    x.isMoreSignificant n = (x.c % 2 ^ (n + 1 - x.exp).toNat == 0) := by
  unfold isMoreSignificant
  by_cases h0 : x.c = 0
  · simp [h0]
  · simp only [h0, if_false]
    by_cases h1 : x.exp > n
    · have : (n + 1 - x.exp).toNat = 0 := by omega
      simp [h1, this, Nat.mod_one]
    · simp only [h1, if_false]
      by_cases h2 : x.e ≤ n
      · simp only [h2, if_true]
        have hb : bitLength x.c ≤ (n + 1 - x.exp).toNat := by simp only [e, p] at h2; omega
        have := (bitLength_le_iff _ _).mp hb
        rw [Nat.mod_eq_of_lt this]; simp [h0]
      · simp only [h2, if_false]
        have : (n - x.exp).toNat + 1 = (n + 1 - x.exp).toNat := by omega
        rw [this]

/-- `is_more_significant(n)` is equivalent to the low part of `split(n)` being zero (docstring) -/
theorem isMoreSignificant_iff_split (x : RF) (n : Int) :
    x.isMoreSignificant n = ((x.split n).2.c == 0) := by
  rw [isMoreSignificant_eq]
  unfold split
  by_cases h0 : x.c = 0
  · simp [h0]
  · simp only [h0, if_false]
    by_cases h1 : n ≥ x.e
    · simp only [h1, if_true]
      have hb : bitLength x.c ≤ (n + 1 - x.exp).toNat := by simp only [e, p] at h1; omega
      rw [Nat.mod_eq_of_lt ((bitLength_le_iff _ _).mp hb)]
    · simp only [h1, if_false]
      by_cases h2 : n < x.exp
      · have : (n + 1 - x.exp).toNat = 0 := by omega
        simp [h2, this, Nat.mod_one]
      · simp only [h2, if_false]

/-- the low `t - exp` digits of the significand vanish iff the value is an integer multiple of `2^t` -/
theorem low_digits_zero_iff (x : RF) (t : Int) :
    x.c % 2 ^ (t - x.exp).toNat = 0 ↔ ∃ k : Int, x.val = (k : Rat) * (2 : Rat) ^ t := by
  by_cases ht : t ≤ x.exp
  · have : (t - x.exp).toNat = 0 := by omega
    simp only [this, Nat.pow_zero, Nat.mod_one, true_iff]
    exact ⟨_, val_scaled x t ht⟩
  · have hd : t = x.exp + ((t - x.exp).toNat : Int) := by omega
    generalize (t - x.exp).toNat = d at hd
    subst hd
    rw [val_eq_m]
    constructor
    · intro h
      refine ⟨x.m / ((2 ^ d : Nat) : Int), ?_⟩
      have hdvd : ((2 ^ d : Nat) : Int) ∣ x.m := by
        have : ((2 ^ d : Nat) : Int) ∣ (x.c : Int) := Int.ofNat_dvd.mpr (Nat.dvd_of_mod_eq_zero h)
        unfold m; split
        · exact Int.dvd_neg.mpr this
        · exact this
      have hm : (x.m : Rat) = ((x.m / ((2 ^ d : Nat) : Int) : Int) : Rat) * ((2 ^ d : Nat) : Rat) := by
        rw [← Rat.intCast_natCast, ← Rat.intCast_mul, Int.ediv_mul_cancel hdvd]
      rw [two_zpow_add, two_zpow_nat]
      generalize (2 : Rat) ^ x.exp = q at *
      rw [hm]; grind
    · rintro ⟨k, hk⟩
      rw [two_zpow_add, two_zpow_nat, ← Rat.mul_assoc] at hk
      have hq := two_zpow_ne x.exp
      generalize (2 : Rat) ^ x.exp = q at *
      have hk' : (x.m : Rat) = (k : Rat) * ((2 ^ d : Nat) : Rat) := by
        have h1 : (x.m : Rat) * q / q = (k : Rat) * q * ((2 ^ d : Nat) : Rat) / q := by rw [hk]
        rw [Rat.mul_div_cancel hq, Rat.mul_assoc, Rat.mul_comm q, ← Rat.mul_assoc, Rat.mul_div_cancel hq] at h1
        exact h1
      rw [← Rat.intCast_natCast, ← Rat.intCast_mul, Rat.intCast_inj] at hk'
      have hc : x.c = x.m.natAbs := by unfold m; split <;> simp
      rw [hc, hk', Int.natAbs_mul, Int.natAbs_natCast]
      exact Nat.mul_mod_left _ _


/-- `is_more_significant(n)` holds iff the value is an integer multiple of `2^(n+1)` -/
theorem isMoreSignificant_iff (x : RF) (n : Int) :
    x.isMoreSignificant n = true ↔ ∃ k : Int, x.val = (k : Rat) * (2 : Rat) ^ (n + 1) := by
  rw [isMoreSignificant_eq, ← low_digits_zero_iff]; simp

/-- the shifting core of `normalize`, as a function of the target exponent -/
def normGo (x : RF) (t : Int) : Option RF :=
  if x.exp - t = 0 then some ⟨x.s, t, x.c⟩
  else if x.exp - t > 0 then some ⟨x.s, t, x.c * 2 ^ (x.exp - t).toNat⟩
  else if x.c % 2 ^ (t - x.exp).toNat != 0 then none else some ⟨x.s, t, x.c / 2 ^ (t - x.exp).toNat⟩

theorem normalize_eq_go (x : RF) (p : Option Nat) (n : Option Int) :
    x.normalize p n = x.normGo (x.normTarget p n) := by
  unfold normalize normGo normTarget
  cases p with
  | none =>
    cases n with
    | none => simp
    | some n =>
      simp only
      have h : -(x.exp - (n + 1)) = n + 1 - x.exp := by omega
      simp only [h]
  | some p =>
    cases n with
    | none =>
      simp only [e, RF.p]
      have h1 : x.exp - ((p : Int) - (bitLength x.c : Int)) = x.exp + (bitLength x.c : Int) - 1 - p + 1 := by omega
      have h2 : x.exp - (x.exp + (bitLength x.c : Int) - 1 - p + 1) = (p : Int) - (bitLength x.c : Int) := by omega
      have h3 : x.exp + (bitLength x.c : Int) - 1 - p + 1 - x.exp = -((p : Int) - (bitLength x.c : Int)) := by omega
      simp only [h1, h2, h3]
    | some n =>
      simp only [e, RF.p]
      by_cases hle : x.exp - ((p : Int) - (bitLength x.c : Int)) ≤ n
      · have hm : max (x.exp + (bitLength x.c : Int) - 1 - p + 1) (n + 1) = n + 1 := by omega
        simp only [hle, if_true, hm]
        have h1 : x.exp - ((p : Int) - (bitLength x.c : Int)) + (n + 1 - (x.exp - ((p : Int) - (bitLength x.c : Int)))) = n + 1 := by omega
        have h2 : (p : Int) - (bitLength x.c : Int) - (n + 1 - (x.exp - ((p : Int) - (bitLength x.c : Int)))) = x.exp - (n + 1) := by omega
        have h3 : -(x.exp - (n + 1)) = n + 1 - x.exp := by omega
        simp only [h1, h2, h3]
      · have hm : max (x.exp + (bitLength x.c : Int) - 1 - p + 1) (n + 1) = x.exp - ((p : Int) - (bitLength x.c : Int)) := by omega
        simp only [hle, if_false, hm]
        have h2 : x.exp - (x.exp - ((p : Int) - (bitLength x.c : Int))) = (p : Int) - (bitLength x.c : Int) := by omega
        have h3 : x.exp - ((p : Int) - (bitLength x.c : Int)) - x.exp = -((p : Int) - (bitLength x.c : Int)) := by omega
        simp only [h2, h3]
        try rfl

theorem normGo_val (x y : RF) (t : Int) (h : x.normGo t = some y) : y.val = x.val ∧ y.exp = t ∧ y.s = x.s := by
  unfold normGo at h
  by_cases h0 : x.exp - t = 0
  · simp only [h0, if_true, Option.some.injEq] at h; subst h
    have : t = x.exp := by omega
    subst this; exact ⟨rfl, rfl, rfl⟩
  · simp only [h0, if_false] at h
    by_cases h1 : x.exp - t > 0
    · simp only [h1, if_true, Option.some.injEq] at h; subst h
      refine ⟨?_, rfl, rfl⟩
      rw [val_shift]
      have : t + ((x.exp - t).toNat : Int) = x.exp := by omega
      rw [this]
    · simp only [h1, if_false] at h
      by_cases h2 : (x.c % 2 ^ (t - x.exp).toNat != 0) = true
      · simp [h2] at h
      · simp only [h2, Bool.false_eq_true, if_false, Option.some.injEq] at h; subst h
        refine ⟨?_, rfl, rfl⟩
        have hmod : x.c % 2 ^ (t - x.exp).toNat = 0 := by simpa using h2
        have hc : x.c = x.c / 2 ^ (t - x.exp).toNat * 2 ^ (t - x.exp).toNat := by
          have := Nat.div_add_mod x.c (2 ^ (t - x.exp).toNat)
          rw [hmod, Nat.add_zero, Nat.mul_comm] at this; exact this.symm
        have ht : t = x.exp + ((t - x.exp).toNat : Int) := by omega
        generalize (t - x.exp).toNat = k at *
        conv => rhs; rw [show x = ⟨x.s, x.exp, x.c⟩ from rfl, hc, val_shift, ← ht]

/-- `normalize` returns a value that denotes the same number, with the target exponent and the same sign -/
theorem normalize_val (x y : RF) (p : Option Nat) (n : Option Int) (h : x.normalize p n = some y) :
    y.val = x.val ∧ y.exp = x.normTarget p n ∧ y.s = x.s := by
  rw [normalize_eq_go] at h; exact normGo_val x y _ h

/-- `normalize` raises exactly when non-zero digits would be shifted out, i.e. when the value is not an
integer multiple of `2^target` -/
theorem normalize_none_iff (x : RF) (p : Option Nat) (n : Option Int) :
    x.normalize p n = none ↔ ¬ ∃ k : Int, x.val = (k : Rat) * (2 : Rat) ^ (x.normTarget p n) := by
  rw [normalize_eq_go, ← low_digits_zero_iff]
  generalize x.normTarget p n = t
  unfold normGo
  by_cases h0 : x.exp - t = 0
  · have : (t - x.exp).toNat = 0 := by omega
    simp [h0, this, Nat.mod_one]
  · by_cases h1 : x.exp - t > 0
    · have : (t - x.exp).toNat = 0 := by omega
      have h1' : t < x.exp := by omega
      simp [h0, h1', this, Nat.mod_one]
    · simp only [h0, h1, if_false]
      by_cases h2 : x.c % 2 ^ (t - x.exp).toNat = 0 <;> simp [h2]


theorem isInteger_iff (x : RF) : x.isInteger = true ↔ ∃ k : Int, x.val = (k : Rat) := by
  unfold isInteger
  rw [isMoreSignificant_iff]
  simp

/-- `int(x)` returns exactly the denoted value -/
theorem toInt_some (x : RF) (i : Int) (h : x.toInt? = some i) : (i : Rat) = x.val := by
  unfold toInt? at h
  by_cases hi : x.isInteger = true
  · simp only [hi, Bool.not_true, Bool.false_eq_true, if_false] at h
    by_cases h0 : x.c = 0
    · simp only [h0, if_true, Option.some.injEq] at h; subst h; rw [val_zero_c h0]; rfl
    · simp only [h0, if_false, Option.some.injEq] at h
      subst h
      by_cases he : x.exp ≥ 0
      · simp only [he, if_true]
        unfold val; simp only [he, if_true]
        congr 1
        cases x.s <;> simp [Int.neg_mul]
      · simp only [he, if_false]
        have hm : x.c % 2 ^ (-x.exp).toNat = 0 := by
          have := hi; unfold isInteger at this; rw [isMoreSignificant_eq] at this
          have h' : ((-1 : Int) + 1 - x.exp).toNat = (-x.exp).toNat := by omega
          rw [h'] at this; simpa using this
        unfold val; simp only [he, if_false]
        generalize (-x.exp).toNat = k at *
        have hc : x.c = x.c / 2 ^ k * 2 ^ k := by
          have := Nat.div_add_mod x.c (2 ^ k)
          rw [hm, Nat.add_zero, Nat.mul_comm] at this; exact this.symm
        have hp : ((2 ^ k : Nat) : Rat) ≠ 0 := by
          rw [Ne, Rat.natCast_eq_zero_iff]; exact Nat.ne_of_gt (Nat.pow_pos (by decide))
        generalize x.c / 2 ^ k = q at *
        rw [hc]
        cases x.s
        · simp only [Bool.false_eq_true, if_false]
          rw [Rat.intCast_natCast, Rat.intCast_natCast, Rat.natCast_mul, Rat.mul_div_cancel hp]
        · simp only [if_true]
          rw [Rat.intCast_neg, Rat.intCast_neg, Rat.intCast_natCast, Rat.intCast_natCast, Rat.natCast_mul,
              Rat.div_def, Rat.neg_mul, ← Rat.div_def, Rat.mul_div_cancel hp]
  · simp [hi] at h

/-- `int(x)` raises exactly when the value is not an integer -/
theorem toInt_none_iff (x : RF) : x.toInt? = none ↔ ¬ ∃ k : Int, x.val = (k : Rat) := by
  rw [← isInteger_iff]
  unfold toInt?
  by_cases hi : x.isInteger = true
  · simp only [hi, Bool.not_true, Bool.false_eq_true, if_false, not_true, iff_false]
    by_cases h0 : x.c = 0 <;> simp [h0]
  · simp [hi]

/-- equal values hash through the same class key -/
theorem hashKey_eq_of_val_eq (x y : RF) (h : x.val = y.val) : x.hashKey = y.hashKey := by
  unfold hashKey asRational
  cases hx : x.toInt? with
  | some i =>
    cases hy : y.toInt? with
    | some j =>
      have := toInt_some x i hx; have := toInt_some y j hy
      have hij : (i : Rat) = (j : Rat) := by rw [‹(i : Rat) = x.val›, h, ← ‹(j : Rat) = y.val›]
      rw [Rat.intCast_inj] at hij; simp [hij]
    | none =>
      exfalso
      exact (toInt_none_iff y).mp hy ⟨i, by rw [← h]; exact (toInt_some x i hx).symm⟩
  | none =>
    cases hy : y.toInt? with
    | some j =>
      exfalso
      exact (toInt_none_iff x).mp hx ⟨j, by rw [h]; exact (toInt_some y j hy).symm⟩
    | none => simp [h]

theorem mag_pos {c : Nat} (h : c ≠ 0) (e : Int) : (0 : Rat) < (c : Rat) * (2 : Rat) ^ e :=
  Rat.mul_pos (Rat.natCast_pos.mpr (Nat.pos_of_ne_zero h)) (two_zpow_pos e)

theorem val_eq_zero_iff (x : RF) : x.val = 0 ↔ x.c = 0 := by
  constructor
  · intro h
    by_cases h0 : x.c = 0
    · exact h0
    · exfalso
      have hp := mag_pos h0 x.exp
      rw [val_eq, Rat.mul_assoc] at h
      cases hs : x.s <;> simp only [hs, sgn, if_true, Bool.false_eq_true, if_false] at h
      · rw [Rat.one_mul] at h; rw [h] at hp; exact Rat.lt_irrefl hp
      · rw [Rat.neg_mul, Rat.one_mul] at h
        have : (x.c : Rat) * 2 ^ x.exp = 0 := by rw [← Rat.neg_neg (↑x.c * 2 ^ x.exp), h]; rfl
        rw [this] at hp; exact Rat.lt_irrefl hp
  · exact val_zero_c

theorem val_neg_iff (x : RF) : x.val < 0 ↔ (x.s = true ∧ x.c ≠ 0) := by
  by_cases h0 : x.c = 0
  · rw [val_zero_c h0]; simp [h0, Rat.lt_irrefl]
  · have hp := mag_pos h0 x.exp
    rw [val_eq, Rat.mul_assoc]
    cases hs : x.s <;> simp only [sgn, if_true, Bool.false_eq_true, if_false]
    · rw [Rat.one_mul]; simp [h0]; exact Rat.not_lt.mpr (Rat.le_of_lt hp)
    · rw [Rat.neg_mul, Rat.one_mul]; simp [h0]
      rw [Rat.neg_lt_iff]; exact hp

theorem val_pos_iff (x : RF) : 0 < x.val ↔ (x.s = false ∧ x.c ≠ 0) := by
  by_cases h0 : x.c = 0
  · rw [val_zero_c h0]; simp [h0, Rat.lt_irrefl]
  · have hp := mag_pos h0 x.exp
    rw [val_eq, Rat.mul_assoc]
    cases hs : x.s <;> simp only [sgn, if_true, Bool.false_eq_true, if_false]
    · rw [Rat.one_mul]; simp [h0]; exact hp
    · rw [Rat.neg_mul, Rat.one_mul]; simp [h0]
      rw [Rat.not_lt, Rat.neg_le_iff]; exact Rat.le_of_lt hp

end RF
open Fpy.Spec

namespace FV
open RF

theorem cmpQ_eq_cmpRat (a b : Rat) : ExtVal.cmpQ a b = cmpRat a b := rfl

theorem neg_den (a : FV) : a.neg.den = a.den.neg := by
  cases a with
  | fin x => simp [neg, den, ExtVal.neg, val_neg]
  | inf s => cases s <;> rfl
  | nan s => rfl

theorem abs_den (a : FV) : a.abs.den = a.den.abs := by
  cases a with
  | fin x => simp only [abs, withSign, den, ExtVal.abs]; congr 1; exact val_abs x
  | inf s => cases s <;> rfl
  | nan s => rfl

theorem pos_den (a : FV) : a.pos.den = a.den := rfl

theorem add_den (a b : FV) : (a.add b).den = a.den.add b.den := by
  cases a with
  | nan s => cases b <;> rfl
  | inf s =>
    cases b with
    | nan t => cases s <;> rfl
    | inf t => cases s <;> cases t <;> rfl
    | fin y => cases s <;> rfl
  | fin x =>
    cases b with
    | nan t => rfl
    | inf t => cases t <;> rfl
    | fin y => simp [add, den, ExtVal.add, val_add]

theorem sub_den (a b : FV) : (a.sub b).den = a.den.sub b.den := by
  unfold sub ExtVal.sub; rw [add_den, neg_den]

theorem isZero_den (a : FV) : a.den.isZero = a.isZero := by
  cases a with
  | fin x =>
    simp only [den, ExtVal.isZero, isZero]
    by_cases h : x.c = 0
    · simp [h, (val_eq_zero_iff x).mpr h]
    · simp [h, mt (val_eq_zero_iff x).mp h]
  | inf s => cases s <;> rfl
  | nan s => rfl

theorem isNeg_den_fin (x : RF) (h : x.c ≠ 0) : (FV.fin x).den.isNeg = x.s := by
  simp only [den, ExtVal.isNeg]
  cases hs : x.s
  · have : ¬ x.val < 0 := by rw [val_neg_iff]; simp [hs]
    simp [this]
  · have : x.val < 0 := by rw [val_neg_iff]; simp [hs, h]
    simp [this]

theorem mul_den (a b : FV) : (a.mul b).den = a.den.mul b.den := by
  cases a with
  | nan s => cases b <;> rfl
  | inf s =>
    cases b with
    | nan t => cases s <;> rfl
    | inf t => cases s <;> cases t <;> rfl
    | fin y =>
      by_cases h : y.c = 0
      · have hz : (FV.fin y).den.isZero = true := by rw [isZero_den]; simp [isZero, h]
        have hv : y.val = 0 := val_zero_c h
        cases s <;> simp [mul, isZero, h, den, ExtVal.mul, ExtVal.ofInf, ExtVal.isZero, hv]
      · have hv0 : ¬ y.val = 0 := mt (val_eq_zero_iff y).mp h
        cases hs : y.s
        · have hlt : ¬ y.val < 0 := by rw [val_neg_iff]; simp [hs]
          cases s <;> simp [mul, isZero, h, den, ExtVal.mul, ExtVal.ofInf, sign, ExtVal.isNeg, ExtVal.isZero, hv0, hlt, hs]
        · have hlt : y.val < 0 := by rw [val_neg_iff]; simp [hs, h]
          cases s <;> simp [mul, isZero, h, den, ExtVal.mul, ExtVal.ofInf, sign, ExtVal.isNeg, ExtVal.isZero, hv0, hlt, hs]
  | fin x =>
    cases b with
    | nan t => rfl
    | inf t =>
      by_cases h : x.c = 0
      · have hv : x.val = 0 := val_zero_c h
        cases t <;> simp [mul, h, den, ExtVal.mul, ExtVal.ofInf, ExtVal.isZero, hv]
      · have hv0 : ¬ x.val = 0 := mt (val_eq_zero_iff x).mp h
        cases hs : x.s
        · have hlt : ¬ x.val < 0 := by rw [val_neg_iff]; simp [hs]
          cases t <;> simp [mul, h, den, ExtVal.mul, ExtVal.ofInf, ExtVal.isNeg, ExtVal.isZero, hv0, hlt, hs]
        · have hlt : x.val < 0 := by rw [val_neg_iff]; simp [hs, h]
          cases t <;> simp [mul, h, den, ExtVal.mul, ExtVal.ofInf, ExtVal.isNeg, ExtVal.isZero, hv0, hlt, hs]
    | fin y => simp [mul, den, ExtVal.mul, val_mul]

theorem compare_den (a b : FV) : a.compare b = a.den.cmp b.den := by
  cases a with
  | nan s => cases b <;> rfl
  | inf s =>
    cases b with
    | nan t => cases s <;> rfl
    | inf t => cases s <;> cases t <;> rfl
    | fin y => cases s <;> rfl
  | fin x =>
    cases b with
    | nan t => rfl
    | inf t => cases t <;> rfl
    | fin y => simp [compare, den, ExtVal.cmp, compare_cmpRat, cmpQ_eq_cmpRat]

end FV

namespace RF

theorem cmpRat_lt_iff (a b : Rat) : cmpRat a b = .lt ↔ a < b := by
  unfold cmpRat
  by_cases h1 : a < b
  · simp [h1]
  · by_cases h2 : b < a <;> simp [h1, h2]

theorem cmpRat_gt_iff (a b : Rat) : cmpRat a b = .gt ↔ b < a := by
  unfold cmpRat
  by_cases h1 : a < b
  · have : ¬ b < a := Rat.not_lt.mpr (Rat.le_of_lt h1)
    simp [h1, this]
  · by_cases h2 : b < a <;> simp [h1, h2]

theorem cmpRat_eq_iff (a b : Rat) : cmpRat a b = .eq ↔ a = b := by
  unfold cmpRat
  by_cases h1 : a < b
  · simp [h1]; exact Rat.ne_of_lt h1
  · by_cases h2 : b < a
    · simp [h1, h2]; exact Rat.ne_of_gt h2
    · simp [h1, h2]; exact Rat.le_antisymm (Rat.not_lt.mp h2) (Rat.not_lt.mp h1)

theorem add_zero_sign (s t : Bool) (e1 e2 : Int) :
    (RF.add ⟨s, e1, 0⟩ ⟨t, e2, 0⟩).s = (s && t) ∧ (RF.add ⟨s, e1, 0⟩ ⟨t, e2, 0⟩).c = 0 := by
  simp [RF.add]

theorem add_cancel_sign (x y : RF) (hx : x.c ≠ 0) (hy : y.c ≠ 0) (h : x.val + y.val = 0) :
    (x.add y).s = false ∧ (x.add y).c = 0 := by
  have hv : (x.add y).val = 0 := by rw [val_add, h]
  have hc := (val_eq_zero_iff _).mp hv
  refine ⟨?_, hc⟩
  unfold RF.add at hc ⊢
  simp only [hx, hy, if_false] at hc ⊢
  have : ∀ k : Int, k.natAbs = 0 → decide (k < 0) = false := by intro k hk; simp; omega
  exact this _ hc

theorem mul_sign (x y : RF) : (x.mul y).s = (x.s != y.s) := by
  unfold RF.mul; split <;> rfl

theorem pow_sign (x : RF) (k : Nat) (hk : k ≠ 0) : (x.pow k).s = (x.s && (k % 2 == 1)) := by
  unfold RF.pow; simp [hk]

theorem abs_val_eq (x : RF) : x.val.abs = (x.c : Rat) * (2 : Rat) ^ x.exp := by
  rw [← val_abs, RF.abs, val_mk]; simp [sgn]

theorem natCast_le' {a b : Nat} (h : a ≤ b) : (a : Rat) ≤ (b : Rat) := Rat.natCast_le_natCast.mpr h
theorem natCast_lt' {a b : Nat} (h : a < b) : (a : Rat) < (b : Rat) := Rat.natCast_lt_natCast.mpr h

/-- `bit(n)` is the parity of `⌊|x| / 2^n⌋`: there is a `k` with `k·2^n ≤ |x| < (k+1)·2^n` and
`bit n = (k odd)` -/
theorem bit_spec (x : RF) (n : Int) :
    ∃ k : Nat, (k : Rat) * (2 : Rat) ^ n ≤ x.val.abs ∧ x.val.abs < ((k + 1 : Nat) : Rat) * (2 : Rat) ^ n ∧
      x.bit n = (k % 2 == 1) := by
  rw [abs_val_eq]
  unfold bit
  by_cases hoff : n - x.exp < 0
  · -- the position is below the least significant digit
    have he : x.exp = n + ((x.exp - n).toNat : Int) := by omega
    have hj : 1 ≤ (x.exp - n).toNat := by omega
    generalize (x.exp - n).toNat = j at he hj
    have hE : (x.c : Rat) * (2 : Rat) ^ x.exp = ((x.c * 2 ^ j : Nat) : Rat) * (2 : Rat) ^ n := by
      rw [he, two_zpow_add, two_zpow_nat, Rat.natCast_mul]; grind
    rw [hE]
    refine ⟨x.c * 2 ^ j, Rat.le_refl, ?_, ?_⟩
    · exact Rat.mul_lt_mul_of_pos_right (natCast_lt' (Nat.lt_succ_self _)) (two_zpow_pos n)
    · have : x.c * 2 ^ j % 2 = 0 := by
        have h2 : 2 ^ j = 2 * 2 ^ (j - 1) := two_pow_pred j hj
        rw [h2, Nat.mul_left_comm]; exact Nat.mul_mod_right 2 _
      simp [hoff, this]
  · have hn : n = x.exp + ((n - x.exp).toNat : Int) := by omega
    have hoff' : ¬ (n - x.exp < 0) := hoff
    generalize hd : (n - x.exp).toNat = d at hn
    have hP : 0 < 2 ^ d := Nat.pow_pos (by decide)
    refine ⟨x.c / 2 ^ d, ?_, ?_, ?_⟩
    · rw [hn, two_zpow_add, two_zpow_nat, Rat.mul_comm ((2:Rat)^x.exp), ← Rat.mul_assoc, ← Rat.natCast_mul]
      exact Rat.mul_le_mul_of_nonneg_right (natCast_le' (Nat.div_mul_le_self _ _)) (Rat.le_of_lt (two_zpow_pos _))
    · rw [hn, two_zpow_add, two_zpow_nat, Rat.mul_comm ((2:Rat)^x.exp), ← Rat.mul_assoc, ← Rat.natCast_mul]
      apply Rat.mul_lt_mul_of_pos_right (natCast_lt' _) (two_zpow_pos _)
      have := Nat.div_add_mod x.c (2 ^ d)
      have := Nat.mod_lt x.c hP
      rw [Nat.add_mul, Nat.one_mul, Nat.mul_comm]; omega
    · simp only [hoff', decide_false, Bool.false_or]
      by_cases hp : n - x.exp ≥ (x.p : Int)
      · have hb : bitLength x.c ≤ d := by unfold RF.p at hp; omega
        have := (bitLength_le_iff _ _).mp hb
        simp [hp, Nat.div_eq_of_lt this]
      · simp only [hp, decide_false, Bool.false_eq_true, if_false, hd]
        rw [Nat.testBit_eq_decide_div_mod_eq]
        by_cases h1 : x.c / 2 ^ d % 2 = 1 <;> simp [h1]

end RF

end Fpy
