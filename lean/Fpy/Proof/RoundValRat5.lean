/-
Part 14 of the value-level helpers for C01: `Context.round` of a non-dyadic `Fraction` in the
bounded families: the unbounded rounding that feeds the range check is the correct rounding of the
rational; in range it is returned; the overflow flag tells whether it exceeds the range.
-/
import Fpy.Proof.RoundValRat4
namespace Fpy.C01v
open Fpy Fpy.Spec

theorem not_overflowing_of_in_range (negMax posMax y : RF) (h1 : negMax.val ≤ 0) (h2 : 0 ≤ posMax.val)
    (h : negMax.val ≤ y.val ∧ y.val ≤ posMax.val) :
    (if y.s then y.lt negMax else y.gt posMax) = false := by
  cases hb : (if y.s then y.lt negMax else y.gt posMax) with
  | false => rfl
  | true =>
    exfalso
    have := (overflowing_iff negMax posMax y h1 h2).1 hb
    grind

theorem mpb_round_frac_eq (c : MPBParams) (hk : c.k = some 0) (num : Int) (den : Nat)
    (h1 : den ≠ 1) (h2 : isPow2 den = false) :
    Ctx.round (.mpb c) (.frac num den) =
      mpbRoundAt c (.fin (rtoRat (decide (num < 0)) num.natAbs den (c.p + 2))) none false 0 := by
  unfold Ctx.round
  rw [prepare_frac _ num den h1 h2]
  simp only [Ctx.roundParams, hk, mpfrValue, Ctx.roundAtCore]

/-- `MPBFloatContext.round(Fraction)` -/
theorem mpb_round_frac (c : MPBParams) (hk : c.k = some 0) (hwf : CtxWF (.mpb c)) (num : Int) (den : Nat)
    (hnum : num ≠ 0) (hden : 0 < den) (h1 : den ≠ 1) (h2 : isPow2 den = false) :
    ∃ (y : RF) (fl : Flags), bitLength y.c ≤ c.p ∧ y.exp > c.nmin ∧
      y.val = roundVal c.rm (ratN num.natAbs den c.p (some c.nmin) + 1) ((num : Rat) / (den : Rat)) ∧
      (fl.inexact = false ↔ OnGrid (ratN num.natAbs den c.p (some c.nmin) + 1) ((num : Rat) / (den : Rat))) ∧
      ((c.negMax.val ≤ y.val ∧ y.val ≤ c.posMax.val) →
        Ctx.round (.mpb c) (.frac num den) = .ok ⟨.fin y, fl⟩) ∧
      (∀ res, Ctx.round (.mpb c) (.frac num den) = .ok res →
        (res.fl.overflow = true ↔ (y.val < c.negMax.val ∨ c.posMax.val < y.val))) := by
  obtain ⟨s1, s2, y, fl, hr, a, b, cc, d, e⟩ :=
    frac_round_float (decide (num < 0)) num.natAbs den c.p (some c.nmin) c.rm (by omega) hden hwf.1
  have hge : c.nmin ≤ ratN num.natAbs den c.p (some c.nmin) := by unfold ratN; simp; omega
  have hr' : (rtoRat (decide (num < 0)) num.natAbs den (c.p + 2)).round (some c.p) (some c.nmin) c.rm c.k 0 false
      = .ok (y, fl) := by rw [hk]; exact hr
  rw [mpb_round_frac_eq c hk num den h1 h2]
  refine ⟨y, fl, b, by omega, by rw [frac_val]; exact d, by rw [frac_val]; exact e, ?_, ?_⟩
  · intro hin
    exact Props.C01.mpb_in_range c _ y fl s1 hr'
      (not_overflowing_of_in_range c.negMax c.posMax y hwf.2.2.2.1 hwf.2.2.2.2 hin)
  · intro res h
    exact mpb_flag_overflow c hwf _ s1 0 y fl hr' res h

theorem efloat_round_frac_eq (c : EFloatParams) (hk : c.k = some 0) (num : Int) (den : Nat)
    (h1 : den ≠ 1) (h2 : isPow2 den = false) :
    Ctx.round (.efloat c) (.frac num den) =
      (Ctx.efloat c).roundAtCore (.fin (rtoRat (decide (num < 0)) num.natAbs den (c.mpb.p + 2))) none false 0 := by
  unfold Ctx.round
  rw [prepare_frac _ num den h1 h2]
  have : c.mpb.k = some 0 := by rw [EFloatParams.mpb_k]; exact hk
  simp only [Ctx.roundParams, this, mpfrValue]

/-- `EFloatContext.round(Fraction)` -/
theorem efloat_round_frac (c : EFloatParams) (hk : c.k = some 0) (hwf : CtxWF (.efloat c)) (num : Int) (den : Nat)
    (hnum : num ≠ 0) (hden : 0 < den) (h1 : den ≠ 1) (h2 : isPow2 den = false) :
    ∃ (y : RF) (fl : Flags), bitLength y.c ≤ c.mpb.p ∧ y.exp > c.mpb.nmin ∧
      y.val = roundVal c.rm (ratN num.natAbs den c.mpb.p (some c.mpb.nmin) + 1) ((num : Rat) / (den : Rat)) ∧
      (fl.inexact = false ↔
        OnGrid (ratN num.natAbs den c.mpb.p (some c.mpb.nmin) + 1) ((num : Rat) / (den : Rat))) ∧
      ((c.mpb.negMax.val ≤ y.val ∧ y.val ≤ c.mpb.posMax.val) →
        ∃ y', y'.val = y.val ∧ Ctx.round (.efloat c) (.frac num den) = .ok ⟨.fin y', fl⟩) ∧
      (∀ res, Ctx.round (.efloat c) (.frac num den) = .ok res →
        (res.fl.overflow = true ↔ (y.val < c.mpb.negMax.val ∨ c.mpb.posMax.val < y.val))) := by
  have hwf' := wf_mpb_of_efloat c hwf
  have hk' : c.mpb.k = some 0 := by rw [EFloatParams.mpb_k]; exact hk
  obtain ⟨s1, s2, y, fl, hr, a, b, cc, d, e⟩ :=
    frac_round_float (decide (num < 0)) num.natAbs den c.mpb.p (some c.mpb.nmin) c.mpb.rm (by omega) hden hwf.1
  have hge : c.mpb.nmin ≤ ratN num.natAbs den c.mpb.p (some c.mpb.nmin) := by unfold ratN; simp; omega
  have hr' : (rtoRat (decide (num < 0)) num.natAbs den (c.mpb.p + 2)).round (some c.mpb.p) (some c.mpb.nmin)
      c.mpb.rm c.mpb.k 0 false = .ok (y, fl) := by rw [hk']; exact hr
  rw [efloat_round_frac_eq c hk num den h1 h2]
  refine ⟨y, fl, b, by omega, by rw [frac_val]; exact d, by rw [frac_val]; exact e, ?_, ?_⟩
  · intro hin
    have := Props.C01.mpb_in_range c.mpb _ y fl s1 hr'
      (not_overflowing_of_in_range c.mpb.negMax c.mpb.posMax y hwf'.2.2.2.1 hwf'.2.2.2.2 hin)
    refine ⟨if (y.c = 0 && y.s && c.kind == NanKind.negZero) = true then { y with s := false } else y,
      same_val_of_zero_flip y _, ?_⟩
    unfold Ctx.roundAtCore
    simp only [this, efloatFixup]
    split <;> rfl
  · intro res h
    exact efloat_flag_overflow c hwf _ s1 0 y fl hr' res h

theorem mpbfix_round_frac_eq (c : MPBFixParams) (hk : c.k = some 0) (num : Int) (den : Nat)
    (h1 : den ≠ 1) (h2 : isPow2 den = false) :
    Ctx.round (.mpbfix c) (.frac num den) =
      match mpfrValue (decide (num < 0)) num.natAbs den none (some c.nmin) with
      | .ok xi => mpbfixRoundAt c (.fin xi) none false 0
      | .error e => .error e := by
  unfold Ctx.round
  rw [prepare_frac _ num den h1 h2]
  have hn0 : c.nmin - ((0 : Nat) : Int) = c.nmin := by omega
  simp only [Ctx.roundParams, hk, widenN, hn0]
  cases mpfrValue (decide (num < 0)) num.natAbs den none (some c.nmin) <;> rfl

/-- `MPBFixedContext.round(Fraction)` -/
theorem mpbfix_round_frac (c : MPBFixParams) (hk : c.k = some 0) (hwf : CtxWF (.mpbfix c)) (num : Int) (den : Nat)
    (hnum : num ≠ 0) (hden : 0 < den) (h1 : den ≠ 1) (h2 : isPow2 den = false) :
    ∃ (y : RF) (fl : Flags), y.exp > c.nmin ∧
      y.val = roundVal c.rm (c.nmin + 1) ((num : Rat) / (den : Rat)) ∧
      (fl.inexact = false ↔ OnGrid (c.nmin + 1) ((num : Rat) / (den : Rat))) ∧
      ((c.negMax.val ≤ y.val ∧ y.val ≤ c.posMax.val) →
        ∃ y', y'.val = y.val ∧ Ctx.round (.mpbfix c) (.frac num den) = .ok ⟨.fin y', fl⟩) ∧
      (∀ res, Ctx.round (.mpbfix c) (.frac num den) = .ok res →
        (res.fl.overflow = true ↔ (y.val < c.negMax.val ∨ c.posMax.val < y.val))) := by
  obtain ⟨hpm, hnm, hn0, hp0, hps⟩ := hwf
  obtain ⟨xi, y, fl, hm, s1, s2, hr, a, b, cc, d⟩ :=
    frac_round_fixed (decide (num < 0)) num.natAbs den c.nmin c.rm (by omega) hden
  have hr' : xi.round none (some c.nmin) c.rm c.k 0 false = .ok (y, fl) := by rw [hk]; exact hr
  rw [mpbfix_round_frac_eq c hk num den h1 h2, hm]
  simp only
  refine ⟨y, fl, b, by rw [frac_val]; exact cc, by rw [frac_val]; exact d, ?_, ?_⟩
  · intro hin
    have hno := not_overflowing_of_in_range c.negMax c.posMax y hn0 hp0 hin
    refine ⟨if (y.c = 0 && y.s && !c.negZero) = true then { y with s := false } else y,
      same_val_of_zero_flip y _, ?_⟩
    unfold mpbfixRoundAt fixedSpecial
    simp only [s1, if_false, hr', hno, Bool.false_eq_true]
    split <;> rfl
  · intro res h
    exact mpbfix_flag_overflow c ⟨hpm, hnm, hn0, hp0, hps⟩ xi s1 0 y fl hr' res h

end Fpy.C01v
