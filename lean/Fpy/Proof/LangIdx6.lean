/-
Loop restructuring, part 6: FOR-UNROLLING IS SOUND (PEEL strategy, length not statically known).
-/
import Fpy.Proof.LangIdx5
namespace Fpy.Xform
open Fpy Fpy.Lang

/-- `for p in it: body; rest` and `<the block _build_peel emits>; rest` have the same outcome, for every
unroll factor `k = offs.length + 1 ≥ 1`, every iterable value (any length, also a non-list: the same type
error), every body (early `return`, writes to the iterated list, allocation, calls, nested loops included),
every context and every well-formed state.  "Same outcome" is `FinRel S`: the same error, or the same
`return` value / final values of the user variables `S` up to a renaming of heap references under which
the two final heaps correspond (the emitted code allocates the two `range` lists, which the original
does not: they are garbage).  `IntArith CI` is the interface to the number layer: under the context of the
control code (`fp.INTEGER`) integer `+`, `-`, `fmod` are exact. -/
theorem for_unroll_peel_rel {Φ : Funs} {CI : Ctx} (IA : IntArith CI) {C : Ctx} {S : List String}
    {p : Pat} {it : Expr} {body rest : List Stmt} {t n m idx ridx : String} {offs : List String} {lits : List NV}
    {z0 zk z1 : NV} {k : Nat}
    (hk : offs.length + 1 = k) (hlits : offs.length = lits.length)
    (hl : ∀ j (h : j < lits.length), nvInt? lits[j] = some ((1 + j : Nat) : Int))
    (hz0 : nvInt? z0 = some 0) (hzk : nvInt? zk = some (k : Int)) (hz1 : nvInt? z1 = some 1)
    (hnd : (t :: n :: m :: ridx :: idx :: offs).Nodup)
    (hfresh : ∀ z ∈ t :: n :: m :: ridx :: idx :: offs, z ∉ S ∧ z ∉ bvP p ++ bvB body)
    (hbody : ∀ z ∈ readsB body, z ∈ S) (hrest : ∀ z ∈ readsB rest, z ∈ S)
    {σ : Env} {μ : Heap} (hwfh : WFH μ) (hwfe : WFE σ μ) :
    FinRel S (evalBω Φ σ μ C (.for p it body :: rest))
      (evalBω Φ σ μ C (forUnrollPeel CI p it body t n m idx ridx offs lits z0 zk z1 ++ rest)) := by
  have hkpos : 0 < k := by omega
  rw [evalBω_cons', evalSω_for]
  show FinRel S _ (evalBω Φ σ μ C (.assign (.var t) it :: _))
  rw [evalBω_cons', evalSω_assign]
  have hpar := par_evalEω (Φ := Φ) (Nat.le_refl _) hwfe hwfh C it
  cases hit : evalEω Φ σ μ C it with
  | error e => exact rfl
  | ok x =>
    obtain ⟨v, μ0⟩ := x
    rw [hit] at hpar
    obtain ⟨hv, hh0, hx0⟩ := hpar
    dsimp only at hv hh0 hx0
    show FinRel S _ (((bindPatω (.var t) v σ >>= _) >>= _))
    rw [bindPatω_var]
    show FinRel S _ (evalBω Φ (σ.set t v) μ0 C (_ :: _))
    rw [evalBω_cons']
    have ht : (σ.set t v).get? t = some v := by rw [Env.get?_set, if_pos rfl]
    -- a non-list iterable: the same type error on both sides
    have hnonlist : (∀ r, v ≠ .list r) → ∀ (K : Outcome × Heap → M (Outcome × Heap)),
        FinRel S ((Except.ok (v, μ0) >>= fun x : Val × Heap => match x with
              | (iv, μ') => match iv with
                | .list r => forLoopω Φ σ μ' C r 0 p body
                | _ => (.error .typeError : M (Outcome × Heap))) >>= thenB Φ C rest)
          (evalSω Φ (σ.set t v) μ0 C (.with (.ctxLit CI) none
              [ .assign (.var n) (.len (.var t)),
                .assign (.var m) (.op .sub [.var n, .op .fmod [.var n, .num zk]]) ]) >>= K) := by
      intro hne K
      rw [with_ctx_wrap, evalBω_cons', evalSω_assign, evalEω_len, evalEω_var, ht]
      cases v <;> first | exact rfl | exact absurd rfl (hne _)
    rcases VR.inv hv with ⟨hf, _⟩ | ⟨vs, ws, rfl, _, _⟩ | ⟨r, rfl, _, hr, _⟩
    · exact hnonlist (fun r e => by subst e; simp [flatV] at hf) _
    · exact hnonlist (fun r e => by cases e) _
    · -- the iterable is the list `r` with `N` elements
      obtain ⟨l, hcl⟩ : ∃ l, μ0[r]? = some l := ⟨μ0[r], List.getElem?_eq_getElem hr⟩
      simp only [List.nodup_cons, List.mem_cons, not_or] at hnd
      obtain ⟨⟨htn, htm, htr, hti, hto⟩, ⟨hnm, hnr, hni, hno⟩, ⟨hmr, hmi, hmo⟩, ⟨hri, hro⟩, hio, hoo⟩ := hnd
      have hS : ∀ z ∈ t :: n :: m :: ridx :: idx :: offs, z ∉ S := fun z hz => (hfresh z hz).1
      have hB : ∀ z ∈ t :: n :: m :: ridx :: idx :: offs, z ∉ bvP p ++ bvB body := fun z hz => (hfresh z hz).2
      obtain ⟨wm, hwm, hpre⟩ := prelude_eval Φ IA C (n := n) (m := m) ht hcl hzk hkpos (Ne.symm htn)
      rw [hpre, ok_bind]
      generalize hq : l.length / k = q at hwm
      generalize hσm : ((σ.set t (Val.list r)).set n (.num (.q (l.length : Int) 1))).set m (.num wm) = σm
      have hm_get : σm.get? m = some (.num wm) := by rw [← hσm, Env.get?_set, if_pos rfl]
      have hn_get : σm.get? n = some (.num (.q (l.length : Int) 1)) := by
        rw [← hσm, Env.get?_set, if_neg hnm, Env.get?_set, if_pos rfl]
      have ht_get : σm.get? t = some (.list r) := by
        rw [← hσm, Env.get?_set, if_neg htm, Env.get?_set, if_neg htn, Env.get?_set, if_pos rfl]
      have hother : ∀ z, z ≠ t → z ≠ n → z ≠ m → σm.get? z = σ.get? z := by
        intro z h1 h2 h3
        rw [← hσm, Env.get?_set, if_neg h3, Env.get?_set, if_neg h2, Env.get?_set, if_neg h1]
      have hkq : k * q ≤ l.length := by rw [← hq]; exact Nat.mul_div_le _ _
      have J0 : Jinv S (fun r => r) [] r l.length t σ μ0 σm μ0 := by
        refine ⟨(ERS.of_ER (hwfe.mono hx0.e1.le)).congr_right (fun z hz => hother z ?_ ?_ ?_), hh0, by simp, ⟨l, hcl, rfl⟩, ht_get⟩
        · intro e; exact hS t (by simp) (e ▸ hz)
        · intro e; exact hS n (by simp) (e ▸ hz)
        · intro e; exact hS m (by simp) (e ▸ hz)
      have hA : AnsOK (fun a b => FinRel S (a >>= thenB Φ C rest) b) :=
        ⟨fun _ => rfl, fun π D _ _ _ _ hh hv => ⟨π, D, hh, hv⟩⟩
      show FinRel S (forLoopω Φ σ μ0 C r 0 p body >>= thenB Φ C rest)
        (evalBω Φ σm μ0 C (.for (.var idx) (.range [.num z0, .var m, .num zk]) (mainBody CI p t idx offs lits body) ::
          (.for (.var ridx) (.range [.var m, .var n, .num z1]) (mainBody CI p t ridx [] [] body) :: rest)))
      refine forstmt_cont (Ans := fun a b => FinRel S (a >>= thenB Φ C rest) b) hA IA hbody 0 k q hk hlits hl
        (List.nodup_cons.2 ⟨hio, hoo⟩) ?_ ?_ (by simpa using hkq) J0
        (AtomInt.num (by simpa using hz0)) (AtomInt.var hm_get (by simpa using hwm)) (AtomInt.num hzk) _ ?_
      · intro z hz
        have hbig : z ∈ t :: n :: m :: ridx :: idx :: offs :=
          List.mem_cons_of_mem _ (List.mem_cons_of_mem _ (List.mem_cons_of_mem _ (List.mem_cons_of_mem _ hz)))
        refine ⟨hS z hbig, ?_⟩
        rcases List.mem_cons.1 hz with e | e
        · rw [e]; exact Ne.symm hti
        · intro e'; exact hto (e' ▸ e)
      · intro z hz
        rcases List.mem_cons.1 hz with e | e
        · rw [e]; exact hB t List.mem_cons_self
        · exact hB z (List.mem_cons_of_mem _ (List.mem_cons_of_mem _ (List.mem_cons_of_mem _ (List.mem_cons_of_mem _ e))))
      · intro π' σ1' m1 σ2' m2 J1 hfr1
        rw [Nat.zero_add]
        have hm1 : σ2'.get? m = some (.num wm) := by
          rw [hfr1 m (by
            intro h
            rcases List.mem_append.1 h with h | h
            · rcases List.mem_cons.1 h with e | e
              · exact hmi e
              · exact hmo e
            · exact hB m (by simp) h)]
          exact hm_get
        have hn1 : σ2'.get? n = some (.num (.q (l.length : Int) 1)) := by
          rw [hfr1 n (by
            intro h
            rcases List.mem_append.1 h with h | h
            · rcases List.mem_cons.1 h with e | e
              · exact hni e
              · exact hno e
            · exact hB n (by simp) h)]
          exact hn_get
        refine forstmt_cont (Ans := fun a b => FinRel S (a >>= thenB Φ C rest) b) hA IA hbody (k * q) 1 (l.length - k * q)
          (offs := []) (lits := []) (idx := ridx) rfl rfl (fun j h => absurd h (by simp)) (by simp) ?_ ?_ (by omega) J1
          (AtomInt.var hm1 hwm) (AtomInt.var hn1 (by rw [nvInt_q]; congr 1; omega)) (AtomInt.num (by simpa using hz1)) _ ?_
        · intro z hz
          have : z = ridx := by simpa using hz
          subst this
          exact ⟨hS z (by simp), Ne.symm htr⟩
        · intro z hz
          rcases List.mem_cons.1 hz with e | e
          · rw [e]; exact hB t List.mem_cons_self
          · have : z = ridx := by simpa using e
            rw [this]; exact hB ridx (by simp)
        · intro π'' σ1'' m1' σ2'' m2' J2 _
          obtain ⟨l', hl', hlen'⟩ := J2.cell
          have hend : k * q + 1 * (l.length - k * q) = l.length := by omega
          rw [hend, forLoopω_end Φ σ1'' m1' C r l.length p body hl' (List.getElem?_eq_none (by omega)), ok_bind]
          exact FinRel.of_qss (par_on hrest (Nat.le_refl _) J2.env J2.heap C)
end Fpy.Xform
