/-
Heap-location parametricity, part 0: the relations.  `π : Nat → Nat` renames heap references of the
left run to those of the right run; `VR π D d v w` relates values (references of `v` are below `d` and
`w` is `v` with its references renamed); `HR π D μ₁ μ₂` relates heaps (related cells at related
references, the right heap may have extra cells, and both heaps allocate in lockstep from now on);
`ER` environments; `Ext μ μ'`: the heap only grew and every old cell kept its length.
-/
import Fpy.Proof.LangFold
namespace Fpy.Xform
open Fpy Fpy.Lang

abbrev RMap := Nat → Nat

mutual
def VR (π : RMap) (D : List Nat) (d : Nat) : Val → Val → Prop
  | .bool a, w => w = .bool a
  | .num a, w => w = .num a
  | .ctx c, w => w = .ctx c
  | .tuple vs, w => match w with | .tuple ws => VRs π D d vs ws | _ => False
  | .list r, w => r < d ∧ r ∉ D ∧ w = .list (π r)
def VRs (π : RMap) (D : List Nat) (d : Nat) : List Val → List Val → Prop
  | [], ws => ws = []
  | v :: vs, ws => match ws with | w :: ws' => VR π D d v w ∧ VRs π D d vs ws' | [] => False
end

def ORel {α β : Type} (Q : α → β → Prop) : Option α → Option β → Prop
  | some a, some b => Q a b
  | none, none => True
  | _, _ => False

theorem VRs.nil (π : RMap) (D : List Nat) (d : Nat) : VRs π D d [] [] := by simp only [VRs]
theorem VRs.cons {π : RMap} {D : List Nat} {d : Nat} {v w : Val} {vs ws : List Val} (h : VR π D d v w) (hs : VRs π D d vs ws) :
    VRs π D d (v :: vs) (w :: ws) := by simp only [VRs]; exact ⟨h, hs⟩

theorem VRs.inv_nil {π : RMap} {D : List Nat} {d : Nat} {ws : List Val} (h : VRs π D d [] ws) : ws = [] := by
  simpa only [VRs] using h
theorem VRs.inv_cons {π : RMap} {D : List Nat} {d : Nat} {v : Val} {vs ws : List Val} (h : VRs π D d (v :: vs) ws) :
    ∃ w ws', ws = w :: ws' ∧ VR π D d v w ∧ VRs π D d vs ws' := by
  cases ws with
  | nil => simp only [VRs] at h
  | cons w ws' => simp only [VRs] at h; exact ⟨w, ws', rfl, h.1, h.2⟩


mutual
/-- a relation survives a larger bound, more dead cells outside the old bound, and any renaming that
agrees below the old bound -/
theorem VR.transfer {π π' : RMap} {D D' : List Nat} {d d' : Nat} (hd : d ≤ d') (hπ : ∀ r, r < d → π r = π' r)
    (hD : ∀ r, r < d → r ∉ D → r ∉ D') :
    ∀ (v w : Val), VR π D d v w → VR π' D' d' v w
  | .bool _, _, h => by simp only [VR] at h ⊢; exact h
  | .num _, _, h => by simp only [VR] at h ⊢; exact h
  | .ctx _, _, h => by simp only [VR] at h ⊢; exact h
  | .tuple vs, w, h => by
    cases w <;> simp only [VR] at h ⊢
    exact VRs.transfer hd hπ hD vs _ h
  | .list r, w, h => by
    simp only [VR] at h ⊢
    exact ⟨Nat.lt_of_lt_of_le h.1 hd, hD r h.1 h.2.1, by rw [← hπ r h.1]; exact h.2.2⟩
theorem VRs.transfer {π π' : RMap} {D D' : List Nat} {d d' : Nat} (hd : d ≤ d') (hπ : ∀ r, r < d → π r = π' r)
    (hD : ∀ r, r < d → r ∉ D → r ∉ D') :
    ∀ (vs ws : List Val), VRs π D d vs ws → VRs π' D' d' vs ws
  | [], ws, h => by simp only [VRs] at h ⊢; exact h
  | v :: vs, ws, h => by
    cases ws with
    | nil => simp only [VRs] at h
    | cons w ws' =>
      simp only [VRs] at h ⊢
      exact ⟨VR.transfer hd hπ hD v w h.1, VRs.transfer hd hπ hD vs ws' h.2⟩
end

theorem VR.mono {π : RMap} {D : List Nat} {d d' : Nat} (hd : d ≤ d') {v w : Val} (h : VR π D d v w) : VR π D d' v w :=
  VR.transfer hd (fun _ _ => rfl) (fun _ _ h => h) v w h
theorem VRs.mono {π : RMap} {D : List Nat} {d d' : Nat} (hd : d ≤ d') {vs ws : List Val} (h : VRs π D d vs ws) : VRs π D d' vs ws :=
  VRs.transfer hd (fun _ _ => rfl) (fun _ _ h => h) vs ws h

/-! ### lists of related values -/

theorem VRs.length_eq {π : RMap} {D : List Nat} {d : Nat} : ∀ {vs ws : List Val}, VRs π D d vs ws → vs.length = ws.length
  | [], ws, h => by rw [VRs.inv_nil h]
  | v :: vs, ws, h => by
    obtain ⟨w, ws', rfl, _, h2⟩ := VRs.inv_cons h
    simp only [List.length_cons, VRs.length_eq h2]

theorem VRs.get {π : RMap} {D : List Nat} {d : Nat} : ∀ {vs ws : List Val}, VRs π D d vs ws → ∀ (k : Nat), ORel (VR π D d) vs[k]? ws[k]?
  | [], ws, h, k => by rw [VRs.inv_nil h]; simp [ORel]
  | v :: vs, ws, h, k => by
    obtain ⟨w, ws', rfl, h1, h2⟩ := VRs.inv_cons h
    cases k with
    | zero => simpa [ORel] using h1
    | succ k => simpa using VRs.get h2 k

theorem VRs.append {π : RMap} {D : List Nat} {d : Nat} : ∀ {a b c e : List Val}, VRs π D d a b → VRs π D d c e → VRs π D d (a ++ c) (b ++ e)
  | [], b, c, e, h, h' => by rw [VRs.inv_nil h]; exact h'
  | v :: vs, b, c, e, h, h' => by
    obtain ⟨w, ws', rfl, h1, h2⟩ := VRs.inv_cons h
    exact VRs.cons h1 (VRs.append h2 h')

theorem VRs.drop {π : RMap} {D : List Nat} {d : Nat} : ∀ {vs ws : List Val} (k : Nat), VRs π D d vs ws → VRs π D d (vs.drop k) (ws.drop k)
  | vs, ws, 0, h => h
  | [], ws, k + 1, h => by rw [VRs.inv_nil h]; exact VRs.nil _ _ _
  | v :: vs, ws, k + 1, h => by
    obtain ⟨w, ws', rfl, _, h2⟩ := VRs.inv_cons h
    exact VRs.drop k h2

theorem VRs.take {π : RMap} {D : List Nat} {d : Nat} : ∀ {vs ws : List Val} (k : Nat), VRs π D d vs ws → VRs π D d (vs.take k) (ws.take k)
  | vs, ws, 0, _ => VRs.nil _ _ _
  | [], ws, k + 1, h => by rw [VRs.inv_nil h]; exact VRs.nil _ _ _
  | v :: vs, ws, k + 1, h => by
    obtain ⟨w, ws', rfl, h1, h2⟩ := VRs.inv_cons h
    exact VRs.cons h1 (VRs.take k h2)

theorem VRs.set {π : RMap} {D : List Nat} {d : Nat} {v w : Val} (hv : VR π D d v w) :
    ∀ {vs ws : List Val} (k : Nat), VRs π D d vs ws → VRs π D d (vs.set k v) (ws.set k w)
  | [], ws, k, h => by rw [VRs.inv_nil h]; exact VRs.nil _ _ _
  | x :: vs, ws, 0, h => by
    obtain ⟨y, ws', rfl, _, h2⟩ := VRs.inv_cons h
    exact VRs.cons hv h2
  | x :: vs, ws, k + 1, h => by
    obtain ⟨y, ws', rfl, h1, h2⟩ := VRs.inv_cons h
    exact VRs.cons h1 (VRs.set hv k h2)

theorem VRs.map {π : RMap} {D : List Nat} {d : Nat} {α : Type} (f g : α → Val) :
    ∀ (l : List α), (∀ x ∈ l, VR π D d (f x) (g x)) → VRs π D d (l.map f) (l.map g)
  | [], _ => VRs.nil _ _ _
  | x :: l, h => VRs.cons (h x List.mem_cons_self) (VRs.map f g l (fun y hy => h y (List.mem_cons_of_mem _ hy)))

theorem VRs.filterMap {π : RMap} {D : List Nat} {d : Nat} {α : Type} (f g : α → Option Val) :
    ∀ (l : List α), (∀ x ∈ l, ORel (VR π D d) (f x) (g x)) → VRs π D d (l.filterMap f) (l.filterMap g)
  | [], _ => VRs.nil _ _ _
  | x :: l, h => by
    have hx := h x List.mem_cons_self
    have hl := VRs.filterMap f g l (fun y hy => h y (List.mem_cons_of_mem _ hy))
    cases hf : f x <;> cases hg : g x <;> rw [hf, hg] at hx <;> simp only [ORel] at hx
    · simp only [List.filterMap_cons, hf, hg]; exact hl
    · simp only [List.filterMap_cons, hf, hg]; exact VRs.cons hx hl

/-- flat values are related to themselves only -/
theorem VR.flat_self {π : RMap} {D : List Nat} {d : Nat} {v : Val} (h : flatV v = true) : VR π D d v v := by
  cases v <;> simp only [flatV, Bool.false_eq_true] at h <;> simp only [VR]

theorem VR.num_inv {π : RMap} {D : List Nat} {d : Nat} {a : NV} {w : Val} (h : VR π D d (.num a) w) : w = .num a := by
  simpa only [VR] using h

/-- conversions of related values agree -/
theorem asNum_rel {π : RMap} {D : List Nat} {d : Nat} {v w : Val} (h : VR π D d v w) : asNum v = asNum w := by
  cases v <;> simp only [VR] at h
  · subst h; rfl
  · subst h; rfl
  · subst h; rfl
  · cases w <;> first | rfl | exact absurd h id
  · rw [h.2.2]; rfl

theorem asBool_rel {π : RMap} {D : List Nat} {d : Nat} {v w : Val} (h : VR π D d v w) : asBool v = asBool w := by
  cases v <;> simp only [VR] at h
  · subst h; rfl
  · subst h; rfl
  · subst h; rfl
  · cases w <;> first | rfl | exact absurd h id
  · rw [h.2.2]; rfl

theorem asIndex_rel {π : RMap} {D : List Nat} {d : Nat} {v w : Val} (h : VR π D d v w) : asIndex v = asIndex w := by
  unfold asIndex; rw [asNum_rel h]

theorem ctxIntArg_rel {π : RMap} {D : List Nat} {d : Nat} {v w : Val} (h : VR π D d v w) : ctxIntArg v = ctxIntArg w := by
  cases v <;> simp only [VR] at h
  · subst h; rfl
  · subst h; rfl
  · subst h; rfl
  · cases w <;> first | rfl | exact absurd h id
  · rw [h.2.2]; rfl

/-- a function of a value that cannot see references maps related lists to the same result -/
theorem mapM_rel {π : RMap} {D : List Nat} {d : Nat} {α : Type} (f : Val → M α) (hf : ∀ v w, VR π D d v w → f v = f w) :
    ∀ {vs ws : List Val}, VRs π D d vs ws → vs.mapM f = ws.mapM f
  | [], ws, h => by rw [VRs.inv_nil h]
  | v :: vs, ws, h => by
    obtain ⟨w, ws', rfl, h1, h2⟩ := VRs.inv_cons h
    simp only [List.mapM_cons, hf v w h1, mapM_rel f hf h2]

theorem foldlM_rel {π : RMap} {D : List Nat} {d : Nat} {α : Type} (f : α → Val → M α) (hf : ∀ a v w, VR π D d v w → f a v = f a w) :
    ∀ {vs ws : List Val} (a : α), VRs π D d vs ws → vs.foldlM f a = ws.foldlM f a
  | [], ws, a, h => by rw [VRs.inv_nil h]
  | v :: vs, ws, a, h => by
    obtain ⟨w, ws', rfl, h1, h2⟩ := VRs.inv_cons h
    simp only [List.foldlM_cons, hf a v w h1]
    congr 1; funext a'
    exact foldlM_rel f hf a' h2


/-! ### heaps, environments, growth -/

structure HR (π : RMap) (D : List Nat) (μ1 μ2 : Heap) : Prop where
  /-- from now on both heaps allocate in lockstep -/
  tail : ∀ j, π (μ1.length + j) = μ2.length + j
  low : ∀ r, r ∉ D → r < μ1.length → π r < μ2.length
  /-- the dead cells of the left heap (garbage: no live value refers to them) exist -/
  dead : ∀ r, r ∈ D → r < μ1.length
  inj : ∀ r r', r ∉ D → r' ∉ D → π r = π r' → r = r'
  cells : ∀ r l1, r ∉ D → μ1[r]? = some l1 → ∃ l2, μ2[π r]? = some l2 ∧ VRs π D μ1.length l1 l2

def ER (π : RMap) (D : List Nat) (d : Nat) (σ1 σ2 : Env) : Prop := ∀ x, ORel (VR π D d) (σ1.get? x) (σ2.get? x)

/-- the heap only grew, and every cell that existed kept its length -/
structure Ext (μ μ' : Heap) : Prop where
  le : μ.length ≤ μ'.length
  len : ∀ (r : Nat) (l : List Val), μ[r]? = some l → ∃ l' : List Val, μ'[r]? = some l' ∧ l'.length = l.length

theorem Ext.refl (μ : Heap) : Ext μ μ := ⟨Nat.le_refl _, fun _ l h => ⟨l, h, rfl⟩⟩
theorem Ext.trans {μ μ' μ'' : Heap} (h1 : Ext μ μ') (h2 : Ext μ' μ'') : Ext μ μ'' := by
  refine ⟨Nat.le_trans h1.le h2.le, fun r l h => ?_⟩
  obtain ⟨l', hl', hlen'⟩ := h1.len r l h
  obtain ⟨l'', hl'', hlen''⟩ := h2.len r l' hl'
  exact ⟨l'', hl'', hlen''.trans hlen'⟩

theorem Ext.alloc (μ : Heap) (l : List Val) : Ext μ (μ ++ [l]) := by
  refine ⟨by simp, fun r l0 h => ⟨l0, ?_, rfl⟩⟩
  have hr : r < μ.length := by
    rcases Nat.lt_or_ge r μ.length with h' | h'
    · exact h'
    · rw [List.getElem?_eq_none h'] at h; cases h
  rw [List.getElem?_append_left hr]; exact h

theorem Ext.set (μ : Heap) (r : Nat) (l l' : List Val) (hl : μ[r]? = some l) (hlen : l'.length = l.length) :
    Ext μ (heapSet μ r l') := by
  unfold heapSet
  refine ⟨by simp, fun r' l0 h => ?_⟩
  by_cases hrr : r = r'
  · subst hrr
    rw [hl] at h; cases h
    refine ⟨l', ?_, hlen⟩
    have hr : r < μ.length := by
      rcases Nat.lt_or_ge r μ.length with h' | h'
      · exact h'
      · rw [List.getElem?_eq_none h'] at hl; cases hl
    rw [List.getElem?_set_self hr]
  · exact ⟨l0, by rw [List.getElem?_set_ne hrr]; exact h, rfl⟩

theorem ER.transfer {π π' : RMap} {D D' : List Nat} {d d' : Nat} (hd : d ≤ d') (hπ : ∀ r, r < d → π r = π' r)
    (hD : ∀ r, r < d → r ∉ D → r ∉ D') {σ1 σ2 : Env}
    (h : ER π D d σ1 σ2) : ER π' D' d' σ1 σ2 := by
  intro x
  have := h x
  cases h1 : σ1.get? x <;> cases h2 : σ2.get? x <;> rw [h1, h2] at this <;> simp only [ORel] at this ⊢
  exact VR.transfer hd hπ hD _ _ this

theorem ER.mono {π : RMap} {D : List Nat} {d d' : Nat} (hd : d ≤ d') {σ1 σ2 : Env} (h : ER π D d σ1 σ2) : ER π D d' σ1 σ2 :=
  ER.transfer hd (fun _ _ => rfl) (fun _ _ h => h) h

theorem ER.nil (π : RMap) (D : List Nat) (d : Nat) : ER π D d [] [] := fun _ => by simp [Env.get?, ORel]

theorem ER.set {π : RMap} {D : List Nat} {d : Nat} {σ1 σ2 : Env} (h : ER π D d σ1 σ2) (x : String) {v w : Val} (hv : VR π D d v w) :
    ER π D d (σ1.set x v) (σ2.set x w) := by
  intro y
  rw [Env.get?_set, Env.get?_set]
  split
  · simpa only [ORel] using hv
  · exact h y

theorem ER.var {π : RMap} {D : List Nat} {d : Nat} {σ1 σ2 : Env} (h : ER π D d σ1 σ2) (x : String) :
    ORel (VR π D d) (σ1.get? x) (σ2.get? x) := h x

theorem heapGet_rel {π : RMap} {D : List Nat} {μ1 μ2 : Heap} (hh : HR π D μ1 μ2) (r : Nat) (hr : r ∉ D) :
    RelM (VRs π D μ1.length) (heapGet μ1 r) (heapGet μ2 (π r)) := by
  unfold heapGet
  cases h1 : μ1[r]? with
  | some l1 =>
    obtain ⟨l2, h2, hl⟩ := hh.cells r l1 hr h1
    rw [h2]; exact hl
  | none =>
    have hr : μ1.length ≤ r := by
      rcases Nat.lt_or_ge r μ1.length with h' | h'
      · rw [List.getElem?_eq_getElem h'] at h1; cases h1
      · exact h'
    have : π r = μ2.length + (r - μ1.length) := by
      have := hh.tail (r - μ1.length)
      rwa [Nat.add_sub_cancel' hr] at this
    rw [List.getElem?_eq_none (by omega)]
    exact rfl

theorem asList_rel {π : RMap} {D : List Nat} {d : Nat} {μ1 μ2 : Heap} (hh : HR π D μ1 μ2) {v w : Val} (h : VR π D d v w) :
    RelM (VRs π D μ1.length) (asList μ1 v) (asList μ2 w) := by
  cases v <;> simp only [VR] at h
  · subst h; exact rfl
  · subst h; exact rfl
  · subst h; exact rfl
  · cases w <;> first | exact rfl | exact absurd h id
  · rw [h.2.2]; exact heapGet_rel hh _ h.2.1

theorem asSeq_rel {π : RMap} {D : List Nat} {d : Nat} {μ1 μ2 : Heap} (hh : HR π D μ1 μ2) (hd : d ≤ μ1.length) {v w : Val}
    (h : VR π D d v w) : RelM (VRs π D μ1.length) (asSeq μ1 v) (asSeq μ2 w) := by
  cases v <;> simp only [VR] at h
  · subst h; exact rfl
  · subst h; exact rfl
  · subst h; exact rfl
  · cases w <;> first | exact absurd h id | exact VRs.mono hd h
  · rw [h.2.2]; exact heapGet_rel hh _ h.2.1

theorem HR.alloc {π : RMap} {D : List Nat} {μ1 μ2 : Heap} (hh : HR π D μ1 μ2) {l1 l2 : List Val} (hl : VRs π D μ1.length l1 l2) :
    HR π D (μ1 ++ [l1]) (μ2 ++ [l2]) ∧ VR π D (μ1 ++ [l1]).length (.list μ1.length) (.list μ2.length) := by
  have h0 : π μ1.length = μ2.length := by simpa using hh.tail 0
  have hnd : μ1.length ∉ D := fun h => Nat.lt_irrefl _ (hh.dead _ h)
  refine ⟨⟨fun j => ?_, fun r hrd hr => ?_, fun r hr => ?_, hh.inj, fun r l hrd hr => ?_⟩, ?_⟩
  · have := hh.tail (j + 1)
    simp only [List.length_append, List.length_singleton]
    rw [show μ1.length + 1 + j = μ1.length + (j + 1) by omega, this]; omega
  · simp only [List.length_append, List.length_singleton] at hr ⊢
    rcases Nat.lt_or_ge r μ1.length with h' | h'
    · have := hh.low r hrd h'; omega
    · have : r = μ1.length := by omega
      rw [this, h0]; omega
  · simp only [List.length_append, List.length_singleton]
    have := hh.dead r hr; omega
  · rcases Nat.lt_or_ge r μ1.length with h' | h'
    · rw [List.getElem?_append_left h'] at hr
      obtain ⟨l2', h2, hl2⟩ := hh.cells r l hrd hr
      refine ⟨l2', ?_, VRs.mono (by simp) hl2⟩
      rw [List.getElem?_append_left (hh.low r hrd h')]; exact h2
    · by_cases hr' : r = μ1.length
      · subst hr'
        rw [List.getElem?_append_right (Nat.le_refl _)] at hr
        simp only [Nat.sub_self, List.getElem?_cons_zero, Option.some.injEq] at hr
        subst hr
        refine ⟨l2, ?_, VRs.mono (by simp) hl⟩
        rw [h0, List.getElem?_append_right (Nat.le_refl _)]; simp
      · rw [List.getElem?_eq_none (by simp; omega)] at hr; cases hr
  · simp only [VR, List.length_append, List.length_singleton]
    exact ⟨by omega, hnd, by rw [h0]⟩

/-- an extra cell on the right only -/
theorem HR.alloc_right {π : RMap} {D : List Nat} {μ1 μ2 : Heap} (hh : HR π D μ1 μ2) (l2 : List Val) :
    HR (fun r => if r < μ1.length then π r else π r + 1) D μ1 (μ2 ++ [l2]) := by
  refine ⟨fun j => ?_, fun r hrd hr => ?_, hh.dead, fun r r' hrd hrd' h => ?_, fun r l hrd hr => ?_⟩
  · simp only [List.length_append, List.length_singleton]
    rw [if_neg (by omega), hh.tail j]; omega
  · simp only [List.length_append, List.length_singleton]
    rw [if_pos hr]; have := hh.low r hrd hr; omega
  · by_cases h1 : r < μ1.length <;> by_cases h2 : r' < μ1.length
    · rw [if_pos h1, if_pos h2] at h; exact hh.inj r r' hrd hrd' h
    · rw [if_pos h1, if_neg h2] at h
      have := hh.low r hrd h1
      have h3 := hh.tail (r' - μ1.length)
      rw [Nat.add_sub_cancel' (by omega)] at h3; omega
    · rw [if_neg h1, if_pos h2] at h
      have := hh.low r' hrd' h2
      have h3 := hh.tail (r - μ1.length)
      rw [Nat.add_sub_cancel' (by omega)] at h3; omega
    · rw [if_neg h1, if_neg h2] at h
      exact hh.inj r r' hrd hrd' (by omega)
  · have hr' : r < μ1.length := by
      rcases Nat.lt_or_ge r μ1.length with h' | h'
      · exact h'
      · rw [List.getElem?_eq_none h'] at hr; cases hr
    obtain ⟨l2', h2, hl2⟩ := hh.cells r l hrd hr
    refine ⟨l2', ?_, VRs.transfer (Nat.le_refl _) (fun r hr => by rw [if_pos hr]) (fun _ _ h => h) _ _ hl2⟩
    rw [if_pos hr', List.getElem?_append_left (hh.low r hrd hr')]; exact h2

/-- an extra cell on the left only: it is garbage -/
theorem HR.alloc_left {π : RMap} {D : List Nat} {μ1 μ2 : Heap} (hh : HR π D μ1 μ2) (l1 : List Val) :
    HR (fun r => if r < μ1.length then π r else π (r - 1)) (μ1.length :: D) (μ1 ++ [l1]) μ2 := by
  have hdl : ∀ r, r ∉ μ1.length :: D → r ≠ μ1.length ∧ r ∉ D := fun r h =>
    ⟨fun e => h (by rw [e]; exact List.mem_cons_self), fun e => h (List.mem_cons_of_mem _ e)⟩
  have hge : ∀ r, μ1.length ≤ r → r ∉ D := fun r h e => by have := hh.dead r e; omega
  refine ⟨fun j => ?_, fun r hrd hr => ?_, fun r hr => ?_, fun r r' hrd hrd' h => ?_, fun r l hrd hr => ?_⟩
  · simp only [List.length_append, List.length_singleton]
    rw [if_neg (by omega), show μ1.length + 1 + j - 1 = μ1.length + j by omega, hh.tail j]
  · simp only [List.length_append, List.length_singleton] at hr
    have := hdl r hrd
    have h1 : r < μ1.length := by omega
    rw [if_pos h1]; exact hh.low r this.2 h1
  · simp only [List.length_append, List.length_singleton]
    rcases List.mem_cons.1 hr with h | h
    · omega
    · have := hh.dead r h; omega
  · have a1 := hdl r hrd
    have a2 := hdl r' hrd'
    by_cases h1 : r < μ1.length <;> by_cases h2 : r' < μ1.length
    · rw [if_pos h1, if_pos h2] at h; exact hh.inj r r' a1.2 a2.2 h
    · rw [if_pos h1, if_neg h2] at h
      have := hh.inj r (r' - 1) a1.2 (hge _ (by omega)) h; omega
    · rw [if_neg h1, if_pos h2] at h
      have := hh.inj (r - 1) r' (hge _ (by omega)) a2.2 h; omega
    · rw [if_neg h1, if_neg h2] at h
      have := hh.inj (r - 1) (r' - 1) (hge _ (by omega)) (hge _ (by omega)) h; omega
  · have a1 := hdl r hrd
    have hr' : r < μ1.length := by
      rcases Nat.lt_or_ge r (μ1.length + 1) with h' | h'
      · omega
      · rw [List.getElem?_eq_none (by simpa using h')] at hr; cases hr
    rw [List.getElem?_append_left hr'] at hr
    obtain ⟨l2', h2, hl2⟩ := hh.cells r l a1.2 hr
    refine ⟨l2', by rw [if_pos hr']; exact h2, ?_⟩
    refine VRs.transfer (by simp) (fun r hr => by rw [if_pos hr]) (fun r hr hrd e => ?_) _ _ hl2
    rcases List.mem_cons.1 e with e | e
    · omega
    · exact hrd e

theorem HR.set {π : RMap} {D : List Nat} {μ1 μ2 : Heap} (hh : HR π D μ1 μ2) {r : Nat} (hrd : r ∉ D) {l1 l2 : List Val}
    (hl : VRs π D μ1.length l1 l2) : HR π D (heapSet μ1 r l1) (heapSet μ2 (π r) l2) := by
  unfold heapSet
  refine ⟨fun j => ?_, fun r' hrd' hr => ?_, fun r' hr => ?_, hh.inj, fun r' l hrd' hr => ?_⟩
  · simpa using hh.tail j
  · simpa using hh.low r' hrd' (by simpa using hr)
  · simpa using hh.dead r' hr
  · simp only [List.length_set]
    by_cases hrr : r = r'
    · subst hrr
      have hr' : r < μ1.length := by
        rcases Nat.lt_or_ge r μ1.length with h' | h'
        · exact h'
        · rw [List.getElem?_eq_none (by simpa using h')] at hr; cases hr
      rw [List.getElem?_set_self hr'] at hr
      cases hr
      exact ⟨l2, by rw [List.getElem?_set_self (hh.low r hrd hr')], hl⟩
    · rw [List.getElem?_set_ne hrr] at hr
      obtain ⟨l2', h2, hl2⟩ := hh.cells r' l hrd' hr
      refine ⟨l2', ?_, hl2⟩
      rw [List.getElem?_set_ne (fun h => hrr (hh.inj _ _ hrd hrd' h))]; exact h2

/-- how a pair of related heaps evolved: both only grew (cell lengths kept), and the cells of the
right heap that no live left reference maps to — the temporaries of the right program — are untouched -/
structure ExtP (π : RMap) (D : List Nat) (μ1 μ2 m1 m2 : Heap) : Prop where
  e1 : Ext μ1 m1
  e2 : Ext μ2 m2
  tail : ∀ j, π (μ1.length + j) = μ2.length + j
  keep : ∀ s, s < μ2.length → (∀ r, r ∉ D → r < μ1.length → π r ≠ s) → m2[s]? = μ2[s]?

theorem ExtP.refl {π : RMap} {D : List Nat} {μ1 μ2 : Heap} (hh : HR π D μ1 μ2) : ExtP π D μ1 μ2 μ1 μ2 :=
  ⟨Ext.refl _, Ext.refl _, hh.tail, fun _ _ _ => rfl⟩

theorem ExtP.trans {π : RMap} {D : List Nat} {μ1 μ2 m1 m2 m1' m2' : Heap} (h : ExtP π D μ1 μ2 m1 m2)
    (h' : ExtP π D m1 m2 m1' m2') : ExtP π D μ1 μ2 m1' m2' := by
  refine ⟨h.e1.trans h'.e1, h.e2.trans h'.e2, h.tail, fun s hs hne => ?_⟩
  rw [← h.keep s hs hne]
  refine h'.keep s (Nat.lt_of_lt_of_le hs h.e2.le) (fun r hrd hr => ?_)
  rcases Nat.lt_or_ge r μ1.length with h1 | h1
  · exact hne r hrd h1
  · have := h.tail (r - μ1.length)
    rw [Nat.add_sub_cancel' h1] at this
    omega

theorem ExtP.alloc {π : RMap} {D : List Nat} {m1 m2 : Heap} (hh : HR π D m1 m2) (l1 l2 : List Val) :
    ExtP π D m1 m2 (m1 ++ [l1]) (m2 ++ [l2]) :=
  ⟨Ext.alloc _ _, Ext.alloc _ _, hh.tail, fun s hs _ => List.getElem?_append_left hs⟩

theorem ExtP.set {π : RMap} {D : List Nat} {m1 m2 : Heap} (hh : HR π D m1 m2) {r : Nat} (hrd : r ∉ D)
    {l1 l2 l1' l2' : List Val} (h1 : m1[r]? = some l1) (h2 : m2[π r]? = some l2)
    (hl1 : l1'.length = l1.length) (hl2 : l2'.length = l2.length) :
    ExtP π D m1 m2 (heapSet m1 r l1') (heapSet m2 (π r) l2') := by
  refine ⟨Ext.set _ _ _ _ h1 hl1, Ext.set _ _ _ _ h2 hl2, hh.tail, fun s _ hne => ?_⟩
  have hr : r < m1.length := by
    rcases Nat.lt_or_ge r m1.length with h' | h'
    · exact h'
    · rw [List.getElem?_eq_none h'] at h1; cases h1
  unfold heapSet
  exact List.getElem?_set_ne (hne r hrd hr)

/-- well-formed state: no dangling reference (every reference in a cell or a variable is allocated) -/
def WFH (μ : Heap) : Prop := HR (fun r => r) [] μ μ
def WFE (σ : Env) (μ : Heap) : Prop := ER (fun r => r) [] μ.length σ σ

end Fpy.Xform
