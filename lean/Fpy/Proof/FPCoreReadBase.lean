/-
C12 (round 2) — the reader: running statement lists in the core language, the relation between the FPCore
environment and the environment of the re-read function, and the operands (no statements needed).
-/
import Fpy.Model.FPCoreRead
import Fpy.Proof.FPCoreLLoop
import Fpy.Proof.LangMeta
set_option linter.unusedSimpArgs false
set_option linter.unusedVariables false
set_option linter.unusedSectionVars false
namespace Fpy.C12
open Fpy Fpy.Lang

section
variable (Φ : Funs)

/-- the statements run to completion (no `return`) -/
def Runs (σ : Env) (μ : Heap) (C : Ctx) (ss : List Stmt) (σ' : Env) (μ' : Heap) : Prop :=
  ∃ F, evalB Φ F σ μ C ss = .ok (.normal σ', μ')

/-- the expression evaluates to `v` and leaves the heap alone -/
def Gives (σ : Env) (μ : Heap) (C : Ctx) (r : Expr) (v : Val) : Prop :=
  ∃ F, evalE Φ F σ μ C r = .ok (v, μ)

theorem runs_nil (σ : Env) (μ : Heap) (C : Ctx) : Runs Φ σ μ C [] σ μ := ⟨1, by rw [evalB_nil]⟩

theorem runs_cons {σ σ1 σ2 : Env} {μ μ1 μ2 : Heap} {C : Ctx} {s : Stmt} {ss : List Stmt} {F : Nat}
    (h1 : evalS Φ F σ μ C s = .ok (.normal σ1, μ1)) (h2 : Runs Φ σ1 μ1 C ss σ2 μ2) : Runs Φ σ μ C (s :: ss) σ2 μ2 := by
  obtain ⟨G, h2⟩ := h2
  refine ⟨max F G + 1, ?_⟩
  rw [evalB_cons, Fpy.Xform.evalS_fuel_mono (Nat.le_max_left F G) h1 (by simp)]
  simp only [bind, Except.bind]
  exact Fpy.Xform.evalB_fuel_mono (Nat.le_max_right F G) h2 (by simp)

/-- one statement -/
theorem runs_one {σ σ' : Env} {μ μ' : Heap} {C : Ctx} {s : Stmt} {F : Nat}
    (h : evalS Φ F σ μ C s = .ok (.normal σ', μ')) : Runs Φ σ μ C [s] σ' μ' :=
  runs_cons Φ h (runs_nil Φ σ' μ' C)

theorem runs_append {C : Ctx} : ∀ (ss1 : List Stmt) {ss2 : List Stmt} {σ σ1 σ2 : Env} {μ μ1 μ2 : Heap},
    Runs Φ σ μ C ss1 σ1 μ1 → Runs Φ σ1 μ1 C ss2 σ2 μ2 → Runs Φ σ μ C (ss1 ++ ss2) σ2 μ2 := by
  intro ss1
  induction ss1 with
  | nil =>
    intro ss2 σ σ1 σ2 μ μ1 μ2 h1 h2
    obtain ⟨F, h1⟩ := h1
    cases F with
    | zero => simp [evalB] at h1
    | succ F =>
      rw [evalB_nil] at h1
      simp only [Except.ok.injEq, Prod.mk.injEq, Outcome.normal.injEq] at h1
      obtain ⟨rfl, rfl⟩ := h1
      exact h2
  | cons s ss ih =>
    intro ss2 σ σ1 σ2 μ μ1 μ2 h1 h2
    obtain ⟨F, h1⟩ := h1
    cases F with
    | zero => simp [evalB] at h1
    | succ F =>
      rw [evalB_cons] at h1
      cases hs : evalS Φ F σ μ C s with
      | error e => rw [hs] at h1; cases h1
      | ok r =>
        obtain ⟨o, μa⟩ := r
        rw [hs] at h1
        simp only [bind, Except.bind] at h1
        cases o with
        | ret v => simp [pure, Except.pure] at h1
        | normal σa =>
          simp only at h1
          exact runs_cons Φ hs (ih ⟨F, h1⟩ h2)

/-- an assignment to a variable -/
theorem runs_assign {σ : Env} {μ : Heap} {C : Ctx} {x : String} {r : Expr} {v : Val} (h : Gives Φ σ μ C r v) :
    Runs Φ σ μ C [.assign (.var x) r] (σ.set x v) μ := by
  obtain ⟨F, h⟩ := h
  refine runs_one Φ (F := F + 2) ?_
  rw [evalS_assign, Fpy.Xform.evalE_fuel_mono (Nat.le_succ F) h (by simp)]
  simp only [bind, Except.bind]
  rw [bindPat_var]
  rfl

end

/-! ### names -/

section
variable (nm : Nat → String)

/-- the names below `k` hold the same values -/
def Ext (k : Nat) (σ σ' : Env) : Prop := ∀ j, j < k → σ'.get? (nm j) = σ.get? (nm j)

theorem Ext.refl (k : Nat) (σ : Env) : Ext nm k σ σ := fun _ _ => rfl
theorem Ext.trans {k : Nat} {a b c : Env} (h1 : Ext nm k a b) (h2 : Ext nm k b c) : Ext nm k a c :=
  fun j hj => by rw [h2 j hj, h1 j hj]
theorem Ext.mono {k k' : Nat} {a b : Env} (h : Ext nm k' a b) (hk : k ≤ k') : Ext nm k a b :=
  fun j hj => h j (by omega)

/-- every FPCore variable in scope is held by a name below `k`, with the same value; different variables by different names -/
def RInv (k : Nat) (m : RMap) (ρ σ : Env) : Prop :=
  (∀ x y, m.get? x = some y → (∃ j, j < k ∧ y = nm j) ∧ ρ.get? x = σ.get? y) ∧
  (∀ x x' y, m.get? x = some y → m.get? x' = some y → x = x')

theorem RInv.mono {k k' : Nat} {m : RMap} {ρ σ σ' : Env} (h : RInv nm k m ρ σ) (hk : k ≤ k') (he : Ext nm k σ σ') :
    RInv nm k' m ρ σ' := by
  refine ⟨fun x y hxy => ?_, h.2⟩
  obtain ⟨⟨j, hj, rfl⟩, hv⟩ := h.1 x y hxy
  exact ⟨⟨j, by omega, rfl⟩, by rw [he j hj]; exact hv⟩

theorem rmap_get_cons (x t : String) (m : RMap) (x' : String) :
    RMap.get? ((x, t) :: m) x' = if x = x' then some t else m.get? x' := by
  simp only [RMap.get?]
  by_cases h : x = x'
  · simp [h]
  · have : (x == x') = false := by simpa using h
    simp [this, h]

variable (hnm : ∀ i j, nm i = nm j → i = j)
include hnm

theorem ext_set {k i : Nat} (σ : Env) (v : Val) (hi : k ≤ i) : Ext nm k σ (σ.set (nm i) v) := by
  intro j hj
  exact get?_set_ne _ _ _ _ (fun e => by have := hnm _ _ e; omega)

/-- a new binding `x ↦ nm k1` with value `v` -/
theorem rinv_bind {k k1 : Nat} {m : RMap} {ρ σ : Env} (h : RInv nm k m ρ σ) (hk : k ≤ k1) (x : String) (v : Val) :
    RInv nm (k1 + 1) ((x, nm k1) :: m) (ρ.set x v) (σ.set (nm k1) v) := by
  refine ⟨fun x' y hxy => ?_, fun x1 x2 y h1 h2 => ?_⟩
  · rw [rmap_get_cons] at hxy
    by_cases hx : x = x'
    · simp only [hx, if_true, Option.some.injEq] at hxy
      subst hxy; subst hx
      exact ⟨⟨k1, by omega, rfl⟩, by rw [get?_set_self, get?_set_self]⟩
    · simp only [hx, if_false] at hxy
      obtain ⟨⟨j, hj, rfl⟩, hv⟩ := h.1 x' y hxy
      refine ⟨⟨j, by omega, rfl⟩, ?_⟩
      rw [get?_set_ne _ _ _ _ (fun e => hx e.symm), get?_set_ne _ _ _ _ (fun e => by have := hnm _ _ e; omega)]
      exact hv
  · rw [rmap_get_cons] at h1 h2
    by_cases hx1 : x = x1 <;> by_cases hx2 : x = x2
    · rw [← hx1, ← hx2]
    · simp only [hx1, if_true, Option.some.injEq] at h1
      simp only [hx2, if_false] at h2
      obtain ⟨⟨j, hj, e⟩, _⟩ := h.1 x2 y h2
      rw [← h1] at e
      have := hnm _ _ e; omega
    · simp only [hx2, if_true, Option.some.injEq] at h2
      simp only [hx1, if_false] at h1
      obtain ⟨⟨j, hj, e⟩, _⟩ := h.1 x1 y h1
      rw [← h2] at e
      have := hnm _ _ e; omega
    · simp only [hx1, hx2, if_false] at h1 h2
      exact h.2 x1 x2 y h1 h2

end
end Fpy.C12
