/-
C12 — helper lemmas for the soundness of the compiler model: environments, convergence of the
fuel-indexed FPCore evaluator, expressions.
-/
import Fpy.Model.FPCoreCompile
namespace Fpy.C12
open Fpy Fpy.Lang

/-! ### environments -/

theorem get?_set_self (σ : Env) (x : String) (v : Val) : (σ.set x v).get? x = some v := by
  simp [Env.get?, Env.set]

theorem find?_filter_ne (σ : Env) (x y : String) (h : y ≠ x) :
    (σ.filter (·.1 != x)).find? (·.1 == y) = σ.find? (·.1 == y) := by
  induction σ with
  | nil => rfl
  | cons a rest ih =>
    by_cases hax : a.1 = x
    · have h1 : (a.1 != x) = false := by simp [hax]
      have h2 : (a.1 == y) = false := by
        rw [hax]; simp only [beq_eq_false_iff_ne, ne_eq]; exact fun h' => h h'.symm
      rw [List.filter_cons, h1]
      simp only [Bool.false_eq_true, if_false]
      rw [List.find?_cons, h2]; exact ih
    · have h1 : (a.1 != x) = true := by simp [hax]
      rw [List.filter_cons, h1]
      simp only [if_true]
      rw [List.find?_cons, List.find?_cons, ih]

theorem get?_set_ne (σ : Env) (x y : String) (v : Val) (h : y ≠ x) : (σ.set x v).get? y = σ.get? y := by
  have hxy : (x == y) = false := by simp only [beq_eq_false_iff_ne, ne_eq]; exact fun h' => h h'.symm
  simp [Env.get?, Env.set, hxy, find?_filter_ne σ x y h]

theorem get?_set (σ : Env) (x y : String) (v : Val) :
    (σ.set x v).get? y = if y = x then some v else σ.get? y := by
  by_cases h : y = x
  · subst h; simp [get?_set_self]
  · simp [h, get?_set_ne σ x y v h]

/-- the two environments agree on the (source) names of `S` -/
def Agree (S : List String) (ρ σ : Env) : Prop := ∀ x, x ∈ S → isTmp x = false → ρ.get? x = σ.get? x

theorem Agree.mono {S T : List String} {ρ σ : Env} (h : Agree T ρ σ) (hs : ∀ x, x ∈ S → x ∈ T) : Agree S ρ σ :=
  fun x hx ht => h x (hs x hx) ht

theorem Agree.set {S : List String} {ρ σ : Env} (x : String) (v : Val)
    (h : ∀ y, y ∈ S → y ≠ x → isTmp y = false → ρ.get? y = σ.get? y) : Agree S (ρ.set x v) (σ.set x v) := by
  intro y hy ht
  rw [get?_set, get?_set]
  split
  · rfl
  · next hne => exact h y hy hne ht

/-! ### one-step unfoldings of the evaluator -/

theorem eval_var (n : Nat) (ρ : Env) (P : Props) (x : String) :
    eval (n + 1) ρ P (.var x) = (match ρ.get? x with | some v => .ok v | none => .error .unbound) := by
  simp only [eval]; cases ρ.get? x <;> rfl

theorem eval_ann (n : Nat) (ρ : Env) (P p : Props) (e : FExpr) :
    eval (n + 1) ρ P (.ann p e) = eval n ρ (P.update p) e := by
  simp only [eval] <;> rfl

theorem eval_ite (n : Nat) (ρ : Env) (P : Props) (c t f : FExpr) :
    eval (n + 1) ρ P (.ite c t f) =
      (do let v ← eval n ρ P c
          if ← asBool v then eval n ρ P t else eval n ρ P f) := by
  simp only [eval] <;> rfl

theorem eval_let (n : Nat) (ρ : Env) (P : Props) (star : Bool) (binds : List (String × FExpr)) (body : FExpr) :
    eval (n + 1) ρ P (.let_ star binds body) =
      (do let ρ' ← evalBinds n star ρ ρ P binds
          eval n ρ' P body) := by
  simp only [eval] <;> rfl

theorem eval_array (n : Nat) (ρ : Env) (P : Props) (es : List FExpr) :
    eval (n + 1) ρ P (.array es) = (do let vs ← evalList n ρ P es; pure (.tuple vs)) := by
  simp only [eval]; rfl

theorem eval_ref (n : Nat) (ρ : Env) (P : Props) (a : FExpr) (idx : List FExpr) :
    eval (n + 1) ρ P (.ref a idx) =
      (do let av ← eval n ρ P a
          let ivs ← evalList n ρ P idx
          let ks ← ivs.mapM asIndex
          refIdx av ks) := by
  simp only [eval] <;> rfl

theorem evalBinds_nil (n : Nat) (star : Bool) (ρ₀ acc : Env) (P : Props) :
    evalBinds (n + 1) star ρ₀ acc P [] = .ok acc := by
  simp only [evalBinds] <;> rfl

theorem evalBinds_cons (n : Nat) (star : Bool) (ρ₀ acc : Env) (P : Props) (x : String) (e : FExpr)
    (rest : List (String × FExpr)) :
    evalBinds (n + 1) star ρ₀ acc P ((x, e) :: rest) =
      (do let v ← eval n (if star then acc else ρ₀) P e
          evalBinds n star ρ₀ (acc.set x v) P rest) := by
  simp only [evalBinds] <;> rfl

theorem evalList_nil (n : Nat) (ρ : Env) (P : Props) : evalList (n + 1) ρ P [] = .ok [] := by
  simp only [evalList] <;> rfl

theorem evalList_cons (n : Nat) (ρ : Env) (P : Props) (e : FExpr) (es : List FExpr) :
    evalList (n + 1) ρ P (e :: es) =
      (do let v ← eval n ρ P e
          let vs ← evalList n ρ P es
          pure (v :: vs)) := by
  simp only [evalList]; rfl

/-! ### convergence -/

/-- the expression evaluates to `v` for every sufficiently large amount of fuel -/
def Conv (ρ : Env) (P : Props) (e : FExpr) (v : Val) : Prop := ∃ N, ∀ n, N ≤ n → eval n ρ P e = .ok v
def ConvL (ρ : Env) (P : Props) (es : List FExpr) (vs : List Val) : Prop :=
  ∃ N, ∀ n, N ≤ n → evalList n ρ P es = .ok vs

theorem Conv.det {ρ P e v w} (h1 : Conv ρ P e v) (h2 : Conv ρ P e w) : v = w := by
  obtain ⟨N1, h1⟩ := h1; obtain ⟨N2, h2⟩ := h2
  have a := h1 (max N1 N2) (Nat.le_max_left _ _)
  have b := h2 (max N1 N2) (Nat.le_max_right _ _)
  rw [a] at b; cases b; rfl

theorem conv_var {ρ : Env} {P : Props} {x : String} {v : Val} (h : ρ.get? x = some v) : Conv ρ P (.var x) v :=
  ⟨1, fun n hn => by
    obtain ⟨m, rfl⟩ : ∃ m, n = m + 1 := ⟨n - 1, by omega⟩
    rw [eval_var, h]⟩

theorem convL_nil {ρ : Env} {P : Props} : ConvL ρ P [] [] :=
  ⟨1, fun n hn => by
    obtain ⟨m, rfl⟩ : ∃ m, n = m + 1 := ⟨n - 1, by omega⟩
    rw [evalList_nil]⟩

theorem convL_cons {ρ : Env} {P : Props} {e : FExpr} {es : List FExpr} {v : Val} {vs : List Val}
    (h1 : Conv ρ P e v) (h2 : ConvL ρ P es vs) : ConvL ρ P (e :: es) (v :: vs) := by
  obtain ⟨N1, h1⟩ := h1; obtain ⟨N2, h2⟩ := h2
  refine ⟨max N1 N2 + 1, fun n hn => ?_⟩
  obtain ⟨m, rfl⟩ : ∃ m, n = m + 1 := ⟨n - 1, by omega⟩
  have a := h1 m (by omega); have b := h2 m (by omega)
  rw [evalList_cons, a, b]; rfl

theorem conv_num {ρ : Env} {P : Props} {C : Ctx} {v r : NV} (hP : P.toCtx = .ok C)
    (hr : opEval C .round [cvtReal v] = .ok r) : Conv ρ P (.num v) (.num r) :=
  ⟨1, fun n hn => by
    obtain ⟨m, rfl⟩ : ∃ m, n = m + 1 := ⟨n - 1, by omega⟩
    simp only [eval, hP, hr, bind, Except.bind]⟩

theorem conv_op {ρ : Env} {P : Props} {C : Ctx} {o : Op} {args : List FExpr} {vs : List Val} {ns : List NV} {r : NV}
    (hP : P.toCtx = .ok C) (ha : ConvL ρ P args vs) (hn : vs.mapM asNum = .ok ns)
    (hr : opEval C o (ns.map cvtReal) = .ok r) : Conv ρ P (.op o args) (.num r) := by
  obtain ⟨N, ha⟩ := ha
  refine ⟨N + 1, fun n hn' => ?_⟩
  obtain ⟨m, rfl⟩ : ∃ m, n = m + 1 := ⟨n - 1, by omega⟩
  have a := ha m (by omega)
  simp only [eval, a, hn, hP, hr, bind, Except.bind]

theorem conv_ann {ρ : Env} {P p : Props} {e : FExpr} {v : Val} (h : Conv ρ (P.update p) e v) : Conv ρ P (.ann p e) v := by
  obtain ⟨N, h⟩ := h
  refine ⟨N + 1, fun n hn => ?_⟩
  obtain ⟨m, rfl⟩ : ∃ m, n = m + 1 := ⟨n - 1, by omega⟩
  rw [eval_ann]; exact h m (by omega)

theorem conv_array {ρ : Env} {P : Props} {es : List FExpr} {vs : List Val} (h : ConvL ρ P es vs) :
    Conv ρ P (.array es) (.tuple vs) := by
  obtain ⟨N, h⟩ := h
  refine ⟨N + 1, fun n hn => ?_⟩
  obtain ⟨m, rfl⟩ : ∃ m, n = m + 1 := ⟨n - 1, by omega⟩
  rw [eval_array, h m (by omega)]; rfl

theorem conv_ite {ρ : Env} {P : Props} {c t f : FExpr} {b : Bool} {v : Val}
    (hc : Conv ρ P c (.bool b)) (hb : Conv ρ P (if b then t else f) v) : Conv ρ P (.ite c t f) v := by
  obtain ⟨N1, hc⟩ := hc; obtain ⟨N2, hb⟩ := hb
  refine ⟨max N1 N2 + 1, fun n hn => ?_⟩
  obtain ⟨m, rfl⟩ : ∃ m, n = m + 1 := ⟨n - 1, by omega⟩
  have a := hc m (by omega); have b' := hb m (by omega)
  rw [eval_ite, a]
  cases b <;> simpa [asBool, bind, Except.bind] using b'

/-- `(let ([x e]) K)` -/
theorem conv_let1 {ρ : Env} {P : Props} {x : String} {e K : FExpr} {v w : Val}
    (he : Conv ρ P e v) (hK : Conv (ρ.set x v) P K w) : Conv ρ P (.let_ false [(x, e)] K) w := by
  obtain ⟨N1, he⟩ := he; obtain ⟨N2, hK⟩ := hK
  refine ⟨max N1 N2 + 3, fun n hn => ?_⟩
  obtain ⟨m, rfl⟩ : ∃ m, n = m + 3 := ⟨n - 3, by omega⟩
  have a := he (m + 1) (by omega); have b := hK (m + 2) (by omega)
  rw [eval_let, evalBinds_cons]
  simp only [Bool.false_eq_true, if_false]
  rw [a]
  simp only [bind, Except.bind]
  rw [evalBinds_nil]
  exact b

/-! ### expressions -/

theorem eval_cmp_cons (n : Nat) (ρ : Env) (P : Props) (o : CmpOp) (a : FExpr) (rest : List FExpr) :
    eval (n + 1) ρ P (.cmp o (a :: rest)) =
      (do let av ← eval n ρ P a
          evalCmp n ρ P o (← asNum av) rest) := by
  simp only [eval] <;> rfl

theorem evalCmp_nil (n : Nat) (ρ : Env) (P : Props) (o : CmpOp) (x : NV) :
    evalCmp (n + 1) ρ P o x [] = .ok (.bool true) := by
  simp only [evalCmp] <;> rfl

theorem evalCmp_cons (n : Nat) (ρ : Env) (P : Props) (o : CmpOp) (x : NV) (b : FExpr) (rest : List FExpr) :
    evalCmp (n + 1) ρ P o x (b :: rest) =
      (do let bv ← eval n ρ P b
          let y ← asNum bv
          if cmpNums o x y then evalCmp n ρ P o y rest else pure (.bool false)) := by
  simp only [evalCmp] <;> rfl

theorem conv_cmp {ρ : Env} {P : Props} {o : CmpOp} {a b : FExpr} {x y : NV}
    (ha : Conv ρ P a (.num x)) (hb : Conv ρ P b (.num y)) : Conv ρ P (.cmp o [a, b]) (.bool (cmpNums o x y)) := by
  obtain ⟨N1, ha⟩ := ha; obtain ⟨N2, hb⟩ := hb
  refine ⟨max N1 N2 + 3, fun n hn => ?_⟩
  obtain ⟨m, rfl⟩ : ∃ m, n = m + 3 := ⟨n - 3, by omega⟩
  rw [eval_cmp_cons, ha (m + 2) (by omega)]
  simp only [bind, Except.bind, asNum]
  rw [evalCmp_cons, hb (m + 1) (by omega)]
  simp only [bind, Except.bind, asNum]
  cases cmpNums o x y
  · rfl
  · simp only [if_true]; rw [evalCmp_nil]

theorem cmpNums_order (o : COp) (x y : NV) : cmpNums o.toCmp x y = cmpHolds o.toCmp (Lang.nvCompare x y) := by
  cases o <;> rfl

end Fpy.C12
