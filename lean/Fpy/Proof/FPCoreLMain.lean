/-
C12 (round 2) — the main induction for the subset with loops (part 1): what is proved for a
statement / a block, blocks from statements, assignment, `return`, `with`.
-/
import Fpy.Proof.FPCoreLCarry
import Fpy.Proof.FPCoreMain
set_option linter.unusedSimpArgs false
set_option linter.unusedVariables false
namespace Fpy.C12
open Fpy Fpy.Lang

/-- the heap only grows (lists are allocated by `range`, never changed in this subset) -/
def HeapExt (μ μ' : Heap) : Prop := ∀ (r : Nat) (l : List Val), μ[r]? = some l → μ'[r]? = some l

theorem HeapExt.refl (μ : Heap) : HeapExt μ μ := fun _ _ h => h
theorem HeapExt.trans {a b c : Heap} (h1 : HeapExt a b) (h2 : HeapExt b c) : HeapExt a c := fun r l h => h2 r l (h1 r l h)

/-- the compiled continuation `k` returns `v` in every environment that agrees with `σ'` on its free variables -/
def KHyp (P : Props) (k : FExpr) (σ' : Env) (v : Val) : Prop := ∀ ρ', AgreeL (fvF k) ρ' σ' → Conv ρ' P k v

/-- relation between the outcome of the source block and the compiled expression `E` -/
def PostL (ρ : Env) (P : Props) (E : FExpr) (K : Option FExpr) (G' asg : List String) (σ : Env) : Outcome → Prop
  | .ret v => K = none ∧ Conv ρ P E v
  | .normal σ' =>
      Bound G' σ' ∧ (∀ x, x ∉ asg → σ'.get? x = σ.get? x) ∧
      ∃ k, K = some k ∧ ∀ v, KHyp P k σ' v → Conv ρ P E v

def LStmtOKAt (Φ : Funs) (cfg : Cfg) (fuel : Nat) (s : LStmt) : Prop :=
  ∀ (σ : Env) (μ : Heap) (C : Ctx) (o : Outcome) (μ' : Heap),
    evalS Φ fuel σ μ C s.toLang = .ok (o, μ') →
    ∀ (G : List String) (K : Option FExpr) (E : FExpr) (ρ : Env) (P : Props),
      (∀ y, y ∈ G → isTmpL y = false) → s.ws G → Bound G σ → compileLS cfg G s K = some E →
      (∀ k, K = some k → FvIn (s.gamma G) k) → P.toCtx = .ok C → s.lits G P → AgreeL (fvF E) ρ σ →
      HeapExt μ μ' ∧ PostL ρ P E K (s.gamma G) s.asg σ o

def LStmtOK (Φ : Funs) (cfg : Cfg) (fuel : Nat) : Prop := ∀ s, LStmtOKAt Φ cfg fuel s

def LBlockOK (Φ : Funs) (cfg : Cfg) (fuel : Nat) : Prop :=
  ∀ (ss : List LStmt) (σ : Env) (μ : Heap) (C : Ctx) (o : Outcome) (μ' : Heap),
    evalB Φ fuel σ μ C (LStmt.toLangs ss) = .ok (o, μ') →
    ∀ (G : List String) (K : Option FExpr) (E : FExpr) (ρ : Env) (P : Props),
      (∀ y, y ∈ G → isTmpL y = false) → LStmt.wsL G ss → Bound G σ → compileLB cfg G ss K = some E →
      (∀ k, K = some k → FvIn (LStmt.gammaL G ss) k) → P.toCtx = .ok C → LStmt.litsL G P ss → AgreeL (fvF E) ρ σ →
      HeapExt μ μ' ∧ PostL ρ P E K (LStmt.gammaL G ss) (LStmt.asgL ss) σ o

/-! ### names assigned by a well-scoped statement are not temporaries -/

mutual
theorem asg_nt : ∀ (s : LStmt) (G : List String), s.ws G → ∀ y, y ∈ s.asg → isTmpL y = false
  | .assign x e, G, h, y, hy => by simp only [LStmt.asg, List.mem_singleton] at hy; subst hy; exact h.2
  | .tassign xs e, G, h, y, hy => h.2.1 y (by simpa [LStmt.asg] using hy)
  | .with_ d b, G, h, y, hy => asgL_nt b G h y (by simpa [LStmt.asg] using hy)
  | .ifte c t f, G, h, y, hy => by
    simp only [LStmt.asg, List.mem_append] at hy
    rcases hy with hy | hy
    · exact asgL_nt t G h.2.1 y hy
    · exact asgL_nt f G h.2.2 y hy
  | .if1 c t, G, h, y, hy => asgL_nt t G h.2 y (by simpa [LStmt.asg] using hy)
  | .while_ c b, G, h, y, hy => asgL_nt b G h.2 y (by simpa [LStmt.asg] using hy)
  | .forRange x n b, G, h, y, hy => by
    simp only [LStmt.asg, List.mem_cons] at hy
    rcases hy with hy | hy
    · subst hy; exact h.1
    · exact asgL_nt b (x :: G) h.2.2.2 y hy
  | .ret e, G, h, y, hy => by simp [LStmt.asg] at hy
theorem asgL_nt : ∀ (ss : List LStmt) (G : List String), LStmt.wsL G ss → ∀ y, y ∈ LStmt.asgL ss → isTmpL y = false
  | [], G, h, y, hy => by simp [LStmt.asgL] at hy
  | s :: ss, G, h, y, hy => by
    simp only [LStmt.asgL, List.mem_append] at hy
    rcases hy with hy | hy
    · exact asg_nt s G h.1 y hy
    · exact asgL_nt ss (s.gamma G) h.2 y hy
end

theorem gamma_nt {s : LStmt} {G : List String} (hw : s.ws G) (hG : ∀ y, y ∈ G → isTmpL y = false) :
    ∀ y, y ∈ s.gamma G → isTmpL y = false := by
  intro y hy
  rcases gamma_sub s G y hy with h | h
  · exact hG y h
  · exact asg_nt s G hw y h

theorem gammaL_nt {ss : List LStmt} {G : List String} (hw : LStmt.wsL G ss) (hG : ∀ y, y ∈ G → isTmpL y = false) :
    ∀ y, y ∈ LStmt.gammaL G ss → isTmpL y = false := by
  intro y hy
  rcases gammaL_sub ss G y hy with h | h
  · exact hG y h
  · exact asgL_nt ss G hw y h

/-! ### blocks from statements -/

section
variable (Φ : Funs) (cfg : Cfg) (hord : OrdOK cfg)
include hord

theorem lblock_step (f : Nat) (hS : LStmtOK Φ cfg f) (hB : LBlockOK Φ cfg f) : LBlockOK Φ cfg (f + 1) := by
  intro ss σ μ C o μ' h
  cases ss with
  | nil =>
    rw [LStmt.toLangs, evalB_nil] at h
    cases h
    refine fun G K E ρ P hG hws hb hc hk hP hl hA => ⟨HeapExt.refl _, ?_⟩
    simp only [compileLB] at hc
    subst hc
    unfold PostL
    refine ⟨by simpa [LStmt.gammaL] using hb, fun x _ => rfl, E, rfl, fun v hv => hv ρ hA⟩
  | cons s ss =>
    rw [LStmt.toLangs, evalB_cons] at h
    cases h1 : evalS Φ f σ μ C s.toLang with
    | error err => rw [h1] at h; cases h
    | ok r1 =>
      obtain ⟨o1, μ1⟩ := r1
      rw [h1] at h
      simp only [bind, Except.bind] at h
      have hstmt := hS s σ μ C o1 μ1 h1
      -- how the block was compiled
      have hsplit : ∀ (G : List String) (K : Option FExpr) (E : FExpr), compileLB cfg G (s :: ss) K = some E →
          (ss = [] ∧ K = none ∧ compileLS cfg G s none = some E) ∨
          (∃ K', compileLB cfg (s.gamma G) ss K = some K' ∧ compileLS cfg G s (some K') = some E) := by
        intro G K E hc
        by_cases hlast : ss = [] ∧ K = none
        · obtain ⟨rfl, rfl⟩ := hlast
          simp only [compileLB] at hc
          exact Or.inl ⟨rfl, rfl, hc⟩
        · right
          cases ss with
          | nil =>
            cases K with
            | none => exact absurd ⟨rfl, rfl⟩ hlast
            | some k => simp only [compileLB] at hc; exact ⟨k, rfl, hc⟩
          | cons s2 ss2 =>
            simp only [compileLB] at hc
            cases hcc : compileLB cfg (s.gamma G) (s2 :: ss2) K with
            | none => simp only [compileLB] at hcc; rw [hcc] at hc; cases hc
            | some K' => simp only [compileLB] at hcc; rw [hcc] at hc; exact ⟨K', rfl, hc⟩
      cases o1 with
      | ret v =>
        simp only [pure, Except.pure] at h
        cases h
        intro G K E ρ P hG hws hb hc hk hP hl hA
        obtain ⟨hw1, hw2⟩ := hws
        obtain ⟨hl1, hl2⟩ := hl
        rcases hsplit G K E hc with ⟨rfl, rfl, hcs⟩ | ⟨K', hcK', hcs⟩
        · have := hstmt G none E ρ P hG hw1 hb hcs (fun k hk' => by cases hk') hP hl1 hA
          exact ⟨this.1, by simpa [PostL] using this.2⟩
        · have hK' := fvIn_B cfg hord ss (s.gamma G) K K' hw2 hcK' (fun k hk' => by simpa [LStmt.gammaL] using hk k hk')
          have := (hstmt G (some K') E ρ P hG hw1 hb hcs (fun k hk' => by cases hk'; exact hK') hP hl1 hA).2
          simp only [PostL] at this
          exact absurd this.1 (by simp)
      | normal σ1 =>
        simp only at h
        have hrest0 := hB ss σ1 μ1 C o μ' h
        intro G K E ρ P hG hws hb hc hk hP hl hA
        obtain ⟨hw1, hw2⟩ := hws
        obtain ⟨hl1, hl2⟩ := hl
        rcases hsplit G K E hc with ⟨rfl, rfl, hcs⟩ | ⟨K', hcK', hcs⟩
        · have := (hstmt G none E ρ P hG hw1 hb hcs (fun k hk' => by cases hk') hP hl1 hA).2
          simp only [PostL] at this
          obtain ⟨_, _, k, hk', _⟩ := this
          cases hk'
        · have hK' := fvIn_B cfg hord ss (s.gamma G) K K' hw2 hcK' (fun k hk' => by simpa [LStmt.gammaL] using hk k hk')
          obtain ⟨hext1, hpost⟩ := hstmt G (some K') E ρ P hG hw1 hb hcs (fun k hk' => by cases hk'; exact hK') hP hl1 hA
          simp only [PostL] at hpost
          obtain ⟨hb1, hkeep1, k, hk', himp⟩ := hpost
          cases hk'
          have hrest : ∀ ρ', AgreeL (fvF K') ρ' σ1 → HeapExt μ1 μ' ∧ PostL ρ' P K' K (LStmt.gammaL (s.gamma G) ss) (LStmt.asgL ss) σ1 o :=
            fun ρ' hA' => hrest0 (s.gamma G) K K' ρ' P (gamma_nt hw1 hG) hw2 hb1 hcK'
              (fun k hk' => by simpa [LStmt.gammaL] using hk k hk') hP hl2 hA'
          have hrest' : ∀ ρ', AgreeL (fvF K') ρ' σ1 → PostL ρ' P K' K (LStmt.gammaL (s.gamma G) ss) (LStmt.asgL ss) σ1 o :=
            fun ρ' hA' => (hrest ρ' hA').2
          refine ⟨hext1.trans (hrest σ1 (agreeL_refl _ _)).1, ?_⟩
          cases o with
          | ret v =>
            have h0 := hrest' σ1 (agreeL_refl _ _)
            simp only [PostL] at h0 ⊢
            refine ⟨h0.1, himp v (fun ρ' hA' => ?_)⟩
            have := hrest' ρ' hA'
            simp only [PostL] at this
            exact this.2
          | normal σ' =>
            have h0 := hrest' σ1 (agreeL_refl _ _)
            simp only [PostL] at h0 ⊢
            obtain ⟨hb2, hkeep2, k0, hk0, _⟩ := h0
            refine ⟨by simpa [LStmt.gammaL] using hb2, ?_, k0, hk0, fun v hv => himp v (fun ρ' hA' => ?_)⟩
            · intro x hx
              simp only [LStmt.asgL, List.mem_append, not_or] at hx
              rw [hkeep2 x hx.2, hkeep1 x hx.1]
            · have := hrest' ρ' hA'
              simp only [PostL] at this
              obtain ⟨_, _, k1, hk1, himp1⟩ := this
              rw [hk0] at hk1
              cases hk1
              exact himp1 v hv

/-! ### assignment, `return` -/

theorem stmt_assign (f : Nat) (x : String) (e : LExpr) : LStmtOKAt Φ cfg (f + 1) (.assign x e) := by
  intro σ μ C o μ' h
  rw [LStmt.toLang, evalS_assign] at h
  cases h1 : evalE Φ f σ μ C e.toLang with
  | error err => rw [h1] at h; cases h
  | ok r1 =>
    obtain ⟨v, μ1⟩ := r1
    rw [h1] at h
    simp only [bind, Except.bind] at h
    obtain ⟨hm, ce⟩ := lexpr_sound Φ f e σ _ C v _ h1
    subst hm
    cases f with
    | zero => simp [evalE] at h1
    | succ g =>
      rw [bindPat_var] at h
      simp only [pure, Except.pure] at h
      cases h
      refine fun G K E ρ P hG hws hb hc hk hP hl hA => ⟨HeapExt.refl _, ?_⟩
      cases K with
      | none => simp [compileLS] at hc
      | some k =>
        simp only [compileLS] at hc
        cases hc
        unfold PostL
        refine ⟨?_, fun y hy => ?_, k, rfl, fun w hw => ?_⟩
        · intro y hy
          simp only [LStmt.gamma, List.mem_cons] at hy
          rcases hy with hy | hy
          · subst hy; exact ⟨v, get?_set_self _ _ _⟩
          · obtain ⟨w, hw⟩ := hb y hy
            by_cases hyx : y = x
            · subst hyx; exact ⟨v, get?_set_self _ _ _⟩
            · exact ⟨w, by rw [get?_set_ne _ _ _ _ hyx]; exact hw⟩
        · simp only [LStmt.asg, List.mem_singleton] at hy; exact get?_set_ne _ _ _ _ hy
        · have hsub : SubOK ρ P σ FExpr.var e.vars := by
            refine subOK_var (fun y hy ht => hA y ((fv_bind1 x e.toF k y).2 (Or.inl ?_)) ht) (fun y hy => hG y (hws.1 y hy))
            exact vars_sub_fvF e y hy
          refine conv_let1 (ce ρ P FExpr.var hP hsub) (hw _ ?_)
          intro y hy ht
          rw [get?_set, get?_set]
          split
          · rfl
          · next hne => exact hA y ((fv_bind1 x e.toF k y).2 (Or.inr ⟨hy, hne⟩)) ht

end
end Fpy.C12
