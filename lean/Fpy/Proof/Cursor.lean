/-
Helper lemmas for C19 (cursor forwarding).  Core Lean only.
-/
import Fpy.Model.Cursor
import Fpy.Spec.Cursor
import Fpy.Model.Sites
namespace Fpy.Cursor.Proof
open Fpy.Cursor Fpy.Cursor.Spec

/-! ### the loop of `_forward_stmt` in closed form -/

/-- sum of `inserted - removed` over the edits of block `here` that end at or before `i` -/
def shiftAt : List Edit → BlockPath → Nat → Int
  | [], _, _ => 0
  | e :: r, here, i =>
    (if e.blockPath = here ∧ e.index + e.removed ≤ i then ((e.inserted : Int) - (e.removed : Int)) else 0)
      + shiftAt r here i

/-- the last edit of block `here` whose run contains `i` -/
def lastCover : List Edit → BlockPath → Nat → Option Edit
  | [], _, _ => none
  | e :: r, here, i =>
    match lastCover r here i with
    | some x => some x
    | none => if covers e here i then some e else none

theorem scan_foldl (E : List Edit) (here : BlockPath) (i : Nat) (a : Int) (c : Option Edit) :
    E.foldl (fun (acc : Int × Option Edit) e =>
      if e.blockPath != here then acc
      else if i ≥ e.index + e.removed then (acc.1 + ((e.inserted : Int) - (e.removed : Int)), acc.2)
      else if i ≥ e.index then (acc.1, some e)
      else acc) (a, c)
    = (a + shiftAt E here i, match lastCover E here i with | some x => some x | none => c) := by
  induction E generalizing a c with
  | nil => simp [shiftAt, lastCover]
  | cons e r ih =>
    simp only [List.foldl_cons]
    by_cases hb : e.blockPath = here
    · by_cases h1 : i ≥ e.index + e.removed
      · have hc : covers e here i = false := by
          simp [covers, hb]; omega
        simp only [hb, bne_self_eq_false, Bool.false_eq_true, if_false, h1, if_true]
        rw [ih]
        simp only [shiftAt, lastCover, hb, hc, true_and]
        have : e.index + e.removed ≤ i := h1
        simp only [this, if_true]
        refine Prod.ext (by simp only []; omega) ?_
        cases lastCover r here i <;> simp
      · by_cases h2 : i ≥ e.index
        · have hc : covers e here i = true := by
            simp [covers, hb]; omega
          simp only [hb, bne_self_eq_false, Bool.false_eq_true, if_false, h1, h2, if_true]
          rw [ih]
          simp only [shiftAt, lastCover, hb, hc, true_and]
          have : ¬ (e.index + e.removed ≤ i) := h1
          simp only [this, if_false]
          refine Prod.ext (by simp only []; omega) ?_
          cases lastCover r here i <;> simp
        · have hc : covers e here i = false := by
            simp [covers, hb]; omega
          simp only [hb, bne_self_eq_false, Bool.false_eq_true, if_false, h1, h2]
          rw [ih]
          simp only [shiftAt, lastCover, hb, hc, true_and]
          have : ¬ (e.index + e.removed ≤ i) := h1
          simp only [this, if_false]
          refine Prod.ext (by simp only []; omega) ?_
          cases lastCover r here i <;> simp
    · have hc : covers e here i = false := by
        simp [covers, hb]
      have hb' : (e.blockPath != here) = true := by simp [hb]
      simp only [hb', if_true]
      rw [ih]
      simp only [shiftAt, lastCover, hb, hc, false_and, if_false]
      refine Prod.ext (by simp only []; omega) ?_
      cases lastCover r here i <;> simp

theorem scan_eq (E : List Edit) (here : BlockPath) (i : Nat) :
    scan E here i = (shiftAt E here i, lastCover E here i) := by
  unfold scan
  rw [scan_foldl]
  simp
  cases lastCover E here i <;> rfl

theorem lastCover_none_iff (E : List Edit) (here : BlockPath) (i : Nat) :
    lastCover E here i = none ↔ coveredBy E here i = false := by
  induction E with
  | nil => simp [lastCover, coveredBy]
  | cons e r ih =>
    simp only [coveredBy, List.any_cons] at ih ⊢
    simp only [lastCover]
    cases h : lastCover r here i with
    | some x =>
      rw [h] at ih
      have h3 : r.any (covers · here i) = true := by
        cases h4 : r.any (covers · here i) with
        | true => rfl
        | false => exact absurd (ih.mpr h4) (by simp)
      simp [h3]
    | none =>
      rw [h] at ih
      have h2 := ih.mp rfl
      simp only [h2, Bool.or_false]
      cases covers e here i <;> simp

theorem lastCover_some (E : List Edit) (here : BlockPath) (i : Nat) (c : Edit)
    (h : lastCover E here i = some c) : c ∈ E ∧ covers c here i = true := by
  induction E with
  | nil => simp [lastCover] at h
  | cons e r ih =>
    simp only [lastCover] at h
    cases h2 : lastCover r here i with
    | some x =>
      simp only [h2] at h
      have := ih (by rw [h2, Option.some.injEq]; exact Option.some.inj h)
      exact ⟨List.mem_cons_of_mem _ this.1, this.2⟩
    | none =>
      simp only [h2] at h
      by_cases hc : covers e here i = true
      · simp only [hc, if_true, Option.some.injEq] at h
        subst h; exact ⟨List.mem_cons_self, hc⟩
      · simp [hc] at h

/-! ### finite sums -/

def sumTo (f : Nat → Nat) : Nat → Nat
  | 0 => 0
  | i + 1 => sumTo f i + f i

theorem sumTo_add (f g : Nat → Nat) (i : Nat) :
    sumTo (fun j => f j + g j) i = sumTo f i + sumTo g i := by
  induction i with
  | zero => rfl
  | succ i ih => simp only [sumTo, ih]; omega

theorem sumTo_congr {f g : Nat → Nat} (i : Nat) (h : ∀ j, j < i → f j = g j) : sumTo f i = sumTo g i := by
  induction i with
  | zero => rfl
  | succ i ih =>
    simp only [sumTo]
    rw [ih (fun j hj => h j (by omega)), h i (by omega)]

theorem sumTo_zero (i : Nat) : sumTo (fun _ => 0) i = 0 := by
  induction i with
  | zero => rfl
  | succ i ih => simp [sumTo, ih]

theorem sumTo_ite_eq (a c i : Nat) : sumTo (fun j => if a = j then c else 0) i = if a < i then c else 0 := by
  induction i with
  | zero => simp [sumTo]
  | succ i ih =>
    simp only [sumTo, ih]
    by_cases h1 : a < i
    · have : ¬ a = i := by omega
      have h2 : a < i + 1 := by omega
      simp [h1, this, h2]
    · by_cases h2 : a = i
      · subst h2; simp
      · have h3 : ¬ a < i + 1 := by omega
        simp [h1, h2, h3]

theorem sumTo_interval (lo hi i : Nat) :
    sumTo (fun j => if lo ≤ j ∧ j < hi then 1 else 0) i = min hi i - min lo i := by
  induction i with
  | zero => simp [sumTo]
  | succ i ih =>
    simp only [sumTo, ih]
    by_cases h : lo ≤ i ∧ i < hi
    · simp only [h, and_self, if_true]; omega
    · simp only [h, if_false]; omega

theorem covers_iff (e : Edit) (here : BlockPath) (i : Nat) :
    covers e here i = true ↔ e.blockPath = here ∧ e.index ≤ i ∧ i < e.index + e.removed := by
  simp [covers, and_assoc]

/-! ### disjointness as the code checks it -/

/-- the same-block part of `¬ _overlaps(a, b)` -/
def SameBlockDisjoint (a b : Edit) : Prop :=
  a.blockPath = b.blockPath →
    ¬ (a.index ≤ b.index ∧ b.index < a.index + a.removed) ∧
    ¬ (b.index ≤ a.index ∧ a.index < b.index + b.removed)

def Disjoint (E : List Edit) : Prop := E.Pairwise SameBlockDisjoint

theorem sameBlockDisjoint_of_overlaps {a b : Edit} (h : overlaps a b = false) : SameBlockDisjoint a b := by
  intro hb
  unfold overlaps at h
  simp only [hb, beq_self_eq_true, if_true] at h
  simp at h
  omega

theorem SameBlockDisjoint.symm {a b : Edit} (h : SameBlockDisjoint a b) : SameBlockDisjoint b a := by
  intro hb
  have := h hb.symm
  omega

theorem disjoint_of_check (E : List Edit) (h : checkDisjoint E = true) : Disjoint E := by
  induction E with
  | nil => exact List.Pairwise.nil
  | cons a r ih =>
    simp only [checkDisjoint, Bool.and_eq_true, List.all_eq_true] at h
    refine List.Pairwise.cons ?_ (ih h.2)
    intro b hb
    have := h.1 b hb
    simp at this
    exact sameBlockDisjoint_of_overlaps this.1

theorem Disjoint.rel {E : List Edit} (h : Disjoint E) {a b : Edit} (ha : a ∈ E) (hb : b ∈ E) (hne : a ≠ b) :
    SameBlockDisjoint a b := by
  induction E with
  | nil => cases ha
  | cons e r ih =>
    rw [Disjoint, List.pairwise_cons] at h
    rcases List.mem_cons.mp ha with rfl | ha'
    · rcases List.mem_cons.mp hb with rfl | hb'
      · exact absurd rfl hne
      · exact h.1 b hb'
    · rcases List.mem_cons.mp hb with rfl | hb'
      · exact (h.1 a ha').symm
      · exact ih h.2 ha' hb'

/-- an edit that removes something occurs once in a disjoint log -/
theorem Disjoint.not_mem_tail {e : Edit} {r : List Edit} (h : Disjoint (e :: r)) (hr : e.removed > 0) : e ∉ r := by
  intro hm
  rw [Disjoint, List.pairwise_cons] at h
  have := h.1 e hm rfl
  omega

/-! ### one block: where the old statement `i` lands -/

/-- length of the piece the specification emits for old index `j` -/
def pieceLen (fresh : Edit → List Stmt) (E : List Edit) (here : BlockPath) (j : Nat) : Nat :=
  (emitAt fresh E here j).length + (if coveredBy E here j then 0 else 1)

def emitBelow : List Edit → BlockPath → Nat → Nat
  | [], _, _ => 0
  | e :: r, here, i => (if e.blockPath = here ∧ e.index < i then e.inserted else 0) + emitBelow r here i

def insAt : List Edit → BlockPath → Nat → Nat
  | [], _, _ => 0
  | e :: r, here, i =>
    (if e.blockPath = here ∧ e.removed = 0 ∧ e.index = i then e.inserted else 0) + insAt r here i

def covBelow : List Edit → BlockPath → Nat → Nat
  | [], _, _ => 0
  | e :: r, here, i =>
    (if e.blockPath = here then min (e.index + e.removed) i - min e.index i else 0) + covBelow r here i

theorem emitAt_cons (fresh : Edit → List Stmt) (e : Edit) (r : List Edit) (here : BlockPath) (j : Nat) :
    emitAt fresh (e :: r) here j
      = (if e.blockPath = here ∧ e.index = j then fresh e else []) ++ emitAt fresh r here j := by
  simp [emitAt]

theorem coveredBy_cons (e : Edit) (r : List Edit) (here : BlockPath) (j : Nat) :
    coveredBy (e :: r) here j = (covers e here j || coveredBy r here j) := by
  simp [coveredBy]

/-- Lemma A: what is emitted before old index `i` -/
theorem sum_emit (fresh : Edit → List Stmt) (E : List Edit) (here : BlockPath) (i : Nat)
    (hf : ∀ e ∈ E, (fresh e).length = e.inserted) :
    sumTo (fun j => (emitAt fresh E here j).length) i = emitBelow E here i := by
  induction E with
  | nil => simp [emitAt, emitBelow, sumTo_zero]
  | cons e r ih =>
    have ih' := ih (fun x hx => hf x (List.mem_cons_of_mem _ hx))
    have he := hf e List.mem_cons_self
    have : ∀ j, (emitAt fresh (e :: r) here j).length
        = (if e.index = j then (if e.blockPath = here then e.inserted else 0) else 0) + (emitAt fresh r here j).length := by
      intro j
      rw [emitAt_cons, List.length_append]
      by_cases h1 : e.blockPath = here <;> by_cases h2 : e.index = j <;> simp [h1, h2, he]
    rw [sumTo_congr i (fun j _ => this j), sumTo_add, ih', sumTo_ite_eq]
    simp only [emitBelow]
    by_cases h1 : e.blockPath = here <;> by_cases h2 : e.index < i <;> simp [h1, h2]

/-- Lemma B: how many old indices below `i` lie in a replaced run -/
theorem sum_cov (E : List Edit) (here : BlockPath) (i : Nat) (hd : Disjoint E) :
    sumTo (fun j => if coveredBy E here j then 1 else 0) i = covBelow E here i := by
  induction E with
  | nil => simp [coveredBy, covBelow, sumTo_zero]
  | cons e r ih =>
    rw [Disjoint, List.pairwise_cons] at hd
    have ih' := ih hd.2
    have hex : ∀ j, covers e here j = true → coveredBy r here j = false := by
      intro j hc
      cases h : coveredBy r here j with
      | false => rfl
      | true =>
        simp only [coveredBy, List.any_eq_true] at h
        obtain ⟨x, hx, hcx⟩ := h
        have hr := hd.1 x hx
        rw [covers_iff] at hc hcx
        have := hr (by rw [hc.1, hcx.1])
        omega
    have : ∀ j, (if coveredBy (e :: r) here j then 1 else 0)
        = (if e.index ≤ j ∧ j < e.index + e.removed then (if e.blockPath = here then 1 else 0) else 0)
          + (if coveredBy r here j then 1 else 0) := by
      intro j
      rw [coveredBy_cons]
      cases hc : covers e here j with
      | true =>
        have h2 := hex j hc
        rw [covers_iff] at hc
        simp [h2, hc]
      | false =>
        have : ¬ (e.blockPath = here ∧ e.index ≤ j ∧ j < e.index + e.removed) := by
          rw [← covers_iff]; simp [hc]
        by_cases h1 : e.blockPath = here
        · have : ¬ (e.index ≤ j ∧ j < e.index + e.removed) := fun h => this ⟨h1, h⟩
          simp [this]
        · simp [h1]
    rw [sumTo_congr i (fun j _ => this j), sumTo_add, ih']
    simp only [covBelow]
    by_cases h1 : e.blockPath = here
    · simp only [h1, if_true]
      rw [sumTo_interval]
    · simp only [h1, if_false]
      have : (fun j => if e.index ≤ j ∧ j < e.index + e.removed then (0:Nat) else 0) = fun _ => 0 := by
        funext j; simp
      rw [this, sumTo_zero]

theorem sum_piece (fresh : Edit → List Stmt) (E : List Edit) (here : BlockPath) (i : Nat) :
    sumTo (pieceLen fresh E here) i + sumTo (fun j => if coveredBy E here j then 1 else 0) i
      = sumTo (fun j => (emitAt fresh E here j).length) i + i := by
  induction i with
  | zero => simp [sumTo]
  | succ i ih =>
    simp only [sumTo, pieceLen] at ih ⊢
    cases coveredBy E here i <;> simp <;> omega

/-- Lemma C: at an index no run contains, only insertions start -/
theorem emit_uncovered (fresh : Edit → List Stmt) (E : List Edit) (here : BlockPath) (i : Nat)
    (hf : ∀ e ∈ E, (fresh e).length = e.inserted) (hc : coveredBy E here i = false) :
    (emitAt fresh E here i).length = insAt E here i := by
  induction E with
  | nil => simp [emitAt, insAt]
  | cons e r ih =>
    rw [coveredBy_cons, Bool.or_eq_false_iff] at hc
    have ih' := ih (fun x hx => hf x (List.mem_cons_of_mem _ hx)) hc.2
    have he := hf e List.mem_cons_self
    rw [emitAt_cons, List.length_append, ih']
    simp only [insAt]
    have hn : ¬ (e.blockPath = here ∧ e.index ≤ i ∧ i < e.index + e.removed) := by
      rw [← covers_iff]; simp [hc.1]
    by_cases h1 : e.blockPath = here ∧ e.index = i
    · have : e.removed = 0 := by
        rcases Nat.eq_zero_or_pos e.removed with h | h
        · exact h
        · exact absurd ⟨h1.1, by omega, by omega⟩ hn
      simp [h1, this, he]
    · have : ¬ (e.blockPath = here ∧ e.removed = 0 ∧ e.index = i) := fun h => h1 ⟨h.1, h.2.2⟩
      simp [h1, this]

/-- no run of block `here` has `i` strictly inside -/
def NonInterior (E : List Edit) (here : BlockPath) (i : Nat) : Prop :=
  ∀ e ∈ E, e.blockPath = here → ¬ (e.index < i ∧ i < e.index + e.removed)

/-- Lemma D: the accumulated shift of the code is what the specification emitted and dropped -/
theorem shift_arith (E : List Edit) (here : BlockPath) (i : Nat) (hn : NonInterior E here i) :
    (emitBelow E here i : Int) + insAt E here i - covBelow E here i = shiftAt E here i := by
  induction E with
  | nil => simp [emitBelow, insAt, covBelow, shiftAt]
  | cons e r ih =>
    have ih' := ih (fun x hx => hn x (List.mem_cons_of_mem _ hx))
    have h0 := hn e List.mem_cons_self
    simp only [emitBelow, insAt, covBelow, shiftAt]
    by_cases h1 : e.blockPath = here
    · have h0' := h0 h1
      simp only [h1, true_and, if_true]
      repeat' split
      all_goals omega
    · simp only [h1, false_and, if_false]
      omega

theorem covBelow_le (E : List Edit) (here : BlockPath) (i : Nat) (hd : Disjoint E) : covBelow E here i ≤ i := by
  rw [← sum_cov E here i hd]
  induction i with
  | zero => simp [sumTo]
  | succ i ih =>
    simp only [sumTo]
    cases coveredBy E here i <;> simp <;> omega

theorem nonInterior_of_uncovered (E : List Edit) (here : BlockPath) (i : Nat) (hc : coveredBy E here i = false) :
    NonInterior E here i := by
  intro e he hb hi
  have : covers e here i = true := by rw [covers_iff]; exact ⟨hb, by omega, hi.2⟩
  have : coveredBy E here i = true := by
    simp only [coveredBy, List.any_eq_true]; exact ⟨e, he, this⟩
  simp [hc] at this

/-- the position of an untouched old statement `i` in the new block -/
theorem pos_uncovered (fresh : Edit → List Stmt) (E : List Edit) (here : BlockPath) (i : Nat)
    (hf : ∀ e ∈ E, (fresh e).length = e.inserted) (hd : Disjoint E) (hc : coveredBy E here i = false) :
    ((sumTo (pieceLen fresh E here) i + (emitAt fresh E here i).length : Nat) : Int) = (i : Int) + shiftAt E here i := by
  have h1 := sum_piece fresh E here i
  rw [sum_cov E here i hd, sum_emit fresh E here i hf] at h1
  have h2 := emit_uncovered fresh E here i hf hc
  have h3 := shift_arith E here i (nonInterior_of_uncovered E here i hc)
  have h4 := covBelow_le E here i hd
  omega

theorem nonInterior_start (E : List Edit) (c : Edit) (hd : Disjoint E) (hc : c ∈ E) :
    NonInterior E c.blockPath c.index := by
  intro e he hb hi
  by_cases hec : e = c
  · subst hec; omega
  · have := hd.rel he hc hec hb
    omega

theorem insAt_start (E : List Edit) (c : Edit) (hd : Disjoint E) (hc : c ∈ E) (hr : c.removed > 0) :
    insAt E c.blockPath c.index = 0 := by
  have : ∀ e ∈ E, ¬ (e.blockPath = c.blockPath ∧ e.removed = 0 ∧ e.index = c.index) := by
    intro e he h
    have hec : e ≠ c := by intro h2; subst h2; omega
    have := hd.rel he hc hec h.1
    omega
  clear hd hc
  induction E with
  | nil => rfl
  | cons e r ih =>
    simp only [insAt]
    rw [ih (fun x hx => this x (List.mem_cons_of_mem _ hx))]
    have := this e List.mem_cons_self
    simp [this]

/-- the position of the start of a replaced run -/
theorem pos_start (fresh : Edit → List Stmt) (E : List Edit) (c : Edit)
    (hf : ∀ e ∈ E, (fresh e).length = e.inserted) (hd : Disjoint E) (hc : c ∈ E) (hr : c.removed > 0) :
    ((sumTo (pieceLen fresh E c.blockPath) c.index : Nat) : Int) = (c.index : Int) + shiftAt E c.blockPath c.index := by
  have h1 := sum_piece fresh E c.blockPath c.index
  rw [sum_cov E _ _ hd, sum_emit fresh E _ _ hf] at h1
  have h2 := insAt_start E c hd hc hr
  have h3 := shift_arith E c.blockPath c.index (nonInterior_start E c hd hc)
  have h4 := covBelow_le E c.blockPath c.index hd
  omega

/-- Lemma E: exactly the run of `c` is emitted where `c` starts -/
theorem emit_start (fresh : Edit → List Stmt) (E : List Edit) (c : Edit)
    (hd : Disjoint E) (hc : c ∈ E) (hr : c.removed > 0) :
    emitAt fresh E c.blockPath c.index = fresh c := by
  have hother : ∀ e ∈ E, e ≠ c → ¬ (e.blockPath = c.blockPath ∧ e.index = c.index) := by
    intro e he hne h
    have := hd.rel he hc hne h.1
    omega
  induction E with
  | nil => cases hc
  | cons e r ih =>
    rw [emitAt_cons]
    by_cases hec : e = c
    · subst hec
      have hnm := hd.not_mem_tail hr
      have : emitAt fresh r e.blockPath e.index = [] := by
        have hall : ∀ x ∈ r, ¬ (x.blockPath = e.blockPath ∧ x.index = e.index) := by
          intro x hx
          exact hother x (List.mem_cons_of_mem _ hx) (by intro h; subst h; exact hnm hx)
        clear ih hd hother hnm hc
        induction r with
        | nil => rfl
        | cons y r ih2 =>
          rw [emitAt_cons, ih2 (fun x hx => hall x (List.mem_cons_of_mem _ hx))]
          have := hall y List.mem_cons_self
          simp [this]
      simp [this]
    · have hcr : c ∈ r := by
        rcases List.mem_cons.mp hc with h | h
        · exact absurd h.symm hec
        · exact h
      rw [Disjoint, List.pairwise_cons] at hd
      rw [ih hd.2 hcr (fun x hx => hother x (List.mem_cons_of_mem _ hx))]
      have := hother e List.mem_cons_self hec
      simp [this]

/-- Lemma F: inside a run the shift is the shift at its start -/
theorem shift_inside (E : List Edit) (c : Edit) (i : Nat) (hd : Disjoint E) (hc : c ∈ E)
    (hi : c.index ≤ i ∧ i < c.index + c.removed) :
    shiftAt E c.blockPath i = shiftAt E c.blockPath c.index := by
  have hall : ∀ e ∈ E, e.blockPath = c.blockPath → (e.index + e.removed ≤ i ↔ e.index + e.removed ≤ c.index) := by
    intro e he hb
    by_cases hec : e = c
    · subst hec; omega
    · have := hd.rel he hc hec hb
      omega
  clear hd hc
  induction E with
  | nil => rfl
  | cons e r ih =>
    simp only [shiftAt]
    rw [ih (fun x hx => hall x (List.mem_cons_of_mem _ hx))]
    have := hall e List.mem_cons_self
    by_cases hb : e.blockPath = c.blockPath
    · have := this hb
      by_cases h2 : e.index + e.removed ≤ i
      · have h3 := this.mp h2
        simp [hb, h2, h3]
      · have h3 : ¬ e.index + e.removed ≤ c.index := fun h => h2 (this.mpr h)
        simp [hb, h2, h3]
    · simp [hb]

/-! ### the new block, cut at an old index -/

theorem applyBlock_nil (fresh : Edit → List Stmt) (E : List Edit) (here : BlockPath) (i : Nat) :
    applyBlock fresh E here [] i = emitAt fresh E here i := by
  simp [applyBlock]

theorem applyBlock_cons (fresh : Edit → List Stmt) (E : List Edit) (here : BlockPath) (s : Stmt) (r : Block) (i : Nat) :
    applyBlock fresh E here (s :: r) i
      = emitAt fresh E here i ++ ((if coveredBy E here i then [] else [applyStmt fresh E here i s])
          ++ applyBlock fresh E here r (i + 1)) := by
  simp [applyBlock]

/-- everything the specification emits for the old indices below `k` comes first -/
theorem applyBlock_split (fresh : Edit → List Stmt) (E : List Edit) (here : BlockPath) (b : Block) (k : Nat)
    (hk : k ≤ b.length) :
    ∃ l1, l1.length = sumTo (pieceLen fresh E here) k ∧
      applyBlock fresh E here b 0 = l1 ++ applyBlock fresh E here (b.drop k) k := by
  induction k with
  | zero => exact ⟨[], rfl, by simp⟩
  | succ k ih =>
    obtain ⟨l1, hl, heq⟩ := ih (by omega)
    have hlt : k < b.length := by omega
    have hd : b.drop k = b[k] :: b.drop (k + 1) := by
      simp
    rw [hd, applyBlock_cons] at heq
    refine ⟨l1 ++ (emitAt fresh E here k ++ (if coveredBy E here k then [] else [applyStmt fresh E here k b[k]])), ?_, ?_⟩
    · simp only [List.length_append, hl, sumTo, pieceLen]
      cases coveredBy E here k <;> simp
    · rw [heq]; simp [List.append_assoc]

/-- an old statement no run contains is found at `(what was emitted below it) + (insertions at it)` -/
theorem applyBlock_get (fresh : Edit → List Stmt) (E : List Edit) (here : BlockPath) (b : Block) (k : Nat) (s : Stmt)
    (hs : b[k]? = some s) (hc : coveredBy E here k = false) :
    (applyBlock fresh E here b 0)[sumTo (pieceLen fresh E here) k + (emitAt fresh E here k).length]?
      = some (applyStmt fresh E here k s) := by
  have hlt : k < b.length := by
    rcases List.getElem?_eq_some_iff.mp hs with ⟨h, _⟩; exact h
  obtain ⟨l1, hl, heq⟩ := applyBlock_split fresh E here b k (by omega)
  have hd : b.drop k = s :: b.drop (k + 1) := by
    rcases List.getElem?_eq_some_iff.mp hs with ⟨h, h2⟩
    rw [← h2]; simp
  rw [heq, hd, applyBlock_cons, hc]
  simp only [Bool.false_eq_true, if_false]
  rw [List.getElem?_append_right (by omega)]
  rw [List.getElem?_append_right (by omega)]
  have : sumTo (pieceLen fresh E here) k + (emitAt fresh E here k).length - l1.length - (emitAt fresh E here k).length = 0 := by omega
  rw [this]
  simp

/-- the fresh statements emitted at old index `k ≤ len` sit at what was emitted below `k` -/
theorem applyBlock_run (fresh : Edit → List Stmt) (E : List Edit) (here : BlockPath) (b : Block) (k : Nat)
    (hk : k ≤ b.length) :
    ∃ l1 l2, l1.length = sumTo (pieceLen fresh E here) k ∧
      applyBlock fresh E here b 0 = l1 ++ emitAt fresh E here k ++ l2 := by
  obtain ⟨l1, hl, heq⟩ := applyBlock_split fresh E here b k hk
  cases hd : b.drop k with
  | nil =>
    rw [hd, applyBlock_nil] at heq
    exact ⟨l1, [], hl, by simp [heq]⟩
  | cons s r =>
    rw [hd, applyBlock_cons] at heq
    exact ⟨l1, (if coveredBy E here k then [] else [applyStmt fresh E here k s]) ++ applyBlock fresh E here r (k + 1),
      hl, by rw [heq]; simp [List.append_assoc]⟩

theorem take_drop_run {α} (l1 m l2 : List α) : ((l1 ++ m ++ l2).drop l1.length).take m.length = m := by
  simp

/-! ### children of the image of a statement -/

theorem applyStmt_tag (fresh : Edit → List Stmt) (E : List Edit) (here : BlockPath) (i : Nat) (s : Stmt) :
    (applyStmt fresh E here i s).tag = s.tag := by
  cases s <;> simp [applyStmt, Stmt.tag]

theorem applyStmt_child (fresh : Edit → List Stmt) (E : List Edit) (here : BlockPath) (i : Nat) (s : Stmt)
    (f : Field) (c : Block) (h : s.child f = some c) :
    (applyStmt fresh E here i s).child f = some (applyBlock fresh E (⟨i, f⟩ :: here) c 0) := by
  cases s <;> cases f <;> simp [Stmt.child] at h <;> subst h <;> simp [applyStmt, Stmt.child]

/-! ### forwarding a block path -/

/-- some enclosing statement of the block lies in a replaced run -/
def touchedBlock (E : List Edit) : BlockPath → Bool
  | [] => false
  | s :: pp => coveredBy E pp s.idx || touchedBlock E pp

theorem any_or {α} (l : List α) (f g : α → Bool) : l.any (fun x => f x || g x) = (l.any f || l.any g) := by
  induction l with
  | nil => rfl
  | cons a r ih =>
    simp only [List.any_cons, ih]
    cases f a <;> cases g a <;> cases r.any f <;> cases r.any g <;> rfl

theorem any_beneathBlock (E : List Edit) (bp : BlockPath) :
    E.any (fun e => beneathBlock e.blockPath e.index (e.index + e.removed) bp) = touchedBlock E bp := by
  induction bp with
  | nil => simp [beneathBlock, touchedBlock]
  | cons s pp ih =>
    simp only [beneathBlock, touchedBlock]
    rw [any_or, ih]
    congr 1
    simp only [coveredBy]
    congr 1
    funext e
    simp only [covers]
    by_cases h : pp = e.blockPath
    · subst h; rfl
    · have h2 : ¬ e.blockPath = pp := fun h3 => h h3.symm
      have e1 : (pp == e.blockPath) = false := beq_eq_false_iff_ne.mpr h
      have e2 : (e.blockPath == pp) = false := beq_eq_false_iff_ne.mpr h2
      rw [e1, e2]

theorem touched_eq (E : List Edit) (p : StmtPath) :
    touched E p = (coveredBy E p.parent p.index || touchedBlock E p.parent) := by
  simp only [touched, beneathStmt]
  rw [any_or, any_beneathBlock]
  congr 1
  simp only [coveredBy]
  congr 1
  funext e
  simp only [covers]
  by_cases h : p.parent = e.blockPath
  · rw [h]
  · have h2 : ¬ e.blockPath = p.parent := fun h3 => h h3.symm
    have e1 : (p.parent == e.blockPath) = false := beq_eq_false_iff_ne.mpr h
    have e2 : (e.blockPath == p.parent) = false := beq_eq_false_iff_ne.mpr h2
    rw [e1, e2]

theorem forwardBlock_cons (E : List Edit) (s : Step) (pp : BlockPath) :
    forwardBlock E (s :: pp) =
      match forwardBlock E pp with
      | .error e => .error e
      | .ok nb =>
        match lastCover E pp s.idx with
        | some _ => .error .insideRewritten
        | none => .ok (⟨((s.idx : Int) + shiftAt E pp s.idx).toNat, s.field⟩ :: nb) := by
  simp only [forwardBlock, scan_eq]
  cases forwardBlock E pp with
  | error e => rfl
  | ok nb =>
    cases lastCover E pp s.idx <;> rfl

theorem forwardStmt_eq (E : List Edit) (p : StmtPath) :
    forwardStmt E p =
      match forwardBlock E p.parent with
      | .error e => .error e
      | .ok nb =>
        match lastCover E p.parent p.index with
        | some c => .ok (nb, ((c.index : Int) + shiftAt E p.parent p.index).toNat, some c)
        | none => .ok (nb, ((p.index : Int) + shiftAt E p.parent p.index).toNat, none) := by
  simp only [forwardStmt, scan_eq]
  cases forwardBlock E p.parent with
  | error e => rfl
  | ok nb =>
    cases lastCover E p.parent p.index <;> rfl

theorem forwardBlock_untouched (E : List Edit) (bp : BlockPath) (h : touchedBlock E bp = false) :
    ∃ nb, forwardBlock E bp = .ok nb := by
  induction bp with
  | nil => exact ⟨[], rfl⟩
  | cons s pp ih =>
    simp only [touchedBlock, Bool.or_eq_false_iff] at h
    obtain ⟨nb, hnb⟩ := ih h.2
    rw [forwardBlock_cons, hnb]
    have := (lastCover_none_iff E pp s.idx).mpr h.1
    rw [this]
    exact ⟨_, rfl⟩

/-- `_forward_block` fails exactly when an enclosing statement was replaced, and only that way -/
theorem forwardBlock_touched (E : List Edit) (bp : BlockPath) (h : touchedBlock E bp = true) :
    forwardBlock E bp = .error .insideRewritten := by
  induction bp with
  | nil => simp [touchedBlock] at h
  | cons s pp ih =>
    rw [forwardBlock_cons]
    simp only [touchedBlock, Bool.or_eq_true] at h
    cases ht : touchedBlock E pp with
    | true => rw [ih ht]
    | false =>
      have hc : coveredBy E pp s.idx = true := by
        rcases h with h | h
        · exact h
        · simp [ht] at h
      obtain ⟨nb, hnb⟩ := forwardBlock_untouched E pp ht
      rw [hnb]
      simp only
      cases hl : lastCover E pp s.idx with
      | some c => rfl
      | none =>
        have := (lastCover_none_iff E pp s.idx).mp hl
        simp [hc] at this

theorem forwardBlock_ok_untouched (E : List Edit) (bp nb : BlockPath) (h : forwardBlock E bp = .ok nb) :
    touchedBlock E bp = false := by
  cases ht : touchedBlock E bp with
  | false => rfl
  | true => rw [forwardBlock_touched E bp ht] at h; cases h

/-! ### resolving in the edited program -/

theorem resolveBlock_cons (t : Block) (s : Step) (pp : BlockPath) :
    resolveBlock t (s :: pp) =
      match resolveBlock t pp with
      | .error e => .error e
      | .ok b =>
        match b[s.idx]? with
        | none => .error .badPath
        | some st =>
          match st.child s.field with
          | none => .error .badPath
          | some c => .ok c := by
  rw [resolveBlock]; rfl

/-- THE invariant: the block at the forwarded path of the edited program is the old block,
edited in place. -/
theorem forwardBlock_resolve (fresh : Edit → List Stmt) (E : List Edit) (t : Block)
    (hf : ∀ e ∈ E, (fresh e).length = e.inserted) (hd : Disjoint E)
    (bp : BlockPath) (b : Block) (nb : BlockPath)
    (hr : resolveBlock t bp = .ok b) (hfw : forwardBlock E bp = .ok nb) :
    resolveBlock (applyEdits fresh E t) nb = .ok (applyBlock fresh E bp b 0) := by
  induction bp generalizing b nb with
  | nil =>
    simp only [forwardBlock] at hfw
    simp only [resolveBlock] at hr
    cases hfw; cases hr
    simp [resolveBlock, applyEdits]
  | cons s pp ih =>
    rw [resolveBlock_cons] at hr
    rw [forwardBlock_cons] at hfw
    cases hr0 : resolveBlock t pp with
    | error e => rw [hr0] at hr; cases hr
    | ok b0 =>
      rw [hr0] at hr; simp only at hr
      cases hf0 : forwardBlock E pp with
      | error e => rw [hf0] at hfw; cases hfw
      | ok nb0 =>
        rw [hf0] at hfw; simp only at hfw
        cases hl : lastCover E pp s.idx with
        | some c => rw [hl] at hfw; cases hfw
        | none =>
          rw [hl] at hfw; simp only at hfw
          cases hfw
          cases hg : b0[s.idx]? with
          | none => rw [hg] at hr; cases hr
          | some st =>
            rw [hg] at hr; simp only at hr
            cases hch : st.child s.field with
            | none => rw [hch] at hr; cases hr
            | some c =>
              rw [hch] at hr; simp only at hr; cases hr
              have hc := (lastCover_none_iff E pp s.idx).mp hl
              have hpos := pos_uncovered fresh E pp s.idx hf hd hc
              have hget := applyBlock_get fresh E pp b0 s.idx st hg hc
              have hidx : ((s.idx : Int) + shiftAt E pp s.idx).toNat
                  = sumTo (pieceLen fresh E pp) s.idx + (emitAt fresh E pp s.idx).length := by
                omega
              rw [resolveBlock_cons, ih b0 nb0 hr0 hf0]
              simp only [hidx, hget]
              rw [applyStmt_child fresh E pp s.idx st s.field b hch]

/-! ### forwarding a statement path, against the specification -/

theorem resolveStmt_eq (t : Block) (p : StmtPath) :
    resolveStmt t p =
      match resolveBlock t p.parent with
      | .error e => .error e
      | .ok b =>
        match b[p.index]? with
        | none => .error .badPath
        | some st => .ok st := rfl

theorem resolveStmt_ok {t : Block} {p : StmtPath} {s : Stmt} (h : resolveStmt t p = .ok s) :
    ∃ b, resolveBlock t p.parent = .ok b ∧ b[p.index]? = some s := by
  rw [resolveStmt_eq] at h
  cases hb : resolveBlock t p.parent with
  | error e => rw [hb] at h; cases h
  | ok b =>
    rw [hb] at h; simp only at h
    cases hg : b[p.index]? with
    | none => rw [hg] at h; cases h
    | some st => rw [hg] at h; cases h; exact ⟨b, rfl, hg⟩

/-- an untouched statement: the forwarded index names its image -/
theorem resolve_forward_untouched (fresh : Edit → List Stmt) (E : List Edit) (t : Block)
    (hf : ∀ e ∈ E, (fresh e).length = e.inserted) (hd : Disjoint E)
    (p : StmtPath) (s : Stmt) (nb : BlockPath)
    (hres : resolveStmt t p = .ok s) (hfb : forwardBlock E p.parent = .ok nb)
    (hc : coveredBy E p.parent p.index = false) :
    resolveStmt (applyEdits fresh E t) ⟨nb, ((p.index : Int) + shiftAt E p.parent p.index).toNat⟩
      = .ok (applyStmt fresh E p.parent p.index s) := by
  obtain ⟨b, hb, hg⟩ := resolveStmt_ok hres
  have hrb := forwardBlock_resolve fresh E t hf hd p.parent b nb hb hfb
  have hpos := pos_uncovered fresh E p.parent p.index hf hd hc
  have hget := applyBlock_get fresh E p.parent b p.index s hg hc
  have hidx : ((p.index : Int) + shiftAt E p.parent p.index).toNat
      = sumTo (pieceLen fresh E p.parent) p.index + (emitAt fresh E p.parent p.index).length := by omega
  rw [resolveStmt_eq]
  simp only [hrb, hidx, hget]

/-- a statement in a replaced run: the forwarded index is where the replacing run starts -/
theorem resolve_forward_run (fresh : Edit → List Stmt) (E : List Edit) (t : Block)
    (hf : ∀ e ∈ E, (fresh e).length = e.inserted) (hd : Disjoint E)
    (p : StmtPath) (s : Stmt) (nb : BlockPath) (c : Edit)
    (hres : resolveStmt t p = .ok s) (hfb : forwardBlock E p.parent = .ok nb)
    (hl : lastCover E p.parent p.index = some c) :
    ∃ l1 l2, resolveBlock (applyEdits fresh E t) nb = .ok (l1 ++ fresh c ++ l2) ∧
      l1.length = ((c.index : Int) + shiftAt E p.parent p.index).toNat := by
  obtain ⟨b, hb, hg⟩ := resolveStmt_ok hres
  obtain ⟨hcE, hcov⟩ := lastCover_some E p.parent p.index c hl
  rw [covers_iff] at hcov
  obtain ⟨hbp, hlo, hhi⟩ := hcov
  have hlt : p.index < b.length := by
    rcases List.getElem?_eq_some_iff.mp hg with ⟨h, _⟩; exact h
  have hrb := forwardBlock_resolve fresh E t hf hd p.parent b nb hb hfb
  obtain ⟨l1, l2, hl1, heq⟩ := applyBlock_run fresh E p.parent b c.index (by omega)
  have hrem : c.removed > 0 := by omega
  have hes := emit_start fresh E c hd hcE hrem
  have hps := pos_start fresh E c hf hd hcE hrem
  have hsi := shift_inside E c p.index hd hcE ⟨hlo, hhi⟩
  rw [hbp] at hes hps hsi
  rw [hes] at heq
  refine ⟨l1, l2, ?_, ?_⟩
  · rw [hrb, heq]
  · rw [hsi]; omega

theorem getElem?_mid {α} (l1 l2 : List α) (x : α) : (l1 ++ [x] ++ l2)[l1.length]? = some x := by
  simp

/-- what `EditLog.forward` does with a statement cursor of a log that meets the specification -/
theorem forwardStmtCursor_cases (fresh : Edit → List Stmt) (L : EditLog)
    (hf : ∀ e ∈ L.edits, (fresh e).length = e.inserted) (hd : Disjoint L.edits)
    (hres_eq : L.result.body = applyEdits fresh L.edits L.source.body)
    (p : StmtPath) (s : Stmt) (hres : resolveStmt L.source.body p = .ok s) :
    (touchedBlock L.edits p.parent = true ∧
      L.forwardStmtCursor L.source.pid p = .error .insideRewritten) ∨
    (touchedBlock L.edits p.parent = false ∧ coveredBy L.edits p.parent p.index = false ∧
      ∃ q, L.forwardStmtCursor L.source.pid p = .ok (.stmt L.result.pid q) ∧
        resolveStmt L.result.body q = .ok (applyStmt fresh L.edits p.parent p.index s)) ∨
    (touchedBlock L.edits p.parent = false ∧
      ∃ c ∈ L.edits, covers c p.parent p.index = true ∧
        ((c.inserted = 0 ∧ L.forwardStmtCursor L.source.pid p = .error .deleted) ∨
         (c.inserted = 1 ∧ ∃ q s', L.forwardStmtCursor L.source.pid p = .ok (.stmt L.result.pid q) ∧
            fresh c = [s'] ∧ resolveStmt L.result.body q = .ok s') ∨
         (c.inserted ≥ 2 ∧ ∃ nb a b', L.forwardStmtCursor L.source.pid p
              = .ok (.region L.result.pid nb a (a + c.inserted)) ∧
            resolveBlock L.result.body nb = .ok b' ∧ (b'.drop a).take c.inserted = fresh c))) := by
  have hpid : (L.source.pid != L.source.pid) = false := by simp
  cases ht : touchedBlock L.edits p.parent with
  | true =>
    left
    refine ⟨rfl, ?_⟩
    unfold EditLog.forwardStmtCursor
    rw [forwardStmt_eq, forwardBlock_touched L.edits p.parent ht]
    simp
  | false =>
    right
    obtain ⟨nb, hnb⟩ := forwardBlock_untouched L.edits p.parent ht
    cases hl : lastCover L.edits p.parent p.index with
    | none =>
      left
      have hc := (lastCover_none_iff L.edits p.parent p.index).mp hl
      refine ⟨rfl, hc, ?_⟩
      have hr := resolve_forward_untouched fresh L.edits L.source.body hf hd p s nb hres hnb hc
      rw [← hres_eq] at hr
      refine ⟨⟨nb, ((p.index : Int) + shiftAt L.edits p.parent p.index).toNat⟩, ?_, hr⟩
      unfold EditLog.forwardStmtCursor
      rw [forwardStmt_eq, hnb, hl]
      simp only [hpid, Bool.false_eq_true, if_false, mkStmtCursor, hr]
    | some c =>
      right
      obtain ⟨hcE, hcov⟩ := lastCover_some L.edits p.parent p.index c hl
      refine ⟨rfl, c, hcE, hcov, ?_⟩
      obtain ⟨l1, l2, hrb, hlen⟩ := resolve_forward_run fresh L.edits L.source.body hf hd p s nb c hres hnb hl
      rw [← hres_eq] at hrb
      have hfc := hf c hcE
      have hfw : L.forwardStmtCursor L.source.pid p =
          (if c.inserted == 1 then mkStmtCursor L.result ⟨nb, l1.length⟩
           else if c.inserted == 0 then .error .deleted
           else mkRegion L.result nb l1.length (l1.length + c.inserted)) := by
        unfold EditLog.forwardStmtCursor
        rw [forwardStmt_eq, hnb, hl]
        simp only [hpid, Bool.false_eq_true, if_false, hlen]
      by_cases h0 : c.inserted = 0
      · left
        refine ⟨h0, ?_⟩
        rw [hfw]; simp [h0]
      · by_cases h1 : c.inserted = 1
        · right; left
          refine ⟨h1, ?_⟩
          have : ∃ s', fresh c = [s'] := by
            match hfr : fresh c with
            | [] => rw [hfr] at hfc; simp at hfc; omega
            | [x] => exact ⟨x, rfl⟩
            | _ :: _ :: _ => rw [hfr] at hfc; simp at hfc; omega
          obtain ⟨s', hs'⟩ := this
          have hrs : resolveStmt L.result.body ⟨nb, l1.length⟩ = .ok s' := by
            rw [resolveStmt_eq]
            simp only [hrb, hs', getElem?_mid]
          refine ⟨⟨nb, l1.length⟩, s', ?_, hs', hrs⟩
          rw [hfw]; simp [h1, mkStmtCursor, hrs]
        · right; right
          refine ⟨by omega, nb, l1.length, l1 ++ fresh c ++ l2, ?_, hrb, ?_⟩
          · rw [hfw]
            have e1 : (c.inserted == 1) = false := by simp [h1]
            have e0 : (c.inserted == 0) = false := by simp [h0]
            simp only [e1, e0, Bool.false_eq_true, if_false, mkRegion, hrb]
            have : l1.length + c.inserted ≤ (l1 ++ fresh c ++ l2).length := by
              simp only [List.length_append, hfc]; omega
            rw [if_pos this]
          · rw [← hfc]; exact take_drop_run l1 (fresh c) l2

/-! ### statements no edit lies under are unchanged -/

theorem emitAt_none (fresh : Edit → List Stmt) (E : List Edit) (here : BlockPath) (i : Nat)
    (h : ∀ e ∈ E, e.blockPath ≠ here) : emitAt fresh E here i = [] := by
  induction E with
  | nil => rfl
  | cons e r ih =>
    rw [emitAt_cons, ih (fun x hx => h x (List.mem_cons_of_mem _ hx))]
    have := h e List.mem_cons_self
    simp [this]

theorem coveredBy_none (E : List Edit) (here : BlockPath) (i : Nat)
    (h : ∀ e ∈ E, e.blockPath ≠ here) : coveredBy E here i = false := by
  induction E with
  | nil => rfl
  | cons e r ih =>
    rw [coveredBy_cons, ih (fun x hx => h x (List.mem_cons_of_mem _ hx))]
    have := h e List.mem_cons_self
    simp [covers, this]

mutual
theorem applyStmt_id (fresh : Edit → List Stmt) (E : List Edit) :
    ∀ (here : BlockPath) (i : Nat) (s : Stmt),
      (∀ e ∈ E, ∀ f, ¬ (⟨i, f⟩ :: here) <:+ e.blockPath) → applyStmt fresh E here i s = s
  | _, _, .leaf t, _ => by simp [applyStmt]
  | here, i, .one t b, h => by
      simp only [applyStmt]
      rw [applyBlock_id fresh E (⟨i, .body⟩ :: here) b 0 (fun e he => h e he .body)]
  | here, i, .two t a b, h => by
      simp only [applyStmt]
      rw [applyBlock_id fresh E (⟨i, .ift⟩ :: here) a 0 (fun e he => h e he .ift),
          applyBlock_id fresh E (⟨i, .iff⟩ :: here) b 0 (fun e he => h e he .iff)]
theorem applyBlock_id (fresh : Edit → List Stmt) (E : List Edit) :
    ∀ (here : BlockPath) (b : Block) (i : Nat),
      (∀ e ∈ E, ¬ here <:+ e.blockPath) → applyBlock fresh E here b i = b
  | here, [], i, h => by
      rw [applyBlock_nil]
      exact emitAt_none fresh E here i (fun e he hb => h e he (by rw [hb]; exact List.suffix_refl _))
  | here, s :: r, i, h => by
      have hne : ∀ e ∈ E, e.blockPath ≠ here :=
        fun e he hb => h e he (by rw [hb]; exact List.suffix_refl _)
      rw [applyBlock_cons, emitAt_none fresh E here i hne, coveredBy_none E here i hne]
      have hs : applyStmt fresh E here i s = s :=
        applyStmt_id fresh E here i s (fun e he f hsuf =>
          h e he (List.IsSuffix.trans (List.suffix_cons _ _) hsuf))
      rw [hs, applyBlock_id fresh E here r (i + 1) h]
      simp
end

/-! ### the `where` vocabulary -/
section SitesLemmas
open Fpy.Sites

/-- the candidates that are sites, in visit order -/
def sitesOf : List Cand → List StmtPath
  | [] => []
  | c :: r => if c.refused then sitesOf r else c.path :: sitesOf r

def refusedOf : List Cand → List StmtPath
  | [] => []
  | c :: r => if c.refused then c.path :: refusedOf r else refusedOf r

theorem walk_none (cands : List Cand) (st : State) :
    walk .none Option.none cands st =
      { siteIdx := st.siteIdx + (sitesOf cands).length, matched := st.matched + (sitesOf cands).length,
        rewritten := st.rewritten ++ sitesOf cands, refused := st.refused ++ refusedOf cands,
        declined := st.declined } := by
  induction cands generalizing st with
  | nil => simp [walk, sitesOf, refusedOf]
  | cons c r ih =>
    simp only [walk, step]
    by_cases hc : c.refused = true
    · simp only [hc, if_true, ih, sitesOf, refusedOf]
      simp
    · simp only [hc, Bool.false_eq_true, if_false, selects, if_true, ih, sitesOf, refusedOf]
      simp
      omega

theorem listSites_eq (cands : List Cand) : listSites cands = sitesOf cands := by
  simp [listSites, walk_none]

theorem listRefusals_eq (cands : List Cand) : listRefusals cands = refusedOf cands := by
  simp [listRefusals, walk_none]

/-- an index aims at the site with that number and at nothing else; refusals take no index -/
theorem walk_index (j : Int) (cands : List Cand) (st : State) :
    let st' := walk (.index j) Option.none cands st
    st'.siteIdx = st.siteIdx + (sitesOf cands).length ∧
    st'.rewritten = st.rewritten ++
      (if (st.siteIdx : Int) ≤ j then ((sitesOf cands)[(j - st.siteIdx).toNat]?).toList else []) := by
  induction cands generalizing st with
  | nil => simp [walk, sitesOf]
  | cons c r ih =>
    simp only [walk, step]
    by_cases hc : c.refused = true
    · simp only [hc, if_true, sitesOf]
      have := ih { st with refused := st.refused ++ [c.path],
                           declined := if (Option.none : Option (BlockPath × Nat × Nat)).isSome && selects (.index j) Option.none c.path (-1) then st.declined + 1 else st.declined }
      simpa using this
    · simp only [hc, Bool.false_eq_true, if_false, sitesOf]
      by_cases hsel : selects (.index j) Option.none c.path st.siteIdx = true
      · have hj : (st.siteIdx : Int) = j := by simpa [selects] using hsel
        simp only [hsel, if_true]
        have := ih { st with siteIdx := st.siteIdx + 1, matched := st.matched + 1, rewritten := st.rewritten ++ [c.path] }
        simp only at this
        have hcast : ((st.siteIdx + 1 : Nat) : Int) = (st.siteIdx : Int) + 1 := by omega
        rw [hcast] at this
        refine ⟨by rw [this.1]; simp; omega, ?_⟩
        rw [this.2]
        have h1 : ¬ (st.siteIdx : Int) + 1 ≤ j := by omega
        have h2 : (st.siteIdx : Int) ≤ j := by omega
        have h3 : (j - (st.siteIdx : Int)).toNat = 0 := by omega
        rw [if_neg h1, if_pos h2, h3]
        simp
      · have hj : ¬ (st.siteIdx : Int) = j := by simpa [selects] using hsel
        simp only [hsel, Bool.false_eq_true, if_false]
        have := ih { st with siteIdx := st.siteIdx + 1 }
        simp only at this
        have hcast : ((st.siteIdx + 1 : Nat) : Int) = (st.siteIdx : Int) + 1 := by omega
        rw [hcast] at this
        refine ⟨by rw [this.1]; simp; omega, ?_⟩
        rw [this.2]
        by_cases h2 : (st.siteIdx : Int) ≤ j
        · have h1 : (st.siteIdx : Int) + 1 ≤ j := by omega
          have h3 : (j - (st.siteIdx : Int)).toNat = (j - ((st.siteIdx : Int) + 1)).toNat + 1 := by omega
          rw [if_pos h1, if_pos h2, h3]
          simp
        · have h1 : ¬ (st.siteIdx : Int) + 1 ≤ j := by omega
          rw [if_neg h1, if_neg h2]


/-- a cursor or region aims at every site at or beneath it; a refusal beneath it is remembered -/
theorem walk_target (w : Where) (bp : BlockPath) (lo hi : Nat) (cands : List Cand) (st : State) :
    let st' := walk w (some (bp, lo, hi)) cands st
    st'.rewritten = st.rewritten ++ (sitesOf cands).filter (beneathStmt bp lo hi) ∧
    st'.matched = st.matched + ((sitesOf cands).filter (beneathStmt bp lo hi)).length ∧
    st'.declined = st.declined + ((refusedOf cands).filter (beneathStmt bp lo hi)).length := by
  induction cands generalizing st with
  | nil => simp [walk, sitesOf, refusedOf]
  | cons c r ih =>
    simp only [walk, step, selects, Option.isSome_some, Bool.true_and]
    by_cases hc : c.refused = true
    · simp only [hc, if_true, sitesOf, refusedOf]
      by_cases hb : beneathStmt bp lo hi c.path = true
      · have := ih { st with refused := st.refused ++ [c.path], declined := st.declined + 1 }
        simp only [hb, if_true] at this ⊢
        refine ⟨this.1, this.2.1, ?_⟩
        rw [this.2.2, List.filter_cons_of_pos hb]; simp; omega
      · have := ih { st with refused := st.refused ++ [c.path], declined := st.declined }
        simp only [hb, Bool.false_eq_true, if_false] at this ⊢
        refine ⟨this.1, this.2.1, ?_⟩
        rw [this.2.2, List.filter_cons_of_neg hb]
    · simp only [hc, Bool.false_eq_true, if_false, sitesOf, refusedOf]
      by_cases hb : beneathStmt bp lo hi c.path = true
      · have := ih { st with siteIdx := st.siteIdx + 1, matched := st.matched + 1, rewritten := st.rewritten ++ [c.path] }
        simp only [hb, if_true] at this ⊢
        refine ⟨?_, ?_, this.2.2⟩
        · rw [this.1, List.filter_cons_of_pos hb]; simp
        · rw [this.2.1, List.filter_cons_of_pos hb]; simp; omega
      · have := ih { st with siteIdx := st.siteIdx + 1 }
        simp only [hb, Bool.false_eq_true, if_false] at this ⊢
        refine ⟨?_, ?_, this.2.2⟩
        · rw [this.1, List.filter_cons_of_neg hb]
        · rw [this.2.1, List.filter_cons_of_neg hb]

end SitesLemmas

/-! ### regions: `_forward_region` -/

theorem imagesOf_mem (L : EditLog) (pid : Nat) (bp : BlockPath) (l : List Nat) (imgs : List Cursor)
    (h : imagesOf L pid bp l = .ok imgs) :
    ∀ img ∈ imgs, ∃ i ∈ l, L.forwardStmtCursor pid ⟨bp, i⟩ = .ok img := by
  induction l generalizing imgs with
  | nil => simp [imagesOf] at h; subst h; intro img hm; cases hm
  | cons i r ih =>
    simp only [imagesOf] at h
    cases h1 : L.forwardStmtCursor pid ⟨bp, i⟩ with
    | error e => rw [h1] at h; cases h
    | ok c =>
      rw [h1] at h; simp only at h
      cases h2 : imagesOf L pid bp r with
      | error e => rw [h2] at h; cases h
      | ok cs =>
        rw [h2] at h; simp only at h; cases h
        intro img hm
        rcases List.mem_cons.mp hm with rfl | hm
        · exact ⟨i, List.mem_cons_self, h1⟩
        · obtain ⟨k, hk, hk2⟩ := ih cs h2 img hm
          exact ⟨k, List.mem_cons_of_mem _ hk, hk2⟩

/-- largest stop of a list of spans -/
def maxStop : List (BlockPath × Nat × Nat) → Nat
  | [] => 0
  | s :: r => max s.2.2 (maxStop r)

theorem foldl_max (l : List (BlockPath × Nat × Nat)) (m : Nat) :
    l.foldl (fun m s => max m s.2.2) m = max m (maxStop l) := by
  induction l generalizing m with
  | nil => simp [maxStop]
  | cons s r ih => simp only [List.foldl_cons, ih, maxStop]; omega

/-- adjacent spans leave no gap: every index from the first start up to the largest stop lies in
one of them -/
theorem adjacent_cover (l : List (BlockPath × Nat × Nat)) (s0 : BlockPath × Nat × Nat)
    (hadj : adjacent (s0 :: l) = true) (hle : ∀ s ∈ s0 :: l, s.2.1 ≤ s.2.2)
    (j : Nat) (hj : s0.2.1 ≤ j ∧ j < maxStop (s0 :: l)) :
    ∃ s ∈ s0 :: l, s.2.1 ≤ j ∧ j < s.2.2 := by
  induction l generalizing s0 with
  | nil =>
    simp only [maxStop] at hj
    exact ⟨s0, List.mem_cons_self, hj.1, by omega⟩
  | cons b r ih =>
    simp only [adjacent, Bool.and_eq_true, Bool.or_eq_true, beq_iff_eq] at hadj
    by_cases hin : j < s0.2.2
    · exact ⟨s0, List.mem_cons_self, hj.1, hin⟩
    · have hs0 := hle s0 List.mem_cons_self
      have hb : b.2.1 ≤ j := by rcases hadj.1 with h | h <;> omega
      have hmax : j < maxStop (b :: r) := by
        simp only [maxStop] at hj ⊢; omega
      obtain ⟨s, hs, h1⟩ := ih b hadj.2 (fun s hs => hle s (List.mem_cons_of_mem _ hs)) ⟨hb, hmax⟩
      exact ⟨s, List.mem_cons_of_mem _ hs, h1⟩

theorem mem_slice {α} (l : List α) (lo n : Nat) (x : α) (h : x ∈ (l.drop lo).take n) :
    ∃ j, lo ≤ j ∧ j < lo + n ∧ l[j]? = some x := by
  obtain ⟨k, hk, hx⟩ := List.mem_iff_getElem.mp h
  have hk' : k < n := by
    have := hk; simp only [List.length_take] at this; omega
  refine ⟨lo + k, by omega, by omega, ?_⟩
  have : ((l.drop lo).take n)[k]? = some x := by rw [List.getElem?_eq_getElem hk, hx]
  rw [List.getElem?_take_of_lt hk', List.getElem?_drop] at this
  exact this

theorem slice_mem {α} (l : List α) (lo n j : Nat) (x : α) (h1 : lo ≤ j) (h2 : j < lo + n) (hx : l[j]? = some x) :
    x ∈ (l.drop lo).take n := by
  have : ((l.drop lo).take n)[j - lo]? = some x := by
    rw [List.getElem?_take_of_lt (by omega), List.getElem?_drop]
    have : lo + (j - lo) = j := by omega
    rw [this, hx]
  exact List.mem_of_getElem? this

/-- the image of one statement cursor, as a span of a block of the result program: it lies inside
that block and every statement in it descends from the statement the cursor named -/
theorem image_span (fresh : Edit → List Stmt) (L : EditLog)
    (hf : ∀ e ∈ L.edits, (fresh e).length = e.inserted) (hd : Disjoint L.edits)
    (hres_eq : L.result.body = applyEdits fresh L.edits L.source.body)
    (p : StmtPath) (s : Stmt) (hres : resolveStmt L.source.body p = .ok s)
    (img : Cursor) (hfw : L.forwardStmtCursor L.source.pid p = .ok img) :
    ∃ rb, resolveBlock L.result.body img.blockSpan.1 = .ok rb ∧
      img.blockSpan.2.1 ≤ img.blockSpan.2.2 ∧ img.blockSpan.2.2 ≤ rb.length ∧
      ∀ j s', img.blockSpan.2.1 ≤ j → j < img.blockSpan.2.2 → rb[j]? = some s' →
        Descends fresh L.edits p s s' := by
  rcases forwardStmtCursor_cases fresh L hf hd hres_eq p s hres with h1 | h1 | h1
  · rw [h1.2] at hfw; cases hfw
  · obtain ⟨htb, hcv, q, hq, hr⟩ := h1
    rw [hq] at hfw; cases hfw
    obtain ⟨rb, hrb, hg⟩ := resolveStmt_ok hr
    refine ⟨rb, hrb, by simp [Cursor.blockSpan], ?_, ?_⟩
    · rcases List.getElem?_eq_some_iff.mp hg with ⟨h, _⟩
      simp only [Cursor.blockSpan]; omega
    · intro j s' h1 h2 hj
      simp only [Cursor.blockSpan] at h1 h2
      have : j = q.index := by omega
      subst this
      rw [hg] at hj; cases hj
      left
      exact ⟨by rw [touched_eq, hcv, htb]; rfl, rfl⟩
  · obtain ⟨_, c, hc, hcov, hrest⟩ := h1
    rcases hrest with ⟨_, h0⟩ | ⟨_, q, s1, hq, hfr, hr⟩ | ⟨h2, nb, a, b', hq, hrb, htk⟩
    · rw [h0] at hfw; cases hfw
    · rw [hq] at hfw; cases hfw
      obtain ⟨rb, hrb, hg⟩ := resolveStmt_ok hr
      refine ⟨rb, hrb, by simp [Cursor.blockSpan], ?_, ?_⟩
      · rcases List.getElem?_eq_some_iff.mp hg with ⟨h, _⟩
        simp only [Cursor.blockSpan]; omega
      · intro j s' h1 h2 hj
        simp only [Cursor.blockSpan] at h1 h2
        have : j = q.index := by omega
        subst this
        rw [hg] at hj; cases hj
        right
        exact ⟨c, hc, hcov, by rw [hfr]; simp⟩
    · rw [hq] at hfw; cases hfw
      have hlen : ((b'.drop a).take c.inserted).length = c.inserted := by rw [htk]; exact hf c hc
      simp only [List.length_take, List.length_drop] at hlen
      refine ⟨b', hrb, by simp [Cursor.blockSpan], ?_, ?_⟩
      · simp only [Cursor.blockSpan]; omega
      · intro j s' h1 h2 hj
        simp only [Cursor.blockSpan] at h1 h2
        right
        refine ⟨c, hc, hcov, ?_⟩
        rw [← htk]
        exact slice_mem b' a c.inserted j s' h1 h2 hj

theorem maxStop_ge (l : List (BlockPath × Nat × Nat)) (s : BlockPath × Nat × Nat) (h : s ∈ l) :
    s.2.2 ≤ maxStop l := by
  induction l with
  | nil => cases h
  | cons a r ih =>
    simp only [maxStop]
    rcases List.mem_cons.mp h with rfl | h
    · omega
    · have := ih h; omega

theorem _root_.Fpy.Cursor.Spec.SpecLog.disjoint {fresh : Edit → List Stmt} {L : EditLog} (h : SpecLog fresh L) : Disjoint L.edits := by
  have hc := h.check
  unfold EditLog.check at hc
  cases hr : checkRanges L.source.body L.edits with
  | error e => rw [hr] at hc; cases hc
  | ok u =>
    rw [hr] at hc
    by_cases hd : checkDisjoint L.edits = true
    · exact disjoint_of_check _ hd
    · simp [hd] at hc

/-- every statement inside the joined span of the member images descends from a member -/
theorem region_core (fresh : Edit → List Stmt) (L : EditLog) (h : SpecLog fresh L)
    (bp : BlockPath) (a b : Nat) (blk : Block) (hblk : resolveBlock L.source.body bp = .ok blk)
    (hb : b ≤ blk.length) (imgs : List Cursor)
    (himg : imagesOf L L.source.pid bp (List.range' a (b - a)) = .ok imgs)
    (s0 : BlockPath × Nat × Nat) (rest : List (BlockPath × Nat × Nat))
    (hsp : imgs.map Cursor.blockSpan = s0 :: rest)
    (hsame : (s0 :: rest).all (fun s => s.1 == s0.1) = true) (hadj : adjacent (s0 :: rest) = true)
    (rb : Block) (hrb : resolveBlock L.result.body s0.1 = .ok rb)
    (j : Nat) (s' : Stmt) (hj1 : s0.2.1 ≤ j) (hj2 : j < maxStop (s0 :: rest)) (hget : rb[j]? = some s') :
    ∃ i s, a ≤ i ∧ i < b ∧ resolveStmt L.source.body ⟨bp, i⟩ = .ok s ∧
      Descends fresh L.edits ⟨bp, i⟩ s s' := by
  -- every span comes from an image of a member
  have hfrom : ∀ sp ∈ s0 :: rest, ∃ img i s, sp = img.blockSpan ∧ a ≤ i ∧ i < b ∧
      resolveStmt L.source.body ⟨bp, i⟩ = .ok s ∧ L.forwardStmtCursor L.source.pid ⟨bp, i⟩ = .ok img := by
    intro sp hspm
    rw [← hsp] at hspm
    obtain ⟨img, himgm, rfl⟩ := List.mem_map.mp hspm
    obtain ⟨i, hi, hfw⟩ := imagesOf_mem L L.source.pid bp _ imgs himg img himgm
    rw [List.mem_range'_1] at hi
    have hib : i < b := by omega
    have hlt : i < blk.length := by omega
    refine ⟨img, i, blk[i], rfl, hi.1, hib, ?_, hfw⟩
    rw [resolveStmt_eq]
    simp only [hblk, List.getElem?_eq_getElem hlt]
  have hle : ∀ sp ∈ s0 :: rest, sp.2.1 ≤ sp.2.2 := by
    intro sp hspm
    obtain ⟨img, i, s, rfl, _, _, hres, hfw⟩ := hfrom sp hspm
    obtain ⟨_, _, h1, _⟩ := image_span fresh L h.fresh_len h.disjoint h.result_eq ⟨bp, i⟩ s hres img hfw
    exact h1
  obtain ⟨sp, hspm, hc1, hc2⟩ := adjacent_cover rest s0 hadj hle j ⟨hj1, hj2⟩
  obtain ⟨img, i, s, rfl, hia, hib, hres, hfw⟩ := hfrom sp hspm
  obtain ⟨rb', hrb', _, _, hall⟩ := image_span fresh L h.fresh_len h.disjoint h.result_eq ⟨bp, i⟩ s hres img hfw
  have hp : img.blockSpan.1 = s0.1 := by
    have := List.all_eq_true.mp hsame _ hspm
    simpa using this
  rw [hp, hrb] at hrb'
  cases hrb'
  exact ⟨i, s, hia, hib, hres, hall j s' hc1 hc2 hget⟩

theorem mkStmtCursor_ok {P : Prog} {p : StmtPath} {c : Cursor} (h : mkStmtCursor P p = .ok c) :
    c = .stmt P.pid p ∧ ∃ s, resolveStmt P.body p = .ok s := by
  unfold mkStmtCursor at h
  cases hr : resolveStmt P.body p with
  | error e => rw [hr] at h; cases h
  | ok s => rw [hr] at h; cases h; exact ⟨rfl, s, rfl⟩

theorem mkRegion_ok {P : Prog} {bp : BlockPath} {a b : Nat} {c : Cursor} (h : mkRegion P bp a b = .ok c) :
    c = .region P.pid bp a b ∧ ∃ blk, resolveBlock P.body bp = .ok blk ∧ b ≤ blk.length := by
  unfold mkRegion at h
  cases hr : resolveBlock P.body bp with
  | error e => rw [hr] at h; cases h
  | ok blk =>
    rw [hr] at h; simp only at h
    by_cases hb : b ≤ blk.length
    · rw [if_pos hb] at h; cases h; exact ⟨rfl, blk, rfl, hb⟩
    · rw [if_neg hb] at h; cases h

/-- what `forward` hands back for a statement or a region is a validated statement / region
cursor of the result program (holds for every log, by construction) -/
theorem forward_valid (L : EditLog) (c cur : Cursor) (hne : ∀ pid p, c ≠ .expr pid p)
    (hfw : L.forward c = .ok cur) : cur.pid = L.result.pid ∧ ValidIn L.result.body cur := by
  cases c with
  | expr pid p => exact absurd rfl (hne pid p)
  | stmt pid p =>
    have h : L.forwardStmtCursor pid p = .ok cur := hfw
    unfold EditLog.forwardStmtCursor at h
    by_cases hp : (pid != L.source.pid) = true
    · rw [if_pos hp] at h; cases h
    · rw [if_neg hp] at h
      cases hf : forwardStmt L.edits p with
      | error e => rw [hf] at h; cases h
      | ok r =>
        obtain ⟨nb, ni, oc⟩ := r
        rw [hf] at h
        cases oc with
        | none =>
          obtain ⟨rfl, s, hs⟩ := mkStmtCursor_ok h
          exact ⟨rfl, s, hs⟩
        | some e =>
          simp only at h
          by_cases h1 : (e.inserted == 1) = true
          · rw [if_pos h1] at h
            obtain ⟨rfl, s, hs⟩ := mkStmtCursor_ok h
            exact ⟨rfl, s, hs⟩
          · rw [if_neg h1] at h
            by_cases h0 : (e.inserted == 0) = true
            · rw [if_pos h0] at h; cases h
            · rw [if_neg h0] at h
              obtain ⟨rfl, blk, hb, hl⟩ := mkRegion_ok h
              exact ⟨rfl, blk, hb, hl⟩
  | region pid bp a b =>
    have h : L.forwardRegion pid bp a b = .ok cur := hfw
    unfold EditLog.forwardRegion at h
    by_cases h0 : (b - a == 0) = true
    · rw [if_pos h0] at h; cases h
    · rw [if_neg h0] at h
      cases himg : imagesOf L pid bp (List.range' a (b - a)) with
      | error e => rw [himg] at h; cases h
      | ok imgs =>
        rw [himg] at h; simp only at h
        cases hsp : imgs.map Cursor.blockSpan with
        | nil => rw [hsp] at h; cases h
        | cons s0 rest =>
          rw [hsp] at h; simp only at h
          split at h
          · cases h
          · split at h
            · obtain ⟨rfl, s, hs⟩ := mkStmtCursor_ok h
              exact ⟨rfl, s, hs⟩
            · obtain ⟨rfl, blk, hb, hl⟩ := mkRegion_ok h
              exact ⟨rfl, blk, hb, hl⟩

end Fpy.Cursor.Proof
