/-
C18 — the frame property of the core-language evaluator, for EVERY function table:

  if every list reference in the environment is at or above `n`, and every heap cell at or above `n`
  references only cells at or above `n`, then evaluation leaves the first `n` cells of the heap exactly as
  they were, and whatever it returns or binds references only cells at or above `n`.

A program has no way to name a cell it was not handed: expressions contain no references, list
constructors allocate at the end, an indexed assignment writes a cell reached from a variable.
Proof: induction on the fuel, all twelve mutually recursive evaluator functions at once (`FrameAt`).
-/
import Fpy.Proof.FrameLemmas
namespace Fpy.C18
open Fpy Fpy.Lang

structure FrameAt (Φ : Funs) (n fuel : Nat) : Prop where
  E : ∀ σ μ C e v μ', EOK n σ → HOK n μ → evalE Φ fuel σ μ C e = .ok (v, μ') → Ext n μ μ' ∧ VGe n v
  Es : ∀ σ μ C es vs μ', EOK n σ → HOK n μ → evalEs Φ fuel σ μ C es = .ok (vs, μ') → Ext n μ μ' ∧ VGeL n vs
  Chain : ∀ σ μ C a ops rest v μ', EOK n σ → HOK n μ → evalChain Φ fuel σ μ C a ops rest = .ok (v, μ') → Ext n μ μ' ∧ VGe n v
  And : ∀ σ μ C es v μ', EOK n σ → HOK n μ → evalAnd Φ fuel σ μ C es = .ok (v, μ') → Ext n μ μ' ∧ VGe n v
  Or : ∀ σ μ C es v μ', EOK n σ → HOK n μ → evalOr Φ fuel σ μ C es = .ok (v, μ') → Ext n μ μ' ∧ VGe n v
  Comp : ∀ σ μ C ps its elt vs μ', EOK n σ → HOK n μ → evalComp Φ fuel σ μ C ps its elt = .ok (vs, μ') → Ext n μ μ' ∧ VGeL n vs
  Loop : ∀ σ μ C r i p ps its elt vs μ', EOK n σ → HOK n μ → n ≤ r →
    compLoop Φ fuel σ μ C r i p ps its elt = .ok (vs, μ') → Ext n μ μ' ∧ VGeL n vs
  S : ∀ σ μ C s o μ', EOK n σ → HOK n μ → evalS Φ fuel σ μ C s = .ok (o, μ') → Ext n μ μ' ∧ OutOK n o
  For : ∀ σ μ C r i p body o μ', EOK n σ → HOK n μ → n ≤ r →
    forLoop Φ fuel σ μ C r i p body = .ok (o, μ') → Ext n μ μ' ∧ OutOK n o
  B : ∀ σ μ C b o μ', EOK n σ → HOK n μ → evalB Φ fuel σ μ C b = .ok (o, μ') → Ext n μ μ' ∧ OutOK n o

theorem frame_zero (Φ : Funs) (n : Nat) : FrameAt Φ n 0 := by
  constructor
  · intro σ μ C e v μ' _ _ h; simp [evalE] at h
  · intro σ μ C es vs μ' _ _ h; simp [evalEs] at h
  · intro σ μ C a ops rest v μ' _ _ h; simp [evalChain] at h
  · intro σ μ C es v μ' _ _ h; simp [evalAnd] at h
  · intro σ μ C es v μ' _ _ h; simp [evalOr] at h
  · intro σ μ C ps its elt vs μ' _ _ h; simp [evalComp] at h
  · intro σ μ C r i p ps its elt vs μ' _ _ _ h; simp [compLoop] at h
  · intro σ μ C s o μ' _ _ h; simp [evalS] at h
  · intro σ μ C r i p body o μ' _ _ _ h; simp [forLoop] at h
  · intro σ μ C b o μ' _ _ h; simp [evalB] at h

section
variable {Φ : Funs} {n fuel : Nat} (ih : FrameAt Φ n fuel)
include ih

theorem stepE (σ : Env) (μ : Heap) (C : Ctx) (e : Expr) (v : Val) (μ' : Heap) (hσ : EOK n σ) (hμ : HOK n μ)
    (h : evalE Φ (fuel + 1) σ μ C e = .ok (v, μ')) : Ext n μ μ' ∧ VGe n v := by
  cases e with
  | var x =>
    simp only [evalE] at h
    split at h
    · rename_i w hw; cases h; exact ⟨ext_refl hμ, eok_get hσ hw⟩
    · cases h
  | bool b => simp only [evalE] at h; cases h; exact ⟨ext_refl hμ, trivial⟩
  | num x => simp only [evalE] at h; cases h; exact ⟨ext_refl hμ, trivial⟩
  | ctxLit c => simp only [evalE] at h; cases h; exact ⟨ext_refl hμ, trivial⟩
  | op o args =>
    simp only [evalE] at h
    bnd h with vs μ1 h1
    bnd1 h with ns h2
    bnd1 h with r h3
    cases h
    exact ⟨(ih.Es _ _ _ _ _ _ hσ hμ h1).1, trivial⟩
  | pred p a =>
    simp only [evalE] at h
    bnd h with w μ1 h1
    bnd1 h with x h2
    bnd1 h with b h3
    cases h
    exact ⟨(ih.E _ _ _ _ _ _ hσ hμ h1).1, trivial⟩
  | cmp ops args =>
    cases args with
    | nil => simp only [evalE] at h; cases h; exact ⟨ext_refl hμ, trivial⟩
    | cons a rest =>
      simp only [evalE] at h
      bnd h with av μ1 h1
      obtain ⟨e1, _⟩ := ih.E _ _ _ _ _ _ hσ hμ h1
      obtain ⟨e2, hv⟩ := ih.Chain _ _ _ _ _ _ _ _ hσ e1.1 h
      exact ⟨ext_trans e1 e2, hv⟩
  | not a =>
    simp only [evalE] at h
    bnd h with w μ1 h1
    bnd1 h with b h2
    cases h
    exact ⟨(ih.E _ _ _ _ _ _ hσ hμ h1).1, trivial⟩
  | and es => simp only [evalE] at h; exact ih.And _ _ _ _ _ _ hσ hμ h
  | or es => simp only [evalE] at h; exact ih.Or _ _ _ _ _ _ hσ hμ h
  | ite c t f =>
    simp only [evalE] at h
    bnd h with w μ1 h1
    bnd1 h with b h2
    obtain ⟨e1, _⟩ := ih.E _ _ _ _ _ _ hσ hμ h1
    split at h
    · obtain ⟨e2, hv⟩ := ih.E _ _ _ _ _ _ hσ e1.1 h; exact ⟨ext_trans e1 e2, hv⟩
    · obtain ⟨e2, hv⟩ := ih.E _ _ _ _ _ _ hσ e1.1 h; exact ⟨ext_trans e1 e2, hv⟩
  | tuple es =>
    simp only [evalE] at h
    bnd h with vs μ1 h1
    cases h
    obtain ⟨e1, hvs⟩ := ih.Es _ _ _ _ _ _ hσ hμ h1
    exact ⟨e1, vge_tuple hvs⟩
  | list es =>
    simp only [evalE] at h
    bnd h with vs μ1 h1
    simp only [alloc] at h
    cases h
    obtain ⟨e1, hvs⟩ := ih.Es _ _ _ _ _ _ hσ hμ h1
    obtain ⟨a1, a2, a3⟩ := hok_alloc e1.1 hvs
    exact ⟨⟨a1, a2.trans e1.2⟩, a3⟩
  | index a i =>
    simp only [evalE] at h
    bnd h with av μ1 h1
    bnd h with iv μ2 h2
    bnd1 h with l h3
    bnd1 h with k h4
    obtain ⟨e1, hav⟩ := ih.E _ _ _ _ _ _ hσ hμ h1
    obtain ⟨e2, _⟩ := ih.E _ _ _ _ _ _ hσ e1.1 h2
    split at h
    · rename_i w hw
      cases h
      exact ⟨ext_trans e1 e2, vgeL_getElem? (asSeq_vge e2.1 hav h3) hw⟩
    · cases h
  | slice a s t =>
    simp only [evalE] at h
    bnd h with av μ1 h1
    bnd h with sv μ2 h2
    bnd h with tv μ3 h3
    bnd1 h with l h4
    bnd1 h with si h5
    bnd1 h with ti h6
    obtain ⟨e1, hav⟩ := ih.E _ _ _ _ _ _ hσ hμ h1
    have e2 : Ext n μ1 μ2 := by
      cases s with
      | none => cases h2; exact ext_refl e1.1
      | some s' => simp only at h2; bnd h2 with w m h2'; cases h2; exact (ih.E _ _ _ _ _ _ hσ e1.1 h2').1
    have e3 : Ext n μ2 μ3 := by
      cases t with
      | none => cases h3; exact ext_refl e2.1
      | some t' => simp only at h3; bnd h3 with w m h3'; cases h3; exact (ih.E _ _ _ _ _ _ hσ e2.1 h3').1
    have hl : VGeL n l := asList_vge e3.1 hav h4
    split at h
    · cases h
    · split at h
      · cases h
      · split at h
        · cases h
        · simp only [alloc] at h
          cases h
          obtain ⟨a1, a2, a3⟩ := hok_alloc e3.1 (vgeL_take _ (vgeL_drop _ hl))
          exact ⟨⟨a1, a2.trans (ext_trans (ext_trans e1 e2) e3).2⟩, a3⟩
  | comp targets iters elt =>
    simp only [evalE] at h
    bnd h with vs μ1 h1
    simp only [alloc] at h
    cases h
    obtain ⟨e1, hvs⟩ := ih.Comp _ _ _ _ _ _ _ _ hσ hμ h1
    obtain ⟨a1, a2, a3⟩ := hok_alloc e1.1 hvs
    exact ⟨⟨a1, a2.trans e1.2⟩, a3⟩
  | len a =>
    simp only [evalE] at h
    bnd h with w μ1 h1
    bnd1 h with l h2
    cases h
    exact ⟨(ih.E _ _ _ _ _ _ hσ hμ h1).1, trivial⟩
  | range args =>
    simp only [evalE] at h
    bnd h with vs μ1 h1
    bnd1 h with ints h2
    obtain ⟨⟨a, b, st⟩, h3, h⟩ := bind_ok h
    dsimp only at h
    obtain ⟨e1, _⟩ := ih.Es _ _ _ _ _ _ hσ hμ h1
    split at h
    · cases h
    · simp only [alloc] at h
      cases h
      obtain ⟨a1, a2, a3⟩ := hok_alloc e1.1 (vgeL_map_intVal n _ a st)
      exact ⟨⟨a1, a2.trans e1.2⟩, a3⟩
  | zip es =>
    simp only [evalE] at h
    bnd h with vs μ1 h1
    bnd1 h with ls h2
    obtain ⟨e1, hvs⟩ := ih.Es _ _ _ _ _ _ hσ hμ h1
    have hls := mapM_asList_vge e1.1 vs ls hvs h2
    split at h
    · simp only [alloc] at h
      cases h
      obtain ⟨a1, a2, a3⟩ := hok_alloc e1.1 (l := []) trivial
      exact ⟨⟨a1, a2.trans e1.2⟩, a3⟩
    · rename_i l0 rest
      split at h
      · cases h
      · simp only [alloc] at h
        cases h
        obtain ⟨a1, a2, a3⟩ := hok_alloc e1.1 (vgeL_zipRows _ hls l0.length)
        exact ⟨⟨a1, a2.trans e1.2⟩, a3⟩
  | enumerate a =>
    simp only [evalE] at h
    bnd h with w μ1 h1
    bnd1 h with l h2
    simp only [alloc] at h
    cases h
    obtain ⟨e1, hw⟩ := ih.E _ _ _ _ _ _ hσ hμ h1
    obtain ⟨a1, a2, a3⟩ := hok_alloc e1.1 (vgeL_enumRows (asList_vge e1.1 hw h2) l.length)
    exact ⟨⟨a1, a2.trans e1.2⟩, a3⟩
  | sum a =>
    simp only [evalE] at h
    bnd h with w μ1 h1
    bnd1 h with l h2
    obtain ⟨e1, _⟩ := ih.E _ _ _ _ _ _ hσ hμ h1
    split at h
    · cases h; exact ⟨e1, vge_intVal _ _⟩
    · bnd1 h with x0 h3
      bnd1 h with acc h4
      cases h; exact ⟨e1, trivial⟩
  | min es =>
    simp only [evalE] at h
    bnd h with vs μ1 h1
    bnd1 h with vals h2
    bnd1 h with m h3
    cases h
    exact ⟨(ih.Es _ _ _ _ _ _ hσ hμ h1).1, trivial⟩
  | max es =>
    simp only [evalE] at h
    bnd h with vs μ1 h1
    bnd1 h with vals h2
    bnd1 h with m h3
    cases h
    exact ⟨(ih.Es _ _ _ _ _ _ hσ hμ h1).1, trivial⟩
  | any a =>
    simp only [evalE] at h
    bnd h with w μ1 h1
    bnd1 h with l h2
    bnd1 h with bs h3
    cases h
    exact ⟨(ih.E _ _ _ _ _ _ hσ hμ h1).1, trivial⟩
  | all a =>
    simp only [evalE] at h
    bnd h with w μ1 h1
    bnd1 h with l h2
    bnd1 h with bs h3
    cases h
    exact ⟨(ih.E _ _ _ _ _ _ hσ hμ h1).1, trivial⟩
  | roundAt a m =>
    simp only [evalE] at h
    bnd h with av μ1 h1
    bnd h with nv μ2 h2
    bnd1 h with x h3
    bnd1 h with nn h4
    obtain ⟨e1, _⟩ := ih.E _ _ _ _ _ _ hσ hμ h1
    obtain ⟨e2, _⟩ := ih.E _ _ _ _ _ _ hσ e1.1 h2
    repeat' split at h
    all_goals first
      | (cases h; done)
      | (bnd1 h with r hr; cases h; exact ⟨ext_trans e1 e2, trivial⟩)
  | call f args =>
    simp only [evalE] at h
    bnd h with vs μ1 h1
    obtain ⟨e1, hvs⟩ := ih.Es _ _ _ _ _ _ hσ hμ h1
    split at h
    · -- no such FPy function: a rounding-context constructor (`ctxCtor`: no heap access, a `.ctx` value)
      obtain ⟨c, _, hc⟩ := map_ok h
      cases hc
      exact ⟨e1, trivial⟩
    · rename_i fd hfd
      split at h
      · cases h
      · bnd h with o μ2 h2
        have hσ0 : EOK n ((fd.params.zip vs).foldl (fun s (x, v) => s.set x v) []) :=
          eok_bindParams _ (fun s p => by cases p; rfl) fd.params vs [] (eok_nil n) hvs
        obtain ⟨e2, ho⟩ := ih.B _ _ _ _ _ _ hσ0 e1.1 h2
        split at h
        · cases h; exact ⟨ext_trans e1 e2, ho⟩
        · cases h

theorem stepEs (σ : Env) (μ : Heap) (C : Ctx) (es : List Expr) (vs : List Val) (μ' : Heap) (hσ : EOK n σ) (hμ : HOK n μ)
    (h : evalEs Φ (fuel + 1) σ μ C es = .ok (vs, μ')) : Ext n μ μ' ∧ VGeL n vs := by
  cases es with
  | nil => simp only [evalEs] at h; cases h; exact ⟨ext_refl hμ, trivial⟩
  | cons e es =>
    simp only [evalEs] at h
    bnd h with w μ1 h1
    bnd h with ws μ2 h2
    cases h
    obtain ⟨e1, hw⟩ := ih.E _ _ _ _ _ _ hσ hμ h1
    obtain ⟨e2, hws⟩ := ih.Es _ _ _ _ _ _ hσ e1.1 h2
    exact ⟨ext_trans e1 e2, hw, hws⟩

theorem stepChain (σ : Env) (μ : Heap) (C : Ctx) (a : Val) (ops : List CmpOp) (rest : List Expr) (v : Val) (μ' : Heap)
    (hσ : EOK n σ) (hμ : HOK n μ) (h : evalChain Φ (fuel + 1) σ μ C a ops rest = .ok (v, μ')) : Ext n μ μ' ∧ VGe n v := by
  cases ops with
  | nil => simp only [evalChain] at h; cases h; exact ⟨ext_refl hμ, trivial⟩
  | cons op ops =>
    cases rest with
    | nil => simp only [evalChain] at h; cases h; exact ⟨ext_refl hμ, trivial⟩
    | cons b rest =>
      simp only [evalChain] at h
      bnd h with bv μ1 h1
      bnd1 h with ok h2
      obtain ⟨e1, _⟩ := ih.E _ _ _ _ _ _ hσ hμ h1
      split at h
      · obtain ⟨e2, hv⟩ := ih.Chain _ _ _ _ _ _ _ _ hσ e1.1 h; exact ⟨ext_trans e1 e2, hv⟩
      · cases h; exact ⟨e1, trivial⟩

theorem stepAnd (σ : Env) (μ : Heap) (C : Ctx) (es : List Expr) (v : Val) (μ' : Heap) (hσ : EOK n σ) (hμ : HOK n μ)
    (h : evalAnd Φ (fuel + 1) σ μ C es = .ok (v, μ')) : Ext n μ μ' ∧ VGe n v := by
  cases es with
  | nil => simp only [evalAnd] at h; cases h; exact ⟨ext_refl hμ, trivial⟩
  | cons e es =>
    cases es with
    | nil => simp only [evalAnd] at h; exact ih.E _ _ _ _ _ _ hσ hμ h
    | cons e2 es =>
      simp only [evalAnd] at h
      bnd h with w μ1 h1
      bnd1 h with b h2
      obtain ⟨e1, _⟩ := ih.E _ _ _ _ _ _ hσ hμ h1
      split at h
      · obtain ⟨e2, hv⟩ := ih.And _ _ _ _ _ _ hσ e1.1 h; exact ⟨ext_trans e1 e2, hv⟩
      · cases h; exact ⟨e1, trivial⟩

theorem stepOr (σ : Env) (μ : Heap) (C : Ctx) (es : List Expr) (v : Val) (μ' : Heap) (hσ : EOK n σ) (hμ : HOK n μ)
    (h : evalOr Φ (fuel + 1) σ μ C es = .ok (v, μ')) : Ext n μ μ' ∧ VGe n v := by
  cases es with
  | nil => simp only [evalOr] at h; cases h; exact ⟨ext_refl hμ, trivial⟩
  | cons e es =>
    cases es with
    | nil => simp only [evalOr] at h; exact ih.E _ _ _ _ _ _ hσ hμ h
    | cons e2 es =>
      simp only [evalOr] at h
      bnd h with w μ1 h1
      bnd1 h with b h2
      obtain ⟨e1, _⟩ := ih.E _ _ _ _ _ _ hσ hμ h1
      split at h
      · cases h; exact ⟨e1, trivial⟩
      · obtain ⟨e2, hv⟩ := ih.Or _ _ _ _ _ _ hσ e1.1 h; exact ⟨ext_trans e1 e2, hv⟩

theorem stepComp (σ : Env) (μ : Heap) (C : Ctx) (ps : List Pat) (its : List Expr) (elt : Expr) (vs : List Val) (μ' : Heap)
    (hσ : EOK n σ) (hμ : HOK n μ) (h : evalComp Φ (fuel + 1) σ μ C ps its elt = .ok (vs, μ')) : Ext n μ μ' ∧ VGeL n vs := by
  cases ps with
  | nil =>
    simp only [evalComp] at h
    bnd h with w μ1 h1
    cases h
    obtain ⟨e1, hw⟩ := ih.E _ _ _ _ _ _ hσ hμ h1
    exact ⟨e1, hw, trivial⟩
  | cons p ps =>
    cases its with
    | nil => simp only [evalComp] at h; cases h
    | cons it its =>
      simp only [evalComp] at h
      bnd h with iv μ1 h1
      bnd1 h with l h2
      obtain ⟨e1, hiv⟩ := ih.E _ _ _ _ _ _ hσ hμ h1
      split at h
      · rename_i r
        obtain ⟨e2, hv⟩ := ih.Loop _ _ _ _ _ _ _ _ _ _ _ hσ e1.1 (by simpa [VGe] using hiv) h
        exact ⟨ext_trans e1 e2, hv⟩
      · cases h

theorem stepLoop (σ : Env) (μ : Heap) (C : Ctx) (r i : Nat) (p : Pat) (ps : List Pat) (its : List Expr) (elt : Expr)
    (vs : List Val) (μ' : Heap) (hσ : EOK n σ) (hμ : HOK n μ) (hr : n ≤ r)
    (h : compLoop Φ (fuel + 1) σ μ C r i p ps its elt = .ok (vs, μ')) : Ext n μ μ' ∧ VGeL n vs := by
  simp only [compLoop] at h
  bnd1 h with l h1
  have hl : VGeL n l := hok_get hμ hr h1
  split at h
  · cases h; exact ⟨ext_refl hμ, trivial⟩
  · rename_i x hx
    bnd1 h with σ1 h2
    bnd h with ws μ1 h3
    bnd h with zs μ2 h4
    cases h
    have hσ1 : EOK n σ1 := (bindPat_eok n fuel).1 _ _ _ _ hσ (vgeL_getElem? hl hx) h2
    obtain ⟨e1, hws⟩ := ih.Comp _ _ _ _ _ _ _ _ hσ1 hμ h3
    obtain ⟨e2, hzs⟩ := ih.Loop _ _ _ _ _ _ _ _ _ _ _ hσ e1.1 hr h4
    exact ⟨ext_trans e1 e2, vgeL_append hws hzs⟩

theorem stepFor (σ : Env) (μ : Heap) (C : Ctx) (r i : Nat) (p : Pat) (body : List Stmt) (o : Outcome) (μ' : Heap)
    (hσ : EOK n σ) (hμ : HOK n μ) (hr : n ≤ r)
    (h : forLoop Φ (fuel + 1) σ μ C r i p body = .ok (o, μ')) : Ext n μ μ' ∧ OutOK n o := by
  simp only [forLoop] at h
  bnd1 h with l h1
  have hl : VGeL n l := hok_get hμ hr h1
  split at h
  · cases h; exact ⟨ext_refl hμ, hσ⟩
  · rename_i x hx
    bnd1 h with σ1 h2
    bnd h with o1 μ1 h3
    have hσ1 : EOK n σ1 := (bindPat_eok n fuel).1 _ _ _ _ hσ (vgeL_getElem? hl hx) h2
    obtain ⟨e1, ho1⟩ := ih.B _ _ _ _ _ _ hσ1 hμ h3
    split at h
    · cases h; exact ⟨e1, ho1⟩
    · obtain ⟨e2, ho⟩ := ih.For _ _ _ _ _ _ _ _ _ ho1 e1.1 hr h
      exact ⟨ext_trans e1 e2, ho⟩

theorem stepB (σ : Env) (μ : Heap) (C : Ctx) (b : List Stmt) (o : Outcome) (μ' : Heap) (hσ : EOK n σ) (hμ : HOK n μ)
    (h : evalB Φ (fuel + 1) σ μ C b = .ok (o, μ')) : Ext n μ μ' ∧ OutOK n o := by
  cases b with
  | nil => simp only [evalB] at h; cases h; exact ⟨ext_refl hμ, hσ⟩
  | cons s ss =>
    simp only [evalB] at h
    bnd h with o1 μ1 h1
    obtain ⟨e1, ho1⟩ := ih.S _ _ _ _ _ _ hσ hμ h1
    split at h
    · cases h; exact ⟨e1, ho1⟩
    · obtain ⟨e2, ho⟩ := ih.B _ _ _ _ _ _ ho1 e1.1 h
      exact ⟨ext_trans e1 e2, ho⟩

theorem stepS (σ : Env) (μ : Heap) (C : Ctx) (s : Stmt) (o : Outcome) (μ' : Heap) (hσ : EOK n σ) (hμ : HOK n μ)
    (h : evalS Φ (fuel + 1) σ μ C s = .ok (o, μ')) : Ext n μ μ' ∧ OutOK n o := by
  cases s with
  | assign p e =>
    simp only [evalS] at h
    bnd h with w μ1 h1
    bnd1 h with σ1 h2
    cases h
    obtain ⟨e1, hw⟩ := ih.E _ _ _ _ _ _ hσ hμ h1
    exact ⟨e1, (bindPat_eok n fuel).1 _ _ _ _ hσ hw h2⟩
  | iassign x idxs e =>
    simp only [evalS] at h
    bnd h with w μ0 h1
    bnd h with ivs μ1 h2
    bnd1 h with ks h3
    obtain ⟨e1, hw⟩ := ih.E _ _ _ _ _ _ hσ hμ h1
    obtain ⟨e2, _⟩ := ih.Es _ _ _ _ _ _ hσ e1.1 h2
    split at h
    · cases h
    · rename_i base hbase
      obtain ⟨⟨r, k⟩, h4, h⟩ := bind_ok h
      dsimp only at h
      bnd1 h with l h5
      have hr : n ≤ r := walk_ge e2.1 ks base r k (eok_get hσ hbase) h4
      have hl : VGeL n l := hok_get e2.1 hr h5
      split at h
      · cases h
        obtain ⟨s1, s2⟩ := hok_set e2.1 hr (vgeL_set (k := k) hl hw)
        exact ⟨⟨s1, s2.trans (ext_trans e1 e2).2⟩, hσ⟩
      · cases h
  | ifte c t f =>
    simp only [evalS] at h
    bnd h with w μ1 h1
    bnd1 h with b h2
    obtain ⟨e1, _⟩ := ih.E _ _ _ _ _ _ hσ hμ h1
    split at h
    · obtain ⟨e2, ho⟩ := ih.B _ _ _ _ _ _ hσ e1.1 h; exact ⟨ext_trans e1 e2, ho⟩
    · obtain ⟨e2, ho⟩ := ih.B _ _ _ _ _ _ hσ e1.1 h; exact ⟨ext_trans e1 e2, ho⟩
  | if1 c t =>
    simp only [evalS] at h
    bnd h with w μ1 h1
    bnd1 h with b h2
    obtain ⟨e1, _⟩ := ih.E _ _ _ _ _ _ hσ hμ h1
    split at h
    · obtain ⟨e2, ho⟩ := ih.B _ _ _ _ _ _ hσ e1.1 h; exact ⟨ext_trans e1 e2, ho⟩
    · cases h; exact ⟨e1, hσ⟩
  | «while» c body =>
    simp only [evalS] at h
    bnd h with w μ1 h1
    bnd1 h with b h2
    obtain ⟨e1, _⟩ := ih.E _ _ _ _ _ _ hσ hμ h1
    split at h
    · bnd h with o1 μ2 h3
      obtain ⟨e2, ho1⟩ := ih.B _ _ _ _ _ _ hσ e1.1 h3
      split at h
      · cases h; exact ⟨ext_trans e1 e2, ho1⟩
      · obtain ⟨e3, ho⟩ := ih.S _ _ _ _ _ _ ho1 e2.1 h
        exact ⟨ext_trans (ext_trans e1 e2) e3, ho⟩
    · cases h; exact ⟨e1, hσ⟩
  | «for» p it body =>
    simp only [evalS] at h
    bnd h with iv μ1 h1
    obtain ⟨e1, hiv⟩ := ih.E _ _ _ _ _ _ hσ hμ h1
    split at h
    · rename_i r
      obtain ⟨e2, ho⟩ := ih.For _ _ _ _ _ _ _ _ _ hσ e1.1 (by simpa [VGe] using hiv) h
      exact ⟨ext_trans e1 e2, ho⟩
    · cases h
  | «with» ce name body =>
    simp only [evalS] at h
    bnd h with cv μ1 h1
    obtain ⟨e1, hcv⟩ := ih.E _ _ _ _ _ _ hσ hμ h1
    split at h
    · rename_i C'
      cases name with
      | none =>
        simp only at h
        obtain ⟨e2, ho⟩ := ih.B _ _ _ _ _ _ hσ e1.1 h
        exact ⟨ext_trans e1 e2, ho⟩
      | some x =>
        simp only at h
        obtain ⟨e2, ho⟩ := ih.B _ _ _ _ _ _ (eok_set (x := x) (v := .ctx C') hσ trivial) e1.1 h
        exact ⟨ext_trans e1 e2, ho⟩
    · cases h
  | assert e =>
    simp only [evalS] at h
    bnd h with w μ1 h1
    bnd1 h with b h2
    obtain ⟨e1, _⟩ := ih.E _ _ _ _ _ _ hσ hμ h1
    split at h
    · cases h; exact ⟨e1, hσ⟩
    · cases h
  | effect e =>
    simp only [evalS] at h
    bnd h with w μ1 h1
    cases h
    exact ⟨(ih.E _ _ _ _ _ _ hσ hμ h1).1, hσ⟩
  | ret e =>
    simp only [evalS] at h
    bnd h with w μ1 h1
    cases h
    exact ih.E _ _ _ _ _ _ hσ hμ h1
  | pass => simp only [evalS] at h; cases h; exact ⟨ext_refl hμ, hσ⟩

end

theorem frameAt (Φ : Funs) (n : Nat) : ∀ fuel, FrameAt Φ n fuel := by
  intro fuel
  induction fuel with
  | zero => exact frame_zero Φ n
  | succ f ih =>
    exact ⟨stepE ih, stepEs ih, stepChain ih, stepAnd ih, stepOr ih, stepComp ih, stepLoop ih, stepS ih, stepFor ih, stepB ih⟩

/-- THE FRAME PROPERTY of the evaluator, for every function table. -/
theorem evalFrame (Φ : Funs) : EvalFrame Φ := by
  intro fuel n σ μ C body o μ' hσ hμ h
  exact (frameAt Φ n fuel).B σ μ C body o μ' hσ hμ h

end Fpy.C18
