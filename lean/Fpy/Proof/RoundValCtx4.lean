/-
Part 8 of the value-level helpers for C01: `MPBFixedContext` (all overflow modes, WRAP included)
and `EFloatContext` (the special-value fix-up after the bounded float rounding).
-/
import Fpy.Proof.RoundValCtx3
namespace Fpy.C01v
open Fpy Fpy.Spec

/-- `_to_ordinal` of a grid point is its value in units of the grid -/
theorem fixOrdinal_val (nmin : Int) (x : RF) (hg : OnGrid (nmin + 1) x.val) :
    x.val = ((fixOrdinal nmin x : Int) : Rat) * (2 : Rat) ^ (nmin + 1) := by
  unfold fixOrdinal
  by_cases hc : x.c = 0
  · simp [hc, RF.val_zero_c hc]
  · simp only [hc, if_false]
    have hsg : ∀ (c' : Nat), (((if x.s then -(c' : Int) else (c' : Int)) : Int) : Rat) = RF.sgn x.s * (c' : Rat) := by
      intro c'; cases x.s <;> simp [RF.sgn, Rat.intCast_neg, Rat.intCast_natCast, Rat.neg_mul]
    rw [hsg, RF.val_eq]
    by_cases h1 : x.exp - (nmin + 1) > 0
    · simp only [h1, if_true]
      have e : x.exp = ((x.exp - (nmin + 1)).toNat : Int) + (nmin + 1) := by omega
      generalize (x.exp - (nmin + 1)).toNat = j at e
      rw [e, RF.two_zpow_add, RF.two_zpow_nat, Rat.natCast_mul]
      grind
    · simp only [h1, if_false]
      by_cases h2 : x.exp - (nmin + 1) < 0
      · simp only [h2, if_true]
        have hle : x.exp ≤ nmin := by omega
        have hm := (onGrid_iff_mod x nmin hle).1 hg
        have ek : (-(x.exp - (nmin + 1))).toNat = (nmin + 1 - x.exp).toNat := by omega
        rw [ek]
        generalize hk : (nmin + 1 - x.exp).toNat = j at *
        have e : nmin + 1 = x.exp + (j : Int) := by omega
        have hcd : x.c = x.c / 2 ^ j * 2 ^ j := (Nat.div_mul_cancel (Nat.dvd_of_mod_eq_zero hm)).symm
        rw [e, RF.two_zpow_add, RF.two_zpow_nat]
        conv => lhs; rw [hcd, Rat.natCast_mul]
        grind
      · simp only [h2, if_false]
        have e : x.exp = nmin + 1 := by omega
        rw [e]

theorem rangeEnd_mem (c : MPBFixParams) (hwf : CtxWF (.mpbfix c)) (s : Bool) :
    CtxMember (.mpbfix c) (c.rangeEnd s).v := by
  obtain ⟨hpm, hnm, hn0, hp0, hps⟩ := hwf
  unfold MPBFixParams.rangeEnd
  cases s
  · simp only [Bool.false_eq_true, if_false]
    exact ⟨⟨hpm, by grind, Rat.le_refl⟩, fun _ h => by rw [hps] at h; cases h⟩
  · simp only [if_true]
    by_cases hz : (!(c.negMax.c != 0 && c.negMax.s)) = true
    · simp only [hz, if_true]
      refine ⟨⟨?_, ?_, ?_⟩, fun _ h => by cases h⟩
      · rw [RF.val_mk_zero]; exact onGrid_zero _
      · rw [RF.val_mk_zero]; exact hn0
      · rw [RF.val_mk_zero]; exact hp0
    · simp only [hz, Bool.false_eq_true, if_false]
      refine ⟨⟨hnm, Rat.le_refl, by grind⟩, ?_⟩
      intro h1 _
      exfalso; apply hz; simp [h1]

/-- `MPBFixedContext` -/
theorem mpbfix_round_mem (c : MPBFixParams) (hwf : CtxWF (.mpbfix c)) (v : FV) (r : Nat) (res : Res)
    (h : mpbfixRoundAt c v none false r = .ok res) :
    CtxMember (.mpbfix c) res.v ∨ CtxSubstitute (.mpbfix c) res.v := by
  have hre := rangeEnd_mem c hwf
  obtain ⟨hpm, hnm, hn0, hp0, hps⟩ := hwf
  unfold mpbfixRoundAt at h
  simp only at h
  cases hsp : fixedSpecial c.o v with
  | some e =>
    rw [hsp] at h
    exact fixedSpecial_mem (.mpbfix c) c.o rfl rfl rfl rfl v e hsp res h
  | none =>
    rw [hsp] at h
    cases v with
    | nan s => simp [fixedSpecial] at hsp
    | inf s => simp [fixedSpecial] at hsp
    | fin x =>
      simp only at h
      by_cases hc : x.c = 0
      · simp only [hc, if_true, Except.ok.injEq] at h
        left; rw [← h]
        refine ⟨by simp only [CtxFinMember]; rw [RF.val_mk_zero]; exact ⟨onGrid_zero _, hn0, hp0⟩, ?_⟩
        intro _ hs; simp only [Bool.and_eq_true] at hs; exact hs.2
      · simp only [hc, if_false] at h
        cases hr : x.round none (some c.nmin) c.rm c.k r false with
        | error e => rw [hr] at h; cases h
        | ok yf =>
          obtain ⟨y, fl⟩ := yf
          rw [hr] at h; simp only at h
          obtain ⟨-, hexp, -⟩ := fixed_round_any x c.nmin c.rm c.k r y fl hr
          have hg : OnGrid (c.nmin + 1) y.val := onGrid_of_le_exp y (c.nmin + 1) (by omega)
          by_cases hov : (if y.s then y.lt c.negMax else y.gt c.posMax) = true
          · simp only [hov, if_true, Bool.false_eq_true, if_false] at h
            cases hovm : c.ov with
            | assert => rw [hovm] at h; cases h
            | saturate =>
              rw [hovm] at h; simp only [Except.ok.injEq] at h
              left; rw [← h]; exact hre y.s
            | overflow =>
              rw [hovm] at h; simp only at h
              by_cases hti : overflowToInfinity c.rm y.s = true
              · simp only [hti, if_true] at h
                by_cases hen : c.o.enableInf = true
                · simp only [hen, if_true, Except.ok.injEq] at h
                  left; rw [← h]; exact hen
                · simp only [hen, Bool.false_eq_true, if_false] at h
                  cases hiv : c.o.infValue with
                  | none => rw [hiv] at h; cases h
                  | some iv =>
                    rw [hiv] at h; simp only [Except.ok.injEq] at h
                    right; left
                    exact ⟨by simpa [hasInf] using hen, iv, hiv, Or.inl (by rw [← h]; rfl)⟩
              · simp only [hti, Bool.false_eq_true, if_false, Except.ok.injEq] at h
                left; rw [← h]; exact hre y.s
            | wrap =>
              rw [hovm] at h; simp only [Except.ok.injEq] at h
              left; rw [← h]
              have hG := RF.two_zpow_pos (c.nmin + 1)
              have e1 := fixOrdinal_val c.nmin c.negMax hnm
              have e2 := fixOrdinal_val c.nmin c.posMax hpm
              have hle : fixOrdinal c.nmin c.negMax ≤ fixOrdinal c.nmin c.posMax := by
                apply Rat.intCast_le_intCast.1
                apply Rat.le_of_mul_le_mul_right _ hG
                rw [← e1, ← e2]; grind
              generalize fixOrdinal c.nmin c.negMax = a at *
              generalize fixOrdinal c.nmin c.posMax = b at *
              generalize fixOrdinal c.nmin y - a = d
              have htot : 0 < b - a + 1 := by omega
              have m1 := Int.emod_nonneg d (by omega : b - a + 1 ≠ 0)
              have m2 := Int.emod_lt_of_pos d htot
              generalize hm : d % (b - a + 1) + a = M at *
              have hMa : a ≤ M := by omega
              have hMb : M ≤ b := by omega
              have r1 : c.negMax.val ≤ (M : Rat) * (2 : Rat) ^ (c.nmin + 1) := by
                rw [e1]; exact Rat.mul_le_mul_of_nonneg_right (Rat.intCast_le_intCast.2 hMa) (Rat.le_of_lt hG)
              have r2 : (M : Rat) * (2 : Rat) ^ (c.nmin + 1) ≤ c.posMax.val := by
                rw [e2]; exact Rat.mul_le_mul_of_nonneg_right (Rat.intCast_le_intCast.2 hMb) (Rat.le_of_lt hG)
              simp only [setOvf]
              by_cases hM0 : M = 0
              · simp only [hM0, if_true]
                refine ⟨⟨?_, ?_, ?_⟩, fun _ h => by cases h⟩
                · rw [RF.val_mk_zero]; exact onGrid_zero _
                · rw [RF.val_mk_zero]; exact hn0
                · rw [RF.val_mk_zero]; exact hp0
              · simp only [hM0, if_false]
                refine ⟨⟨?_, ?_, ?_⟩, fun h _ => absurd h (by simp only; omega)⟩
                · rw [RF.val_ofSigned]; exact ⟨M, rfl⟩
                · rw [RF.val_ofSigned]; exact r1
                · rw [RF.val_ofSigned]; exact r2
          · simp only [hov, Bool.false_eq_true, if_false] at h
            obtain ⟨r1, r2⟩ := in_range_of_not c.negMax c.posMax y hn0 hp0 hov
            left
            by_cases hz : (y.c = 0 && y.s && !c.negZero) = true
            · simp only [hz, if_true, Except.ok.injEq] at h
              rw [← h]
              simp only [Bool.and_eq_true, decide_eq_true_eq] at hz
              refine ⟨?_, fun _ hs => by simp at hs⟩
              simp only [CtxFinMember, RepFixed]; rw [RF.val_zero_c (by exact hz.1.1)]
              exact ⟨onGrid_zero _, hn0, hp0⟩
            · simp only [hz, Bool.false_eq_true, if_false, Except.ok.injEq] at h
              rw [← h]
              refine ⟨⟨hg, r1, r2⟩, ?_⟩
              intro h1 h2
              simp only [hasNegZero]
              cases hnz : c.negZero with
              | true => rfl
              | false => exact absurd (by simp [h1, h2, hnz]) hz

end Fpy.C01v
