/-
C12 (round 2) — `for x in range(round(n))`: the list the core language iterates over, and the loop.
-/
import Fpy.Proof.FPCoreLLoop
import Fpy.Proof.LangMeta
set_option linter.unusedSimpArgs false
set_option linter.unusedVariables false
set_option linter.unusedSectionVars false
namespace Fpy.C12
open Fpy Fpy.Lang

/-! ### `range(round(n))` in the core language -/

theorem evalE_range (Φ : Funs) (n : Nat) (σ : Env) (μ : Heap) (C : Ctx) (args : List Expr) :
    evalE Φ (n + 1) σ μ C (.range args) =
      (do let (vs, μ') ← evalEs Φ n σ μ C args
          let ints ← vs.mapM (fun v => do
            match nvInt? (← asNum v) with | some i => .ok i | none => .error .valueError)
          let (a, b, st) ← (match ints with
            | [b] => .ok ((0 : Int), b, (1 : Int))
            | [a, b] => .ok (a, b, (1 : Int))
            | [a, b, c] => .ok (a, b, c)
            | _ => .error .typeError)
          if st = 0 then .error .valueError
          else
            let n : Nat := if st > 0 then ((b - a + st - 1) / st).toNat else ((a - b + (-st) - 1) / (-st)).toNat
            let l := (List.range n).map (fun (i : Nat) => intVal (a + st * (i : Int)))
            let (μ'', r) := alloc μ' l
            .ok (r, μ'')) := by
  simp only [evalE] <;> rfl

theorem nvInt_of_asIndex {r : NV} {n : Nat} (h : asIndex (.num r) = .ok n) : nvInt? r = some (n : Int) := by
  unfold asIndex at h
  simp only [asNum, bind, Except.bind] at h
  cases hi : nvInt? r with
  | none => rw [hi] at h; cases h
  | some i =>
    rw [hi] at h
    simp only at h
    split at h
    · cases h
    · next hneg =>
      simp only [Except.ok.injEq] at h
      congr 1
      omega

/-- the list `range(n)` allocates -/
def rangeVals (n : Nat) : List Val := (List.range n).map fun (i : Nat) => intVal (Int.ofNat i)

theorem evalE_rangeN (Φ : Funs) (f : Nat) (σ : Env) (μ : Heap) (C : Ctx) (n : Nat) (r : NV)
    (hr : opEval C .round [cvtReal (.q (n : Int) 1)] = .ok r) (hidx : asIndex (.num r) = .ok n) :
    evalE Φ (f + 5) σ μ C (.range [.op .round [.num (.q (n : Int) 1)]]) = .ok (.list μ.length, μ ++ [rangeVals n]) := by
  have hnv := nvInt_of_asIndex hidx
  rw [evalE_range, evalEs_cons, evalE_op, evalEs_cons, evalE_num]
  simp only [bind, Except.bind]
  rw [evalEs_nil]
  simp only [pure, Except.pure, List.mapM_cons, List.mapM_nil, bind, Except.bind, asNum, List.map_cons, List.map_nil, hr]
  rw [evalEs_nil]
  simp only [pure, Except.pure, List.mapM_cons, List.mapM_nil, bind, Except.bind, asNum, hnv, alloc]
  have h1 : ((1 : Int) = 0) = False := by simp
  simp only [h1, if_false]
  have h2 : ((1 : Int) > 0) = True := by simp
  simp only [h2, if_true]
  have h3 : (((n : Int) - 0 + 1 - 1) / 1).toNat = n := by simp
  rw [h3]
  have h4 : (fun (i : Nat) => intVal (0 + 1 * (i : Int))) = fun (i : Nat) => intVal (Int.ofNat i) := by
    funext i; simp
  rw [h4]
  rfl

theorem evalE_range_inv (Φ : Funs) (f : Nat) (σ : Env) (μ : Heap) (C : Ctx) (n : Nat) (r : NV) (iv : Val) (μ1 : Heap)
    (hr : opEval C .round [cvtReal (.q (n : Int) 1)] = .ok r) (hidx : asIndex (.num r) = .ok n)
    (hev : evalE Φ f σ μ C (.range [.op .round [.num (.q (n : Int) 1)]]) = .ok (iv, μ1)) :
    iv = .list μ.length ∧ μ1 = μ ++ [rangeVals n] := by
  have h1 := Fpy.Xform.evalE_fuel_mono (Nat.le_add_right f 5) hev (by simp)
  have h2 := evalE_rangeN Φ (f) σ μ C n r hr hidx
  have h3 : evalE Φ (f + 5) σ μ C (.range [.op .round [.num (.q (n : Int) 1)]]) = .ok (iv, μ1) := h1
  rw [h2] at h3
  simp only [Except.ok.injEq, Prod.mk.injEq] at h3
  exact ⟨h3.1.symm, h3.2.symm⟩

theorem rangeVals_get (n i : Nat) : (rangeVals n)[i]? = if i < n then some (intVal (Int.ofNat i)) else none := by
  by_cases h : i < n
  · simp [rangeVals, h]
  · simp [rangeVals, h, Nat.not_lt.mp h]

theorem range_drop (n i : Nat) (h : i < n) : (List.range n).drop i = i :: (List.range n).drop (i + 1) := by
  rw [List.drop_eq_getElem_cons (by simpa using h)]
  simp

theorem range_drop_ge (n i : Nat) (h : ¬ i < n) : (List.range n).drop i = [] := by
  apply List.drop_eq_nil_of_le
  simp; omega

theorem carrier_nt (M : List String) (hMT : ∀ x, x ∈ M → isTmpL x = false) : carrier M ≠ "%it" ∧ carrier M ≠ "%k" := by
  match M with
  | [] => simp [carrier]
  | [x] =>
    have := isTmpL_ne (hMT x (by simp))
    exact ⟨this.2.1, this.2.2.1⟩
  | x :: x2 :: rest => simp [carrier]

section
variable (Φ : Funs) (cfg : Cfg) (hord : OrdOK cfg)
include hord

variable {G M S : List String} {c : LExpr} {k : FExpr} {P : Props} {C : Ctx} {r0 : NV}
  (hG : ∀ y, y ∈ G → isTmpL y = false) (hMG : ∀ x, x ∈ M → x ∈ G) (hMS : ∀ x, x ∈ M → x ∈ S)
  (hSG : ∀ y, y ∈ S → isTmpL y = false → y ∈ G) (hcS : ∀ x, x ∈ c.vars → x ∈ S) (hcG : ∀ x, x ∈ c.vars → x ∈ G)
  (hkS : ∀ x, x ∈ fvF k → x ∈ S)
  (hP : P.toCtx = .ok C) (hr0 : opEval C .round [cvtReal (.q 0 1)] = .ok r0)
  (hCL : CtxLits C M.length) (hLi : LitsP (P.update intProps) M.length)
include hG hMG hMS hSG hcS hcG hkS hP hr0 hCL hLi

theorem for_core (f : Nat) (hB : ∀ g, g ≤ f → LBlockOK Φ cfg g) {x : String} {n r : Nat} {body : List LStmt} {B : FExpr}
    (hxt : isTmpL x = false) (hxG : x ∉ G) (hxa : x ∉ LStmt.asgL body)
    (hws : LStmt.wsL (x :: G) body) (hcB : compileLB cfg (x :: G) body (some (carryRet M)) = some B)
    (hl : LStmt.litsL (x :: G) P body)
    (hBS : ∀ y, y ∈ fvF B → y ∈ x :: S) (hmut : ∀ y, y ∈ LStmt.asgL body → y ∈ G → y ∈ M) :
    ∀ g, g ≤ f → ∀ (i : Nat) (σ : Env) (μ : Heap) (o : Outcome) (μ' : Heap),
      Lang.forLoop Φ g σ μ C r i (.var x) (LStmt.toLangs body) = .ok (o, μ') → μ[r]? = some (rangeVals n) → Bound G σ →
      HeapExt μ μ' ∧ ∃ σ', o = .normal σ' ∧ Bound G σ' ∧ (∀ y, y ∉ x :: LStmt.asgL body → σ'.get? y = σ.get? y) ∧
        ∀ ρ1, CarryRel M S ρ1 σ → ρ1.get? "%it" = some (.tuple (rangeVals n)) → ∀ v, KHyp P k σ' v →
          ConvF ρ1 P "%k" (((List.range n).drop i).map fun j => [j])
            [(carrier M, carryInit M, bind1 x (.ref (.var "%it") [.var "%k"]) (carryIn M B))] (carryIn M k) v := by
  have hMT : ∀ y, y ∈ M → isTmpL y = false := fun y hy => hG y (hMG y hy)
  have hxM : x ∉ M := fun h => hxG (hMG x h)
  obtain ⟨hx1, hx2, hx3, hx4, hx5⟩ := isTmpL_ne hxt
  intro g
  induction g with
  | zero => intro _ i σ μ o μ' hev; simp [Lang.forLoop] at hev
  | succ g ih =>
    intro hg i σ μ o μ' hev hμ hb
    have hbM : Bound M σ := fun y hy => hb y (hMG y hy)
    rw [lforLoop_succ] at hev
    simp only [heapGet, hμ, bind, Except.bind, rangeVals_get] at hev
    by_cases hin : i < n
    · simp only [hin, if_true] at hev
      cases g with
      | zero => simp [bindPat] at hev
      | succ g2 =>
        rw [bindPat_var] at hev
        simp only at hev
        cases h1 : evalB Φ (g2 + 1) (σ.set x (intVal (Int.ofNat i))) μ C (LStmt.toLangs body) with
        | error err => rw [h1] at hev; cases hev
        | ok r1 =>
          obtain ⟨o1, μ1⟩ := r1
          rw [h1] at hev
          simp only at hev
          have hbx : Bound (x :: G) (σ.set x (intVal (Int.ofNat i))) := by
            intro y hy
            rw [get?_set]
            split
            · exact ⟨_, rfl⟩
            · next hne =>
              rcases List.mem_cons.1 hy with e | e
              · exact absurd e hne
              · exact hb y e
          have hGx : ∀ y, y ∈ x :: G → isTmpL y = false := by
            intro y hy
            rcases List.mem_cons.1 hy with e | e
            · rw [e]; exact hxt
            · exact hG y e
          obtain ⟨hext, σb, rfl, hbnd, hkeep, hrunB⟩ :=
            body_run Φ cfg hord (hB (g2 + 1) (by omega)) h1 hGx hws hbx hcB hl hP hr0
              (fun y hy => List.mem_cons_of_mem _ (hMG y hy))
          simp only at hev
          have hbb : Bound G σb := fun y hy => hbnd y (gammaL_mono body (x :: G) y (List.mem_cons_of_mem _ hy))
          obtain ⟨hext2, σ', rfl, hb', hkeep2, hconv⟩ := ih (by omega) (i + 1) σb μ1 o μ' hev (hext r _ hμ) hbb
          have hkeepG : ∀ y, y ∉ x :: LStmt.asgL body → σb.get? y = σ.get? y := by
            intro y hy
            simp only [List.mem_cons, not_or] at hy
            rw [hkeep y hy.2, get?_set_ne _ _ _ _ hy.1]
          refine ⟨hext.trans hext2, σ', rfl, hb', fun y hy => by rw [hkeep2 y hy, hkeepG y hy], fun ρ1 hrel hit v hw => ?_⟩
          rw [range_drop n i hin, List.map_cons]
          -- the environment inside the body
          have hrelk : CarryRel M S (ρ1.set "%k" (intVal (Int.ofNat i))) σ := by
            refine ⟨fun hm => ?_, fun y hy ht hm => ?_⟩
            · rw [get?_set_ne _ _ _ _ (by decide)]; exact hrel.1 hm
            · rw [get?_set_ne _ _ _ _ (isTmpL_ne ht).2.2.1]; exact hrel.2 y hy ht hm
          have hmapeq : M.map (gv (σ.set x (intVal (Int.ofNat i)))) = M.map (gv σ) := by
            apply List.map_congr_left
            intro y hy
            have : y ≠ x := fun e => hxM (e ▸ hy)
            simp [gv, get?_set_ne _ _ _ _ this]
          have hrelx : CarryRel M (x :: S) ((ρ1.set "%k" (intVal (Int.ofNat i))).set x (intVal (Int.ofNat i)))
              (σ.set x (intVal (Int.ofNat i))) := by
            refine ⟨fun hm => ?_, fun y hy ht hm => ?_⟩
            · rw [get?_set_ne _ _ _ _ (Ne.symm hx1), hmapeq]; exact hrelk.1 hm
            · by_cases hyx : y = x
              · subst hyx; rw [get?_set_self, get?_set_self]
              · rw [get?_set_ne _ _ _ _ hyx, get?_set_ne _ _ _ _ hyx]
                rcases List.mem_cons.1 hy with e | e
                · exact absurd e hyx
                · exact hrelk.2 y e ht hm
          have cB : Conv ((ρ1.set "%k" (intVal (Int.ofNat i))).set x (intVal (Int.ofNat i))) P (carryIn M B) (carried M σb r0) :=
            conv_carryIn hP hrelx hCL hMT (fun y hy => hbx y (List.mem_cons_of_mem _ (hMG y hy)))
              (fun ρ2 hA2 => hrunB ρ2 (hA2.mono hBS))
          have cref : Conv (ρ1.set "%k" (intVal (Int.ofNat i))) P (.ref (.var "%it") [.var "%k"]) (intVal (Int.ofNat i)) :=
            conv_ref_var (by rw [get?_set_ne _ _ _ _ (by decide)]; exact hit) (get?_set_self _ _ _)
              (by rw [rangeVals_get]; simp [hin])
          have hstep : CarryRel M S ((ρ1.set "%k" (intVal (Int.ofNat i))).set (carrier M) (carried M σb r0)) σb :=
            carryRel_step hrelk hMT (fun y hy => hbb y (hMG y hy)) (fun y hy ht hyM => by
              have hyG := hSG y hy ht
              have hyx : y ≠ x := fun e => hxG (e ▸ hyG)
              rw [hkeep y (fun ha => hyM (hmut y ha hyG)), get?_set_ne _ _ _ _ hyx])
          refine convF_step (conv_let1 cref cB) (hconv _ hstep ?_ v hw)
          rw [get?_set_ne _ _ _ _ (fun e => (carrier_nt M hMT).1 e.symm), get?_set_ne _ _ _ _ (by decide)]
          exact hit
    · simp only [hin, if_false, pure, Except.pure, Except.ok.injEq, Prod.mk.injEq] at hev
      obtain ⟨rfl, rfl⟩ := hev
      refine ⟨HeapExt.refl _, σ, rfl, hb, fun _ _ => rfl, fun ρ1 hrel hit v hw => ?_⟩
      rw [range_drop_ge n i hin]
      exact convF_done (loop_exit cfg hord hG hMG hMS hSG hcS hcG hkS hP hr0 hCL hLi hrel hb hw)

end
end Fpy.C12
