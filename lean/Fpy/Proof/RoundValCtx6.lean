/-
Part 15 of the value-level helpers for C01: `_round_at` of every family on a finite non-zero dyadic
operand (deterministic rounding) is the correct rounding of its value; the bounded families return it
when it is in range and flag overflow exactly when it is not.
-/
import Fpy.Proof.RoundValRat5
namespace Fpy.C01v
open Fpy Fpy.Spec

/-- `inexact` is clear exactly when the result has the operand's value -/
theorem inexact_iff_eq {rm : RM} {u : Int} {q yv : Rat} {b : Bool} (h1 : yv = roundVal rm u q)
    (h2 : b = false ↔ OnGrid u q) : b = false ↔ yv = q := by
  rw [h2, h1, roundVal_eq_iff]

theorem mp_round_val (p : Nat) (rm : RM) (o : Opts) (hp : 1 ≤ p) (x : RF) (hx : x.c ≠ 0) :
    ∃ (y : RF) (fl : Flags), (Ctx.mp p rm (some 0) o).roundAtCore (.fin x) none false 0 = .ok ⟨.fin y, fl⟩ ∧
      bitLength y.c ≤ p ∧ y.val = roundVal rm (floatN x p none + 1) x.val ∧
      (fl.inexact = false ↔ y.val = x.val) := by
  obtain ⟨y, fl, hr, a, b, c, d, e⟩ := float_val x p none rm hx hp
  refine ⟨y, fl, ?_, b, d, inexact_iff_eq d e⟩
  simp only [Ctx.roundAtCore, floatSpecial, hx, if_false, hr]

theorem mps_round_val (p : Nat) (emin : Int) (rm : RM) (o : Opts) (hp : 1 ≤ p) (x : RF) (hx : x.c ≠ 0) :
    ∃ (y : RF) (fl : Flags), (Ctx.mps p emin rm (some 0) o).roundAtCore (.fin x) none false 0 = .ok ⟨.fin y, fl⟩ ∧
      bitLength y.c ≤ p ∧ y.exp > emin - p ∧
      y.val = roundVal rm (floatN x p (some (emin - p)) + 1) x.val ∧
      (fl.inexact = false ↔ y.val = x.val) := by
  obtain ⟨y, fl, hr, a, b, c, d, e⟩ := float_val x p (some (emin - p)) rm hx hp
  have := floatN_ge_nmin x p (emin - p)
  refine ⟨y, fl, ?_, b, by omega, d, inexact_iff_eq d e⟩
  simp only [Ctx.roundAtCore, floatSpecial, hx, if_false, hr]

theorem mpfix_round_val (nmin : Int) (rm : RM) (nz : Bool) (o : Opts) (x : RF) (hx : x.c ≠ 0) :
    ∃ (y : RF) (fl : Flags), (Ctx.mpfix nmin rm (some 0) nz o).roundAtCore (.fin x) none false 0 = .ok ⟨.fin y, fl⟩ ∧
      y.val = roundVal rm (nmin + 1) x.val ∧ (fl.inexact = false ↔ y.val = x.val) := by
  obtain ⟨y, fl, hr, a, b, c, d⟩ := fixed_round_total x nmin rm
  have hv := same_val_of_zero_flip y (!nz)
  refine ⟨if (y.c = 0 && y.s && !nz) = true then { y with s := false } else y, fl, ?_,
    by rw [hv]; exact c, by rw [hv]; exact inexact_iff_eq c d⟩
  simp only [Ctx.roundAtCore, fixedSpecial, hx, if_false, hr]
  split <;> rfl

theorem mpb_round_val (c : MPBParams) (hk : c.k = some 0) (hwf : CtxWF (.mpb c)) (x : RF) (hx : x.c ≠ 0) :
    ∃ (y : RF) (fl : Flags), bitLength y.c ≤ c.p ∧ y.exp > c.nmin ∧
      y.val = roundVal c.rm (floatN x c.p (some c.nmin) + 1) x.val ∧
      (fl.inexact = false ↔ y.val = x.val) ∧
      ((c.negMax.val ≤ y.val ∧ y.val ≤ c.posMax.val) →
        (Ctx.mpb c).roundAtCore (.fin x) none false 0 = .ok ⟨.fin y, fl⟩) ∧
      (∀ res, (Ctx.mpb c).roundAtCore (.fin x) none false 0 = .ok res →
        (res.fl.overflow = true ↔ (y.val < c.negMax.val ∨ c.posMax.val < y.val))) := by
  obtain ⟨y, fl, hr, a, b, cc, d, e⟩ := float_val x c.p (some c.nmin) c.rm hx hwf.1
  have := floatN_ge_nmin x c.p c.nmin
  have hr' : x.round (some c.p) (some c.nmin) c.rm c.k 0 false = .ok (y, fl) := by rw [hk]; exact hr
  refine ⟨y, fl, b, by omega, d, inexact_iff_eq d e, ?_, ?_⟩
  · intro hin
    exact Props.C01.mpb_in_range c x y fl hx hr'
      (not_overflowing_of_in_range c.negMax c.posMax y hwf.2.2.2.1 hwf.2.2.2.2 hin)
  · intro res h
    exact mpb_flag_overflow c hwf x hx 0 y fl hr' res h

theorem efloat_round_val (c : EFloatParams) (hk : c.k = some 0) (hwf : CtxWF (.efloat c)) (x : RF) (hx : x.c ≠ 0) :
    ∃ (y : RF) (fl : Flags), bitLength y.c ≤ c.mpb.p ∧ y.exp > c.mpb.nmin ∧
      y.val = roundVal c.rm (floatN x c.mpb.p (some c.mpb.nmin) + 1) x.val ∧
      (fl.inexact = false ↔ y.val = x.val) ∧
      ((c.mpb.negMax.val ≤ y.val ∧ y.val ≤ c.mpb.posMax.val) →
        ∃ y', y'.val = y.val ∧ (Ctx.efloat c).roundAtCore (.fin x) none false 0 = .ok ⟨.fin y', fl⟩) ∧
      (∀ res, (Ctx.efloat c).roundAtCore (.fin x) none false 0 = .ok res →
        (res.fl.overflow = true ↔ (y.val < c.mpb.negMax.val ∨ c.mpb.posMax.val < y.val))) := by
  have hwf' := wf_mpb_of_efloat c hwf
  have hk' : c.mpb.k = some 0 := by rw [EFloatParams.mpb_k]; exact hk
  obtain ⟨y, fl, hr, a, b, cc, d, e⟩ := float_val x c.mpb.p (some c.mpb.nmin) c.mpb.rm hx hwf.1
  have := floatN_ge_nmin x c.mpb.p c.mpb.nmin
  have hr' : x.round (some c.mpb.p) (some c.mpb.nmin) c.mpb.rm c.mpb.k 0 false = .ok (y, fl) := by
    rw [hk']; exact hr
  refine ⟨y, fl, b, by omega, d, inexact_iff_eq d e, ?_, ?_⟩
  · intro hin
    have := Props.C01.mpb_in_range c.mpb x y fl hx hr'
      (not_overflowing_of_in_range c.mpb.negMax c.mpb.posMax y hwf'.2.2.2.1 hwf'.2.2.2.2 hin)
    refine ⟨if (y.c = 0 && y.s && c.kind == NanKind.negZero) = true then { y with s := false } else y,
      same_val_of_zero_flip y _, ?_⟩
    unfold Ctx.roundAtCore
    simp only [this, efloatFixup]
    split <;> rfl
  · intro res h
    exact efloat_flag_overflow c hwf x hx 0 y fl hr' res h

theorem mpbfix_round_val (c : MPBFixParams) (hk : c.k = some 0) (hwf : CtxWF (.mpbfix c)) (x : RF) (hx : x.c ≠ 0) :
    ∃ (y : RF) (fl : Flags), y.exp > c.nmin ∧
      y.val = roundVal c.rm (c.nmin + 1) x.val ∧ (fl.inexact = false ↔ y.val = x.val) ∧
      ((c.negMax.val ≤ y.val ∧ y.val ≤ c.posMax.val) →
        ∃ y', y'.val = y.val ∧ (Ctx.mpbfix c).roundAtCore (.fin x) none false 0 = .ok ⟨.fin y', fl⟩) ∧
      (∀ res, (Ctx.mpbfix c).roundAtCore (.fin x) none false 0 = .ok res →
        (res.fl.overflow = true ↔ (y.val < c.negMax.val ∨ c.posMax.val < y.val))) := by
  obtain ⟨hpm, hnm, hn0, hp0, hps⟩ := hwf
  obtain ⟨y, fl, hr, a, b, cc, d⟩ := fixed_round_total x c.nmin c.rm
  have hr' : x.round none (some c.nmin) c.rm c.k 0 false = .ok (y, fl) := by rw [hk]; exact hr
  refine ⟨y, fl, b, cc, inexact_iff_eq cc d, ?_, ?_⟩
  · intro hin
    have hno := not_overflowing_of_in_range c.negMax c.posMax y hn0 hp0 hin
    refine ⟨if (y.c = 0 && y.s && !c.negZero) = true then { y with s := false } else y,
      same_val_of_zero_flip y _, ?_⟩
    unfold Ctx.roundAtCore mpbfixRoundAt fixedSpecial
    simp only [hx, if_false, hr', hno, Bool.false_eq_true]
    split <;> rfl
  · intro res h
    exact mpbfix_flag_overflow c ⟨hpm, hnm, hn0, hp0, hps⟩ x hx 0 y fl hr' res h

/-- `ExpContext` (powers of two only; anything else becomes NaN, the extreme values or the substitute) -/
theorem exp_round_mem (c : ExpParams) (v : FV) (res : Res) (h : expRoundAt c v none false = .ok res) :
    CtxMember (.exp c) res.v ∨ CtxSubstitute (.exp c) res.v := by
  have hnan : CtxMember (.exp c) (.nan false) := rfl
  have hbm : c.emin ≤ c.emax := by unfold ExpParams.emin ExpParams.emax; omega
  have hpow : ∀ e, c.emin ≤ e → e ≤ c.emax → CtxMember (.exp c) (.fin ⟨false, e, 1⟩) := fun e h1 h2 =>
    ⟨⟨e, h1, h2, by rw [RF.val_mk]; simp [RF.sgn]⟩, fun h => by simp at h⟩
  unfold expRoundAt at h
  simp only at h
  cases v with
  | nan s =>
    simp [floatSpecial] at h
    left; rw [← h]; exact hnan
  | inf s =>
    simp [floatSpecial] at h
    cases hiv : c.infValue with
    | none => rw [hiv] at h; simp only [Except.ok.injEq] at h; left; rw [← h]; exact hnan
    | some iv =>
      rw [hiv] at h; simp only [Except.ok.injEq] at h
      right; left
      exact ⟨rfl, iv, hiv, Or.inl (by rw [← h])⟩
  | fin x =>
    simp only [floatSpecial] at h
    by_cases hc : x.c = 0
    · simp [hc] at h
      left; rw [← h]; exact hnan
    · simp only [hc, if_false] at h
      cases hr : x.round (some 1) none c.rm (some 0) 0 false with
      | error e => rw [hr] at h; cases h
      | ok yf =>
        obtain ⟨y, fl⟩ := yf
        rw [hr] at h; simp only at h
        obtain ⟨-, hbl, -⟩ := float_round_any x 1 none c.rm (some 0) 0 y fl hc (by omega) hr
        by_cases hz : (decide (y.c = 0) || y.s) = true
        · simp only [hz, if_true, Except.ok.injEq] at h
          left; rw [← h]; exact hnan
        · simp only [hz, Bool.false_eq_true, if_false] at h
          have hz' : y.c ≠ 0 ∧ y.s = false := by
            simp only [Bool.or_eq_true, decide_eq_true_eq, not_or, Bool.not_eq_true] at hz; exact hz
          have hc1 : y.c = 1 := by
            have := (bitLength_le_iff y.c 1).1 hbl; omega
          have hb1 : bitLength 1 = 1 := by decide
          have he : y.e = y.exp := by unfold RF.e RF.p; rw [hc1, hb1]; omega
          by_cases h1 : y.e < c.emin
          · simp only [h1, if_true] at h
            cases hov : c.ov with
            | assert => rw [hov] at h; cases h
            | wrap => rw [hov] at h; cases h
            | saturate =>
              rw [hov] at h; simp only [Except.ok.injEq] at h
              left; rw [← h]; exact hpow _ (Int.le_refl _) hbm
            | overflow =>
              rw [hov] at h; simp only at h
              split at h <;> (simp only [Except.ok.injEq] at h; left; rw [← h])
              · exact hnan
              · exact hpow _ (Int.le_refl _) hbm
          · simp only [h1, if_false] at h
            by_cases h2 : y.e > c.emax
            · simp only [h2, if_true] at h
              cases hov : c.ov with
              | assert => rw [hov] at h; cases h
              | wrap => rw [hov] at h; cases h
              | saturate =>
                rw [hov] at h; simp only [Except.ok.injEq] at h
                left; rw [← h]; exact hpow _ hbm (Int.le_refl _)
              | overflow =>
                rw [hov] at h; simp only at h
                split at h <;> (simp only [Except.ok.injEq] at h; left; rw [← h])
                · exact hnan
                · exact hpow _ hbm (Int.le_refl _)
            · simp only [h2, if_false, Except.ok.injEq] at h
              left; rw [← h]
              have hy : y = ⟨false, y.exp, 1⟩ := by
                cases y; simp only at hz' hc1 ⊢; simp [hz'.2, hc1]
              rw [hy]
              exact hpow _ (by omega) (by omega)

/-- membership, all families at once -/
theorem round_mem_all (C : Ctx) (hwf : CtxWF C) (v : FV) (r : Nat) (res : Res)
    (h : C.roundAtCore v none false r = .ok res) : CtxMember C res.v ∨ CtxSubstitute C res.v := by
  cases C with
  | real =>
    simp only [Ctx.roundAtCore, Except.ok.injEq] at h
    left; rw [← h]
    cases v <;> simp [CtxMember, CtxFinMember, hasNegZero, hasInf, hasNan]
  | mp p rm k o => exact mp_round_mem p rm k o hwf v r res h
  | mps p emin rm k o => exact mps_round_mem p emin rm k o hwf v r res h
  | mpb c => exact mpb_round_mem c hwf v r res h
  | efloat c => exact efloat_round_mem c hwf v r res h
  | mpfix nmin rm k nz o => exact mpfix_round_mem nmin rm k nz o v r res h
  | mpbfix c => exact mpbfix_round_mem c hwf v r res h
  | exp c => exact exp_round_mem c v res h

end Fpy.C01v
