/-
C12 (round 2) — the loop-like statements: one-armed `if`, `while`, `for x in range(round(n))`.
What they share: the carried variables `M`, the body compiled with the continuation `carryRet M`.
-/
import Fpy.Proof.FPCoreLStmt1
set_option linter.unusedSimpArgs false
set_option linter.unusedVariables false
set_option linter.unusedSectionVars false
namespace Fpy.C12
open Fpy Fpy.Lang

/-! ### one-step unfoldings -/

theorem evalS_if1 (Φ : Funs) (n : Nat) (σ : Env) (μ : Heap) (C : Ctx) (c : Expr) (t : List Stmt) :
    evalS Φ (n + 1) σ μ C (.if1 c t) =
      (do let (v, μ') ← evalE Φ n σ μ C c
          if ← asBool v then evalB Φ n σ μ' C t else pure (.normal σ, μ')) := by
  simp only [evalS] <;> rfl

theorem evalS_while (Φ : Funs) (n : Nat) (σ : Env) (μ : Heap) (C : Ctx) (c : Expr) (body : List Stmt) :
    evalS Φ (n + 1) σ μ C (.while c body) =
      (do let (v, μ') ← evalE Φ n σ μ C c
          if ← asBool v then do
            let (o, μ'') ← evalB Φ n σ μ' C body
            match o with
            | .ret r => pure (.ret r, μ'')
            | .normal σ' => evalS Φ n σ' μ'' C (.while c body)
          else pure (.normal σ, μ')) := by
  simp only [evalS] <;> rfl

theorem evalS_for (Φ : Funs) (n : Nat) (σ : Env) (μ : Heap) (C : Ctx) (p : Pat) (it : Expr) (body : List Stmt) :
    evalS Φ (n + 1) σ μ C (.for p it body) =
      (do let (iv, μ') ← evalE Φ n σ μ C it
          match iv with
          | .list r => Lang.forLoop Φ n σ μ' C r 0 p body
          | _ => .error .typeError) := by
  simp only [evalS] <;> rfl

theorem lforLoop_succ (Φ : Funs) (n : Nat) (σ : Env) (μ : Heap) (C : Ctx) (r i : Nat) (p : Pat) (body : List Stmt) :
    Lang.forLoop Φ (n + 1) σ μ C r i p body =
      (do let l ← heapGet μ r
          match l[i]? with
          | none => pure (.normal σ, μ)
          | some x => do
            let σ' ← bindPat n p x σ
            let (o, μ') ← evalB Φ n σ' μ C body
            match o with
            | .ret v => pure (.ret v, μ')
            | .normal σ'' => Lang.forLoop Φ n σ'' μ' C r (i + 1) p body) := by
  simp only [Lang.forLoop] <;> rfl

/-- a condition of the subset evaluates to a boolean and leaves the heap alone -/
theorem cond_inv {α : Type} (Φ : Funs) (f : Nat) (σ : Env) (μ : Heap) (C : Ctx) (c : LExpr) (X Y : Heap → M α) (r : α)
    (h : (do let (v, μ') ← evalE Φ f σ μ C c.toLang
             if ← asBool v then X μ' else Y μ') = .ok r) :
    ∃ b, evalE Φ f σ μ C c.toLang = .ok (.bool b, μ) ∧ (if b then X μ else Y μ) = .ok r := by
  cases h1 : evalE Φ f σ μ C c.toLang with
  | error err => rw [h1] at h; cases h
  | ok r1 =>
    obtain ⟨v, μ1⟩ := r1
    rw [h1] at h
    simp only [bind, Except.bind] at h
    have hm := (lexpr_sound Φ f c σ μ C v μ1 h1).1
    subst hm
    cases v with
    | bool b => exact ⟨b, rfl, by simpa [asBool] using h⟩
    | _ => simp [asBool] at h

section
variable (Φ : Funs) (cfg : Cfg) (hord : OrdOK cfg)
include hord

/-- running the body of a loop-like statement (compiled with the continuation `carryRet M`) -/
theorem body_run {g : Nat} (hB : LBlockOK Φ cfg g) {body : List LStmt} {σ : Env} {μ μ' : Heap} {C : Ctx} {o : Outcome}
    (hev : evalB Φ g σ μ C (LStmt.toLangs body) = .ok (o, μ'))
    {G M : List String} {B : FExpr} {P : Props} {r0 : NV}
    (hG : ∀ y, y ∈ G → isTmpL y = false) (hws : LStmt.wsL G body) (hb : Bound G σ)
    (hcB : compileLB cfg G body (some (carryRet M)) = some B) (hl : LStmt.litsL G P body)
    (hP : P.toCtx = .ok C) (hr0 : opEval C .round [cvtReal (.q 0 1)] = .ok r0)
    (hMG : ∀ x, x ∈ M → x ∈ G) :
    HeapExt μ μ' ∧ ∃ σb, o = .normal σb ∧ Bound (LStmt.gammaL G body) σb ∧
      (∀ x, x ∉ LStmt.asgL body → σb.get? x = σ.get? x) ∧
      ∀ ρ2, AgreeL (fvF B) ρ2 σ → Conv ρ2 P B (carried M σb r0) := by
  have hpost0 := hB body σ μ C o μ' hev
  have hkf : ∀ k, some (carryRet M) = some k → FvIn (LStmt.gammaL G body) k := fun k hk => by
    cases hk; exact fvIn_carryRet (fun y hy => gammaL_mono body G y (hMG y hy))
  have hpost := fun G K E ρ P a1 a2 a3 a4 a5 a6 a7 a8 => (hpost0 G K E ρ P a1 a2 a3 a4 a5 a6 a7 a8).2
  refine ⟨(hpost0 G _ B σ P hG hws hb hcB hkf hP hl (agreeL_refl _ _)).1, ?_⟩
  have h0 := hpost G _ B σ P hG hws hb hcB hkf hP hl (agreeL_refl _ _)
  cases o with
  | ret v => unfold PostL at h0; exact absurd h0.1 (by simp)
  | normal σb =>
    unfold PostL at h0
    obtain ⟨hbnd, hkeep, _⟩ := h0
    refine ⟨σb, rfl, hbnd, hkeep, fun ρ2 hA => ?_⟩
    have h2 := hpost G _ B ρ2 P hG hws hb hcB hkf hP hl hA
    unfold PostL at h2
    obtain ⟨_, _, k, hk, himp⟩ := h2
    cases hk
    exact himp _ (fun ρ' hA' => conv_carryRet hP hr0 hA' (fun x hx => hG x (hMG x hx))
      (fun x hx => hbnd x (gammaL_mono body G x (hMG x hx))))

/-! ### the shared context of the three statements -/

variable {G M S : List String} {c : LExpr} {k : FExpr} {P : Props} {C : Ctx} {r0 : NV}
  (hG : ∀ y, y ∈ G → isTmpL y = false) (hMG : ∀ x, x ∈ M → x ∈ G) (hMS : ∀ x, x ∈ M → x ∈ S)
  (hSG : ∀ y, y ∈ S → isTmpL y = false → y ∈ G) (hcS : ∀ x, x ∈ c.vars → x ∈ S) (hcG : ∀ x, x ∈ c.vars → x ∈ G)
  (hkS : ∀ x, x ∈ fvF k → x ∈ S)
  (hP : P.toCtx = .ok C) (hr0 : opEval C .round [cvtReal (.q 0 1)] = .ok r0)
  (hCL : CtxLits C M.length) (hLi : LitsP (P.update intProps) M.length)
include hG hMG hMS hSG hcS hcG hkS hP hr0 hCL hLi

/-- leaving the statement: the continuation, after unpacking the carrier -/
theorem loop_exit {ρ1 σ' : Env} {v : Val} (hrel : CarryRel M S ρ1 σ') (hb : Bound G σ') (hw : KHyp P k σ' v) :
    Conv ρ1 P (carryIn M k) v :=
  conv_carryIn hP hrel hCL (fun x hx => hG x (hMG x hx)) (fun x hx => hb x (hMG x hx))
    (fun ρ2 hA2 => hw ρ2 (hA2.mono hkS))

theorem loop_cond {ρ1 σ : Env} {μ μ1 : Heap} {f : Nat} {cv : Val} (hrel : CarryRel M S ρ1 σ) (hb : Bound G σ)
    (hev : evalE Φ f σ μ C c.toLang = .ok (cv, μ1)) : Conv ρ1 P (carryCond M c) cv :=
  conv_carryCond hP Φ hrel hLi hcS (fun x hx => hG x (hcG x hx)) (fun x hx => hb x (hMG x hx)) hev

/-- the relation after one run of the body -/
theorem loop_step {body : List LStmt} (hmut : ∀ y, y ∈ LStmt.asgL body → y ∈ G → y ∈ M)
    {ρ1 σ σb : Env} (hrel : CarryRel M S ρ1 σ) (hbb : Bound G σb)
    (hkeep : ∀ x, x ∉ LStmt.asgL body → σb.get? x = σ.get? x) :
    CarryRel M S (ρ1.set (carrier M) (carried M σb r0)) σb :=
  carryRel_step hrel (fun x hx => hG x (hMG x hx)) (fun x hx => hbb x (hMG x hx))
    (fun y hy ht hyM => hkeep y (fun ha => hyM (hmut y ha (hSG y hy ht))))

/-! ### one-armed `if` -/

theorem if1_core {f : Nat} (hB : LBlockOK Φ cfg f) {t : List LStmt} {B : FExpr}
    (hws : LStmt.wsL G t) (hcB : compileLB cfg G t (some (carryRet M)) = some B) (hl : LStmt.litsL G P t)
    (hBS : ∀ x, x ∈ fvF B → x ∈ S) (hmut : ∀ y, y ∈ LStmt.asgL t → y ∈ G → y ∈ M)
    {σ : Env} {μ μ' : Heap} {o : Outcome}
    (hev : evalS Φ (f + 1) σ μ C (.if1 c.toLang (LStmt.toLangs t)) = .ok (o, μ')) (hb : Bound G σ) :
    HeapExt μ μ' ∧ ∃ σ', o = .normal σ' ∧ Bound G σ' ∧ (∀ x, x ∉ LStmt.asgL t → σ'.get? x = σ.get? x) ∧
      ∀ ρ1, CarryRel M S ρ1 σ → ∀ v, KHyp P k σ' v →
        Conv ρ1 P (bind1 (carrier M) (.ite (carryCond M c) (carryIn M B) (carryInit M)) (carryIn M k)) v := by
  have hMT : ∀ x, x ∈ M → isTmpL x = false := fun x hx => hG x (hMG x hx)
  have hbM : Bound M σ := fun x hx => hb x (hMG x hx)
  rw [evalS_if1] at hev
  obtain ⟨b, hcv, hrun⟩ := cond_inv Φ f σ μ C c (fun μ1 => evalB Φ f σ μ1 C (LStmt.toLangs t))
    (fun μ1 => pure (.normal σ, μ1)) (o, μ') hev
  cases b with
  | false =>
    simp only [Bool.false_eq_true, if_false, pure, Except.pure, Except.ok.injEq, Prod.mk.injEq] at hrun
    obtain ⟨rfl, rfl⟩ := hrun
    refine ⟨HeapExt.refl _, σ, rfl, hb, fun _ _ => rfl, fun ρ1 hrel v hw => ?_⟩
    have hc := loop_cond Φ cfg hord hG hMG hMS hSG hcS hcG hkS hP hr0 hCL hLi hrel hb hcv
    refine conv_let1 (conv_ite hc (by simpa using conv_carryInit hP hrel hr0 hMS hMT hbM)) ?_
    exact loop_exit cfg hord hG hMG hMS hSG hcS hcG hkS hP hr0 hCL hLi (carryRel_set hP hrel hMT hbM) hb hw
  | true =>
    simp only [if_true] at hrun
    obtain ⟨hext, σb, rfl, hbnd, hkeep, hrunB⟩ := body_run Φ cfg hord hB hrun hG hws hb hcB hl hP hr0 hMG
    have hbb : Bound G σb := fun x hx => hbnd x (gammaL_mono t G x hx)
    refine ⟨hext, σb, rfl, hbb, hkeep, fun ρ1 hrel v hw => ?_⟩
    have hc := loop_cond Φ cfg hord hG hMG hMS hSG hcS hcG hkS hP hr0 hCL hLi hrel hb hcv
    have cB : Conv ρ1 P (carryIn M B) (carried M σb r0) :=
      conv_carryIn hP hrel hCL hMT hbM (fun ρ2 hA2 => hrunB ρ2 (hA2.mono hBS))
    refine conv_let1 (conv_ite hc (by simpa using cB)) ?_
    exact loop_exit cfg hord hG hMG hMS hSG hcS hcG hkS hP hr0 hCL hLi
      (loop_step cfg hord hG hMG hMS hSG hcS hcG hkS hP hr0 hCL hLi hmut hrel hbb hkeep) hbb hw

/-! ### `while` -/

theorem while_core (f : Nat) (hB : ∀ g, g ≤ f → LBlockOK Φ cfg g) {body : List LStmt} {B : FExpr}
    (hws : LStmt.wsL G body) (hcB : compileLB cfg G body (some (carryRet M)) = some B) (hl : LStmt.litsL G P body)
    (hBS : ∀ x, x ∈ fvF B → x ∈ S) (hmut : ∀ y, y ∈ LStmt.asgL body → y ∈ G → y ∈ M) :
    ∀ g, g ≤ f + 1 → ∀ (σ : Env) (μ : Heap) (o : Outcome) (μ' : Heap),
      evalS Φ g σ μ C (.while c.toLang (LStmt.toLangs body)) = .ok (o, μ') → Bound G σ →
      HeapExt μ μ' ∧ ∃ σ', o = .normal σ' ∧ Bound G σ' ∧ (∀ x, x ∉ LStmt.asgL body → σ'.get? x = σ.get? x) ∧
        ∀ ρ1, CarryRel M S ρ1 σ → ∀ v, KHyp P k σ' v →
          ConvW ρ1 P (carryCond M c) [(carrier M, carryInit M, carryIn M B)] (carryIn M k) v := by
  have hMT : ∀ x, x ∈ M → isTmpL x = false := fun x hx => hG x (hMG x hx)
  intro g
  induction g with
  | zero => intro _ σ μ o μ' hev; simp [evalS] at hev
  | succ g ih =>
    intro hg σ μ o μ' hev hb
    have hbM : Bound M σ := fun x hx => hb x (hMG x hx)
    rw [evalS_while] at hev
    obtain ⟨b, hcv, hrun⟩ := cond_inv Φ g σ μ C c
      (fun μ1 => do
        let (o, μ'') ← evalB Φ g σ μ1 C (LStmt.toLangs body)
        match o with
        | .ret r => pure (.ret r, μ'')
        | .normal σ' => evalS Φ g σ' μ'' C (.while c.toLang (LStmt.toLangs body)))
      (fun μ1 => pure (.normal σ, μ1)) (o, μ') hev
    cases b with
    | false =>
      simp only [Bool.false_eq_true, if_false, pure, Except.pure, Except.ok.injEq, Prod.mk.injEq] at hrun
      obtain ⟨rfl, rfl⟩ := hrun
      refine ⟨HeapExt.refl _, σ, rfl, hb, fun _ _ => rfl, fun ρ1 hrel v hw => ?_⟩
      have hc := loop_cond Φ cfg hord hG hMG hMS hSG hcS hcG hkS hP hr0 hCL hLi hrel hb hcv
      exact convW_exit hc (loop_exit cfg hord hG hMG hMS hSG hcS hcG hkS hP hr0 hCL hLi hrel hb hw)
    | true =>
      simp only [if_true] at hrun
      cases h1 : evalB Φ g σ μ C (LStmt.toLangs body) with
      | error err => rw [h1] at hrun; cases hrun
      | ok r1 =>
        obtain ⟨o1, μ1⟩ := r1
        rw [h1] at hrun
        simp only [bind, Except.bind] at hrun
        obtain ⟨hext, σb, rfl, hbnd, hkeep, hrunB⟩ :=
          body_run Φ cfg hord (hB g (by omega)) h1 hG hws hb hcB hl hP hr0 hMG
        simp only at hrun
        have hbb : Bound G σb := fun x hx => hbnd x (gammaL_mono body G x hx)
        obtain ⟨hext2, σ', rfl, hb', hkeep2, hconv⟩ := ih (by omega) σb μ1 o μ' hrun hbb
        refine ⟨hext.trans hext2, σ', rfl, hb', fun x hx => by rw [hkeep2 x hx, hkeep x hx], fun ρ1 hrel v hw => ?_⟩
        have hc := loop_cond Φ cfg hord hG hMG hMS hSG hcS hcG hkS hP hr0 hCL hLi hrel hb hcv
        have cB : Conv ρ1 P (carryIn M B) (carried M σb r0) :=
          conv_carryIn hP hrel hCL hMT hbM (fun ρ2 hA2 => hrunB ρ2 (hA2.mono hBS))
        exact convW_step hc cB (hconv _
          (loop_step cfg hord hG hMG hMS hSG hcS hcG hkS hP hr0 hCL hLi hmut hrel hbb hkeep) v hw)

end
end Fpy.C12
